-- Root of the `BiscuitModel` library: model, lemmas, property theorems.
import BiscuitModel.Gen.Consts
import BiscuitModel.Model.Term
import BiscuitModel.Model.Symbols
import BiscuitModel.Model.Expr
import BiscuitModel.Model.Datalog
import BiscuitModel.Model.Authorizer
import BiscuitModel.Model.Intern
import BiscuitModel.Lemmas.Datalog
import BiscuitModel.Lemmas.Authorizer
import BiscuitModel.Props.C03
import BiscuitModel.Props.C04
import BiscuitModel.Props.C05
import BiscuitModel.Props.C10
import BiscuitModel.Props.C11
import BiscuitModel.Model.Limits
import BiscuitModel.Lemmas.Congr
import BiscuitModel.Props.C06
