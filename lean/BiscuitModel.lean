-- This module serves as the root of the `BiscuitModel` library.
-- Import modules here that should be built as part of the library.
import BiscuitModel.Basic
