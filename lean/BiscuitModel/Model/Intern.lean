/-
  Interning of a string-level program into the authorizer's symbol and public-key
  tables, in the traversal order of the code (`Convert::convert` of the builder
  types; `load_and_translate_block`; `AuthorizerBuilder::build_inner`;
  `authorize_inner`).

  A string-level program uses the same `Term`/`Op`/`Rule` types, with every symbol
  position (string terms, variable names, predicate names, closure parameters,
  extern names, map keys) holding an index into a *pool* of strings supplied with
  the case, and every public key position holding an abstract key identity.
  Sets and maps are in the iteration order of the builder's collections and are
  re-sorted by the interned indices, as `collect()` into a `BTreeSet` does.
-/
import BiscuitModel.Model.Authorizer
namespace Biscuit

structure ITable where
  syms : SymbolTable
  keys : List Nat
  deriving Repr, Inhabited

def ITable.empty : ITable := ⟨⟨[]⟩, []⟩

def internSym (pool : List Str) (t : ITable) (i : Nat) : ITable × Nat :=
  let (s', idx) := t.syms.insert (pool.getD i [])
  ({ t with syms := s' }, idx)

def keyIndex (k : Nat) : List Nat → Option Nat
  | [] => none
  | x :: xs => if x = k then some 0 else (keyIndex k xs).map (· + 1)

/-- `PublicKeys::insert` -/
def internKey (t : ITable) (k : Nat) : ITable × Nat :=
  match keyIndex k t.keys with
  | some i => (t, i)
  | none => ({ t with keys := t.keys ++ [k] }, t.keys.length)

mutual
def internTerm (pool : List Str) (t : ITable) : Term → ITable × Term
  | .var v => let (t', i) := internSym pool t v; (t', .var i)
  | .str s => let (t', i) := internSym pool t s; (t', .str i)
  | .set xs => let (t', ys) := internTerms pool t xs; (t', .set (setOfList ys))
  | .arr xs => let (t', ys) := internTerms pool t xs; (t', .arr ys)
  | .map kvs => let (t', ys) := internKVs pool t kvs; (t', .map (mapOfList ys))
  | x => (t, x)
def internTerms (pool : List Str) (t : ITable) : List Term → ITable × List Term
  | [] => (t, [])
  | x :: xs =>
    let (t1, y) := internTerm pool t x
    let (t2, ys) := internTerms pool t1 xs
    (t2, y :: ys)
def internKVs (pool : List Str) (t : ITable) : List (MapKey × Term) → ITable × List (MapKey × Term)
  | [] => (t, [])
  | (k, x) :: rest =>
    let (t1, k') := match k with
      | .int i => (t, MapKey.int i)
      | .str s => let (t', i) := internSym pool t s; (t', MapKey.str i)
    let (t2, y) := internTerm pool t1 x
    let (t3, ys) := internKVs pool t2 rest
    (t3, (k', y) :: ys)
end

def internNats (pool : List Str) (t : ITable) : List Nat → ITable × List Nat
  | [] => (t, [])
  | x :: xs =>
    let (t1, y) := internSym pool t x
    let (t2, ys) := internNats pool t1 xs
    (t2, y :: ys)

mutual
def internOp (pool : List Str) (t : ITable) : Op → ITable × Op
  | .value x => let (t', y) := internTerm pool t x; (t', .value y)
  | .unary (.ffi n) => let (t', i) := internSym pool t n; (t', .unary (.ffi i))
  | .unary u => (t, .unary u)
  | .binary (.ffi n) => let (t', i) := internSym pool t n; (t', .binary (.ffi i))
  | .binary b => (t, .binary b)
  | .closure ps ops =>
    let (t1, ps') := internNats pool t ps
    let (t2, ops') := internOps pool t1 ops
    (t2, .closure ps' ops')
def internOps (pool : List Str) (t : ITable) : List Op → ITable × List Op
  | [] => (t, [])
  | o :: os =>
    let (t1, o') := internOp pool t o
    let (t2, os') := internOps pool t1 os
    (t2, o' :: os')
end

def internPred (pool : List Str) (t : ITable) (p : Predicate) : ITable × Predicate :=
  let (t1, n) := internSym pool t p.name
  let (t2, ts) := internTerms pool t1 p.terms
  (t2, ⟨n, ts⟩)

def internList {α : Type} (f : ITable → α → ITable × α) (t : ITable) : List α → ITable × List α
  | [] => (t, [])
  | x :: xs =>
    let (t1, y) := f t x
    let (t2, ys) := internList f t1 xs
    (t2, y :: ys)

def internScope (t : ITable) : Scope → ITable × Scope
  | .publicKey k => let (t', i) := internKey t k; (t', .publicKey i)
  | s => (t, s)

/-- `builder::Rule::convert`: head, body, expressions, scopes -/
def internQRule (pool : List Str) (t : ITable) (q : QRule) : ITable × QRule :=
  let (t1, h) := internPred pool t q.rule.head
  let (t2, b) := internList (internPred pool) t1 q.rule.body
  let (t3, e) := internList (internOps pool) t2 q.rule.exprs
  let (t4, s) := internList internScope t3 q.scopes
  (t4, ⟨⟨h, b, e⟩, s⟩)

def internCheck (pool : List Str) (t : ITable) (c : Check) : ITable × Check :=
  let (t1, qs) := internList (internQRule pool) t c.queries
  (t1, ⟨c.kind, qs⟩)

def internPolicy (pool : List Str) (t : ITable) (p : Policy) : ITable × Policy :=
  let (t1, qs) := internList (internQRule pool) t p.queries
  (t1, ⟨p.kind, qs⟩)

/-- `load_and_translate_block`: scopes, facts, rules, checks -/
def internBlock (pool : List Str) (t : ITable) (b : Block) : ITable × Block :=
  let (t1, sc) := internList internScope t b.scopes
  let (t2, fs) := internList (internPred pool) t1 b.facts
  let (t3, rs) := internList (internQRule pool) t2 b.rules
  let (t4, cs) := internList (internCheck pool) t3 b.checks
  -- the external key was registered before any block was loaded
  let ek := b.extKey.bind fun k => keyIndex k t4.keys
  (t4, ⟨fs, rs, cs, sc, ek⟩)

def internExtKeys (t : ITable) : List Block → ITable
  | [] => t
  | b :: rest =>
    match b.extKey with
    | some k => internExtKeys (internKey t k).1 rest
    | none => internExtKeys t rest

/-- the whole case: external keys of all blocks, the blocks in order, the authorizer's scopes,
    facts and rules (build), then its checks and policies (authorize) -/
def internCase (pool : List Str) (blocks : List Block) (az : AuthorizerData) :
    ITable × List Block × AuthorizerData :=
  let t0 := internExtKeys ITable.empty blocks
  let (t1, bs) := internList (internBlock pool) t0 blocks
  let (t2, sc) := internList internScope t1 az.scopes
  let (t3, fs) := internList (internPred pool) t2 az.facts
  let (t4, rs) := internList (internQRule pool) t3 az.rules
  let (t5, cs) := internList (internCheck pool) t4 az.checks
  let (t6, ps) := internList (internPolicy pool) t5 az.policies
  (t6, bs, ⟨fs, rs, cs, ps, sc⟩)

end Biscuit
