/-
  Conversion between blocks and their protobuf messages (`biscuit-auth/src/format/convert.rs`):
  `token_block_to_proto_block` / `proto_block_to_token_block` and the `v2` functions under them.

  The proto side (`PTerm`, `POp`, `PRule`, … `PBlock`) mirrors the messages of `schema.rs` at the
  level of their fields: a `oneof` that is not set is the constructor `empty`, enumerations are the
  raw numbers, optional fields are `Option`s.  The byte level (prost) is not modelled here.

  The decoder is written with the order of the code: which error is reported when a message has
  several faults is part of what the `convert` stream compares.

    * sets: `BTreeSet::insert` is "append unless already there", maps: `BTreeMap::insert` is
      "replace the value at that key, else append" — iteration order is left to the comparison;
    * the operator / check-kind / scope-type / set-element tables are regenerated from the source
      (`Gen/ConvTables.lean`);
    * `PublicKey::from_proto` is not modelled: a key of the message is `none` when it refuses it;
    * `get_schema_version` / `check_compatibility` are `Versions.blockFlags` / `compatErr`.
-/
import BiscuitModel.Model.Versions
import BiscuitModel.Gen.ConvTables
namespace Biscuit.Convert
open Biscuit

inductive PTerm where
  | empty
  | variable (v : Nat)
  | integer (i : Int)
  | string (s : Nat)
  | date (d : Nat)
  | bytes (b : List UInt8)
  | bool (b : Bool)
  | set (xs : List PTerm)
  | null
  | array (xs : List PTerm)
  | map (es : List (Option MapKey × PTerm))
  deriving Repr, Inhabited

inductive POp where
  | empty
  | value (t : PTerm)
  | unary (kind : Int) (ffi : Option Nat)
  | binary (kind : Int) (ffi : Option Nat)
  | closure (params : List Nat) (ops : List POp)
  deriving Repr, Inhabited

inductive PScope where
  | empty
  | scopeType (i : Int)
  | publicKey (i : Int)
  deriving Repr, DecidableEq, Inhabited

structure PPred where
  name : Nat
  terms : List PTerm
  deriving Repr, Inhabited

structure PRule where
  head : PPred
  body : List PPred
  exprs : List (List POp)
  scope : List PScope
  deriving Repr, Inhabited

structure PCheck where
  queries : List PRule
  kind : Option Int
  deriving Repr, Inhabited

structure PBlock where
  symbols : List Str
  context : Option Str
  version : Option Nat
  facts : List PPred
  rules : List PRule
  checks : List PCheck
  scope : List PScope
  /-- `none`: a key `PublicKey::from_proto` refuses -/
  publicKeys : List (Option Nat)
  deriving Repr, Inhabited

/-- a block as `token::Block` holds it -/
structure TBlock where
  symbols : List Str
  context : Option Str
  version : Nat
  core : Block
  publicKeys : List Nat
  deriving Repr, Inhabited

inductive ConvErr where
  | version
  | emptyId | setVariable | setSet | setMixed
  | opEmpty | unaryEmpty | unaryFfiMissing | unaryFfiExtra | binaryEmpty | binaryFfiMissing | binaryFfiExtra
  | checkKind | checkKindVersion | rejectVersion | thirdPartyVersion | scopesVersion
  | scopeType | scopeEmpty
  | badKey | keyOverlap | symbolOverlap
  | compat33 | compatScopes | compat31 | compatCheckAll
  deriving Repr, DecidableEq, Inhabited

abbrev R (α : Type) := Except ConvErr α

/-! ## terms -/

mutual
/-- `token_term_to_proto_id` -/
def termToProto : Term → PTerm
  | .var v => .variable v
  | .int i => .integer i
  | .str s => .string s
  | .date d => .date d
  | .bytes b => .bytes b
  | .bool b => .bool b
  | .set xs => .set (termsToProto xs)
  | .null => .null
  | .arr xs => .array (termsToProto xs)
  | .map kvs => .map (kvsToProto kvs)
def termsToProto : List Term → List PTerm
  | [] => []
  | t :: ts => termToProto t :: termsToProto ts
def kvsToProto : List (MapKey × Term) → List (Option MapKey × PTerm)
  | [] => []
  | (k, t) :: r => (some k, termToProto t) :: kvsToProto r
end

def PTerm.kind? : PTerm → Option TermK
  | .empty => none
  | .variable _ => some .var | .integer _ => some .int | .string _ => some .str | .date _ => some .date
  | .bytes _ => some .bytes | .bool _ => some .bool | .set _ => some .set | .null => some .null
  | .array _ => some .arr | .map _ => some .map

/-- the index a set element gets, or the error that refuses it -/
def setIndex (p : PTerm) : R Nat :=
  match p.kind? with
  | none => .error .emptyId
  | some .var => .error .setVariable
  | some .set => .error .setSet
  | some k =>
    match Gen.setElemKind.lookup k with
    | some n => .ok n
    | none => .error .emptyId

/-- `BTreeSet::insert` -/
def setInsert (acc : List Term) (t : Term) : List Term := if acc.any (Term.beq t) then acc else acc ++ [t]

/-- `BTreeMap::insert` -/
def mapInsert : List (MapKey × Term) → MapKey → Term → List (MapKey × Term)
  | [], k, t => [(k, t)]
  | (k', t') :: r, k, t => if k' = k then (k', t) :: r else (k', t') :: mapInsert r k t

mutual
/-- `proto_id_to_token_term` -/
def protoToTerm : PTerm → R Term
  | .empty => .error .emptyId
  | .variable v => .ok (.var v)
  | .integer i => .ok (.int i)
  | .string s => .ok (.str s)
  | .date d => .ok (.date d)
  | .bytes b => .ok (.bytes b)
  | .bool b => .ok (.bool b)
  | .set xs => match protoToSet xs none [] with | .ok s => .ok (.set s) | .error e => .error e
  | .null => .ok .null
  | .array xs => match protoToTerms xs with | .ok a => .ok (.arr a) | .error e => .error e
  | .map es => match protoToMap es [] with | .ok m => .ok (.map m) | .error e => .error e
/-- the loop over the elements of a set: kind check first, then the element itself -/
def protoToSet : List PTerm → Option Nat → List Term → R (List Term)
  | [], _, acc => .ok acc
  | p :: ps, kind, acc =>
    match setIndex p with
    | .error e => .error e
    | .ok idx =>
      if kind.isSome && kind != some idx then .error .setMixed
      else
        match protoToTerm p with
        | .error e => .error e
        | .ok t => protoToSet ps (some idx) (setInsert acc t)
def protoToTerms : List PTerm → R (List Term)
  | [] => .ok []
  | p :: ps =>
    match protoToTerm p with
    | .error e => .error e
    | .ok t => match protoToTerms ps with | .ok ts => .ok (t :: ts) | .error e => .error e
def protoToMap : List (Option MapKey × PTerm) → List (MapKey × Term) → R (List (MapKey × Term))
  | [], acc => .ok acc
  | (k, p) :: es, acc =>
    match k with
    | none => .error .emptyId
    | some k =>
      match protoToTerm p with
      | .error e => .error e
      | .ok t => protoToMap es (mapInsert acc k t)
end

/-! ## operators -/

def Unary.ffiName : Unary → Option Nat
  | .ffi n => some n
  | _ => none

def Binary.ffiName : Binary → Option Nat
  | .ffi n => some n
  | _ => none

def mkUnary : UnK → Option Nat → Option Unary
  | .negate, none => some .negate | .parens, none => some .parens | .length, none => some .length
  | .typeOf, none => some .typeOf | .ffi, some n => some (.ffi n)
  | _, _ => none

def mkBinary : BinK → Option Nat → Option Binary
  | .lessThan, none => some .lessThan | .greaterThan, none => some .greaterThan | .lessOrEqual, none => some .lessOrEqual
  | .greaterOrEqual, none => some .greaterOrEqual | .equal, none => some .equal | .contains, none => some .contains
  | .pfx, none => some .pfx | .sfx, none => some .sfx | .regex, none => some .regex | .add, none => some .add
  | .sub, none => some .sub | .mul, none => some .mul | .div, none => some .div | .and, none => some .and | .or, none => some .or
  | .intersection, none => some .intersection | .union, none => some .union | .bitwiseAnd, none => some .bitwiseAnd
  | .bitwiseOr, none => some .bitwiseOr | .bitwiseXor, none => some .bitwiseXor | .notEqual, none => some .notEqual
  | .heterogeneousEqual, none => some .heterogeneousEqual | .heterogeneousNotEqual, none => some .heterogeneousNotEqual
  | .lazyAnd, none => some .lazyAnd | .lazyOr, none => some .lazyOr | .all, none => some .all | .any, none => some .any
  | .get, none => some .get | .ffi, some n => some (.ffi n)
  | _, _ => none

/-- the arm of the decoding `match` for this kind number and this presence of an ffi name -/
def findArm {κ : Type} (table : List (Int × Bool × κ)) (kind : Int) (hasFfi : Bool) : Option κ :=
  match table.find? fun row => row.1 == kind && row.2.1 == hasFfi with
  | some row => some row.2.2
  | none => none

def decodeUnary (kind : Int) (ffi : Option Nat) : R Unary :=
  if !Gen.unaryKindNumbers.contains kind then .error .unaryEmpty
  else
    match (findArm Gen.decUnary kind ffi.isSome).bind fun k => mkUnary k ffi with
    | some u => .ok u
    | none => if ffi.isSome then .error .unaryFfiExtra else .error .unaryFfiMissing

def decodeBinary (kind : Int) (ffi : Option Nat) : R Binary :=
  if !Gen.binaryKindNumbers.contains kind then .error .binaryEmpty
  else
    match (findArm Gen.decBinary kind ffi.isSome).bind fun k => mkBinary k ffi with
    | some b => .ok b
    | none => if ffi.isSome then .error .binaryFfiExtra else .error .binaryFfiMissing

def encUnaryKind (u : Unary) : Int := (Gen.encUnary.lookup u.kind).getD (-1)
def encBinaryKind (b : Binary) : Int := (Gen.encBinary.lookup b.kind).getD (-1)

mutual
/-- `token_op_to_proto_op` -/
def opToProto : Op → POp
  | .value t => .value (termToProto t)
  | .unary u => .unary (encUnaryKind u) (Unary.ffiName u)
  | .binary b => .binary (encBinaryKind b) (Binary.ffiName b)
  | .closure ps ops => .closure ps (opsToProto ops)
def opsToProto : List Op → List POp
  | [] => []
  | o :: os => opToProto o :: opsToProto os
end

mutual
/-- `proto_op_to_token_op` -/
def protoToOp : POp → R Op
  | .empty => .error .opEmpty
  | .value t => match protoToTerm t with | .ok t => .ok (.value t) | .error e => .error e
  | .unary k f => match decodeUnary k f with | .ok u => .ok (.unary u) | .error e => .error e
  | .binary k f => match decodeBinary k f with | .ok b => .ok (.binary b) | .error e => .error e
  | .closure ps ops => match protoToOps ops with | .ok os => .ok (.closure ps os) | .error e => .error e
def protoToOps : List POp → R (List Op)
  | [] => .ok []
  | o :: os =>
    match protoToOp o with
    | .error e => .error e
    | .ok x => match protoToOps os with | .ok xs => .ok (x :: xs) | .error e => .error e
end

/-- first error, else all results: the `for … push(f(x)?)` loops and `collect::<Result<_, _>>()` -/
def mapR {α β : Type} (f : α → R β) : List α → R (List β)
  | [] => .ok []
  | x :: xs =>
    match f x with
    | .error e => .error e
    | .ok y => match mapR f xs with | .ok ys => .ok (y :: ys) | .error e => .error e

/-! ## scopes, predicates, rules, checks -/

def two63 : Nat := 9223372036854775808
def two64 : Nat := 18446744073709551616

/-- `token_scope_to_proto_scope` (`*i as i64`) -/
def scopeToProto : Scope → PScope
  | .authority => .scopeType Gen.scopeAuthority
  | .previous => .scopeType Gen.scopePrevious
  | .publicKey k => .publicKey (if k < two63 then (k : Int) else (k : Int) - (two64 : Int))

/-- `proto_scope_to_token_scope` (`*i as u64`) -/
def protoToScope : PScope → R Scope
  | .empty => .error .scopeEmpty
  | .scopeType i => if i = Gen.scopeAuthority then .ok .authority else if i = Gen.scopePrevious then .ok .previous else .error .scopeType
  | .publicKey i => .ok (.publicKey (i % (two64 : Int)).toNat)

def predToProto (p : Predicate) : PPred := ⟨p.name, termsToProto p.terms⟩

def protoToPred (p : PPred) : R Predicate :=
  match protoToTerms p.terms with
  | .ok ts => .ok ⟨p.name, ts⟩
  | .error e => .error e

/-- `token_rule_to_proto_rule` -/
def ruleToProto (q : QRule) : PRule :=
  ⟨predToProto q.rule.head, q.rule.body.map predToProto, q.rule.exprs.map opsToProto, q.scopes.map scopeToProto⟩

/-- `proto_rule_to_token_rule`: body, expressions, the version gate on scopes, scopes, head -/
def protoToRule (version : Nat) (r : PRule) : R QRule :=
  match mapR protoToPred r.body with
  | .error e => .error e
  | .ok body =>
    match mapR protoToOps r.exprs with
    | .error e => .error e
    | .ok exprs =>
      if version < Gen.datalog31 ∧ !r.scope.isEmpty then .error .scopesVersion
      else
        match mapR protoToScope r.scope with
        | .error e => .error e
        | .ok scopes =>
          match protoToPred r.head with
          | .error e => .error e
          | .ok head => .ok ⟨⟨head, body, exprs⟩, scopes⟩

def checkKindToProto (k : CheckKind) : Option Int := (Gen.encCheckKind.lookup k).getD none

def checkToProto (c : Check) : PCheck := ⟨c.queries.map ruleToProto, checkKindToProto c.kind⟩

def protoToCheckKind : Option Int → R CheckKind
  | none => .ok Gen.decCheckKindNone
  | some i => match Gen.decCheckKind.lookup i with | some k => .ok k | none => .error .checkKind

/-- `proto_check_to_token_check` -/
def protoToCheck (version : Nat) (c : PCheck) : R Check :=
  match mapR (protoToRule version) c.queries with
  | .error e => .error e
  | .ok qs => match protoToCheckKind c.kind with | .ok k => .ok ⟨k, qs⟩ | .error e => .error e

/-! ## blocks -/

/-- `token_block_to_proto_block` -/
def blockToProto (b : TBlock) : PBlock :=
  { symbols := b.symbols, context := b.context, version := some b.version,
    facts := b.core.facts.map predToProto, rules := b.core.rules.map ruleToProto,
    checks := b.core.checks.map checkToProto, scope := b.core.scopes.map scopeToProto,
    publicKeys := b.publicKeys.map some }

/-- the pass over the check kinds before the checks are converted -/
def checkKindsGate (version : Nat) : List PCheck → R Unit
  | [] => .ok ()
  | c :: cs =>
    if version < Gen.datalog31 ∧ c.kind.isSome then .error .checkKindVersion
    else if version < Gen.datalog33 ∧ c.kind = (Gen.encCheckKind.lookup CheckKind.reject).getD none then .error .rejectVersion
    else checkKindsGate version cs

/-- the loop `public_keys.insert_fallible(&PublicKey::from_proto(pk)?)?` -/
def loadKeys : List (Option Nat) → List Nat → R (List Nat)
  | [], acc => .ok acc
  | none :: _, _ => .error .badKey
  | some k :: ks, acc => if acc.contains k then .error .keyOverlap else loadKeys ks (acc ++ [k])

/-- `SchemaVersion::check_compatibility`, with the error it reports -/
def compatErr (f : Flags) (declared : Nat) : Option ConvErr :=
  let below33 := Decidable.decide (declared < Gen.datalog33)
  let below31 := Decidable.decide (declared < Gen.datalog31)
  let from31 := Decidable.decide (Gen.datalog31 ≤ declared)
  if (Gen.gate33Unconditional || (Gen.gate33Above31 && from31)) && below33 && f.v33 then some .compat33
  else if below31 then
    if Gen.gate31Scopes && f.scopes then some .compatScopes
    else if Gen.gate31Ops && f.v31 then some .compat31
    else if Gen.gate31CheckAll && f.checkAll then some .compatCheckAll
    else none
  else none

/-- `proto_block_to_token_block` -/
def protoToBlock (p : PBlock) (ext : Option Nat) : R TBlock :=
  let version := p.version.getD 0
  if !(Gen.minSchemaVersion ≤ version ∧ version ≤ Gen.maxSchemaVersion) then .error .version
  else
    match mapR protoToPred p.facts with
    | .error e => .error e
    | .ok facts =>
      match mapR (protoToRule version) p.rules with
      | .error e => .error e
      | .ok rules =>
        match (if version < Gen.maxSchemaVersion then checkKindsGate version p.checks else .ok ()) with
        | .error e => .error e
        | .ok () =>
          if version < Gen.datalog32 ∧ ext.isSome then .error .thirdPartyVersion
          else
            match mapR (protoToCheck version) p.checks with
            | .error e => .error e
            | .ok checks =>
              match mapR protoToScope p.scope with
              | .error e => .error e
              | .ok scopes =>
                match loadKeys p.publicKeys [] with
                | .error e => .error e
                | .ok keys =>
                  if p.symbols.any fun s => Gen.defaultSymbols.contains s then .error .symbolOverlap
                  else
                    let core : Block := ⟨facts, rules, checks, scopes, ext⟩
                    match compatErr (blockFlags codeTerm33 codeOp33 codeOp31 Gen.checkAllDetected Gen.rejectDetected core) version with
                    | some e => .error e
                    | none => .ok ⟨p.symbols, p.context, version, core, keys⟩

/-! ## snapshot blocks (`AuthorizerSnapshot`: the authorizer block and the token's blocks) -/

structure PSnapBlock where
  context : Option Str
  version : Option Nat
  facts : List PPred
  rules : List PRule
  checks : List PCheck
  scope : List PScope
  /-- `none`: no key; `some none`: a key `PublicKey::from_proto` refuses -/
  externalKey : Option (Option Nat)
  deriving Repr, Inhabited

/-- `token_block_to_proto_snapshot_block` (symbols and public keys are not part of the message) -/
def snapshotBlockToProto (b : TBlock) : PSnapBlock :=
  { context := b.context, version := some b.version,
    facts := b.core.facts.map predToProto, rules := b.core.rules.map ruleToProto,
    checks := b.core.checks.map checkToProto, scope := b.core.scopes.map scopeToProto,
    externalKey := b.core.extKey.map some }

/-- `proto_snapshot_block_to_token_block`: its own gate on check kinds (none at all at the lowest
    version), no third-party gate, no tables -/
def protoToSnapshotBlock (p : PSnapBlock) : R TBlock :=
  let version := p.version.getD 0
  if !(Gen.minSchemaVersion ≤ version ∧ version ≤ Gen.maxSchemaVersion) then .error .version
  else
    match mapR protoToPred p.facts with
    | .error e => .error e
    | .ok facts =>
      match mapR (protoToRule version) p.rules with
      | .error e => .error e
      | .ok rules =>
        if version = Gen.minSchemaVersion ∧ p.checks.any (fun c => c.kind.isSome) then .error .checkKindVersion
        else
          match mapR (protoToCheck version) p.checks with
          | .error e => .error e
          | .ok checks =>
            match mapR protoToScope p.scope with
            | .error e => .error e
            | .ok scopes =>
              match compatErr (blockFlags codeTerm33 codeOp33 codeOp31 Gen.checkAllDetected Gen.rejectDetected
                  ⟨facts, rules, checks, scopes, none⟩) version with
              | some e => .error e
              | none =>
                match p.externalKey with
                | some none => .error .badKey
                | some (some k) => .ok ⟨[], p.context, version, ⟨facts, rules, checks, scopes, some k⟩, []⟩
                | none => .ok ⟨[], p.context, version, ⟨facts, rules, checks, scopes, none⟩, []⟩

end Biscuit.Convert
