/-
  The handle and buffer protocol of the C API (C19), `biscuit-capi/src/lib.rs`.

  * a builder handle holds `Option<Builder>`; every `*_add_*` takes the builder out, applies a
    consuming operation and puts a builder back (`update_builder`);
  * a serialization function writes into a caller buffer whose size the caller obtained from
    the matching `*_size` function, through `copy_from_slice` on a slice of that announced
    size: a length mismatch is a panic, and a panic in an `extern "C"` function aborts the
    process.
-/
import BiscuitModel.Model.Wire
namespace Biscuit.CApi
open Biscuit Biscuit.Wire

inductive Outcome where
  | value            -- the call returns a value / true
  | error            -- the call reports an error through the error channel
  | abort            -- the process dies
  deriving DecidableEq, Repr, Inhabited

/-- a builder handle -/
structure Handle (β : Type) where
  slot : Option β

/-- `update_builder`: `None` only if an earlier call left the handle empty (then `expect` panics) -/
def Handle.update {β ε : Type} (h : Handle β) (op : β → Except ε β) : Handle β × Outcome :=
  match h.slot with
  | none => (h, .abort)
  | some b =>
    match op b with
    | .ok b' => (⟨some b'⟩, .value)
    | .error _ => (⟨some b⟩, .error)

/-- a call on an optional handle: a null handle is an invalid argument -/
def callAdd {β ε : Type} (h : Option (Handle β)) (op : β → Except ε β) : Option (Handle β) × Outcome :=
  match h with
  | none => (none, .error)
  | some h => let (h', o) := h.update op; (some h', o)

/-- a sequence of operations on one handle: the outcomes, in order -/
def runAdds {β ε : Type} (h : Handle β) : List (β → Except ε β) → Handle β × List Outcome
  | [] => (h, [])
  | op :: ops =>
    let (h', o) := h.update op
    let (h'', os) := runAdds h' ops
    (h'', o :: os)

/-- `copy_from_slice` into a buffer slice of the announced size -/
def copyInto (announced : Nat) (data : Bytes) : Outcome × Nat :=
  if data.length = announced then (.value, data.length) else (.abort, 0)

/-- the serialization of the sealed token: same blocks, the proof is a signature -/
def sealedBytes (c : Container) (sig : Bytes) : Bytes := encContainer { c with proof := .sealed sig }

def unsealedBytes (c : Container) : Bytes := encContainer c

/-- `biscuit_sealed_size` -/
def sealedSize (c : Container) (sig : Bytes) : Nat := (sealedBytes c sig).length

/-- `biscuit_serialized_size` -/
def serializedSize (c : Container) : Nat := (unsealedBytes c).length

/-- `public_key_serialize` / `key_pair_serialize`: the documented buffer is 32 bytes -/
def keyBuffer : Nat := 32

end Biscuit.CApi
