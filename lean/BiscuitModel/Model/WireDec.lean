/-
  Decoder for the protobuf encoding of the token container (`schema::Biscuit`), as prost
  decodes it: fields in any order, the last occurrence of a singular field wins, repeated
  fields accumulate, unknown fields are skipped, a known field with another wire type is an
  error.  Built on the generic field splitter of `Model/Keys`.
-/
import BiscuitModel.Model.Keys
namespace Biscuit.Wire
open Biscuit Biscuit.Keys Gen.Field

/-- all fields of a message -/
def decAll (bs : Bytes) : Option (List (Nat × WVal)) := decFields (bs.length + 1) bs

/-- last length-delimited occurrence of field `f`; `none` = wrong wire type -/
def getBytes (f : Nat) : List (Nat × WVal) → Option Bytes → Option (Option Bytes)
  | [], acc => some acc
  | (g, .bytes b) :: fs, acc => if g = f then getBytes f fs (some b) else getBytes f fs acc
  | (g, .varint _) :: fs, acc => if g = f then none else getBytes f fs acc

def getVarint (f : Nat) : List (Nat × WVal) → Option Nat → Option (Option Nat)
  | [], acc => some acc
  | (g, .varint n) :: fs, acc => if g = f then getVarint f fs (some n) else getVarint f fs acc
  | (g, .bytes _) :: fs, acc => if g = f then none else getVarint f fs acc

/-- every occurrence of the repeated field `f`, in order -/
def getAllBytes (f : Nat) : List (Nat × WVal) → Option (List Bytes)
  | [] => some []
  | (g, .bytes b) :: fs => if g = f then (getAllBytes f fs).map (b :: ·) else getAllBytes f fs
  | (g, .varint _) :: fs => if g = f then none else getAllBytes f fs

def decPubKey (bs : Bytes) : Option PubKey :=
  match decAll bs with
  | none => none
  | some fs =>
    match getVarint publicKey_algorithm fs none, getBytes publicKey_key fs none with
    | some a, some k => some ⟨(a.getD 0) % 2 ^ 32, k.getD []⟩
    | _, _ => none

def decExtSig (bs : Bytes) : Option ExtSig :=
  match decAll bs with
  | none => none
  | some fs =>
    match getBytes externalSignature_signature fs none, getBytes externalSignature_publicKey fs none with
    | some sig, some (some pk) =>
      match decPubKey pk with
      | some k => some ⟨k, sig.getD []⟩
      | none => none
    | _, _ => none

def decSBlock (bs : Bytes) : Option SBlock :=
  match decAll bs with
  | none => none
  | some fs =>
    match getBytes signedBlock_block fs none, getBytes signedBlock_nextKey fs none,
        getBytes signedBlock_signature fs none, getBytes signedBlock_externalSignature fs none,
        getVarint signedBlock_version fs none with
    | some data, some (some nk), some sig, some ext, some ver =>
      match decPubKey nk with
      | none => none
      | some k =>
        match ext with
        | none => some ⟨data.getD [], k, sig.getD [], none, ver.map (· % 2 ^ 32)⟩
        | some e =>
          match decExtSig e with
          | some x => some ⟨data.getD [], k, sig.getD [], some x, ver.map (· % 2 ^ 32)⟩
          | none => none
    | _, _, _, _, _ => none

/-- the `content` oneof of `Proof`: the last of `nextSecret` / `finalSignature` -/
def foldProof : List (Nat × WVal) → Option Proof → Option (Option Proof)
  | [], acc => some acc
  | (g, .bytes b) :: fs, acc =>
    if g = proof_nextSecret then foldProof fs (some (.secret b))
    else if g = proof_finalSignature then foldProof fs (some (.sealed b))
    else foldProof fs acc
  | (g, .varint _) :: fs, acc =>
    if g = proof_nextSecret ∨ g = proof_finalSignature then none else foldProof fs acc

def decProof (bs : Bytes) : Option Proof :=
  match decAll bs with
  | none => none
  | some fs => (foldProof fs none).join

def mapM' {α β : Type} (f : α → Option β) : List α → Option (List β)
  | [] => some []
  | x :: xs => match f x, mapM' f xs with
    | some y, some ys => some (y :: ys)
    | _, _ => none

def decContainer (bs : Bytes) : Option Container :=
  match decAll bs with
  | none => none
  | some fs =>
    match getVarint biscuit_rootKeyId fs none, getBytes biscuit_authority fs none,
        getAllBytes biscuit_blocks fs, getBytes biscuit_proof fs none with
    | some rk, some (some a), some bl, some (some p) =>
      match decSBlock a, mapM' decSBlock bl, decProof p with
      | some a', some bl', some p' => some ⟨rk.map (· % 2 ^ 32), a', bl', p'⟩
      | _, _, _ => none
    | _, _, _, _ => none

end Biscuit.Wire
