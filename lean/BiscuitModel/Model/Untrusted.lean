/-
  The checked accessors that stand between untrusted data and an index or a lookup (C09).

  Mirrors `Biscuit::block` / `UnverifiedBiscuit::block` (`token/mod.rs`, `token/unverified.rs`):
  every block accessor (`print_block_source`, `block_version`, `block_symbols`,
  `block_public_keys`, `block_external_key`) goes through it; and the symbol lookups of
  `datalog/symbol.rs` (`SymbolTable::get_symbol`, `TemporarySymbolTable::get_symbol`), which back
  every printer and every `convert_from`.
-/
import BiscuitModel.Model.Symbols
namespace Biscuit.Untrusted
open Biscuit

inductive AccessErr where
  | invalidBlockIndex
  deriving DecidableEq, Repr

/-- `Biscuit::block(index)`: index 0 is the authority block, index `i ≥ 1` is `blocks[i - 1]` -/
def blockAt {α : Type} (authority : α) (blocks : List α) (i : Nat) : Except AccessErr α :=
  if i = 0 then .ok authority
  else if i > blocks.length then .error .invalidBlockIndex
  else
    match blocks[i - 1]? with
    | some b => .ok b
    | none => .error .invalidBlockIndex

def blockCount {α : Type} (blocks : List α) : Nat := 1 + blocks.length

/-- `SymbolTable::print_symbol_default` -/
def printSymbolDefault (t : SymbolTable) (i : Nat) : Str :=
  match t.getSymbol i with
  | some s => s
  | none => "<".toUTF8.toList ++ (toString i).toUTF8.toList ++ "?>".toUTF8.toList

end Biscuit.Untrusted
