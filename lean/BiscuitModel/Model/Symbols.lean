/-
  Symbol interning (biscuit-auth/src/datalog/symbol.rs).
  Strings are UTF-8 byte lists: every string operation the engine performs
  (`len`, `starts_with`, `ends_with`, `contains`, concatenation) is defined on
  the UTF-8 bytes, so one representation serves both sides.
-/
import BiscuitModel.Gen.Consts
namespace Biscuit

abbrev Str := List UInt8

/-- First position of `s` in `xs` (`iter().position(..)`). -/
def indexOf (s : Str) : List Str → Option Nat
  | [] => none
  | x :: xs => if x = s then some 0 else (indexOf s xs).map (· + 1)

structure SymbolTable where
  symbols : List Str
  deriving Repr, DecidableEq, Inhabited

def SymbolTable.empty : SymbolTable := ⟨[]⟩

/-- `SymbolTable::get` -/
def SymbolTable.get (t : SymbolTable) (s : Str) : Option Nat :=
  match indexOf s Gen.defaultSymbols with
  | some i => some i
  | none => (indexOf s t.symbols).map (· + Gen.symbolOffset)

/-- `SymbolTable::insert` -/
def SymbolTable.insert (t : SymbolTable) (s : Str) : SymbolTable × Nat :=
  match indexOf s Gen.defaultSymbols with
  | some i => (t, i)
  | none =>
    match indexOf s t.symbols with
    | some i => (t, Gen.symbolOffset + i)
    | none => (⟨t.symbols ++ [s]⟩, Gen.symbolOffset + t.symbols.length)

/-- `SymbolTable::get_symbol` -/
def SymbolTable.getSymbol (t : SymbolTable) (i : Nat) : Option Str :=
  if Gen.symbolOffset ≤ i then t.symbols[i - Gen.symbolOffset]? else Gen.defaultSymbols[i]?

/-- `TemporarySymbolTable` : a base table plus strings created during evaluation. -/
structure TempSyms where
  base : SymbolTable
  extra : List Str
  deriving Repr, DecidableEq, Inhabited

def TempSyms.new (base : SymbolTable) : TempSyms := ⟨base, []⟩

def TempSyms.offset (t : TempSyms) : Nat := Gen.symbolOffset + t.base.symbols.length

def TempSyms.getSymbol (t : TempSyms) (i : Nat) : Option Str :=
  if t.offset ≤ i then t.extra[i - t.offset]? else t.base.getSymbol i

def TempSyms.insert (t : TempSyms) (s : Str) : TempSyms × Nat :=
  match t.base.get s with
  | some i => (t, i)
  | none =>
    match indexOf s t.extra with
    | some i => (t, t.offset + i)
    | none => ({ t with extra := t.extra ++ [s] }, t.offset + t.extra.length)

end Biscuit
