/-
  Protobuf wire encoding of the token container (`schema::Biscuit`, proto2, as prost emits
  it: fields in tag order, `required` fields always, `optional` fields when present).
  Field numbers come from `Gen/Schema.lean` (regenerated from schema.proto).
-/
import BiscuitModel.Model.Crypto
import BiscuitModel.Gen.Schema
namespace Biscuit.Wire
open Biscuit Gen.Field

/-- base-128 varint; `fuel` bounds the number of groups (10 suffice for 64 bits) -/
def varintAux : Nat → Nat → List UInt8
  | 0, n => [UInt8.ofNat (n % 128)]
  | fuel + 1, n => if n < 128 then [UInt8.ofNat n] else UInt8.ofNat (n % 128 + 128) :: varintAux fuel (n / 128)

def varint (n : Nat) : List UInt8 := varintAux 10 n

/-- key of a field: `(field_number << 3) | wire_type` -/
def key (field wireType : Nat) : List UInt8 := varint (field * 8 + wireType)

def fVarint (field n : Nat) : List UInt8 := key field 0 ++ varint n

def fBytes (field : Nat) (b : List UInt8) : List UInt8 := key field 2 ++ varint b.length ++ b

def encPubKey (k : PubKey) : List UInt8 :=
  fVarint publicKey_algorithm k.alg ++ fBytes publicKey_key k.bytes

def encExtSig (e : ExtSig) : List UInt8 :=
  fBytes externalSignature_signature e.sig ++ fBytes externalSignature_publicKey (encPubKey e.key)

def encSBlock (b : SBlock) : List UInt8 :=
  fBytes signedBlock_block b.data ++ fBytes signedBlock_nextKey (encPubKey b.nextKey) ++
    fBytes signedBlock_signature b.sig ++
    (match b.ext with | some e => fBytes signedBlock_externalSignature (encExtSig e) | none => []) ++
    (match b.version with | some v => fVarint signedBlock_version v | none => [])

def encProof : Proof → List UInt8
  | .secret sk => fBytes proof_nextSecret sk
  | .sealed sig => fBytes proof_finalSignature sig

def encContainer (c : Container) : List UInt8 :=
  (match c.rootKeyId with | some k => fVarint biscuit_rootKeyId k | none => []) ++
    fBytes biscuit_authority (encSBlock c.authority) ++
    (c.blocks.flatMap fun b => fBytes biscuit_blocks (encSBlock b)) ++
    fBytes biscuit_proof (encProof c.proof)

end Biscuit.Wire
