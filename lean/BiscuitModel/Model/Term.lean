/-
  Terms of the Datalog engine (biscuit-auth/src/datalog/mod.rs:19-37).

  `Term` mirrors `datalog::Term` constructor for constructor, in declaration
  order, because Rust's `derive(Ord)` orders values by variant index first and
  `BTreeSet<Term>` / `BTreeMap<MapKey, Term>` iterate in that order.
  Strings are symbol indices (`SymbolIndex = u64`), integers are `Int` with the
  i64 range enforced where the code enforces it (`inI64`).
-/
set_option linter.unusedSimpArgs false
namespace Biscuit

inductive MapKey where
  | int (i : Int)
  | str (s : Nat)
  deriving DecidableEq, Repr, Inhabited

inductive Term where
  | var (v : Nat)
  | int (i : Int)
  | str (s : Nat)
  | date (d : Nat)
  | bytes (b : List UInt8)
  | bool (b : Bool)
  | set (xs : List Term)
  | null
  | arr (xs : List Term)
  | map (kvs : List (MapKey × Term))
  deriving Repr, Inhabited

mutual
def Term.beq : Term → Term → Bool
  | .var a, .var b => a == b
  | .int a, .int b => a == b
  | .str a, .str b => a == b
  | .date a, .date b => a == b
  | .bytes a, .bytes b => a == b
  | .bool a, .bool b => a == b
  | .set a, .set b => Term.beqList a b
  | .null, .null => true
  | .arr a, .arr b => Term.beqList a b
  | .map a, .map b => Term.beqKVs a b
  | _, _ => false
def Term.beqList : List Term → List Term → Bool
  | [], [] => true
  | x :: xs, y :: ys => Term.beq x y && Term.beqList xs ys
  | _, _ => false
def Term.beqKVs : List (MapKey × Term) → List (MapKey × Term) → Bool
  | [], [] => true
  | (k, x) :: xs, (l, y) :: ys => k == l && Term.beq x y && Term.beqKVs xs ys
  | _, _ => false
end

mutual
theorem Term.beq_eq (a b : Term) (h : Term.beq a b = true) : a = b := by
  cases a <;> cases b <;> simp [Term.beq] at h <;> try simp [h]
  case set.set a b => exact Term.beqList_eq a b h
  case arr.arr a b => exact Term.beqList_eq a b h
  case map.map a b => exact Term.beqKVs_eq a b h
theorem Term.beqList_eq (a b : List Term) (h : Term.beqList a b = true) : a = b := by
  cases a <;> cases b <;> simp [Term.beqList] at h <;> try rfl
  case cons.cons x xs y ys => rw [Term.beq_eq x y h.1, Term.beqList_eq xs ys h.2]
theorem Term.beqKVs_eq (a b : List (MapKey × Term)) (h : Term.beqKVs a b = true) : a = b := by
  cases a <;> cases b <;> try (simp [Term.beqKVs] at h) <;> try rfl
  case cons.cons x xs y ys =>
    obtain ⟨k, x⟩ := x; obtain ⟨l, y⟩ := y
    simp [Term.beqKVs] at h
    rw [h.1.1, Term.beq_eq x y h.1.2, Term.beqKVs_eq xs ys h.2]
end

mutual
theorem Term.beq_refl (a : Term) : Term.beq a a = true := by
  cases a <;> simp [Term.beq]
  case set a => exact Term.beqList_refl a
  case arr a => exact Term.beqList_refl a
  case map a => exact Term.beqKVs_refl a
theorem Term.beqList_refl (a : List Term) : Term.beqList a a = true := by
  cases a <;> simp [Term.beqList]
  case cons x xs => exact ⟨Term.beq_refl x, Term.beqList_refl xs⟩
theorem Term.beqKVs_refl (a : List (MapKey × Term)) : Term.beqKVs a a = true := by
  cases a <;> simp [Term.beqKVs]
  case cons x xs => exact ⟨Term.beq_refl x.2, Term.beqKVs_refl xs⟩
end

instance : DecidableEq Term := fun a b =>
  if h : Term.beq a b = true then isTrue (Term.beq_eq a b h)
  else isFalse (fun e => h (e ▸ Term.beq_refl a))

/-- Variant index, the first key of Rust's derived `Ord`. -/
def Term.tag : Term → Nat
  | .var _ => 0 | .int _ => 1 | .str _ => 2 | .date _ => 3 | .bytes _ => 4
  | .bool _ => 5 | .set _ => 6 | .null => 7 | .arr _ => 8 | .map _ => 9

def MapKey.cmp : MapKey → MapKey → Ordering
  | .int a, .int b => compare a b
  | .str a, .str b => compare a b
  | .int _, .str _ => .lt
  | .str _, .int _ => .gt

def cmpBytes : List UInt8 → List UInt8 → Ordering
  | [], [] => .eq
  | [], _ :: _ => .lt
  | _ :: _, [] => .gt
  | x :: xs, y :: ys => (compare x.toNat y.toNat).then (cmpBytes xs ys)

mutual
/-- Rust's derived `Ord` on `datalog::Term`. -/
def Term.cmp : Term → Term → Ordering
  | .var a, .var b => compare a b
  | .int a, .int b => compare a b
  | .str a, .str b => compare a b
  | .date a, .date b => compare a b
  | .bytes a, .bytes b => cmpBytes a b
  | .bool a, .bool b => compare a.toNat b.toNat
  | .set a, .set b => Term.cmpList a b
  | .null, .null => .eq
  | .arr a, .arr b => Term.cmpList a b
  | .map a, .map b => Term.cmpKVs a b
  | a, b => compare a.tag b.tag
def Term.cmpList : List Term → List Term → Ordering
  | [], [] => .eq
  | [], _ :: _ => .lt
  | _ :: _, [] => .gt
  | x :: xs, y :: ys => (Term.cmp x y).then (Term.cmpList xs ys)
def Term.cmpKVs : List (MapKey × Term) → List (MapKey × Term) → Ordering
  | [], [] => .eq
  | [], _ :: _ => .lt
  | _ :: _, [] => .gt
  | (k, x) :: xs, (l, y) :: ys =>
      (MapKey.cmp k l).then ((Term.cmp x y).then (Term.cmpKVs xs ys))
end

/-- Insert into a list kept strictly sorted by `Term.cmp` (a `BTreeSet<Term>`). -/
def setInsert (x : Term) : List Term → List Term
  | [] => [x]
  | y :: ys =>
    match Term.cmp x y with
    | .lt => x :: y :: ys
    | .eq => y :: ys
    | .gt => y :: setInsert x ys

def setOfList (xs : List Term) : List Term := xs.foldl (fun acc x => setInsert x acc) []

def setContains (s : List Term) (x : Term) : Bool := s.any (fun y => y == x)

def setUnion (a b : List Term) : List Term := b.foldl (fun acc x => setInsert x acc) a

def setInter (a b : List Term) : List Term := a.filter (fun x => setContains b x)

def setSuperset (a b : List Term) : Bool := b.all (fun x => setContains a x)

/-- Insert into an association list kept strictly sorted by key (a `BTreeMap<MapKey, Term>`);
    a later binding of the same key replaces the earlier one, as `BTreeMap::insert` does. -/
def mapInsert (k : MapKey) (v : Term) : List (MapKey × Term) → List (MapKey × Term)
  | [] => [(k, v)]
  | (l, w) :: rest =>
    match MapKey.cmp k l with
    | .lt => (k, v) :: (l, w) :: rest
    | .eq => (k, v) :: rest
    | .gt => (l, w) :: mapInsert k v rest

def mapOfList (kvs : List (MapKey × Term)) : List (MapKey × Term) :=
  kvs.foldl (fun acc kv => mapInsert kv.1 kv.2 acc) []

def mapGet (m : List (MapKey × Term)) (k : MapKey) : Option Term :=
  (m.find? (fun kv => kv.1 == k)).map (·.2)

def i64Min : Int := -9223372036854775808
def i64Max : Int := 9223372036854775807
def inI64 (i : Int) : Bool := decide (i64Min ≤ i) && decide (i ≤ i64Max)

end Biscuit
