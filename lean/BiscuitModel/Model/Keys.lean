/-
  Key encodings at the format level (C17): raw bytes, hex, `algorithm/hex` strings, the
  protobuf `PublicKey` message, and the fixed DER frame of ed25519 public keys.

  Mirrors `crypto/mod.rs` (`PublicKey::{from_bytes, from_bytes_hex, from_str, from_proto, to_proto,
  print}`, `PrivateKey::{from_bytes, from_bytes_hex, from_str, to_prefixed_string}`),
  `crypto/{ed25519,p256}.rs::from_bytes`, the `public_key` rule of `biscuit-parser`, and prost's
  decoding of `schema::PublicKey`.

  Not modelled: whether 32 / 33 bytes are a point of the curve (ed25519 decompression, SEC1
  decoding); a verdict `accept` therefore means "accepted if the bytes are a point".
-/
import BiscuitModel.Model.Printer
import BiscuitModel.Model.Wire
namespace Biscuit.Keys
open Biscuit Biscuit.Printer

inductive Alg where
  | ed25519
  | secp256r1
  deriving DecidableEq, Repr, Inhabited

def Alg.name : Alg → List Char
  | .ed25519 => ['e', 'd', '2', '5', '5', '1', '9']
  | .secp256r1 => ['s', 'e', 'c', 'p', '2', '5', '6', 'r', '1']

/-- `schema::public_key::Algorithm` -/
def Alg.tag : Alg → Nat
  | .ed25519 => 0
  | .secp256r1 => 1

inductive Verdict where
  | reject
  | accept (alg : Alg) (bytes : Bytes)      -- these bytes are the key, provided they are a point / a scalar
  | acceptUncompressed                      -- 65-byte SEC1 form of a secp256r1 point: same key, 33-byte canonical form
  deriving DecidableEq, Repr, Inhabited

/-- `PublicKey::from_bytes` -/
def pubBytes (alg : Alg) (b : Bytes) : Verdict :=
  match alg with
  | .ed25519 => if b.length = 32 then .accept .ed25519 b else .reject
  | .secp256r1 =>
    match b with
    | t :: _ =>
      if b.length = 33 ∧ (t = 2 ∨ t = 3) then .accept .secp256r1 b
      else if b.length = 65 ∧ t = 4 then .acceptUncompressed
      else .reject
    | [] => .reject

def bytesToNat (b : Bytes) : Nat := b.foldl (fun acc x => acc * 256 + x.toNat) 0

/-- order of the secp256r1 group -/
def p256Order : Nat := 0xffffffff00000000ffffffffffffffffbce6faada7179e84f3b9cac2fc632551

/-- `PrivateKey::from_bytes`: 32 bytes; for secp256r1 a scalar in `1 .. n-1` -/
def privBytes (alg : Alg) (b : Bytes) : Verdict :=
  match alg with
  | .ed25519 => if b.length = 32 then .accept .ed25519 b else .reject
  | .secp256r1 =>
    if b.length = 32 ∧ 0 < bytesToNat b ∧ bytesToNat b < p256Order then .accept .secp256r1 b else .reject

/-- `hex::decode`: every character a hex digit, an even number of them -/
def hexDecode (s : List Char) : Option Bytes := decodePairs s

def pubHex (alg : Alg) (s : List Char) : Verdict :=
  match hexDecode s with
  | some b => pubBytes alg b
  | none => .reject

def privHex (alg : Alg) (s : List Char) : Verdict :=
  match hexDecode s with
  | some b => privBytes alg b
  | none => .reject

/-- `l` starts with `p`: the rest -/
def stripPrefix : List Char → List Char → Option (List Char)
  | [], l => some l
  | _ :: _, [] => none
  | p :: ps, c :: cs => if p = c then stripPrefix ps cs else none

/-- `PublicKey::from_str`: the parser's `public_key` rule (`ed25519/` or `secp256r1/`, then
    `parse_hex`), and nothing after it -/
def parsePubString (s : List Char) : Verdict :=
  let go (alg : Alg) (rest : List Char) : Verdict :=
    match parseHex rest with
    | some (b, []) => pubBytes alg b
    | _ => .reject
  match stripPrefix (Alg.name .ed25519 ++ ['/']) s with
  | some rest => go .ed25519 rest
  | none =>
    match stripPrefix (Alg.name .secp256r1 ++ ['/']) s with
    | some rest => go .secp256r1 rest
    | none => .reject

def printPub (alg : Alg) (b : Bytes) : List Char := alg.name ++ '/' :: hexEncode b

/-- `str::split_once('/')` -/
def splitOnce : List Char → Option (List Char × List Char)
  | [] => none
  | c :: cs =>
    if c = '/' then some ([], cs)
    else match splitOnce cs with
      | some (a, b) => some (c :: a, b)
      | none => none

/-- `PrivateKey::from_str` -/
def parsePrivString (s : List Char) : Verdict :=
  match splitOnce s with
  | some (a, h) =>
    if a = Alg.name .ed25519 then privHex .ed25519 h
    else if a = Alg.name .secp256r1 then privHex .secp256r1 h
    else .reject
  | none => .reject

/-! ## protobuf: prost's decoder for a message of varint and length-delimited fields -/

/-- LEB128, at most ten bytes; the tenth may only carry the top bit of a 64-bit value -/
def decVarint : Nat → Bytes → Option (Nat × Bytes)
  | 0, _ => none
  | fuel + 1, b :: rest =>
    if b.toNat < 128 then some (b.toNat, rest)
    else
      match decVarint fuel rest with
      | some (n, rest') => some (b.toNat - 128 + 128 * n, rest')
      | none => none
  | _ + 1, [] => none

def decVarint64 (bs : Bytes) : Option (Nat × Bytes) :=
  match decVarint 10 bs with
  | some (n, rest) => if n < 2 ^ 64 then some (n, rest) else none
  | none => none

inductive WVal where
  | varint (n : Nat)
  | bytes (b : Bytes)
  deriving DecidableEq, Repr

/-- the fields of a message, in order; 64-bit / 32-bit / group wire types are refused (the
    schema of keys has none, the stream sends none) -/
def decFields : Nat → Bytes → Option (List (Nat × WVal))
  | _, [] => some []
  | 0, _ :: _ => none
  | fuel + 1, bs =>
    match decVarint64 bs with
    | none => none
    | some (k, rest) =>
      let field := k / 8
      if field = 0 then none
      else if k % 8 = 0 then
        match decVarint64 rest with
        | some (n, rest') => (decFields fuel rest').map ((field, .varint n) :: ·)
        | none => none
      else if k % 8 = 2 then
        match decVarint64 rest with
        | some (len, rest') =>
          if len ≤ rest'.length then (decFields fuel (rest'.drop len)).map ((field, .bytes (rest'.take len)) :: ·)
          else none
        | none => none
      else none

/-- `schema::PublicKey::decode`: `algorithm` (field 1, int32: the varint truncated to 32 bits)
    and `key` (field 2, bytes); a later occurrence replaces an earlier one, other fields are
    skipped, a known field with another wire type is an error -/
def foldPubKey : List (Nat × WVal) → (Nat × Bytes) → Option (Nat × Bytes)
  | [], acc => some acc
  | (1, .varint n) :: fs, (_, k) => foldPubKey fs (n % 2 ^ 32, k)
  | (1, .bytes _) :: _, _ => none
  | (2, .bytes b) :: fs, (a, _) => foldPubKey fs (a, b)
  | (2, .varint _) :: _, _ => none
  | _ :: fs, acc => foldPubKey fs acc

def decPubKeyMsg (bs : Bytes) : Option (Nat × Bytes) :=
  match decFields (bs.length + 1) bs with
  | some fs => foldPubKey fs (0, [])
  | none => none

/-- `PublicKey::from_proto` -/
def pubProto (bs : Bytes) : Verdict :=
  match decPubKeyMsg bs with
  | some (a, k) => if a = 0 then pubBytes .ed25519 k else if a = 1 then pubBytes .secp256r1 k else .reject
  | none => .reject

/-! ## DER: the SubjectPublicKeyInfo of an ed25519 key is a fixed 12-byte frame and the key -/

def ed25519SpkiPrefix : Bytes := [0x30, 0x2a, 0x30, 0x05, 0x06, 0x03, 0x2b, 0x65, 0x70, 0x03, 0x21, 0x00]

def derPubEd25519 (b : Bytes) : Bytes := ed25519SpkiPrefix ++ b

def parseDerPubEd25519 (d : Bytes) : Verdict :=
  if d.take 12 = ed25519SpkiPrefix ∧ d.length = 44 then .accept .ed25519 (d.drop 12) else .reject

/-- `verify_signature`, format level: an ed25519 signature is 64 bytes -/
def ed25519SigWellFormed (sig : Bytes) : Bool := sig.length = 64

end Biscuit.Keys
