/-
  Parameter-free kinds of operators and terms (used by the regenerated detector tables).
-/
import BiscuitModel.Model.Expr
namespace Biscuit

inductive BinK where
  | lessThan | greaterThan | lessOrEqual | greaterOrEqual | equal | contains | pfx | sfx
  | regex | add | sub | mul | div | and | or | intersection | union
  | bitwiseAnd | bitwiseOr | bitwiseXor | notEqual | heterogeneousEqual
  | heterogeneousNotEqual | lazyAnd | lazyOr | all | any | get | ffi
  deriving Repr, DecidableEq, Inhabited

inductive UnK where
  | negate | parens | length | typeOf | ffi
  deriving Repr, DecidableEq, Inhabited

inductive TermK where
  | var | int | str | date | bytes | bool | set | null | arr | map
  deriving Repr, DecidableEq, Inhabited

inductive SetRule where
  | none | containsNull | anyElement
  deriving Repr, DecidableEq, Inhabited

def Binary.kind : Binary → BinK
  | .lessThan => .lessThan | .greaterThan => .greaterThan | .lessOrEqual => .lessOrEqual
  | .greaterOrEqual => .greaterOrEqual | .equal => .equal | .contains => .contains | .pfx => .pfx
  | .sfx => .sfx | .regex => .regex | .add => .add | .sub => .sub | .mul => .mul | .div => .div
  | .and => .and | .or => .or | .intersection => .intersection | .union => .union
  | .bitwiseAnd => .bitwiseAnd | .bitwiseOr => .bitwiseOr | .bitwiseXor => .bitwiseXor
  | .notEqual => .notEqual | .heterogeneousEqual => .heterogeneousEqual
  | .heterogeneousNotEqual => .heterogeneousNotEqual | .lazyAnd => .lazyAnd | .lazyOr => .lazyOr
  | .all => .all | .any => .any | .get => .get | .ffi _ => .ffi

def Unary.kind : Unary → UnK
  | .negate => .negate | .parens => .parens | .length => .length | .typeOf => .typeOf | .ffi _ => .ffi

def Term.kind : Term → TermK
  | .var _ => .var | .int _ => .int | .str _ => .str | .date _ => .date | .bytes _ => .bytes
  | .bool _ => .bool | .set _ => .set | .null => .null | .arr _ => .arr | .map _ => .map

end Biscuit
