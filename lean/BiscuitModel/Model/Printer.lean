/-
  Source-level Datalog printer and the literal parsers (C14, C20).

  Mirrors
    * the builder `Display` family (`token/builder/{term,predicate,rule,check,policy,scope}.rs`)
      and the `SymbolTable::print_*` family (`datalog/symbol.rs`), which must produce the
      same text for the same program;
    * `Expression::print` (`datalog/expression.rs`): a stack machine over the postfix ops;
    * the literal parsers of `biscuit-parser/src/parser.rs`: string with escapes, hex bytes,
      integer, bool, null.

  Text is `List Char` where a theorem is stated about it, `String` elsewhere.
-/
namespace Biscuit.Printer

/-! ## source-level terms (strings are carried verbatim, not interned) -/

inductive SKey where
  | int (i : Int)
  | str (s : String)
  | param (n : String)
  deriving Repr, Inhabited

inductive STerm where
  | var (n : String)
  | int (i : Int)
  | str (s : String)
  | date (d : Nat)
  | bytes (b : List UInt8)
  | bool (b : Bool)
  | null
  | set (xs : List STerm)
  | arr (xs : List STerm)
  | map (kvs : List (SKey × STerm))
  | param (n : String)
  deriving Repr, Inhabited

/-! ## strings: `escape_string` and `parse_string` -/

/-- `datalog::escape_string`: backslash and double quote get a backslash in front -/
def escape : List Char → List Char
  | [] => []
  | c :: cs =>
    if c = '\\' then '\\' :: '\\' :: escape cs
    else if c = '"' then '\\' :: '"' :: escape cs
    else c :: escape cs

/-- the body of a string literal up to and including the closing quote
    (`parse_string_internal` = `escaped_transform(printable, '\\', one of \\ " n)` followed by `char('"')`);
    returns the decoded contents and the input after the closing quote -/
def parseStrBody : List Char → Option (List Char × List Char)
  | [] => none
  | c :: rest =>
    if c = '"' then some ([], rest)
    else if c = '\\' then
      match rest with
      | [] => none
      | e :: rest' =>
        let dec : Option Char :=
          if e = '\\' then some '\\' else if e = '"' then some '"' else if e = 'n' then some '\n' else none
        match dec, parseStrBody rest' with
        | some d, some (s, r) => some (d :: s, r)
        | _, _ => none
    else
      match parseStrBody rest with
      | some (s, r) => some (c :: s, r)
      | none => none

/-- `parse_string`: an opening quote, then the body -/
def parseString : List Char → Option (List Char × List Char)
  | '"' :: rest => parseStrBody rest
  | _ => none

def printStringChars (s : List Char) : List Char := '"' :: (escape s ++ ['"'])

def printString (s : String) : String := String.ofList (printStringChars s.toList)

/-! ## bytes: `hex:` + `hex::encode`, parsed by `parse_hex` -/

def hexDigit (n : Nat) : Char := if n < 10 then Char.ofNat (48 + n) else Char.ofNat (87 + n)

def hexEncode : List UInt8 → List Char
  | [] => []
  | b :: bs => hexDigit (b.toNat / 16) :: hexDigit (b.toNat % 16) :: hexEncode bs

def hexVal (c : Char) : Option Nat :=
  if '0' ≤ c ∧ c ≤ '9' then some (c.toNat - 48)
  else if 'a' ≤ c ∧ c ≤ 'f' then some (c.toNat - 87)
  else if 'A' ≤ c ∧ c ≤ 'F' then some (c.toNat - 55)
  else none

def isHexDigit (c : Char) : Bool := (hexVal c).isSome

/-- `hex::decode`: pairs of digits, an odd count is an error -/
def decodePairs : List Char → Option (List UInt8)
  | [] => some []
  | [_] => none
  | a :: b :: rest =>
    match hexVal a, hexVal b, decodePairs rest with
    | some x, some y, some bs => some (UInt8.ofNat (16 * x + y) :: bs)
    | _, _, _ => none

/-- `parse_hex`: `take_while1(is hex digit)` then `hex::decode` -/
def parseHex (s : List Char) : Option (List UInt8 × List Char) :=
  match s.takeWhile isHexDigit with
  | [] => none
  | ds => (decodePairs ds).map fun bs => (bs, s.dropWhile isHexDigit)

def printBytes (b : List UInt8) : String := "hex:" ++ String.ofList (hexEncode b)

/-! ## integers: `i64::to_string`, parsed by `parse_integer` -/

def printNatChars (n : Nat) : List Char := Nat.toDigits 10 n

def printIntChars (i : Int) : List Char :=
  if i < 0 then '-' :: printNatChars (-i).toNat else printNatChars i.toNat

/-- `parse_integer`: `recognize(opt('-'), digit1)` then `str::parse::<i64>`, which rejects
    what does not fit in 64 bits -/
def parseDigits (s : List Char) : Option (Nat × List Char) :=
  match s.takeWhile Char.isDigit with
  | [] => none
  | ds => some (Nat.ofDigitChars 10 ds 0, s.dropWhile Char.isDigit)

def inI64 (v : Int) : Bool := -(2 ^ 63 : Int) ≤ v && v < (2 ^ 63 : Int)

def parseInt (s : List Char) : Option (Int × List Char) :=
  match s with
  | '-' :: r =>
    match parseDigits r with
    | some (n, rest) => if inI64 (-(n : Int)) then some (-(n : Int), rest) else none
    | none => none
  | _ =>
    match parseDigits s with
    | some (n, rest) => if inI64 (n : Int) then some ((n : Int), rest) else none
    | none => none

def printInt (i : Int) : String := String.ofList (printIntChars i)

/-! ## dates: RFC 3339 in UTC, as `time::OffsetDateTime::format(&Rfc3339)` writes whole seconds -/

def pad (w : Nat) (n : Nat) : String :=
  let s := toString n
  String.ofList (List.replicate (w - s.length) '0') ++ s

/-- civil date of a day count since 1970-01-01 (Hinnant's algorithm), years 1970..9999 -/
def civil (days : Nat) : Nat × Nat × Nat :=
  let z := days + 719468
  let era := z / 146097
  let doe := z - era * 146097
  let yoe := (doe - doe / 1460 + doe / 36524 - doe / 146096) / 365
  let y := yoe + era * 400
  let doy := doe - (365 * yoe + yoe / 4 - yoe / 100)
  let mp := (5 * doy + 2) / 153
  let d := doy - (153 * mp + 2) / 5 + 1
  let m := if mp < 10 then mp + 3 else mp - 9
  (if m ≤ 2 then y + 1 else y, m, d)

def printDate (t : Nat) : String :=
  let (y, m, d) := civil (t / 86400)
  let s := t % 86400
  if y > 9999 then "<invalid date>"
  else pad 4 y ++ "-" ++ pad 2 m ++ "-" ++ pad 2 d ++ "T" ++ pad 2 (s / 3600) ++ ":" ++ pad 2 (s % 3600 / 60) ++ ":"
    ++ pad 2 (s % 60) ++ "Z"

/-! ## terms -/

def joinWith (sep : String) : List String → String
  | [] => ""
  | [x] => x
  | x :: xs => x ++ sep ++ joinWith sep xs

def printKey : SKey → String
  | .int i => printInt i
  | .str s => printString s
  | .param n => "{" ++ n ++ "}"

mutual
def printTerm : STerm → String
  | .var n => "$" ++ n
  | .int i => printInt i
  | .str s => printString s
  | .date d => printDate d
  | .bytes b => printBytes b
  | .bool b => if b then "true" else "false"
  | .null => "null"
  | .set xs => if xs.isEmpty then "{,}" else "{" ++ joinWith ", " (printTerms xs) ++ "}"
  | .arr xs => "[" ++ joinWith ", " (printTerms xs) ++ "]"
  | .map kvs => "{" ++ joinWith ", " (printKVs kvs) ++ "}"
  | .param n => "{" ++ n ++ "}"
def printTerms : List STerm → List String
  | [] => []
  | t :: ts => printTerm t :: printTerms ts
def printKVs : List (SKey × STerm) → List String
  | [] => []
  | (k, t) :: kvs => (printKey k ++ ": " ++ printTerm t) :: printKVs kvs
end

/-- the one place where two different terms print alike: a one-element set whose element
    is written like a name (`true`, `false`, `null`, `hex:…`) prints as the parameter of
    that name, and the parser tries parameters first -/
def paramLike : STerm → Bool
  | .bool _ => true
  | .null => true
  | .bytes _ => true
  | _ => false

mutual
def ambiguous : STerm → Bool
  | .set [x] => paramLike x || ambiguous x
  | .set xs => ambiguousL xs
  | .arr xs => ambiguousL xs
  | .map kvs => ambiguousKV kvs
  | _ => false
def ambiguousL : List STerm → Bool
  | [] => false
  | t :: ts => ambiguous t || ambiguousL ts
def ambiguousKV : List (SKey × STerm) → Bool
  | [] => false
  | (_, t) :: kvs => ambiguous t || ambiguousKV kvs
end

/-! ## expressions -/

inductive Un where
  | negate | parens | length | typeOf
  | ffi (n : String)
  deriving Repr, Inhabited

inductive Bin where
  | lt | gt | le | ge | eq | contains | prefix | suffix | regex | add | sub | mul | div | and | or
  | intersection | union | band | bor | bxor | ne | heq | hne | lazyAnd | lazyOr | all | any | get
  | ffi (n : String)
  deriving Repr, Inhabited

inductive POp where
  | val (t : STerm)
  | un (u : Un)
  | bin (b : Bin)
  | clo (params : List String) (ops : List POp)
  deriving Inhabited

/-- `Unary::print` -/
def printUn (u : Un) (v : String) : String :=
  match u with
  | .negate => "!" ++ v
  | .parens => "(" ++ v ++ ")"
  | .length => v ++ ".length()"
  | .typeOf => v ++ ".type()"
  | .ffi n => v ++ ".extern::" ++ n ++ "()"

def infixSym : Bin → Option String
  | .lt => some "<" | .gt => some ">" | .le => some "<=" | .ge => some ">=" | .eq => some "==="
  | .heq => some "==" | .ne => some "!==" | .hne => some "!=" | .add => some "+" | .sub => some "-"
  | .mul => some "*" | .div => some "/" | .and => some "&&!" | .or => some "||!" | .band => some "&"
  | .bor => some "|" | .bxor => some "^" | .lazyAnd => some "&&" | .lazyOr => some "||"
  | _ => none

def methodName : Bin → String
  | .contains => "contains" | .prefix => "starts_with" | .suffix => "ends_with" | .regex => "matches"
  | .intersection => "intersection" | .union => "union" | .all => "all" | .any => "any" | .get => "get"
  | .ffi n => "extern::" ++ n
  | _ => "?"

/-- `Binary::print` -/
def printBin (b : Bin) (l r : String) : String :=
  match infixSym b with
  | some s => l ++ " " ++ s ++ " " ++ r
  | none => l ++ "." ++ methodName b ++ "(" ++ r ++ ")"

def printClosure (params : List String) (body : String) : String :=
  if params.isEmpty then body else joinWith ", " (params.map fun p => "$" ++ p) ++ " -> " ++ body

/-- `Expression::print`: the op list is run against a stack of strings; a closure body is
    printed on a stack of its own; `none` when the stack does not fit the ops -/
def printOpsAux : List POp → List String → Option (List String)
  | [], st => some st
  | .val t :: k, st => printOpsAux k (printTerm t :: st)
  | .un u :: k, st =>
    match st with
    | v :: st' => printOpsAux k (printUn u v :: st')
    | [] => none
  | .bin b :: k, st =>
    match st with
    | r :: l :: st' => printOpsAux k (printBin b l r :: st')
    | _ => none
  | .clo ps body :: k, st =>
    match printOpsAux body [] with
    | some [b] => printOpsAux k (printClosure ps b :: st)
    | _ => none

def printExpr (ops : List POp) : Option String :=
  match printOpsAux ops [] with
  | some [s] => some s
  | _ => none

/-- expression trees, as `biscuit_parser::parser::Expr` -/
inductive ETree where
  | val (t : STerm)
  | un (u : Un) (a : ETree)
  | bin (b : Bin) (l r : ETree)
  | clo (params : List String) (body : ETree)
  deriving Inhabited

/-- `Expr::into_opcodes` -/
def opcodes : ETree → List POp
  | .val t => [.val t]
  | .un u a => opcodes a ++ [.un u]
  | .bin b l r => opcodes l ++ opcodes r ++ [.bin b]
  | .clo ps body => [.clo ps (opcodes body)]

/-- the infix rendering of a tree: every parenthesis is an explicit `parens` node -/
def showTree : ETree → String
  | .val t => printTerm t
  | .un u a => printUn u (showTree a)
  | .bin b l r => printBin b (showTree l) (showTree r)
  | .clo ps body => printClosure ps (showTree body)

/-! ## predicates, rules, checks, policies, blocks -/

structure SPred where
  name : String
  terms : List STerm
  deriving Inhabited

inductive SScope where
  | authority
  | previous
  | key (printed : String)     -- `ed25519/<hex>` or `secp256r1/<hex>`, as `PublicKey::print`
  | param (n : String)
  deriving Inhabited

structure SRule where
  head : SPred
  body : List SPred
  exprs : List (List POp)
  scopes : List SScope
  deriving Inhabited

inductive CKind where | one | all | reject deriving Inhabited, DecidableEq
inductive PKind where | allow | deny deriving Inhabited, DecidableEq

structure SCheck where
  kind : CKind
  queries : List SRule
  deriving Inhabited

structure SPolicy where
  kind : PKind
  queries : List SRule
  deriving Inhabited

def printPred (p : SPred) : String := p.name ++ "(" ++ joinWith ", " (printTerms p.terms) ++ ")"

def printScope : SScope → String
  | .authority => "authority"
  | .previous => "previous"
  | .key k => k
  | .param n => "{" ++ n ++ "}"

def printExprOr (ops : List POp) : String := (printExpr ops).getD "<invalid expression>"

/-- `display_rule_body` / `print_rule_body` -/
def printBody (r : SRule) : String :=
  let preds := r.body.map printPred
  let exprs := r.exprs.map printExprOr
  let e := if exprs.isEmpty then "" else if preds.isEmpty then joinWith ", " exprs else ", " ++ joinWith ", " exprs
  let s := if r.scopes.isEmpty then "" else " trusting " ++ joinWith ", " (r.scopes.map printScope)
  joinWith ", " preds ++ e ++ s

def printRule (r : SRule) : String := printPred r.head ++ " <- " ++ printBody r

def printCheck (c : SCheck) : String :=
  (match c.kind with | .one => "check if " | .all => "check all " | .reject => "reject if ")
    ++ joinWith " or " (c.queries.map printBody)

def printPolicy (p : SPolicy) : String :=
  (match p.kind with | .allow => "allow if " | .deny => "deny if ") ++ joinWith " or " (p.queries.map printBody)

structure SBlock where
  scopes : List SScope
  facts : List SPred
  rules : List SRule
  checks : List SCheck
  deriving Inhabited

/-- `Block::print_source`: every element on its own line, closed by `;` -/
def printBlock (b : SBlock) : String :=
  (if b.scopes.isEmpty then "" else "trusting " ++ joinWith ", " (b.scopes.map printScope) ++ ";\n")
    ++ String.join (b.facts.map fun f => printPred f ++ ";\n")
    ++ String.join (b.rules.map fun r => printRule r ++ ";\n")
    ++ String.join (b.checks.map fun c => printCheck c ++ ";\n")

structure SAuthorizer where
  facts : List SPred
  rules : List SRule
  checks : List SCheck
  policies : List SPolicy
  deriving Inhabited

/-- `AuthorizerBuilder::dump_code`: sections separated by a blank line -/
def printAuthorizer (a : SAuthorizer) : String :=
  String.join (a.facts.map fun f => printPred f ++ ";\n") ++ (if a.facts.isEmpty then "" else "\n")
    ++ String.join (a.rules.map fun r => printRule r ++ ";\n") ++ (if a.rules.isEmpty then "" else "\n")
    ++ String.join (a.checks.map fun c => printCheck c ++ ";\n") ++ (if a.checks.isEmpty then "" else "\n")
    ++ String.join (a.policies.map fun p => printPolicy p ++ ";\n")

end Biscuit.Printer
