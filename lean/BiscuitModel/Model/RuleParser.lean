/-
  Rule bodies, rules, checks and policies of `biscuit-parser/src/parser.rs` (C14): `predicate`,
  `rule_head`, `predicate_or_expression`, `rule_body`, `scopes`, `scope`, `public_key`,
  `check_body`, `check_inner` / `check`, `allow` / `deny` / `policy`, `rule_inner`.

    * an element of a body is a predicate or, when `predicate` returns `Error`, an expression;
      every element is under `cut`, so an element that does not parse is a `Failure`;
    * predicates and expressions are collected into two lists, whatever their order in the text;
    * `trusting` is looked for after the elements; each scope is under `cut`;
    * the alternatives of a check / policy are separated by `or` in any letter case;
    * a rule is refused (`Failure`) when a variable of its head, or a variable that is an
      operand at the top level of one of its expressions, is in no body predicate.

  Expressions are returned as trees (`ETree`); `Expr::opcodes` is `Printer.opcodes`.
-/
import BiscuitModel.Model.ExprParser
namespace Biscuit.RuleParser
open Biscuit.Printer Biscuit.TermParser Biscuit.ExprParser

/-- `separated_list1(preceded(space0, char(',')), cut(term))`, the loop -/
def pAnyTail (dateP : List Char → Option Nat) : Nat → List Char → Res (List STerm)
  | 0, _ => .fail
  | n + 1, s =>
    match space0 s with
    | ',' :: s1 =>
      match pTermAny dateP n s1 with
      | .ok t r =>
        match pAnyTail dateP n r with
        | .ok ts r' => .ok (t :: ts) r'
        | _ => .fail
      | _ => .fail
    | _ => .ok [] s

/-- `cut(separated_list1(…, cut(term)))` (and `separated_list0`, which the inner `cut` makes the same) -/
def pAnyTerms (dateP : List Char → Option Nat) (fuel : Nat) (s : List Char) : Res (List STerm) :=
  match pTermAny dateP fuel s with
  | .ok t r =>
    match pAnyTail dateP fuel r with
    | .ok ts r' => .ok (t :: ts) r'
    | _ => .fail
  | _ => .fail

/-- `predicate` / `rule_head` -/
def pPredicate (dateP : List Char → Option Nat) (fuel : Nat) (s : List Char) : Res SPred :=
  match pName (space0 s) with
  | none => .err
  | some (n, r) =>
    match space0 r with
    | '(' :: r1 =>
      match pAnyTerms dateP fuel r1 with
      | .ok ts r2 =>
        match space0 r2 with
        | ')' :: r3 => .ok ⟨String.ofList n, ts⟩ r3
        | _ => .err
      | _ => .fail
    | _ => .err

/-- `predicate_or_expression` -/
def pElem (dateP : List Char → Option Nat) (fuel : Nat) (s : List Char) : Res (SPred ⊕ ETree) :=
  match pPredicate dateP fuel s with
  | .ok p r => .ok (.inl p) r
  | .fail => .fail
  | .err =>
    match pLevel dateP 0 fuel s with
    | .ok e r => .ok (.inr e) r
    | .err => .err
    | .fail => .fail

/-- `public_key` / `scope` -/
def pScope (s : List Char) : Option (SScope × List Char) :=
  match tag ['a', 'u', 't', 'h', 'o', 'r', 'i', 't', 'y'] s with
  | some r => some (.authority, r)
  | none =>
    match tag ['p', 'r', 'e', 'v', 'i', 'o', 'u', 's'] s with
    | some r => some (.previous, r)
    | none =>
      let key (pre : List Char) : Option (SScope × List Char) :=
        match tag pre s with
        | some r => (pHexT r).map fun (b, r') => (SScope.key (String.ofList (pre ++ hexEncode b)), r')
        | none => none
      match key ['e', 'd', '2', '5', '5', '1', '9', '/'] with
      | some x => some x
      | none =>
        match key ['s', 'e', 'c', 'p', '2', '5', '6', 'r', '1', '/'] with
        | some x => some x
        | none =>
          match s with
          | '{' :: r =>
            match pName r with
            | some (n, '}' :: r') => some (.param (String.ofList n), r')
            | _ => none
          | _ => none

/-- the loop of `separated_list1(preceded(space0, char(',')), preceded(space0, cut(scope)))` -/
def pScopeTail : Nat → List Char → Res (List SScope)
  | 0, _ => .fail
  | n + 1, s =>
    match space0 s with
    | ',' :: s1 =>
      match pScope (space0 s1) with
      | some (sc, r) =>
        match pScopeTail n r with
        | .ok scs r' => .ok (sc :: scs) r'
        | _ => .fail
      | none => .fail
    | _ => .ok [] s

/-- `trusting` is the keyword only as a word of its own: not when a name character follows
    (`trusting_level`), nor, after blanks, a `(` (`trusting(1)`, a predicate) -/
def keywordEnds (r : List Char) : Bool :=
  (match r with | c :: _ => !isNameChar c | [] => true) &&
  (match space0 r with | '(' :: _ => false | _ => true)

/-- `scopes` -/
def pScopes (fuel : Nat) (s : List Char) : Res (List SScope) :=
  match (tag ['t', 'r', 'u', 's', 't', 'i', 'n', 'g'] (space0 s)).filter keywordEnds with
  | none => .ok [] s
  | some r =>
    match pScope (space0 r) with
    | some (sc, r1) =>
      match pScopeTail fuel r1 with
      | .ok scs r' => .ok (sc :: scs) r'
      | _ => .fail
    | none => .fail

/-- the loop of `separated_list1(preceded(space0, char(',')), preceded(space0, cut(predicate_or_expression)))` -/
def pElemTail (dateP : List Char → Option Nat) : Nat → List Char → Res (List (SPred ⊕ ETree))
  | 0, _ => .fail
  | n + 1, s =>
    match space0 s with
    | ',' :: s1 =>
      match pElem dateP n (space0 s1) with
      | .ok x r =>
        match pElemTail dateP n r with
        | .ok xs r' => .ok (x :: xs) r'
        | _ => .fail
      | _ => .fail
    | _ => .ok [] s

def preds : List (SPred ⊕ ETree) → List SPred
  | [] => []
  | .inl p :: xs => p :: preds xs
  | .inr _ :: xs => preds xs

def trees : List (SPred ⊕ ETree) → List ETree
  | [] => []
  | .inl _ :: xs => trees xs
  | .inr e :: xs => e :: trees xs

/-- a body: predicates, expressions (as trees), scopes -/
structure Body where
  preds : List SPred
  exprs : List ETree
  scopes : List SScope
  deriving Inhabited

/-- `rule_body` -/
def pBody (dateP : List Char → Option Nat) (fuel : Nat) (s : List Char) : Res Body :=
  match pElem dateP fuel (space0 s) with
  | .ok x r =>
    match pElemTail dateP fuel r with
    | .ok xs r1 =>
      match pScopes fuel r1 with
      | .ok scs r2 => .ok ⟨preds (x :: xs), trees (x :: xs), scs⟩ r2
      | .err => .err
      | .fail => .fail
    | _ => .fail
  | _ => .fail

/-- `tag_no_case("or")` -/
def tagOr : List Char → Option (List Char)
  | a :: b :: r => if (a == 'o' || a == 'O') && (b == 'r' || b == 'R') then some r else none
  | _ => none

/-- the loop of `separated_list1(preceded(space0, tag_no_case("or")), preceded(space0, cut(rule_body)))` -/
def pBodiesTail (dateP : List Char → Option Nat) : Nat → List Char → Res (List Body)
  | 0, _ => .fail
  | n + 1, s =>
    match tagOr (space0 s) with
    | some s1 =>
      match pBody dateP n (space0 s1) with
      | .ok b r =>
        match pBodiesTail dateP n r with
        | .ok bs r' => .ok (b :: bs) r'
        | _ => .fail
      | _ => .fail
    | none => .ok [] s

/-- `check_body` -/
def pCheckBody (dateP : List Char → Option Nat) (fuel : Nat) (s : List Char) : Res (List Body) :=
  match pBody dateP fuel (space0 s) with
  | .ok b r =>
    match pBodiesTail dateP fuel r with
    | .ok bs r' => .ok (b :: bs) r'
    | _ => .fail
  | _ => .fail

/-- `tag_no_case(t)` for a lower-case ASCII `t` -/
def tagNoCase (t : List Char) (s : List Char) : Option (List Char) :=
  if t.length ≤ s.length ∧ (s.take t.length).map Char.toLower = t then some (s.drop t.length) else none

/-- `check_inner` -/
def pCheckInner (dateP : List Char → Option Nat) (fuel : Nat) (s : List Char) : Res (CKind × List Body) :=
  let s := space0 s
  let kind : Option (CKind × List Char) :=
    match tagNoCase ['c', 'h', 'e', 'c', 'k', ' ', 'i', 'f'] s with
    | some r => some (.one, r)
    | none =>
      match tagNoCase ['c', 'h', 'e', 'c', 'k', ' ', 'a', 'l', 'l'] s with
      | some r => some (.all, r)
      | none =>
        match tagNoCase ['r', 'e', 'j', 'e', 'c', 't', ' ', 'i', 'f'] s with
        | some r => some (.reject, r)
        | none => none
  match kind with
  | none => .err
  | some (k, r) =>
    match pCheckBody dateP fuel r with
    | .ok bs r' => .ok (k, bs) r'
    | _ => .fail

/-- `policy_inner` -/
def pPolicyInner (dateP : List Char → Option Nat) (fuel : Nat) (s : List Char) : Res (PKind × List Body) :=
  let s := space0 s
  let kind : Option (PKind × List Char) :=
    match tagNoCase ['a', 'l', 'l', 'o', 'w', ' ', 'i', 'f'] s with
    | some r => some (.allow, r)
    | none =>
      match tagNoCase ['d', 'e', 'n', 'y', ' ', 'i', 'f'] s with
      | some r => some (.deny, r)
      | none => none
  match kind with
  | none => .err
  | some (k, r) =>
    match pCheckBody dateP fuel r with
    | .ok bs r' => .ok (k, bs) r'
    | _ => .fail

def topVars : List STerm → List String
  | [] => []
  | .var n :: ts => n :: topVars ts
  | _ :: ts => topVars ts

/-- variables that are operands at the top level of the flattened expression (`Op::Value(Variable)`
    of `e.ops`; closure bodies are nested ops and are not looked at) -/
def opVars : List POp → List String
  | [] => []
  | .val (.var n) :: k => n :: opVars k
  | _ :: k => opVars k

/-- `Rule::validate_variables` -/
def validVars (head : SPred) (b : Body) : Bool :=
  let bound := b.preds.flatMap fun p => topVars p.terms
  (topVars head.terms ++ b.exprs.flatMap fun e => opVars (opcodes e)).all fun v => bound.contains v

/-- `rule_inner` -/
def pRuleInner (dateP : List Char → Option Nat) (fuel : Nat) (s : List Char) : Res (SPred × Body) :=
  match pPredicate dateP fuel s with
  | .ok head r =>
    match tag ['<', '-'] (space0 r) with
    | none => .err
    | some r1 =>
      match pBody dateP fuel r1 with
      | .ok b r2 => if validVars head b then .ok (head, b) r2 else .fail
      | _ => .fail
  | .err => .err
  | .fail => .fail

def fuelOf (s : List Char) : Nat := 50 * s.length + 50

end Biscuit.RuleParser
