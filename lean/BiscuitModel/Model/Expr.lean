/-
  The expression stack machine (biscuit-auth/src/datalog/expression.rs).
  `evalUnary`, `evalBinary`, `evalWithClosure`, `evalExpr` mirror
  `Unary::evaluate`, `Binary::evaluate`, `Binary::evaluate_with_closure`,
  `Expression::evaluate`.  External functions are not modelled: the model has
  no registered externs, so `Ffi` ends in `undefinedExtern` (or `unknownSymbol`).
-/
import BiscuitModel.Model.Term
import BiscuitModel.Model.Symbols
namespace Biscuit

inductive Unary where
  | negate | parens | length | typeOf | ffi (name : Nat)
  deriving Repr, DecidableEq, Inhabited

inductive Binary where
  | lessThan | greaterThan | lessOrEqual | greaterOrEqual | equal | contains | pfx | sfx
  | regex | add | sub | mul | div | and | or | intersection | union
  | bitwiseAnd | bitwiseOr | bitwiseXor | notEqual | heterogeneousEqual
  | heterogeneousNotEqual | lazyAnd | lazyOr | all | any | get | ffi (name : Nat)
  deriving Repr, DecidableEq, Inhabited

inductive Op where
  | value (t : Term)
  | unary (u : Unary)
  | binary (b : Binary)
  | closure (params : List Nat) (ops : List Op)
  deriving Repr, Inhabited

inductive ExprErr where
  | unknownSymbol (i : Nat)
  | unknownVariable (i : Nat)
  | invalidType
  | overflow
  | divideByZero
  | invalidStack
  | shadowedVariable
  | undefinedExtern
  /-- not an outcome of the code: the model's recursion budget was too small. -/
  | outOfFuel
  /-- regular expression that the model does not interpret (non-literal pattern). -/
  | unsupportedRegex
  deriving Repr, DecidableEq, Inhabited

deriving instance DecidableEq for Except

abbrev EvalM := Except ExprErr (Term × TempSyms)

/-- Variable bindings (`HashMap<u32, Term>`); keys are unique. -/
abbrev Bindings := List (Nat × Term)

def Bindings.get (b : Bindings) (k : Nat) : Option Term :=
  match b with
  | [] => none
  | (k', v) :: rest => if k' = k then some v else Bindings.get rest k

def Bindings.erase (b : Bindings) (k : Nat) : Bindings := b.filter (fun kv => kv.1 ≠ k)

def Bindings.insert (b : Bindings) (k : Nat) (v : Term) : Bindings := (k, v) :: Bindings.erase b k

def Bindings.hasKey (b : Bindings) (k : Nat) : Bool := b.any (fun kv => kv.1 == k)

inductive StackElem where
  | term (t : Term)
  | closure (params : List Nat) (ops : List Op)

/-! ### string helpers on UTF-8 bytes -/

def isPrefixB : Str → Str → Bool
  | [], _ => true
  | _ :: _, [] => false
  | p :: ps, x :: xs => p == x && isPrefixB ps xs

/-- `haystack.contains(needle)` on bytes. -/
def isInfixB (needle : Str) : Str → Bool
  | [] => needle.isEmpty
  | x :: xs => isPrefixB needle (x :: xs) || isInfixB needle xs

def isSuffixB (s hay : Str) : Bool := isPrefixB s.reverse hay.reverse

/-- Patterns the model interprets: plain ASCII letters, digits, `_`, `/`, space —
    for which a regex match is a substring test. -/
def literalPattern (p : Str) : Bool :=
  p.all fun c => (48 ≤ c.toNat && c.toNat ≤ 57) || (65 ≤ c.toNat && c.toNat ≤ 90) ||
    (97 ≤ c.toNat && c.toNat ≤ 122) || c.toNat == 95 || c.toNat == 47 || c.toNat == 32

/-! ### checked i64 arithmetic -/

def checkedI64 (r : Int) (e : ExprErr) : Except ExprErr Term :=
  if inI64 r then .ok (.int r) else .error e

def bitAnd (a b : Int) : Int := (Int64.ofInt a &&& Int64.ofInt b).toInt
def bitOr (a b : Int) : Int := (Int64.ofInt a ||| Int64.ofInt b).toInt
def bitXor (a b : Int) : Int := (Int64.ofInt a ^^^ Int64.ofInt b).toInt

/-- `i64::checked_div`: `None` for a zero divisor and for `MIN / -1`; both are
    reported as `DivideByZero` by the caller. -/
def checkedDiv (a b : Int) : Except ExprErr Term :=
  if b = 0 then .error .divideByZero
  else checkedI64 (Int.tdiv a b) .divideByZero

/-! ### operators -/

def typeName : Term → Option Str
  | .var _ => none
  | .int _ => some "integer".toUTF8.toList
  | .str _ => some "string".toUTF8.toList
  | .date _ => some "date".toUTF8.toList
  | .bytes _ => some "bytes".toUTF8.toList
  | .bool _ => some "bool".toUTF8.toList
  | .set _ => some "set".toUTF8.toList
  | .null => some "null".toUTF8.toList
  | .arr _ => some "array".toUTF8.toList
  | .map _ => some "map".toUTF8.toList

def evalUnary (u : Unary) (v : Term) (syms : TempSyms) : EvalM :=
  match u, v with
  | .negate, .bool b => .ok (.bool (!b), syms)
  | .parens, t => .ok (t, syms)
  | .length, .str i =>
    match syms.getSymbol i with
    | some s => .ok (.int s.length, syms)
    | none => .error (.unknownSymbol i)
  | .length, .bytes b => .ok (.int b.length, syms)
  | .length, .set s => .ok (.int s.length, syms)
  | .length, .arr a => .ok (.int a.length, syms)
  | .length, .map m => .ok (.int m.length, syms)
  | .typeOf, t =>
    match typeName t with
    | none => .error .invalidType
    | some n => let (syms', i) := syms.insert n; .ok (.str i, syms')
  | .ffi name, _ =>
    match syms.getSymbol name with
    | none => .error (.unknownSymbol name)
    | some _ => .error .undefinedExtern
  | _, _ => .error .invalidType

/-- Two string operands: both symbols must resolve (`(Some(_), None) => right`, otherwise left). -/
def withStrs (syms : TempSyms) (a b : Nat) (k : Str → Str → EvalM) : EvalM :=
  match syms.getSymbol a, syms.getSymbol b with
  | some x, some y => k x y
  | some _, none => .error (.unknownSymbol b)
  | none, _ => .error (.unknownSymbol a)

/-- Comparison operators `< > <= >=`: integers and dates only. -/
def evalCompare (fi : Int → Int → Bool) (fn : Nat → Nat → Bool) (l r : Term) (syms : TempSyms) : EvalM :=
  match l, r with
  | .int i, .int j => .ok (.bool (fi i j), syms)
  | .date i, .date j => .ok (.bool (fn i j), syms)
  | _, _ => .error .invalidType

/-- Operand kinds on which `===`/`!==` are defined (same kind on both sides). -/
def sameEqKind : Term → Term → Bool
  | .int _, .int _ | .str _, .str _ | .date _, .date _ | .bytes _, .bytes _
  | .set _, .set _ | .bool _, .bool _ | .null, .null | .arr _, .arr _ | .map _, .map _ => true
  | _, _ => false

def mapHasKey (m : List (MapKey × Term)) (j : Term) : Bool :=
  m.any fun kv => match kv.1, j with
    | .int k, .int l => k == l
    | .str k, .str l => k == l
    | _, _ => false

def evalContains (l r : Term) (syms : TempSyms) : EvalM :=
  match l, r with
  | .str s, .str p => withStrs syms s p fun s p => .ok (.bool (isInfixB p s), syms)
  | .set a, .set b => .ok (.bool (setSuperset a b), syms)
  | .set a, .int i => .ok (.bool (setContains a (.int i)), syms)
  | .set a, .date i => .ok (.bool (setContains a (.date i)), syms)
  | .set a, .bool i => .ok (.bool (setContains a (.bool i)), syms)
  | .set a, .str i => .ok (.bool (setContains a (.str i)), syms)
  | .set a, .bytes i => .ok (.bool (setContains a (.bytes i)), syms)
  | .arr a, j => .ok (.bool (a.any (fun e => e == j)), syms)
  | .map m, j => .ok (.bool (mapHasKey m j), syms)
  | _, _ => .error .invalidType

def arrGet (a : List Term) (i : Int) : Term :=
  if i < 0 then .null else (a[i.toNat]?).getD .null

def evalBinary (op : Binary) (l r : Term) (syms : TempSyms) : EvalM :=
  match op with
  | .lessThan => evalCompare (fun a b => decide (a < b)) (fun a b => decide (a < b)) l r syms
  | .greaterThan => evalCompare (fun a b => decide (a > b)) (fun a b => decide (a > b)) l r syms
  | .lessOrEqual => evalCompare (fun a b => decide (a ≤ b)) (fun a b => decide (a ≤ b)) l r syms
  | .greaterOrEqual => evalCompare (fun a b => decide (a ≥ b)) (fun a b => decide (a ≥ b)) l r syms
  | .equal => if sameEqKind l r then .ok (.bool (l == r), syms) else .error .invalidType
  | .notEqual => if sameEqKind l r then .ok (.bool (l != r), syms) else .error .invalidType
  | .heterogeneousEqual => .ok (.bool (sameEqKind l r && l == r), syms)
  | .heterogeneousNotEqual => .ok (.bool (!(sameEqKind l r && l == r)), syms)
  | .contains => evalContains l r syms
  | .pfx =>
    match l, r with
    | .str s, .str p => withStrs syms s p fun s p => .ok (.bool (isPrefixB p s), syms)
    | .arr a, .arr b => .ok (.bool (decide (b.isPrefixOf a = true)), syms)
    | _, _ => .error .invalidType
  | .sfx =>
    match l, r with
    | .str s, .str p => withStrs syms s p fun s p => .ok (.bool (isSuffixB p s), syms)
    | .arr a, .arr b => .ok (.bool (decide (b.reverse.isPrefixOf a.reverse = true)), syms)
    | _, _ => .error .invalidType
  | .regex =>
    match l, r with
    | .str s, .str p => withStrs syms s p fun s p =>
        if literalPattern p then .ok (.bool (isInfixB p s), syms) else .error .unsupportedRegex
    | _, _ => .error .invalidType
  | .add =>
    match l, r with
    | .int i, .int j => (checkedI64 (i + j) .overflow).map (·, syms)
    | .str a, .str b => withStrs syms a b fun a b =>
        let (syms', i) := syms.insert (a ++ b); .ok (.str i, syms')
    | _, _ => .error .invalidType
  | .sub =>
    match l, r with
    | .int i, .int j => (checkedI64 (i - j) .overflow).map (·, syms)
    | _, _ => .error .invalidType
  | .mul =>
    match l, r with
    | .int i, .int j => (checkedI64 (i * j) .overflow).map (·, syms)
    | _, _ => .error .invalidType
  | .div =>
    match l, r with
    | .int i, .int j => (checkedDiv i j).map (·, syms)
    | _, _ => .error .invalidType
  | .and =>
    match l, r with
    | .bool i, .bool j => .ok (.bool (i && j), syms)
    | _, _ => .error .invalidType
  | .or =>
    match l, r with
    | .bool i, .bool j => .ok (.bool (i || j), syms)
    | _, _ => .error .invalidType
  | .intersection =>
    match l, r with
    | .set a, .set b => .ok (.set (setInter a b), syms)
    | _, _ => .error .invalidType
  | .union =>
    match l, r with
    | .set a, .set b => .ok (.set (setUnion a b), syms)
    | _, _ => .error .invalidType
  | .bitwiseAnd =>
    match l, r with
    | .int i, .int j => .ok (.int (bitAnd i j), syms)
    | _, _ => .error .invalidType
  | .bitwiseOr =>
    match l, r with
    | .int i, .int j => .ok (.int (bitOr i j), syms)
    | _, _ => .error .invalidType
  | .bitwiseXor =>
    match l, r with
    | .int i, .int j => .ok (.int (bitXor i j), syms)
    | _, _ => .error .invalidType
  | .get =>
    match l, r with
    | .arr a, .int i => .ok (arrGet a i, syms)
    | .map m, .int i => .ok ((mapGet m (.int i)).getD .null, syms)
    | .map m, .str i => .ok ((mapGet m (.str i)).getD .null, syms)
    | _, _ => .error .invalidType
  | .ffi name =>
    match syms.getSymbol name with
    | none => .error (.unknownSymbol name)
    | some _ => .error .undefinedExtern
  | .lazyAnd | .lazyOr | .all | .any => .error .invalidType

/-- The loop of `all` (`stopOn = false`) / `any` (`stopOn = true`) over the
    elements of a collection, in iteration order. -/
def closureLoop (ev : List Op → Bindings → TempSyms → EvalM) (stopOn : Bool)
    (param : Nat) (body : List Op) (vals : Bindings) : List Term → TempSyms → EvalM
  | [], syms => .ok (.bool (!stopOn), syms)
  | x :: xs, syms =>
    match ev body (Bindings.insert vals param x) syms with
    | .error e => .error e
    | .ok (.bool b, syms') =>
      if b = stopOn then .ok (.bool stopOn, syms')
      else closureLoop ev stopOn param body vals xs syms'
    | .ok (_, _) => .error .invalidType

def mapEntries (m : List (MapKey × Term)) : List Term :=
  m.map fun kv => .arr [match kv.1 with | .int i => .int i | .str s => .str s, kv.2]

/-- `Binary::evaluate_with_closure` -/
def evalWithClosure (ev : List Op → Bindings → TempSyms → EvalM) (op : Binary) (l : Term)
    (params : List Nat) (body : List Op) (vals : Bindings) (syms : TempSyms) : EvalM :=
  match op, l, params with
  | .lazyOr, .bool true, [] => .ok (.bool true, syms)
  | .lazyOr, .bool false, [] => ev body vals syms
  | .lazyAnd, .bool false, [] => .ok (.bool false, syms)
  | .lazyAnd, .bool true, [] => ev body vals syms
  | .all, .set s, [p] => closureLoop ev false p body vals s syms
  | .any, .set s, [p] => closureLoop ev true p body vals s syms
  | .all, .arr s, [p] => closureLoop ev false p body vals s syms
  | .any, .arr s, [p] => closureLoop ev true p body vals s syms
  | .all, .map m, [p] => closureLoop ev false p body vals (mapEntries m) syms
  | .any, .map m, [p] => closureLoop ev true p body vals (mapEntries m) syms
  | _, _, _ => .error .invalidType

/-- The loop of `Expression::evaluate`, with the evaluator used for closure bodies as a parameter. -/
def stepOps (ev : List Op → Bindings → TempSyms → EvalM) (vals : Bindings) :
    List Op → List StackElem → TempSyms → EvalM
  | [], [.term t], syms => .ok (t, syms)
  | [], _, _ => .error .invalidStack
  | .value (.var i) :: rest, stack, syms =>
    match Bindings.get vals i with
    | some t => stepOps ev vals rest (.term t :: stack) syms
    | none => .error (.unknownVariable i)
  | .value t :: rest, stack, syms => stepOps ev vals rest (.term t :: stack) syms
  | .unary u :: rest, stack, syms =>
    match stack with
    | .term t :: stack' =>
      match evalUnary u t syms with
      | .ok (v, syms') => stepOps ev vals rest (.term v :: stack') syms'
      | .error e => .error e
    | _ => .error .invalidStack
  | .binary b :: rest, stack, syms =>
    match stack with
    | .term r :: .term l :: stack' =>
      match evalBinary b l r syms with
      | .ok (v, syms') => stepOps ev vals rest (.term v :: stack') syms'
      | .error e => .error e
    | .closure params body :: .term l :: stack' =>
      if params.any (fun p => Bindings.hasKey vals p) then .error .shadowedVariable
      else
        match evalWithClosure ev b l params body vals syms with
        | .ok (v, syms') => stepOps ev vals rest (.term v :: stack') syms'
        | .error e => .error e
    | _ => .error .invalidStack
  | .closure params body :: rest, stack, syms =>
    stepOps ev vals rest (.closure params body :: stack) syms

/-- `Expression::evaluate` with a recursion budget for nested closures. -/
def evalExpr : Nat → List Op → Bindings → TempSyms → EvalM
  | 0, _, _, _ => .error .outOfFuel
  | n + 1, ops, vals, syms => stepOps (evalExpr n) vals ops [] syms

mutual
/-- Nesting depth of closures. -/
def Op.depth : Op → Nat
  | .closure _ ops => Op.depthList ops + 1
  | _ => 0
def Op.depthList : List Op → Nat
  | [] => 0
  | o :: os => max (Op.depth o) (Op.depthList os)
end

/-- Evaluation with a budget that `eval_total` (Props/C06) shows sufficient. -/
def eval (ops : List Op) (vals : Bindings) (syms : TempSyms) : EvalM :=
  evalExpr (Op.depthList ops + 1) ops vals syms

end Biscuit
