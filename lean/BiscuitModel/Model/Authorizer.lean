/-
  The authorizer (biscuit-auth/src/token/authorizer.rs, token/builder/authorizer.rs,
  datalog/origin.rs), at the level where strings and public keys have already been
  interned into the authorizer's tables.

  * `trustedFromScopes`  — `TrustedOrigins::from_scopes`
  * `keyMap`             — `public_key_to_block_id` (filled for all blocks before any scope is resolved)
  * `buildWorld`         — `AuthorizerBuilder::build_inner` + `load_and_translate_block`
  * `authorize`          — `Authorizer::authorize` / `authorize_inner`
  * `queryDefault`, `queryAll` — `Authorizer::query`, `Authorizer::query_all`
-/
import BiscuitModel.Model.Datalog
namespace Biscuit

inductive Scope where
  | authority
  | previous
  | publicKey (k : Nat)
  deriving Repr, DecidableEq, Inhabited

inductive CheckKind where
  | one | all | reject
  deriving Repr, DecidableEq, Inhabited

/-- a rule with its own `trusting` annotation -/
structure QRule where
  rule : Rule
  scopes : List Scope
  deriving Repr, Inhabited

structure Check where
  kind : CheckKind
  queries : List QRule
  deriving Repr, Inhabited

inductive PolicyKind where
  | allow | deny
  deriving Repr, DecidableEq, Inhabited

structure Policy where
  kind : PolicyKind
  queries : List QRule
  deriving Repr, Inhabited

structure Block where
  facts : List Fact
  rules : List QRule
  checks : List Check
  scopes : List Scope
  /-- id (in the authorizer's key table) of the external key, for a third-party block -/
  extKey : Option Nat
  deriving Repr, Inhabited

structure AuthorizerData where
  facts : List Fact
  rules : List QRule
  checks : List Check
  policies : List Policy
  scopes : List Scope
  deriving Repr, Inhabited

abbrev KeyMap := List (Nat × List Nat)

def KeyMap.get (m : KeyMap) (k : Nat) : List Nat :=
  match m with
  | [] => []
  | (k', bs) :: rest => if k' = k then bs else KeyMap.get rest k

def KeyMap.push (m : KeyMap) (k : Nat) (b : Nat) : KeyMap :=
  match m with
  | [] => [(k, [b])]
  | (k', bs) :: rest => if k' = k then (k', bs ++ [b]) :: rest else (k', bs) :: KeyMap.push rest k b

/-- `public_key_to_block_id`: block `i ≥ 1` carrying an external signature by key `k` is listed under `k` -/
def keyMapFrom : List Block → Nat → KeyMap → KeyMap
  | [], _, m => m
  | b :: rest, i, m =>
    match b.extKey with
    | some k => keyMapFrom rest (i + 1) (if i = 0 then m else KeyMap.push m k i)
    | none => keyMapFrom rest (i + 1) m

def keyMap (blocks : List Block) : KeyMap := keyMapFrom blocks 0 []

/-- `TrustedOrigins::default()` : authorizer and authority -/
def defaultTrusted : List Nat := Origin.insert 0 [authorizerId]

def rangeTo (n : Nat) : List Nat := List.range (n + 1)

/-- one `trusting` annotation applied to the trusted set being built -/
def scopeStep (current : Nat) (km : KeyMap) (acc : List Nat) : Scope → List Nat
  | .authority => Origin.insert 0 acc
  | .previous => if current = authorizerId then acc else Origin.union acc (rangeTo current)
  | .publicKey k => Origin.union acc (KeyMap.get km k)

/-- `TrustedOrigins::from_scopes` -/
def trustedFromScopes (scopes : List Scope) (dflt : List Nat) (current : Nat) (km : KeyMap) : List Nat :=
  if scopes.isEmpty then Origin.insert authorizerId (Origin.insert current dflt)
  else scopes.foldl (scopeStep current km) (Origin.insert current [authorizerId])

/-- facts and rules of block `i` as loaded into the world (`load_and_translate_block`) -/
def blockFacts (i : Nat) (b : Block) : List (List Nat × Fact) := b.facts.map fun f => ([i], f)

def blockRules (km : KeyMap) (i : Nat) (b : Block) : List SRule :=
  let bt := trustedFromScopes b.scopes defaultTrusted i km
  b.rules.map fun q => ⟨trustedFromScopes q.scopes bt i km, i, q.rule⟩

def enumFrom {α : Type} : Nat → List α → List (Nat × α)
  | _, [] => []
  | i, x :: xs => (i, x) :: enumFrom (i + 1) xs

def authorizerTrusted (az : AuthorizerData) (km : KeyMap) : List Nat :=
  trustedFromScopes az.scopes defaultTrusted authorizerId km

/-- initial facts and rules of the world, in loading order: blocks, then authorizer -/
def worldFacts (blocks : List Block) (az : AuthorizerData) : List (List Nat × Fact) :=
  (enumFrom 0 blocks).flatMap (fun ib => blockFacts ib.1 ib.2) ++ az.facts.map fun f => ([authorizerId], f)

def worldRules (blocks : List Block) (az : AuthorizerData) : List SRule :=
  let km := keyMap blocks
  (enumFrom 0 blocks).flatMap (fun ib => blockRules km ib.1 ib.2) ++
    az.rules.map fun q => ⟨trustedFromScopes q.scopes (authorizerTrusted az km) authorizerId km, authorizerId, q.rule⟩

inductive FailedCheck where
  | authorizer (check : Nat)
  | block (block : Nat) (check : Nat)
  deriving Repr, DecidableEq, Inhabited

inductive AuthzResult where
  | ok (policy : Nat)
  | noMatchingPolicy (failed : List FailedCheck)
  | unauthorized (kind : PolicyKind) (policy : Nat) (failed : List FailedCheck)
  | runError (e : RunErr)
  | exprError (e : ExprErr)
  deriving Repr, DecidableEq, Inhabited

/-- one alternative of a check -/
def evalQuery (syms : SymbolTable) (facts : List (List Nat × Fact)) (kind : CheckKind)
    (trusted : List Nat) (blk : Nat) (r : Rule) : Except ExprErr Bool :=
  match kind with
  | .one => findMatch syms facts trusted blk r
  | .all => checkMatchAll syms facts trusted r
  | .reject => (findMatch syms facts trusted blk r).map (!·)

/-- a check: `check if` / `check all` succeed as soon as one alternative succeeds;
    `reject if` succeeds only when **no** alternative matches.  The first error aborts. -/
def evalCheck (syms : SymbolTable) (facts : List (List Nat × Fact)) (km : KeyMap) (dflt : List Nat) (blk : Nat)
    (c : Check) : Except ExprErr Bool :=
  let rec go : List QRule → Except ExprErr Bool
    | [] => .ok (c.kind == .reject)
    | q :: rest =>
      match evalQuery syms facts c.kind (trustedFromScopes q.scopes dflt blk km) blk q.rule with
      | .error e => .error e
      | .ok true => if c.kind == .reject then go rest else .ok true
      | .ok false => if c.kind == .reject then .ok false else go rest
  go c.queries

/-- failed checks of a list of checks, in order -/
def failedChecks (syms : SymbolTable) (facts : List (List Nat × Fact)) (km : KeyMap) (dflt : List Nat) (blk : Nat)
    (mk : Nat → FailedCheck) : Nat → List Check → Except ExprErr (List FailedCheck)
  | _, [] => .ok []
  | i, c :: rest =>
    match evalCheck syms facts km dflt blk c with
    | .error e => .error e
    | .ok b =>
      match failedChecks syms facts km dflt blk mk (i + 1) rest with
      | .error e => .error e
      | .ok l => .ok (if b then l else mk i :: l)

def policyMatches (syms : SymbolTable) (facts : List (List Nat × Fact)) (km : KeyMap) (dflt : List Nat) :
    List QRule → Except ExprErr Bool
  | [] => .ok false
  | q :: rest =>
    match findMatch syms facts (trustedFromScopes q.scopes dflt authorizerId km) authorizerId q.rule with
    | .error e => .error e
    | .ok true => .ok true
    | .ok false => policyMatches syms facts km dflt rest

/-- first policy, in order, one of whose alternatives matches -/
def firstPolicy (syms : SymbolTable) (facts : List (List Nat × Fact)) (km : KeyMap) (dflt : List Nat) :
    Nat → List Policy → Except ExprErr (Option (PolicyKind × Nat))
  | _, [] => .ok none
  | i, p :: rest =>
    match policyMatches syms facts km dflt p.queries with
    | .error e => .error e
    | .ok true => .ok (some (p.kind, i))
    | .ok false => firstPolicy syms facts km dflt (i + 1) rest

def blocksFailed (syms : SymbolTable) (facts : List (List Nat × Fact)) (km : KeyMap) :
    List (Nat × Block) → Except ExprErr (List FailedCheck)
  | [] => .ok []
  | (i, b) :: rest =>
    match failedChecks syms facts km (trustedFromScopes b.scopes defaultTrusted i km) i (FailedCheck.block i) 0 b.checks with
    | .error e => .error e
    | .ok l =>
      match blocksFailed syms facts km rest with
      | .error e => .error e
      | .ok l' => .ok (l ++ l')

/-- `authorize_inner` on a world that has been run: authorizer checks, authority checks,
    policies, then the checks of the other blocks; the first evaluation error aborts. -/
def decide (syms : SymbolTable) (facts : List (List Nat × Fact)) (blocks : List Block) (az : AuthorizerData) :
    AuthzResult :=
  let km := keyMap blocks
  let azT := authorizerTrusted az km
  match failedChecks syms facts km azT authorizerId FailedCheck.authorizer 0 az.checks with
  | .error e => .exprError e
  | .ok f1 =>
    match blocksFailed syms facts km ((enumFrom 0 blocks).take 1) with
    | .error e => .exprError e
    | .ok f2 =>
      match firstPolicy syms facts km azT 0 az.policies with
      | .error e => .exprError e
      | .ok pol =>
        match blocksFailed syms facts km ((enumFrom 0 blocks).drop 1) with
        | .error e => .exprError e
        | .ok f3 =>
          let failed := f1 ++ f2 ++ f3
          match pol with
          | none => .noMatchingPolicy failed
          | some (.allow, i) => if failed.isEmpty then .ok i else .unauthorized .allow i failed
          | some (.deny, i) => .unauthorized .deny i failed

/-- `Authorizer::authorize` -/
def authorize (syms : SymbolTable) (blocks : List Block) (az : AuthorizerData) (lim : Limits) : AuthzResult :=
  let out := run syms (worldRules blocks az) lim (factMerge [] (worldFacts blocks az))
  match out.result with
  | .error e => .runError e
  | .ok () => decide syms out.facts blocks az

/-- trusted origins of `Authorizer::query` (authority + authorizer unless the rule says otherwise) -/
def queryTrusted (blocks : List Block) (q : QRule) : List Nat :=
  trustedFromScopes q.scopes defaultTrusted authorizerId (keyMap blocks)

/-- `token_origins`: every block of the token and the authorizer -/
def tokenOrigins (blocks : List Block) : List Nat :=
  if blocks.isEmpty then defaultTrusted
  else trustedFromScopes [.previous] defaultTrusted blocks.length (keyMap blocks)

/-- trusted origins of `Authorizer::query_all` -/
def queryAllTrusted (blocks : List Block) (q : QRule) : List Nat :=
  if q.scopes.isEmpty then tokenOrigins blocks
  else trustedFromScopes q.scopes defaultTrusted authorizerId (keyMap blocks)

end Biscuit
