/-
  The expression parser of `biscuit-parser/src/parser.rs` (C14): `expr` … `expr9`, `expr_term`,
  `unary_negate`, `unary_parens`, `binary_method`, `unary_method`, `term`, as the code has them:

    * levels 0 `||`, 1 `&&`, 3 `^`, 4 `|`, 5 `&`, 6 `+ -`, 7 `* /` are
      `operand (space0 operator operand)*` folded to the left (`many0`: an `Error` of the
      operator or of the operand ends the loop *before* the operator; a `Failure` is passed on);
      the right operand of `&&` / `||` becomes a parameterless closure (`fold_exprs`);
    * level 2 (comparisons) takes at most one operator and swallows *any* failure of what
      follows it (`if let Ok(..)`);
    * level 8 is `!` applied to a level-6 expression, or level 9;
    * level 9 is a parenthesised expression or a term, followed by `.method(…)` calls with no
      blank before the dot; both method parsers are run, the binary one wins, and when both fail
      the error class is the unary parser's;
    * `term` here also accepts `$variable` (after `date`, before `integer`).

  The tree type is `Printer.ETree`; terms are parsed by `TermParser`.
-/
import BiscuitModel.Model.TermParser
namespace Biscuit.ExprParser
open Biscuit.Printer Biscuit.TermParser

/-- `variable`: `$` and a name -/
def pVariable (s : List Char) : Option (STerm × List Char) :=
  match s with
  | '$' :: r => (pName r).map fun (n, r') => (.var (String.ofList n), r')
  | _ => none

/-- the scalar alternatives of `term`, in its order -/
def pAtomAny (dateP : List Char → Option Nat) (s : List Char) : Option (STerm × List Char) :=
  alt (pParameter s) fun _ => alt (pStringT s) fun _ => alt (pDate dateP s) fun _ => alt (pVariable s) fun _ =>
  alt (pIntT s) fun _ => alt (pBytes s) fun _ => alt (pBool s) fun _ => pNull s

/-- `term` -/
def pTermAny (dateP : List Char → Option Nat) : Nat → List Char → Res STerm
  | 0, _ => .fail
  | n + 1, s0 =>
    let s := space0 s0
    match pAtomAny dateP s with
    | some (t, r) => .ok t r
    | none =>
      match pArray dateP n s with
      | .ok t r => .ok t r
      | .fail => .fail
      | .err =>
        match pMap dateP n s with
        | .ok t r => .ok t r
        | .fail => .fail
        | .err => pSet dateP n s

/-- first of the (tag, value) pairs whose tag is a prefix of the input -/
def firstTag {α : Type} : List (List Char × α) → List Char → Option (α × List Char)
  | [], _ => none
  | (t, v) :: rest, s =>
    match tag t s with
    | some r => some (v, r)
    | none => firstTag rest s

/-- `binary_op_0` … `binary_op_7` -/
def opsAt : Nat → List (List Char × Bin)
  | 0 => [(['|', '|'], .lazyOr)]
  | 1 => [(['&', '&'], .lazyAnd)]
  | 2 => [(['<', '='], .le), (['>', '='], .ge), (['<'], .lt), (['>'], .gt), (['=', '=', '='], .eq), (['!', '=', '='], .ne),
          (['=', '='], .heq), (['!', '='], .hne)]
  | 3 => [(['^'], .bxor)]
  | 4 => [(['|'], .bor)]
  | 5 => [(['&'], .band)]
  | 6 => [(['+'], .add), (['-'], .sub)]
  | 7 => [(['*'], .mul), (['/'], .div)]
  | _ => []

/-- `fold_exprs`, one step -/
def foldOne (acc : ETree) (op : Bin) (e : ETree) : ETree :=
  match op with
  | .lazyAnd => .bin op acc (.clo [] e)
  | .lazyOr => .bin op acc (.clo [] e)
  | _ => .bin op acc e

/-- `binary_op_8` (without `extern::`) -/
def methodTags : List (List Char × Bin) :=
  [("contains".toList, .contains), ("starts_with".toList, .prefix), ("ends_with".toList, .suffix), ("matches".toList, .regex),
   ("intersection".toList, .intersection), ("union".toList, .union), ("all".toList, .all), ("any".toList, .any),
   ("get".toList, .get)]

/-- `binary_op_8` -/
def pBinMethodName (s : List Char) : Option (Bin × List Char) :=
  match firstTag methodTags s with
  | some r => some r
  | none =>
    match tag "extern::".toList s with
    | some r => (pName r).map fun (n, r') => (Bin.ffi (String.ofList n), r')
    | none => none

/-- `unary_method` -/
def pUnMethod (s : List Char) : Option (Un × List Char) :=
  let name : Option (Un × List Char) :=
    match tag "length".toList s with
    | some r => some (.length, r)
    | none =>
      match tag "type".toList s with
      | some r => some (.typeOf, r)
      | none =>
        match tag "extern::".toList s with
        | some r => (pName r).map fun (n, r') => (Un.ffi (String.ofList n), r')
        | none => none
  match name with
  | some (u, '(' :: r) =>
    match space0 r with
    | ')' :: r' => some (u, r')
    | _ => none
  | _ => none

def isClosureOp : Bin → Bool
  | .all => true
  | .any => true
  | _ => false

mutual
/-- `expr` (level 0) … `expr7` (level 7), `expr8` (level 8) -/
def pLevel (dateP : List Char → Option Nat) : Nat → Nat → List Char → Res ETree
  | _, 0, _ => .fail
  | lvl, n + 1, s =>
    if lvl ≥ 8 then pExpr8 dateP n s
    else
      match pLevel dateP (lvl + 1) n s with
      | .ok e r =>
        if lvl = 2 then
          -- `expr2`: at most one comparison; whatever goes wrong after the operator is swallowed
          match firstTag (opsAt 2) (space0 r) with
          | none => .ok e r
          | some (op, r1) =>
            match pLevel dateP 3 n r1 with
            | .ok e2 r2 => .ok (.bin op e e2) r2
            | _ => .ok e r
        else pLoop dateP lvl n e r
      | .err => .err
      | .fail => .fail
/-- the `many0` loop of a left-associative level -/
def pLoop (dateP : List Char → Option Nat) : Nat → Nat → ETree → List Char → Res ETree
  | _, 0, _, _ => .fail
  | lvl, n + 1, acc, s =>
    match firstTag (opsAt lvl) (space0 s) with
    | none => .ok acc s
    | some (op, r1) =>
      match pLevel dateP (lvl + 1) n r1 with
      | .ok e r2 => pLoop dateP lvl n (foldOne acc op e) r2
      | .err => .ok acc s
      | .fail => .fail
/-- `expr8` = `alt((unary_negate, expr9))` -/
def pExpr8 (dateP : List Char → Option Nat) : Nat → List Char → Res ETree
  | 0, _ => .fail
  | n + 1, s =>
    match space0 s with
    | '!' :: r =>
      match pLevel dateP 6 n (space0 r) with
      | .ok e r' => .ok (.un .negate e) r'
      | .err => pExpr9 dateP n s
      | .fail => .fail
    | _ => pExpr9 dateP n s
/-- `expr9`: `expr_term` then method calls -/
def pExpr9 (dateP : List Char → Option Nat) : Nat → List Char → Res ETree
  | 0, _ => .fail
  | n + 1, s =>
    match pExprTerm dateP n s with
    | .ok e r => pMethods dateP n e r
    | .err => .err
    | .fail => .fail
/-- `expr_term` = `alt((unary_parens, term))` -/
def pExprTerm (dateP : List Char → Option Nat) : Nat → List Char → Res ETree
  | 0, _ => .fail
  | n + 1, s =>
    match pParen dateP n s with
    | .ok e r => .ok e r
    | .fail => .fail
    | .err =>
      match pTermAny dateP n s with
      | .ok t r => .ok (.val t) r
      | .err => .err
      | .fail => .fail
/-- `unary_parens` -/
def pParen (dateP : List Char → Option Nat) : Nat → List Char → Res ETree
  | 0, _ => .fail
  | n + 1, s =>
    match space0 s with
    | '(' :: r =>
      match pLevel dateP 0 n (space0 r) with
      | .ok e r1 =>
        match space0 r1 with
        | ')' :: r2 => .ok (.un .parens e) r2
        | _ => .err
      | .err => .err
      | .fail => .fail
    | _ => .err
/-- the loop of `expr9` -/
def pMethods (dateP : List Char → Option Nat) : Nat → ETree → List Char → Res ETree
  | 0, _, _ => .fail
  | n + 1, acc, s =>
    match s with
    | '.' :: r =>
      match pBinMethod dateP n r with
      | .ok (op, ps, arg) r' =>
        pMethods dateP n (match ps with | some ps => .bin op acc (.clo ps arg) | none => .bin op acc arg) r'
      | _ =>
        match pUnMethod r with
        | some (u, r') => pMethods dateP n (.un u acc) r'
        | none => .err
    | _ => .ok acc s
/-- `binary_method` -/
def pBinMethod (dateP : List Char → Option Nat) : Nat → List Char → Res (Bin × Option (List String) × ETree)
  | 0, _ => .fail
  | n + 1, s =>
    match pBinMethodName s with
    | none => .err
    | some (op, '(' :: r) =>
      let r := space0 r
      if isClosureOp op then
        match r with
        | '$' :: r1 =>
          match pName r1 with
          | none => .err
          | some (p, r2) =>
            match tag ['-', '>'] (space0 r2) with
            | none => .err
            | some r3 =>
              match pLevel dateP 0 n (space0 r3) with
              | .ok arg r4 =>
                match space0 r4 with
                | ')' :: r5 => .ok (op, some [String.ofList p], arg) r5
                | _ => .err
              | .err => .err
              | .fail => .fail
        | _ => .err
      else
        match pLevel dateP 0 n r with
        | .ok arg r4 =>
          match space0 r4 with
          | ')' :: r5 => .ok (op, none, arg) r5
          | _ => .err
        | .err => .err
        | .fail => .fail
    | some _ => .err
end

/-- `expr` with the fuel any input needs -/
def parseExpr (dateP : List Char → Option Nat) (s : List Char) : Res ETree :=
  pLevel dateP 0 (50 * s.length + 50) s

end Biscuit.ExprParser
