/-
  The symbol and public-key tables of a token across operations
  (biscuit-auth/src/token/mod.rs, token/unverified.rs, format/mod.rs `extract_blocks`,
  token/builder/block.rs `BlockBuilder::build`).

  A first-party block is built against a copy of the token's tables and declares the
  strings and keys it adds; a third-party block is built against empty tables and declares
  everything it uses; neither API lets a third-party block touch the token's tables.
  `reload` is what deserialization reconstructs from the declarations alone.
-/
import BiscuitModel.Model.Intern
namespace Biscuit

/-- `BlockBuilder::build`: facts, rules (with their scopes), checks (with theirs), block scopes -/
def internBlockBuild (pool : List Str) (t : ITable) (b : Block) : ITable × Block :=
  let (t1, fs) := internList (internPred pool) t b.facts
  let (t2, rs) := internList (internQRule pool) t1 b.rules
  let (t3, cs) := internList (internCheck pool) t2 b.checks
  let (t4, sc) := internList internScope t3 b.scopes
  (t4, ⟨fs, rs, cs, sc, b.extKey⟩)

structure BlockDecl where
  syms : List Str
  keys : List Nat
  thirdParty : Bool
  deriving Repr, DecidableEq, Inhabited

structure TokSyms where
  syms : List Str
  keys : List Nat
  blocks : List BlockDecl
  deriving Repr, DecidableEq, Inhabited

def TokSyms.table (t : TokSyms) : ITable := ⟨⟨t.syms⟩, t.keys⟩

/-- `BiscuitBuilder::build` -/
def TokSyms.build (pool : List Str) (b : Block) : TokSyms :=
  let (t, _) := internBlockBuild pool ITable.empty b
  ⟨t.syms.symbols, t.keys, [⟨t.syms.symbols, t.keys, false⟩]⟩

/-- `append` (both APIs): built against the token's tables, which are extended by what is new -/
def TokSyms.append (pool : List Str) (t : TokSyms) (b : Block) : TokSyms :=
  let (t', _) := internBlockBuild pool t.table b
  ⟨t'.syms.symbols, t'.keys,
   t.blocks ++ [⟨t'.syms.symbols.drop t.syms.length, t'.keys.drop t.keys.length, false⟩]⟩

/-- `append_third_party` (both APIs): built against empty tables; the token's tables do not change -/
def TokSyms.appendThirdParty (pool : List Str) (t : TokSyms) (b : Block) : TokSyms :=
  let (t', _) := internBlockBuild pool ITable.empty b
  { t with blocks := t.blocks ++ [⟨t'.syms.symbols, t'.keys, true⟩] }

/-- `extract_blocks`: the tables rebuilt from the declarations; refused when a first-party block
    redeclares a default symbol, a symbol of an earlier first-party block, or a key -/
def reloadTables : List BlockDecl → List Str → List Nat → Option (List Str × List Nat)
  | [], syms, keys => some (syms, keys)
  | d :: rest, syms, keys =>
    if d.thirdParty then reloadTables rest syms keys
    else if d.syms.any (fun s => Gen.defaultSymbols.contains s) || d.syms.any (fun s => syms.contains s) then none
    else
      match d.keys.foldl (fun acc k => acc.bind fun ks => if ks.contains k then none else some (ks ++ [k])) (some keys) with
      | none => none
      | some keys' => reloadTables rest (syms ++ d.syms) keys'

def TokSyms.reload (t : TokSyms) : Option (List Str × List Nat) := reloadTables t.blocks [] []

end Biscuit
