/-
  Budget accounting of the authorizer across calls
  (biscuit-auth/src/token/authorizer.rs: `run`, `authorize`, `query`, `query_all`;
  datalog/mod.rs: `run_with_limits`).

  `AzState` is what the authorizer remembers between calls: the world's facts, the
  cumulative iteration counter `World::iterations`, and whether a run has completed
  (`execution_time.is_some()`).  Wall-clock time is not modelled here (see C10 in
  DESIGN.md); the clock of the engine loop is the abstract `Limits.timeoutAt`.
-/
import BiscuitModel.Model.Authorizer
namespace Biscuit

structure AzState where
  facts : List (List Nat × Fact)
  iterations : Nat
  done : Bool
  deriving Repr, Inhabited

/-- `Authorizer::run`: cached once it has completed; otherwise runs with what is left of the
    iteration budget (a previous run that hit a limit already spent part of it). -/
def AzState.run (syms : SymbolTable) (rules : List SRule) (lim : Limits) (s : AzState) :
    AzState × Except RunErr Unit :=
  if s.done then (s, .ok ())
  else if 0 < s.iterations ∧ lim.maxIterations ≤ s.iterations then (s, .error .tooManyIterations)
  else
    let lim' : Limits := { lim with maxIterations := lim.maxIterations - s.iterations }
    let out := Biscuit.run syms rules lim' s.facts
    ({ facts := out.facts, iterations := s.iterations + out.iterations,
       done := match out.result with | .ok () => true | .error _ => false }, out.result)

inductive AzCall where
  | authorize
  | query (all : Bool) (q : QRule)
  deriving Repr, Inhabited

inductive CallOut where
  | decision (r : AuthzResult)
  | answer (fs : List (List Nat × Fact))
  | exprError (e : ExprErr)
  deriving Repr, Inhabited

/-- one API call on the authorizer -/
def AzState.call (syms : SymbolTable) (blocks : List Block) (az : AuthorizerData) (lim : Limits)
    (s : AzState) (c : AzCall) : AzState × CallOut :=
  let (s', r) := s.run syms (worldRules blocks az) lim
  match r with
  | .error e => (s', .decision (.runError e))
  | .ok () =>
    match c with
    | .authorize => (s', .decision (decide syms s'.facts blocks az))
    | .query all q =>
      let tr := if all then queryAllTrusted blocks q else queryTrusted blocks q
      match queryRule syms s'.facts tr (if all then 0 else authorizerId) q.rule with
      | .ok fs => (s', .answer fs)
      | .error e => (s', .exprError e)

/-- `Authorizer::from_snapshot (a.snapshot ())`: what a snapshot stores of the evaluation is the
    world's facts, the iteration counter and the execution time of a completed run, so the
    restored authorizer is in the same accounting state -/
def AzState.restore (s : AzState) : AzState := s

/-- a step of a history: an API call, or the authorizer replaced by what its snapshot restores -/
inductive AzOp where
  | call (c : AzCall)
  | restore
  deriving Repr, Inhabited

def AzState.op (syms : SymbolTable) (blocks : List Block) (az : AuthorizerData) (lim : Limits)
    (s : AzState) : AzOp → AzState × Option CallOut
  | .call c => let r := s.call syms blocks az lim c; (r.1, some r.2)
  | .restore => (s.restore, none)

def AzState.init (blocks : List Block) (az : AuthorizerData) : AzState :=
  ⟨factMerge [] (worldFacts blocks az), 0, false⟩

/-- a history of calls on one authorizer -/
def AzState.calls (syms : SymbolTable) (blocks : List Block) (az : AuthorizerData) (lim : Limits) :
    AzState → List AzCall → AzState × List CallOut
  | s, [] => (s, [])
  | s, c :: cs =>
    let (s1, o) := s.call syms blocks az lim c
    let (s2, os) := AzState.calls syms blocks az lim s1 cs
    (s2, o :: os)

/-- a history of calls and snapshot round trips on one authorizer -/
def AzState.ops (syms : SymbolTable) (blocks : List Block) (az : AuthorizerData) (lim : Limits) :
    AzState → List AzOp → AzState × List (Option CallOut)
  | s, [] => (s, [])
  | s, o :: os =>
    let r1 := s.op syms blocks az lim o
    let r2 := AzState.ops syms blocks az lim r1.1 os
    (r2.1, r1.2 :: r2.2)

end Biscuit
