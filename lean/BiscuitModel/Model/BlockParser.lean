/-
  `parse_block_source` and `parse_source` of `biscuit-parser/src/parser.rs` (C14): the optional
  `trusting …;` header of a block, then elements until the input is empty — a rule, a fact, a
  check (a policy, for `parse_source`), each followed by `;` or the end of input, or a comment —
  tried in that order (`alt`), blanks skipped after each.

  The real functions collect errors and resynchronise after the next `;`; whenever there was
  an error the result is `Err`.  The model stops at the first error: `none` stands for `Err`,
  whatever the list of errors is.
-/
import BiscuitModel.Model.RuleParser
namespace Biscuit.BlockParser
open Biscuit.Printer Biscuit.TermParser Biscuit.ExprParser Biscuit.RuleParser

/-- `sep`: blanks, then `;` or the end of input -/
def pSep (s : List Char) : Option (List Char) :=
  match space0 s with
  | ';' :: r => some r
  | [] => some []
  | _ => none

/-- `line_comment` -/
def pLineComment (s : List Char) : Option (List Char) :=
  match space0 s with
  | '/' :: '/' :: r =>
    let body := r.dropWhile fun c => c != '\r' && c != '\n'
    match body with
    | '\n' :: r' => some r'
    | '\r' :: '\n' :: r' => some r'
    | [] => some []
    | _ => none
  | _ => none

/-- the text after the first `*/` -/
def afterClose : List Char → Option (List Char)
  | '*' :: '/' :: r => some r
  | _ :: r => afterClose r
  | [] => none

/-- `multiline_comment` -/
def pMultiComment (s : List Char) : Option (List Char) :=
  match space0 s with
  | '/' :: '*' :: r => afterClose r
  | _ => none

inductive Elem where
  | rule (head : SPred) (b : Body)
  | fact (p : SPred)
  | check (k : CKind) (bs : List Body)
  | policy (k : PKind) (bs : List Body)
  | comment
  deriving Inhabited

/-- `terminated(p, sep)` where `p` returned `r` -/
def thenSep {α : Type} (r : Res α) : Res α :=
  match r with
  | .ok v rest =>
    match pSep rest with
    | some rest' => .ok v rest'
    | none => .err
  | other => other

/-- one element: the alternatives in the order of the code (`withPolicies`: `parse_source`) -/
def pElement (dateP : List Char → Option Nat) (withPolicies : Bool) (fuel : Nat) (s : List Char) : Res Elem :=
  match thenSep (pRuleInner dateP fuel s) with
  | .ok (h, b) r => .ok (.rule h b) r
  | .fail => .fail
  | .err =>
    match thenSep (pFactInner dateP fuel s) with
    | .ok p r => .ok (.fact p) r
    | .fail => .fail
    | .err =>
      match thenSep (pCheckInner dateP fuel s) with
      | .ok (k, bs) r => .ok (.check k bs) r
      | .fail => .fail
      | .err =>
        match (if withPolicies then thenSep (pPolicyInner dateP fuel s) else .err) with
        | .ok (k, bs) r => .ok (.policy k bs) r
        | .fail => .fail
        | .err =>
          match pLineComment s with
          | some r => .ok .comment r
          | none =>
            match pMultiComment s with
            | some r => .ok .comment r
            | none => .err

structure Source where
  scopes : List SScope
  facts : List SPred
  rules : List (SPred × Body)
  checks : List (CKind × List Body)
  policies : List (PKind × List Body)
  deriving Inhabited

def Source.add (src : Source) : Elem → Source
  | .rule h b => { src with rules := src.rules ++ [(h, b)] }
  | .fact p => { src with facts := src.facts ++ [p] }
  | .check k bs => { src with checks := src.checks ++ [(k, bs)] }
  | .policy k bs => { src with policies := src.policies ++ [(k, bs)] }
  | .comment => src

/-- the element loop -/
def pElements (dateP : List Char → Option Nat) (withPolicies : Bool) (fuel : Nat) : Nat → List Char → Source → Option Source
  | 0, _, _ => none
  | n + 1, s, acc =>
    if s.isEmpty then some acc
    else
      match pElement dateP withPolicies fuel s with
      | .ok e r => pElements dateP withPolicies fuel n (space0 r) (acc.add e)
      | _ => none

/-- `parse_block_source`, with the fuel of the statement parsers and the bound of the loop explicit -/
def parseBlockSourceWith (dateP : List Char → Option Nat) (fuel n : Nat) (s : List Char) : Option Source :=
  -- `opt(terminated(terminated(consumed(scopes), sep), space0))`
  match pScopes fuel s with
  | .fail => none
  | .err => pElements dateP false fuel n s ⟨[], [], [], [], []⟩
  | .ok scs r =>
    match pSep r with
    | some r' => pElements dateP false fuel n (space0 r') ⟨scs, [], [], [], []⟩
    | none => pElements dateP false fuel n s ⟨[], [], [], [], []⟩

/-- `parse_block_source` -/
def parseBlockSource (dateP : List Char → Option Nat) (s : List Char) : Option Source :=
  parseBlockSourceWith dateP (fuelOf s) (s.length + 2) s

/-- `parse_source` -/
def parseSource (dateP : List Char → Option Nat) (s : List Char) : Option Source :=
  pElements dateP true (fuelOf s) (s.length + 2) s ⟨[], [], [], [], []⟩

end Biscuit.BlockParser
