/-
  Parameter binding on source-level items (C20).

  Mirrors `token/builder/{term,fact,rule,check,policy,expression}.rs`:
    * `extract_parameters` / `collect_parameters`  → `paramsTerm`, `paramsOps`, `declared`
    * `set`, `set_lenient`, `set_scope`, `set_scope_lenient` → `Item.set…`
    * `validate` / `validate_parameters`             → `missing`
    * `apply_parameters`                              → `substTerm`, `substOps`, `substRule`
  A parameter is bound to a *term* (or a public key for scopes); substitution is a function on
  the AST, never on text.
-/
import BiscuitModel.Model.Printer
namespace Biscuit.Params
open Biscuit.Printer

abbrev Env := List (String × STerm)

def lookup (σ : Env) (n : String) : Option STerm :=
  match σ with
  | [] => none
  | (m, v) :: rest => if m = n then some v else lookup rest n

/-- a parameter in key position takes an integer or a string; anything else leaves the
    parameter in place (`//FIXME: we should return an error` in term.rs) -/
def substKey (σ : Env) : SKey → SKey
  | .param n =>
    match lookup σ n with
    | some (.int i) => .int i
    | some (.str s) => .str s
    | _ => .param n
  | k => k

mutual
/-- `Term::apply_parameters` -/
def substTerm (σ : Env) : STerm → STerm
  | .param n => (lookup σ n).getD (.param n)
  | .set xs => .set (substTerms σ xs)
  | .arr xs => .arr (substTerms σ xs)
  | .map kvs => .map (substKVs σ kvs)
  | t => t
def substTerms (σ : Env) : List STerm → List STerm
  | [] => []
  | t :: ts => substTerm σ t :: substTerms σ ts
def substKVs (σ : Env) : List (SKey × STerm) → List (SKey × STerm)
  | [] => []
  | (k, t) :: kvs => (substKey σ k, substTerm σ t) :: substKVs σ kvs
end

mutual
/-- `Term::extract_parameters`: every parameter name, at any depth, keys included -/
def paramsTerm : STerm → List String
  | .param n => [n]
  | .set xs => paramsTerms xs
  | .arr xs => paramsTerms xs
  | .map kvs => paramsKVs kvs
  | _ => []
def paramsTerms : List STerm → List String
  | [] => []
  | t :: ts => paramsTerm t ++ paramsTerms ts
def paramsKVs : List (SKey × STerm) → List String
  | [] => []
  | (k, t) :: kvs => (match k with | .param n => [n] | _ => []) ++ paramsTerm t ++ paramsKVs kvs
end

mutual
/-- names used in key position -/
def keyParamsTerm : STerm → List String
  | .set xs => keyParamsTerms xs
  | .arr xs => keyParamsTerms xs
  | .map kvs => keyParamsKVs kvs
  | _ => []
def keyParamsTerms : List STerm → List String
  | [] => []
  | t :: ts => keyParamsTerm t ++ keyParamsTerms ts
def keyParamsKVs : List (SKey × STerm) → List String
  | [] => []
  | (k, t) :: kvs => (match k with | .param n => [n] | _ => []) ++ keyParamsTerm t ++ keyParamsKVs kvs
end

mutual
/-- `Op::apply_parameters`, closures included -/
def substOp (σ : Env) : POp → POp
  | .val t => .val (substTerm σ t)
  | .clo ps body => .clo ps (substOps σ body)
  | op => op
def substOps (σ : Env) : List POp → List POp
  | [] => []
  | op :: k => substOp σ op :: substOps σ k
end

mutual
/-- `Op::collect_parameters` -/
def paramsOp : POp → List String
  | .val t => paramsTerm t
  | .clo _ body => paramsOps body
  | _ => []
def paramsOps : List POp → List String
  | [] => []
  | op :: k => paramsOp op ++ paramsOps k
end

mutual
def keyParamsOp : POp → List String
  | .val t => keyParamsTerm t
  | .clo _ body => keyParamsOps body
  | _ => []
def keyParamsOps : List POp → List String
  | [] => []
  | op :: k => keyParamsOp op ++ keyParamsOps k
end

def substPred (σ : Env) (p : SPred) : SPred := { p with terms := substTerms σ p.terms }

abbrev KeyEnv := List (String × String)

def lookupKey (κ : KeyEnv) (n : String) : Option String :=
  match κ with
  | [] => none
  | (m, v) :: rest => if m = n then some v else lookupKey rest n

def substScope (κ : KeyEnv) : SScope → SScope
  | .param n => match lookupKey κ n with | some k => .key k | none => .param n
  | s => s

/-- `Rule::apply_parameters` -/
def substRule (σ : Env) (κ : KeyEnv) (r : SRule) : SRule :=
  { head := substPred σ r.head, body := r.body.map (substPred σ), exprs := r.exprs.map (substOps σ),
    scopes := r.scopes.map (substScope κ) }

def dedup (xs : List String) : List String :=
  xs.foldl (fun acc x => if acc.contains x then acc else acc ++ [x]) []

/-- the term parameters a rule declares (`Rule::new`) -/
def declaredRule (r : SRule) : List String :=
  dedup (paramsTerms r.head.terms ++ (r.body.map fun p => paramsTerms p.terms).flatten
    ++ (r.exprs.map paramsOps).flatten)

def keyParamsRule (r : SRule) : List String :=
  keyParamsTerms r.head.terms ++ (r.body.map fun p => keyParamsTerms p.terms).flatten
    ++ (r.exprs.map keyParamsOps).flatten

def declaredScopes (r : SRule) : List String :=
  dedup (r.scopes.filterMap fun s => match s with | .param n => some n | _ => none)

/-! ## the item with its bindings: one rule (facts are a rule with a head only) -/

structure Item where
  rule : SRule
  env : Env := []
  keys : KeyEnv := []
  deriving Inhabited

inductive SetResult where
  | ok
  | unused (n : String)
  deriving DecidableEq, Repr

/-- `set`: a name the item does not declare is reported -/
def Item.set (it : Item) (n : String) (v : STerm) : Item × SetResult :=
  if (declaredRule it.rule).contains n then ({ it with env := (n, v) :: it.env }, .ok) else (it, .unused n)

/-- `set_lenient`: a name the item does not declare is ignored -/
def Item.setLenient (it : Item) (n : String) (v : STerm) : Item × SetResult :=
  if (declaredRule it.rule).contains n then ({ it with env := (n, v) :: it.env }, .ok) else (it, .ok)

def Item.setScope (it : Item) (n : String) (k : String) : Item × SetResult :=
  if (declaredScopes it.rule).contains n then ({ it with keys := (n, k) :: it.keys }, .ok) else (it, .unused n)

def Item.setScopeLenient (it : Item) (n : String) (k : String) : Item × SetResult :=
  if (declaredScopes it.rule).contains n then ({ it with keys := (n, k) :: it.keys }, .ok) else (it, .ok)

/-- `validate_parameters`: the declared names that have no value -/
def Item.missing (it : Item) : List String :=
  (declaredRule it.rule).filter (fun n => (lookup it.env n).isNone)
    ++ (declaredScopes it.rule).filter (fun n => (lookupKey it.keys n).isNone)

def Item.apply (it : Item) : SRule := substRule it.env it.keys it.rule

/-- parameters still present after substitution: what makes `convert` panic -/
def residualRule (r : SRule) : List String :=
  declaredRule r ++ declaredScopes r

end Biscuit.Params
