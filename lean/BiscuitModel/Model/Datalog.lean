/-
  The scoped Datalog engine (biscuit-auth/src/datalog/mod.rs, origin.rs).

  * `matchPreds`            — `match_preds`
  * `MV`, `MV.insert`, `MV.complete` — `MatchedVariables`
  * `combine`               — the `CombineIt` iterator as a list-valued function
  * `applyRule`             — `Rule::apply` (expressions, head instantiation, origin)
  * `World`, `runLoop`      — `World::run_with_limits` with its three limits and an abstract clock
  * `findMatch`, `checkMatchAll`, `queryRule` — `Rule::find_match`, `Rule::check_match_all`, `World::query_rule`

  Hash containers are lists here; every place where the code iterates over a
  `HashMap`/`HashSet` the model iterates over the list in its given order, so
  the order is a parameter of the model (the caller may permute the lists).
-/
import BiscuitModel.Model.Expr
namespace Biscuit

structure Predicate where
  name : Nat
  terms : List Term
  deriving Repr, DecidableEq, Inhabited

abbrev Fact := Predicate

structure Rule where
  head : Predicate
  body : List Predicate
  exprs : List (List Op)
  deriving Repr, Inhabited

/-- Block ids; the authorizer is `usize::MAX`. -/
def authorizerId : Nat := 18446744073709551615

/-! ### origins: `BTreeSet<usize>` as strictly increasing lists -/

def Origin := List Nat
  deriving Repr, DecidableEq, Inhabited

def Origin.insert (x : Nat) : List Nat → List Nat
  | [] => [x]
  | y :: ys => if x < y then x :: y :: ys else if x = y then y :: ys else y :: Origin.insert x ys

def Origin.union (a b : List Nat) : List Nat := b.foldl (fun acc x => Origin.insert x acc) a

/-- `TrustedOrigins::contains` : the fact's origin is a subset of the trusted set -/
def trusts (trusted : List Nat) (origin : List Nat) : Bool := origin.all (fun x => trusted.contains x)

/-! ### matching -/

def matchTerm (r f : Term) : Bool :=
  match f with
  | .var _ => false
  | _ =>
    match r with
    | .var _ => true
    | _ => r == f

def matchTerms : List Term → List Term → Bool
  | [], [] => true
  | r :: rs, f :: fs => matchTerm r f && matchTerms rs fs
  | _, _ => false

/-- `match_preds` -/
def matchPreds (rp fp : Predicate) : Bool := rp.name == fp.name && matchTerms rp.terms fp.terms

/-- `MatchedVariables`: every body variable, bound or not yet -/
abbrev MV := List (Nat × Option Term)

def MV.insert (m : MV) (k : Nat) (v : Term) : Option MV :=
  match m with
  | [] => none
  | (k', o) :: rest =>
    if k' = k then
      match o with
      | none => some ((k', some v) :: rest)
      | some v' => if v = v' then some ((k', o) :: rest) else none
    else (MV.insert rest k v).map ((k', o) :: ·)

def MV.complete : MV → Option Bindings
  | [] => some []
  | (k, some v) :: rest => (MV.complete rest).map ((k, v) :: ·)
  | (_, none) :: _ => none

/-- unify the variables of a body predicate with a fact (the `zip` loop of `CombineIt::next`) -/
def bindTerms (m : MV) : List Term → List Term → Option MV
  | .var k :: rs, f :: fs =>
    match MV.insert m k f with
    | some m' => bindTerms m' rs fs
    | none => none
  | _ :: rs, _ :: fs => bindTerms m rs fs
  | _, _ => some m

def dedupNat : List Nat → List Nat
  | [] => []
  | x :: xs => if xs.contains x then dedupNat xs else x :: dedupNat xs

/-- `Rule::variables_set` : top-level variables of the body -/
def bodyVars (body : List Predicate) : List Nat :=
  dedupNat (body.flatMap fun p => p.terms.filterMap fun t => match t with | .var v => some v | _ => none)

def MV.new (vars : List Nat) : MV := vars.map fun v => (v, none)

/-- `CombineIt`: all ways of matching the body predicates, in order, against `facts`;
    each result carries the union of the origins of the facts used. -/
def combine (facts : List (List Nat × Fact)) : List Predicate → MV → List (List Nat × Bindings)
  | [], m =>
    match MV.complete m with
    | some b => [([], b)]
    | none => []
  | p :: rest, m =>
    facts.flatMap fun of =>
      if matchPreds p of.2 then
        match bindTerms m p.terms of.2.terms with
        | some m' => (combine facts rest m').map fun ob => (Origin.union ob.1 of.1, ob.2)
        | none => []
      else []

/-! ### rule application -/

/-- the expressions of a rule under one binding: `some true`, `some false` or an error;
    the temporary symbol table is shared by the expressions of one binding -/
def evalExprs : List (List Op) → Bindings → TempSyms → Except ExprErr Bool
  | [], _, _ => .ok true
  | e :: es, b, s =>
    match eval e b s with
    | .ok (.bool true, s') => evalExprs es b s'
    | .ok (.bool false, _) => .ok false
    | .ok (_, _) => .error .invalidType
    | .error err => .error err

def instTerms (b : Bindings) : List Term → Option (List Term)
  | [] => some []
  | .var v :: ts =>
    match Bindings.get b v with
    | some t => (instTerms b ts).map (t :: ·)
    | none => none
  | t :: ts => (instTerms b ts).map (t :: ·)

/-- one element of the iterator returned by `Rule::apply` -/
def applyBinding (syms : SymbolTable) (blk : Nat) (r : Rule) (ob : List Nat × Bindings) :
    Except ExprErr (Option (List Nat × Fact)) :=
  match evalExprs r.exprs ob.2 (TempSyms.new syms) with
  | .error e => .error e
  | .ok false => .ok none
  | .ok true =>
    match instTerms ob.2 r.head.terms with
    | some ts => .ok (some (Origin.insert blk ob.1, ⟨r.head.name, ts⟩))
    | none => .ok none

/-- `Rule::apply` over the facts visible to the rule -/
def applyRule (syms : SymbolTable) (facts : List (List Nat × Fact)) (blk : Nat) (r : Rule) :
    List (Except ExprErr (Option (List Nat × Fact))) :=
  (combine facts r.body (MV.new (bodyVars r.body))).map (applyBinding syms blk r)

/-- `FactSet::iterator(scope)` -/
def visible (trusted : List Nat) (facts : List (List Nat × Fact)) : List (List Nat × Fact) :=
  facts.filter fun of => trusts trusted of.1

/-! ### the world and the fixpoint loop -/

structure SRule where
  trusted : List Nat
  blk : Nat
  rule : Rule
  deriving Repr, Inhabited

def factInsert (of : List Nat × Fact) (fs : List (List Nat × Fact)) : List (List Nat × Fact) :=
  if fs.contains of then fs else fs ++ [of]

def factMerge (fs new : List (List Nat × Fact)) : List (List Nat × Fact) :=
  new.foldl (fun acc of => factInsert of acc) fs

/-- collect the results of one pass over all rules; the first error aborts the pass -/
def collect : List (Except ExprErr (Option (List Nat × Fact))) → Except ExprErr (List (List Nat × Fact))
  | [] => .ok []
  | .error e :: _ => .error e
  | .ok none :: rest => collect rest
  | .ok (some of) :: rest => (collect rest).map (of :: ·)

def stepResults (syms : SymbolTable) (rules : List SRule) (facts : List (List Nat × Fact)) :
    List (Except ExprErr (Option (List Nat × Fact))) :=
  rules.flatMap fun sr => applyRule syms (visible sr.trusted facts) sr.blk sr.rule

structure Limits where
  maxFacts : Nat
  maxIterations : Nat
  /-- index (number of completed productive iterations, from 1) of the first clock reading
      at or past the deadline; `none` = the clock never reaches it -/
  timeoutAt : Option Nat
  deriving Repr, Inhabited

inductive RunErr where
  | expr (e : ExprErr)
  | tooManyIterations
  | tooManyFacts
  | timeout
  /-- model only: the loop was cut by the model's fuel (possible only when `maxIterations = 0`) -/
  | outOfFuel
  deriving Repr, DecidableEq, Inhabited

structure RunOut where
  facts : List (List Nat × Fact)
  /-- value added to `World::iterations` -/
  iterations : Nat
  result : Except RunErr Unit
  deriving Repr, Inhabited

/-- the loop of `World::run_with_limits`; `index` = productive iterations so far -/
def runLoop (syms : SymbolTable) (rules : List SRule) (lim : Limits) :
    Nat → Nat → List (List Nat × Fact) → RunOut
  | 0, index, facts => ⟨facts, index, .error .outOfFuel⟩
  | fuel + 1, index, facts =>
    match collect (stepResults syms rules facts) with
    | .error e => ⟨facts, 0, .error (.expr e)⟩   -- early `return`: `iterations` is not updated
    | .ok new =>
      let facts' := factMerge facts new
      if facts'.length = facts.length then
        -- fixpoint: the facts present count against the budget even when nothing was derived
        if lim.maxFacts ≤ facts.length then ⟨facts', index, .error .tooManyFacts⟩
        else ⟨facts', index, .ok ()⟩
      else
        let index := index + 1
        if lim.maxIterations ≤ index then ⟨facts', index, .error .tooManyIterations⟩
        else if lim.maxFacts ≤ facts'.length then ⟨facts', index, .error .tooManyFacts⟩
        else if lim.timeoutAt == some index then ⟨facts', index, .error .timeout⟩
        else runLoop syms rules lim fuel index facts'

/-- fuel that cannot run out: every productive iteration but the last stays below `maxIterations` -/
def runFuel (lim : Limits) : Nat := lim.maxIterations + 1

def run (syms : SymbolTable) (rules : List SRule) (lim : Limits) (facts : List (List Nat × Fact)) : RunOut :=
  runLoop syms rules lim (runFuel lim) 0 facts

/-! ### queries -/

/-- `World::query_rule` : the facts a rule generates, without adding them to the world -/
def queryRule (syms : SymbolTable) (facts : List (List Nat × Fact)) (trusted : List Nat) (blk : Nat) (r : Rule) :
    Except ExprErr (List (List Nat × Fact)) :=
  (collect (applyRule syms (visible trusted facts) blk r)).map fun l => factMerge [] l

/-- `Rule::find_match` : the first element of the iterator decides -/
def findMatch (syms : SymbolTable) (facts : List (List Nat × Fact)) (trusted : List Nat) (blk : Nat) (r : Rule) :
    Except ExprErr Bool :=
  match (applyRule syms (visible trusted facts) blk r).filter (fun x => match x with | .ok none => false | _ => true) with
  | [] => .ok false
  | .ok _ :: _ => .ok true
  | .error e :: _ => .error e

def allLoop (syms : SymbolTable) (exprs : List (List Op)) : List (List Nat × Bindings) → Bool → Except ExprErr Bool
  | [], found => .ok found
  | ob :: rest, _ =>
    match evalExprs exprs ob.2 (TempSyms.new syms) with
    | .error e => .error e
    | .ok false => .ok false
    | .ok true => allLoop syms exprs rest true

/-- `Rule::check_match_all` -/
def checkMatchAll (syms : SymbolTable) (facts : List (List Nat × Fact)) (trusted : List Nat) (r : Rule) :
    Except ExprErr Bool :=
  allLoop syms r.exprs (combine (visible trusted facts) r.body (MV.new (bodyVars r.body))) false

end Biscuit
