/-
  Signed block chain: data, signature payload layouts and verification
  (biscuit-auth/src/crypto/mod.rs, format/mod.rs).

  The signature scheme is abstract (`Scheme`): the theorems assume of it only
  what they state (correctness, unforgeability for protected keys, unique
  signatures).  The payload layouts the *code* builds are regenerated from the
  source into `Gen/Payload.lean`; the layouts the Biscuit *specification* fixes
  are written here by hand (`Spec.*`) and proved equal in Props/C02.
-/
import BiscuitModel.Gen.Payload
import BiscuitModel.Gen.Consts
namespace Biscuit

abbrev Bytes := List UInt8

structure PubKey where
  alg : Nat
  bytes : Bytes
  deriving Repr, DecidableEq, Inhabited

structure ExtSig where
  key : PubKey
  sig : Bytes
  deriving Repr, DecidableEq, Inhabited

/-- `crypto::Block` / `schema::SignedBlock`; `version` as on the wire (`optional uint32`) -/
structure SBlock where
  data : Bytes
  nextKey : PubKey
  sig : Bytes
  ext : Option ExtSig
  version : Option Nat
  deriving Repr, DecidableEq, Inhabited

inductive Proof where
  | secret (sk : Bytes)
  | sealed (sig : Bytes)
  deriving Repr, DecidableEq, Inhabited

/-- `SerializedBiscuit` / `schema::Biscuit` -/
structure Container where
  rootKeyId : Option Nat
  authority : SBlock
  blocks : List SBlock
  proof : Proof
  deriving Repr, DecidableEq, Inhabited

structure Scheme where
  /-- public key of a secret, per algorithm; `none` when the bytes are not a valid secret -/
  pub : Nat → Bytes → Option PubKey
  sign : Nat → Bytes → Bytes → Bytes
  verify : PubKey → Bytes → Bytes → Bool

namespace Spec
open Gen (le32)

/-! The layouts fixed by the Biscuit specification, written from its text. -/

def tagBlockVersion : Bytes := [0, 66, 76, 79, 67, 75, 0, 0, 86, 69, 82, 83, 73, 79, 78, 0]        -- "\0BLOCK\0\0VERSION\0"
def tagExternalVersion : Bytes := [0, 69, 88, 84, 69, 82, 78, 65, 76, 0, 0, 86, 69, 82, 83, 73, 79, 78, 0] -- "\0EXTERNAL\0\0VERSION\0"
def tagPayload : Bytes := [0, 80, 65, 89, 76, 79, 65, 68, 0]                                       -- "\0PAYLOAD\0"
def tagAlgorithm : Bytes := [0, 65, 76, 71, 79, 82, 73, 84, 72, 77, 0]                             -- "\0ALGORITHM\0"
def tagNextKey : Bytes := [0, 78, 69, 88, 84, 75, 69, 89, 0]                                       -- "\0NEXTKEY\0"
def tagPrevSig : Bytes := [0, 80, 82, 69, 86, 83, 73, 71, 0]                                       -- "\0PREVSIG\0"
def tagExternalSig : Bytes := [0, 69, 88, 84, 69, 82, 78, 65, 76, 83, 73, 71, 0]                   -- "\0EXTERNALSIG\0"

/-- v0 block: block ‖ [external signature] ‖ algorithm (LE32) ‖ next key -/
def blockV0 (data : Bytes) (ext : Option Bytes) (k : PubKey) : Bytes :=
  data ++ ext.getD [] ++ le32 k.alg ++ k.bytes

/-- v1 block: tagged VERSION, PAYLOAD, ALGORITHM, NEXTKEY, PREVSIG, [EXTERNALSIG] -/
def blockV1 (version : Nat) (data : Bytes) (k : PubKey) (prevSig : Bytes) (ext : Option Bytes) : Bytes :=
  tagBlockVersion ++ le32 version ++ tagPayload ++ data ++ tagAlgorithm ++ le32 k.alg ++ tagNextKey ++ k.bytes ++
    tagPrevSig ++ prevSig ++ (match ext with | some e => tagExternalSig ++ e | none => [])

/-- v1 authority block: no previous signature, no external signature -/
def authorityV1 (version : Nat) (data : Bytes) (k : PubKey) : Bytes :=
  tagBlockVersion ++ le32 version ++ tagPayload ++ data ++ tagAlgorithm ++ le32 k.alg ++ tagNextKey ++ k.bytes

/-- v1 external (third-party) signature: tagged VERSION, PAYLOAD, PREVSIG -/
def externalV1 (version : Nat) (data : Bytes) (prevSig : Bytes) : Bytes :=
  tagExternalVersion ++ le32 version ++ tagPayload ++ data ++ tagPrevSig ++ prevSig

/-- seal: last block ‖ algorithm ‖ next key ‖ last block's signature -/
def sealed (data : Bytes) (k : PubKey) (sig : Bytes) : Bytes :=
  data ++ le32 k.alg ++ k.bytes ++ sig

end Spec

/-! ### payloads as the code computes them (regenerated layouts) -/

def authorityPayload (b : SBlock) : Option Bytes :=
  match b.version.getD 0 with
  | 0 => some (Gen.blockV0 b.data b.nextKey.bytes [] [] b.nextKey.alg 0 (b.ext.map (·.sig)))
  | 1 => some (Gen.authorityV1 b.data b.nextKey.bytes [] [] b.nextKey.alg 1 none)
  | _ => none

def blockPayload (b : SBlock) (prevSig : Bytes) : Option Bytes :=
  match b.version.getD 0 with
  | 0 => some (Gen.blockV0 b.data b.nextKey.bytes [] [] b.nextKey.alg 0 (b.ext.map (·.sig)))
  | 1 => some (Gen.blockV1 b.data b.nextKey.bytes prevSig [] b.nextKey.alg 1 (b.ext.map (·.sig)))
  | _ => none

def externalPayload (b : SBlock) (prevSig : Bytes) : Bytes :=
  Gen.externalV1 b.data [] prevSig [] 0 (b.version.getD 0) none

def sealPayload (b : SBlock) : Bytes :=
  Gen.sealV0 b.data b.nextKey.bytes [] b.sig b.nextKey.alg 0 none

/-! ### verification (`SerializedBiscuit::deserialize` checks + `verify_inner`) -/

/-- structural checks of `deserialize`: no external signature on the authority block;
    a block with an external signature declares signature version 1 -/
def wellFormed (c : Container) : Bool :=
  c.authority.ext.isNone && c.blocks.all fun b => b.ext.isNone || b.version == some Gen.thirdPartySignatureVersion

def verifyAuthority (S : Scheme) (root : PubKey) (b : SBlock) : Bool :=
  match authorityPayload b with
  | some p => S.verify root p b.sig
  | none => false

def verifyBlock (S : Scheme) (pk : PubKey) (prevSig : Bytes) (b : SBlock) : Bool :=
  match blockPayload b prevSig with
  | none => false
  | some p =>
    S.verify pk p b.sig &&
      match b.ext with
      | some e => S.verify e.key (externalPayload b prevSig) e.sig
      | none => true

/-- walk the chain: returns the last block reached if every signature verified -/
def verifyChain (S : Scheme) : PubKey → Bytes → SBlock → List SBlock → Option SBlock
  | _, _, last, [] => some last
  | pk, prevSig, _, b :: rest =>
    if verifyBlock S pk prevSig b then verifyChain S b.nextKey b.sig b rest else none

def verifyProof (S : Scheme) (last : SBlock) : Proof → Bool
  | .secret sk =>
    match S.pub last.nextKey.alg sk with
    | some pk => pk == last.nextKey
    | none => false
  | .sealed sig => S.verify last.nextKey (sealPayload last) sig

/-- `SerializedBiscuit::from_slice` after protobuf decoding: accept / reject under `root` -/
def verifyToken (S : Scheme) (root : PubKey) (c : Container) : Bool :=
  wellFormed c && verifyAuthority S root c.authority &&
    match verifyChain S c.authority.nextKey c.authority.sig c.authority c.blocks with
    | some last => verifyProof S last c.proof
    | none => false

def Container.lastBlock (c : Container) : SBlock := c.blocks.getLast?.getD c.authority

def Container.isSealed (c : Container) : Bool :=
  match c.proof with
  | .sealed _ => true
  | .secret _ => false

/-- `revocation_identifiers` : the signatures of the blocks, in order -/
def Container.revocationIds (c : Container) : List Bytes := c.authority.sig :: c.blocks.map (·.sig)

def Container.externalKeys (c : Container) : List (Option PubKey) :=
  none :: c.blocks.map fun b => b.ext.map (·.key)

/-! ### building (`SerializedBiscuit::new`, `append`, `append_serialized`, `seal`) -/

def ed25519 : Nat := 0

/-- the block declares Datalog 3.3 or later -/
def needs33 : Option Nat → Bool
  | some v => decide (Gen.datalog33 ≤ v)
  | none => false

/-- `block_signature_version` -/
def sigVersion (blockKeyAlg nextKeyAlg : Nat) (hasExt : Bool) (datalogVersion : Option Nat) (previous : List Nat) : Nat :=
  if hasExt then Gen.thirdPartySignatureVersion
  else if needs33 datalogVersion then Gen.datalog33SignatureVersion
  else if !(blockKeyAlg == ed25519 && nextKeyAlg == ed25519) then Gen.nonEd25519SignatureVersion
  else previous.foldl max 0

def wireVersion (v : Nat) : Option Nat := if v > 0 then some v else none

/-- `SerializedBiscuit::new` -/
def newToken (S : Scheme) (rootKeyId : Option Nat) (rootAlg : Nat) (rootSk : Bytes) (nextAlg : Nat) (nextSk : Bytes)
    (data : Bytes) (datalogVersion : Nat) : Option Container :=
  match S.pub nextAlg nextSk with
  | none => none
  | some nk =>
    let v := sigVersion rootAlg nextAlg false (some datalogVersion) []
    let b0 : SBlock := ⟨data, nk, [], none, wireVersion v⟩
    match authorityPayload b0 with
    | none => none
    | some p => some ⟨rootKeyId, { b0 with sig := S.sign rootAlg rootSk p }, [], .secret nextSk⟩

/-- `SerializedBiscuit::append` / `append_serialized` (the latter with `datalogVersion = none`) -/
def appendBlock (S : Scheme) (c : Container) (nextAlg : Nat) (nextSk : Bytes) (data : Bytes)
    (ext : Option ExtSig) (datalogVersion : Option Nat) : Option Container :=
  match c.proof with
  | .sealed _ => none
  | .secret sk =>
    match S.pub nextAlg nextSk with
    | none => none
    | some nk =>
      let last := c.lastBlock
      let v := sigVersion last.nextKey.alg nextAlg ext.isSome datalogVersion
        ((c.authority :: c.blocks).map fun b => b.version.getD 0)
      let b : SBlock := ⟨data, nk, [], ext, wireVersion v⟩
      match blockPayload b last.sig with
      | none => none
      | some p =>
        some { c with blocks := c.blocks ++ [{ b with sig := S.sign last.nextKey.alg sk p }], proof := .secret nextSk }

/-- `SerializedBiscuit::seal` -/
def sealToken (S : Scheme) (c : Container) : Option Container :=
  match c.proof with
  | .sealed _ => none
  | .secret sk =>
    let last := c.lastBlock
    some { c with proof := .sealed (S.sign last.nextKey.alg sk (sealPayload last)) }

/-- `Biscuit::append_third_party`: the response (block bytes + external signature) is accepted
    only for the key the caller expects and only if the signature verifies over the block bytes
    and the signature of the block the token currently ends with -/
def appendThirdParty (S : Scheme) (c : Container) (expected : PubKey) (data : Bytes) (resp : ExtSig)
    (nextAlg : Nat) (nextSk : Bytes) : Option Container :=
  if resp.key = expected ∧ S.verify resp.key (externalPayload ⟨data, c.lastBlock.nextKey, [], some resp, some Gen.thirdPartySignatureVersion⟩ c.lastBlock.sig) resp.sig = true
  then appendBlock S c nextAlg nextSk data (some resp) none
  else none

end Biscuit
