/-
  Datalog language versions (biscuit-auth/src/datalog/mod.rs `get_schema_version`,
  `SchemaVersion::{version, check_compatibility}`; format/convert.rs
  `proto_block_to_token_block`).

  `spec*` : which version the Biscuit specification assigns to each feature.
  `code*` : what the detectors of the code recognise (tables regenerated from the source).
-/
import BiscuitModel.Model.Authorizer
import BiscuitModel.Gen.Detectors
namespace Biscuit

/-! ### the specification: minimum version per feature (3 = 3.0, 4 = 3.1, 5 = 3.2, 6 = 3.3) -/

def specBin : BinK → Nat
  | .bitwiseAnd | .bitwiseOr | .bitwiseXor | .notEqual => 4
  | .heterogeneousEqual | .heterogeneousNotEqual | .lazyAnd | .lazyOr | .all | .any | .get | .ffi => 6
  | _ => 3

def specUn : UnK → Nat
  | .typeOf | .ffi => 6
  | _ => 3

mutual
/-- `null`, arrays and maps are 3.3; a set is 3.3 when one of its elements is -/
def specTerm33 : Term → Bool
  | .null | .arr _ | .map _ => true
  | .set xs => specTerms33 xs
  | _ => false
def specTerms33 : List Term → Bool
  | [] => false
  | x :: xs => specTerm33 x || specTerms33 xs
end

def specOp33 : Op → Bool
  | .value t => specTerm33 t
  | .unary u => specUn u.kind == 6
  | .binary b => specBin b.kind == 6
  | .closure _ _ => true

def specOp31 : Op → Bool
  | .binary b => specBin b.kind == 4
  | _ => false

/-! ### the detectors of the code, over the regenerated tables -/

mutual
def codeTerm33 : Term → Bool
  | .set xs =>
    match Gen.v33SetRule with
    | .anyElement => codeTerms33 xs
    | .containsNull => xs.contains .null
    | .none => Gen.v33TermKinds.contains .set
  | t => Gen.v33TermKinds.contains t.kind
def codeTerms33 : List Term → Bool
  | [] => false
  | x :: xs => codeTerm33 x || codeTerms33 xs
end

def codeOp33 : Op → Bool
  | .value t => codeTerm33 t
  | .unary u => Gen.v33Unaries.contains u.kind
  | .binary b => Gen.v33Binaries.contains b.kind
  | .closure _ _ => Gen.v33Closure

def codeOp31 : Op → Bool
  | .binary b => Gen.v31Binaries.contains b.kind
  | _ => false

/-! ### a block's features (shared shape; `t33`, `o33`, `o31` are the tables) -/

structure Flags where
  scopes : Bool
  v31 : Bool
  checkAll : Bool
  v33 : Bool
  deriving Repr, DecidableEq

def predHas (t33 : Term → Bool) (p : Predicate) : Bool := p.terms.any t33

def ruleHas33 (t33 : Term → Bool) (o33 : Op → Bool) (headToo : Bool) (r : Rule) : Bool :=
  (headToo && predHas t33 r.head) || r.body.any (predHas t33) || r.exprs.any fun e => e.any o33

def blockFlags (t33 : Term → Bool) (o33 o31 : Op → Bool) (allFlag rejectFlag : Bool) (b : Block) : Flags :=
  { scopes := !b.scopes.isEmpty || b.rules.any (fun q => !q.scopes.isEmpty) ||
      b.checks.any (fun c => c.queries.any fun q => !q.scopes.isEmpty),
    v31 := b.rules.any (fun q => q.rule.exprs.any fun e => e.any o31) ||
      b.checks.any (fun c => c.queries.any fun q => q.rule.exprs.any fun e => e.any o31),
    checkAll := allFlag && b.checks.any (fun c => c.kind == .all),
    v33 := (rejectFlag && b.checks.any (fun c => c.kind == .reject)) ||
      b.rules.any (fun q => ruleHas33 t33 o33 true q.rule) ||
      b.checks.any (fun c => c.queries.any fun q => ruleHas33 t33 o33 false q.rule) ||
      b.facts.any (predHas t33) }

/-- `SchemaVersion::version` -/
def Flags.version (f : Flags) : Nat :=
  if f.v33 then Gen.datalog33 else if f.scopes || f.v31 || f.checkAll then Gen.datalog31 else Gen.minSchemaVersion

/-- the version the specification requires for a block -/
def specVersion (b : Block) : Nat := (blockFlags specTerm33 specOp33 specOp31 true true b).version

/-- the version the builders declare (`BlockBuilder::build`) -/
def declaredVersion (b : Block) : Nat :=
  (blockFlags codeTerm33 codeOp33 codeOp31 Gen.checkAllDetected Gen.rejectDetected b).version

/-- third-party blocks declare at least 3.2 (`ThirdPartyRequest::create_block`) -/
def declaredVersionThirdParty (b : Block) : Nat := max Gen.datalog32 (declaredVersion b)

/-- `SchemaVersion::check_compatibility` -/
def compatible (f : Flags) (declared : Nat) : Bool :=
  !((Gen.gate33Unconditional || (Gen.gate33Above31 && Decidable.decide (Gen.datalog31 ≤ declared))) &&
      Decidable.decide (declared < Gen.datalog33) && f.v33) &&
  !(Decidable.decide (declared < Gen.datalog31) &&
      ((Gen.gate31Scopes && f.scopes) || (Gen.gate31Ops && f.v31) || (Gen.gate31CheckAll && f.checkAll)))

/-- the load-time gate (`proto_block_to_token_block`) for a block that declares `declared` -/
def loadGate (declared : Nat) (thirdParty : Bool) (b : Block) : Bool :=
  Decidable.decide (Gen.minSchemaVersion ≤ declared) && Decidable.decide (declared ≤ Gen.maxSchemaVersion) &&
  -- scopes on rules and check queries need 3.1
  !(Decidable.decide (declared < Gen.datalog31) &&
      (b.rules.any (fun q => !q.scopes.isEmpty) || b.checks.any fun c => c.queries.any fun q => !q.scopes.isEmpty)) &&
  -- check kinds
  !(Decidable.decide (declared < Gen.maxSchemaVersion) &&
      b.checks.any fun c => (Decidable.decide (declared < Gen.datalog31) && c.kind != .one) ||
                            (Decidable.decide (declared < Gen.datalog33) && c.kind == .reject)) &&
  !(Decidable.decide (declared < Gen.datalog32) && thirdParty) &&
  compatible (blockFlags codeTerm33 codeOp33 codeOp31 Gen.checkAllDetected Gen.rejectDetected b) declared

end Biscuit
