/-
  The term and fact parser of `biscuit-parser/src/parser.rs` (C14): `fact_inner`, `name`,
  `term_in_fact`, `term_in_set`, `parameter`, `string`, `date`, `integer`, `bytes`, `boolean`,
  `null`, `array`, `parse_map`, `map_key`, `set` (`empty_set` / `non_empty_set`), with the
  nom combinators they are built from written out:

    * `alt`      : the first alternative that does not return `Err::Error` decides;
    * `cut`      : an `Err::Error` inside becomes `Err::Failure`, which no `alt` recovers from;
    * `separated_list0/1(sep, elem)` : an `Error` of `sep`, or of `elem` after a separator,
      ends the list *before* that separator; a `Failure` is passed on;
    * `preceded(space0, p)` (`space0` is nom's `multispace0`): blanks, tabs, CR and LF are skipped.

  RFC 3339 parsing is the `time` crate's: it is a parameter (`dateP`, from the token the
  parser cuts out to the timestamp), supplied per case by the harness, which calls `time`
  directly.  Sets and maps are returned as the list of elements in text order; the
  `BTreeSet` / `BTreeMap` the real parser collects them into (sorting, duplicate removal)
  is outside this model.
-/
import BiscuitModel.Model.Printer
namespace Biscuit.TermParser
open Biscuit.Printer

inductive Res (α : Type) where
  | ok (v : α) (rest : List Char)
  | err     -- `nom::Err::Error`: the enclosing `alt` goes on
  | fail    -- `nom::Err::Failure` (after a `cut`); also: out of fuel
  deriving Repr, Inhabited

/-- which alternatives `term` offers -/
inductive Ctx where
  | fact   -- `term_in_fact`
  | set    -- `term_in_set`
  deriving DecidableEq, Repr, Inhabited

/-! ## character classes (`c as u8` truncates: the tests see the low byte of the code point) -/

def lowByte (c : Char) : Nat := c.toNat % 256
def isAlphaB (n : Nat) : Bool := (65 ≤ n && n ≤ 90) || (97 ≤ n && n ≤ 122)
def isDigitB (n : Nat) : Bool := 48 ≤ n && n ≤ 57
def isNameChar (c : Char) : Bool := isAlphaB (lowByte c) || isDigitB (lowByte c) || c == '_' || c == ':'
def isHexTok (c : Char) : Bool :=
  let n := lowByte c
  isDigitB n || (97 ≤ n && n ≤ 102) || (65 ≤ n && n ≤ 70)
def isSpace (c : Char) : Bool := c == ' ' || c == '\t' || c == '\r' || c == '\n'
/-- the characters that end the token handed to the RFC 3339 parser -/
def isDateDelim (c : Char) : Bool := c == ',' || c == ' ' || c == ')' || c == ']' || c == ';' || c == '}'

def space0 (s : List Char) : List Char := s.dropWhile isSpace

def alt {α} (a : Option α) (b : Unit → Option α) : Option α :=
  match a with
  | some x => some x
  | none => b ()

@[simp] theorem alt_none {α} (b : Unit → Option α) : alt none b = b () := rfl
@[simp] theorem alt_some {α} (x : α) (b : Unit → Option α) : alt (some x) b = some x := rfl

/-- `tag(t)` -/
def tag (t : List Char) (s : List Char) : Option (List Char) :=
  if t.isPrefixOf s then some (s.drop t.length) else none

/-! ## atoms (none of them can return `Failure`) -/

/-- `name`: `take_while1(is_name_char)` -/
def pName (s : List Char) : Option (List Char × List Char) :=
  match s.takeWhile isNameChar with
  | [] => none
  | n => some (n, s.dropWhile isNameChar)

/-- `parameter_name`: one alphabetic character, then name characters -/
def pParamName : List Char → Option (List Char × List Char)
  | c :: r => if isAlphaB (lowByte c) then some (c :: r.takeWhile isNameChar, r.dropWhile isNameChar) else none
  | [] => none

/-- `delimited(char('{'), parameter_name, char('}'))` -/
def pBraced : List Char → Option (List Char × List Char)
  | '{' :: r =>
    match pParamName r with
    | some (n, '}' :: r') => some (n, r')
    | _ => none
  | _ => none

def pParameter (s : List Char) : Option (STerm × List Char) :=
  (pBraced s).map fun (n, r) => (.param (String.ofList n), r)

def pStringT (s : List Char) : Option (STerm × List Char) :=
  (parseString s).map fun (x, r) => (.str (String.ofList x), r)

/-- `parse_date`: the token up to the next delimiter goes to the RFC 3339 parser -/
def pDate (dateP : List Char → Option Nat) (s : List Char) : Option (STerm × List Char) :=
  match s.takeWhile (fun c => !isDateDelim c) with
  | [] => none
  | tok => (dateP tok).map fun t => (.date t, s.dropWhile (fun c => !isDateDelim c))

def pIntT (s : List Char) : Option (STerm × List Char) :=
  (parseInt s).map fun (i, r) => (.int i, r)

/-- `parse_hex` with the truncating digit test; `hex::decode` then sees the real characters -/
def pHexT (s : List Char) : Option (List UInt8 × List Char) :=
  match s.takeWhile isHexTok with
  | [] => none
  | ds => (decodePairs ds).map fun bs => (bs, s.dropWhile isHexTok)

def pBytes (s : List Char) : Option (STerm × List Char) :=
  match tag ['h', 'e', 'x', ':'] s with
  | some r => (pHexT r).map fun (b, r') => (.bytes b, r')
  | none => none

def pBool (s : List Char) : Option (STerm × List Char) :=
  match tag ['t', 'r', 'u', 'e'] s with
  | some r => some (.bool true, r)
  | none =>
    match tag ['f', 'a', 'l', 's', 'e'] s with
    | some r => some (.bool false, r)
    | none => none

def pNull (s : List Char) : Option (STerm × List Char) :=
  (tag ['n', 'u', 'l', 'l'] s).map fun r => (.null, r)

/-- the alternatives before `array` / `parse_map` / `set`, in the order of `term_in_fact` and
    `term_in_set` (which differ only after them) -/
def pAtom (dateP : List Char → Option Nat) (s : List Char) : Option (STerm × List Char) :=
  alt (pParameter s) fun _ => alt (pStringT s) fun _ => alt (pDate dateP s) fun _ =>
  alt (pIntT s) fun _ => alt (pBytes s) fun _ => alt (pBool s) fun _ => pNull s

/-- `map_key`: `{name}`, a string or an integer, after optional spaces -/
def pMapKey (s : List Char) : Option (SKey × List Char) :=
  let s := space0 s
  alt ((pBraced s).map fun (n, r) => (SKey.param (String.ofList n), r)) fun _ =>
  alt ((parseString s).map fun (x, r) => (SKey.str (String.ofList x), r)) fun _ =>
  (parseInt s).map fun (i, r) => (SKey.int i, r)

/-- the type index `non_empty_set` compares (`set elements must have the same type`) -/
def kindOf : STerm → Nat
  | .var _ => 0 | .int _ => 2 | .str _ => 3 | .date _ => 4 | .bytes _ => 5 | .bool _ => 6
  | .set _ => 1 | .param _ => 7 | .null => 8 | .arr _ => 9 | .map _ => 10

def sameKind : List STerm → Bool
  | [] => true
  | t :: ts => ts.all fun u => kindOf u == kindOf t

/-! ## terms -/

mutual
/-- `term_in_fact` / `term_in_set` -/
def pTerm (dateP : List Char → Option Nat) (ctx : Ctx) : Nat → List Char → Res STerm
  | 0, _ => .fail
  | n + 1, s0 =>
    let s := space0 s0
    match pAtom dateP s with
    | some (t, r) => .ok t r
    | none =>
      match (if ctx = .fact then pArray dateP n s else .err) with
      | .ok t r => .ok t r
      | .fail => .fail
      | .err =>
        match pMap dateP n s with
        | .ok t r => .ok t r
        | .fail => .fail
        | .err => if ctx = .fact then pSet dateP n s else .err
/-- `array` -/
def pArray (dateP : List Char → Option Nat) : Nat → List Char → Res STerm
  | 0, _ => .fail
  | n + 1, s =>
    match space0 s with
    | '[' :: r =>
      match pTerms0 dateP .fact false n r with
      | .ok ts r1 =>
        match space0 r1 with
        | ']' :: r2 => .ok (.arr ts) r2
        | _ => .err
      | _ => .fail
    | _ => .err
/-- `parse_map` -/
def pMap (dateP : List Char → Option Nat) : Nat → List Char → Res STerm
  | 0, _ => .fail
  | n + 1, s =>
    match space0 s with
    | '{' :: r =>
      match pKVs0 dateP n r with
      | .ok kvs r1 =>
        match space0 r1 with
        | '}' :: r2 => .ok (.map kvs) r2
        | _ => .err
      | _ => .fail
    | _ => .err
/-- `set` = `alt((empty_set, non_empty_set))` -/
def pSet (dateP : List Char → Option Nat) : Nat → List Char → Res STerm
  | 0, _ => .fail
  | n + 1, s =>
    match tag ['{', ',', '}'] s with
    | some r => .ok (.set []) r
    | none =>
      match space0 s with
      | '{' :: r =>
        match pTerms1 dateP .set false n r with
        | .ok ts r1 =>
          if !sameKind ts then .fail
          else
            match space0 r1 with
            | '}' :: r2 => .ok (.set ts) r2
            | _ => .err
        | _ => .fail
      | _ => .err
/-- `separated_list0(preceded(space0, char(',')), term)`; `ce`: the element is under its own
    `cut`, as in `fact_inner` -/
def pTerms0 (dateP : List Char → Option Nat) (ctx : Ctx) (ce : Bool) : Nat → List Char → Res (List STerm)
  | 0, _ => .fail
  | n + 1, s =>
    match pTerm dateP ctx n s with
    | .err => if ce then .fail else .ok [] s
    | .fail => .fail
    | .ok t r =>
      match pTermsTail dateP ctx ce n r with
      | .ok ts r' => .ok (t :: ts) r'
      | _ => .fail
/-- `separated_list1(…)` -/
def pTerms1 (dateP : List Char → Option Nat) (ctx : Ctx) (ce : Bool) : Nat → List Char → Res (List STerm)
  | 0, _ => .fail
  | n + 1, s =>
    match pTerm dateP ctx n s with
    | .err => if ce then .fail else .err
    | .fail => .fail
    | .ok t r =>
      match pTermsTail dateP ctx ce n r with
      | .ok ts r' => .ok (t :: ts) r'
      | _ => .fail
/-- the loop of `separated_list`: a separator and an element, as long as both parse; an
    `Error` of either ends the list before the separator -/
def pTermsTail (dateP : List Char → Option Nat) (ctx : Ctx) (ce : Bool) : Nat → List Char → Res (List STerm)
  | 0, _ => .fail
  | n + 1, s =>
    match space0 s with
    | ',' :: s1 =>
      match pTerm dateP ctx n s1 with
      | .err => if ce then .fail else .ok [] s
      | .fail => .fail
      | .ok t r =>
        match pTermsTail dateP ctx ce n r with
        | .ok ts r' => .ok (t :: ts) r'
        | _ => .fail
    | _ => .ok [] s
/-- `separated_pair(map_key, preceded(space0, char(':')), term_in_fact)` -/
def pKV (dateP : List Char → Option Nat) : Nat → List Char → Res (SKey × STerm)
  | 0, _ => .fail
  | n + 1, s =>
    match pMapKey s with
    | none => .err
    | some (k, r) =>
      match space0 r with
      | ':' :: r1 =>
        match pTerm dateP .fact n r1 with
        | .ok t r2 => .ok (k, t) r2
        | .err => .err
        | .fail => .fail
      | _ => .err
def pKVs0 (dateP : List Char → Option Nat) : Nat → List Char → Res (List (SKey × STerm))
  | 0, _ => .fail
  | n + 1, s =>
    match pKV dateP n s with
    | .err => .ok [] s
    | .fail => .fail
    | .ok kv r =>
      match pKVsTail dateP n r with
      | .ok kvs r' => .ok (kv :: kvs) r'
      | _ => .fail
def pKVsTail (dateP : List Char → Option Nat) : Nat → List Char → Res (List (SKey × STerm))
  | 0, _ => .fail
  | n + 1, s =>
    match space0 s with
    | ',' :: s1 =>
      match pKV dateP n s1 with
      | .err => .ok [] s
      | .fail => .fail
      | .ok kv r =>
        match pKVsTail dateP n r with
        | .ok kvs r' => .ok (kv :: kvs) r'
        | _ => .fail
    | _ => .ok [] s
end

/-- `fact_inner`: `name ( term_in_fact , … )`, everything after the `(` under `cut` -/
def pFactInner (dateP : List Char → Option Nat) (fuel : Nat) (s : List Char) : Res SPred :=
  match pName (space0 s) with
  | none => .err
  | some (n, r) =>
    match space0 r with
    | '(' :: r1 =>
      match pTerms1 dateP .fact true fuel r1 with
      | .ok ts r2 =>
        match space0 r2 with
        | ')' :: r3 => .ok ⟨String.ofList n, ts⟩ r3
        | _ => .err
      | _ => .fail
    | _ => .err

/-- enough fuel for any input: every recursive call is made after at least one character
    (`[`, `{`, `,`, `:`) has been consumed or goes one level down the fixed call structure -/
def fuelFor (s : List Char) : Nat := 8 * s.length + 16

def parseFactInner (dateP : List Char → Option Nat) (s : List Char) : Res SPred :=
  pFactInner dateP (fuelFor s) s

/-! ## the printer, character by character (equal to `printTerm`: `Props/C14`) -/

def keyC : SKey → List Char
  | .int i => printIntChars i
  | .str s => printStringChars s.toList
  | .param n => '{' :: (n.toList ++ ['}'])

mutual
def termC : STerm → List Char
  | .var n => '$' :: n.toList
  | .int i => printIntChars i
  | .str s => printStringChars s.toList
  | .date d => (printDate d).toList
  | .bytes b => ['h', 'e', 'x', ':'] ++ hexEncode b
  | .bool b => if b then ['t', 'r', 'u', 'e'] else ['f', 'a', 'l', 's', 'e']
  | .null => ['n', 'u', 'l', 'l']
  | .set xs => if xs.isEmpty then ['{', ',', '}'] else '{' :: (termsC xs ++ ['}'])
  | .arr xs => '[' :: (termsC xs ++ [']'])
  | .map kvs => '{' :: (kvsC kvs ++ ['}'])
  | .param n => '{' :: (n.toList ++ ['}'])
def termsC : List STerm → List Char
  | [] => []
  | t :: ts => termC t ++ tailC ts
def tailC : List STerm → List Char
  | [] => []
  | t :: ts => ',' :: ' ' :: (termC t ++ tailC ts)
def kvsC : List (SKey × STerm) → List Char
  | [] => []
  | (k, t) :: kvs => keyC k ++ (':' :: ' ' :: (termC t ++ kvTailC kvs))
def kvTailC : List (SKey × STerm) → List Char
  | [] => []
  | (k, t) :: kvs => ',' :: ' ' :: (keyC k ++ (':' :: ' ' :: (termC t ++ kvTailC kvs)))
end

def predC (p : SPred) : List Char := p.name.toList ++ ('(' :: (termsC p.terms ++ [')']))

end Biscuit.TermParser
