/-
  C05 — Datalog evaluation computes exactly the least fixpoint with exact provenance.
-/
import BiscuitModel.Lemmas.Datalog
namespace Biscuit.C05
open Biscuit

/-- A Datalog program: base facts with their origins, rules with their owning block and
    trusted origins, and the symbol table expressions are evaluated against. -/
structure Program where
  syms : SymbolTable
  facts : List OFact
  rules : List SRule

/-- **The least fixpoint, declaratively.** `(origin, fact)` is derivable when it is a base
    fact, or when it is produced by one application of a rule of the program to *any finite
    set of derivable pairs*, restricted to the pairs the rule trusts.  One application
    (`applyRule`) is characterised independently by `rule_application_spec` below. -/
inductive Derives (P : Program) : OFact → Prop
  | base {x : OFact} : x ∈ P.facts → Derives P x
  | step {S : List OFact} {sr : SRule} {y : OFact} :
      (∀ x ∈ S, Derives P x) → sr ∈ P.rules →
      .ok (some y) ∈ applyRule P.syms (visible sr.trusted S) sr.blk sr.rule → Derives P y

/-- every intermediate and final world of the loop contains only derivable pairs —
    whatever the limits, and also when the run ends in an error -/
theorem runLoop_sound (P : Program) (lim : Limits) :
    ∀ (fuel index : Nat) (facts : List OFact), (∀ x ∈ facts, Derives P x) →
      ∀ x ∈ (runLoop P.syms P.rules lim fuel index facts).facts, Derives P x := by
  intro fuel
  induction fuel with
  | zero => intro index facts h x hx; exact h x (by simpa [runLoop] using hx)
  | succ fuel ih =>
    intro index facts h x hx
    simp only [runLoop] at hx
    split at hx
    · exact h x hx
    · rename_i new hnew
      have hder : ∀ y ∈ factMerge facts new, Derives P y := by
        intro y hy
        rcases (mem_factMerge new facts).mp hy with hy | hy
        · exact h y hy
        · have := (collect_ok_mem _ _ hnew y).mp hy
          obtain ⟨sr, hsr, hy⟩ := mem_stepResults.mp this
          exact Derives.step h hsr hy
      split at hx
      · split at hx <;> exact hder x hx
      · split at hx
        · exact hder x hx
        · split at hx
          · exact hder x hx
          · split at hx
            · exact hder x hx
            · exact ih _ _ hder x hx

/-- a successful run ends in a world closed under every rule, containing the initial facts -/
theorem runLoop_complete (P : Program) (lim : Limits) :
    ∀ (fuel index : Nat) (facts : List OFact), (∀ x ∈ P.facts, x ∈ facts) →
      (runLoop P.syms P.rules lim fuel index facts).result = .ok () →
      ∀ x, Derives P x → x ∈ (runLoop P.syms P.rules lim fuel index facts).facts := by
  intro fuel
  induction fuel with
  | zero => intro index facts _ hok; simp [runLoop] at hok
  | succ fuel ih =>
    intro index facts hinit hok
    simp only [runLoop] at hok ⊢
    split at hok
    · simp at hok
    · rename_i new hnew
      split at hok
      · rename_i hlen
        rw [if_pos hlen]
        have hsame := factMerge_same_length new facts hlen
        split at hok
        · simp at hok
        rename_i hmf
        rw [if_neg hmf]
        simp only
        rw [hsame]
        intro x hx
        induction hx with
        | base hb => exact hinit _ hb
        | @step S sr y _ hsr hy ih' =>
          have h1 : Except.ok (some y) ∈ applyRule P.syms (visible sr.trusted facts) sr.blk sr.rule :=
            applyRule_mono (visible_mono sr.trusted ih') _ _ _ _ hy
          have h2 : y ∈ new := (collect_ok_mem _ _ hnew y).mpr (mem_stepResults.mpr ⟨sr, hsr, h1⟩)
          have h3 : y ∈ factMerge facts new := (mem_factMerge new facts).mpr (.inr h2)
          rw [hsame] at h3; exact h3
      · rename_i hlen
        rw [if_neg hlen]
        split at hok
        · simp at hok
        · rename_i h1
          rw [if_neg h1]
          split at hok
          · simp at hok
          · rename_i h2
            rw [if_neg h2]
            split at hok
            · simp at hok
            · rename_i h3
              rw [if_neg h3]
              exact ih _ _ (fun x hx => (mem_factMerge new facts).mpr (.inl (hinit x hx))) hok

/-- the engine run on a program (initial store = the base facts, duplicates merged) -/
def runProgram (P : Program) (lim : Limits) : RunOut :=
  run P.syms P.rules lim (factMerge [] P.facts)

/-- **Soundness**: nothing extra. -/
theorem run_sound (P : Program) (lim : Limits) :
    ∀ x ∈ (runProgram P lim).facts, Derives P x := by
  apply runLoop_sound
  intro x hx
  exact Derives.base (by simpa using (mem_factMerge P.facts []).mp hx)

/-- **Completeness**: nothing missing. -/
theorem run_complete (P : Program) (lim : Limits) 
    (hok : (runProgram P lim).result = .ok ()) :
    ∀ x, Derives P x → x ∈ (runProgram P lim).facts := by
  apply runLoop_complete _ _ _ _ _ _ hok
  intro x hx
  exact (mem_factMerge P.facts []).mpr (.inr hx)

/-- **Exactness.** A run that ends without error or limit yields exactly the derivable
    (origin, fact) pairs. -/
theorem run_exact (P : Program) (lim : Limits) 
    (hok : (runProgram P lim).result = .ok ()) (x : OFact) :
    x ∈ (runProgram P lim).facts ↔ Derives P x :=
  ⟨run_sound P lim x, run_complete P lim hok x⟩

/-! ## order independence -/

theorem derives_congr (P Q : Program) (hs : P.syms = Q.syms)
    (hf : ∀ x, x ∈ P.facts → x ∈ Q.facts) (hr : ∀ r, r ∈ P.rules → r ∈ Q.rules) (x : OFact)
    (h : Derives P x) : Derives Q x := by
  induction h with
  | base hb => exact Derives.base (hf _ hb)
  | step _ hsr hy ih => exact Derives.step ih (hr _ hsr) (hs ▸ hy)

/-- **Insertion order does not matter.** Two programs with the same facts and the same rules
    as sets — inserted in any order, any number of times — and successful runs under any limits
    have the same result set. -/
theorem run_order_independent (P Q : Program) (lim lim' : Limits) (hs : P.syms = Q.syms)
    (hf : ∀ x, x ∈ P.facts ↔ x ∈ Q.facts) (hr : ∀ r, r ∈ P.rules ↔ r ∈ Q.rules)
    (hP : (runProgram P lim).result = .ok ()) (hQ : (runProgram Q lim').result = .ok ()) (x : OFact) :
    x ∈ (runProgram P lim).facts ↔ x ∈ (runProgram Q lim').facts := by
  rw [run_exact P lim hP, run_exact Q lim' hQ]
  exact ⟨derives_congr P Q hs (fun x => (hf x).mp) (fun r => (hr r).mp) x,
         derives_congr Q P hs.symm (fun x => (hf x).mpr) (fun r => (hr r).mpr) x⟩

/-! ## provenance -/

theorem mem_origin_insert {x b : Nat} : ∀ {o : List Nat}, x ∈ Origin.insert b o ↔ x = b ∨ x ∈ o := by
  intro o
  induction o with
  | nil => simp [Origin.insert]
  | cons y ys ih =>
    simp only [Origin.insert]
    split
    · simp
    · split
      · rename_i h; subst h; simp
      · simp only [List.mem_cons, ih]
        constructor
        · rintro (h | h | h)
          · exact .inr (.inl h)
          · exact .inl h
          · exact .inr (.inr h)
        · rintro (h | h | h)
          · exact .inr (.inl h)
          · exact .inl h
          · exact .inr (.inr h)

theorem mem_origin_union {x : Nat} : ∀ (b a : List Nat), x ∈ Origin.union a b ↔ x ∈ a ∨ x ∈ b := by
  intro b
  induction b with
  | nil => intro a; simp [Origin.union]
  | cons y ys ih =>
    intro a
    simp only [Origin.union, List.foldl_cons] at ih ⊢
    rw [ih (Origin.insert y a), mem_origin_insert]
    simp only [List.mem_cons]
    constructor
    · rintro ((h | h) | h)
      · exact .inr (.inl h)
      · exact .inl h
      · exact .inr (.inr h)
    · rintro (h | h | h)
      · exact .inl (.inr h)
      · exact .inl (.inl h)
      · exact .inr h

/-- the origin computed by the join is the union of the origins of the facts used:
    every block in it comes from some fact the rule could see -/
theorem combine_origin (F : List OFact) :
    ∀ (ps : List Predicate) (m : MV) (ob : List Nat × Bindings), ob ∈ combine F ps m →
      ∀ b ∈ ob.1, ∃ of ∈ F, b ∈ of.1 := by
  intro ps
  induction ps with
  | nil =>
    intro m ob h b hb
    simp only [combine] at h
    split at h
    · simp at h; subst h; cases hb
    · cases h
  | cons p rest ih =>
    intro m ob h b hb
    simp only [combine, List.mem_flatMap] at h
    obtain ⟨of, hof, h⟩ := h
    split at h
    · split at h
      · simp only [List.mem_map] at h
        obtain ⟨ob', hob', rfl⟩ := h
        rcases (mem_origin_union of.1 ob'.1).mp hb with hb | hb
        · exact ih _ _ hob' b hb
        · exact ⟨of, hof, hb⟩
      · cases h
    · cases h

/-- **Provenance.** A fact generated by a rule carries the block owning the rule, and apart
    from that only blocks found in origins of facts the rule trusted. -/
theorem applyRule_origin (syms : SymbolTable) (F : List OFact) (blk : Nat) (r : Rule) (y : OFact)
    (h : .ok (some y) ∈ applyRule syms F blk r) :
    blk ∈ y.1 ∧ ∀ b ∈ y.1, b = blk ∨ ∃ of ∈ F, b ∈ of.1 := by
  simp only [applyRule, List.mem_map] at h
  obtain ⟨ob, hob, h⟩ := h
  simp only [applyBinding] at h
  split at h
  · cases h
  · cases h
  · split at h
    · injection h with h; injection h with h; subst h
      refine ⟨mem_origin_insert.mpr (.inl rfl), ?_⟩
      intro b hb
      rcases mem_origin_insert.mp hb with hb | hb
      · exact .inl hb
      · exact .inr (combine_origin F _ _ ob hob b hb)
    · cases h

/-- a derived pair that is not a base fact has the block of a rule of the program in its origin -/
theorem derived_origin_contains_rule_block (P : Program) (x : OFact) (h : Derives P x) :
    x ∈ P.facts ∨ ∃ sr ∈ P.rules, sr.blk ∈ x.1 := by
  cases h with
  | base hb => exact .inl hb
  | step _ hsr hy => exact .inr ⟨_, hsr, (applyRule_origin _ _ _ _ _ hy).1⟩

/-! ## head variables -/

theorem instTerms_unbound (b : Bindings) (v : Nat) (hv : Bindings.get b v = none) :
    ∀ (ts : List Term), Term.var v ∈ ts → instTerms b ts = none := by
  intro ts
  induction ts with
  | nil => intro h; cases h
  | cons t rest ih =>
    intro h
    by_cases ht : t = .var v
    · subst ht; simp [instTerms, hv]
    · have hr : Term.var v ∈ rest := by
        cases h with
        | head => exact absurd rfl ht
        | tail _ h => exact h
      have := ih hr
      cases t <;> simp [instTerms, this]
      rename_i w
      split <;> simp

/-- a binding that leaves a head variable unbound produces no fact -/
theorem unbound_head_no_fact (syms : SymbolTable) (blk : Nat) (r : Rule) (ob : List Nat × Bindings) (v : Nat)
    (hv : Term.var v ∈ r.head.terms) (hb : Bindings.get ob.2 v = none) (y : OFact) :
    applyBinding syms blk r ob ≠ .ok (some y) := by
  simp only [applyBinding]
  split
  · simp
  · simp
  · rw [instTerms_unbound ob.2 v hb _ hv]; simp

theorem complete_keys : ∀ (m : MV) (b : Bindings), MV.complete m = some b → b.map (·.1) = m.map (·.1) := by
  intro m
  induction m with
  | nil => intro b h; simp [MV.complete] at h; subst h; rfl
  | cons kv rest ih =>
    intro b h
    obtain ⟨k, o⟩ := kv
    cases o with
    | none => simp [MV.complete] at h
    | some v =>
      simp only [MV.complete] at h
      cases hc : MV.complete rest with
      | none => rw [hc] at h; simp at h
      | some b' =>
        rw [hc] at h; simp at h; subst h
        simp [ih b' hc]

theorem insert_keys : ∀ (m m' : MV) (k : Nat) (v : Term), MV.insert m k v = some m' → m'.map (·.1) = m.map (·.1) := by
  intro m
  induction m with
  | nil => intro m' k v h; simp [MV.insert] at h
  | cons kv rest ih =>
    intro m' k v h
    obtain ⟨k', o⟩ := kv
    simp only [MV.insert] at h
    split at h
    · split at h
      · injection h with h; subst h; rfl
      · split at h
        · injection h with h; subst h; rfl
        · cases h
    · cases hi : MV.insert rest k v with
      | none => rw [hi] at h; simp at h
      | some r => rw [hi] at h; simp at h; subst h; simp [ih r k v hi]

theorem bindTerms_keys : ∀ (ts fs : List Term) (m m' : MV), bindTerms m ts fs = some m' → m'.map (·.1) = m.map (·.1) := by
  intro ts
  induction ts with
  | nil => intro fs m m' h; simp [bindTerms] at h; subst h; rfl
  | cons t rest ih =>
    intro fs m m' h
    cases fs with
    | nil => cases t <;> simp [bindTerms] at h <;> subst h <;> rfl
    | cons f fs' =>
      cases t with
      | var k =>
        simp only [bindTerms] at h
        split at h
        · rename_i m1 hm1
          rw [ih fs' m1 m' h, insert_keys m m1 k f hm1]
        · cases h
      | _ => simp only [bindTerms] at h; exact ih fs' m m' h

theorem combine_keys (F : List OFact) :
    ∀ (ps : List Predicate) (m : MV) (ob : List Nat × Bindings), ob ∈ combine F ps m →
      ob.2.map (·.1) = m.map (·.1) := by
  intro ps
  induction ps with
  | nil =>
    intro m ob h
    simp only [combine] at h
    split at h
    · rename_i b hb; simp at h; subst h; exact complete_keys m b hb
    · cases h
  | cons p rest ih =>
    intro m ob h
    simp only [combine, List.mem_flatMap] at h
    obtain ⟨of, _, h⟩ := h
    split at h
    · split at h
      · rename_i m' hm'
        simp only [List.mem_map] at h
        obtain ⟨ob', hob', rfl⟩ := h
        simp only
        rw [ih m' ob' hob', bindTerms_keys _ _ _ _ hm']
      · cases h
    · cases h

theorem get_none_of_not_key : ∀ (b : Bindings) (v : Nat), v ∉ b.map (·.1) → Bindings.get b v = none := by
  intro b
  induction b with
  | nil => intro v _; rfl
  | cons kv rest ih =>
    intro v h
    obtain ⟨k, t⟩ := kv
    simp only [List.map_cons, List.mem_cons, not_or] at h
    have hne : ¬ k = v := fun e => h.1 e.symm
    simp only [Bindings.get, hne, if_false]
    exact ih v h.2

/-- **A rule whose head has a variable that the body does not bind never produces a fact**,
    on any facts, under any trust. -/
theorem unbound_head_no_facts (syms : SymbolTable) (F : List OFact) (blk : Nat) (r : Rule) (v : Nat)
    (hv : Term.var v ∈ r.head.terms) (hnb : v ∉ bodyVars r.body) (y : OFact) :
    .ok (some y) ∉ applyRule syms F blk r := by
  intro h
  simp only [applyRule, List.mem_map] at h
  obtain ⟨ob, hob, h⟩ := h
  have hk := combine_keys F _ _ ob hob
  have : v ∉ ob.2.map (·.1) := by
    rw [hk]; simpa [MV.new, List.map_map] using hnb
  exact unbound_head_no_fact syms blk r ob v hv (get_none_of_not_key _ _ this) y h

/-- a rule with an empty body fires once, iff its expressions hold, with origin `{block}` -/
theorem empty_body_rule (syms : SymbolTable) (F : List OFact) (blk : Nat) (h : Predicate) (es : List (List Op)) :
    applyRule syms F blk ⟨h, [], es⟩ = [applyBinding syms blk ⟨h, [], es⟩ ([], [])] := by
  simp [applyRule, combine, bodyVars, dedupNat, MV.new, MV.complete]

/-! ## non-vacuity: a recursive program whose run succeeds and derives a multi-block fact -/

def exProgram : Program where
  syms := ⟨[]⟩
  facts := [([0], ⟨1024, [.int 1, .int 2]⟩), ([1], ⟨1024, [.int 2, .int 3]⟩)]
  rules := [⟨[0, 1, 2], 2, ⟨⟨1024, [.var 1, .var 3]⟩, [⟨1024, [.var 1, .var 2]⟩, ⟨1024, [.var 2, .var 3]⟩], []⟩⟩]

example : (runProgram exProgram ⟨1000, 100, none⟩).result = .ok () := by decide
example : ([0, 1, 2], (⟨1024, [.int 1, .int 3]⟩ : Fact)) ∈ (runProgram exProgram ⟨1000, 100, none⟩).facts := by decide

end Biscuit.C05
