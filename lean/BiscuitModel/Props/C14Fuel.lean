/-
  C14 — the fuel the driver gives the statement-, block- and authorizer-level parser models
  (`fuelOf text = 50·|text| + 50`, loop bound `|text| + 2`) is enough for every text the printer
  writes: `block_round_trip` and `source_round_trip` without fuel hypotheses.
-/
import BiscuitModel.Props.C14Blocks
set_option linter.unusedSimpArgs false
set_option linter.unusedVariables false
namespace Biscuit.BlockParser
open Biscuit.Printer Biscuit.TermParser Biscuit.ExprParser Biscuit.RuleParser

theorem needVs_tail_le {dateP} : ∀ ts : List STerm, wfVs dateP ts = true → needVs ts ≤ 5 * (tailC ts).length + 3 := by
  intro ts
  induction ts with
  | nil => intro _; simp [needVs, tailC]
  | cons t ts ih =>
    intro h
    simp only [wfVs, Bool.and_eq_true] at h
    have h1 := needV_le t h.1
    have h2 := ih h.2
    simp only [needVs, tailC, List.length_cons, List.length_append]
    omega

theorem needVs_le {dateP} (ts : List STerm) (h : wfVs dateP ts = true) : needVs ts ≤ 5 * (termsC ts).length + 3 := by
  cases ts with
  | nil => simp [needVs, termsC]
  | cons t ts =>
    simp only [wfVs, Bool.and_eq_true] at h
    have h1 := needV_le t h.1
    have h2 := needVs_tail_le ts h.2
    have h3 := valC_pos t h.1
    simp only [needVs, termsC, List.length_append]
    omega

theorem needPred_le {dateP} (p : SPred) (h : wfPredAny dateP p = true) : needVs p.terms + 7 ≤ 5 * (predC p).length := by
  simp only [wfPredAny, Bool.and_eq_true] at h
  have := needVs_le p.terms h.2
  simp only [predC, List.length_append, List.length_cons, List.length_nil]
  omega

theorem elemC_pos {dateP} (x : SPred ⊕ ETree) (h : wfElem dateP x = true) : 1 ≤ (elemC x).length := by
  cases x with
  | inl p => obtain ⟨c, tl, hs, _⟩ := predC_head p h; simp [elemC, hs]
  | inr e => obtain ⟨c, tl, hs, _⟩ := showC_head e h; simp [elemC, hs]

theorem needElem_le {dateP} (x : SPred ⊕ ETree) (h : wfElem dateP x = true) : needElem x ≤ 50 * (elemC x).length + 40 := by
  cases x with
  | inl p => have := needPred_le p h; simp only [needElem, elemC]; omega
  | inr e => have := (needE_le (dateP := dateP) e).1 h; simp only [needElem, elemC]; omega

theorem needElems_tail_le {dateP} : ∀ xs : List (SPred ⊕ ETree), (∀ x ∈ xs, wfElem dateP x = true) →
    needElems xs ≤ 50 * (tailElemsC xs).length + 42 := by
  intro xs
  induction xs with
  | nil => intro _; simp [needElems]
  | cons x xs ih =>
    intro h
    have h1 := needElem_le x (h x List.mem_cons_self)
    have h2 := ih (fun y hy => h y (List.mem_cons_of_mem _ hy))
    simp only [needElems, tailElemsC, List.length_cons, List.length_append]
    omega

theorem scopes_len_tail : ∀ scs : List SScope, scs.length ≤ (tailScopesC scs).length := by
  intro scs
  induction scs with
  | nil => simp
  | cons s scs ih => simp only [tailScopesC, List.length_cons, List.length_append]; omega

theorem scopes_len (scs : List SScope) : scs.length ≤ (scopesC scs).length := by
  cases scs with
  | nil => simp
  | cons s scs =>
    have := scopes_len_tail scs
    simp only [scopesC, List.length_cons, List.length_append]; omega

theorem needBody_le {dateP} (b : Body) (hw : WfBody dateP b) : needBody b ≤ 50 * (bodyC b).length + 44 ∧ 1 ≤ (bodyC b).length := by
  have hs := scopes_len b.scopes
  unfold needBody bodyC
  cases he : elems b with
  | nil => exact absurd he hw.nonempty
  | cons x xs =>
    have hwx : ∀ y ∈ x :: xs, wfElem dateP y = true := by rw [← he]; exact hw.elems_wf
    have h1 := needElem_le x (hwx x List.mem_cons_self)
    have h2 := needElems_tail_le xs (fun y hy => hwx y (List.mem_cons_of_mem _ hy))
    have h3 := elemC_pos x (hwx x List.mem_cons_self)
    simp only [needElems, List.length_append]
    omega

theorem needBodies_tail_le {dateP} : ∀ bs : List Body, (∀ y ∈ bs, WfBody dateP y) →
    needBodies bs ≤ 50 * (tailBodiesC bs).length + 46 := by
  intro bs
  induction bs with
  | nil => intro _; simp [needBodies]
  | cons b bs ih =>
    intro h
    have h1 := needBody_le b (h b List.mem_cons_self)
    have h2 := ih (fun y hy => h y (List.mem_cons_of_mem _ hy))
    simp only [needBodies, tailBodiesC, List.length_cons, List.length_append]
    omega

theorem needBodies_le {dateP} (b : Body) (bs : List Body) (h : ∀ y ∈ b :: bs, WfBody dateP y) :
    needBodies (b :: bs) ≤ 50 * ((bodyC b).length + (tailBodiesC bs).length) + 46 := by
  have h1 := needBody_le b (h b List.mem_cons_self)
  have h2 := needBodies_tail_le bs (fun y hy => h y (List.mem_cons_of_mem _ hy))
  simp only [needBodies]
  omega

/-! ## every statement is shorter than the text it is in -/

theorem length_le_flatMap {α : Type} (f : α → List Char) : ∀ (l : List α) (x : α), x ∈ l → (f x).length ≤ (l.flatMap f).length := by
  intro l
  induction l with
  | nil => intro x h; cases h
  | cons a l ih =>
    intro x h
    simp only [List.flatMap_cons, List.length_append]
    rcases List.mem_cons.mp h with rfl | h'
    · omega
    · have := ih x h'; omega

theorem count_le_flatMap {α : Type} (f : α → List Char) : ∀ (l : List α), (∀ x ∈ l, 1 ≤ (f x).length) → l.length ≤ (l.flatMap f).length := by
  intro l
  induction l with
  | nil => intro _; simp
  | cons a l ih =>
    intro h
    have h1 := h a List.mem_cons_self
    have h2 := ih (fun x hx => h x (List.mem_cons_of_mem _ hx))
    simp only [List.flatMap_cons, List.length_append, List.length_cons]
    omega

theorem fact_fuel {dateP} (f : SPred) (hw : wfPred dateP f = true) : needL f.terms + 2 ≤ 50 * (predC f).length := by
  have hw' := hw
  simp only [wfPred, Bool.and_eq_true] at hw'
  have := needL_le f.terms .fact hw'.2
  simp only [predC, List.length_append, List.length_cons, List.length_nil]
  omega

theorem rule_fuel {dateP} (r : SPred × Body) (hw : WfRule dateP r) :
    needVs r.1.terms + needBody r.2 ≤ 50 * (ruleStmtC r).length + 50 := by
  have h1 := needPred_le r.1 hw.head
  have h2 := needBody_le r.2 hw.body
  simp only [ruleStmtC, List.length_append, List.length_cons, List.length_nil]
  omega

theorem check_fuel {dateP} (c : CKind × List Body) (hw : WfCheck dateP c) :
    needBodies c.2 ≤ 50 * (checkStmtC c).length + 50 := by
  obtain ⟨k, bl⟩ := c
  cases bl with
  | nil => exact absurd rfl hw.nonempty
  | cons b bs =>
    have := needBodies_le b bs hw.bodies
    simp only [checkStmtC, List.length_append, List.length_cons, List.length_nil]
    omega

theorem policy_fuel {dateP} (c : PKind × List Body) (hw : WfPolicy dateP c) :
    needBodies c.2 ≤ 50 * (policyStmtC c).length + 50 := by
  obtain ⟨k, bl⟩ := c
  cases bl with
  | nil => exact absurd rfl hw.nonempty
  | cons b bs =>
    have := needBodies_le b bs hw.bodies
    simp only [policyStmtC, List.length_append, List.length_cons, List.length_nil]
    omega

theorem checkStmt_pos {dateP} (c : CKind × List Body) (hw : WfCheck dateP c) : 1 ≤ (checkStmtC c).length := by
  obtain ⟨k, bl⟩ := c
  cases bl with
  | nil => exact absurd rfl hw.nonempty
  | cons b bs => simp only [checkStmtC, List.length_append, List.length_cons, List.length_nil]; omega

theorem policyStmt_pos {dateP} (c : PKind × List Body) (hw : WfPolicy dateP c) : 1 ≤ (policyStmtC c).length := by
  obtain ⟨k, bl⟩ := c
  cases bl with
  | nil => exact absurd rfl hw.nonempty
  | cons b bs => simp only [policyStmtC, List.length_append, List.length_cons, List.length_nil]; omega

/-! ## blocks -/

/-- a block of the grammar (no fuel in sight) -/
structure WfBlock (dateP : List Char → Option Nat) (src : Source) : Prop where
  scopes : ∀ sc ∈ src.scopes, wfScope sc
  facts : ∀ f ∈ src.facts, wfPred dateP f = true
  rules : ∀ r ∈ src.rules, WfRule dateP r
  checks : ∀ c ∈ src.checks, WfCheck dateP c
  nopolicies : src.policies = []

theorem header_len (scs : List SScope) : scs.length ≤ (headerC scs).length := by
  cases scs with
  | nil => simp
  | cons s scs =>
    have := scopes_len_tail scs
    simp only [headerC, List.length_cons, List.length_append]; omega

theorem wfSource_of_wfBlock {dateP} (src : Source) (hw : WfBlock dateP src) :
    WfSource dateP (fuelOf (blockC src)) src := by
  have hlen : (blockC src).length = (headerC src.scopes).length + (factsC src.facts).length + (rulesC src.rules).length +
      (checksC src.checks).length := by
    simp only [blockC, List.length_append, List.length_nil]; omega
  refine ⟨hw.scopes, ?_, ?_, ?_, ?_, hw.nopolicies⟩
  · have := header_len src.scopes
    simp only [fuelOf]; omega
  · intro f hf
    refine ⟨hw.facts f hf, ?_⟩
    have h1 := fact_fuel f (hw.facts f hf)
    have h2 := length_le_flatMap (fun f => predC f ++ [';', '\n']) src.facts f hf
    simp only [List.length_append, List.length_cons, List.length_nil] at h2
    simp only [fuelOf, factsC] at hlen ⊢
    omega
  · intro r hr
    refine ⟨hw.rules r hr, ?_⟩
    have h1 := rule_fuel r (hw.rules r hr)
    have h2 := length_le_flatMap ruleStmtC src.rules r hr
    simp only [fuelOf, rulesC] at hlen ⊢
    omega
  · intro c hc
    refine ⟨hw.checks c hc, ?_⟩
    have h1 := check_fuel c (hw.checks c hc)
    have h2 := length_le_flatMap checkStmtC src.checks c hc
    simp only [fuelOf, checksC] at hlen ⊢
    omega

theorem stmts_le_block {dateP} (src : Source) (hw : WfBlock dateP src) :
    src.facts.length + src.rules.length + src.checks.length + 1 ≤ (blockC src).length + 2 := by
  have h1 := count_le_flatMap (fun f => predC f ++ [';', '\n']) src.facts (fun f _ => by simp)
  have h2 := count_le_flatMap ruleStmtC src.rules (fun r _ => by simp only [ruleStmtC, List.length_append, List.length_cons, List.length_nil]; omega)
  have h3 := count_le_flatMap checkStmtC src.checks (fun c hc => checkStmt_pos c (hw.checks c hc))
  simp only [blockC, factsC, rulesC, checksC, List.length_append, List.length_nil] at *
  omega

/-- **C14, blocks, with the driver's fuel.** `parse_block_source`'s model, as the driver runs it,
    returns every printed block of the grammar. -/
theorem parseBlockSource_round_trip {dateP} (hd : DateShape dateP) (src : Source) (hw : WfBlock dateP src) :
    parseBlockSource dateP (blockC src) = some src :=
  block_round_trip hd _ _ src (wfSource_of_wfBlock src hw) (stmts_le_block src hw)

/-! ## authorizers -/

structure WfAuth (dateP : List Char → Option Nat) (src : Source) : Prop where
  noscopes : src.scopes = []
  facts : ∀ f ∈ src.facts, wfPred dateP f = true
  rules : ∀ r ∈ src.rules, WfRule dateP r
  checks : ∀ c ∈ src.checks, WfCheck dateP c
  policies : ∀ c ∈ src.policies, WfPolicy dateP c

theorem sourceC_len (src : Source) : (factsC src.facts).length + (rulesC src.rules).length + (checksC src.checks).length +
    (policiesC src.policies).length ≤ (sourceC src).length := by
  simp only [sourceC, List.length_append, List.length_nil]; omega

theorem wfAuthorizer_of_wfAuth {dateP} (src : Source) (hw : WfAuth dateP src) :
    WfAuthorizer dateP (fuelOf (sourceC src)) src := by
  have hlen := sourceC_len src
  refine ⟨hw.noscopes, ?_, ?_, ?_, ?_⟩
  · intro f hf
    refine ⟨hw.facts f hf, ?_⟩
    have h1 := fact_fuel f (hw.facts f hf)
    have h2 := length_le_flatMap (fun f => predC f ++ [';', '\n']) src.facts f hf
    simp only [List.length_append, List.length_cons, List.length_nil] at h2
    simp only [fuelOf, factsC] at hlen ⊢
    omega
  · intro r hr
    refine ⟨hw.rules r hr, ?_⟩
    have h1 := rule_fuel r (hw.rules r hr)
    have h2 := length_le_flatMap ruleStmtC src.rules r hr
    simp only [fuelOf, rulesC] at hlen ⊢
    omega
  · intro c hc
    refine ⟨hw.checks c hc, ?_⟩
    have h1 := check_fuel c (hw.checks c hc)
    have h2 := length_le_flatMap checkStmtC src.checks c hc
    simp only [fuelOf, checksC] at hlen ⊢
    omega
  · intro c hc
    refine ⟨hw.policies c hc, ?_⟩
    have h1 := policy_fuel c (hw.policies c hc)
    have h2 := length_le_flatMap policyStmtC src.policies c hc
    simp only [fuelOf, policiesC] at hlen ⊢
    omega

theorem stmts_le_source {dateP} (src : Source) (hw : WfAuth dateP src) :
    src.facts.length + src.rules.length + src.checks.length + src.policies.length + 1 ≤ (sourceC src).length + 2 := by
  have h1 := count_le_flatMap (fun f => predC f ++ [';', '\n']) src.facts (fun f _ => by simp)
  have h2 := count_le_flatMap ruleStmtC src.rules (fun r _ => by simp only [ruleStmtC, List.length_append, List.length_cons, List.length_nil]; omega)
  have h3 := count_le_flatMap checkStmtC src.checks (fun c hc => checkStmt_pos c (hw.checks c hc))
  have h4 := count_le_flatMap policyStmtC src.policies (fun c hc => policyStmt_pos c (hw.policies c hc))
  have hlen := sourceC_len src
  simp only [factsC, rulesC, checksC, policiesC] at *
  omega

/-- **C14, authorizers, with the driver's fuel.** `parse_source`'s model, as the driver runs it,
    returns every `dump_code` text of the grammar. -/
theorem parseSource_round_trip {dateP} (hd : DateShape dateP) (src : Source) (hw : WfAuth dateP src) :
    parseSource dateP (sourceC src) = some src :=
  source_round_trip hd _ _ src (wfAuthorizer_of_wfAuth src hw) (stmts_le_source src hw)

/-! ## single items, with the driver's fuel -/

/-- **C14, rules, with the driver's fuel** (`fuelOf` of the whole input, tail included) -/
theorem rule_round_trip {dateP} (hd : DateShape dateP) (head : SPred) (b : Body) (X : List Char)
    (hwh : wfPredAny dateP head = true) (hw : WfBody dateP b) (hv : validVars head b = true) (hX : BodyEnd X) :
    pRuleInner dateP (fuelOf (predC head ++ ' ' :: '<' :: '-' :: ' ' :: (bodyC b ++ X)))
      (predC head ++ ' ' :: '<' :: '-' :: ' ' :: (bodyC b ++ X)) = .ok (head, b) X := by
  apply rule_rt hd head b _ X hwh hw hv hX
  have h1 := needPred_le head hwh
  have h2 := needBody_le b hw
  simp only [fuelOf, List.length_append, List.length_cons]
  omega

/-- **C14, checks, with the driver's fuel** -/
theorem check_round_trip {dateP} (hd : DateShape dateP) (k : CKind) (b : Body) (bs : List Body) (X : List Char)
    (hw : ∀ y ∈ b :: bs, WfBody dateP y) (hX : ItemEnd X) :
    pCheckInner dateP (fuelOf (ckindC k ++ ' ' :: (bodyC b ++ (tailBodiesC bs ++ X))))
      (ckindC k ++ ' ' :: (bodyC b ++ (tailBodiesC bs ++ X))) = .ok (k, b :: bs) X := by
  apply check_rt hd k b bs _ X hw hX
  have := needBodies_le b bs hw
  simp only [fuelOf, List.length_append, List.length_cons]
  omega

/-- **C14, policies, with the driver's fuel** -/
theorem policy_round_trip {dateP} (hd : DateShape dateP) (k : PKind) (b : Body) (bs : List Body) (X : List Char)
    (hw : ∀ y ∈ b :: bs, WfBody dateP y) (hX : ItemEnd X) :
    pPolicyInner dateP (fuelOf (pkindC k ++ ' ' :: (bodyC b ++ (tailBodiesC bs ++ X))))
      (pkindC k ++ ' ' :: (bodyC b ++ (tailBodiesC bs ++ X))) = .ok (k, b :: bs) X := by
  apply policy_rt hd k b bs _ X hw hX
  have := needBodies_le b bs hw
  simp only [fuelOf, List.length_append, List.length_cons]
  omega

/-! ## non-vacuity -/

example : parseBlockSource (fun _ => none) (blockC exSource) = some exSource :=
  parseBlockSource_round_trip dateShape_none exSource
    ⟨exSource_wf.scopes, fun f hf => (exSource_wf.facts f hf).1, fun r hr => (exSource_wf.rules r hr).1,
     fun c hc => (exSource_wf.checks c hc).1, rfl⟩

example : parseSource (fun _ => none) (sourceC exAuthorizer) = some exAuthorizer :=
  parseSource_round_trip dateShape_none exAuthorizer
    ⟨rfl, fun f hf => (exAuthorizer_wf.facts f hf).1, fun r hr => (exAuthorizer_wf.rules r hr).1,
     fun c hc => (exAuthorizer_wf.checks c hc).1, fun c hc => (exAuthorizer_wf.policies c hc).1⟩

end Biscuit.BlockParser
