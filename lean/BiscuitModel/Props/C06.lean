/-
  C06 — expression evaluation is total, overflow-checked and type-strict.
  Property theorems only; the model is BiscuitModel/Model/Expr.lean.
-/
import BiscuitModel.Model.Expr
namespace Biscuit.C06
open Biscuit

/-! ## totality: evaluation never runs out of its recursion budget -/

theorem evalUnary_fuel (u : Unary) (v : Term) (s : TempSyms) :
    evalUnary u v s ≠ .error .outOfFuel := by
  unfold evalUnary
  split <;> (try split) <;> simp

theorem withStrs_fuel (s : TempSyms) (a b : Nat) (k : Str → Str → EvalM)
    (hk : ∀ x y, k x y ≠ .error .outOfFuel) : withStrs s a b k ≠ .error .outOfFuel := by
  unfold withStrs
  split <;> simp [hk]

theorem checkedI64_fuel (r : Int) (e : ExprErr) (he : e ≠ .outOfFuel) (s : TempSyms) :
    (checkedI64 r e).map (·, s) ≠ (.error .outOfFuel : EvalM) := by
  unfold checkedI64
  split <;> simp [Except.map, he]

theorem checkedDiv_fuel (a b : Int) (s : TempSyms) :
    (checkedDiv a b).map (·, s) ≠ (.error .outOfFuel : EvalM) := by
  unfold checkedDiv checkedI64
  split <;> (try split) <;> simp [Except.map]

theorem evalBinary_fuel (op : Binary) (l r : Term) (s : TempSyms) :
    evalBinary op l r s ≠ .error .outOfFuel := by
  cases op <;> simp only [evalBinary, evalCompare, evalContains] <;>
    (try split) <;> (try split) <;>
    first
    | (apply withStrs_fuel; intro x y; (try split) <;> simp)
    | (apply checkedI64_fuel; simp)
    | apply checkedDiv_fuel
    | simp

theorem closureLoop_fuel (ev : List Op → Bindings → TempSyms → EvalM) (stopOn : Bool) (p : Nat)
    (body : List Op) (vals : Bindings) (hev : ∀ v s, ev body v s ≠ .error .outOfFuel) :
    ∀ (xs : List Term) (s : TempSyms), closureLoop ev stopOn p body vals xs s ≠ .error .outOfFuel := by
  intro xs
  induction xs with
  | nil => intro s; simp [closureLoop]
  | cons x xs ih =>
    intro s
    unfold closureLoop
    split
    · rename_i e h; intro h2; injection h2 with h2; subst h2; exact hev _ _ h
    · split
      · simp
      · exact ih _
    · simp

theorem evalWithClosure_fuel (ev : List Op → Bindings → TempSyms → EvalM) (op : Binary) (l : Term)
    (params : List Nat) (body : List Op) (vals : Bindings) (s : TempSyms)
    (hev : ∀ v s, ev body v s ≠ .error .outOfFuel) :
    evalWithClosure ev op l params body vals s ≠ .error .outOfFuel := by
  unfold evalWithClosure
  split <;> first
    | exact hev _ _
    | exact closureLoop_fuel ev _ _ body vals hev _ _
    | simp

/-- closure bodies that are still to be run: in the remaining ops and on the stack -/
def bodiesOK (ev : List Op → Bindings → TempSyms → EvalM) (body : List Op) : Prop :=
  ∀ v s, ev body v s ≠ .error .outOfFuel

def opsOK (ev : List Op → Bindings → TempSyms → EvalM) (ops : List Op) : Prop :=
  ∀ ps body, Op.closure ps body ∈ ops → bodiesOK ev body

def stackOK (ev : List Op → Bindings → TempSyms → EvalM) : List StackElem → Prop
  | [] => True
  | .term _ :: st => stackOK ev st
  | .closure _ body :: st => bodiesOK ev body ∧ stackOK ev st

theorem stepOps_fuel (ev : List Op → Bindings → TempSyms → EvalM) (vals : Bindings) :
    ∀ (ops : List Op) (stack : List StackElem) (s : TempSyms),
      opsOK ev ops → stackOK ev stack → stepOps ev vals ops stack s ≠ .error .outOfFuel := by
  intro ops
  induction ops with
  | nil =>
    intro stack s _ _
    unfold stepOps
    split <;> simp_all
  | cons op rest ih =>
    intro stack s hops hst
    have hrest : opsOK ev rest := fun ps b hm => hops ps b (List.mem_cons_of_mem _ hm)
    cases op with
    | value t =>
      cases t <;> simp only [stepOps] <;> (try split) <;>
        first | exact ih _ _ hrest hst | simp
    | unary u =>
      simp only [stepOps]
      split
      · rename_i t st'
        split
        · exact ih _ _ hrest hst
        · rename_i e h; intro h2; injection h2 with h2; subst h2; exact evalUnary_fuel _ _ _ h
      · simp
    | binary b =>
      simp only [stepOps]
      split
      · rename_i r l st'
        split
        · exact ih _ _ hrest hst
        · rename_i e h; intro h2; injection h2 with h2; subst h2; exact evalBinary_fuel _ _ _ _ h
      · rename_i params body l st'
        split
        · simp
        · split
          · exact ih _ _ hrest hst.2
          · rename_i e h; intro h2; injection h2 with h2; subst h2
            exact evalWithClosure_fuel ev _ _ _ _ _ _ hst.1 h
      · simp
    | closure ps body =>
      simp only [stepOps]
      exact ih _ _ hrest ⟨hops ps body (List.mem_cons_self), hst⟩

theorem depth_mem {ops : List Op} {ps : List Nat} {body : List Op}
    (h : Op.closure ps body ∈ ops) : Op.depthList body + 1 ≤ Op.depthList ops := by
  induction ops with
  | nil => cases h
  | cons o os ih =>
    simp only [Op.depthList]
    cases h with
    | head => simp [Op.depth]; omega
    | tail _ h' => have := ih h'; omega

theorem evalExpr_fuel : ∀ (n : Nat) (ops : List Op) (vals : Bindings) (s : TempSyms),
    Op.depthList ops < n → evalExpr n ops vals s ≠ .error .outOfFuel := by
  intro n
  induction n with
  | zero => intro ops vals s h; omega
  | succ n ih =>
    intro ops vals s h
    simp only [evalExpr]
    apply stepOps_fuel
    · intro ps body hm v s'
      exact ih body v s' (by have := depth_mem hm; omega)
    · trivial

/-- **Totality.** For every operation sequence — well-formed or not, with closures nested to any
    depth — every binding set and symbol table, evaluation returns a value or one of the
    specified errors; the recursion budget `depth + 1` is never exhausted. -/
theorem eval_total (ops : List Op) (vals : Bindings) (s : TempSyms) :
    (∃ t s', eval ops vals s = .ok (t, s')) ∨
    (∃ e, eval ops vals s = .error e ∧ e ≠ .outOfFuel) := by
  have h := evalExpr_fuel (Op.depthList ops + 1) ops vals s (by omega)
  unfold eval
  cases hr : evalExpr (Op.depthList ops + 1) ops vals s with
  | ok p => exact .inl ⟨p.1, p.2, rfl⟩
  | error e => exact .inr ⟨e, rfl, fun he => h (by rw [hr, he])⟩


/-! ## checked arithmetic: never a wrapped value -/

/-- `+` on integers: the mathematical sum when it fits in an i64, `Overflow` otherwise. -/
theorem add_checked (a b : Int) (s : TempSyms) :
    evalBinary .add (.int a) (.int b) s =
      if i64Min ≤ a + b ∧ a + b ≤ i64Max then .ok (.int (a + b), s) else .error .overflow := by
  simp only [evalBinary, checkedI64, inI64, Bool.and_eq_true, decide_eq_true_eq]
  split <;> rfl

theorem sub_checked (a b : Int) (s : TempSyms) :
    evalBinary .sub (.int a) (.int b) s =
      if i64Min ≤ a - b ∧ a - b ≤ i64Max then .ok (.int (a - b), s) else .error .overflow := by
  simp only [evalBinary, checkedI64, inI64, Bool.and_eq_true, decide_eq_true_eq]
  split <;> rfl

theorem mul_checked (a b : Int) (s : TempSyms) :
    evalBinary .mul (.int a) (.int b) s =
      if i64Min ≤ a * b ∧ a * b ≤ i64Max then .ok (.int (a * b), s) else .error .overflow := by
  simp only [evalBinary, checkedI64, inI64, Bool.and_eq_true, decide_eq_true_eq]
  split <;> rfl

/-- `/`: division by zero is an error, and so is the one quotient that does not fit
    (`MIN / -1`); otherwise the quotient truncated towards zero. -/
theorem div_checked (a b : Int) (s : TempSyms) :
    evalBinary .div (.int a) (.int b) s =
      if b = 0 then .error .divideByZero
      else if i64Min ≤ Int.tdiv a b ∧ Int.tdiv a b ≤ i64Max then .ok (.int (Int.tdiv a b), s)
      else .error .divideByZero := by
  simp only [evalBinary, checkedDiv, checkedI64, inI64, Bool.and_eq_true, decide_eq_true_eq]
  split
  · rfl
  · split <;> rfl

/-- Any integer result of an arithmetic operator on in-range operands is in range. -/
theorem arith_result_in_range (op : Binary) (hop : op = .add ∨ op = .sub ∨ op = .mul ∨ op = .div)
    (a b r : Int) (s s' : TempSyms) (h : evalBinary op (.int a) (.int b) s = .ok (.int r, s')) :
    i64Min ≤ r ∧ r ≤ i64Max := by
  rcases hop with rfl | rfl | rfl | rfl
  · rw [add_checked] at h; split at h
    · injection h with h; injection h with h; injection h with h; subst h; assumption
    · cases h
  · rw [sub_checked] at h; split at h
    · injection h with h; injection h with h; injection h with h; subst h; assumption
    · cases h
  · rw [mul_checked] at h; split at h
    · injection h with h; injection h with h; injection h with h; subst h; assumption
    · cases h
  · rw [div_checked] at h; split at h
    · cases h
    · split at h
      · injection h with h; injection h with h; injection h with h; subst h; assumption
      · cases h

example : evalBinary .add (.int i64Max) (.int 1) (TempSyms.new ⟨[]⟩) = .error .overflow := by decide
example : evalBinary .mul (.int 3037000500) (.int 3037000500) (TempSyms.new ⟨[]⟩) = .error .overflow := by decide
example : evalBinary .div (.int i64Min) (.int (-1)) (TempSyms.new ⟨[]⟩) = .error .divideByZero := by decide
example : evalBinary .div (.int (-7)) (.int 2) (TempSyms.new ⟨[]⟩) = .ok (.int (-3), TempSyms.new ⟨[]⟩) := by decide

/-! ## type strictness -/

/-- Operand kinds on which each binary operator is defined (the specification table).
    `ffi` is outside the table (it is defined by the host). -/
def allowed : Binary → Term → Term → Bool
  | .lessThan, l, r | .greaterThan, l, r | .lessOrEqual, l, r | .greaterOrEqual, l, r =>
    (l.tag == 1 && r.tag == 1) || (l.tag == 3 && r.tag == 3)
  | .equal, l, r | .notEqual, l, r => l.tag == r.tag && l.tag != 0
  | .heterogeneousEqual, _, _ | .heterogeneousNotEqual, _, _ => true
  | .contains, l, r =>
    (l.tag == 2 && r.tag == 2) || (l.tag == 6 && (r.tag == 6 || r.tag == 1 || r.tag == 2 || r.tag == 3 || r.tag == 4 || r.tag == 5))
      || l.tag == 8 || l.tag == 9
  | .pfx, l, r | .sfx, l, r => (l.tag == 2 && r.tag == 2) || (l.tag == 8 && r.tag == 8)
  | .regex, l, r => l.tag == 2 && r.tag == 2
  | .add, l, r => (l.tag == 1 && r.tag == 1) || (l.tag == 2 && r.tag == 2)
  | .sub, l, r | .mul, l, r | .div, l, r | .bitwiseAnd, l, r | .bitwiseOr, l, r | .bitwiseXor, l, r =>
    l.tag == 1 && r.tag == 1
  | .and, l, r | .or, l, r => l.tag == 5 && r.tag == 5
  | .intersection, l, r | .union, l, r => l.tag == 6 && r.tag == 6
  | .get, l, r => (l.tag == 8 && r.tag == 1) || (l.tag == 9 && (r.tag == 1 || r.tag == 2))
  | .lazyAnd, _, _ | .lazyOr, _, _ | .all, _, _ | .any, _, _ => false
  | .ffi _, _, _ => true

theorem type_strict_lessThan (l r : Term) (s : TempSyms) (h : allowed .lessThan l r = false) :
    evalBinary .lessThan l r s = .error .invalidType := by
  cases l <;> cases r <;> simp [allowed, Term.tag] at h <;>
    simp [evalBinary, evalCompare, evalContains, sameEqKind]

theorem type_strict_greaterThan (l r : Term) (s : TempSyms) (h : allowed .greaterThan l r = false) :
    evalBinary .greaterThan l r s = .error .invalidType := by
  cases l <;> cases r <;> simp [allowed, Term.tag] at h <;>
    simp [evalBinary, evalCompare, evalContains, sameEqKind]

theorem type_strict_lessOrEqual (l r : Term) (s : TempSyms) (h : allowed .lessOrEqual l r = false) :
    evalBinary .lessOrEqual l r s = .error .invalidType := by
  cases l <;> cases r <;> simp [allowed, Term.tag] at h <;>
    simp [evalBinary, evalCompare, evalContains, sameEqKind]

theorem type_strict_greaterOrEqual (l r : Term) (s : TempSyms) (h : allowed .greaterOrEqual l r = false) :
    evalBinary .greaterOrEqual l r s = .error .invalidType := by
  cases l <;> cases r <;> simp [allowed, Term.tag] at h <;>
    simp [evalBinary, evalCompare, evalContains, sameEqKind]

theorem type_strict_equal (l r : Term) (s : TempSyms) (h : allowed .equal l r = false) :
    evalBinary .equal l r s = .error .invalidType := by
  cases l <;> cases r <;> simp [allowed, Term.tag] at h <;>
    simp [evalBinary, evalCompare, evalContains, sameEqKind]

theorem type_strict_contains (l r : Term) (s : TempSyms) (h : allowed .contains l r = false) :
    evalBinary .contains l r s = .error .invalidType := by
  cases l <;> cases r <;> simp [allowed, Term.tag] at h <;>
    simp [evalBinary, evalCompare, evalContains, sameEqKind]

theorem type_strict_pfx (l r : Term) (s : TempSyms) (h : allowed .pfx l r = false) :
    evalBinary .pfx l r s = .error .invalidType := by
  cases l <;> cases r <;> simp [allowed, Term.tag] at h <;>
    simp [evalBinary, evalCompare, evalContains, sameEqKind]

theorem type_strict_sfx (l r : Term) (s : TempSyms) (h : allowed .sfx l r = false) :
    evalBinary .sfx l r s = .error .invalidType := by
  cases l <;> cases r <;> simp [allowed, Term.tag] at h <;>
    simp [evalBinary, evalCompare, evalContains, sameEqKind]

theorem type_strict_regex (l r : Term) (s : TempSyms) (h : allowed .regex l r = false) :
    evalBinary .regex l r s = .error .invalidType := by
  cases l <;> cases r <;> simp [allowed, Term.tag] at h <;>
    simp [evalBinary, evalCompare, evalContains, sameEqKind]

theorem type_strict_add (l r : Term) (s : TempSyms) (h : allowed .add l r = false) :
    evalBinary .add l r s = .error .invalidType := by
  cases l <;> cases r <;> simp [allowed, Term.tag] at h <;>
    simp [evalBinary, evalCompare, evalContains, sameEqKind]

theorem type_strict_sub (l r : Term) (s : TempSyms) (h : allowed .sub l r = false) :
    evalBinary .sub l r s = .error .invalidType := by
  cases l <;> cases r <;> simp [allowed, Term.tag] at h <;>
    simp [evalBinary, evalCompare, evalContains, sameEqKind]

theorem type_strict_mul (l r : Term) (s : TempSyms) (h : allowed .mul l r = false) :
    evalBinary .mul l r s = .error .invalidType := by
  cases l <;> cases r <;> simp [allowed, Term.tag] at h <;>
    simp [evalBinary, evalCompare, evalContains, sameEqKind]

theorem type_strict_div (l r : Term) (s : TempSyms) (h : allowed .div l r = false) :
    evalBinary .div l r s = .error .invalidType := by
  cases l <;> cases r <;> simp [allowed, Term.tag] at h <;>
    simp [evalBinary, evalCompare, evalContains, sameEqKind]

theorem type_strict_and (l r : Term) (s : TempSyms) (h : allowed .and l r = false) :
    evalBinary .and l r s = .error .invalidType := by
  cases l <;> cases r <;> simp [allowed, Term.tag] at h <;>
    simp [evalBinary, evalCompare, evalContains, sameEqKind]

theorem type_strict_or (l r : Term) (s : TempSyms) (h : allowed .or l r = false) :
    evalBinary .or l r s = .error .invalidType := by
  cases l <;> cases r <;> simp [allowed, Term.tag] at h <;>
    simp [evalBinary, evalCompare, evalContains, sameEqKind]

theorem type_strict_intersection (l r : Term) (s : TempSyms) (h : allowed .intersection l r = false) :
    evalBinary .intersection l r s = .error .invalidType := by
  cases l <;> cases r <;> simp [allowed, Term.tag] at h <;>
    simp [evalBinary, evalCompare, evalContains, sameEqKind]

theorem type_strict_union (l r : Term) (s : TempSyms) (h : allowed .union l r = false) :
    evalBinary .union l r s = .error .invalidType := by
  cases l <;> cases r <;> simp [allowed, Term.tag] at h <;>
    simp [evalBinary, evalCompare, evalContains, sameEqKind]

theorem type_strict_bitwiseAnd (l r : Term) (s : TempSyms) (h : allowed .bitwiseAnd l r = false) :
    evalBinary .bitwiseAnd l r s = .error .invalidType := by
  cases l <;> cases r <;> simp [allowed, Term.tag] at h <;>
    simp [evalBinary, evalCompare, evalContains, sameEqKind]

theorem type_strict_bitwiseOr (l r : Term) (s : TempSyms) (h : allowed .bitwiseOr l r = false) :
    evalBinary .bitwiseOr l r s = .error .invalidType := by
  cases l <;> cases r <;> simp [allowed, Term.tag] at h <;>
    simp [evalBinary, evalCompare, evalContains, sameEqKind]

theorem type_strict_bitwiseXor (l r : Term) (s : TempSyms) (h : allowed .bitwiseXor l r = false) :
    evalBinary .bitwiseXor l r s = .error .invalidType := by
  cases l <;> cases r <;> simp [allowed, Term.tag] at h <;>
    simp [evalBinary, evalCompare, evalContains, sameEqKind]

theorem type_strict_notEqual (l r : Term) (s : TempSyms) (h : allowed .notEqual l r = false) :
    evalBinary .notEqual l r s = .error .invalidType := by
  cases l <;> cases r <;> simp [allowed, Term.tag] at h <;>
    simp [evalBinary, evalCompare, evalContains, sameEqKind]

theorem type_strict_heterogeneousEqual (l r : Term) (s : TempSyms) (h : allowed .heterogeneousEqual l r = false) :
    evalBinary .heterogeneousEqual l r s = .error .invalidType := by
  cases l <;> cases r <;> simp [allowed, Term.tag] at h <;>
    simp [evalBinary, evalCompare, evalContains, sameEqKind]

theorem type_strict_heterogeneousNotEqual (l r : Term) (s : TempSyms) (h : allowed .heterogeneousNotEqual l r = false) :
    evalBinary .heterogeneousNotEqual l r s = .error .invalidType := by
  cases l <;> cases r <;> simp [allowed, Term.tag] at h <;>
    simp [evalBinary, evalCompare, evalContains, sameEqKind]

theorem type_strict_lazyAnd (l r : Term) (s : TempSyms) (h : allowed .lazyAnd l r = false) :
    evalBinary .lazyAnd l r s = .error .invalidType := by
  cases l <;> cases r <;> simp [allowed, Term.tag] at h <;>
    simp [evalBinary, evalCompare, evalContains, sameEqKind]

theorem type_strict_lazyOr (l r : Term) (s : TempSyms) (h : allowed .lazyOr l r = false) :
    evalBinary .lazyOr l r s = .error .invalidType := by
  cases l <;> cases r <;> simp [allowed, Term.tag] at h <;>
    simp [evalBinary, evalCompare, evalContains, sameEqKind]

theorem type_strict_all (l r : Term) (s : TempSyms) (h : allowed .all l r = false) :
    evalBinary .all l r s = .error .invalidType := by
  cases l <;> cases r <;> simp [allowed, Term.tag] at h <;>
    simp [evalBinary, evalCompare, evalContains, sameEqKind]

theorem type_strict_any (l r : Term) (s : TempSyms) (h : allowed .any l r = false) :
    evalBinary .any l r s = .error .invalidType := by
  cases l <;> cases r <;> simp [allowed, Term.tag] at h <;>
    simp [evalBinary, evalCompare, evalContains, sameEqKind]

theorem type_strict_get (l r : Term) (s : TempSyms) (h : allowed .get l r = false) :
    evalBinary .get l r s = .error .invalidType := by
  cases l <;> cases r <;> simp [allowed, Term.tag] at h <;>
    simp [evalBinary, evalCompare, evalContains, sameEqKind]

theorem allowed_ok_lessThan (l r : Term) (s : TempSyms) (h : allowed .lessThan l r = true) :
    evalBinary .lessThan l r s ≠ .error .invalidType := by
  cases l <;> cases r <;> simp [allowed, Term.tag] at h <;>
    simp [evalBinary, evalCompare, evalContains, sameEqKind, withStrs, checkedI64, checkedDiv, Except.map] <;>
    (try split) <;> (try split) <;> (try split) <;> simp_all

theorem allowed_ok_greaterThan (l r : Term) (s : TempSyms) (h : allowed .greaterThan l r = true) :
    evalBinary .greaterThan l r s ≠ .error .invalidType := by
  cases l <;> cases r <;> simp [allowed, Term.tag] at h <;>
    simp [evalBinary, evalCompare, evalContains, sameEqKind, withStrs, checkedI64, checkedDiv, Except.map] <;>
    (try split) <;> (try split) <;> (try split) <;> simp_all

theorem allowed_ok_lessOrEqual (l r : Term) (s : TempSyms) (h : allowed .lessOrEqual l r = true) :
    evalBinary .lessOrEqual l r s ≠ .error .invalidType := by
  cases l <;> cases r <;> simp [allowed, Term.tag] at h <;>
    simp [evalBinary, evalCompare, evalContains, sameEqKind, withStrs, checkedI64, checkedDiv, Except.map] <;>
    (try split) <;> (try split) <;> (try split) <;> simp_all

theorem allowed_ok_greaterOrEqual (l r : Term) (s : TempSyms) (h : allowed .greaterOrEqual l r = true) :
    evalBinary .greaterOrEqual l r s ≠ .error .invalidType := by
  cases l <;> cases r <;> simp [allowed, Term.tag] at h <;>
    simp [evalBinary, evalCompare, evalContains, sameEqKind, withStrs, checkedI64, checkedDiv, Except.map] <;>
    (try split) <;> (try split) <;> (try split) <;> simp_all

theorem allowed_ok_equal (l r : Term) (s : TempSyms) (h : allowed .equal l r = true) :
    evalBinary .equal l r s ≠ .error .invalidType := by
  cases l <;> cases r <;> simp [allowed, Term.tag] at h <;>
    simp [evalBinary, evalCompare, evalContains, sameEqKind, withStrs, checkedI64, checkedDiv, Except.map] <;>
    (try split) <;> (try split) <;> (try split) <;> simp_all

theorem allowed_ok_contains (l r : Term) (s : TempSyms) (h : allowed .contains l r = true) :
    evalBinary .contains l r s ≠ .error .invalidType := by
  cases l <;> cases r <;> simp [allowed, Term.tag] at h <;>
    simp [evalBinary, evalCompare, evalContains, sameEqKind, withStrs, checkedI64, checkedDiv, Except.map] <;>
    (try split) <;> (try split) <;> (try split) <;> simp_all

theorem allowed_ok_pfx (l r : Term) (s : TempSyms) (h : allowed .pfx l r = true) :
    evalBinary .pfx l r s ≠ .error .invalidType := by
  cases l <;> cases r <;> simp [allowed, Term.tag] at h <;>
    simp [evalBinary, evalCompare, evalContains, sameEqKind, withStrs, checkedI64, checkedDiv, Except.map] <;>
    (try split) <;> (try split) <;> (try split) <;> simp_all

theorem allowed_ok_sfx (l r : Term) (s : TempSyms) (h : allowed .sfx l r = true) :
    evalBinary .sfx l r s ≠ .error .invalidType := by
  cases l <;> cases r <;> simp [allowed, Term.tag] at h <;>
    simp [evalBinary, evalCompare, evalContains, sameEqKind, withStrs, checkedI64, checkedDiv, Except.map] <;>
    (try split) <;> (try split) <;> (try split) <;> simp_all

theorem allowed_ok_regex (l r : Term) (s : TempSyms) (h : allowed .regex l r = true) :
    evalBinary .regex l r s ≠ .error .invalidType := by
  cases l <;> cases r <;> simp [allowed, Term.tag] at h <;>
    simp [evalBinary, evalCompare, evalContains, sameEqKind, withStrs, checkedI64, checkedDiv, Except.map] <;>
    (try split) <;> (try split) <;> (try split) <;> simp_all

theorem allowed_ok_add (l r : Term) (s : TempSyms) (h : allowed .add l r = true) :
    evalBinary .add l r s ≠ .error .invalidType := by
  cases l <;> cases r <;> simp [allowed, Term.tag] at h
  case int.int a b => rw [add_checked]; (repeat' split) <;> simp
  case str.str a b => simp only [evalBinary, withStrs]; split <;> simp

theorem allowed_ok_sub (l r : Term) (s : TempSyms) (h : allowed .sub l r = true) :
    evalBinary .sub l r s ≠ .error .invalidType := by
  cases l <;> cases r <;> simp [allowed, Term.tag] at h
  case int.int a b => rw [sub_checked]; (repeat' split) <;> simp

theorem allowed_ok_mul (l r : Term) (s : TempSyms) (h : allowed .mul l r = true) :
    evalBinary .mul l r s ≠ .error .invalidType := by
  cases l <;> cases r <;> simp [allowed, Term.tag] at h
  case int.int a b => rw [mul_checked]; (repeat' split) <;> simp

theorem allowed_ok_div (l r : Term) (s : TempSyms) (h : allowed .div l r = true) :
    evalBinary .div l r s ≠ .error .invalidType := by
  cases l <;> cases r <;> simp [allowed, Term.tag] at h
  case int.int a b => rw [div_checked]; (repeat' split) <;> simp

theorem allowed_ok_and (l r : Term) (s : TempSyms) (h : allowed .and l r = true) :
    evalBinary .and l r s ≠ .error .invalidType := by
  cases l <;> cases r <;> simp [allowed, Term.tag] at h <;>
    simp [evalBinary, evalCompare, evalContains, sameEqKind, withStrs, checkedI64, checkedDiv, Except.map] <;>
    (try split) <;> (try split) <;> (try split) <;> simp_all

theorem allowed_ok_or (l r : Term) (s : TempSyms) (h : allowed .or l r = true) :
    evalBinary .or l r s ≠ .error .invalidType := by
  cases l <;> cases r <;> simp [allowed, Term.tag] at h <;>
    simp [evalBinary, evalCompare, evalContains, sameEqKind, withStrs, checkedI64, checkedDiv, Except.map] <;>
    (try split) <;> (try split) <;> (try split) <;> simp_all

theorem allowed_ok_intersection (l r : Term) (s : TempSyms) (h : allowed .intersection l r = true) :
    evalBinary .intersection l r s ≠ .error .invalidType := by
  cases l <;> cases r <;> simp [allowed, Term.tag] at h <;>
    simp [evalBinary, evalCompare, evalContains, sameEqKind, withStrs, checkedI64, checkedDiv, Except.map] <;>
    (try split) <;> (try split) <;> (try split) <;> simp_all

theorem allowed_ok_union (l r : Term) (s : TempSyms) (h : allowed .union l r = true) :
    evalBinary .union l r s ≠ .error .invalidType := by
  cases l <;> cases r <;> simp [allowed, Term.tag] at h <;>
    simp [evalBinary, evalCompare, evalContains, sameEqKind, withStrs, checkedI64, checkedDiv, Except.map] <;>
    (try split) <;> (try split) <;> (try split) <;> simp_all

theorem allowed_ok_bitwiseAnd (l r : Term) (s : TempSyms) (h : allowed .bitwiseAnd l r = true) :
    evalBinary .bitwiseAnd l r s ≠ .error .invalidType := by
  cases l <;> cases r <;> simp [allowed, Term.tag] at h <;>
    simp [evalBinary, evalCompare, evalContains, sameEqKind, withStrs, checkedI64, checkedDiv, Except.map] <;>
    (try split) <;> (try split) <;> (try split) <;> simp_all

theorem allowed_ok_bitwiseOr (l r : Term) (s : TempSyms) (h : allowed .bitwiseOr l r = true) :
    evalBinary .bitwiseOr l r s ≠ .error .invalidType := by
  cases l <;> cases r <;> simp [allowed, Term.tag] at h <;>
    simp [evalBinary, evalCompare, evalContains, sameEqKind, withStrs, checkedI64, checkedDiv, Except.map] <;>
    (try split) <;> (try split) <;> (try split) <;> simp_all

theorem allowed_ok_bitwiseXor (l r : Term) (s : TempSyms) (h : allowed .bitwiseXor l r = true) :
    evalBinary .bitwiseXor l r s ≠ .error .invalidType := by
  cases l <;> cases r <;> simp [allowed, Term.tag] at h <;>
    simp [evalBinary, evalCompare, evalContains, sameEqKind, withStrs, checkedI64, checkedDiv, Except.map] <;>
    (try split) <;> (try split) <;> (try split) <;> simp_all

theorem allowed_ok_notEqual (l r : Term) (s : TempSyms) (h : allowed .notEqual l r = true) :
    evalBinary .notEqual l r s ≠ .error .invalidType := by
  cases l <;> cases r <;> simp [allowed, Term.tag] at h <;>
    simp [evalBinary, evalCompare, evalContains, sameEqKind, withStrs, checkedI64, checkedDiv, Except.map] <;>
    (try split) <;> (try split) <;> (try split) <;> simp_all

theorem allowed_ok_heterogeneousEqual (l r : Term) (s : TempSyms) (h : allowed .heterogeneousEqual l r = true) :
    evalBinary .heterogeneousEqual l r s ≠ .error .invalidType := by
  cases l <;> cases r <;> simp [allowed, Term.tag] at h <;>
    simp [evalBinary, evalCompare, evalContains, sameEqKind, withStrs, checkedI64, checkedDiv, Except.map] <;>
    (try split) <;> (try split) <;> (try split) <;> simp_all

theorem allowed_ok_heterogeneousNotEqual (l r : Term) (s : TempSyms) (h : allowed .heterogeneousNotEqual l r = true) :
    evalBinary .heterogeneousNotEqual l r s ≠ .error .invalidType := by
  cases l <;> cases r <;> simp [allowed, Term.tag] at h <;>
    simp [evalBinary, evalCompare, evalContains, sameEqKind, withStrs, checkedI64, checkedDiv, Except.map] <;>
    (try split) <;> (try split) <;> (try split) <;> simp_all

theorem allowed_ok_lazyAnd (l r : Term) (s : TempSyms) (h : allowed .lazyAnd l r = true) :
    evalBinary .lazyAnd l r s ≠ .error .invalidType := by
  cases l <;> cases r <;> simp [allowed, Term.tag] at h <;>
    simp [evalBinary, evalCompare, evalContains, sameEqKind, withStrs, checkedI64, checkedDiv, Except.map] <;>
    (try split) <;> (try split) <;> (try split) <;> simp_all

theorem allowed_ok_lazyOr (l r : Term) (s : TempSyms) (h : allowed .lazyOr l r = true) :
    evalBinary .lazyOr l r s ≠ .error .invalidType := by
  cases l <;> cases r <;> simp [allowed, Term.tag] at h <;>
    simp [evalBinary, evalCompare, evalContains, sameEqKind, withStrs, checkedI64, checkedDiv, Except.map] <;>
    (try split) <;> (try split) <;> (try split) <;> simp_all

theorem allowed_ok_all (l r : Term) (s : TempSyms) (h : allowed .all l r = true) :
    evalBinary .all l r s ≠ .error .invalidType := by
  cases l <;> cases r <;> simp [allowed, Term.tag] at h <;>
    simp [evalBinary, evalCompare, evalContains, sameEqKind, withStrs, checkedI64, checkedDiv, Except.map] <;>
    (try split) <;> (try split) <;> (try split) <;> simp_all

theorem allowed_ok_any (l r : Term) (s : TempSyms) (h : allowed .any l r = true) :
    evalBinary .any l r s ≠ .error .invalidType := by
  cases l <;> cases r <;> simp [allowed, Term.tag] at h <;>
    simp [evalBinary, evalCompare, evalContains, sameEqKind, withStrs, checkedI64, checkedDiv, Except.map] <;>
    (try split) <;> (try split) <;> (try split) <;> simp_all

theorem allowed_ok_get (l r : Term) (s : TempSyms) (h : allowed .get l r = true) :
    evalBinary .get l r s ≠ .error .invalidType := by
  cases l <;> cases r <;> simp [allowed, Term.tag] at h <;>
    simp [evalBinary, evalCompare, evalContains, sameEqKind, withStrs, checkedI64, checkedDiv, Except.map] <;>
    (try split) <;> (try split) <;> (try split) <;> simp_all

/-- **Type strictness.** Outside the specification table every binary operator applied to two
    terms is a type error — never a value. -/
theorem type_strict (op : Binary) (l r : Term) (s : TempSyms) (h : allowed op l r = false) :
    evalBinary op l r s = .error .invalidType := by
  cases op with
  | lessThan => exact type_strict_lessThan l r s h
  | greaterThan => exact type_strict_greaterThan l r s h
  | lessOrEqual => exact type_strict_lessOrEqual l r s h
  | greaterOrEqual => exact type_strict_greaterOrEqual l r s h
  | equal => exact type_strict_equal l r s h
  | contains => exact type_strict_contains l r s h
  | pfx => exact type_strict_pfx l r s h
  | sfx => exact type_strict_sfx l r s h
  | regex => exact type_strict_regex l r s h
  | add => exact type_strict_add l r s h
  | sub => exact type_strict_sub l r s h
  | mul => exact type_strict_mul l r s h
  | div => exact type_strict_div l r s h
  | and => exact type_strict_and l r s h
  | or => exact type_strict_or l r s h
  | intersection => exact type_strict_intersection l r s h
  | union => exact type_strict_union l r s h
  | bitwiseAnd => exact type_strict_bitwiseAnd l r s h
  | bitwiseOr => exact type_strict_bitwiseOr l r s h
  | bitwiseXor => exact type_strict_bitwiseXor l r s h
  | notEqual => exact type_strict_notEqual l r s h
  | heterogeneousEqual => exact type_strict_heterogeneousEqual l r s h
  | heterogeneousNotEqual => exact type_strict_heterogeneousNotEqual l r s h
  | lazyAnd => exact type_strict_lazyAnd l r s h
  | lazyOr => exact type_strict_lazyOr l r s h
  | all => exact type_strict_all l r s h
  | any => exact type_strict_any l r s h
  | get => exact type_strict_get l r s h
  | ffi n => simp [allowed] at h

/-- Inside the table the result is never a type error. -/
theorem allowed_not_type_error (op : Binary) (l r : Term) (s : TempSyms) (h : allowed op l r = true)
    (hf : ∀ n, op ≠ .ffi n) : evalBinary op l r s ≠ .error .invalidType := by
  cases op with
  | lessThan => exact allowed_ok_lessThan l r s h
  | greaterThan => exact allowed_ok_greaterThan l r s h
  | lessOrEqual => exact allowed_ok_lessOrEqual l r s h
  | greaterOrEqual => exact allowed_ok_greaterOrEqual l r s h
  | equal => exact allowed_ok_equal l r s h
  | contains => exact allowed_ok_contains l r s h
  | pfx => exact allowed_ok_pfx l r s h
  | sfx => exact allowed_ok_sfx l r s h
  | regex => exact allowed_ok_regex l r s h
  | add => exact allowed_ok_add l r s h
  | sub => exact allowed_ok_sub l r s h
  | mul => exact allowed_ok_mul l r s h
  | div => exact allowed_ok_div l r s h
  | and => exact allowed_ok_and l r s h
  | or => exact allowed_ok_or l r s h
  | intersection => exact allowed_ok_intersection l r s h
  | union => exact allowed_ok_union l r s h
  | bitwiseAnd => exact allowed_ok_bitwiseAnd l r s h
  | bitwiseOr => exact allowed_ok_bitwiseOr l r s h
  | bitwiseXor => exact allowed_ok_bitwiseXor l r s h
  | notEqual => exact allowed_ok_notEqual l r s h
  | heterogeneousEqual => exact allowed_ok_heterogeneousEqual l r s h
  | heterogeneousNotEqual => exact allowed_ok_heterogeneousNotEqual l r s h
  | lazyAnd => exact allowed_ok_lazyAnd l r s h
  | lazyOr => exact allowed_ok_lazyOr l r s h
  | all => exact allowed_ok_all l r s h
  | any => exact allowed_ok_any l r s h
  | get => exact allowed_ok_get l r s h
  | ffi n => exact absurd rfl (hf n)

/-- `==` and `!=` return a boolean on every pair of terms. -/
theorem heterogeneous_eq_total (l r : Term) (s : TempSyms) :
    (∃ b, evalBinary .heterogeneousEqual l r s = .ok (.bool b, s)) ∧
    (∃ b, evalBinary .heterogeneousNotEqual l r s = .ok (.bool b, s)) :=
  ⟨⟨_, rfl⟩, ⟨_, rfl⟩⟩

/-- and they are each other's negation -/
theorem heterogeneous_ne_is_not_eq (l r : Term) (s : TempSyms) (b : Bool)
    (h : evalBinary .heterogeneousEqual l r s = .ok (.bool b, s)) :
    evalBinary .heterogeneousNotEqual l r s = .ok (.bool (!b), s) := by
  simp only [evalBinary] at h ⊢
  injection h with h; injection h with h; injection h with h; subst h; rfl

/-- Unary operators outside their domain are type errors. -/
def allowedUnary : Unary → Term → Bool
  | .negate, t => t.tag == 5
  | .parens, _ => true
  | .length, t => t.tag == 2 || t.tag == 4 || t.tag == 6 || t.tag == 8 || t.tag == 9
  | .typeOf, t => t.tag != 0
  | .ffi _, _ => true

theorem unary_type_strict (u : Unary) (t : Term) (s : TempSyms) (h : allowedUnary u t = false) :
    evalUnary u t s = .error .invalidType := by
  cases u <;> cases t <;> simp [allowedUnary, Term.tag] at h <;> simp [evalUnary, typeName]

/-! ## laziness -/

/-- `true || <closure>`: the closure body is not evaluated — the machine continues with `true`
    whatever the body is (even one that would fail). -/
theorem lazy_or_short (ev : List Op → Bindings → TempSyms → EvalM) (vals : Bindings)
    (body rest : List Op) (st : List StackElem) (s : TempSyms) :
    stepOps ev vals (.binary .lazyOr :: rest) (.closure [] body :: .term (.bool true) :: st) s =
    stepOps ev vals rest (.term (.bool true) :: st) s := by
  simp [stepOps, evalWithClosure]

theorem lazy_and_short (ev : List Op → Bindings → TempSyms → EvalM) (vals : Bindings)
    (body rest : List Op) (st : List StackElem) (s : TempSyms) :
    stepOps ev vals (.binary .lazyAnd :: rest) (.closure [] body :: .term (.bool false) :: st) s =
    stepOps ev vals rest (.term (.bool false) :: st) s := by
  simp [stepOps, evalWithClosure]

/-- when the left side does not decide, the result is the body's result -/
theorem lazy_or_evaluates_right (ev : List Op → Bindings → TempSyms → EvalM) (vals : Bindings)
    (body : List Op) (s : TempSyms) :
    evalWithClosure ev .lazyOr (.bool false) [] body vals s = ev body vals s := rfl

theorem lazy_and_evaluates_right (ev : List Op → Bindings → TempSyms → EvalM) (vals : Bindings)
    (body : List Op) (s : TempSyms) :
    evalWithClosure ev .lazyAnd (.bool true) [] body vals s = ev body vals s := rfl

/-- The strict forms take two evaluated booleans: both sides have been run before the operator. -/
theorem strict_and_or_evaluate_both (l r : Bool) (s : TempSyms) :
    evalBinary .and (.bool l) (.bool r) s = .ok (.bool (l && r), s) ∧
    evalBinary .or (.bool l) (.bool r) s = .ok (.bool (l || r), s) := ⟨rfl, rfl⟩

/-! ## closures -/

/-- A closure whose parameter is already bound is refused before anything is evaluated. -/
theorem closure_rejects_shadowing (ev : List Op → Bindings → TempSyms → EvalM) (vals : Bindings)
    (b : Binary) (params : List Nat) (body rest : List Op) (l : Term) (st : List StackElem) (s : TempSyms)
    (h : ∃ p ∈ params, Bindings.hasKey vals p = true) :
    stepOps ev vals (.binary b :: rest) (.closure params body :: .term l :: st) s =
      .error .shadowedVariable := by
  obtain ⟨p, hp, hk⟩ := h
  have : (params.any fun p => Bindings.hasKey vals p) = true := List.any_eq_true.mpr ⟨p, hp, hk⟩
  simp [stepOps, this]

theorem get_erase_ne (b : Bindings) (p q : Nat) (h : q ≠ p) :
    Bindings.get (Bindings.erase b p) q = Bindings.get b q := by
  induction b with
  | nil => rfl
  | cons kv rest ih =>
    obtain ⟨k, v⟩ := kv
    by_cases hk : k = p
    · subst hk
      have : Bindings.erase ((k, v) :: rest) k = Bindings.erase rest k := by
        simp [Bindings.erase, List.filter]
      rw [this, ih]
      have hne : ¬ k = q := fun e => h e.symm
      simp [Bindings.get, hne]
    · have : Bindings.erase ((k, v) :: rest) p = (k, v) :: Bindings.erase rest p := by
        simp [Bindings.erase, List.filter, hk]
      rw [this]
      simp only [Bindings.get]
      split
      · rfl
      · exact ih

/-- The body of `all`/`any` sees its parameter bound to the element, and every other
    variable exactly as outside the closure. -/
theorem closure_binds_param (vals : Bindings) (p : Nat) (x : Term) :
    Bindings.get (Bindings.insert vals p x) p = some x ∧
    ∀ q, q ≠ p → Bindings.get (Bindings.insert vals p x) q = Bindings.get vals q := by
  constructor
  · simp [Bindings.insert, Bindings.get]
  · intro q hq
    have hne : ¬ p = q := fun e => hq e.symm
    simp only [Bindings.insert, Bindings.get, hne, if_false]
    exact get_erase_ne vals p q hq

/-- `all` is the conjunction, `any` the disjunction, of the body over the elements in
    iteration order, for bodies that evaluate without error. -/
theorem closureLoop_spec (ev : List Op → Bindings → TempSyms → EvalM) (stopOn : Bool) (p : Nat)
    (body : List Op) (vals : Bindings) (f : Term → Bool) (s : TempSyms) :
    ∀ (xs : List Term), (∀ x ∈ xs, ev body (Bindings.insert vals p x) s = .ok (.bool (f x), s)) →
      closureLoop ev stopOn p body vals xs s =
        .ok (.bool (if stopOn then xs.any f else xs.all f), s) := by
  intro xs
  induction xs with
  | nil => intro _; cases stopOn <;> simp [closureLoop]
  | cons x xs ih =>
    intro h
    have hx := h x (List.mem_cons_self)
    have hxs := ih (fun y hy => h y (List.mem_cons_of_mem _ hy))
    unfold closureLoop
    rw [hx]
    simp only
    cases stopOn <;> cases hf : f x <;> simp_all

theorem all_spec (ev : List Op → Bindings → TempSyms → EvalM) (p : Nat) (body : List Op)
    (vals : Bindings) (f : Term → Bool) (s : TempSyms) (xs : List Term)
    (h : ∀ x ∈ xs, ev body (Bindings.insert vals p x) s = .ok (.bool (f x), s)) :
    evalWithClosure ev .all (.set xs) [p] body vals s = .ok (.bool (xs.all f), s) := by
  simp only [evalWithClosure]
  rw [closureLoop_spec ev false p body vals f s xs h]; rfl

theorem any_spec (ev : List Op → Bindings → TempSyms → EvalM) (p : Nat) (body : List Op)
    (vals : Bindings) (f : Term → Bool) (s : TempSyms) (xs : List Term)
    (h : ∀ x ∈ xs, ev body (Bindings.insert vals p x) s = .ok (.bool (f x), s)) :
    evalWithClosure ev .any (.arr xs) [p] body vals s = .ok (.bool (xs.any f), s) := by
  simp only [evalWithClosure]
  rw [closureLoop_spec ev true p body vals f s xs h]; rfl

/-- a non-boolean body is a type error, an error in the body is the error of the whole -/
theorem closure_body_error (ev : List Op → Bindings → TempSyms → EvalM) (stopOn : Bool) (p : Nat)
    (body : List Op) (vals : Bindings) (x : Term) (xs : List Term) (s : TempSyms) (e : ExprErr)
    (h : ev body (Bindings.insert vals p x) s = .error e) :
    closureLoop ev stopOn p body vals (x :: xs) s = .error e := by
  unfold closureLoop; rw [h]

/-- `all`/`any` take exactly one parameter, `&&`/`||` none: any other arity is a type error. -/
theorem closure_arity (ev : List Op → Bindings → TempSyms → EvalM) (l : Term) (body : List Op)
    (vals : Bindings) (s : TempSyms) (p q : Nat) (ps : List Nat) :
    evalWithClosure ev .all l (p :: q :: ps) body vals s = .error .invalidType ∧
    evalWithClosure ev .any l [] body vals s = .error .invalidType ∧
    evalWithClosure ev .lazyOr l (p :: ps) body vals s = .error .invalidType ∧
    evalWithClosure ev .lazyAnd l (p :: ps) body vals s = .error .invalidType := by
  refine ⟨?_, ?_, ?_, ?_⟩ <;> cases l <;> simp [evalWithClosure]

/-! ## stack discipline -/

theorem empty_is_invalid (vals : Bindings) (s : TempSyms) : eval [] vals s = .error .invalidStack := rfl

theorem leftover_is_invalid (a b : Term) (vals : Bindings) (s : TempSyms)
    (ha : ∀ v, a ≠ .var v) (hb : ∀ v, b ≠ .var v) :
    eval [.value a, .value b] vals s = .error .invalidStack := by
  cases a <;> cases b <;> simp_all [eval, evalExpr, stepOps, Op.depthList, Op.depth]

theorem unknown_variable (v : Nat) (s : TempSyms) :
    eval [.value (.var v)] [] s = .error (.unknownVariable v) := rfl

/-- non-vacuity: a nested-closure program that evaluates to `true` -/
example :
    eval [.value (.set [.int 1, .int 2]),
          .closure [1] [.value (.arr [.int 1, .int 2, .int 3]),
                        .closure [2] [.value (.var 1), .value (.var 2), .binary .heterogeneousEqual],
                        .binary .any],
          .binary .all] [] (TempSyms.new ⟨[]⟩) = .ok (.bool true, TempSyms.new ⟨[]⟩) := by decide

end Biscuit.C06
