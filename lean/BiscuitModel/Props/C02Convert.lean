/-
  C02 / C12 / C16 — a block and the protobuf message written for it.

  `block_round_trip`: for every block that passes the version gate (`loadGate`, C16) and whose
  collections are what the in-memory types hold — sets without duplicates, of one kind of
  element, holding neither variables nor sets; maps without duplicate keys — reading the message
  `token_block_to_proto_block` writes gives back the block: same symbols, context, version, facts,
  rules, checks, scopes, public keys, external key.

  The hypotheses are the invariants of `BTreeSet` / `BTreeMap` plus the set typing rule; a set
  that breaks the typing rule can be put in a block through the builders, is written, and is then
  refused by the reader (`mixed_set_refused`).
-/
import BiscuitModel.Model.Convert
set_option linter.unusedSimpArgs false
set_option linter.unusedVariables false
namespace Biscuit.Convert
open Biscuit

/-! ## the regenerated tables: every operator is read back as itself -/

theorem unary_table (u : Unary) : decodeUnary (encUnaryKind u) (Unary.ffiName u) = .ok u := by
  cases u <;> rfl

theorem binary_table (b : Binary) : decodeBinary (encBinaryKind b) (Binary.ffiName b) = .ok b := by
  cases b <;> rfl

theorem check_kind_table (k : CheckKind) : protoToCheckKind (checkKindToProto k) = .ok k := by
  cases k <;> rfl

/-- an ffi name on a regular operator, or none on an extern call, is refused -/
theorem ffi_name_checked :
    decodeUnary 0 (some 7) = .error .unaryFfiExtra ∧ decodeUnary 4 none = .error .unaryFfiMissing ∧
    decodeBinary 9 (some 7) = .error .binaryFfiExtra ∧ decodeBinary 28 none = .error .binaryFfiMissing ∧
    decodeUnary 5 none = .error .unaryEmpty ∧ decodeBinary 29 none = .error .binaryEmpty := by decide

/-! ## terms -/

def setElemOK : Term → Bool
  | .var _ => false
  | .set _ => false
  | _ => true

def kindIdx (k : TermK) : Nat := (Gen.setElemKind.lookup k).getD 0

theorem setIndex_ok (t : Term) (h : setElemOK t = true) : setIndex (termToProto t) = .ok (kindIdx t.kind) := by
  cases t <;> first | rfl | (simp [setElemOK] at h)

/-- no element of `xs` is already in `acc`, nor twice in `xs` -/
def freshFrom : List Term → List Term → Bool
  | _, [] => true
  | acc, x :: xs => !acc.any (Term.beq x) && freshFrom (acc ++ [x]) xs

def freshKeys : List (MapKey × Term) → List (MapKey × Term) → Bool
  | _, [] => true
  | acc, (k, t) :: r => !acc.any (fun kv => kv.1 == k) && freshKeys (acc ++ [(k, t)]) r

mutual
/-- what the in-memory types guarantee (no duplicates) and the typing rule of sets -/
def termOK : Term → Bool
  | .set xs => termsOK xs && xs.all setElemOK && xs.all (fun x => x.kind == (xs.head?.map Term.kind).getD .null) && freshFrom [] xs
  | .arr xs => termsOK xs
  | .map kvs => kvsOK kvs && freshKeys [] kvs
  | _ => true
def termsOK : List Term → Bool
  | [] => true
  | t :: ts => termOK t && termsOK ts
def kvsOK : List (MapKey × Term) → Bool
  | [] => true
  | (_, t) :: r => termOK t && kvsOK r
end

theorem mapInsert_fresh : ∀ (acc : List (MapKey × Term)) (k : MapKey) (t : Term),
    acc.any (fun kv => kv.1 == k) = false → mapInsert acc k t = acc ++ [(k, t)] := by
  intro acc
  induction acc with
  | nil => intro k t _; rfl
  | cons kv r ih =>
    intro k t h
    obtain ⟨k', t'⟩ := kv
    simp only [List.any_cons, Bool.or_eq_false_iff, beq_eq_false_iff_ne, ne_eq] at h
    simp only [mapInsert, h.1, ↓reduceIte, List.cons_append, ih k t h.2]

mutual
theorem term_rt : (t : Term) → termOK t = true → protoToTerm (termToProto t) = .ok t
  | .var v, _ => rfl
  | .int i, _ => rfl
  | .str s, _ => rfl
  | .date d, _ => rfl
  | .bytes b, _ => rfl
  | .bool b, _ => rfl
  | .null, _ => rfl
  | .set xs, h => by
    simp only [termOK, Bool.and_eq_true] at h
    have hk : ∀ x ∈ xs, x.kind = (xs.head?.map Term.kind).getD .null := by
      intro x hx
      have := List.all_eq_true.mp h.1.2 x hx
      simpa using this
    have := set_rt xs [] none ((xs.head?.map Term.kind).getD .null) h.1.1.1 (List.all_eq_true.mp h.1.1.2) hk (.inl rfl) h.2
    simp only [termToProto, protoToTerm, this, List.nil_append]
  | .arr xs, h => by
    simp only [termOK] at h
    simp only [termToProto, protoToTerm, terms_rt xs h]
  | .map kvs, h => by
    simp only [termOK, Bool.and_eq_true] at h
    simp only [termToProto, protoToTerm, kvs_rt kvs [] h.1 h.2, List.nil_append]
theorem terms_rt : (ts : List Term) → termsOK ts = true → protoToTerms (termsToProto ts) = .ok ts
  | [], _ => rfl
  | t :: ts, h => by
    simp only [termsOK, Bool.and_eq_true] at h
    simp only [termsToProto, protoToTerms, term_rt t h.1, terms_rt ts h.2]
theorem set_rt : (xs : List Term) → (acc : List Term) → (kind : Option Nat) → (k : TermK) → termsOK xs = true →
    (∀ x ∈ xs, setElemOK x = true) → (∀ x ∈ xs, x.kind = k) → (kind = none ∨ kind = some (kindIdx k)) →
    freshFrom acc xs = true → protoToSet (termsToProto xs) kind acc = .ok (acc ++ xs)
  | [], acc, kind, k, _, _, _, _, _ => by simp [termsToProto, protoToSet]
  | x :: xs, acc, kind, k, hok, hel, hk, hkind, hfresh => by
    simp only [termsOK, Bool.and_eq_true] at hok
    simp only [freshFrom, Bool.and_eq_true, Bool.not_eq_true'] at hfresh
    have hx := hk x List.mem_cons_self
    have hidx := setIndex_ok x (hel x List.mem_cons_self)
    rw [hx] at hidx
    have hnomix : (kind.isSome && kind != some (kindIdx k)) = false := by
      rcases hkind with h | h <;> subst h <;> simp
    have hrest := set_rt xs (acc ++ [x]) (some (kindIdx k)) k hok.2 (fun y hy => hel y (List.mem_cons_of_mem _ hy))
      (fun y hy => hk y (List.mem_cons_of_mem _ hy)) (.inr rfl) hfresh.2
    simp only [termsToProto, protoToSet, hidx, hnomix, Bool.false_eq_true, ↓reduceIte, term_rt x hok.1, setInsert, hfresh.1, hrest,
      List.append_assoc, List.cons_append, List.nil_append]
theorem kvs_rt : (kvs : List (MapKey × Term)) → (acc : List (MapKey × Term)) → kvsOK kvs = true → freshKeys acc kvs = true →
    protoToMap (kvsToProto kvs) acc = .ok (acc ++ kvs)
  | [], acc, _, _ => by simp [kvsToProto, protoToMap]
  | (k, t) :: r, acc, hok, hfresh => by
    simp only [kvsOK, Bool.and_eq_true] at hok
    simp only [freshKeys, Bool.and_eq_true, Bool.not_eq_true'] at hfresh
    have hrest := kvs_rt r (acc ++ [(k, t)]) hok.2 hfresh.2
    simp only [kvsToProto, protoToMap, term_rt t hok.1, mapInsert_fresh acc k t hfresh.1, hrest, List.append_assoc, List.cons_append,
      List.nil_append]
end

/-! ## operators -/

mutual
def opOK : Op → Bool
  | .value t => termOK t
  | .closure _ ops => opsOK ops
  | _ => true
def opsOK : List Op → Bool
  | [] => true
  | o :: os => opOK o && opsOK os
end

mutual
theorem op_rt : (o : Op) → opOK o = true → protoToOp (opToProto o) = .ok o
  | .value t, h => by simp only [opOK] at h; simp only [opToProto, protoToOp, term_rt t h]
  | .unary u, _ => by simp only [opToProto, protoToOp, unary_table u]
  | .binary b, _ => by simp only [opToProto, protoToOp, binary_table b]
  | .closure ps ops, h => by simp only [opOK] at h; simp only [opToProto, protoToOp, ops_rt ops h]
theorem ops_rt : (os : List Op) → opsOK os = true → protoToOps (opsToProto os) = .ok os
  | [], _ => rfl
  | o :: os, h => by
    simp only [opsOK, Bool.and_eq_true] at h
    simp only [opsToProto, protoToOps, op_rt o h.1, ops_rt os h.2]
end

theorem mapR_map {α β : Type} (f : β → R α) (g : α → β) : ∀ l : List α, (∀ x ∈ l, f (g x) = .ok x) → mapR f (l.map g) = .ok l := by
  intro l
  induction l with
  | nil => intro _; rfl
  | cons x xs ih =>
    intro h
    simp only [List.map_cons, mapR, h x List.mem_cons_self, ih (fun y hy => h y (List.mem_cons_of_mem _ hy))]

/-! ## scopes, predicates, rules, checks -/

def scopeOK : Scope → Bool
  | .publicKey k => k < two64
  | _ => true

theorem scope_rt (s : Scope) (h : scopeOK s = true) : protoToScope (scopeToProto s) = .ok s := by
  cases s with
  | authority => rfl
  | previous => rfl
  | publicKey k =>
    have hk64 : k < 18446744073709551616 := by
      simp only [scopeOK, two64] at h
      exact of_decide_eq_true h
    simp only [scopeToProto, protoToScope, two63, two64]
    congr 2
    by_cases hk : k < 9223372036854775808
    · simp only [hk, ↓reduceIte]
      rw [Int.emod_eq_of_lt (by omega) (by omega)]
      exact Int.toNat_natCast k
    · simp only [hk, ↓reduceIte]
      have e : (k : Int) - ((18446744073709551616 : Nat) : Int) = (k : Int) + (-1) * ((18446744073709551616 : Nat) : Int) := by omega
      rw [e, Int.add_mul_emod_self_right, Int.emod_eq_of_lt (by omega) (by omega)]
      exact Int.toNat_natCast k

def predOK (p : Predicate) : Bool := termsOK p.terms

theorem pred_rt (p : Predicate) (h : predOK p = true) : protoToPred (predToProto p) = .ok p := by
  simp only [predOK] at h
  simp only [predToProto, protoToPred, terms_rt p.terms h]

def ruleOK (version : Nat) (q : QRule) : Bool :=
  predOK q.rule.head && q.rule.body.all predOK && q.rule.exprs.all opsOK && q.scopes.all scopeOK &&
    !(Decidable.decide (version < Gen.datalog31) && !q.scopes.isEmpty)

theorem rule_rt (version : Nat) (q : QRule) (h : ruleOK version q = true) : protoToRule version (ruleToProto q) = .ok q := by
  simp only [ruleOK, Bool.and_eq_true, Bool.not_eq_true', Bool.and_eq_false_imp, decide_eq_true_eq] at h
  obtain ⟨⟨⟨⟨hh, hb⟩, he⟩, hs⟩, hv⟩ := h
  have h1 := mapR_map protoToPred predToProto q.rule.body (fun p hp => pred_rt p (List.all_eq_true.mp hb p hp))
  have h2 := mapR_map protoToOps opsToProto q.rule.exprs (fun e hx => ops_rt e (List.all_eq_true.mp he e hx))
  have h3 := mapR_map protoToScope scopeToProto q.scopes (fun s hx => scope_rt s (List.all_eq_true.mp hs s hx))
  have hgate : ¬ (version < Gen.datalog31 ∧ (!(q.scopes.map scopeToProto).isEmpty) = true) := by
    intro ⟨a, b⟩
    have := hv a
    simp only [List.isEmpty_map] at b
    simp [this] at b
  simp only [protoToRule, ruleToProto, h1, h2, hgate, ↓reduceIte, h3, pred_rt q.rule.head hh]

def checkOK (version : Nat) (c : Check) : Bool := c.queries.all (ruleOK version)

theorem check_rt (version : Nat) (c : Check) (h : checkOK version c = true) : protoToCheck version (checkToProto c) = .ok c := by
  simp only [checkOK] at h
  have h1 := mapR_map (protoToRule version) ruleToProto c.queries (fun q hq => rule_rt version q (List.all_eq_true.mp h q hq))
  simp only [protoToCheck, checkToProto, h1, check_kind_table]

/-! ## blocks -/

def nodupNat : List Nat → List Nat → Bool
  | _, [] => true
  | acc, k :: ks => !acc.contains k && nodupNat (acc ++ [k]) ks

theorem loadKeys_rt : ∀ (ks acc : List Nat), nodupNat acc ks = true → loadKeys (ks.map some) acc = .ok (acc ++ ks) := by
  intro ks
  induction ks with
  | nil => intro acc _; simp [loadKeys]
  | cons k ks ih =>
    intro acc h
    simp only [nodupNat, Bool.and_eq_true, Bool.not_eq_true'] at h
    simp only [List.map_cons, loadKeys, h.1, Bool.false_eq_true, ↓reduceIte, ih (acc ++ [k]) h.2, List.append_assoc, List.cons_append,
      List.nil_append]

/-- the content of a block is what the in-memory types can hold -/
def contentOK (b : TBlock) : Bool :=
  b.core.facts.all predOK && b.core.rules.all (ruleOK b.version) && b.core.checks.all (checkOK b.version) &&
    b.core.scopes.all scopeOK && nodupNat [] b.publicKeys && !(b.symbols.any fun s => Gen.defaultSymbols.contains s)

theorem compatErr_none (f : Flags) (v : Nat) (h : compatible f v = true) : compatErr f v = none := by
  obtain ⟨sc, o31, ca, o33⟩ := f
  simp only [compatible, compatErr] at *
  generalize Decidable.decide (v < Gen.datalog33) = a at *
  generalize Decidable.decide (v < Gen.datalog31) = b at *
  generalize Decidable.decide (Gen.datalog31 ≤ v) = c at *
  cases a <;> cases b <;> cases c <;> cases sc <;> cases o31 <;> cases ca <;> cases o33 <;>
    first | rfl | (exact absurd h (by decide))

theorem checkKindsGate_ok (v : Nat) : ∀ cs : List Check,
    (cs.any fun c => (Decidable.decide (v < Gen.datalog31) && c.kind != .one) || (Decidable.decide (v < Gen.datalog33) && c.kind == .reject)) = false →
    checkKindsGate v (cs.map checkToProto) = .ok () := by
  intro cs
  induction cs with
  | nil => intro _; rfl
  | cons c cs ih =>
    intro h
    simp only [List.any_cons, Bool.or_eq_false_iff] at h
    have hc := h.1
    simp only [List.map_cons, checkKindsGate, checkToProto]
    have h1 : ¬ (v < Gen.datalog31 ∧ (checkKindToProto c.kind).isSome = true) := by
      intro ⟨a, b⟩
      have := hc.1
      simp only [a, decide_true, Bool.true_and] at this
      cases hk : c.kind with
      | one => rw [hk] at b; exact absurd b (by decide)
      | all => rw [hk] at this; exact absurd this (by decide)
      | reject => rw [hk] at this; exact absurd this (by decide)
    have h2 : ¬ (v < Gen.datalog33 ∧ checkKindToProto c.kind = (Gen.encCheckKind.lookup CheckKind.reject).getD none) := by
      intro ⟨a, b⟩
      have := hc.2
      simp only [a, decide_true, Bool.true_and] at this
      cases hk : c.kind with
      | one => rw [hk] at b; exact absurd b (by decide)
      | all => rw [hk] at b; exact absurd b (by decide)
      | reject => rw [hk] at this; exact absurd this (by decide)
    simp only [h1, h2, ↓reduceIte]
    exact ih h.2

/-- **A block reads back as itself.** -/
theorem block_round_trip (b : TBlock) (hg : loadGate b.version b.core.extKey.isSome b.core = true) (hc : contentOK b = true) :
    protoToBlock (blockToProto b) b.core.extKey = .ok b := by
  simp only [loadGate, Bool.and_eq_true, decide_eq_true_eq, Bool.not_eq_true', Bool.and_eq_false_imp] at hg
  obtain ⟨⟨⟨⟨⟨hmin, hmax⟩, hsc⟩, hkinds⟩, htp⟩, hcompat⟩ := hg
  simp only [contentOK, Bool.and_eq_true, Bool.not_eq_true'] at hc
  obtain ⟨⟨⟨⟨⟨hf, hr⟩, hck⟩, hs⟩, hkeys⟩, hsym⟩ := hc
  have h1 := mapR_map protoToPred predToProto b.core.facts (fun p hp => pred_rt p (List.all_eq_true.mp hf p hp))
  have h2 := mapR_map (protoToRule b.version) ruleToProto b.core.rules (fun q hq => rule_rt b.version q (List.all_eq_true.mp hr q hq))
  have h3 := mapR_map (protoToCheck b.version) checkToProto b.core.checks (fun c hx => check_rt b.version c (List.all_eq_true.mp hck c hx))
  have h4 := mapR_map protoToScope scopeToProto b.core.scopes (fun s hx => scope_rt s (List.all_eq_true.mp hs s hx))
  have h5 := loadKeys_rt b.publicKeys [] hkeys
  have hgate : (if b.version < Gen.maxSchemaVersion then checkKindsGate b.version (b.core.checks.map checkToProto) else .ok ()) = .ok () := by
    split
    · rename_i hlt
      exact checkKindsGate_ok b.version b.core.checks (hkinds (by simpa using hlt))
    · rfl
  have htp' : ¬ (b.version < Gen.datalog32 ∧ b.core.extKey.isSome = true) := by
    intro ⟨a, c⟩
    have := htp (by simpa using a)
    simp [this] at c
  have hrange : (!Decidable.decide (Gen.minSchemaVersion ≤ b.version ∧ b.version ≤ Gen.maxSchemaVersion)) = false := by
    simp [hmin, hmax]
  have hcore : (⟨b.core.facts, b.core.rules, b.core.checks, b.core.scopes, b.core.extKey⟩ : Block) = b.core := by
    cases b.core; rfl
  unfold protoToBlock
  simp only [blockToProto, Option.getD_some]
  have hc1 : (Gen.minSchemaVersion ≤ b.version ∧ b.version ≤ Gen.maxSchemaVersion) := ⟨hmin, hmax⟩
  simp only [hc1, and_self, decide_true, Bool.not_true, Bool.false_eq_true, ↓reduceIte, h1, h2, hgate, htp', h3, h4, h5, hsym,
    List.nil_append, hcore, compatErr_none _ _ hcompat]
  by_cases hlt : b.version < Gen.maxSchemaVersion
  · simp only [hlt, ↓reduceIte, checkKindsGate_ok b.version b.core.checks (hkinds hlt)]
  · simp only [hlt, ↓reduceIte]

/-! ## what the reader refuses -/

/-- a set of two kinds of elements can be written and is refused when read -/
theorem mixed_set_refused :
    protoToTerm (termToProto (.set [.int 1, .str 1024])) = .error .setMixed ∧
    protoToTerm (termToProto (.set [.set []])) = .error .setSet ∧
    protoToTerm (termToProto (.set [.var 0])) = .error .setVariable := by decide

/-! ## what the reader accepts passes the version gate of C16 -/

theorem mapR_mem {α β : Type} (f : α → R β) : ∀ (l : List α) (l' : List β), mapR f l = .ok l' →
    ∀ y ∈ l', ∃ x ∈ l, f x = .ok y := by
  intro l
  induction l with
  | nil => intro l' h y hy; simp only [mapR, Except.ok.injEq] at h; subst h; cases hy
  | cons a l ih =>
    intro l' h y hy
    simp only [mapR] at h
    cases ha : f a with
    | error e => rw [ha] at h; cases h
    | ok b =>
      rw [ha] at h
      cases hl : mapR f l with
      | error e => rw [hl] at h; cases h
      | ok bs =>
        rw [hl] at h
        simp only [Except.ok.injEq] at h
        subst h
        rcases List.mem_cons.mp hy with rfl | hy'
        · exact ⟨a, List.mem_cons_self, ha⟩
        · obtain ⟨x, hx, hfx⟩ := ih bs hl y hy'
          exact ⟨x, List.mem_cons_of_mem _ hx, hfx⟩

theorem mapR_nil_of_nil {α β : Type} (f : α → R β) (l' : List β) (h : mapR f [] = .ok l') : l' = [] := by
  simp only [mapR, Except.ok.injEq] at h; exact h.symm

/-- a rule read under a version below 3.1 has no scopes -/
theorem rule_scopes_gate (v : Nat) (r : PRule) (q : QRule) (h : protoToRule v r = .ok q) (hv : v < Gen.datalog31) :
    q.scopes.isEmpty = true := by
  unfold protoToRule at h
  split at h
  · cases h
  · split at h
    · cases h
    · split at h
      · cases h
      · rename_i hg
        have hempty : r.scope.isEmpty = true := by
          cases he : r.scope.isEmpty with
          | true => rfl
          | false => exact absurd ⟨hv, by simp [he]⟩ hg
        split at h
        · cases h
        · rename_i scopes hs
          split at h
          · cases h
          · simp only [Except.ok.injEq] at h
            subst h
            have : r.scope = [] := List.isEmpty_iff.mp hempty
            rw [this] at hs
            rw [mapR_nil_of_nil _ _ hs]
            rfl

theorem checkKindsGate_mem (v : Nat) : ∀ cs : List PCheck, checkKindsGate v cs = .ok () → ∀ c ∈ cs,
    ¬ (v < Gen.datalog31 ∧ c.kind.isSome = true) ∧
    ¬ (v < Gen.datalog33 ∧ c.kind = (Gen.encCheckKind.lookup CheckKind.reject).getD none) := by
  intro cs
  induction cs with
  | nil => intro _ c hc; cases hc
  | cons a cs ih =>
    intro h c hc
    simp only [checkKindsGate] at h
    split at h
    · cases h
    · rename_i h1
      split at h
      · cases h
      · rename_i h2
        rcases List.mem_cons.mp hc with rfl | hc'
        · exact ⟨h1, h2⟩
        · exact ih h c hc'

theorem decoded_kind (k : Option Int) (ck : CheckKind) (h : protoToCheckKind k = .ok ck) :
    (k = none → ck = .one) ∧ (ck = .reject → k = (Gen.encCheckKind.lookup CheckKind.reject).getD none) := by
  cases k with
  | none =>
    simp only [protoToCheckKind, Except.ok.injEq] at h
    subst h
    exact And.intro (fun _ => rfl) (fun h => nomatch h)
  | some i =>
    refine And.intro (fun h => nomatch h) (fun hr => ?_)
    subst hr
    simp only [protoToCheckKind] at h
    by_cases h0 : i = 0
    · subst h0; exact absurd h (by decide)
    · by_cases h1 : i = 1
      · subst h1; exact absurd h (by decide)
      · by_cases h2 : i = 2
        · subst h2; rfl
        · have : Gen.decCheckKind.lookup i = none := by
            simp only [Gen.decCheckKind, List.lookup]
            have e0 : (i == 0) = false := by simpa using h0
            have e1 : (i == 1) = false := by simpa using h1
            have e2 : (i == 2) = false := by simpa using h2
            simp only [e0, e1, e2]
          rw [this] at h
          cases h

theorem check_kind_decoded (v : Nat) (c : PCheck) (ck : Check) (h : protoToCheck v c = .ok ck) :
    protoToCheckKind c.kind = .ok ck.kind ∧ (∀ q ∈ ck.queries, ∃ r ∈ c.queries, protoToRule v r = .ok q) := by
  unfold protoToCheck at h
  split at h
  · cases h
  · rename_i qs hq
    split at h
    · rename_i k hk
      simp only [Except.ok.injEq] at h
      subst h
      exact ⟨hk, mapR_mem _ _ _ hq⟩
    · cases h

theorem compatible_of_compatErr (f : Flags) (v : Nat) (h : compatErr f v = none) : compatible f v = true := by
  obtain ⟨sc, o31, ca, o33⟩ := f
  simp only [compatible, compatErr] at *
  generalize Decidable.decide (v < Gen.datalog33) = a at *
  generalize Decidable.decide (v < Gen.datalog31) = b at *
  generalize Decidable.decide (Gen.datalog31 ≤ v) = c at *
  cases a <;> cases b <;> cases c <;> cases sc <;> cases o31 <;> cases ca <;> cases o33 <;>
    first | rfl | (exact absurd h (by decide))

/-- **What the reader accepts passes the version gate**: `gate_sound` (C16) applies to every block
    `proto_block_to_token_block` returns. -/
theorem accepted_passes_gate (p : PBlock) (ext : Option Nat) (b : TBlock) (h : protoToBlock p ext = .ok b) :
    loadGate b.version ext.isSome b.core = true ∧ b.core.extKey = ext ∧ b.version = p.version.getD 0 := by
  unfold protoToBlock at h
  simp only at h
  split at h
  · cases h
  · rename_i hrange
    split at h
    · cases h
    · rename_i facts hfacts
      split at h
      · cases h
      · rename_i rules hrules
        split at h
        · cases h
        · rename_i hgate
          split at h
          · cases h
          · rename_i htp
            split at h
            · cases h
            · rename_i checks hchecks
              split at h
              · cases h
              · rename_i scopes hscopes
                split at h
                · cases h
                · rename_i keys hkeys
                  split at h
                  · cases h
                  · split at h
                    · cases h
                    · rename_i hcompat
                      simp only [Except.ok.injEq] at h
                      subst h
                      refine ⟨?_, rfl, rfl⟩
                      have hr : Gen.minSchemaVersion ≤ p.version.getD 0 ∧ p.version.getD 0 ≤ Gen.maxSchemaVersion := by
                        simpa using hrange
                      simp only [loadGate, Bool.and_eq_true, decide_eq_true_eq, Bool.not_eq_true', Bool.and_eq_false_imp]
                      refine ⟨⟨⟨⟨⟨hr.1, hr.2⟩, ?_⟩, ?_⟩, ?_⟩, compatible_of_compatErr _ _ hcompat⟩
                      · intro hv
                        rw [Bool.or_eq_false_iff]
                        constructor
                        · apply List.any_eq_false.mpr
                          intro q hq
                          obtain ⟨r, _, hr'⟩ := mapR_mem _ _ _ hrules q hq
                          simp [rule_scopes_gate _ r q hr' hv]
                        · apply List.any_eq_false.mpr
                          intro c hc
                          have hcq : (c.queries.any fun q => !q.scopes.isEmpty) = false := by
                            apply List.any_eq_false.mpr
                            intro q hq
                            obtain ⟨pc, _, hpc⟩ := mapR_mem _ _ _ hchecks c hc
                            obtain ⟨r, _, hr'⟩ := (check_kind_decoded _ pc c hpc).2 q hq
                            simp [rule_scopes_gate _ r q hr' hv]
                          simp [hcq]
                      · intro hv
                        simp only [hv, ↓reduceIte] at hgate
                        simp only [List.any_eq_false, Bool.or_eq_true, Bool.and_eq_true, decide_eq_true_eq, not_or, not_and]
                        intro c hc
                        obtain ⟨pc, hpcm, hpc⟩ := mapR_mem _ _ _ hchecks c hc
                        have hk := (check_kind_decoded _ pc c hpc).1
                        have hg := checkKindsGate_mem _ _ hgate pc hpcm
                        have hd := decoded_kind pc.kind c.kind hk
                        refine ⟨fun h31 => ?_, fun h33 => ?_⟩
                        · have : pc.kind = none := by
                            cases hpk : pc.kind with
                            | none => rfl
                            | some i => exact absurd ⟨h31, by simp [hpk]⟩ hg.1
                          simp [hd.1 this]
                        · intro hrej
                          have hrej' : c.kind = .reject := by simpa using hrej
                          exact hg.2 ⟨h33, hd.2 hrej'⟩
                      · intro hv
                        cases he : ext.isSome with
                        | false => rfl
                        | true => exact absurd ⟨hv, he⟩ htp

/-! ## snapshot blocks (C13) -/

theorem blockFlags_extKey (t33 : Term → Bool) (o33 o31 : Op → Bool) (a r : Bool) (b : Block) (e : Option Nat) :
    blockFlags t33 o33 o31 a r ⟨b.facts, b.rules, b.checks, b.scopes, e⟩ = blockFlags t33 o33 o31 a r b := by
  cases b; rfl

/-- **A block of an authorizer snapshot reads back as itself** (its symbols and public keys are
    kept in the snapshot's own tables, not in the block message). -/
theorem snapshot_block_round_trip (b : TBlock) (hsy : b.symbols = []) (hpk : b.publicKeys = [])
    (hg : loadGate b.version false b.core = true) (hc : contentOK b = true) :
    protoToSnapshotBlock (snapshotBlockToProto b) = .ok b := by
  simp only [loadGate, Bool.and_eq_true, decide_eq_true_eq, Bool.not_eq_true', Bool.and_eq_false_imp] at hg
  obtain ⟨⟨⟨⟨⟨hmin, hmax⟩, hsc⟩, hkinds⟩, htp⟩, hcompat⟩ := hg
  simp only [contentOK, Bool.and_eq_true, Bool.not_eq_true'] at hc
  obtain ⟨⟨⟨⟨⟨hf, hr⟩, hck⟩, hs⟩, hkeys⟩, hsym⟩ := hc
  have h1 := mapR_map protoToPred predToProto b.core.facts (fun p hp => pred_rt p (List.all_eq_true.mp hf p hp))
  have h2 := mapR_map (protoToRule b.version) ruleToProto b.core.rules (fun q hq => rule_rt b.version q (List.all_eq_true.mp hr q hq))
  have h3 := mapR_map (protoToCheck b.version) checkToProto b.core.checks (fun c hx => check_rt b.version c (List.all_eq_true.mp hck c hx))
  have h4 := mapR_map protoToScope scopeToProto b.core.scopes (fun s hx => scope_rt s (List.all_eq_true.mp hs s hx))
  have hc1 : (Gen.minSchemaVersion ≤ b.version ∧ b.version ≤ Gen.maxSchemaVersion) := ⟨hmin, hmax⟩
  have hkind : ¬ (b.version = Gen.minSchemaVersion ∧ ((b.core.checks.map checkToProto).any fun c => c.kind.isSome) = true) := by
    intro ⟨hv, hany⟩
    have hlt : b.version < Gen.maxSchemaVersion := by rw [hv]; decide
    have h31 : b.version < Gen.datalog31 := by rw [hv]; decide
    have hk := hkinds hlt
    rw [List.any_map] at hany
    obtain ⟨c, hcm, hcs⟩ := List.any_eq_true.mp hany
    have hc' := (List.any_eq_false.mp hk) c hcm
    simp only [h31, decide_true, Bool.true_and, Bool.or_eq_true, not_or] at hc'
    cases hk' : c.kind with
    | one => simp only [Function.comp, checkToProto, hk'] at hcs; exact absurd hcs (by decide)
    | all => rw [hk'] at hc'; exact absurd hc'.1 (by decide)
    | reject => rw [hk'] at hc'; exact absurd hc'.1 (by decide)
  have hflags := blockFlags_extKey codeTerm33 codeOp33 codeOp31 Gen.checkAllDetected Gen.rejectDetected b.core none
  unfold protoToSnapshotBlock
  simp only [snapshotBlockToProto, Option.getD_some, hc1, and_self, decide_true, Bool.not_true, Bool.false_eq_true, ↓reduceIte, h1, h2,
    hkind, h3, h4, hflags, compatErr_none _ _ hcompat]
  obtain ⟨sy, cx, v, core, pk⟩ := b
  obtain ⟨f, r, c, sc, e⟩ := core
  simp only at hsy hpk
  subst hsy; subst hpk
  cases e <;> rfl

/-- a block with a `reject if` check has the 3.3 flag (`get_schema_version`) -/
theorem reject_sets_v33 (b : Block) (c : Check) (hc : c ∈ b.checks) (hk : c.kind = .reject) :
    (blockFlags codeTerm33 codeOp33 codeOp31 Gen.checkAllDetected Gen.rejectDetected b).v33 = true := by
  have : (b.checks.any fun c => c.kind == .reject) = true := List.any_eq_true.mpr ⟨c, hc, by simp [hk]⟩
  simp only [blockFlags, Gen.rejectDetected, Bool.true_and, this, Bool.true_or]

theorem compat33_of_flag (f : Flags) (v : Nat) (hf : f.v33 = true) (hv : v < Gen.datalog33) : compatErr f v = some .compat33 := by
  simp only [compatErr, Gen.gate33Unconditional, Bool.true_or, Bool.true_and, hf, Bool.and_true, hv, decide_true, ↓reduceIte]

/-- **What the snapshot reader accepts passes the version gate too** (the gate of first-party
    blocks: the snapshot reader has no rule for third-party blocks below 3.2, see the witness below). -/
theorem snapshot_accepted_passes_gate (p : PSnapBlock) (b : TBlock) (h : protoToSnapshotBlock p = .ok b) :
    loadGate b.version false b.core = true := by
  unfold protoToSnapshotBlock at h
  simp only at h
  split at h
  · cases h
  · rename_i hrange
    split at h
    · cases h
    · rename_i facts hfacts
      split at h
      · cases h
      · rename_i rules hrules
        split at h
        · cases h
        · rename_i hgate
          split at h
          · cases h
          · rename_i checks hchecks
            split at h
            · cases h
            · rename_i scopes hscopes
              split at h
              · cases h
              · rename_i hcompat
                have hr : Gen.minSchemaVersion ≤ p.version.getD 0 ∧ p.version.getD 0 ≤ Gen.maxSchemaVersion := by
                  simpa using hrange
                have key : ∀ e : Option Nat, loadGate (p.version.getD 0) false ⟨facts, rules, checks, scopes, e⟩ = true := by
                  intro e
                  have hflags := blockFlags_extKey codeTerm33 codeOp33 codeOp31 Gen.checkAllDetected Gen.rejectDetected
                    ⟨facts, rules, checks, scopes, none⟩ e
                  simp only at hflags
                  simp only [loadGate, Bool.and_eq_true, decide_eq_true_eq, Bool.not_eq_true', Bool.and_eq_false_imp]
                  refine ⟨⟨⟨⟨⟨hr.1, hr.2⟩, ?_⟩, ?_⟩, ?_⟩, ?_⟩
                  · intro hv
                    rw [Bool.or_eq_false_iff]
                    constructor
                    · apply List.any_eq_false.mpr
                      intro q hq
                      obtain ⟨r, _, hr'⟩ := mapR_mem _ _ _ hrules q hq
                      simp [rule_scopes_gate _ r q hr' hv]
                    · apply List.any_eq_false.mpr
                      intro c hc
                      have hcq : (c.queries.any fun q => !q.scopes.isEmpty) = false := by
                        apply List.any_eq_false.mpr
                        intro q hq
                        obtain ⟨pc, _, hpc⟩ := mapR_mem _ _ _ hchecks c hc
                        obtain ⟨r, _, hr'⟩ := (check_kind_decoded _ pc c hpc).2 q hq
                        simp [rule_scopes_gate _ r q hr' hv]
                      simp [hcq]
                  · intro hv
                    simp only [List.any_eq_false, Bool.or_eq_true, Bool.and_eq_true, decide_eq_true_eq, not_or, not_and]
                    intro c hc
                    obtain ⟨pc, hpcm, hpc⟩ := mapR_mem _ _ _ hchecks c hc
                    have hk := (check_kind_decoded _ pc c hpc).1
                    have hd := decoded_kind pc.kind c.kind hk
                    refine ⟨fun h31 => ?_, fun h33 => ?_⟩
                    · -- below 3.1 the version is the lowest one, where no check has a kind
                      have hvmin : p.version.getD 0 = Gen.minSchemaVersion := by
                        have : Gen.datalog31 = Gen.minSchemaVersion + 1 := by decide
                        omega
                      have hnone : pc.kind = none := by
                        cases hpk : pc.kind with
                        | none => rfl
                        | some i =>
                          exact absurd ⟨hvmin, List.any_eq_true.mpr ⟨pc, hpcm, by simp [hpk]⟩⟩ hgate
                      simp [hd.1 hnone]
                    · intro hrej
                      have hrej' : c.kind = .reject := by simpa using hrej
                      have hv33 := reject_sets_v33 ⟨facts, rules, checks, scopes, none⟩ c hc hrej'
                      rw [compat33_of_flag _ _ hv33 h33] at hcompat
                      cases hcompat
                  · simp
                  · rw [hflags]; exact compatible_of_compatErr _ _ hcompat
                split at h
                · cases h
                · simp only [Except.ok.injEq] at h; subst h; exact key _
                · simp only [Except.ok.injEq] at h; subst h; exact key _

/-- the snapshot reader takes a third-party block that declares 3.0, which the token reader refuses -/
theorem snapshot_third_party_below_32 :
    (match protoToSnapshotBlock ⟨none, some 3, [], [], [], [], some (some 1)⟩ with | .ok b => b.core.extKey == some 1 | .error _ => false) = true ∧
    (match protoToBlock ⟨[], none, some 3, [], [], [], [], []⟩ (some 1) with | .error .thirdPartyVersion => true | _ => false) = true := by
  constructor <;> rfl

/-! ## non-vacuity -/

/-- a 3.3 third-party block: a fact with a set, a map and an array, a rule with a scope, a closure
    and an extern call, a `reject if`, a block scope naming a key above 2^63, two public keys -/
def exBlock : TBlock :=
  { symbols := [[115, 48]], context := some [99], version := 6,
    core := { facts := [⟨1024, [.set [.int 1, .int 2], .map [(.int 1, .str 1024), (.str 1024, .null)], .arr [.bool true, .arr []]]⟩],
              rules := [⟨⟨⟨1025, [.var 0]⟩, [⟨1024, [.var 0]⟩],
                  [[.value (.var 0), .value (.set [.bytes [1]]), .binary .contains, .unary (.ffi 1024),
                    .closure [1] [.value (.var 1), .value (.int 0), .binary .greaterThan], .binary .any]]⟩, [.previous, .publicKey 1]⟩],
              checks := [⟨.reject, [⟨⟨⟨1026, []⟩, [⟨1025, [.var 2]⟩], []⟩, []⟩]⟩, ⟨.all, []⟩],
              scopes := [.authority, .publicKey 18446744073709551615],
              extKey := some 3 },
    publicKeys := [3, 4] }

example : protoToBlock (blockToProto exBlock) exBlock.core.extKey = .ok exBlock :=
  block_round_trip exBlock (by decide) (by decide)

end Biscuit.Convert

