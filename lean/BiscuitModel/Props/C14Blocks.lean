/-
  C14 — a printed block parses back to the same block.

  `block_round_trip`: the model of `parse_block_source`, run on the text `print_block_source` /
  the `BlockBuilder` display writes for a block of the grammar (an optional `trusting …;` line,
  then the facts, the rules and the checks, each closed by `;` and a line break), returns the
  block's scopes, facts, rules and checks, in order.

  Stating it is what exposed the defect repaired by /repo c0eecb2: with `tag("trusting")` and no
  word boundary the theorem needed the hypothesis "the first statement does not start with
  `trusting`", and the excluded point failed on the real parser.
-/
import BiscuitModel.Model.BlockParser
import BiscuitModel.Props.C14Rules
set_option linter.unusedSimpArgs false
set_option linter.unusedVariables false
namespace Biscuit.BlockParser
open Biscuit.Printer Biscuit.TermParser Biscuit.ExprParser Biscuit.RuleParser

/-! ## what follows a statement: `;`, a line break, the next statement -/

theorem bodyEnd_semi (Z : List Char) : BodyEnd (';' :: Z) := by
  refine ⟨⟨⟨?_, .inr (.inl ⟨';', Z, space0_cons _ (by decide), by decide⟩)⟩, noCall_head _ (by decide) (by decide) (by decide)⟩,
    ⟨?_, ?_⟩, ?_⟩
  · intro c hc
    simp only [List.head?_cons, Option.some.injEq] at hc
    subst hc; exact .inr (.inr (.inr rfl))
  · simp [space0_cons _ (show isSpace ';' = false by decide)]
  · intro c h; simp only [List.head?_cons, Option.some.injEq] at h; subst h; decide
  · rw [space0_cons _ (show isSpace ';' = false by decide)]
    simp [tag, List.isPrefixOf]

theorem itemEnd_semi (Z : List Char) : ItemEnd (';' :: Z) :=
  ⟨bodyEnd_semi Z, by
    rw [space0_cons _ (show isSpace ';' = false by decide)]
    cases Z with
    | nil => rfl
    | cons b r => simp [tagOr]⟩

theorem pSep_semi (Z : List Char) : pSep (';' :: Z) = some Z := by
  simp [pSep, space0_cons _ (show isSpace ';' = false by decide)]

/-- the rest of the text after a statement's line break is the next statement or nothing -/
def Clean (rest : List Char) : Prop := space0 rest = rest

theorem clean_after_newline (rest : List Char) (h : Clean rest) : space0 ('\n' :: rest) = rest := by
  unfold Clean at h
  simp only [space0, List.dropWhile, show isSpace '\n' = true by decide] at h ⊢
  exact h

theorem clean_nil : Clean [] := rfl

theorem clean_head {c : Char} (s : List Char) (h : isSpace c = false) : Clean (c :: s) := space0_cons _ h

/-! ## one statement -/

theorem wfVs_of_wfL {dateP} : ∀ ts : List STerm, wfL dateP .fact ts = true → wfVs dateP ts = true := by
  intro ts
  induction ts with
  | nil => intro _; rfl
  | cons t ts ih =>
    intro h
    simp only [wfL, Bool.and_eq_true] at h
    simp only [wfVs, Bool.and_eq_true]
    refine ⟨?_, ih h.2⟩
    cases t <;> first | exact h.1 | (simp [wfT] at h)

theorem wfPredAny_of_wfPred {dateP} (p : SPred) (h : wfPred dateP p = true) : wfPredAny dateP p = true := by
  simp only [wfPred, Bool.and_eq_true] at h
  simp only [wfPredAny, Bool.and_eq_true]
  exact ⟨⟨h.1.1, h.1.2⟩, wfVs_of_wfL _ h.2⟩

theorem needVs_le_needL : ∀ ts : List STerm, needVs ts ≤ needL ts + 2 := by
  intro ts
  induction ts with
  | nil => simp [needVs, needL]
  | cons t ts ih => simp only [needVs, needL]; omega

/-- a fact statement: not a rule (no `<-` follows), read by `fact_inner` -/
theorem element_fact {dateP} (hd : DateShape dateP) (wp : Bool) (f : SPred) (Z : List Char) (fuel : Nat)
    (hw : wfPred dateP f = true) (hf : needL f.terms + 2 ≤ fuel) :
    pElement dateP wp fuel (predC f ++ ';' :: Z) = .ok (.fact f) Z := by
  have h1 := predicate_rt hd f (';' :: Z) fuel (wfPredAny_of_wfPred f hw) (by have := needVs_le_needL f.terms; omega)
  have ht : tag ['<', '-'] (space0 (';' :: Z)) = none := by
    rw [space0_cons _ (show isSpace ';' = false by decide)]; simp [tag, List.isPrefixOf]
  have hrule : pRuleInner dateP fuel (predC f ++ ';' :: Z) = .err := by simp only [pRuleInner, h1, ht]
  have hfact := fact_round_trip_fuel hd f (';' :: Z) hw fuel (by omega)
  simp only [pElement, hrule, thenSep, hfact, pSep_semi]

/-- a rule statement -/
theorem element_rule {dateP} (hd : DateShape dateP) (wp : Bool) (head : SPred) (b : Body) (Z : List Char) (fuel : Nat)
    (hwh : wfPredAny dateP head = true) (hw : WfBody dateP b) (hv : validVars head b = true)
    (hf : needVs head.terms + needBody b ≤ fuel) :
    pElement dateP wp fuel (predC head ++ ' ' :: '<' :: '-' :: ' ' :: (bodyC b ++ ';' :: Z)) = .ok (.rule head b) Z := by
  have h := rule_rt hd head b fuel (';' :: Z) hwh hw hv (bodyEnd_semi Z) hf
  simp only [pElement, h, thenSep, pSep_semi]

theorem ckind_not_pred {dateP} (k : CKind) (Z : List Char) (fuel : Nat) :
    pPredicate dateP fuel (ckindC k ++ ' ' :: Z) = .err ∧ pFactInner dateP fuel (ckindC k ++ ' ' :: Z) = .err := by
  cases k <;>
    simp [ckindC, pPredicate, pFactInner, pName, space0, isSpace, isNameChar, lowByte, isAlphaB, isDigitB, List.takeWhile,
      List.dropWhile]

/-- a check statement: neither a rule nor a fact, read by `check_inner` -/
theorem element_check {dateP} (hd : DateShape dateP) (wp : Bool) (k : CKind) (b : Body) (bs : List Body) (Z : List Char) (fuel : Nat)
    (hw : ∀ y ∈ b :: bs, WfBody dateP y) (hf : needBodies (b :: bs) ≤ fuel) :
    pElement dateP wp fuel (ckindC k ++ ' ' :: (bodyC b ++ (tailBodiesC bs ++ ';' :: Z))) = .ok (.check k (b :: bs)) Z := by
  obtain ⟨hp, hfa⟩ := ckind_not_pred (dateP := dateP) k (bodyC b ++ (tailBodiesC bs ++ ';' :: Z)) fuel
  have hrule : pRuleInner dateP fuel (ckindC k ++ ' ' :: (bodyC b ++ (tailBodiesC bs ++ ';' :: Z))) = .err := by
    simp only [pRuleInner, hp]
  have hc := check_rt hd k b bs fuel (';' :: Z) hw (itemEnd_semi Z) hf
  simp only [pElement, hrule, thenSep, hfa, hc, pSep_semi]

/-! ## the statement loop -/

theorem pElements_step {dateP} (wp : Bool) (fuel n : Nat) (s r : List Char) (e : Elem) (acc : Source)
    (hne : s.isEmpty = false) (h : pElement dateP wp fuel s = .ok e r) :
    pElements dateP wp fuel (n + 1) s acc = pElements dateP wp fuel n (space0 r) (acc.add e) := by
  simp only [pElements, hne, Bool.false_eq_true, ↓reduceIte, h]

theorem pElements_nil {dateP} (wp : Bool) (fuel n : Nat) (acc : Source) :
    pElements dateP wp fuel (n + 1) [] acc = some acc := by
  simp [pElements]

def factsC (fs : List SPred) : List Char := fs.flatMap fun f => predC f ++ [';', '\n']

def ruleStmtC (hb : SPred × Body) : List Char :=
  predC hb.1 ++ ' ' :: '<' :: '-' :: ' ' :: (bodyC hb.2 ++ [';', '\n'])

def rulesC (rs : List (SPred × Body)) : List Char := rs.flatMap ruleStmtC

def checkStmtC (kb : CKind × List Body) : List Char :=
  match kb.2 with
  | b :: bs => ckindC kb.1 ++ ' ' :: (bodyC b ++ (tailBodiesC bs ++ [';', '\n']))
  | [] => []

def checksC (cs : List (CKind × List Body)) : List Char := cs.flatMap checkStmtC

structure WfRule (dateP : List Char → Option Nat) (hb : SPred × Body) : Prop where
  head : wfPredAny dateP hb.1 = true
  body : WfBody dateP hb.2
  vars : validVars hb.1 hb.2 = true

structure WfCheck (dateP : List Char → Option Nat) (kb : CKind × List Body) : Prop where
  nonempty : kb.2 ≠ []
  bodies : ∀ y ∈ kb.2, WfBody dateP y

theorem clean_pred {dateP} (p : SPred) (Z : List Char) (hw : wfPredAny dateP p = true) : Clean (predC p ++ Z) := by
  obtain ⟨c, tl, hs, hsp⟩ := predC_head p hw
  rw [hs]; exact clean_head _ hsp

theorem clean_facts {dateP} (fs : List SPred) (T : List Char) (hw : ∀ f ∈ fs, wfPred dateP f = true) (hT : Clean T) :
    Clean (factsC fs ++ T) := by
  cases fs with
  | nil => simpa [factsC] using hT
  | cons f fs =>
    simp only [factsC, List.flatMap_cons, List.append_assoc]
    exact clean_pred f _ (wfPredAny_of_wfPred f (hw f List.mem_cons_self))

theorem clean_rules {dateP} (rs : List (SPred × Body)) (T : List Char) (hw : ∀ r ∈ rs, WfRule dateP r) (hT : Clean T) :
    Clean (rulesC rs ++ T) := by
  cases rs with
  | nil => simpa [rulesC] using hT
  | cons r rs =>
    simp only [rulesC, List.flatMap_cons, ruleStmtC, List.append_assoc]
    exact clean_pred r.1 _ (hw r List.mem_cons_self).head

theorem clean_checks {dateP} (cs : List (CKind × List Body)) (T : List Char) (hw : ∀ c ∈ cs, WfCheck dateP c) (hT : Clean T) :
    Clean (checksC cs ++ T) := by
  cases cs with
  | nil => simpa [checksC] using hT
  | cons c cs =>
    obtain ⟨k, bl⟩ := c
    have hne := (hw (k, bl) List.mem_cons_self).nonempty
    cases bl with
    | nil => exact absurd rfl hne
    | cons b bs =>
      simp only [checksC, List.flatMap_cons, checkStmtC, List.append_assoc]
      cases k <;> exact clean_head _ (by decide)

def needFacts (fs : List SPred) : Nat := fs.foldl (fun m f => max m (needL f.terms + 2)) 0

theorem facts_loop {dateP} (hd : DateShape dateP) (wp : Bool) (fuel : Nat) : ∀ (fs : List SPred) (n : Nat) (T : List Char) (acc : Source),
    (∀ f ∈ fs, wfPred dateP f = true ∧ needL f.terms + 2 ≤ fuel) → Clean T →
    pElements dateP wp fuel (n + fs.length) (factsC fs ++ T) acc =
      pElements dateP wp fuel n T { acc with facts := acc.facts ++ fs } := by
  intro fs
  induction fs with
  | nil => intro n T acc _ _; simp [factsC]
  | cons f fs ih =>
    intro n T acc hw hT
    have hwf := hw f List.mem_cons_self
    have hrest : Clean (factsC fs ++ T) := clean_facts fs T (fun g hg => (hw g (List.mem_cons_of_mem _ hg)).1) hT
    have hel := element_fact hd wp f ('\n' :: (factsC fs ++ T)) fuel hwf.1 hwf.2
    have hne : (predC f ++ ';' :: '\n' :: (factsC fs ++ T)).isEmpty = false := by
      cases hp : predC f <;> simp
    have e1 : factsC (f :: fs) ++ T = predC f ++ ';' :: '\n' :: (factsC fs ++ T) := by
      simp only [factsC, List.flatMap_cons, List.append_assoc, List.cons_append, List.nil_append]
    have e2 : n + (f :: fs).length = (n + fs.length) + 1 := by simp only [List.length_cons]; omega
    rw [e1, e2, pElements_step wp fuel _ _ _ _ acc hne hel, clean_after_newline _ hrest,
      ih n T _ (fun g hg => hw g (List.mem_cons_of_mem _ hg)) hT]
    simp only [Source.add, List.append_assoc, List.cons_append, List.nil_append]

theorem rules_loop {dateP} (hd : DateShape dateP) (wp : Bool) (fuel : Nat) : ∀ (rs : List (SPred × Body)) (n : Nat) (T : List Char) (acc : Source),
    (∀ r ∈ rs, WfRule dateP r ∧ needVs r.1.terms + needBody r.2 ≤ fuel) → Clean T →
    pElements dateP wp fuel (n + rs.length) (rulesC rs ++ T) acc =
      pElements dateP wp fuel n T { acc with rules := acc.rules ++ rs } := by
  intro rs
  induction rs with
  | nil => intro n T acc _ _; simp [rulesC]
  | cons r rs ih =>
    intro n T acc hw hT
    obtain ⟨h, b⟩ := r
    have hwr := hw (h, b) List.mem_cons_self
    have hrest : Clean (rulesC rs ++ T) := clean_rules rs T (fun g hg => (hw g (List.mem_cons_of_mem _ hg)).1) hT
    have hel := element_rule hd wp h b ('\n' :: (rulesC rs ++ T)) fuel hwr.1.head hwr.1.body hwr.1.vars hwr.2
    have hne : (predC h ++ ' ' :: '<' :: '-' :: ' ' :: (bodyC b ++ ';' :: '\n' :: (rulesC rs ++ T))).isEmpty = false := by
      cases hp : predC h <;> simp
    have e1 : rulesC ((h, b) :: rs) ++ T = predC h ++ ' ' :: '<' :: '-' :: ' ' :: (bodyC b ++ ';' :: '\n' :: (rulesC rs ++ T)) := by
      simp only [rulesC, List.flatMap_cons, ruleStmtC, List.append_assoc, List.cons_append, List.nil_append]
    have e2 : n + ((h, b) :: rs).length = (n + rs.length) + 1 := by simp only [List.length_cons]; omega
    rw [e1, e2, pElements_step wp fuel _ _ _ _ acc hne hel, clean_after_newline _ hrest,
      ih n T _ (fun g hg => hw g (List.mem_cons_of_mem _ hg)) hT]
    simp only [Source.add, List.append_assoc, List.cons_append, List.nil_append]

theorem checks_loop {dateP} (hd : DateShape dateP) (wp : Bool) (fuel : Nat) : ∀ (cs : List (CKind × List Body)) (n : Nat) (T : List Char) (acc : Source),
    (∀ c ∈ cs, WfCheck dateP c ∧ needBodies c.2 ≤ fuel) → Clean T →
    pElements dateP wp fuel (n + cs.length) (checksC cs ++ T) acc =
      pElements dateP wp fuel n T { acc with checks := acc.checks ++ cs } := by
  intro cs
  induction cs with
  | nil => intro n T acc _ _; simp [checksC]
  | cons c cs ih =>
    intro n T acc hw hT
    obtain ⟨k, bl⟩ := c
    have hwc := hw (k, bl) List.mem_cons_self
    cases bl with
    | nil => exact absurd rfl hwc.1.nonempty
    | cons b bs =>
      have hrest : Clean (checksC cs ++ T) := clean_checks cs T (fun g hg => (hw g (List.mem_cons_of_mem _ hg)).1) hT
      have hel := element_check hd wp k b bs ('\n' :: (checksC cs ++ T)) fuel hwc.1.bodies hwc.2
      have hne : (ckindC k ++ ' ' :: (bodyC b ++ (tailBodiesC bs ++ ';' :: '\n' :: (checksC cs ++ T)))).isEmpty = false := by
        cases k <;> simp [ckindC]
      have e1 : checksC ((k, b :: bs) :: cs) ++ T = ckindC k ++ ' ' :: (bodyC b ++ (tailBodiesC bs ++ ';' :: '\n' :: (checksC cs ++ T))) := by
        simp only [checksC, List.flatMap_cons, checkStmtC, List.append_assoc, List.cons_append, List.nil_append]
      have e2 : n + ((k, b :: bs) :: cs).length = (n + cs.length) + 1 := by simp only [List.length_cons]; omega
      rw [e1, e2, pElements_step wp fuel _ _ _ _ acc hne hel, clean_after_newline _ hrest,
        ih n T _ (fun g hg => hw g (List.mem_cons_of_mem _ hg)) hT]
      simp only [Source.add, List.append_assoc, List.cons_append, List.nil_append]

/-! ## the optional `trusting …;` line -/

theorem tag_some_split (t s r : List Char) (h : tag t s = some r) : s = t ++ r := by
  unfold tag at h
  split at h
  · rename_i hp
    injection h with h
    subst h
    have := List.isPrefixOf_iff_prefix.mp hp
    obtain ⟨u, hu⟩ := this
    subst hu
    simp
  · cases h

/-- a statement that starts with a predicate is not a `trusting` line, whatever the predicate is
    called (`trusting_level(1)`, `trusting(1)`): after the repair of /repo c0eecb2 -/
theorem no_keyword_pred {dateP} (p : SPred) (Z : List Char) (hw : wfPredAny dateP p = true) :
    (tag ['t', 'r', 'u', 's', 't', 'i', 'n', 'g'] (predC p ++ Z)).filter keywordEnds = none := by
  cases ht : tag ['t', 'r', 'u', 's', 't', 'i', 'n', 'g'] (predC p ++ Z) with
  | none => rfl
  | some r =>
    have hsplit := tag_some_split _ _ _ ht
    simp only [wfPredAny, validNameL, Bool.and_eq_true, Bool.not_eq_true', List.isEmpty_eq_false_iff, List.all_eq_true] at hw
    have hall := hw.1.1.2
    -- the name is the maximal run of name characters of the text, on both sides of `hsplit`
    have hL := takeWhile_append_of_all isNameChar p.name.toList ('(' :: (termsC p.terms ++ [')'] ++ Z)) hall
      (fun c h => by simp only [List.head?_cons, Option.some.injEq] at h; subst h; decide)
    have e1 : predC p ++ Z = p.name.toList ++ '(' :: (termsC p.terms ++ [')'] ++ Z) := by
      simp only [predC, List.append_assoc, List.cons_append, List.nil_append]
    rw [e1] at hsplit
    have hdrop : (p.name.toList ++ '(' :: (termsC p.terms ++ [')'] ++ Z)).dropWhile isNameChar =
        (['t', 'r', 'u', 's', 't', 'i', 'n', 'g'] ++ r).dropWhile isNameChar := by rw [hsplit]
    rw [hL.2] at hdrop
    have hr : r.dropWhile isNameChar = '(' :: (termsC p.terms ++ [')'] ++ Z) := by
      have : (['t', 'r', 'u', 's', 't', 'i', 'n', 'g'] ++ r).dropWhile isNameChar = r.dropWhile isNameChar := by
        simp [List.dropWhile, isNameChar, lowByte, isAlphaB, isDigitB]
      rw [this] at hdrop
      exact hdrop.symm
    simp only [Option.filter]
    have hk : keywordEnds r = false := by
      cases r with
      | nil => simp [List.dropWhile] at hr
      | cons c tl =>
        by_cases hc : isNameChar c = true
        · simp [keywordEnds, hc]
        · have hc' : isNameChar c = false := by simpa using hc
          simp only [List.dropWhile_cons, hc', Bool.false_eq_true, ↓reduceIte, List.cons.injEq] at hr
          obtain ⟨rfl, _⟩ := hr
          simp [keywordEnds, space0_cons _ (show isSpace '(' = false by decide)]
    simp [hk]

theorem no_keyword_ckind (k : CKind) (Z : List Char) :
    (tag ['t', 'r', 'u', 's', 't', 'i', 'n', 'g'] (ckindC k ++ Z)).filter keywordEnds = none := by
  cases k <;> simp [ckindC, tag, List.isPrefixOf]

theorem pScopes_none (fuel : Nat) (s : List Char) (hsp : space0 s = s)
    (h : (tag ['t', 'r', 'u', 's', 't', 'i', 'n', 'g'] s).filter keywordEnds = none) : pScopes fuel s = .ok [] s := by
  simp only [pScopes, hsp, h]

def headerC : List SScope → List Char
  | [] => []
  | sc :: scs => ['t', 'r', 'u', 's', 't', 'i', 'n', 'g', ' '] ++ (scopeC sc ++ (tailScopesC scs ++ [';', '\n']))

theorem pScopes_blank_some (fuel : Nat) (s : List Char) (a : SScope) (l : List SScope) (X : List Char)
    (h : pScopes fuel (' ' :: s) = .ok (a :: l) X) : pScopes fuel s = .ok (a :: l) X := by
  unfold pScopes at h ⊢
  rw [space0_blank] at h
  cases hf : (tag ['t', 'r', 'u', 's', 't', 'i', 'n', 'g'] (space0 s)).filter keywordEnds with
  | none => rw [hf] at h; simp at h
  | some r => rw [hf] at h; simpa using h

theorem header_rt (sc : SScope) (scs : List SScope) (fuel : Nat) (rest : List Char) (hw : ∀ x ∈ sc :: scs, wfScope x)
    (hf : (sc :: scs).length + 1 ≤ fuel) :
    pScopes fuel (['t', 'r', 'u', 's', 't', 'i', 'n', 'g', ' '] ++ (scopeC sc ++ (tailScopesC scs ++ ';' :: '\n' :: rest))) =
      .ok (sc :: scs) (';' :: '\n' :: rest) := by
  have hX : ScopesEnd (';' :: '\n' :: rest) :=
    ⟨by simp [space0_cons _ (show isSpace ';' = false by decide)],
     fun c h => by simp only [List.head?_cons, Option.some.injEq] at h; subst h; decide⟩
  have h := scopes_rt (sc :: scs) fuel (';' :: '\n' :: rest) hw hX
    (by rw [space0_cons _ (show isSpace ';' = false by decide)]; simp [tag, List.isPrefixOf]) hf
  simp only [scopesC, List.append_assoc, List.cons_append, List.nil_append] at h
  exact pScopes_blank_some fuel _ sc scs _ h

/-! ## C14 for blocks -/

/-- the text of a block, as `print_block_source` / the `BlockBuilder` display write it -/
def blockC (src : Source) : List Char :=
  headerC src.scopes ++ (factsC src.facts ++ (rulesC src.rules ++ (checksC src.checks ++ [])))

structure WfSource (dateP : List Char → Option Nat) (fuel : Nat) (src : Source) : Prop where
  scopes : ∀ sc ∈ src.scopes, wfScope sc
  scopesFuel : src.scopes.length + 1 ≤ fuel
  facts : ∀ f ∈ src.facts, wfPred dateP f = true ∧ needL f.terms + 2 ≤ fuel
  rules : ∀ r ∈ src.rules, WfRule dateP r ∧ needVs r.1.terms + needBody r.2 ≤ fuel
  checks : ∀ c ∈ src.checks, WfCheck dateP c ∧ needBodies c.2 ≤ fuel
  nopolicies : src.policies = []

theorem body_text_rt {dateP} (hd : DateShape dateP) (fuel n : Nat) (src : Source) (hw : WfSource dateP fuel src)
    (hn : src.facts.length + src.rules.length + src.checks.length + 1 ≤ n) (scs : List SScope) :
    pElements dateP false fuel n (factsC src.facts ++ (rulesC src.rules ++ (checksC src.checks ++ []))) ⟨scs, [], [], [], []⟩ =
      some ⟨scs, src.facts, src.rules, src.checks, []⟩ := by
  obtain ⟨m, rfl⟩ : ∃ m, n = (((m + 1) + src.checks.length) + src.rules.length) + src.facts.length :=
    ⟨n - src.facts.length - src.rules.length - src.checks.length - 1, by omega⟩
  have hc3 : Clean (checksC src.checks ++ []) := clean_checks src.checks [] (fun c hc => (hw.checks c hc).1) clean_nil
  have hc2 : Clean (rulesC src.rules ++ (checksC src.checks ++ [])) := clean_rules src.rules _ (fun r hr => (hw.rules r hr).1) hc3
  rw [facts_loop hd false fuel src.facts _ _ _ hw.facts hc2, rules_loop hd false fuel src.rules _ _ _ hw.rules hc3,
    checks_loop hd false fuel src.checks _ _ _ hw.checks clean_nil, pElements_nil]
  simp

/-- the body of a block without a `trusting` line does not start with the keyword -/
theorem body_no_keyword {dateP} (fuel : Nat) (src : Source) (hw : WfSource dateP fuel src) :
    (tag ['t', 'r', 'u', 's', 't', 'i', 'n', 'g'] (factsC src.facts ++ (rulesC src.rules ++ (checksC src.checks ++ [])))).filter
      keywordEnds = none := by
  cases hf : src.facts with
  | cons f fs =>
    simp only [factsC, List.flatMap_cons, List.append_assoc]
    exact no_keyword_pred f _ (wfPredAny_of_wfPred f ((hw.facts f (by rw [hf]; exact List.mem_cons_self)).1))
  | nil =>
    simp only [factsC, List.flatMap_nil, List.nil_append]
    cases hr : src.rules with
    | cons r rs =>
      simp only [rulesC, List.flatMap_cons, ruleStmtC, List.append_assoc]
      exact no_keyword_pred r.1 _ ((hw.rules r (by rw [hr]; exact List.mem_cons_self)).1.head)
    | nil =>
      simp only [rulesC, List.flatMap_nil, List.nil_append]
      cases hc : src.checks with
      | nil => simp [checksC, tag, List.isPrefixOf]
      | cons c cs =>
        obtain ⟨k, bl⟩ := c
        have hne := (hw.checks (k, bl) (by rw [hc]; exact List.mem_cons_self)).1.nonempty
        cases bl with
        | nil => exact absurd rfl hne
        | cons b bs =>
          simp only [checksC, List.flatMap_cons, checkStmtC, List.append_assoc]
          exact no_keyword_ckind k _

/-- **C14, blocks.** The model of `parse_block_source`, run on the printed form of a block of the
    grammar, returns the block. -/
theorem block_round_trip {dateP} (hd : DateShape dateP) (fuel n : Nat) (src : Source) (hw : WfSource dateP fuel src)
    (hn : src.facts.length + src.rules.length + src.checks.length + 1 ≤ n) :
    parseBlockSourceWith dateP fuel n (blockC src) = some src := by
  have hpol := hw.nopolicies
  have hc3 : Clean (checksC src.checks ++ []) := clean_checks src.checks [] (fun c hc => (hw.checks c hc).1) clean_nil
  have hc2 : Clean (rulesC src.rules ++ (checksC src.checks ++ [])) := clean_rules src.rules _ (fun r hr => (hw.rules r hr).1) hc3
  have hc1 : Clean (factsC src.facts ++ (rulesC src.rules ++ (checksC src.checks ++ []))) :=
    clean_facts src.facts _ (fun f hf => (hw.facts f hf).1) hc2
  have hres : (⟨src.scopes, src.facts, src.rules, src.checks, []⟩ : Source) = src := by
    cases src; simp only at hpol; subst hpol; rfl
  unfold parseBlockSourceWith blockC
  cases hs : src.scopes with
  | nil =>
    have hb := body_text_rt hd fuel n src hw hn []
    simp only [headerC, List.nil_append, pScopes_none fuel _ hc1 (body_no_keyword fuel src hw)]
    -- no header: `sep` is tried on the text itself
    cases hsep : pSep (factsC src.facts ++ (rulesC src.rules ++ (checksC src.checks ++ []))) with
    | none => simp only; rw [hb, ← hs, hres]
    | some r' =>
      -- only the empty block: `sep` accepts the end of input
      simp only
      have hempty : factsC src.facts ++ (rulesC src.rules ++ (checksC src.checks ++ [])) = [] ∨
          ∃ c tl, factsC src.facts ++ (rulesC src.rules ++ (checksC src.checks ++ [])) = c :: tl ∧ isSpace c = false ∧ c ≠ ';' := by
        cases hf : src.facts with
        | cons f fs =>
          right
          obtain ⟨c, tl, hp, hsp⟩ := predC_head f (wfPredAny_of_wfPred f ((hw.facts f (by rw [hf]; exact List.mem_cons_self)).1))
          refine ⟨c, _, by simp only [factsC, List.flatMap_cons, List.append_assoc, hp, List.cons_append]; rfl, hsp, ?_⟩
          have hwf := (hw.facts f (by rw [hf]; exact List.mem_cons_self)).1
          simp only [wfPred, validNameL, Bool.and_eq_true, List.all_eq_true] at hwf
          intro e; subst e
          have hh : (';' :: tl) = predC f := hp.symm
          have hc : ';' ∈ f.name.toList := by
            cases hnm : f.name.toList with
            | nil => rw [hnm] at hwf; simp at hwf
            | cons a b => simp only [predC, hnm, List.cons_append, List.cons.injEq] at hh; rw [← hh.1]; simp
          exact absurd (hwf.1.1.2 ';' hc) (by decide)
        | nil =>
          cases hr : src.rules with
          | cons r rs =>
            right
            have hwr := (hw.rules r (by rw [hr]; exact List.mem_cons_self)).1.head
            obtain ⟨c, tl, hp, hsp⟩ := predC_head r.1 hwr
            refine ⟨c, _, by simp only [factsC, List.flatMap_nil, List.nil_append, rulesC, List.flatMap_cons, ruleStmtC, List.append_assoc, hp, List.cons_append]; rfl, hsp, ?_⟩
            simp only [wfPredAny, validNameL, Bool.and_eq_true, List.all_eq_true] at hwr
            intro e; subst e
            have hh : (';' :: tl) = predC r.1 := hp.symm
            have hc : ';' ∈ r.1.name.toList := by
              cases hnm : r.1.name.toList with
              | nil => rw [hnm] at hwr; simp at hwr
              | cons a b => simp only [predC, hnm, List.cons_append, List.cons.injEq] at hh; rw [← hh.1]; simp
            exact absurd (hwr.1.1.2 ';' hc) (by decide)
          | nil =>
            cases hc : src.checks with
            | nil => left; simp [factsC, rulesC, checksC]
            | cons c cs =>
              right
              obtain ⟨k, bl⟩ := c
              have hne := (hw.checks (k, bl) (by rw [hc]; exact List.mem_cons_self)).1.nonempty
              cases bl with
              | nil => exact absurd rfl hne
              | cons b bs =>
                cases k <;>
                  exact ⟨_, _, by simp only [factsC, List.flatMap_nil, List.nil_append, rulesC, checksC, List.flatMap_cons, checkStmtC, ckindC, List.cons_append]; rfl, by decide, by decide⟩
      rcases hempty with he | ⟨c, tl, he, hsp, hne⟩
      · rw [he] at hsep hb
        simp only [pSep, space0, List.dropWhile] at hsep
        injection hsep with hsep; subst hsep
        simp only [space0, List.dropWhile]
        rw [hb, ← hs, hres]
      · rw [he] at hsep
        simp only [pSep, space0_cons _ hsp] at hsep
        split at hsep
        · rename_i heq; injection heq with h1 _; exact absurd h1 hne
        · rename_i heq; cases heq
        · cases hsep
  | cons sc scs =>
    have hwsc : ∀ x ∈ sc :: scs, wfScope x := by rw [← hs]; exact hw.scopes
    have hf : (sc :: scs).length + 1 ≤ fuel := by rw [← hs]; exact hw.scopesFuel
    have hh := header_rt sc scs fuel (factsC src.facts ++ (rulesC src.rules ++ (checksC src.checks ++ []))) hwsc hf
    have hb := body_text_rt hd fuel n src hw hn (sc :: scs)
    simp only [headerC, List.append_assoc, List.cons_append, List.nil_append] at hh ⊢
    simp only [hh, pSep_semi, clean_after_newline _ hc1, hb]
    rw [← hs, hres]

/-! ## the text above is what the printer model writes -/

/-- a parsed block as the builders hold it -/
def toSBlock (src : Source) : SBlock :=
  ⟨src.scopes, src.facts, src.rules.map fun hb => toSRule hb.1 hb.2, src.checks.map fun kb => toSCheck kb.1 kb.2⟩

theorem flatMap_congr_memB {α : Type} (l : List α) (f g : α → List Char) (h : ∀ x ∈ l, f x = g x) :
    l.flatMap f = l.flatMap g := by
  induction l with
  | nil => rfl
  | cons x xs ih =>
    simp only [List.flatMap_cons, h x List.mem_cons_self, ih (fun y hy => h y (List.mem_cons_of_mem _ hy))]

/-- on well-formed blocks the printer model's `printBlock` writes `blockC` -/
theorem printBlock_eq_blockC {dateP} (fuel : Nat) (src : Source) (hw : WfSource dateP fuel src) :
    (printBlock (toSBlock src)).toList = blockC src := by
  have hfacts : (src.facts.map fun f => printPred f ++ ";\n").flatMap String.toList = factsC src.facts := by
    simp only [factsC, List.flatMap_map]
    apply flatMap_congr_memB
    intro f _
    simp only [String.toList_append, printPred_eq_predC]; rfl
  have hrules : ((src.rules.map fun hb => toSRule hb.1 hb.2).map fun r => printRule r ++ ";\n").flatMap String.toList =
      rulesC src.rules := by
    simp only [rulesC, List.flatMap_map]
    apply flatMap_congr_memB
    intro hb hmem
    simp only [String.toList_append, printRule_eq hb.1 hb.2 (hw.rules hb hmem).1.body, ruleStmtC, List.append_assoc,
      List.cons_append]
    rfl
  have hchecks : ((src.checks.map fun kb => toSCheck kb.1 kb.2).map fun c => printCheck c ++ ";\n").flatMap String.toList =
      checksC src.checks := by
    simp only [checksC, List.flatMap_map]
    apply flatMap_congr_memB
    intro kb hmem
    obtain ⟨k, bl⟩ := kb
    have hwc := (hw.checks (k, bl) hmem).1
    cases bl with
    | nil => exact absurd rfl hwc.nonempty
    | cons b bs =>
      simp only [String.toList_append, printCheck_eq k b bs hwc.bodies, checkStmtC, List.append_assoc, List.cons_append]
      rfl
  have hhead : (if src.scopes.isEmpty = true then "" else "trusting " ++ joinWith ", " (src.scopes.map printScope) ++ ";\n").toList =
      headerC src.scopes := by
    cases hs : src.scopes with
    | nil => simp [headerC]
    | cons sc scs =>
      simp only [List.isEmpty_cons, Bool.false_eq_true, ↓reduceIte, String.toList_append, joinWith_toListC, List.map_cons,
        List.map_map, joinC, headerC, tailScopesC_eq, printScope_toList]
      have e : (List.map (String.toList ∘ printScope) scs) = List.map scopeC scs := by
        apply List.map_congr_left; intro x _; exact printScope_toList x
      rw [e]
      simp only [List.append_assoc]
      rfl
  unfold printBlock toSBlock blockC
  simp only [String.toList_append, String.toList_join, hhead, hfacts, hrules, hchecks, List.append_assoc, List.append_nil]

/-! ## non-vacuity -/

def exSource : Source :=
  ⟨[.authority, .key "ed25519/0a1b"],
   [⟨"trusting_level", [.int 1]⟩, ⟨"resource", [.str "file1"]⟩],
   [(⟨"can_read", [.var "u"]⟩, ⟨[⟨"user", [.var "u"]⟩], [], []⟩)],
   [(.one, [exBody1, exBody2]), (.reject, [⟨[⟨"revoked", [.var "x"]⟩], [.bin .gt (.val (.var "x")) (.val (.int 0))], []⟩])],
   []⟩

theorem exSource_wf : WfSource (fun _ => none) 1000 exSource := by
  refine ⟨?_, by decide, by decide, ?_, ?_, rfl⟩
  · intro sc hsc
    simp only [exSource, List.mem_cons, List.mem_nil_iff, or_false] at hsc
    rcases hsc with rfl | rfl
    · trivial
    · exact ⟨['e', 'd', '2', '5', '5', '1', '9', '/'], [10, 27], .inl rfl, by decide, by decide⟩
  · intro r hr
    simp only [exSource, List.mem_cons, List.mem_nil_iff, or_false] at hr
    subst hr
    exact ⟨⟨by decide, ⟨by decide, by decide, fun sc h => by simp at h⟩, by decide⟩, by decide⟩
  · intro c hc
    simp only [exSource, List.mem_cons, List.mem_nil_iff, or_false] at hc
    rcases hc with rfl | rfl
    · refine ⟨⟨by simp, ?_⟩, by decide⟩
      intro y hy
      simp only [List.mem_cons, List.mem_nil_iff, or_false] at hy
      rcases hy with rfl | rfl
      · exact exBody1_wf
      · exact exBody2_wf
    · refine ⟨⟨by simp, ?_⟩, by decide⟩
      intro y hy
      simp only [List.mem_cons, List.mem_nil_iff, or_false] at hy
      subst hy
      exact ⟨by decide, by decide, fun sc h => by simp at h⟩

/-- a block whose first fact is called `trusting_level` comes back (it did not before /repo c0eecb2) -/
example : parseBlockSourceWith (fun _ => none) 1000 20 (blockC exSource) = some exSource :=
  block_round_trip dateShape_none 1000 20 exSource exSource_wf (by decide)

/-! ## C14 for authorizers: `dump_code` read by `parse_source` -/

theorem pkind_not_others {dateP} (k : PKind) (Z : List Char) (fuel : Nat) :
    pPredicate dateP fuel (pkindC k ++ ' ' :: Z) = .err ∧ pFactInner dateP fuel (pkindC k ++ ' ' :: Z) = .err ∧
      pCheckInner dateP fuel (pkindC k ++ ' ' :: Z) = .err := by
  cases k <;>
    simp [pkindC, pPredicate, pFactInner, pCheckInner, pName, space0, isSpace, isNameChar, lowByte, isAlphaB, isDigitB,
      List.takeWhile, List.dropWhile, tagNoCase, Char.toLower]

/-- a policy statement: neither a rule, a fact nor a check; read by `policy_inner` -/
theorem element_policy {dateP} (hd : DateShape dateP) (k : PKind) (b : Body) (bs : List Body) (Z : List Char) (fuel : Nat)
    (hw : ∀ y ∈ b :: bs, WfBody dateP y) (hf : needBodies (b :: bs) ≤ fuel) :
    pElement dateP true fuel (pkindC k ++ ' ' :: (bodyC b ++ (tailBodiesC bs ++ ';' :: Z))) = .ok (.policy k (b :: bs)) Z := by
  obtain ⟨hp, hfa, hck⟩ := pkind_not_others (dateP := dateP) k (bodyC b ++ (tailBodiesC bs ++ ';' :: Z)) fuel
  have hrule : pRuleInner dateP fuel (pkindC k ++ ' ' :: (bodyC b ++ (tailBodiesC bs ++ ';' :: Z))) = .err := by
    simp only [pRuleInner, hp]
  have hc := policy_rt hd k b bs fuel (';' :: Z) hw (itemEnd_semi Z) hf
  simp only [pElement, hrule, thenSep, hfa, hck, ↓reduceIte, hc, pSep_semi]

def policyStmtC (kb : PKind × List Body) : List Char :=
  match kb.2 with
  | b :: bs => pkindC kb.1 ++ ' ' :: (bodyC b ++ (tailBodiesC bs ++ [';', '\n']))
  | [] => []

def policiesC (ps : List (PKind × List Body)) : List Char := ps.flatMap policyStmtC

structure WfPolicy (dateP : List Char → Option Nat) (kb : PKind × List Body) : Prop where
  nonempty : kb.2 ≠ []
  bodies : ∀ y ∈ kb.2, WfBody dateP y

theorem clean_policies {dateP} (ps : List (PKind × List Body)) (T : List Char) (hw : ∀ c ∈ ps, WfPolicy dateP c) (hT : Clean T) :
    Clean (policiesC ps ++ T) := by
  cases ps with
  | nil => simpa [policiesC] using hT
  | cons c cs =>
    obtain ⟨k, bl⟩ := c
    have hne := (hw (k, bl) List.mem_cons_self).nonempty
    cases bl with
    | nil => exact absurd rfl hne
    | cons b bs =>
      simp only [policiesC, List.flatMap_cons, policyStmtC, List.append_assoc]
      cases k <;> exact clean_head _ (by decide)

theorem policies_loop {dateP} (hd : DateShape dateP) (fuel : Nat) : ∀ (ps : List (PKind × List Body)) (n : Nat) (T : List Char) (acc : Source),
    (∀ c ∈ ps, WfPolicy dateP c ∧ needBodies c.2 ≤ fuel) → Clean T →
    pElements dateP true fuel (n + ps.length) (policiesC ps ++ T) acc =
      pElements dateP true fuel n T { acc with policies := acc.policies ++ ps } := by
  intro ps
  induction ps with
  | nil => intro n T acc _ _; simp [policiesC]
  | cons c cs ih =>
    intro n T acc hw hT
    obtain ⟨k, bl⟩ := c
    have hwc := hw (k, bl) List.mem_cons_self
    cases bl with
    | nil => exact absurd rfl hwc.1.nonempty
    | cons b bs =>
      have hrest : Clean (policiesC cs ++ T) := clean_policies cs T (fun g hg => (hw g (List.mem_cons_of_mem _ hg)).1) hT
      have hel := element_policy hd k b bs ('\n' :: (policiesC cs ++ T)) fuel hwc.1.bodies hwc.2
      have hne : (pkindC k ++ ' ' :: (bodyC b ++ (tailBodiesC bs ++ ';' :: '\n' :: (policiesC cs ++ T)))).isEmpty = false := by
        cases k <;> simp [pkindC]
      have e1 : policiesC ((k, b :: bs) :: cs) ++ T = pkindC k ++ ' ' :: (bodyC b ++ (tailBodiesC bs ++ ';' :: '\n' :: (policiesC cs ++ T))) := by
        simp only [policiesC, List.flatMap_cons, policyStmtC, List.append_assoc, List.cons_append, List.nil_append]
      have e2 : n + ((k, b :: bs) :: cs).length = (n + cs.length) + 1 := by simp only [List.length_cons]; omega
      rw [e1, e2, pElements_step true fuel _ _ _ _ acc hne hel, clean_after_newline _ hrest,
        ih n T _ (fun g hg => hw g (List.mem_cons_of_mem _ hg)) hT]
      simp only [Source.add, List.append_assoc, List.cons_append, List.nil_append]

/-- a blank line between two sections is skipped with the line break of the statement before it -/
def gap (nonempty : Bool) : List Char := if nonempty then ['\n'] else []

theorem clean_gap (b : Bool) (T : List Char) (hT : Clean T) : space0 ('\n' :: (gap b ++ T)) = T := by
  cases b
  · simp only [gap, Bool.false_eq_true, ↓reduceIte, List.nil_append]
    exact clean_after_newline T hT
  · simp only [gap, ↓reduceIte, List.cons_append, List.nil_append]
    have h := clean_after_newline T hT
    simp only [space0, List.dropWhile, show isSpace '\n' = true by decide] at h ⊢
    exact h

/-- what the loop needs to know of one kind of statement -/
structure StmtOK {α : Type} (dateP : List Char → Option Nat) (wp : Bool) (fuel : Nat) (stmt : α → List Char) (el : α → Elem)
    (x : α) : Prop where
  parses : ∀ Z, pElement dateP wp fuel (stmt x ++ ';' :: Z) = .ok (el x) Z
  head : ∃ c tl, stmt x = c :: tl ∧ isSpace c = false

def sectionC {α : Type} (stmt : α → List Char) (xs : List α) : List Char := xs.flatMap fun x => stmt x ++ [';', '\n']

/-- a section of statements followed by a blank line (when `g`) and text that starts a statement -/
theorem section_loop {α : Type} {dateP} (wp : Bool) (fuel : Nat) (stmt : α → List Char) (el : α → Elem) :
    ∀ (xs : List α) (n : Nat) (T : List Char) (acc : Source) (g : Bool),
    (∀ x ∈ xs, StmtOK dateP wp fuel stmt el x) → Clean T → (xs ≠ [] ∨ g = false) →
    pElements dateP wp fuel (n + xs.length) (sectionC stmt xs ++ (gap g ++ T)) acc =
      pElements dateP wp fuel n T (xs.foldl (fun a x => a.add (el x)) acc) := by
  intro xs
  induction xs with
  | nil =>
    intro n T acc g _ _ hg
    rcases hg with h | h
    · exact absurd rfl h
    · subst h; simp [sectionC, gap]
  | cons x xs ih =>
    intro n T acc g hw hT _
    have hx := hw x List.mem_cons_self
    obtain ⟨c, tl, hc, hsp⟩ := hx.head
    have hel := hx.parses ('\n' :: (sectionC stmt xs ++ (gap g ++ T)))
    have hne : (stmt x ++ ';' :: '\n' :: (sectionC stmt xs ++ (gap g ++ T))).isEmpty = false := by rw [hc]; rfl
    have e1 : sectionC stmt (x :: xs) ++ (gap g ++ T) = stmt x ++ ';' :: '\n' :: (sectionC stmt xs ++ (gap g ++ T)) := by
      simp only [sectionC, List.flatMap_cons, List.append_assoc, List.cons_append, List.nil_append]
    have e2 : n + (x :: xs).length = (n + xs.length) + 1 := by simp only [List.length_cons]; omega
    rw [e1, e2, pElements_step wp fuel _ _ _ _ acc hne hel]
    cases xs with
    | nil =>
      simp only [sectionC, List.flatMap_nil, List.nil_append, List.length_nil, Nat.add_zero, List.foldl_cons, List.foldl_nil]
      rw [clean_gap g T hT]
    | cons y ys =>
      obtain ⟨c', tl', hc', hsp'⟩ := (hw y (List.mem_cons_of_mem _ List.mem_cons_self)).head
      have hcl : Clean (sectionC stmt (y :: ys) ++ (gap g ++ T)) := by
        simp only [sectionC, List.flatMap_cons, List.append_assoc, hc', List.cons_append]
        exact clean_head _ hsp'
      rw [clean_after_newline _ hcl, ih n T _ g (fun z hz => hw z (List.mem_cons_of_mem _ hz)) hT (.inl (by simp))]
      simp only [List.foldl_cons]

theorem foldl_add_fact (fs : List SPred) : ∀ acc : Source,
    fs.foldl (fun a x => a.add (.fact x)) acc = { acc with facts := acc.facts ++ fs } := by
  induction fs with
  | nil => intro acc; simp
  | cons f fs ih => intro acc; rw [List.foldl_cons, ih]; simp only [Source.add, List.append_assoc, List.cons_append, List.nil_append]

theorem foldl_add_rule (rs : List (SPred × Body)) : ∀ acc : Source,
    rs.foldl (fun a x => a.add (.rule x.1 x.2)) acc = { acc with rules := acc.rules ++ rs } := by
  induction rs with
  | nil => intro acc; simp
  | cons f fs ih => intro acc; rw [List.foldl_cons, ih]; simp only [Source.add, List.append_assoc, List.cons_append, List.nil_append]

theorem foldl_add_check (cs : List (CKind × List Body)) : ∀ acc : Source,
    cs.foldl (fun a x => a.add (.check x.1 x.2)) acc = { acc with checks := acc.checks ++ cs } := by
  induction cs with
  | nil => intro acc; simp
  | cons f fs ih => intro acc; rw [List.foldl_cons, ih]; simp only [Source.add, List.append_assoc, List.cons_append, List.nil_append]

theorem foldl_add_policy (cs : List (PKind × List Body)) : ∀ acc : Source,
    cs.foldl (fun a x => a.add (.policy x.1 x.2)) acc = { acc with policies := acc.policies ++ cs } := by
  induction cs with
  | nil => intro acc; simp
  | cons f fs ih => intro acc; rw [List.foldl_cons, ih]; simp only [Source.add, List.append_assoc, List.cons_append, List.nil_append]

def ruleS (hb : SPred × Body) : List Char := predC hb.1 ++ ' ' :: '<' :: '-' :: ' ' :: bodyC hb.2

def checkS (kb : CKind × List Body) : List Char :=
  match kb.2 with
  | b :: bs => ckindC kb.1 ++ ' ' :: (bodyC b ++ tailBodiesC bs)
  | [] => []

def policyS (kb : PKind × List Body) : List Char :=
  match kb.2 with
  | b :: bs => pkindC kb.1 ++ ' ' :: (bodyC b ++ tailBodiesC bs)
  | [] => []

theorem factsC_section (fs : List SPred) : factsC fs = sectionC predC fs := rfl

theorem rulesC_section (rs : List (SPred × Body)) : rulesC rs = sectionC ruleS rs := by
  simp only [rulesC, sectionC]
  apply flatMap_congr_memB
  intro x _
  simp only [ruleStmtC, ruleS, List.append_assoc, List.cons_append]

theorem checksC_section {dateP} (cs : List (CKind × List Body)) (hw : ∀ c ∈ cs, WfCheck dateP c) :
    checksC cs = sectionC checkS cs := by
  simp only [checksC, sectionC]
  apply flatMap_congr_memB
  intro kb hkb
  obtain ⟨k, bl⟩ := kb
  cases bl with
  | nil => exact absurd rfl (hw _ hkb).nonempty
  | cons b bs => simp only [checkStmtC, checkS, List.append_assoc, List.cons_append]

theorem policiesC_section {dateP} (cs : List (PKind × List Body)) (hw : ∀ c ∈ cs, WfPolicy dateP c) :
    policiesC cs = sectionC policyS cs := by
  simp only [policiesC, sectionC]
  apply flatMap_congr_memB
  intro kb hkb
  obtain ⟨k, bl⟩ := kb
  cases bl with
  | nil => exact absurd rfl (hw _ hkb).nonempty
  | cons b bs => simp only [policyStmtC, policyS, List.append_assoc, List.cons_append]

theorem fact_ok {dateP} (hd : DateShape dateP) (wp : Bool) (fuel : Nat) (f : SPred)
    (hw : wfPred dateP f = true ∧ needL f.terms + 2 ≤ fuel) : StmtOK dateP wp fuel predC Elem.fact f :=
  ⟨fun Z => element_fact hd wp f Z fuel hw.1 hw.2, predC_head f (wfPredAny_of_wfPred f hw.1)⟩

theorem rule_ok {dateP} (hd : DateShape dateP) (wp : Bool) (fuel : Nat) (r : SPred × Body)
    (hw : WfRule dateP r ∧ needVs r.1.terms + needBody r.2 ≤ fuel) :
    StmtOK dateP wp fuel ruleS (fun x => Elem.rule x.1 x.2) r := by
  refine ⟨fun Z => ?_, ?_⟩
  · have := element_rule hd wp r.1 r.2 Z fuel hw.1.head hw.1.body hw.1.vars hw.2
    simpa only [ruleS, List.append_assoc, List.cons_append] using this
  · obtain ⟨c, tl, hc, hsp⟩ := predC_head r.1 hw.1.head
    exact ⟨c, _, by simp only [ruleS, hc, List.cons_append]; rfl, hsp⟩

theorem check_ok {dateP} (hd : DateShape dateP) (wp : Bool) (fuel : Nat) (c : CKind × List Body)
    (hw : WfCheck dateP c ∧ needBodies c.2 ≤ fuel) :
    StmtOK dateP wp fuel checkS (fun x => Elem.check x.1 x.2) c := by
  obtain ⟨k, bl⟩ := c
  cases bl with
  | nil => exact absurd rfl hw.1.nonempty
  | cons b bs =>
    refine ⟨fun Z => ?_, ?_⟩
    · have := element_check hd wp k b bs Z fuel hw.1.bodies hw.2
      simpa only [checkS, List.append_assoc, List.cons_append] using this
    · cases k <;> exact ⟨_, _, by simp only [checkS, ckindC, List.cons_append]; rfl, by decide⟩

theorem policy_ok {dateP} (hd : DateShape dateP) (fuel : Nat) (c : PKind × List Body)
    (hw : WfPolicy dateP c ∧ needBodies c.2 ≤ fuel) :
    StmtOK dateP true fuel policyS (fun x => Elem.policy x.1 x.2) c := by
  obtain ⟨k, bl⟩ := c
  cases bl with
  | nil => exact absurd rfl hw.1.nonempty
  | cons b bs =>
    refine ⟨fun Z => ?_, ?_⟩
    · have := element_policy hd k b bs Z fuel hw.1.bodies hw.2
      simpa only [policyS, List.append_assoc, List.cons_append] using this
    · cases k <;> exact ⟨_, _, by simp only [policyS, pkindC, List.cons_append]; rfl, by decide⟩

/-- the text `dump_code` writes: facts, rules, checks, policies; a blank line after each of the
    first three sections that is not empty -/
def sourceC (src : Source) : List Char :=
  factsC src.facts ++ (gap (!src.facts.isEmpty) ++ (rulesC src.rules ++ (gap (!src.rules.isEmpty) ++
    (checksC src.checks ++ (gap (!src.checks.isEmpty) ++ (policiesC src.policies ++ []))))))

structure WfAuthorizer (dateP : List Char → Option Nat) (fuel : Nat) (src : Source) : Prop where
  noscopes : src.scopes = []
  facts : ∀ f ∈ src.facts, wfPred dateP f = true ∧ needL f.terms + 2 ≤ fuel
  rules : ∀ r ∈ src.rules, WfRule dateP r ∧ needVs r.1.terms + needBody r.2 ≤ fuel
  checks : ∀ c ∈ src.checks, WfCheck dateP c ∧ needBodies c.2 ≤ fuel
  policies : ∀ c ∈ src.policies, WfPolicy dateP c ∧ needBodies c.2 ≤ fuel

theorem ne_or_gap {α : Type} (l : List α) : l ≠ [] ∨ (!l.isEmpty) = false := by
  cases l with
  | nil => right; rfl
  | cons a b => left; simp

theorem clean_section_gap {α : Type} {dateP} {wp : Bool} {fuel : Nat} {stmt : α → List Char} {el : α → Elem}
    (xs : List α) (T : List Char) (hw : ∀ x ∈ xs, StmtOK dateP wp fuel stmt el x) (hT : Clean T) :
    Clean (sectionC stmt xs ++ (gap (!xs.isEmpty) ++ T)) := by
  cases xs with
  | nil => simpa [sectionC, gap] using hT
  | cons y ys =>
    obtain ⟨c', tl', hc', hsp'⟩ := (hw y List.mem_cons_self).head
    simp only [sectionC, List.flatMap_cons, List.append_assoc, hc', List.cons_append]
    exact clean_head _ hsp'

/-- **C14, authorizers.** The model of `parse_source`, run on the text `dump_code` writes for an
    authorizer of the grammar (facts, rules, checks, policies, a blank line between sections),
    returns its facts, rules, checks and policies, in order. -/
theorem source_round_trip {dateP} (hd : DateShape dateP) (fuel n : Nat) (src : Source) (hw : WfAuthorizer dateP fuel src)
    (hn : src.facts.length + src.rules.length + src.checks.length + src.policies.length + 1 ≤ n) :
    pElements dateP true fuel n (sourceC src) ⟨[], [], [], [], []⟩ = some src := by
  obtain ⟨m, rfl⟩ : ∃ m, n = ((((m + 1) + src.policies.length) + src.checks.length) + src.rules.length) + src.facts.length :=
    ⟨n - src.facts.length - src.rules.length - src.checks.length - src.policies.length - 1, by omega⟩
  have okF := fun f hf => fact_ok hd true fuel f (hw.facts f hf)
  have okR := fun r hr => rule_ok hd true fuel r (hw.rules r hr)
  have okC := fun c hc => check_ok hd true fuel c (hw.checks c hc)
  have okP := fun c hc => policy_ok hd fuel c (hw.policies c hc)
  have eC := checksC_section src.checks (fun c hc => (hw.checks c hc).1)
  have eP := policiesC_section src.policies (fun c hc => (hw.policies c hc).1)
  have h4 : Clean (sectionC policyS src.policies ++ (gap false ++ [])) := by
    have := clean_policies src.policies [] (fun c hc => (hw.policies c hc).1) clean_nil
    rw [eP] at this; simpa [gap] using this
  have h3 := clean_section_gap src.checks _ okC h4
  have h2 := clean_section_gap src.rules _ okR h3
  have hsc := hw.noscopes
  unfold sourceC
  rw [factsC_section, rulesC_section, eC, eP]
  have e0 : sectionC policyS src.policies ++ [] = sectionC policyS src.policies ++ (gap false ++ []) := by simp [gap]
  rw [e0, section_loop true fuel predC Elem.fact src.facts _ _ _ _ okF h2 (ne_or_gap _),
    section_loop true fuel ruleS _ src.rules _ _ _ _ okR h3 (ne_or_gap _),
    section_loop true fuel checkS _ src.checks _ _ _ _ okC h4 (ne_or_gap _),
    section_loop true fuel policyS _ src.policies _ _ _ _ okP clean_nil (.inr rfl), pElements_nil,
    foldl_add_fact, foldl_add_rule, foldl_add_check, foldl_add_policy]
  cases src
  simp only at hsc
  subst hsc
  simp

/-- `parse_source` with the driver's fuel is the loop the theorem speaks of -/
theorem parseSource_eq {dateP} (s : List Char) :
    parseSource dateP s = pElements dateP true (fuelOf s) (s.length + 2) s ⟨[], [], [], [], []⟩ := rfl

/-! ## the text above is what the printer model writes for an authorizer -/

def toSPolicy (k : PKind) (bs : List Body) : SPolicy := ⟨k, bs.map (toSRule ⟨"query", []⟩)⟩

theorem printPolicy_eq {dateP} (k : PKind) (b : Body) (bs : List Body) (hw : ∀ y ∈ b :: bs, WfBody dateP y) :
    (printPolicy (toSPolicy k (b :: bs))).toList = pkindC k ++ ' ' :: (bodyC b ++ tailBodiesC bs) := by
  have hb : (((b :: bs).map (toSRule ⟨"query", []⟩)).map printBody).map String.toList = (b :: bs).map bodyC := by
    rw [List.map_map, List.map_map]
    apply List.map_congr_left
    intro y hy
    exact printBody_eq_bodyC _ y (hw y hy)
  unfold printPolicy toSPolicy
  simp only [String.toList_append, joinWith_or_toList]
  simp only [List.map_cons] at hb ⊢
  simp only [List.cons.injEq] at hb
  rw [hb.1, hb.2, tailBodiesC_eq]
  cases k <;> rfl

def toSAuthorizer (src : Source) : SAuthorizer :=
  ⟨src.facts, src.rules.map fun hb => toSRule hb.1 hb.2, src.checks.map fun kb => toSCheck kb.1 kb.2,
   src.policies.map fun kb => toSPolicy kb.1 kb.2⟩

theorem gap_toList (b : Bool) : (if b = true then "" else "\n").toList = gap (!b) := by
  cases b <;> rfl

/-- on well-formed authorizers the printer model's `printAuthorizer` writes `sourceC` -/
theorem printAuthorizer_eq_sourceC {dateP} (fuel : Nat) (src : Source) (hw : WfAuthorizer dateP fuel src) :
    (printAuthorizer (toSAuthorizer src)).toList = sourceC src := by
  have hfacts : (src.facts.map fun f => printPred f ++ ";\n").flatMap String.toList = factsC src.facts := by
    simp only [factsC, List.flatMap_map]
    apply flatMap_congr_memB
    intro f _
    simp only [String.toList_append, printPred_eq_predC]; rfl
  have hrules : ((src.rules.map fun hb => toSRule hb.1 hb.2).map fun r => printRule r ++ ";\n").flatMap String.toList =
      rulesC src.rules := by
    simp only [rulesC, List.flatMap_map]
    apply flatMap_congr_memB
    intro hb hmem
    simp only [String.toList_append, printRule_eq hb.1 hb.2 (hw.rules hb hmem).1.body, ruleStmtC, List.append_assoc,
      List.cons_append]
    rfl
  have hchecks : ((src.checks.map fun kb => toSCheck kb.1 kb.2).map fun c => printCheck c ++ ";\n").flatMap String.toList =
      checksC src.checks := by
    simp only [checksC, List.flatMap_map]
    apply flatMap_congr_memB
    intro kb hmem
    obtain ⟨k, bl⟩ := kb
    have hwc := (hw.checks (k, bl) hmem).1
    cases bl with
    | nil => exact absurd rfl hwc.nonempty
    | cons b bs =>
      simp only [String.toList_append, printCheck_eq k b bs hwc.bodies, checkStmtC, List.append_assoc, List.cons_append]
      rfl
  have hpols : ((src.policies.map fun kb => toSPolicy kb.1 kb.2).map fun c => printPolicy c ++ ";\n").flatMap String.toList =
      policiesC src.policies := by
    simp only [policiesC, List.flatMap_map]
    apply flatMap_congr_memB
    intro kb hmem
    obtain ⟨k, bl⟩ := kb
    have hwc := (hw.policies (k, bl) hmem).1
    cases bl with
    | nil => exact absurd rfl hwc.nonempty
    | cons b bs =>
      simp only [String.toList_append, printPolicy_eq k b bs hwc.bodies, policyStmtC, List.append_assoc, List.cons_append]
      rfl
  unfold printAuthorizer toSAuthorizer sourceC
  simp only [String.toList_append, String.toList_join, hfacts, hrules, hchecks, hpols, gap_toList, List.isEmpty_map,
    List.append_assoc, List.append_nil]

/-! ## non-vacuity -/

def exAuthorizer : Source :=
  ⟨[], [⟨"time", [.int 1700000000]⟩, ⟨"allow", [.int 1]⟩],
   [],
   [(.all, [exBody2])],
   [(.allow, [exBody1, exBody2]), (.deny, [⟨[], [.val (.bool true)], []⟩])]⟩

theorem exAuthorizer_wf : WfAuthorizer (fun _ => none) 1000 exAuthorizer := by
  refine ⟨rfl, by decide, fun r hr => by simp [exAuthorizer] at hr, ?_, ?_⟩
  · intro c hc
    simp only [exAuthorizer, List.mem_cons, List.mem_nil_iff, or_false] at hc
    subst hc
    refine ⟨⟨by simp, ?_⟩, by decide⟩
    intro y hy
    simp only [List.mem_cons, List.mem_nil_iff, or_false] at hy
    subst hy
    exact exBody2_wf
  · intro c hc
    simp only [exAuthorizer, List.mem_cons, List.mem_nil_iff, or_false] at hc
    rcases hc with rfl | rfl
    · refine ⟨⟨by simp, ?_⟩, by decide⟩
      intro y hy
      simp only [List.mem_cons, List.mem_nil_iff, or_false] at hy
      rcases hy with rfl | rfl
      · exact exBody1_wf
      · exact exBody2_wf
    · refine ⟨⟨by simp, ?_⟩, by decide⟩
      intro y hy
      simp only [List.mem_cons, List.mem_nil_iff, or_false] at hy
      subst hy
      exact ⟨by decide, by decide, fun sc h => by simp at h⟩

/-- an authorizer with a fact called `allow`, no rules (so no blank line for them), a check and
    two policies comes back -/
example : pElements (fun _ => none) true 1000 20 (sourceC exAuthorizer) ⟨[], [], [], [], []⟩ = some exAuthorizer :=
  source_round_trip dateShape_none 1000 20 exAuthorizer exAuthorizer_wf (by decide)

end Biscuit.BlockParser
