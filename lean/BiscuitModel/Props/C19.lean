/-
  C19 — the C API mirrors the Rust API and never aborts.

  What the model carries (the handle and buffer protocol):
    * `update_keeps_handle`, `adds_never_abort` : whatever sequence of additions — accepted or
      refused — is applied to a builder handle, the handle keeps a builder and no call aborts;
    * `null_handle_is_error` : a null handle is an error, not an abort;
    * `serialize_writes_announced`, `serialize_sealed_writes_announced` : a buffer of the
      announced size receives exactly the announced number of bytes, sealed or not;
    * `sealed_size_exceeds_unsealed` : with a 32-byte key and a 64-byte signature the sealed token
      is 32 bytes longer — why announcing the unsealed size for the sealed serialization aborted;
    * `public_key_33_bytes_aborts` : the witness of the known finding — a 33-byte secp256r1 key
      does not fit the documented 32-byte buffer.
  That every C function returns what the Rust operation returns is a differential statement
  about two pieces of code; it is decided by the stream `capi`.
-/
import BiscuitModel.Model.CApi
set_option linter.unusedSimpArgs false
namespace Biscuit.CApi
open Biscuit Biscuit.Wire

theorem update_keeps_handle {β ε : Type} (h : Handle β) (op : β → Except ε β) (hs : h.slot.isSome) :
    (h.update op).1.slot.isSome ∧ (h.update op).2 ≠ .abort := by
  unfold Handle.update
  cases hb : h.slot with
  | none => rw [hb] at hs; exact absurd hs (by simp)
  | some b =>
    simp only
    cases hop : op b <;> simp

/-- C19: no sequence of additions, accepted or refused, empties the handle or aborts -/
theorem adds_never_abort {β ε : Type} (ops : List (β → Except ε β)) (h : Handle β) (hs : h.slot.isSome) :
    (runAdds h ops).1.slot.isSome ∧ Outcome.abort ∉ (runAdds h ops).2 := by
  induction ops generalizing h with
  | nil => simp [runAdds, hs]
  | cons op ops ih =>
    have h1 := update_keeps_handle h op hs
    have h2 := ih (h.update op).1 h1.1
    simp only [runAdds]
    refine ⟨h2.1, ?_⟩
    simp only [List.mem_cons, not_or]
    exact ⟨fun e => h1.2 e.symm, h2.2⟩

theorem null_handle_is_error {β ε : Type} (op : β → Except ε β) : (callAdd (none : Option (Handle β)) op).2 = .error := rfl

/-- a refused addition changes nothing -/
theorem refused_add_keeps_builder {β ε : Type} (b : β) (op : β → Except ε β) (e : ε) (h : op b = .error e) :
    ((⟨some b⟩ : Handle β).update op).1.slot = some b := by
  simp [Handle.update, h]

example : (runAdds (⟨some 0⟩ : Handle Nat) [fun n => .ok (n + 1), fun _ => (.error "parse" : Except String Nat), fun n => .ok (n + 2)]).1.slot = some 3 := by
  rfl

theorem serialize_writes_announced (c : Container) :
    copyInto (serializedSize c) (unsealedBytes c) = (.value, serializedSize c) := by
  simp [copyInto, serializedSize]

theorem serialize_sealed_writes_announced (c : Container) (sig : Bytes) :
    copyInto (sealedSize c sig) (sealedBytes c sig) = (.value, sealedSize c sig) := by
  simp [copyInto, sealedSize]

/-- announcing any other size aborts: `copy_from_slice` panics on a length mismatch -/
theorem wrong_announced_size_aborts (n : Nat) (data : Bytes) (h : data.length ≠ n) : (copyInto n data).1 = .abort := by
  simp [copyInto, h]

theorem varint_length_small (n : Nat) (h : n < 128) : (varint n).length = 1 := by
  simp [varint, varintAux, h]

/-- with a 32-byte next key and a 64-byte signature the sealed token is 32 bytes longer -/
theorem sealed_size_exceeds_unsealed (c : Container) (sk sig : Bytes) (hp : c.proof = .secret sk)
    (hsk : sk.length = 32) (hsig : sig.length = 64) : sealedSize c sig = serializedSize c + 32 := by
  unfold sealedSize serializedSize sealedBytes unsealedBytes encContainer
  simp only [hp, encProof, fBytes, List.length_append, hsk, hsig]
  have k1 : (key Gen.Field.proof_nextSecret 2).length = 1 := by decide
  have k2 : (key Gen.Field.proof_finalSignature 2).length = 1 := by decide
  rw [k1, k2, varint_length_small 32 (by omega), varint_length_small 64 (by omega)]
  rw [varint_length_small (1 + 1 + 32) (by omega), varint_length_small (1 + 1 + 64) (by omega)]
  omega

/-- the known finding: a compressed secp256r1 key has 33 bytes, the documented buffer 32 -/
theorem public_key_33_bytes_aborts (k : Bytes) (h : k.length = 33) : (copyInto keyBuffer k).1 = .abort := by
  simp [copyInto, keyBuffer, h]

theorem public_key_32_bytes_fits (k : Bytes) (h : k.length = 32) : copyInto keyBuffer k = (.value, 32) := by
  simp [copyInto, keyBuffer, h]

end Biscuit.CApi
