/-
  C14 — rule bodies, rules, checks and policies: the parsers invert the printer.
-/
import BiscuitModel.Model.RuleParser
import BiscuitModel.Props.C14Expr
set_option linter.unusedSimpArgs false
set_option linter.unusedVariables false
namespace Biscuit.RuleParser
open Biscuit.Printer Biscuit.TermParser Biscuit.ExprParser

/-! ## predicates (variables allowed) -/

def wfVs (dateP : List Char → Option Nat) : List STerm → Bool
  | [] => true
  | t :: ts => wfV dateP t && wfVs dateP ts

def needVs : List STerm → Nat
  | [] => 2
  | t :: ts => max (needT t + 1) (needVs ts) + 1

def wfPredAny (dateP : List Char → Option Nat) (p : SPred) : Bool :=
  validNameL p.name.toList && !p.terms.isEmpty && wfVs dateP p.terms

theorem endsForV_cont (t : STerm) (Y : List Char) (h : Cont Y) : EndsForV t Y := by
  have he := h.ends
  cases t <;> simp only [EndsForV, EndsFor] <;>
    first | exact he | exact (fun c hc => (he c hc).2.1) | exact (fun c hc => (he c hc).2.2.1) | trivial

theorem anyTail_rt {dateP} (hd : DateShape dateP) : ∀ (ts : List STerm) (fuel : Nat) (rest : List Char),
    wfVs dateP ts = true → Close rest → needVs ts ≤ fuel → pAnyTail dateP fuel (tailC ts ++ rest) = .ok ts rest := by
  intro ts
  induction ts with
  | nil =>
    intro fuel rest _ hc hf
    simp only [needVs] at hf
    obtain ⟨n, rfl⟩ : ∃ n, fuel = n + 1 := ⟨fuel - 1, by omega⟩
    obtain ⟨c, r, rfl, hcl⟩ := hc
    have hsp : isSpace c = false := by rcases hcl with h | h | h <;> subst h <;> decide
    have hne : c ≠ ',' := by rcases hcl with h | h | h <;> subst h <;> decide
    simp only [tailC, List.nil_append, pAnyTail, space0_cons _ hsp]
    split
    · rename_i heq; injection heq with h1 _; exact absurd h1 hne
    · rfl
  | cons t ts ih =>
    intro fuel rest hw hc hf
    simp only [needVs] at hf
    obtain ⟨n, rfl⟩ : ∃ n, fuel = n + 1 := ⟨fuel - 1, by omega⟩
    simp only [wfVs, Bool.and_eq_true] at hw
    have ht := pTermAny_rt hd t (tailC ts ++ rest) n hw.1 (endsForV_cont t _ (cont_tail ts rest hc)) (by omega)
    have hts := ih n rest hw.2 hc (by omega)
    simp only [tailC, List.cons_append, List.append_assoc, pAnyTail, space0_cons _ (show isSpace ',' = false by decide),
      pTermAny_blank, ht, hts]

theorem anyTerms_rt {dateP} (hd : DateShape dateP) (t : STerm) (ts : List STerm) (fuel : Nat) (rest : List Char)
    (hw : wfVs dateP (t :: ts) = true) (hc : Close rest) (hf : needVs (t :: ts) ≤ fuel) :
    pAnyTerms dateP fuel (termsC (t :: ts) ++ rest) = .ok (t :: ts) rest := by
  simp only [needVs] at hf
  simp only [wfVs, Bool.and_eq_true] at hw
  have ht := pTermAny_rt hd t (tailC ts ++ rest) fuel hw.1 (endsForV_cont t _ (cont_tail ts rest hc)) (by omega)
  have hts := anyTail_rt hd ts fuel rest hw.2 hc (by omega)
  simp only [termsC, List.append_assoc, pAnyTerms, ht, hts]

/-- **a printed predicate is read back by `predicate`**, whatever follows -/
theorem predicate_rt {dateP} (hd : DateShape dateP) (p : SPred) (Y : List Char) (fuel : Nat)
    (hw : wfPredAny dateP p = true) (hf : needVs p.terms ≤ fuel) : pPredicate dateP fuel (predC p ++ Y) = .ok p Y := by
  simp only [wfPredAny, validNameL, Bool.and_eq_true, Bool.not_eq_true', List.isEmpty_eq_false_iff, List.all_eq_true] at hw
  obtain ⟨⟨⟨hne, hall⟩, htne⟩, hwl⟩ := hw
  cases hname : p.name.toList with
  | nil => rw [hname] at hne; exact absurd rfl hne
  | cons c tl =>
    rw [hname] at hall
    have hsp : isSpace c = false := nameChar_not_space (hall c (by simp))
    have htw := takeWhile_append_of_all isNameChar (c :: tl) ('(' :: (termsC p.terms ++ ([')'] ++ Y))) hall
      (fun c h => by simp only [List.head?_cons, Option.some.injEq] at h; subst h; decide)
    cases hts : p.terms with
    | nil => exact absurd hts htne
    | cons t ts =>
      rw [hts] at hwl hf
      have hl := anyTerms_rt hd t ts fuel (')' :: Y) hwl ⟨')', Y, rfl, Or.inr (Or.inr rfl)⟩ hf
      have hp : (⟨String.ofList (c :: tl), t :: ts⟩ : SPred) = p := by
        rw [← hname, String.ofList_toList, ← hts]
      simp only [predC, hname, hts, List.cons_append, List.append_assoc] at htw ⊢
      simp only [pPredicate, space0_cons _ hsp, pName, htw.1, htw.2, space0_cons _ (show isSpace '(' = false by decide)]
      simp only [List.nil_append, List.cons_append] at hl ⊢
      simp only [hl, space0_cons _ (show isSpace ')' = false by decide), hp]

/-! ## an expression is not read as a predicate -/

/-- after the name characters and blanks at the start of `Z` there is no `(` -/
def NoCall (Z : List Char) : Prop := (space0 (Z.dropWhile isNameChar)).head? ≠ some '('

/-- `name` fails on `s`, or what follows the name is not `(` : `predicate` returns `Error` -/
def NotPred (s : List Char) : Prop := s.takeWhile isNameChar = [] ∨ NoCall s

theorem notPred_head {c : Char} (s : List Char) (h : isNameChar c = false) : NotPred (c :: s) := by
  left; simp [List.takeWhile, h]

theorem noCall_append_all (w Z : List Char) (hall : ∀ c ∈ w, isNameChar c = true) (h : NoCall Z) : NoCall (w ++ Z) := by
  unfold NoCall at *
  induction w with
  | nil => simpa using h
  | cons c tl ih =>
    have hc := hall c (by simp)
    simp only [List.cons_append, List.dropWhile_cons, hc, ↓reduceIte]
    exact ih (fun x hx => hall x (by simp [hx]))

theorem noCall_head {c : Char} (s : List Char) (hn : isNameChar c = false) (hs : isSpace c = false) (hp : c ≠ '(') :
    NoCall (c :: s) := by
  unfold NoCall
  simp only [List.dropWhile_cons, hn, Bool.false_eq_true, ↓reduceIte, space0_cons _ hs, List.head?_cons, ne_eq,
    Option.some.injEq]
  exact hp

theorem digit_nameChar {c : Char} (h : Char.isDigit c = true) : isNameChar c = true := by
  have hr : 48 ≤ c.val.toNat ∧ c.val.toNat ≤ 57 := by
    simp only [Char.isDigit, Bool.and_eq_true, decide_eq_true_eq] at h
    exact ⟨UInt32.le_iff_toNat_le.mp h.1, UInt32.le_iff_toNat_le.mp h.2⟩
  have : lowByte c = c.val.toNat := by simp only [lowByte, Char.toNat]; omega
  simp only [isNameChar, this, isDigitB, Bool.or_eq_true, Bool.and_eq_true, decide_eq_true_eq]
  exact .inl (.inl (.inr ⟨hr.1, hr.2⟩))

theorem notPred_val {dateP} (t : STerm) (Z : List Char) (hw : wfV dateP t = true) (hZ : NoCall Z) :
    NotPred (termC t ++ Z) := by
  cases t with
  | var n => simp only [termC, List.cons_append]; exact notPred_head _ (by decide)
  | str s => simp only [termC, printStringChars, List.cons_append]; exact notPred_head _ (by decide)
  | param n => simp only [termC, List.cons_append]; exact notPred_head _ (by decide)
  | arr xs => simp only [termC, List.cons_append]; exact notPred_head _ (by decide)
  | map kvs => simp only [termC, List.cons_append]; exact notPred_head _ (by decide)
  | set xs =>
    by_cases he : xs.isEmpty = true
    · simp only [termC, he, ↓reduceIte, List.cons_append]; exact notPred_head _ (by decide)
    · simp only [termC, he, Bool.false_eq_true, ↓reduceIte, List.cons_append]; exact notPred_head _ (by decide)
  | null => right; exact noCall_append_all _ Z (by simp only [termC]; decide) hZ
  | bool b =>
    right
    cases b
    · exact noCall_append_all _ Z (by simp only [termC, Bool.false_eq_true, ↓reduceIte]; decide) hZ
    · exact noCall_append_all _ Z (by simp only [termC, ↓reduceIte]; decide) hZ
  | bytes b =>
    right
    refine noCall_append_all _ Z ?_ hZ
    intro c hc
    simp only [termC, List.cons_append, List.nil_append, List.mem_cons] at hc
    rcases hc with h | h | h | h | h
    · subst h; decide
    · subst h; decide
    · subst h; decide
    · subst h; decide
    · exact (hexEncode_tok b c h).2
  | int i =>
    by_cases hneg : i < 0
    · have : termC (.int i) = '-' :: printNatChars (-i).toNat := by simp [termC, printIntChars, hneg]
      rw [this, List.cons_append]; exact notPred_head _ (by decide)
    · right
      have : termC (.int i) = Nat.toDigits 10 i.toNat := by simp [termC, printIntChars, printNatChars, hneg]
      rw [this]
      exact noCall_append_all _ Z (fun c hc => digit_nameChar (toDigits_all_digit _ c hc)) hZ
  | date d =>
    right
    have hw' : wfT dateP .fact (.date d) = true := hw
    simp only [wfT, dateOK, Bool.and_eq_true, beq_iff_eq] at hw'
    obtain ⟨_, hdash⟩ := hw'
    simp only [termC]
    have hsplit : (printDate d).toList = (printDate d).toList.takeWhile Char.isDigit ++ (printDate d).toList.dropWhile Char.isDigit :=
      (List.takeWhile_append_dropWhile).symm
    cases hdw : (printDate d).toList.dropWhile Char.isDigit with
    | nil => rw [hdw] at hdash; cases hdash
    | cons m tl =>
      rw [hdw] at hdash hsplit
      simp only [List.head?_cons, Option.some.injEq] at hdash
      subst hdash
      rw [hsplit, List.append_assoc]
      apply noCall_append_all _ _ (fun c hc => digit_nameChar (mem_takeWhile_sat _ _ c hc))
      simp only [List.cons_append]
      exact noCall_head _ (by decide) (by decide) (by decide)

theorem notPred_expr {dateP} : ∀ e : ETree, wfE dateP e = true → ∀ Z, NoCall Z → NotPred (showC e ++ Z) := by
  intro e
  induction e with
  | val t => intro hw Z hZ; exact notPred_val t Z hw hZ
  | clo ps body ih => intro hw; simp [wfE] at hw
  | un u a ih =>
    intro hw Z hZ
    cases u with
    | negate => simp only [showC, List.cons_append]; exact notPred_head _ (by decide)
    | parens => simp only [showC, List.cons_append]; exact notPred_head _ (by decide)
    | length =>
      simp only [wfE, Bool.and_eq_true] at hw
      simp only [showC, List.append_assoc]
      exact ih hw.1.1 _ (noCall_head _ (by decide) (by decide) (by decide))
    | typeOf =>
      simp only [wfE, Bool.and_eq_true] at hw
      simp only [showC, List.append_assoc]
      exact ih hw.1.1 _ (noCall_head _ (by decide) (by decide) (by decide))
    | ffi f =>
      simp only [wfE, Bool.and_eq_true] at hw
      simp only [showC, List.append_assoc]
      exact ih hw.1.1.1 _ (noCall_head _ (by decide) (by decide) (by decide))
  | bin b l r ihl ihr =>
    intro hw Z hZ
    cases hb : infixOf b with
    | some p =>
      obtain ⟨j, sym⟩ := p
      have hwl : wfE dateP l = true := by
        by_cases hz : isLazy b = true
        · obtain ⟨body, _, hwl, _⟩ := wfE_lazy hb hz hw; exact hwl
        · have hz' : isLazy b = false := by cases h : isLazy b <;> simp_all
          by_cases hj2 : j = 2
          · subst hj2; exact (wfE_cmp hb hw).1
          · exact (wfE_infix hb hz' hj2 hw).1
      obtain ⟨c, tl, hs, hsp⟩ := infix_sym_head hb
      have hc : c ≠ '(' := by
        cases b <;> simp only [infixOf, Option.some.injEq, Prod.mk.injEq, reduceCtorEq] at hb <;>
          obtain ⟨rfl, rfl⟩ := hb <;> injection hs with h1 _ <;> subst h1 <;> decide
      simp only [showC, hb, List.append_assoc, List.cons_append]
      apply ihl hwl
      unfold NoCall
      simp only [List.dropWhile_cons, show isNameChar ' ' = false by decide, Bool.false_eq_true, ↓reduceIte, space0_blank, hs,
        List.cons_append, space0_cons _ hsp, List.head?_cons, ne_eq, Option.some.injEq]
      exact hc
    | none =>
      obtain ⟨m, hm, hwl, _⟩ := wfE_method hb hw
      simp only [showC, hb, hm, List.append_assoc, List.cons_append]
      exact ihl hwl _ (noCall_head _ (by decide) (by decide) (by decide))

theorem pPredicate_err_of_notPred {dateP} (fuel : Nat) (s : List Char) (hsp : space0 s = s) (h : NotPred s) :
    pPredicate dateP fuel s = .err := by
  unfold pPredicate pName
  rw [hsp]
  rcases h with h | h
  · simp only [h]
  · cases htw : s.takeWhile isNameChar with
    | nil => rfl
    | cons c tl =>
      simp only
      unfold NoCall at h
      split
      · rename_i r1 heq
        exact absurd (by rw [heq]; rfl) h
      · rfl

/-! ## elements of a body -/

def elemC : SPred ⊕ ETree → List Char
  | .inl p => predC p
  | .inr e => showC e

def wfElem (dateP : List Char → Option Nat) : SPred ⊕ ETree → Bool
  | .inl p => wfPredAny dateP p
  | .inr e => wfE dateP e

def needElem : SPred ⊕ ETree → Nat
  | .inl p => needVs p.terms
  | .inr e => needE e + 40

/-- what may follow an element of a body: it ends an expression of any level, is not a call, and
    (for the last element) is not a `,` -/
structure ElemEnd (X : List Char) : Prop where
  stops : Stops 0 X
  nocall : NoCall X

theorem elemEnd_comma (Z : List Char) : ElemEnd (',' :: Z) := by
  refine ⟨⟨?_, .inr (.inl ⟨',', Z, space0_cons _ (by decide), by decide⟩)⟩, noCall_head _ (by decide) (by decide) (by decide)⟩
  intro c hc
  simp only [List.head?_cons, Option.some.injEq] at hc
  subst hc; exact .inr (.inr (.inl rfl))

theorem predC_head {dateP} (p : SPred) (hw : wfPredAny dateP p = true) :
    ∃ c tl, predC p = c :: tl ∧ isSpace c = false := by
  simp only [wfPredAny, validNameL, Bool.and_eq_true, Bool.not_eq_true', List.isEmpty_eq_false_iff, List.all_eq_true] at hw
  cases hname : p.name.toList with
  | nil => rw [hname] at hw; exact absurd rfl hw.1.1.1
  | cons c tl =>
    rw [hname] at hw
    exact ⟨c, tl ++ ('(' :: (termsC p.terms ++ [')'])), by simp [predC, hname], nameChar_not_space (hw.1.1.2 c (by simp))⟩

theorem elemC_head {dateP} (x : SPred ⊕ ETree) (hw : wfElem dateP x = true) :
    ∃ c tl, elemC x = c :: tl ∧ isSpace c = false := by
  cases x with
  | inl p => exact predC_head p hw
  | inr e => obtain ⟨c, tl, hs, hsp, _⟩ := showC_head e hw; exact ⟨c, tl, hs, hsp⟩

/-- **an element of a body is read back** -/
theorem elem_rt {dateP} (hd : DateShape dateP) (x : SPred ⊕ ETree) (X : List Char) (fuel : Nat)
    (hw : wfElem dateP x = true) (hX : ElemEnd X) (hf : needElem x ≤ fuel) :
    pElem dateP fuel (elemC x ++ X) = .ok x X := by
  cases x with
  | inl p => simp only [elemC, pElem, predicate_rt hd p X fuel hw hf]
  | inr e =>
    obtain ⟨c, tl, hs, hsp, _⟩ := showC_head e hw
    have hsp0 : space0 (showC e ++ X) = showC e ++ X := by rw [hs]; exact space0_cons _ hsp
    have hnp := pPredicate_err_of_notPred (dateP := dateP) fuel _ hsp0 (notPred_expr e hw X hX.nocall)
    have hex := expr_round_trip_fuel hd e X hw hX.stops (fun _ => hX.stops.mono (by omega)) fuel hf
    simp only [elemC, pElem, hnp, hex]

def tailElemsC : List (SPred ⊕ ETree) → List Char
  | [] => []
  | x :: xs => ',' :: ' ' :: (elemC x ++ tailElemsC xs)

def needElems : List (SPred ⊕ ETree) → Nat
  | [] => 2
  | x :: xs => max (needElem x) (needElems xs) + 1

theorem elemEnd_tail (xs : List (SPred ⊕ ETree)) (X : List Char) (hX : ElemEnd X) : ElemEnd (tailElemsC xs ++ X) := by
  cases xs with
  | nil => simpa [tailElemsC] using hX
  | cons x xs => simp only [tailElemsC, List.cons_append]; exact elemEnd_comma _

theorem elemTail_rt {dateP} (hd : DateShape dateP) : ∀ (xs : List (SPred ⊕ ETree)) (fuel : Nat) (X : List Char),
    (∀ x ∈ xs, wfElem dateP x = true) → ElemEnd X → (space0 X).head? ≠ some ',' → needElems xs ≤ fuel →
    pElemTail dateP fuel (tailElemsC xs ++ X) = .ok xs X := by
  intro xs
  induction xs with
  | nil =>
    intro fuel X _ hX hc hf
    simp only [needElems] at hf
    obtain ⟨n, rfl⟩ : ∃ n, fuel = n + 1 := ⟨fuel - 1, by omega⟩
    simp only [tailElemsC, List.nil_append, pElemTail]
    split
    · rename_i s1 heq; exact absurd (by rw [heq]; rfl) hc
    · rfl
  | cons x xs ih =>
    intro fuel X hw hX hc hf
    simp only [needElems] at hf
    obtain ⟨n, rfl⟩ : ∃ n, fuel = n + 1 := ⟨fuel - 1, by omega⟩
    have hwx := hw x List.mem_cons_self
    obtain ⟨c, tl, hs, hsp⟩ := elemC_head x hwx
    have hsp0 : space0 (' ' :: (elemC x ++ (tailElemsC xs ++ X))) = elemC x ++ (tailElemsC xs ++ X) := by
      rw [space0_blank, hs]; exact space0_cons _ hsp
    have hx := elem_rt hd x (tailElemsC xs ++ X) n hwx (elemEnd_tail xs X hX) (by omega)
    have hxs := ih n X (fun y hy => hw y (List.mem_cons_of_mem _ hy)) hX hc (by omega)
    simp only [tailElemsC, List.cons_append, List.append_assoc, pElemTail, space0_cons _ (show isSpace ',' = false by decide),
      hsp0, hx, hxs]

/-! ## scopes -/

def scopeC : SScope → List Char
  | .authority => ['a', 'u', 't', 'h', 'o', 'r', 'i', 't', 'y']
  | .previous => ['p', 'r', 'e', 'v', 'i', 'o', 'u', 's']
  | .key k => k.toList
  | .param n => '{' :: (n.toList ++ ['}'])

/-- the scopes the grammar derives: a key is written `ed25519/` or `secp256r1/` and the lower-case
    hex of a non-empty byte string -/
def wfScope : SScope → Prop
  | .authority => True
  | .previous => True
  | .param n => validNameL n.toList = true
  | .key k => ∃ (pre : List Char) (b : List UInt8),
      (pre = ['e', 'd', '2', '5', '5', '1', '9', '/'] ∨ pre = ['s', 'e', 'c', 'p', '2', '5', '6', 'r', '1', '/']) ∧ b ≠ [] ∧ k = String.ofList (pre ++ hexEncode b)

theorem pHexT_rt (b : List UInt8) (Y : List Char) (hb : b ≠ []) (hY : ∀ c, Y.head? = some c → isHexTok c = false) :
    pHexT (hexEncode b ++ Y) = some (b, Y) := by
  have htw := takeWhile_append_of_all isHexTok (hexEncode b) Y (fun c h => (hexEncode_tok b c h).1) hY
  unfold pHexT
  rw [htw.1, htw.2]
  split
  · rename_i h; exact absurd h (hexEncode_ne_nil b hb)
  · simp [decodePairs_hexEncode]

/-- **a printed scope is read back** -/
theorem scope_rt (sc : SScope) (Y : List Char) (hw : wfScope sc) (hY : ∀ c, Y.head? = some c → isHexTok c = false) :
    pScope (scopeC sc ++ Y) = some (sc, Y) := by
  cases sc with
  | authority =>
    have : tag ['a', 'u', 't', 'h', 'o', 'r', 'i', 't', 'y'] (['a', 'u', 't', 'h', 'o', 'r', 'i', 't', 'y'] ++ Y) = some Y := tag_append _ _
    simp only [scopeC, pScope, this]
  | previous =>
    have h1 : tag ['a', 'u', 't', 'h', 'o', 'r', 'i', 't', 'y'] (['p', 'r', 'e', 'v', 'i', 'o', 'u', 's'] ++ Y) = none := by simp [tag, List.isPrefixOf]
    have h2 : tag ['p', 'r', 'e', 'v', 'i', 'o', 'u', 's'] (['p', 'r', 'e', 'v', 'i', 'o', 'u', 's'] ++ Y) = some Y := tag_append _ _
    simp only [scopeC, pScope, h1, h2]
  | param n =>
    have hn : validNameL n.toList = true := hw
    have hp := pName_valid n.toList ('}' :: Y) hn (fun c h => by simp only [List.head?_cons, Option.some.injEq] at h; subst h; decide)
    have h1 : tag ['a', 'u', 't', 'h', 'o', 'r', 'i', 't', 'y'] ('{' :: (n.toList ++ '}' :: Y)) = none := by simp [tag, List.isPrefixOf]
    have h2 : tag ['p', 'r', 'e', 'v', 'i', 'o', 'u', 's'] ('{' :: (n.toList ++ '}' :: Y)) = none := by simp [tag, List.isPrefixOf]
    have h3 : tag ['e', 'd', '2', '5', '5', '1', '9', '/'] ('{' :: (n.toList ++ '}' :: Y)) = none := by simp [tag, List.isPrefixOf]
    have h4 : tag ['s', 'e', 'c', 'p', '2', '5', '6', 'r', '1', '/'] ('{' :: (n.toList ++ '}' :: Y)) = none := by simp [tag, List.isPrefixOf]
    simp only [scopeC, List.cons_append, List.append_assoc, List.nil_append, pScope, h1, h2, h3, h4, hp, String.ofList_toList]
  | key k =>
    obtain ⟨pre, b, hpre, hb, rfl⟩ := hw
    have hx := pHexT_rt b Y hb hY
    rcases hpre with rfl | rfl
    · have h1 : tag ['a', 'u', 't', 'h', 'o', 'r', 'i', 't', 'y'] (['e', 'd', '2', '5', '5', '1', '9', '/'] ++ (hexEncode b ++ Y)) = none := by simp [tag, List.isPrefixOf]
      have h2 : tag ['p', 'r', 'e', 'v', 'i', 'o', 'u', 's'] (['e', 'd', '2', '5', '5', '1', '9', '/'] ++ (hexEncode b ++ Y)) = none := by simp [tag, List.isPrefixOf]
      have h3 : tag ['e', 'd', '2', '5', '5', '1', '9', '/'] (['e', 'd', '2', '5', '5', '1', '9', '/'] ++ (hexEncode b ++ Y)) = some (hexEncode b ++ Y) := tag_append _ _
      simp only [scopeC, String.toList_ofList, List.append_assoc, pScope, h1, h2, h3, hx, Option.map_some]
    · have h1 : tag ['a', 'u', 't', 'h', 'o', 'r', 'i', 't', 'y'] (['s', 'e', 'c', 'p', '2', '5', '6', 'r', '1', '/'] ++ (hexEncode b ++ Y)) = none := by simp [tag, List.isPrefixOf]
      have h2 : tag ['p', 'r', 'e', 'v', 'i', 'o', 'u', 's'] (['s', 'e', 'c', 'p', '2', '5', '6', 'r', '1', '/'] ++ (hexEncode b ++ Y)) = none := by simp [tag, List.isPrefixOf]
      have h3 : tag ['e', 'd', '2', '5', '5', '1', '9', '/'] (['s', 'e', 'c', 'p', '2', '5', '6', 'r', '1', '/'] ++ (hexEncode b ++ Y)) = none := by simp [tag, List.isPrefixOf]
      have h4 : tag ['s', 'e', 'c', 'p', '2', '5', '6', 'r', '1', '/'] (['s', 'e', 'c', 'p', '2', '5', '6', 'r', '1', '/'] ++ (hexEncode b ++ Y)) = some (hexEncode b ++ Y) := tag_append _ _
      simp only [scopeC, String.toList_ofList, List.append_assoc, pScope, h1, h2, h3, h4, hx, Option.map_some]

theorem scopeC_head (sc : SScope) (hw : wfScope sc) : ∃ c tl, scopeC sc = c :: tl ∧ isSpace c = false ∧ c ≠ '(' := by
  cases sc with
  | authority => exact ⟨'a', ['u', 't', 'h', 'o', 'r', 'i', 't', 'y'], rfl, by decide⟩
  | previous => exact ⟨'p', ['r', 'e', 'v', 'i', 'o', 'u', 's'], rfl, by decide⟩
  | param n => exact ⟨'{', n.toList ++ ['}'], rfl, by decide⟩
  | key k =>
    obtain ⟨pre, b, hpre, _, rfl⟩ := hw
    rcases hpre with rfl | rfl
    · exact ⟨'e', ['d', '2', '5', '5', '1', '9', '/'] ++ hexEncode b, by simp [scopeC], by decide⟩
    · exact ⟨'s', ['e', 'c', 'p', '2', '5', '6', 'r', '1', '/'] ++ hexEncode b, by simp [scopeC], by decide⟩

def tailScopesC : List SScope → List Char
  | [] => []
  | sc :: scs => ',' :: ' ' :: (scopeC sc ++ tailScopesC scs)

/-- what may follow a list of scopes (or a body without scopes): no `,`, no hex digit -/
structure ScopesEnd (X : List Char) : Prop where
  nocomma : (space0 X).head? ≠ some ','
  nohex : ∀ c, X.head? = some c → isHexTok c = false

theorem nohex_tailScopes (scs : List SScope) (X : List Char) (hX : ScopesEnd X) :
    ∀ c, (tailScopesC scs ++ X).head? = some c → isHexTok c = false := by
  cases scs with
  | nil => simpa [tailScopesC] using hX.nohex
  | cons sc scs =>
    intro c h
    simp only [tailScopesC, List.cons_append, List.head?_cons, Option.some.injEq] at h
    subst h; decide

theorem scopeTail_rt : ∀ (scs : List SScope) (fuel : Nat) (X : List Char),
    (∀ sc ∈ scs, wfScope sc) → ScopesEnd X → scs.length + 1 ≤ fuel →
    pScopeTail fuel (tailScopesC scs ++ X) = .ok scs X := by
  intro scs
  induction scs with
  | nil =>
    intro fuel X _ hX hf
    obtain ⟨n, rfl⟩ : ∃ n, fuel = n + 1 := ⟨fuel - 1, by simp at hf; omega⟩
    simp only [tailScopesC, List.nil_append, pScopeTail]
    split
    · rename_i s1 heq; exact absurd (by rw [heq]; rfl) hX.nocomma
    · rfl
  | cons sc scs ih =>
    intro fuel X hw hX hf
    simp only [List.length_cons] at hf
    obtain ⟨n, rfl⟩ : ∃ n, fuel = n + 1 := ⟨fuel - 1, by omega⟩
    have hwsc := hw sc List.mem_cons_self
    obtain ⟨c, tl, hs, hsp, _⟩ := scopeC_head sc hwsc
    have hsp0 : space0 (' ' :: (scopeC sc ++ (tailScopesC scs ++ X))) = scopeC sc ++ (tailScopesC scs ++ X) := by
      rw [space0_blank, hs]; exact space0_cons _ hsp
    have h1 := scope_rt sc (tailScopesC scs ++ X) hwsc (nohex_tailScopes scs X hX)
    have h2 := ih n X (fun y hy => hw y (List.mem_cons_of_mem _ hy)) hX (by omega)
    simp only [tailScopesC, List.cons_append, List.append_assoc, pScopeTail, space0_cons _ (show isSpace ',' = false by decide),
      hsp0, h1, h2]

/-- the text of the scopes of a body, as printed: nothing, or ` trusting ` and the list -/
def scopesC : List SScope → List Char
  | [] => []
  | sc :: scs => [' ', 't', 'r', 'u', 's', 't', 'i', 'n', 'g', ' '] ++ (scopeC sc ++ tailScopesC scs)

theorem scopes_rt (scs : List SScope) (fuel : Nat) (X : List Char) (hw : ∀ sc ∈ scs, wfScope sc) (hX : ScopesEnd X)
    (hnt : (tag ['t', 'r', 'u', 's', 't', 'i', 'n', 'g'] (space0 X)).filter keywordEnds = none) (hf : scs.length + 1 ≤ fuel) :
    pScopes fuel (scopesC scs ++ X) = .ok scs X := by
  cases scs with
  | nil => simp only [scopesC, List.nil_append, pScopes, hnt]
  | cons sc scs =>
    have hwsc := hw sc List.mem_cons_self
    obtain ⟨c, tl, hs, hsp, hpar⟩ := scopeC_head sc hwsc
    have hsp0 : space0 (' ' :: (scopeC sc ++ (tailScopesC scs ++ X))) = scopeC sc ++ (tailScopesC scs ++ X) := by
      rw [space0_blank, hs]; exact space0_cons _ hsp
    have hkw : keywordEnds (' ' :: (scopeC sc ++ (tailScopesC scs ++ X))) = true := by
      have hsp1 : space0 (' ' :: c :: (tl ++ (tailScopesC scs ++ X))) = c :: (tl ++ (tailScopesC scs ++ X)) := by
        rw [space0_blank]; exact space0_cons _ hsp
      simp only [keywordEnds, hs, List.cons_append, show isNameChar ' ' = false by decide, Bool.not_false, Bool.true_and, hsp1]
      split
      · rename_i heq; injection heq with h1 _; exact absurd h1 hpar
      · rfl
    have ht : (tag ['t', 'r', 'u', 's', 't', 'i', 'n', 'g'] (space0 ([' ', 't', 'r', 'u', 's', 't', 'i', 'n', 'g', ' '] ++ (scopeC sc ++ tailScopesC scs ++ X)))).filter keywordEnds =
        some (' ' :: (scopeC sc ++ (tailScopesC scs ++ X))) := by
      have : [' ', 't', 'r', 'u', 's', 't', 'i', 'n', 'g', ' '] ++ (scopeC sc ++ tailScopesC scs ++ X) =
          ' ' :: (['t', 'r', 'u', 's', 't', 'i', 'n', 'g'] ++ (' ' :: (scopeC sc ++ (tailScopesC scs ++ X)))) := by
        simp only [List.append_assoc]; rfl
      rw [this, space0_blank]
      have e2 : space0 (['t', 'r', 'u', 's', 't', 'i', 'n', 'g'] ++ (' ' :: (scopeC sc ++ (tailScopesC scs ++ X)))) =
          ['t', 'r', 'u', 's', 't', 'i', 'n', 'g'] ++ (' ' :: (scopeC sc ++ (tailScopesC scs ++ X))) :=
        space0_cons _ (show isSpace 't' = false by decide)
      rw [e2, tag_append ['t', 'r', 'u', 's', 't', 'i', 'n', 'g'] _]
      simp only [Option.filter, hkw, ↓reduceIte]
    have h1 := scope_rt sc (tailScopesC scs ++ X) hwsc (nohex_tailScopes scs X hX)
    simp only [List.length_cons] at hf
    have h2 := scopeTail_rt scs fuel X (fun y hy => hw y (List.mem_cons_of_mem _ hy)) hX (by omega)
    simp only [scopesC, List.append_assoc] at ht ⊢
    simp only [pScopes, ht, hsp0, h1, h2]

/-! ## bodies -/

def elems (b : Body) : List (SPred ⊕ ETree) := b.preds.map Sum.inl ++ b.exprs.map Sum.inr

theorem preds_elems (ps : List SPred) (es : List ETree) : preds (ps.map Sum.inl ++ es.map Sum.inr) = ps := by
  induction ps with
  | nil =>
    induction es with
    | nil => rfl
    | cons e es ih => simpa [preds] using ih
  | cons p ps ih => simpa [preds] using ih

theorem trees_elems (ps : List SPred) (es : List ETree) : trees (ps.map Sum.inl ++ es.map Sum.inr) = es := by
  induction ps with
  | nil =>
    induction es with
    | nil => rfl
    | cons e es ih => simpa [trees] using ih
  | cons p ps ih => simpa [trees] using ih

/-- the text of a body: its predicates, then its expressions, separated by `, `; then the scopes -/
def bodyC (b : Body) : List Char :=
  match elems b with
  | [] => scopesC b.scopes
  | x :: xs => elemC x ++ (tailElemsC xs ++ scopesC b.scopes)

structure WfBody (dateP : List Char → Option Nat) (b : Body) : Prop where
  nonempty : elems b ≠ []
  elems_wf : ∀ x ∈ elems b, wfElem dateP x = true
  scopes_wf : ∀ sc ∈ b.scopes, wfScope sc

def needBody (b : Body) : Nat := needElems (elems b) + b.scopes.length + 2

/-- what may follow a body -/
structure BodyEnd (X : List Char) : Prop where
  elemEnd : ElemEnd X
  scopesEnd : ScopesEnd X
  notrusting : (tag ['t', 'r', 'u', 's', 't', 'i', 'n', 'g'] (space0 X)).filter keywordEnds = none

theorem elemEnd_word {c : Char} (Z : List Char) (ho : opStart c = false) (hs : isSpace c = false) (hp : c ≠ '(') :
    ElemEnd (' ' :: c :: Z) := by
  refine ⟨⟨?_, .inr (.inl ⟨c, Z, by rw [space0_blank]; exact space0_cons _ hs, ho⟩)⟩, ?_⟩
  · intro c' hc'
    simp only [List.head?_cons, Option.some.injEq] at hc'
    subst hc'; exact .inl rfl
  · unfold NoCall
    simp only [List.dropWhile_cons, show isNameChar ' ' = false by decide, Bool.false_eq_true, ↓reduceIte, space0_blank,
      space0_cons _ hs, List.head?_cons, ne_eq, Option.some.injEq]
    exact hp

theorem elemEnd_scopes (scs : List SScope) (X : List Char) (hX : ElemEnd X) : ElemEnd (scopesC scs ++ X) := by
  cases scs with
  | nil => simpa [scopesC] using hX
  | cons sc scs =>
    simp only [scopesC, List.cons_append, List.append_assoc]
    exact elemEnd_word _ (by decide) (by decide) (by decide)

theorem nocomma_scopes (scs : List SScope) (X : List Char) (hX : ScopesEnd X) : (space0 (scopesC scs ++ X)).head? ≠ some ',' := by
  cases scs with
  | nil => simpa [scopesC] using hX.nocomma
  | cons sc scs =>
    simp only [scopesC, List.cons_append, List.append_assoc, space0_blank, space0_cons _ (show isSpace 't' = false by decide)]
    simp

/-- **a printed body is read back by `rule_body`** -/
theorem body_rt {dateP} (hd : DateShape dateP) (b : Body) (X : List Char) (fuel : Nat) (hw : WfBody dateP b)
    (hX : BodyEnd X) (hf : needBody b ≤ fuel) : pBody dateP fuel (bodyC b ++ X) = .ok b X := by
  unfold needBody at hf
  have hpre := preds_elems b.preds b.exprs
  have htre := trees_elems b.preds b.exprs
  have hne := hw.nonempty
  have hwe := hw.elems_wf
  unfold bodyC
  unfold elems at hpre htre hne hwe hf ⊢
  cases hel : b.preds.map Sum.inl ++ b.exprs.map Sum.inr with
  | nil => exact absurd hel hne
  | cons x xs =>
    rw [hel] at hpre htre hwe hf
    simp only [needElems] at hf
    have hwx := hwe x List.mem_cons_self
    obtain ⟨c, tl, hs, hsp⟩ := elemC_head x hwx
    have hsp0 : space0 (elemC x ++ (tailElemsC xs ++ (scopesC b.scopes ++ X))) = elemC x ++ (tailElemsC xs ++ (scopesC b.scopes ++ X)) := by
      rw [hs]; exact space0_cons _ hsp
    have hE := elemEnd_scopes b.scopes X hX.elemEnd
    have h1 := elem_rt hd x (tailElemsC xs ++ (scopesC b.scopes ++ X)) fuel hwx (elemEnd_tail xs _ hE) (by omega)
    have h2 := elemTail_rt hd xs fuel (scopesC b.scopes ++ X) (fun y hy => hwe y (List.mem_cons_of_mem _ hy)) hE
      (nocomma_scopes b.scopes X hX.scopesEnd) (by omega)
    have h3 := scopes_rt b.scopes fuel X hw.scopes_wf hX.scopesEnd hX.notrusting (by omega)
    simp only [List.append_assoc, pBody, hsp0, h1, h2, h3, hpre, htre]

/-! ## alternatives separated by `or` -/

def tailBodiesC : List Body → List Char
  | [] => []
  | b :: bs => ' ' :: 'o' :: 'r' :: ' ' :: (bodyC b ++ tailBodiesC bs)

def needBodies : List Body → Nat
  | [] => 2
  | b :: bs => max (needBody b) (needBodies bs) + 1

/-- what may follow the last alternative: what may follow a body, and no `or` -/
structure ItemEnd (X : List Char) : Prop where
  bodyEnd : BodyEnd X
  noor : tagOr (space0 X) = none

theorem bodyEnd_or (Z : List Char) : BodyEnd (' ' :: 'o' :: 'r' :: ' ' :: Z) := by
  refine ⟨elemEnd_word _ (by decide) (by decide) (by decide), ⟨?_, ?_⟩, ?_⟩
  · simp [space0_blank, space0_cons _ (show isSpace 'o' = false by decide)]
  · intro c h; simp only [List.head?_cons, Option.some.injEq] at h; subst h; decide
  · rw [space0_blank, space0_cons _ (show isSpace 'o' = false by decide)]
    simp [tag, List.isPrefixOf]

theorem bodyEnd_tailBodies (bs : List Body) (X : List Char) (hX : BodyEnd X) : BodyEnd (tailBodiesC bs ++ X) := by
  cases bs with
  | nil => simpa [tailBodiesC] using hX
  | cons b bs => simp only [tailBodiesC, List.cons_append]; exact bodyEnd_or _

theorem bodyC_head {dateP} (b : Body) (hw : WfBody dateP b) : ∃ c tl, bodyC b = c :: tl ∧ isSpace c = false := by
  unfold bodyC
  have hne := hw.nonempty
  cases hel : elems b with
  | nil => exact absurd hel hne
  | cons x xs =>
    obtain ⟨c, tl, hs, hsp⟩ := elemC_head x (hw.elems_wf x (by rw [hel]; exact List.mem_cons_self))
    exact ⟨c, tl ++ (tailElemsC xs ++ scopesC b.scopes), by simp [hs], hsp⟩

theorem bodiesTail_rt {dateP} (hd : DateShape dateP) : ∀ (bs : List Body) (fuel : Nat) (X : List Char),
    (∀ b ∈ bs, WfBody dateP b) → ItemEnd X → needBodies bs ≤ fuel →
    pBodiesTail dateP fuel (tailBodiesC bs ++ X) = .ok bs X := by
  intro bs
  induction bs with
  | nil =>
    intro fuel X _ hX hf
    simp only [needBodies] at hf
    obtain ⟨n, rfl⟩ : ∃ n, fuel = n + 1 := ⟨fuel - 1, by omega⟩
    simp only [tailBodiesC, List.nil_append, pBodiesTail, hX.noor]
  | cons b bs ih =>
    intro fuel X hw hX hf
    simp only [needBodies] at hf
    obtain ⟨n, rfl⟩ : ∃ n, fuel = n + 1 := ⟨fuel - 1, by omega⟩
    have hwb := hw b List.mem_cons_self
    obtain ⟨c, tl, hs, hsp⟩ := bodyC_head b hwb
    have hor : tagOr (space0 (' ' :: 'o' :: 'r' :: ' ' :: (bodyC b ++ (tailBodiesC bs ++ X)))) =
        some (' ' :: (bodyC b ++ (tailBodiesC bs ++ X))) := by
      rw [space0_blank, space0_cons _ (show isSpace 'o' = false by decide)]
      simp [tagOr]
    have hsp0 : space0 (' ' :: (bodyC b ++ (tailBodiesC bs ++ X))) = bodyC b ++ (tailBodiesC bs ++ X) := by
      rw [space0_blank, hs]; exact space0_cons _ hsp
    have h1 := body_rt hd b (tailBodiesC bs ++ X) n hwb (bodyEnd_tailBodies bs X hX.bodyEnd) (by omega)
    have h2 := ih n X (fun y hy => hw y (List.mem_cons_of_mem _ hy)) hX (by omega)
    simp only [tailBodiesC, List.cons_append, List.append_assoc, pBodiesTail, hor, hsp0, h1, h2]

/-- **printed alternatives are read back by `check_body`** -/
theorem checkBody_rt {dateP} (hd : DateShape dateP) (b : Body) (bs : List Body) (fuel : Nat) (X : List Char)
    (hw : ∀ y ∈ b :: bs, WfBody dateP y) (hX : ItemEnd X) (hf : needBodies (b :: bs) ≤ fuel) :
    pCheckBody dateP fuel (' ' :: (bodyC b ++ (tailBodiesC bs ++ X))) = .ok (b :: bs) X := by
  simp only [needBodies] at hf
  have hwb := hw b List.mem_cons_self
  obtain ⟨c, tl, hs, hsp⟩ := bodyC_head b hwb
  have hsp0 : space0 (' ' :: (bodyC b ++ (tailBodiesC bs ++ X))) = bodyC b ++ (tailBodiesC bs ++ X) := by
    rw [space0_blank, hs]; exact space0_cons _ hsp
  have h1 := body_rt hd b (tailBodiesC bs ++ X) fuel hwb (bodyEnd_tailBodies bs X hX.bodyEnd) (by omega)
  have h2 := bodiesTail_rt hd bs fuel X (fun y hy => hw y (List.mem_cons_of_mem _ hy)) hX (by omega)
  simp only [pCheckBody, hsp0, h1, h2]

/-! ## checks, policies, rules -/

def ckindC : CKind → List Char
  | .one => ['c', 'h', 'e', 'c', 'k', ' ', 'i', 'f']
  | .all => ['c', 'h', 'e', 'c', 'k', ' ', 'a', 'l', 'l']
  | .reject => ['r', 'e', 'j', 'e', 'c', 't', ' ', 'i', 'f']

def pkindC : PKind → List Char
  | .allow => ['a', 'l', 'l', 'o', 'w', ' ', 'i', 'f']
  | .deny => ['d', 'e', 'n', 'y', ' ', 'i', 'f']

/-- **C14, checks.** `check if` / `check all` / `reject if`, a blank, and alternatives separated
    by ` or `: read back as that kind and those alternatives. -/
theorem check_rt {dateP} (hd : DateShape dateP) (k : CKind) (b : Body) (bs : List Body) (fuel : Nat) (X : List Char)
    (hw : ∀ y ∈ b :: bs, WfBody dateP y) (hX : ItemEnd X) (hf : needBodies (b :: bs) ≤ fuel) :
    pCheckInner dateP fuel (ckindC k ++ ' ' :: (bodyC b ++ (tailBodiesC bs ++ X))) = .ok (k, b :: bs) X := by
  have h := checkBody_rt hd b bs fuel X hw hX hf
  cases k <;>
    simp [ckindC, pCheckInner, space0, isSpace, tagNoCase, Char.toLower] <;>
    simp only [h]

/-- **C14, policies.** -/
theorem policy_rt {dateP} (hd : DateShape dateP) (k : PKind) (b : Body) (bs : List Body) (fuel : Nat) (X : List Char)
    (hw : ∀ y ∈ b :: bs, WfBody dateP y) (hX : ItemEnd X) (hf : needBodies (b :: bs) ≤ fuel) :
    pPolicyInner dateP fuel (pkindC k ++ ' ' :: (bodyC b ++ (tailBodiesC bs ++ X))) = .ok (k, b :: bs) X := by
  have h := checkBody_rt hd b bs fuel X hw hX hf
  cases k <;>
    simp [pkindC, pPolicyInner, space0, isSpace, tagNoCase, Char.toLower] <;>
    simp only [h]

/-- **C14, rules.** `head <- body`: read back as that head and that body, provided the rule is one
    the parser accepts (`validVars`: the variables of the head and the top-level variable
    operands of the expressions occur in body predicates). -/
theorem rule_rt {dateP} (hd : DateShape dateP) (head : SPred) (b : Body) (fuel : Nat) (X : List Char)
    (hwh : wfPredAny dateP head = true) (hw : WfBody dateP b) (hv : validVars head b = true) (hX : BodyEnd X)
    (hf : needVs head.terms + needBody b ≤ fuel) :
    pRuleInner dateP fuel (predC head ++ ' ' :: '<' :: '-' :: ' ' :: (bodyC b ++ X)) = .ok (head, b) X := by
  have h1 := predicate_rt hd head (' ' :: '<' :: '-' :: ' ' :: (bodyC b ++ X)) fuel hwh (by omega)
  obtain ⟨c, tl, hs, hsp⟩ := bodyC_head b hw
  have ht : tag ['<', '-'] (space0 (' ' :: '<' :: '-' :: ' ' :: (bodyC b ++ X))) = some (' ' :: (bodyC b ++ X)) := by
    rw [space0_blank, space0_cons _ (show isSpace '<' = false by decide)]
    exact tag_append ['<', '-'] _
  have h2 : pBody dateP fuel (' ' :: (bodyC b ++ X)) = .ok b X := by
    have := body_rt hd b X fuel hw hX (by omega)
    unfold pBody at this ⊢
    rw [space0_blank]
    exact this
  simp only [pRuleInner, h1, ht, h2, hv, ↓reduceIte]

/-! ## the texts above are what the printer model writes -/

/-- a parsed rule as the builders hold it: expressions flattened into ops (`Expr::opcodes`) -/
def toSRule (head : SPred) (b : Body) : SRule := ⟨head, b.preds, b.exprs.map opcodes, b.scopes⟩

def joinTail (ss : List (List Char)) : List Char := ss.flatMap fun y => ',' :: ' ' :: y

theorem joinWith_toList : ∀ ss : List String,
    (joinWith ", " ss).toList = match ss with | [] => [] | x :: xs => x.toList ++ joinTail (xs.map String.toList) := by
  intro ss
  induction ss with
  | nil => simp [joinWith]
  | cons x xs ih =>
    cases xs with
    | nil => simp [joinWith, joinTail]
    | cons y ys =>
      have : joinWith ", " (x :: y :: ys) = x ++ ", " ++ joinWith ", " (y :: ys) := rfl
      rw [this]
      simp only [String.toList_append, ih, List.map_cons, joinTail, List.flatMap_cons, List.append_assoc]
      rfl

theorem tailElemsC_eq (xs : List (SPred ⊕ ETree)) : tailElemsC xs = joinTail (xs.map elemC) := by
  induction xs with
  | nil => rfl
  | cons x xs ih => simp only [tailElemsC, List.map_cons, joinTail, List.flatMap_cons, List.cons_append, ih]

theorem tailScopesC_eq (scs : List SScope) : tailScopesC scs = joinTail (scs.map scopeC) := by
  induction scs with
  | nil => rfl
  | cons x xs ih => simp only [tailScopesC, List.map_cons, joinTail, List.flatMap_cons, List.cons_append, ih]

theorem printScope_toList (sc : SScope) : (printScope sc).toList = scopeC sc := by
  cases sc <;> simp [printScope, scopeC] <;> rfl

theorem printExprOr_tree {dateP} (e : ETree) (hw : wfE dateP e = true) : (printExprOr (opcodes e)).toList = showC e := by
  simp only [printExprOr, printExpr_opcodes, Option.getD_some]
  exact (showTree_eq_showC e).1 hw

theorem joinTail_append (a b : List (List Char)) : joinTail (a ++ b) = joinTail a ++ joinTail b := by
  simp [joinTail]

def joinC : List (List Char) → List Char
  | [] => []
  | x :: xs => x ++ joinTail xs

theorem joinWith_toListC (ss : List String) : (joinWith ", " ss).toList = joinC (ss.map String.toList) := by
  rw [joinWith_toList]
  cases ss <;> rfl

theorem joinC_append (a b : List (List Char)) (ha : a ≠ []) (hb : b ≠ []) :
    joinC (a ++ b) = joinC a ++ (',' :: ' ' :: joinC b) := by
  cases a with
  | nil => exact absurd rfl ha
  | cons x xs =>
    cases b with
    | nil => exact absurd rfl hb
    | cons y ys =>
      simp only [List.cons_append, joinC, joinTail, List.flatMap_append, List.flatMap_cons, List.append_assoc, List.cons_append]

theorem bodyC_eq (b : Body) : bodyC b = joinC ((elems b).map elemC) ++ scopesC b.scopes := by
  unfold bodyC
  cases elems b with
  | nil => simp [joinC]
  | cons x xs => simp only [List.map_cons, joinC, tailElemsC_eq, List.append_assoc]

theorem scopesC_eq (scs : List SScope) :
    scopesC scs = if scs.isEmpty then [] else [' ', 't', 'r', 'u', 's', 't', 'i', 'n', 'g', ' '] ++ joinC (scs.map scopeC) := by
  cases scs with
  | nil => rfl
  | cons sc scs => simp only [scopesC, List.isEmpty_cons, Bool.false_eq_true, ↓reduceIte, List.map_cons, joinC, tailScopesC_eq]

/-- on well-formed bodies the printer model's `printBody` writes `bodyC` -/
theorem printBody_eq_bodyC {dateP} (head : SPred) (b : Body) (hw : WfBody dateP b) :
    (printBody (toSRule head b)).toList = bodyC b := by
  have hpreds : (b.preds.map printPred).map String.toList = b.preds.map predC := by
    rw [List.map_map]; apply List.map_congr_left; intro p _; exact printPred_eq_predC p
  have hexprs : ((b.exprs.map opcodes).map printExprOr).map String.toList = b.exprs.map showC := by
    rw [List.map_map, List.map_map]
    apply List.map_congr_left
    intro e he
    exact printExprOr_tree e (hw.elems_wf (.inr e) (by simp [elems, he]))
  have hscopes : (b.scopes.map printScope).map String.toList = b.scopes.map scopeC := by
    rw [List.map_map]; apply List.map_congr_left; intro x _; exact printScope_toList x
  have hel : (elems b).map elemC = b.preds.map predC ++ b.exprs.map showC := by
    simp only [elems, List.map_append, List.map_map]
    congr 1
  rw [bodyC_eq, hel, scopesC_eq]
  unfold printBody toSRule
  simp only [String.toList_append]
  have hsc : (if b.scopes.isEmpty = true then "" else " trusting " ++ joinWith ", " (b.scopes.map printScope)).toList =
      (if b.scopes.isEmpty then [] else [' ', 't', 'r', 'u', 's', 't', 'i', 'n', 'g', ' '] ++ joinC (b.scopes.map scopeC)) := by
    by_cases h : b.scopes.isEmpty = true
    · simp [h]
    · simp only [h, Bool.false_eq_true, ↓reduceIte, String.toList_append, joinWith_toListC, hscopes]; rfl
  rw [hsc, joinWith_toListC, hpreds]
  congr 1
  by_cases hp : b.preds = []
  · by_cases he : b.exprs = []
    · exact absurd (by simp [elems, hp, he]) hw.nonempty
    · have he' : ((b.exprs.map opcodes).map printExprOr).isEmpty = false := by
        cases hh : b.exprs with
        | nil => exact absurd hh he
        | cons _ _ => rfl
      simp only [hp, List.map_nil, he', List.isEmpty_nil, Bool.false_eq_true, ↓reduceIte, joinWith_toListC, hexprs, joinC,
        List.nil_append]
  · have hp' : (b.preds.map printPred).isEmpty = false := by
      cases hh : b.preds with
      | nil => exact absurd hh hp
      | cons _ _ => rfl
    by_cases he : b.exprs = []
    · simp [he, joinC]
    · have he' : ((b.exprs.map opcodes).map printExprOr).isEmpty = false := by
        cases hh : b.exprs with
        | nil => exact absurd hh he
        | cons _ _ => rfl
      have hne1 : b.preds.map predC ≠ [] := by simpa using hp
      have hne2 : b.exprs.map showC ≠ [] := by simpa using he
      simp only [he', hp', Bool.false_eq_true, ↓reduceIte, String.toList_append, joinWith_toListC, hexprs,
        joinC_append _ _ hne1 hne2]
      rfl

/-- on well-formed rules the printer model's `printRule` writes the text of `rule_rt` -/
theorem printRule_eq {dateP} (head : SPred) (b : Body) (hw : WfBody dateP b) :
    (printRule (toSRule head b)).toList = predC head ++ ' ' :: '<' :: '-' :: ' ' :: bodyC b := by
  unfold printRule
  simp only [String.toList_append, printBody_eq_bodyC head b hw]
  have : (toSRule head b).head = head := rfl
  rw [this, printPred_eq_predC]
  have h2 : (" <- " : String).toList = [' ', '<', '-', ' '] := rfl
  rw [h2]
  simp only [List.append_assoc, List.cons_append, List.nil_append]

def orTail (ss : List (List Char)) : List Char := ss.flatMap fun y => ' ' :: 'o' :: 'r' :: ' ' :: y

theorem joinWith_or_toList : ∀ ss : List String,
    (joinWith " or " ss).toList = match ss with | [] => [] | x :: xs => x.toList ++ orTail (xs.map String.toList) := by
  intro ss
  induction ss with
  | nil => simp [joinWith]
  | cons x xs ih =>
    cases xs with
    | nil => simp [joinWith, orTail]
    | cons y ys =>
      have : joinWith " or " (x :: y :: ys) = x ++ " or " ++ joinWith " or " (y :: ys) := rfl
      rw [this]
      simp only [String.toList_append, ih, List.map_cons, orTail, List.flatMap_cons, List.append_assoc]
      rfl

theorem tailBodiesC_eq (bs : List Body) : tailBodiesC bs = orTail (bs.map bodyC) := by
  induction bs with
  | nil => rfl
  | cons x xs ih => simp only [tailBodiesC, List.map_cons, orTail, List.flatMap_cons, List.cons_append, ih]

/-- a parsed check as the builders hold it: every alternative a rule with the head `query()` -/
def toSCheck (k : CKind) (bs : List Body) : SCheck := ⟨k, bs.map (toSRule ⟨"query", []⟩)⟩

/-- on well-formed checks the printer model's `printCheck` writes the text of `check_rt` -/
theorem printCheck_eq {dateP} (k : CKind) (b : Body) (bs : List Body) (hw : ∀ y ∈ b :: bs, WfBody dateP y) :
    (printCheck (toSCheck k (b :: bs))).toList = ckindC k ++ ' ' :: (bodyC b ++ tailBodiesC bs) := by
  have hb : (((b :: bs).map (toSRule ⟨"query", []⟩)).map printBody).map String.toList = (b :: bs).map bodyC := by
    rw [List.map_map, List.map_map]
    apply List.map_congr_left
    intro y hy
    exact printBody_eq_bodyC _ y (hw y hy)
  unfold printCheck toSCheck
  simp only [String.toList_append, joinWith_or_toList]
  simp only [List.map_cons] at hb ⊢
  simp only [List.cons.injEq] at hb
  rw [hb.1, hb.2, tailBodiesC_eq]
  cases k <;> rfl

/-! ## non-vacuity -/

/-- `check if resource($r), operation($o), $o === "read" || $r.starts_with("/pub") trusting authority, ed25519/0a1b
      or admin($u) trusting previous` -/
def exBody1 : Body :=
  ⟨[⟨"resource", [.var "r"]⟩, ⟨"operation", [.var "o"]⟩],
   [.bin .lazyOr (.bin .eq (.val (.var "o")) (.val (.str "read")))
      (.clo [] (.bin .prefix (.val (.var "r")) (.val (.str "/pub"))))],
   [.authority, .key "ed25519/0a1b"]⟩

def exBody2 : Body := ⟨[⟨"admin", [.var "u"]⟩], [], [.previous]⟩

theorem exBody1_wf : WfBody (fun _ => none) exBody1 := by
  refine ⟨by decide, by decide, ?_⟩
  intro sc hsc
  simp only [exBody1, List.mem_cons, List.mem_nil_iff, or_false] at hsc
  rcases hsc with rfl | rfl
  · trivial
  · exact ⟨['e', 'd', '2', '5', '5', '1', '9', '/'], [10, 27], .inl rfl, by decide, by decide⟩

theorem exBody2_wf : WfBody (fun _ => none) exBody2 := by
  refine ⟨by decide, by decide, ?_⟩
  intro sc hsc
  simp only [exBody2, List.mem_cons, List.mem_nil_iff, or_false] at hsc
  subst hsc; trivial

theorem itemEnd_nil : ItemEnd [] := by
  refine ⟨⟨⟨stops_nil 0, by simp [NoCall, space0]⟩, ⟨by simp [space0], fun c h => by simp at h⟩, by simp [space0, tag, List.isPrefixOf]⟩,
    by simp [space0, tagOr]⟩

example : pCheckInner (fun _ => none) 1000
    (ckindC .one ++ ' ' :: (bodyC exBody1 ++ (tailBodiesC [exBody2] ++ []))) = .ok (.one, [exBody1, exBody2]) [] :=
  check_rt dateShape_none .one exBody1 [exBody2] 1000 []
    (fun y hy => by
      simp only [List.mem_cons, List.mem_nil_iff, or_false] at hy
      rcases hy with rfl | rfl
      · exact exBody1_wf
      · exact exBody2_wf)
    itemEnd_nil (by decide)

end Biscuit.RuleParser
