/-
  C17 — key and signature encodings round-trip and reject malformed material.

  Format-level theorems (whether 32 / 33 bytes are a point of the curve is outside the model):
    * `pub_string_round_trip`, `priv_string_round_trip` : `algorithm/hex` strings of both
      algorithms parse back to the same algorithm and bytes;
    * `pub_string_trailing_rejected` : NOTHING may follow the key in a public-key string —
      whatever is appended, the string is refused (the property the fixed `from_str` now has);
    * `varint_round_trip`, `proto_round_trip` : the protobuf `PublicKey` message that
      `to_proto` + prost emit decodes, field by field, to the same algorithm and bytes;
    * `wrong_length_rejected_*`, `proto_unknown_algorithm_rejected` : wrong lengths and
      algorithm tags other than 0 / 1 are refused;
    * `der_ed25519_round_trip`, `der_ed25519_wrong_frame_rejected`.
  That a signature verifies only under the matching key and message is the hypothesis on the
  signature scheme (C01), not a theorem; it is observed by the `keys` stream.
-/
import BiscuitModel.Model.Keys
import BiscuitModel.Props.C14
set_option linter.unusedSimpArgs false
set_option linter.unusedVariables false
namespace Biscuit.Keys
open Biscuit Biscuit.Printer Biscuit.Wire

/-! ## hex helpers -/

theorem decodePairs_append (b : Bytes) (e : List Char) :
    decodePairs (hexEncode b ++ e) = (decodePairs e).map (b ++ ·) := by
  induction b with
  | nil => cases h : decodePairs e <;> simp [hexEncode, h]
  | cons x xs ih =>
    have h1 := hexVal_hexDigit ⟨x.toNat / 16, by have := x.toNat_lt; omega⟩
    have h2 := hexVal_hexDigit ⟨x.toNat % 16, by omega⟩
    simp only at h1 h2
    have e16 : 16 * (x.toNat / 16) + x.toNat % 16 = x.toNat := by omega
    cases hde : decodePairs e with
    | none => simp only [hexEncode, List.cons_append, decodePairs, h1, h2, ih, hde]; rfl
    | some d =>
      simp only [hexEncode, List.cons_append, decodePairs, h1, h2, ih, hde]
      simp [e16]

theorem decodePairs_length : ∀ (n : Nat) (e : List Char) (d : Bytes), e.length ≤ n → decodePairs e = some d →
    d.length * 2 = e.length
  | _, [], d, _, h => by simp [decodePairs] at h; subst h; rfl
  | _, [_], d, _, h => by simp [decodePairs] at h
  | 0, _ :: _ :: _, _, hn, _ => by simp at hn
  | n + 1, a :: b :: rest, d, hn, h => by
    simp only [decodePairs] at h
    cases ha : hexVal a <;> cases hb : hexVal b <;> cases hr : decodePairs rest <;> simp [ha, hb, hr] at h
    subst h
    have := decodePairs_length n rest _ (by simp at hn; omega) hr
    simp; omega

theorem decodePairs_nonempty (e : List Char) (d : Bytes) (he : e ≠ []) (h : decodePairs e = some d) : d ≠ [] := by
  intro hd
  have := decodePairs_length e.length e d (Nat.le_refl _) h
  subst hd
  simp at this
  exact he (List.length_eq_zero_iff.mp this.symm)

/-! ## public-key strings -/

theorem stripPrefix_append (p s : List Char) : stripPrefix p (p ++ s) = some s := by
  induction p with
  | nil => simp [stripPrefix]
  | cons c cs ih => simp [stripPrefix, ih]

theorem strip_ed_of_secp (s : List Char) :
    stripPrefix (Alg.name .ed25519 ++ ['/']) (Alg.name .secp256r1 ++ s) = none := by
  simp [Alg.name, stripPrefix]

/-- the key part of `parsePubString` -/
def pubRest (alg : Alg) (rest : List Char) : Verdict :=
  match parseHex rest with
  | some (b, []) => pubBytes alg b
  | _ => .reject

theorem parsePubString_print (alg : Alg) (rest : List Char) :
    parsePubString (alg.name ++ '/' :: rest) = pubRest alg rest := by
  cases alg with
  | ed25519 =>
    have : Alg.name .ed25519 ++ '/' :: rest = (Alg.name .ed25519 ++ ['/']) ++ rest := by simp
    unfold parsePubString
    rw [this, stripPrefix_append]
    rfl
  | secp256r1 =>
    have h1 : stripPrefix (Alg.name .ed25519 ++ ['/']) (Alg.name .secp256r1 ++ '/' :: rest) = none :=
      strip_ed_of_secp _
    have : Alg.name .secp256r1 ++ '/' :: rest = (Alg.name .secp256r1 ++ ['/']) ++ rest := by simp
    unfold parsePubString
    rw [h1]
    simp only
    rw [this, stripPrefix_append]
    rfl

/-- C17: the printed form of a public key parses back to the same algorithm and bytes -/
theorem pub_string_round_trip (alg : Alg) (b : Bytes) (hne : b ≠ []) :
    parsePubString (printPub alg b) = pubBytes alg b := by
  unfold printPub
  rw [parsePubString_print]
  unfold pubRest
  have := hex_round_trip b [] hne (by simp)
  simp only [List.append_nil] at this
  rw [this]

/-- the bytes accepted for `alg` (well-formed length and tag) -/
def WellFormedPub (alg : Alg) (b : Bytes) : Prop := pubBytes alg b = .accept alg b

theorem pubBytes_longer_rejected (alg : Alg) (b d : Bytes) (hw : WellFormedPub alg b) (hd : d ≠ []) :
    pubBytes alg (b ++ d) = .reject := by
  have hdl : 0 < d.length := List.length_pos_iff.mpr hd
  cases alg with
  | ed25519 =>
    unfold WellFormedPub pubBytes at hw
    simp only at hw
    split at hw
    · rename_i h32
      unfold pubBytes
      simp only [List.length_append]
      rw [if_neg (by omega)]
    · simp at hw
  | secp256r1 =>
    unfold WellFormedPub pubBytes at hw
    simp only at hw
    cases b with
    | nil => simp at hw
    | cons t ts =>
      simp only at hw
      split at hw
      · rename_i h33
        unfold pubBytes
        simp only [List.cons_append, List.length_cons, List.length_append]
        rw [if_neg (by simp only [List.length_cons] at h33; omega)]
        rw [if_neg (by
          rintro ⟨_, h4⟩
          rcases h33.2 with h | h <;> (rw [h] at h4; exact absurd h4 (by decide)))]
      · split at hw <;> simp at hw

/-- C17: nothing may follow the key — whatever is appended to a printed public key, the
    string is refused -/
theorem pub_string_trailing_rejected (alg : Alg) (b : Bytes) (extra : List Char)
    (hw : WellFormedPub alg b) (hne : b ≠ []) (hx : extra ≠ []) :
    parsePubString (printPub alg b ++ extra) = .reject := by
  have hshape : printPub alg b ++ extra = alg.name ++ '/' :: (hexEncode b ++ extra) := by simp [printPub]
  rw [hshape, parsePubString_print]
  unfold pubRest parseHex
  rw [List.takeWhile_append_of_pos (fun a ha => hexEncode_all b a ha),
    List.dropWhile_append_of_pos (fun a ha => hexEncode_all b a ha)]
  have hsplit : extra = extra.takeWhile isHexDigit ++ extra.dropWhile isHexDigit :=
    (List.takeWhile_append_dropWhile).symm
  cases hds : hexEncode b ++ extra.takeWhile isHexDigit with
  | nil => rfl
  | cons c cs =>
    simp only
    rw [← hds, decodePairs_append]
    cases hdec : decodePairs (extra.takeWhile isHexDigit) with
    | none => rfl
    | some d =>
      simp only [Option.map_some]
      cases ht : extra.dropWhile isHexDigit with
      | cons t ts => rfl
      | nil =>
        simp only
        have hall : extra.takeWhile isHexDigit = extra := by rw [ht, List.append_nil] at hsplit; exact hsplit.symm
        have hdne : d ≠ [] := decodePairs_nonempty _ d (by rw [hall]; exact hx) hdec
        exact pubBytes_longer_rejected alg b d hw hdne

example : WellFormedPub .ed25519 (List.replicate 32 7) ∧ WellFormedPub .secp256r1 (2 :: List.replicate 32 7) := by
  constructor <;> (unfold WellFormedPub; decide)

/-! ## private-key strings -/

theorem splitOnce_name (alg : Alg) (rest : List Char) : splitOnce (alg.name ++ '/' :: rest) = some (alg.name, rest) := by
  cases alg <;> simp [Alg.name, splitOnce]

/-- C17: `to_prefixed_string` parses back to the same algorithm and bytes -/
theorem priv_string_round_trip (alg : Alg) (b : Bytes) :
    parsePrivString (printPub alg b) = privBytes alg b := by
  unfold printPub parsePrivString
  rw [splitOnce_name]
  cases alg with
  | ed25519 => simp [privHex, hexDecode, decodePairs_hexEncode]
  | secp256r1 =>
    have : Alg.name .secp256r1 ≠ Alg.name .ed25519 := by decide
    simp [privHex, hexDecode, decodePairs_hexEncode, this]

theorem priv_string_unknown_algorithm (a h : List Char) (h1 : a ≠ Alg.name .ed25519) (h2 : a ≠ Alg.name .secp256r1)
    (s : List Char) (hs : splitOnce s = some (a, h)) : parsePrivString s = .reject := by
  simp [parsePrivString, hs, h1, h2]

/-! ## lengths -/

theorem wrong_length_rejected_ed25519 (b : Bytes) (h : b.length ≠ 32) :
    pubBytes .ed25519 b = .reject ∧ privBytes .ed25519 b = .reject := by
  simp [pubBytes, privBytes, h]

theorem wrong_length_rejected_secp256r1 (b : Bytes) (h33 : b.length ≠ 33) (h65 : b.length ≠ 65) :
    pubBytes .secp256r1 b = .reject := by
  unfold pubBytes
  cases b with
  | nil => rfl
  | cons t ts => simp only; rw [if_neg (fun h => h33 h.1), if_neg (fun h => h65 h.1)]

theorem wrong_length_rejected_secp256r1_private (b : Bytes) (h : b.length ≠ 32) :
    privBytes .secp256r1 b = .reject := by
  simp [privBytes, h]

/-! ## protobuf -/

theorem toNat_ofNat_lt (n : Nat) (h : n < 256) : (UInt8.ofNat n).toNat = n := by
  simp [UInt8.toNat_ofNat, Nat.mod_eq_of_lt h]

theorem decVarint_varintAux : ∀ (fd fe n : Nat) (rest : Bytes), fd ≤ fe → n < 128 ^ (fd + 1) →
    decVarint (fd + 1) (varintAux fe n ++ rest) = some (n, rest)
  | 0, fe, n, rest, _, hn => by
    have hn' : n < 128 := by simpa using hn
    cases fe with
    | zero =>
      simp only [varintAux, List.cons_append, List.nil_append, decVarint]
      rw [Nat.mod_eq_of_lt hn', toNat_ofNat_lt n (by omega)]
      simp [hn']
    | succ fe =>
      simp only [varintAux, hn', ↓reduceIte, List.cons_append, List.nil_append, decVarint]
      rw [toNat_ofNat_lt n (by omega)]
      simp [hn']
  | fd + 1, fe, n, rest, hle, hn => by
    cases fe with
    | zero => omega
    | succ fe =>
      by_cases hlt : n < 128
      · simp only [varintAux, hlt, ↓reduceIte, List.cons_append, List.nil_append, decVarint]
        rw [toNat_ofNat_lt n (by omega)]
        simp [hlt]
      · simp only [varintAux, hlt, ↓reduceIte, List.cons_append]
        unfold decVarint
        have hb : (UInt8.ofNat (n % 128 + 128)).toNat = n % 128 + 128 := toNat_ofNat_lt _ (by omega)
        rw [hb]
        rw [if_neg (by omega)]
        have hdiv : n / 128 < 128 ^ (fd + 1) := by
          have : n < 128 ^ (fd + 1) * 128 := by rw [← Nat.pow_succ]; exact hn
          exact Nat.div_lt_of_lt_mul (by rw [Nat.mul_comm]; exact this)
        rw [decVarint_varintAux fd fe (n / 128) rest (by omega) hdiv]
        simp only [Option.some.injEq, Prod.mk.injEq, and_true]
        omega

/-- every value below 2^64 survives the varint encoding, whatever follows it -/
theorem varint_round_trip (n : Nat) (rest : Bytes) (h : n < 2 ^ 64) :
    decVarint64 (varint n ++ rest) = some (n, rest) := by
  unfold decVarint64 varint
  rw [decVarint_varintAux 9 10 n rest (by omega) (by
    have : (2 : Nat) ^ 64 ≤ 128 ^ 10 := by decide
    omega)]
  simp [h]

theorem decFields_step (fuel : Nat) (bs : Bytes) (h : bs ≠ []) :
    decFields (fuel + 1) bs =
      match decVarint64 bs with
      | none => none
      | some (k, rest) =>
        if k / 8 = 0 then none
        else if k % 8 = 0 then
          match decVarint64 rest with
          | some (n, rest') => (decFields fuel rest').map ((k / 8, .varint n) :: ·)
          | none => none
        else if k % 8 = 2 then
          match decVarint64 rest with
          | some (len, rest') =>
            if len ≤ rest'.length then (decFields fuel (rest'.drop len)).map ((k / 8, .bytes (rest'.take len)) :: ·)
            else none
          | none => none
        else none := by
  cases bs with
  | nil => exact absurd rfl h
  | cons b bs => rfl

theorem decFields_pubKey (f alg : Nat) (b : Bytes) (ha : alg < 2 ^ 64) (hb : b.length < 2 ^ 64) :
    decFields (f + 2) (encPubKey ⟨alg, b⟩) = some [(1, .varint alg), (2, .bytes b)] := by
  have e1 : encPubKey ⟨alg, b⟩ = varint 8 ++ (varint alg ++ (varint 18 ++ (varint b.length ++ b))) := by
    simp [encPubKey, fVarint, fBytes, key, Gen.Field.publicKey_algorithm, Gen.Field.publicKey_key]
  rw [e1]
  have hne : varint 8 ++ (varint alg ++ (varint 18 ++ (varint b.length ++ b))) ≠ [] := by
    simp [varint, varintAux]
  have hne2 : varint 18 ++ (varint b.length ++ b) ≠ [] := by simp [varint, varintAux]
  rw [decFields_step (f + 1) _ hne, varint_round_trip 8 _ (by decide)]
  simp only
  rw [if_neg (by decide), if_pos (by decide), varint_round_trip alg _ ha]
  simp only
  rw [decFields_step f _ hne2, varint_round_trip 18 _ (by decide)]
  simp only
  rw [if_neg (by decide), if_neg (by decide), if_pos (by decide), varint_round_trip b.length _ hb]
  simp [decFields]

/-- C17: the protobuf form of a public key decodes to the same algorithm and bytes -/
theorem proto_round_trip (alg : Alg) (b : Bytes) (hb : b.length < 2 ^ 64) :
    pubProto (encPubKey ⟨alg.tag, b⟩) = pubBytes alg b := by
  have hlen : 2 ≤ (encPubKey ⟨alg.tag, b⟩).length := by
    cases alg <;> simp [encPubKey, fVarint, fBytes, key, varint, varintAux, Alg.tag,
      Gen.Field.publicKey_algorithm, Gen.Field.publicKey_key] <;> omega
  have hf : (encPubKey ⟨alg.tag, b⟩).length + 1 = ((encPubKey ⟨alg.tag, b⟩).length - 1) + 2 := by omega
  unfold pubProto decPubKeyMsg
  rw [hf, decFields_pubKey _ alg.tag b (by cases alg <;> simp [Alg.tag]) hb]
  cases alg <;> simp [foldPubKey, Alg.tag]

theorem proto_unknown_algorithm_rejected (bs : Bytes) (a : Nat) (k : Bytes) (h : decPubKeyMsg bs = some (a, k))
    (h0 : a ≠ 0) (h1 : a ≠ 1) : pubProto bs = .reject := by
  simp [pubProto, h, h0, h1]

example : pubProto (encPubKey ⟨Alg.tag .secp256r1, 3 :: List.replicate 32 9⟩)
    = .accept .secp256r1 (3 :: List.replicate 32 9) := by
  rw [proto_round_trip .secp256r1 _ (by decide)]; decide

/-! ## DER (ed25519 public keys) -/

theorem der_ed25519_round_trip (b : Bytes) (h : b.length = 32) :
    parseDerPubEd25519 (derPubEd25519 b) = .accept .ed25519 b := by
  unfold parseDerPubEd25519 derPubEd25519
  have h12 : ed25519SpkiPrefix.length = 12 := by decide
  have ht : (ed25519SpkiPrefix ++ b).take 12 = ed25519SpkiPrefix := by
    rw [← h12, List.take_left']; rfl
  have hd : (ed25519SpkiPrefix ++ b).drop 12 = b := by
    rw [← h12, List.drop_left']; rfl
  rw [ht, hd]
  simp [h, h12]

theorem der_ed25519_wrong_frame_rejected (d : Bytes) (h : d.take 12 ≠ ed25519SpkiPrefix ∨ d.length ≠ 44) :
    parseDerPubEd25519 d = .reject := by
  unfold parseDerPubEd25519
  rw [if_neg]
  rintro ⟨h1, h2⟩
  rcases h with h | h
  · exact h h1
  · exact h h2

end Biscuit.Keys
