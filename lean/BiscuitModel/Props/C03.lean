/-
  C03 — attenuation can only restrict: appended blocks never grant access.
-/
import BiscuitModel.Props.C04
import BiscuitModel.Props.C05
import BiscuitModel.Props.C07
import BiscuitModel.Lemmas.Congr
import BiscuitModel.Lemmas.KeyMapCongr
namespace Biscuit.C03
open Biscuit Biscuit.C05

/-- the program of a token extended by one block with id `n`: its facts get origin `{n}`,
    its rules are owned by `n` -/
def extend (P : Program) (n : Nat) (bfacts : List Fact) (brules : List SRule) : Program :=
  { syms := P.syms, facts := P.facts ++ bfacts.map (fun f => ([n], f)), rules := P.rules ++ brules }

/-- everything derivable before is still derivable: a block never removes a fact -/
theorem derives_mono (P : Program) (n : Nat) (bfacts : List Fact) (brules : List SRule) (x : OFact)
    (h : Derives P x) : Derives (extend P n bfacts brules) x :=
  derives_congr P (extend P n bfacts brules) rfl
    (fun _ hx => List.mem_append_left _ hx) (fun _ hr => List.mem_append_left _ hr) x h

theorem visible_idem (t : List Nat) (F : List OFact) : visible t (visible t F) = visible t F := by
  simp [visible, List.filter_filter]

/-- **A block cannot change what the others derive.** Let the rules of the original program not
    trust the new block `n` (see `old_scopes_exclude_new`) and the new rules be owned by `n`.
    Then every pair derivable in the extended program whose origin does not contain `n` was
    already derivable in the original program — by induction on the derivation: base facts of
    the new block have origin `{n}`; a rule of the new block puts `n` in the origin; an old rule
    only sees facts whose origins avoid `n`. -/
theorem derives_restrict (P : Program) (n : Nat) (bfacts : List Fact) (brules : List SRule)
    (hown : ∀ sr ∈ brules, sr.blk = n) (hold : ∀ sr ∈ P.rules, n ∉ sr.trusted)
    (x : OFact) (h : Derives (extend P n bfacts brules) x) : n ∉ x.1 → Derives P x := by
  induction h with
  | base hb =>
    intro hn
    rcases List.mem_append.mp hb with hb | hb
    · exact Derives.base hb
    · obtain ⟨f, _, rfl⟩ := List.mem_map.mp hb
      exact absurd (List.mem_singleton.mpr rfl) hn
  | @step S sr y _ hsr hy ih =>
    intro hn
    rcases List.mem_append.mp hsr with hsr | hsr
    · -- an old rule: it sees only facts whose origin avoids `n`
      have hS : ∀ z ∈ visible sr.trusted S, Derives P z := by
        intro z hz
        have hz' := (C04.visible_spec sr.trusted S z).mp hz
        exact ih z hz'.1 (fun hm => hold sr hsr (hz'.2 n hm))
      exact Derives.step hS hsr (by rw [visible_idem]; exact hy)
    · -- a rule of the new block marks its facts with `n`
      have := (applyRule_origin _ _ _ _ _ hy).1
      rw [hown sr hsr] at this
      exact absurd this hn

/-- **Facts and rules of a block never change what earlier blocks, the authority block or the
    authorizer can see**: for any trusted set that does not contain the new block, the visible
    derivable pairs are the same with and without it. -/
theorem visible_facts_unchanged (P : Program) (n : Nat) (bfacts : List Fact) (brules : List SRule)
    (hown : ∀ sr ∈ brules, sr.blk = n) (hold : ∀ sr ∈ P.rules, n ∉ sr.trusted)
    (T : List Nat) (hT : n ∉ T) (x : OFact) (hx : ∀ b ∈ x.1, b ∈ T) :
    Derives (extend P n bfacts brules) x ↔ Derives P x :=
  ⟨fun h => derives_restrict P n bfacts brules hown hold x h (fun hm => hT (hx n hm)),
   derives_mono P n bfacts brules x⟩

/-! ## trust is unchanged by an appended block nobody names -/

/-- The trusted origins of an element of block `cur < n` (or of the authorizer) never contain a
    newly appended block `n`, provided its defaults do not and no public key it names is
    registered for `n`. `previous` reaches only `0..cur`; for the authorizer it adds nothing. -/
theorem old_scopes_exclude_new (scopes : List Scope) (dflt : List Nat) (cur n : Nat) (km : KeyMap)
    (hcur : cur < n ∨ cur = authorizerId) (hn0 : n ≠ 0) (hnA : n ≠ authorizerId) (hd : n ∉ dflt)
    (hk : ∀ k, Scope.publicKey k ∈ scopes → n ∉ KeyMap.get km k) :
    n ∉ trustedFromScopes scopes dflt cur km := by
  intro h
  rw [C04.trustedFromScopes_spec] at h
  have hne : n ≠ cur := by
    rcases hcur with hc | hc
    · omega
    · rw [hc]; exact hnA
  split at h
  · rcases h with h | h | h
    · exact hnA h
    · exact hne h
    · exact hd h
  · rcases h with h | h | h | h | h
    · exact hnA h
    · exact hne h
    · exact hn0 h.2
    · rcases hcur with hc | hc
      · omega
      · exact h.2.1 hc
    · obtain ⟨k, hk1, hk2⟩ := h
      exact hk k hk1 hk2

theorem default_excludes_new (n : Nat) (hn0 : n ≠ 0) (hnA : n ≠ authorizerId) : n ∉ defaultTrusted := by
  intro h
  rcases (C04.defaultTrusted_spec n).mp h with h | h
  · exact hn0 h
  · exact hnA h

/-! ## non-vacuity -/

/-- a block that re-states an authority-looking fact does not make it visible to the authority's scope -/
example :
    let P : Program := { syms := ⟨[]⟩, facts := [([0], ⟨1024, [.int 1]⟩)], rules := [] }
    ¬ Derives P ([0], ⟨1025, [.int 1]⟩) := by
  intro P h
  cases h with
  | base hb => simp [P] at hb
  | step _ hsr _ => simp [P] at hsr

/-! ## end to end: the executable authorizer -/

open Biscuit.C04

/-- `F` and `F'` show the same facts to every trusted set that leaves out block `n` -/
def VisSame (n : Nat) (F F' : List OFact) : Prop :=
  ∀ T : List Nat, n ∉ T → SameFacts (visible T F) (visible T F')

section VisLemmas
variable {F F' : List OFact} {t : List Nat} (h : SameFacts (visible t F) (visible t F'))
include h

theorem NoErr_vis (syms : SymbolTable) (r : Rule) (hn : NoErr syms F t r) : NoErr syms F' t r :=
  fun ob hob e => hn ob ((combine_same h _ _ ob).mpr hob) e

theorem hits_vis (syms : SymbolTable) (blk : Nat) (r : Rule) :
    (applyRule syms (visible t F) blk r).any isHit = (applyRule syms (visible t F') blk r).any isHit :=
  any_congr_mem _ (applyRule_same h syms blk r)

theorem forall_vis (syms : SymbolTable) (r : Rule) :
    (let bs := combine (visible t F) r.body (MV.new (bodyVars r.body))
     !bs.isEmpty && bs.all fun ob => evalExprs r.exprs ob.2 (TempSyms.new syms) == .ok true) =
    (let bs := combine (visible t F') r.body (MV.new (bodyVars r.body))
     !bs.isEmpty && bs.all fun ob => evalExprs r.exprs ob.2 (TempSyms.new syms) == .ok true) := by
  have hc := combine_same h r.body (MV.new (bodyVars r.body))
  simp only
  rw [isEmpty_congr_mem hc, all_congr_mem _ hc]

end VisLemmas

theorem any_congr_on {α : Type} (l : List α) (p q : α → Bool) (h : ∀ a ∈ l, p a = q a) : l.any p = l.any q := by
  induction l with
  | nil => rfl
  | cons x xs ih => simp only [List.any_cons, h x List.mem_cons_self, ih (fun a ha => h a (List.mem_cons_of_mem _ ha))]

theorem all_congr_on {α : Type} (l : List α) (p q : α → Bool) (h : ∀ a ∈ l, p a = q a) : l.all p = l.all q := by
  induction l with
  | nil => rfl
  | cons x xs ih => simp only [List.all_cons, h x List.mem_cons_self, ih (fun a ha => h a (List.mem_cons_of_mem _ ha))]

/-- the trusted set of every alternative of the checks / policies evaluated for block `blk` with
    default `dflt` leaves out `n` -/
def ScopesAvoid (n : Nat) (km : KeyMap) (dflt : List Nat) (blk : Nat) (qs : List QRule) : Prop :=
  ∀ q ∈ qs, n ∉ trustedFromScopes q.scopes dflt blk km

theorem checkSpec_vis {n : Nat} {F F' : List OFact} (hv : VisSame n F F') (syms : SymbolTable) (km : KeyMap)
    (dflt : List Nat) (blk : Nat) (c : Check) (ha : ScopesAvoid n km dflt blk c.queries) :
    checkSpec syms F km dflt blk c = checkSpec syms F' km dflt blk c := by
  unfold checkSpec
  have hq : ∀ q ∈ c.queries, qMatches syms F km dflt blk q = qMatches syms F' km dflt blk q :=
    fun q hq => hits_vis (hv _ (ha q hq)) syms blk q.rule
  have hf : ∀ q ∈ c.queries, qHoldsForAll syms F km dflt blk q = qHoldsForAll syms F' km dflt blk q :=
    fun q hq => forall_vis (hv _ (ha q hq)) syms q.rule
  cases c.kind with
  | one => simp only; exact any_congr_on _ _ _ hq
  | all => simp only; exact any_congr_on _ _ _ hf
  | reject => simp only; exact all_congr_on _ _ _ (fun q hq' => by rw [hq q hq'])

theorem CheckNoErr_vis {n : Nat} {F F' : List OFact} (hv : VisSame n F F') (syms : SymbolTable) (km : KeyMap)
    (dflt : List Nat) (blk : Nat) (qs : List QRule) (ha : ScopesAvoid n km dflt blk qs)
    (hn : CheckNoErr syms F km dflt blk qs) : CheckNoErr syms F' km dflt blk qs :=
  fun q hq => NoErr_vis (hv _ (ha q hq)) syms q.rule (hn q hq)

theorem failedChecks_vis {n : Nat} {F F' : List OFact} (hv : VisSame n F F') (syms : SymbolTable) (km : KeyMap)
    (dflt : List Nat) (blk : Nat) (mk : Nat → FailedCheck) (cs : List Check) (i : Nat)
    (ha : ∀ c ∈ cs, ScopesAvoid n km dflt blk c.queries)
    (hn : ∀ c ∈ cs, CheckNoErr syms F km dflt blk c.queries) :
    failedChecks syms F km dflt blk mk i cs = failedChecks syms F' km dflt blk mk i cs := by
  rw [failedChecks_spec syms F km dflt blk mk (checkSpec syms F km dflt blk) cs i
        (fun c hc => evalCheck_spec syms F km dflt blk c (hn c hc)),
      failedChecks_spec syms F' km dflt blk mk (checkSpec syms F km dflt blk) cs i
        (fun c hc => by
          rw [evalCheck_spec syms F' km dflt blk c (CheckNoErr_vis hv syms km dflt blk _ (ha c hc) (hn c hc)),
            checkSpec_vis hv syms km dflt blk c (ha c hc)])]

theorem firstPolicy_vis {n : Nat} {F F' : List OFact} (hv : VisSame n F F') (syms : SymbolTable) (km : KeyMap)
    (dflt : List Nat) (ps : List Policy) (i : Nat)
    (ha : ∀ p ∈ ps, ScopesAvoid n km dflt authorizerId p.queries)
    (hn : ∀ p ∈ ps, CheckNoErr syms F km dflt authorizerId p.queries) :
    firstPolicy syms F km dflt i ps = firstPolicy syms F' km dflt i ps := by
  rw [firstPolicy_spec syms F km dflt (fun p => p.queries.any (qMatches syms F km dflt authorizerId)) ps i
        (fun p hp => policyMatches_spec syms F km dflt p.queries (hn p hp)),
      firstPolicy_spec syms F' km dflt (fun p => p.queries.any (qMatches syms F km dflt authorizerId)) ps i
        (fun p hp => by
          rw [policyMatches_spec syms F' km dflt p.queries (CheckNoErr_vis hv syms km dflt _ _ (ha p hp) (hn p hp))]
          congr 1
          exact any_congr_on _ _ _ (fun q hq => (hits_vis (hv _ (ha p hp q hq)) syms authorizerId q.rule).symm))]

theorem blocksFailed_vis {n : Nat} {F F' : List OFact} (hv : VisSame n F F') (syms : SymbolTable) (km : KeyMap) :
    ∀ (ibs : List (Nat × Block)),
      (∀ ib ∈ ibs, ∀ c ∈ ib.2.checks,
        ScopesAvoid n km (trustedFromScopes ib.2.scopes defaultTrusted ib.1 km) ib.1 c.queries) →
      (∀ ib ∈ ibs, ∀ c ∈ ib.2.checks,
        CheckNoErr syms F km (trustedFromScopes ib.2.scopes defaultTrusted ib.1 km) ib.1 c.queries) →
      blocksFailed syms F km ibs = blocksFailed syms F' km ibs := by
  intro ibs
  induction ibs with
  | nil => intro _ _; rfl
  | cons ib rest ih =>
    intro ha hn
    obtain ⟨i, b⟩ := ib
    simp only [blocksFailed]
    rw [failedChecks_vis hv syms km _ i _ b.checks 0 (ha (i, b) List.mem_cons_self) (hn (i, b) List.mem_cons_self),
        ih (fun x hx => ha x (List.mem_cons_of_mem _ hx)) (fun x hx => hn x (List.mem_cons_of_mem _ hx))]

/-! ### the structure of the extended token -/

theorem enumFrom_append {α : Type} (xs : List α) (y : α) : ∀ i, enumFrom i (xs ++ [y]) = enumFrom i xs ++ [(i + xs.length, y)] := by
  induction xs with
  | nil => intro i; simp [enumFrom]
  | cons x xs ih =>
    intro i
    have : i + 1 + xs.length = i + (xs.length + 1) := by omega
    simp only [List.cons_append, enumFrom, ih, List.length_cons, this]

theorem mem_enumFrom_lt {α : Type} (xs : List α) : ∀ i (ib : Nat × α), ib ∈ enumFrom i xs → i ≤ ib.1 ∧ ib.1 < i + xs.length := by
  induction xs with
  | nil => intro i ib h; simp [enumFrom] at h
  | cons x xs ih =>
    intro i ib h
    simp only [enumFrom, List.mem_cons] at h
    rcases h with rfl | h
    · simp
    · have := ih (i + 1) ib h
      simp only [List.length_cons]; omega

theorem keyMapFrom_append_none (blocks : List Block) (b : Block) (hb : b.extKey = none) :
    ∀ i m, keyMapFrom (blocks ++ [b]) i m = keyMapFrom blocks i m := by
  induction blocks with
  | nil => intro i m; simp [keyMapFrom, hb]
  | cons x xs ih => intro i m; simp only [List.cons_append, keyMapFrom]; cases x.extKey <;> simp [ih]

theorem keyMap_append_none (blocks : List Block) (b : Block) (hb : b.extKey = none) :
    keyMap (blocks ++ [b]) = keyMap blocks := keyMapFrom_append_none blocks b hb 0 []

theorem blocksFailed_append (syms : SymbolTable) (F : List OFact) (km : KeyMap) (xs ys : List (Nat × Block))
    (h : blocksFailed syms F km (xs ++ ys) = .ok []) : blocksFailed syms F km xs = .ok [] := by
  induction xs with
  | nil => rfl
  | cons ib rest ih =>
    obtain ⟨i, b⟩ := ib
    simp only [List.cons_append, blocksFailed] at h ⊢
    cases h1 : failedChecks syms F km (trustedFromScopes b.scopes defaultTrusted i km) i (FailedCheck.block i) 0 b.checks with
    | error e => rw [h1] at h; cases h
    | ok l =>
      rw [h1] at h
      simp only at h ⊢
      cases h2 : blocksFailed syms F km (rest ++ ys) with
      | error e => rw [h2] at h; cases h
      | ok l' =>
        rw [h2] at h
        simp only [Except.ok.injEq, List.append_eq_nil_iff] at h
        rw [ih (by rw [h2, h.2])]
        simp [h.1]

/-- the scopes of everything that existed before block `n` was appended leave `n` out -/
theorem old_trusted_avoid (blocks : List Block) (n : Nat) (hn : n = blocks.length) (hn0 : n ≠ 0) (hnA : n < authorizerId)
    (scopes : List Scope) (dflt : List Nat) (cur : Nat) (hcur : cur < n ∨ cur = authorizerId) (hd : n ∉ dflt) :
    n ∉ trustedFromScopes scopes dflt cur (keyMap blocks) :=
  old_scopes_exclude_new scopes dflt cur n (keyMap blocks) hcur hn0 (by omega) hd
    (fun k _ hm => by
      obtain ⟨hlt, _, _⟩ := (C07.keyMap_spec blocks k n).mp hm
      omega)

/-- the Datalog program the authorizer runs for a token and an authorizer -/
def worldProgram (syms : SymbolTable) (blocks : List Block) (az : AuthorizerData) : Program :=
  ⟨syms, worldFacts blocks az, worldRules blocks az⟩

theorem authorize_eq (syms : SymbolTable) (blocks : List Block) (az : AuthorizerData) (lim : Limits) :
    authorize syms blocks az lim =
      match (runProgram (worldProgram syms blocks az) lim).result with
      | .error e => .runError e
      | .ok () => decide syms (runProgram (worldProgram syms blocks az) lim).facts blocks az := rfl

theorem mem_worldFacts_append (blocks : List Block) (b : Block) (az : AuthorizerData) (x : OFact) :
    x ∈ worldFacts (blocks ++ [b]) az ↔ x ∈ worldFacts blocks az ∨ x ∈ b.facts.map (fun f => ([blocks.length], f)) := by
  simp only [worldFacts, enumFrom_append, List.flatMap_append, List.mem_append, List.flatMap_cons, List.flatMap_nil,
    List.append_nil, blockFacts, Nat.zero_add]
  constructor
  · rintro ((h | h) | h)
    · exact .inl (.inl h)
    · exact .inr h
    · exact .inl (.inr h)
  · rintro ((h | h) | h)
    · exact .inl (.inl h)
    · exact .inr h
    · exact .inl (.inr h)

/-- **The appended block does not change what the earlier elements trust**: the scope lists of
    every block that existed before `b`, and of the authorizer, give the same trusted sets whether
    or not `b` is registered in the key → blocks map.  Trivially so for a first-party block
    (`oldSame_first_party`); for a third-party block signed by a key no earlier scope names
    (`oldSame_unnamed`). -/
structure OldSame (blocks : List Block) (b : Block) (az : AuthorizerData) : Prop where
  blockScopes : ∀ ib ∈ enumFrom 0 blocks,
    trustedFromScopes ib.2.scopes defaultTrusted ib.1 (keyMap (blocks ++ [b])) =
      trustedFromScopes ib.2.scopes defaultTrusted ib.1 (keyMap blocks)
  blockRules : ∀ ib ∈ enumFrom 0 blocks, ∀ q ∈ ib.2.rules, ∀ d,
    trustedFromScopes q.scopes d ib.1 (keyMap (blocks ++ [b])) = trustedFromScopes q.scopes d ib.1 (keyMap blocks)
  blockChecks : ∀ ib ∈ enumFrom 0 blocks, ∀ c ∈ ib.2.checks, ∀ q ∈ c.queries, ∀ d,
    trustedFromScopes q.scopes d ib.1 (keyMap (blocks ++ [b])) = trustedFromScopes q.scopes d ib.1 (keyMap blocks)
  azScopes : trustedFromScopes az.scopes defaultTrusted authorizerId (keyMap (blocks ++ [b])) =
    trustedFromScopes az.scopes defaultTrusted authorizerId (keyMap blocks)
  azRules : ∀ q ∈ az.rules, ∀ d,
    trustedFromScopes q.scopes d authorizerId (keyMap (blocks ++ [b])) = trustedFromScopes q.scopes d authorizerId (keyMap blocks)
  azChecks : ∀ c ∈ az.checks, ∀ q ∈ c.queries, ∀ d,
    trustedFromScopes q.scopes d authorizerId (keyMap (blocks ++ [b])) = trustedFromScopes q.scopes d authorizerId (keyMap blocks)
  azPolicies : ∀ p ∈ az.policies, ∀ q ∈ p.queries, ∀ d,
    trustedFromScopes q.scopes d authorizerId (keyMap (blocks ++ [b])) = trustedFromScopes q.scopes d authorizerId (keyMap blocks)

theorem oldSame_first_party (blocks : List Block) (b : Block) (az : AuthorizerData) (hext : b.extKey = none) :
    OldSame blocks b az := by
  have hkm := keyMap_append_none blocks b hext
  constructor <;> intros <;> rw [hkm]

/-- no scope list of the token's blocks or of the authorizer names the public key `k` -/
structure Unnamed (k : Nat) (blocks : List Block) (az : AuthorizerData) : Prop where
  blockScopes : ∀ ob ∈ blocks, Scope.publicKey k ∉ ob.scopes
  blockRules : ∀ ob ∈ blocks, ∀ q ∈ ob.rules, Scope.publicKey k ∉ q.scopes
  blockChecks : ∀ ob ∈ blocks, ∀ c ∈ ob.checks, ∀ q ∈ c.queries, Scope.publicKey k ∉ q.scopes
  azScopes : Scope.publicKey k ∉ az.scopes
  azRules : ∀ q ∈ az.rules, Scope.publicKey k ∉ q.scopes
  azChecks : ∀ c ∈ az.checks, ∀ q ∈ c.queries, Scope.publicKey k ∉ q.scopes
  azPolicies : ∀ p ∈ az.policies, ∀ q ∈ p.queries, Scope.publicKey k ∉ q.scopes

theorem mem_enumFrom_mem {α : Type} (xs : List α) : ∀ i (ib : Nat × α), ib ∈ enumFrom i xs → ib.2 ∈ xs := by
  induction xs with
  | nil => intro i ib h; simp [enumFrom] at h
  | cons x xs ih =>
    intro i ib h
    simp only [enumFrom, List.mem_cons] at h
    rcases h with rfl | h
    · simp
    · exact List.mem_cons_of_mem _ (ih (i + 1) ib h)

theorem oldSame_unnamed (blocks : List Block) (b : Block) (az : AuthorizerData) (k : Nat) (hext : b.extKey = some k)
    (hun : Unnamed k blocks az) : OldSame blocks b az := by
  have key : ∀ (scopes : List Scope) (d : List Nat) (c : Nat), Scope.publicKey k ∉ scopes →
      trustedFromScopes scopes d c (keyMap (blocks ++ [b])) = trustedFromScopes scopes d c (keyMap blocks) := by
    intro scopes d c hn
    apply KMC.tfs_congr_get
    intro k' hk'
    exact KMC.keyMap_append_some_get blocks b k hext k' (fun e => hn (e ▸ hk'))
  constructor
  · intro ib hib; exact key _ _ _ (hun.blockScopes _ (mem_enumFrom_mem blocks 0 ib hib))
  · intro ib hib q hq d; exact key _ _ _ (hun.blockRules _ (mem_enumFrom_mem blocks 0 ib hib) q hq)
  · intro ib hib c hc q hq d; exact key _ _ _ (hun.blockChecks _ (mem_enumFrom_mem blocks 0 ib hib) c hc q hq)
  · exact key _ _ _ hun.azScopes
  · intro q hq d; exact key _ _ _ (hun.azRules q hq)
  · intro c hc q hq d; exact key _ _ _ (hun.azChecks c hc q hq)
  · intro p hp q hq d; exact key _ _ _ (hun.azPolicies p hp q hq)

theorem flatMap_congr_mem {α β : Type} (l : List α) (f g : α → List β) (h : ∀ x ∈ l, f x = g x) :
    l.flatMap f = l.flatMap g := by
  induction l with
  | nil => rfl
  | cons x xs ih =>
    simp only [List.flatMap_cons, h x List.mem_cons_self, ih (fun y hy => h y (List.mem_cons_of_mem _ hy))]

theorem map_congr_mem {α β : Type} (l : List α) (f g : α → β) (h : ∀ x ∈ l, f x = g x) : l.map f = l.map g := by
  induction l with
  | nil => rfl
  | cons x xs ih =>
    simp only [List.map_cons, h x List.mem_cons_self, ih (fun y hy => h y (List.mem_cons_of_mem _ hy))]

theorem mem_worldRules_append (blocks : List Block) (b : Block) (az : AuthorizerData) (hos : OldSame blocks b az) (r : SRule) :
    r ∈ worldRules (blocks ++ [b]) az ↔
      r ∈ worldRules blocks az ∨ r ∈ blockRules (keyMap (blocks ++ [b])) blocks.length b := by
  have hold : (enumFrom 0 blocks).flatMap (fun ib => blockRules (keyMap (blocks ++ [b])) ib.1 ib.2) =
      (enumFrom 0 blocks).flatMap (fun ib => blockRules (keyMap blocks) ib.1 ib.2) := by
    apply flatMap_congr_mem
    intro ib hib
    simp only [blockRules, hos.blockScopes ib hib]
    exact map_congr_mem _ _ _ (fun q hq => by rw [hos.blockRules ib hib q hq])
  have haz : az.rules.map (fun q => (⟨trustedFromScopes q.scopes (authorizerTrusted az (keyMap (blocks ++ [b]))) authorizerId
        (keyMap (blocks ++ [b])), authorizerId, q.rule⟩ : SRule)) =
      az.rules.map (fun q => ⟨trustedFromScopes q.scopes (authorizerTrusted az (keyMap blocks)) authorizerId (keyMap blocks),
        authorizerId, q.rule⟩) := by
    apply map_congr_mem
    intro q hq
    simp only [authorizerTrusted, hos.azScopes, hos.azRules q hq]
  simp only [worldRules, enumFrom_append, List.flatMap_append, List.mem_append,
    List.flatMap_cons, List.flatMap_nil, List.append_nil, Nat.zero_add, hold, haz]
  constructor
  · rintro ((h | h) | h)
    · exact .inl (.inl h)
    · exact .inr h
    · exact .inl (.inr h)
  · rintro ((h | h) | h)
    · exact .inl (.inl h)
    · exact .inr h
    · exact .inl (.inr h)

/-- no rule of the original world trusts the block that is about to be appended -/
theorem old_rules_avoid (blocks : List Block) (az : AuthorizerData) (hn0 : blocks.length ≠ 0)
    (hnA : blocks.length < authorizerId) :
    ∀ sr ∈ worldRules blocks az, blocks.length ∉ sr.trusted := by
  intro sr hsr
  have hdef : blocks.length ∉ defaultTrusted := default_excludes_new _ hn0 (by omega)
  simp only [worldRules, List.mem_append, List.mem_flatMap, List.mem_map, blockRules] at hsr
  rcases hsr with ⟨ib, hib, q, _, rfl⟩ | ⟨q, _, rfl⟩
  · have hlt := (mem_enumFrom_lt blocks 0 ib hib).2
    have hcur : ib.1 < blocks.length ∨ ib.1 = authorizerId := .inl (by omega)
    exact old_trusted_avoid blocks _ rfl hn0 hnA _ _ _ hcur
      (old_trusted_avoid blocks _ rfl hn0 hnA _ _ _ hcur hdef)
  · exact old_trusted_avoid blocks _ rfl hn0 hnA _ _ _ (.inr rfl)
      (old_trusted_avoid blocks _ rfl hn0 hnA _ _ _ (.inr rfl) hdef)

/-- **What the original world shows to anyone who does not trust the new block is what the
    extended world shows them.** -/
theorem worlds_vis_same (syms : SymbolTable) (blocks : List Block) (b : Block) (az : AuthorizerData)
    (lim lim' : Limits) (hn0 : blocks.length ≠ 0) (hnA : blocks.length < authorizerId) (hos : OldSame blocks b az)
    (hrune : (runProgram (worldProgram syms (blocks ++ [b]) az) lim).result = .ok ())
    (hruno : (runProgram (worldProgram syms blocks az) lim').result = .ok ()) :
    VisSame blocks.length (runProgram (worldProgram syms (blocks ++ [b]) az) lim).facts
      (runProgram (worldProgram syms blocks az) lim').facts := by
  intro T hT x
  simp only [C04.visible_spec, run_exact _ _ hrune, run_exact _ _ hruno]
  have hbridge : ∀ y, Derives (worldProgram syms (blocks ++ [b]) az) y ↔
      Derives (extend (worldProgram syms blocks az) blocks.length b.facts (blockRules (keyMap (blocks ++ [b])) blocks.length b)) y := by
    intro y
    constructor
    · exact derives_congr (worldProgram syms (blocks ++ [b]) az)
        (extend (worldProgram syms blocks az) blocks.length b.facts (blockRules (keyMap (blocks ++ [b])) blocks.length b)) rfl
        (fun z hz => by
          show z ∈ worldFacts blocks az ++ b.facts.map (fun f => ([blocks.length], f))
          rw [List.mem_append]
          exact (mem_worldFacts_append blocks b az z).mp hz)
        (fun r hr => by
          show r ∈ worldRules blocks az ++ blockRules (keyMap (blocks ++ [b])) blocks.length b
          rw [List.mem_append]
          exact (mem_worldRules_append blocks b az hos r).mp hr) y
    · exact derives_congr
        (extend (worldProgram syms blocks az) blocks.length b.facts (blockRules (keyMap (blocks ++ [b])) blocks.length b))
        (worldProgram syms (blocks ++ [b]) az) rfl
        (fun z hz => by
          have hz' : z ∈ worldFacts blocks az ++ b.facts.map (fun f => ([blocks.length], f)) := hz
          rw [List.mem_append] at hz'
          exact (mem_worldFacts_append blocks b az z).mpr hz')
        (fun r hr => by
          have hr' : r ∈ worldRules blocks az ++ blockRules (keyMap (blocks ++ [b])) blocks.length b := hr
          rw [List.mem_append] at hr'
          exact (mem_worldRules_append blocks b az hos r).mpr hr') y
  constructor
  · rintro ⟨hd, hsub⟩
    refine ⟨?_, hsub⟩
    exact derives_restrict (worldProgram syms blocks az) blocks.length b.facts _
      (fun sr hsr => by
        simp only [blockRules, List.mem_map] at hsr
        obtain ⟨q, _, rfl⟩ := hsr
        rfl)
      (old_rules_avoid blocks az hn0 hnA) x ((hbridge x).mp hd) (fun hm => hT (hsub _ hm))
  · rintro ⟨hd, hsub⟩
    exact ⟨(hbridge x).mpr (derives_mono _ _ _ _ x hd), hsub⟩

/-- the core of C03: whatever makes the earlier elements trust the same origins with and without
    the appended block (`OldSame`) makes the appended block unable to grant access -/
theorem attenuation_monotone_core (syms : SymbolTable) (blocks : List Block) (b : Block) (az : AuthorizerData)
    (lim lim' : Limits) (i : Nat)
    (hne : blocks ≠ []) (hnA : blocks.length < authorizerId) (hos : OldSame blocks b az)
    (hruno : (runProgram (worldProgram syms blocks az) lim').result = .ok ())
    (hnoerr : AllNoErr syms (runProgram (worldProgram syms (blocks ++ [b]) az) lim).facts (blocks ++ [b]) az)
    (h : authorize syms (blocks ++ [b]) az lim = .ok i) :
    authorize syms blocks az lim' = .ok i := by
  have hn0 : blocks.length ≠ 0 := fun h0 => hne (List.length_eq_zero_iff.mp h0)
  rw [authorize_eq] at h
  cases hrune : (runProgram (worldProgram syms (blocks ++ [b]) az) lim).result with
  | error e => rw [hrune] at h; cases h
  | ok u =>
    cases u
    rw [hrune] at h
    simp only at h
    have hv := worlds_vis_same syms blocks b az lim lim' hn0 hnA hos hrune hruno
    obtain ⟨f1, f2, f3, h1, h2, hp, h3, hnil⟩ := (decide_ok_iff _ _ _ _ _).mp h
    have hdef : blocks.length ∉ defaultTrusted := default_excludes_new _ hn0 (by omega)
    have hazT : blocks.length ∉ authorizerTrusted az (keyMap blocks) :=
      old_trusted_avoid blocks _ rfl hn0 hnA _ _ _ (.inr rfl) hdef
    have hf1 : f1 = [] := by simp only [List.append_eq_nil_iff] at hnil; exact hnil.1.1
    have hf2 : f2 = [] := by simp only [List.append_eq_nil_iff] at hnil; exact hnil.1.2
    have hf3 : f3 = [] := by simp only [List.append_eq_nil_iff] at hnil; exact hnil.2
    subst hf1 hf2 hf3
    -- the elements of the original token inside the extended one
    have henum : enumFrom 0 (blocks ++ [b]) = enumFrom 0 blocks ++ [(blocks.length, b)] := by
      rw [enumFrom_append]; simp
    have hpos : 1 ≤ (enumFrom 0 blocks).length := by
      cases blocks with
      | nil => exact absurd rfl hne
      | cons x xs => simp [enumFrom]
    have htake : (enumFrom 0 (blocks ++ [b])).take 1 = (enumFrom 0 blocks).take 1 := by
      rw [henum, List.take_append_of_le_length hpos]
    have hdrop : (enumFrom 0 (blocks ++ [b])).drop 1 = (enumFrom 0 blocks).drop 1 ++ [(blocks.length, b)] := by
      rw [henum, List.drop_append_of_le_length hpos]
    rw [htake] at h2
    rw [hdrop] at h3
    have h3' := blocksFailed_append syms _ (keyMap (blocks ++ [b])) _ _ h3
    -- the earlier elements evaluate alike under the key map of the extended and of the original token
    have hazTe : authorizerTrusted az (keyMap (blocks ++ [b])) = authorizerTrusted az (keyMap blocks) := hos.azScopes
    have h1k : failedChecks syms (runProgram (worldProgram syms (blocks ++ [b]) az) lim).facts (keyMap blocks)
        (authorizerTrusted az (keyMap blocks)) authorizerId FailedCheck.authorizer 0 az.checks = .ok [] := by
      rw [← KMC.failedChecks_congr syms _ (keyMap (blocks ++ [b])) (keyMap blocks)
        (authorizerTrusted az (keyMap (blocks ++ [b]))) (authorizerTrusted az (keyMap blocks)) authorizerId _ az.checks 0
        (fun c hc q hq => by rw [hazTe]; exact hos.azChecks c hc q hq _)]
      exact h1
    have hpk : firstPolicy syms (runProgram (worldProgram syms (blocks ++ [b]) az) lim).facts (keyMap blocks)
        (authorizerTrusted az (keyMap blocks)) 0 az.policies = .ok (some (.allow, i)) := by
      rw [← KMC.firstPolicy_congr syms _ (keyMap (blocks ++ [b])) (keyMap blocks)
        (authorizerTrusted az (keyMap (blocks ++ [b]))) (authorizerTrusted az (keyMap blocks)) az.policies 0
        (fun p hp' q hq => by rw [hazTe]; exact hos.azPolicies p hp' q hq _)]
      exact hp
    have hold : ∀ ibs : List (Nat × Block), (∀ ib ∈ ibs, ib ∈ enumFrom 0 blocks) →
        blocksFailed syms (runProgram (worldProgram syms (blocks ++ [b]) az) lim).facts (keyMap (blocks ++ [b])) ibs =
          blocksFailed syms (runProgram (worldProgram syms (blocks ++ [b]) az) lim).facts (keyMap blocks) ibs :=
      fun ibs hsub => KMC.blocksFailed_congr syms _ _ _ ibs
        (fun ib hib => hos.blockScopes ib (hsub ib hib))
        (fun ib hib c hc q hq d => hos.blockChecks ib (hsub ib hib) c hc q hq d)
    have h2k := h2
    rw [hold _ (fun ib hib => List.mem_of_mem_take hib)] at h2k
    have h3k := h3'
    rw [hold _ (fun ib hib => List.mem_of_mem_drop hib)] at h3k
    have hblockAvoid : ∀ ib ∈ enumFrom 0 blocks, ∀ c ∈ ib.2.checks,
        ScopesAvoid blocks.length (keyMap blocks) (trustedFromScopes ib.2.scopes defaultTrusted ib.1 (keyMap blocks)) ib.1 c.queries := by
      intro ib hib c _ q _
      have hlt := (mem_enumFrom_lt blocks 0 ib hib).2
      have hcur : ib.1 < blocks.length ∨ ib.1 = authorizerId := .inl (by omega)
      exact old_trusted_avoid blocks _ rfl hn0 hnA _ _ _ hcur (old_trusted_avoid blocks _ rfl hn0 hnA _ _ _ hcur hdef)
    have hblockNoErr : ∀ ib ∈ enumFrom 0 blocks, ∀ c ∈ ib.2.checks,
        CheckNoErr syms (runProgram (worldProgram syms (blocks ++ [b]) az) lim).facts (keyMap blocks)
          (trustedFromScopes ib.2.scopes defaultTrusted ib.1 (keyMap blocks)) ib.1 c.queries := by
      intro ib hib c hc
      have := hnoerr.blockChecks ib (by rw [henum]; exact List.mem_append_left _ hib) c hc
      exact KMC.CheckNoErr_congr syms _ (keyMap (blocks ++ [b])) (keyMap blocks)
        (trustedFromScopes ib.2.scopes defaultTrusted ib.1 (keyMap (blocks ++ [b])))
        (trustedFromScopes ib.2.scopes defaultTrusted ib.1 (keyMap blocks)) ib.1 c.queries
        (fun q hq => by rw [hos.blockScopes ib hib]; exact hos.blockChecks ib hib c hc q hq _) this
    rw [authorize_eq, hruno]
    simp only
    apply (decide_ok_iff _ _ _ _ _).mpr
    refine ⟨[], [], [], ?_, ?_, ?_, ?_, rfl⟩
    · rw [← failedChecks_vis hv syms _ _ _ _ az.checks 0
        (fun c _ q _ => old_trusted_avoid blocks _ rfl hn0 hnA _ _ _ (.inr rfl) hazT)
        (fun c hc => KMC.CheckNoErr_congr syms _ (keyMap (blocks ++ [b])) (keyMap blocks)
          (authorizerTrusted az (keyMap (blocks ++ [b]))) (authorizerTrusted az (keyMap blocks)) authorizerId c.queries
          (fun q hq => by rw [hazTe]; exact hos.azChecks c hc q hq _) (hnoerr.azChecks c hc))]
      exact h1k
    · rw [← blocksFailed_vis hv syms _ _
        (fun ib hib => hblockAvoid ib (List.mem_of_mem_take hib))
        (fun ib hib => hblockNoErr ib (List.mem_of_mem_take hib))]
      exact h2k
    · rw [← firstPolicy_vis hv syms _ _ az.policies 0
        (fun p _ q _ => old_trusted_avoid blocks _ rfl hn0 hnA _ _ _ (.inr rfl) hazT)
        (fun p hp' => KMC.CheckNoErr_congr syms _ (keyMap (blocks ++ [b])) (keyMap blocks)
          (authorizerTrusted az (keyMap (blocks ++ [b]))) (authorizerTrusted az (keyMap blocks)) authorizerId p.queries
          (fun q hq => by rw [hazTe]; exact hos.azPolicies p hp' q hq _) (hnoerr.policies p hp'))]
      exact hpk
    · rw [← blocksFailed_vis hv syms _ _
        (fun ib hib => hblockAvoid ib (List.mem_of_mem_drop hib))
        (fun ib hib => hblockNoErr ib (List.mem_of_mem_drop hib))]
      exact h3k

/-- **C03, end to end, for error-free evaluations.** If the token extended by a first-party block
    `b` is authorized by policy `i`, then — provided the original token's run stays within its
    limits and no expression fails while the checks and policies of the extended token are
    evaluated — the original token is authorized by the same policy `i`: the appended block's
    facts and rules are invisible to every earlier block and to the authorizer, and its checks
    can only refuse.  (`_partial`: evaluations with expression errors, whose outcome depends on
    iteration order — C11 — are outside this statement; third-party blocks are the next theorem.) -/
theorem attenuation_monotone_partial (syms : SymbolTable) (blocks : List Block) (b : Block) (az : AuthorizerData)
    (lim lim' : Limits) (i : Nat)
    (hne : blocks ≠ []) (hnA : blocks.length < authorizerId) (hext : b.extKey = none)
    (hruno : (runProgram (worldProgram syms blocks az) lim').result = .ok ())
    (hnoerr : AllNoErr syms (runProgram (worldProgram syms (blocks ++ [b]) az) lim).facts (blocks ++ [b]) az)
    (h : authorize syms (blocks ++ [b]) az lim = .ok i) :
    authorize syms blocks az lim' = .ok i :=
  attenuation_monotone_core syms blocks b az lim lim' i hne hnA (oldSame_first_party blocks b az hext) hruno hnoerr h

/-- **C03 for third-party blocks.** The same for a block carrying an external signature by key
    `k`, provided no scope of the earlier blocks or of the authorizer names `k` (a scope that
    names `k` trusts, by design, whatever `k` signed: that is the one way a third-party block is
    meant to be seen).  Whatever the appended block itself trusts, states, derives or checks, it
    cannot make a refused token accepted. -/
theorem attenuation_monotone_third_party_partial (syms : SymbolTable) (blocks : List Block) (b : Block) (az : AuthorizerData)
    (lim lim' : Limits) (i k : Nat)
    (hne : blocks ≠ []) (hnA : blocks.length < authorizerId) (hext : b.extKey = some k) (hun : Unnamed k blocks az)
    (hruno : (runProgram (worldProgram syms blocks az) lim').result = .ok ())
    (hnoerr : AllNoErr syms (runProgram (worldProgram syms (blocks ++ [b]) az) lim).facts (blocks ++ [b]) az)
    (h : authorize syms (blocks ++ [b]) az lim = .ok i) :
    authorize syms blocks az lim' = .ok i :=
  attenuation_monotone_core syms blocks b az lim lim' i hne hnA (oldSame_unnamed blocks b az k hext hun) hruno hnoerr h

/-! non-vacuity: an authority block, an appended block with a fact and a check, an allow policy -/
section Example
def exA : Block := { facts := [⟨1024, [.int 1]⟩], rules := [], checks := [], scopes := [], extKey := none }
def exB : Block :=
  { facts := [⟨1024, [.int 2]⟩], rules := [], checks := [⟨.one, [⟨⟨⟨1025, []⟩, [⟨1024, [.var 0]⟩], []⟩, []⟩]⟩],
    scopes := [], extKey := none }
def exZ : AuthorizerData :=
  { facts := [], rules := [], checks := [], policies := [⟨.allow, [⟨⟨⟨1025, []⟩, [⟨1024, [.int 1]⟩], []⟩, []⟩]⟩], scopes := [] }

example : authorize ⟨[]⟩ ([exA] ++ [exB]) exZ ⟨1000, 100, none⟩ = .ok 0
    ∧ authorize ⟨[]⟩ [exA] exZ ⟨1000, 100, none⟩ = .ok 0 := by decide

/-- the same appended block carried as a third-party block signed by key 7, which nothing names -/
def exB3 : Block := { exB with extKey := some 7 }

example : Unnamed 7 [exA] exZ := by
  constructor <;> simp [exA, exZ]

example : authorize ⟨[]⟩ ([exA] ++ [exB3]) exZ ⟨1000, 100, none⟩ = .ok 0
    ∧ authorize ⟨[]⟩ [exA] exZ ⟨1000, 100, none⟩ = .ok 0 := by decide
end Example

end Biscuit.C03
