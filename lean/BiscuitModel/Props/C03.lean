/-
  C03 — attenuation can only restrict: appended blocks never grant access.
-/
import BiscuitModel.Props.C04
import BiscuitModel.Props.C05
namespace Biscuit.C03
open Biscuit Biscuit.C05

/-- the program of a token extended by one block with id `n`: its facts get origin `{n}`,
    its rules are owned by `n` -/
def extend (P : Program) (n : Nat) (bfacts : List Fact) (brules : List SRule) : Program :=
  { syms := P.syms, facts := P.facts ++ bfacts.map (fun f => ([n], f)), rules := P.rules ++ brules }

/-- everything derivable before is still derivable: a block never removes a fact -/
theorem derives_mono (P : Program) (n : Nat) (bfacts : List Fact) (brules : List SRule) (x : OFact)
    (h : Derives P x) : Derives (extend P n bfacts brules) x :=
  derives_congr P (extend P n bfacts brules) rfl
    (fun _ hx => List.mem_append_left _ hx) (fun _ hr => List.mem_append_left _ hr) x h

theorem visible_idem (t : List Nat) (F : List OFact) : visible t (visible t F) = visible t F := by
  simp [visible, List.filter_filter]

/-- **A block cannot change what the others derive.** Let the rules of the original program not
    trust the new block `n` (see `old_scopes_exclude_new`) and the new rules be owned by `n`.
    Then every pair derivable in the extended program whose origin does not contain `n` was
    already derivable in the original program — by induction on the derivation: base facts of
    the new block have origin `{n}`; a rule of the new block puts `n` in the origin; an old rule
    only sees facts whose origins avoid `n`. -/
theorem derives_restrict (P : Program) (n : Nat) (bfacts : List Fact) (brules : List SRule)
    (hown : ∀ sr ∈ brules, sr.blk = n) (hold : ∀ sr ∈ P.rules, n ∉ sr.trusted)
    (x : OFact) (h : Derives (extend P n bfacts brules) x) : n ∉ x.1 → Derives P x := by
  induction h with
  | base hb =>
    intro hn
    rcases List.mem_append.mp hb with hb | hb
    · exact Derives.base hb
    · obtain ⟨f, _, rfl⟩ := List.mem_map.mp hb
      exact absurd (List.mem_singleton.mpr rfl) hn
  | @step S sr y _ hsr hy ih =>
    intro hn
    rcases List.mem_append.mp hsr with hsr | hsr
    · -- an old rule: it sees only facts whose origin avoids `n`
      have hS : ∀ z ∈ visible sr.trusted S, Derives P z := by
        intro z hz
        have hz' := (C04.visible_spec sr.trusted S z).mp hz
        exact ih z hz'.1 (fun hm => hold sr hsr (hz'.2 n hm))
      exact Derives.step hS hsr (by rw [visible_idem]; exact hy)
    · -- a rule of the new block marks its facts with `n`
      have := (applyRule_origin _ _ _ _ _ hy).1
      rw [hown sr hsr] at this
      exact absurd this hn

/-- **Facts and rules of a block never change what earlier blocks, the authority block or the
    authorizer can see**: for any trusted set that does not contain the new block, the visible
    derivable pairs are the same with and without it. -/
theorem visible_facts_unchanged (P : Program) (n : Nat) (bfacts : List Fact) (brules : List SRule)
    (hown : ∀ sr ∈ brules, sr.blk = n) (hold : ∀ sr ∈ P.rules, n ∉ sr.trusted)
    (T : List Nat) (hT : n ∉ T) (x : OFact) (hx : ∀ b ∈ x.1, b ∈ T) :
    Derives (extend P n bfacts brules) x ↔ Derives P x :=
  ⟨fun h => derives_restrict P n bfacts brules hown hold x h (fun hm => hT (hx n hm)),
   derives_mono P n bfacts brules x⟩

/-! ## trust is unchanged by an appended block nobody names -/

/-- The trusted origins of an element of block `cur < n` (or of the authorizer) never contain a
    newly appended block `n`, provided its defaults do not and no public key it names is
    registered for `n`. `previous` reaches only `0..cur`; for the authorizer it adds nothing. -/
theorem old_scopes_exclude_new (scopes : List Scope) (dflt : List Nat) (cur n : Nat) (km : KeyMap)
    (hcur : cur < n ∨ cur = authorizerId) (hn0 : n ≠ 0) (hnA : n ≠ authorizerId) (hd : n ∉ dflt)
    (hk : ∀ k, Scope.publicKey k ∈ scopes → n ∉ KeyMap.get km k) :
    n ∉ trustedFromScopes scopes dflt cur km := by
  intro h
  rw [C04.trustedFromScopes_spec] at h
  have hne : n ≠ cur := by
    rcases hcur with hc | hc
    · omega
    · rw [hc]; exact hnA
  split at h
  · rcases h with h | h | h
    · exact hnA h
    · exact hne h
    · exact hd h
  · rcases h with h | h | h | h | h
    · exact hnA h
    · exact hne h
    · exact hn0 h.2
    · rcases hcur with hc | hc
      · omega
      · exact h.2.1 hc
    · obtain ⟨k, hk1, hk2⟩ := h
      exact hk k hk1 hk2

theorem default_excludes_new (n : Nat) (hn0 : n ≠ 0) (hnA : n ≠ authorizerId) : n ∉ defaultTrusted := by
  intro h
  rcases (C04.defaultTrusted_spec n).mp h with h | h
  · exact hn0 h
  · exact hnA h

/-! ## non-vacuity -/

/-- a block that re-states an authority-looking fact does not make it visible to the authority's scope -/
example :
    let P : Program := { syms := ⟨[]⟩, facts := [([0], ⟨1024, [.int 1]⟩)], rules := [] }
    ¬ Derives P ([0], ⟨1025, [.int 1]⟩) := by
  intro P h
  cases h with
  | base hb => simp [P] at hb
  | step _ hsr _ => simp [P] at hsr

end Biscuit.C03
