/-
  C10 — evaluation budgets are enforced.

  Facts and iterations: proved for the engine loop and, cumulatively, for any history of
  calls on one authorizer.  Time: the engine's clock is the abstract `Limits.timeoutAt`
  (the index of the first checkpoint at which the clock has passed the deadline); wall-clock
  promptness is runtime behaviour and is not expressible here (DESIGN.md, C10).
-/
import BiscuitModel.Model.Limits
namespace Biscuit.C10
open Biscuit

/-- what a successful engine run guarantees, for a loop entered with `index` productive
    iterations already counted -/
theorem runLoop_ok (syms : SymbolTable) (rules : List SRule) (lim : Limits) :
    ∀ (fuel index : Nat) (facts : List (List Nat × Fact)),
      (runLoop syms rules lim fuel index facts).result = .ok () →
        (runLoop syms rules lim fuel index facts).facts.length < lim.maxFacts ∧
        ((runLoop syms rules lim fuel index facts).iterations = index ∨
         (index < (runLoop syms rules lim fuel index facts).iterations ∧
          (runLoop syms rules lim fuel index facts).iterations < lim.maxIterations)) := by
  intro fuel
  induction fuel with
  | zero => intro index facts h; simp [runLoop] at h
  | succ fuel ih =>
    intro index facts h
    simp only [runLoop] at h ⊢
    split at h
    · simp at h
    · split at h
      · rename_i hlen
        rw [if_pos hlen]
        split at h
        · simp at h
        · rename_i hmf
          rw [if_neg hmf]
          simp only
          refine ⟨by omega, ?_⟩
          simp
      · rename_i hlen
        rw [if_neg hlen]
        split at h
        · simp at h
        · rename_i h1
          rw [if_neg h1]
          split at h
          · simp at h
          · rename_i h2
            rw [if_neg h2]
            split at h
            · simp at h
            · rename_i h3
              rw [if_neg h3]
              have := ih (index + 1) _ h
              refine ⟨this.1, ?_⟩
              rcases this.2 with h4 | h4
              · right; rw [h4]; omega
              · right; omega

/-- **A successful run stayed within the fact budget** — including the facts that were there
    before the first iteration. -/
theorem run_ok_within_facts (syms : SymbolTable) (rules : List SRule) (lim : Limits) (facts : List (List Nat × Fact))
    (h : (run syms rules lim facts).result = .ok ()) :
    (run syms rules lim facts).facts.length < lim.maxFacts :=
  (runLoop_ok syms rules lim _ 0 facts h).1

/-- **A successful run stayed within the iteration budget**: it either derived nothing, or made
    fewer productive iterations than `max_iterations` — also for `max_iterations = 0`. -/
theorem run_ok_within_iterations (syms : SymbolTable) (rules : List SRule) (lim : Limits) (facts : List (List Nat × Fact))
    (h : (run syms rules lim facts).result = .ok ()) :
    (run syms rules lim facts).iterations = 0 ∨ (run syms rules lim facts).iterations < lim.maxIterations := by
  rcases (runLoop_ok syms rules lim _ 0 facts h).2 with h | h
  · exact .inl h
  · exact .inr h.2

/-- exhausting a budget is an error, never a success -/
theorem limit_hit_is_error (syms : SymbolTable) (rules : List SRule) (lim : Limits) (facts : List (List Nat × Fact))
    (h : lim.maxFacts ≤ (run syms rules lim facts).facts.length ∨
         (0 < (run syms rules lim facts).iterations ∧ lim.maxIterations ≤ (run syms rules lim facts).iterations)) :
    (run syms rules lim facts).result ≠ .ok () := by
  intro hok
  have h1 := run_ok_within_facts syms rules lim facts hok
  have h2 := run_ok_within_iterations syms rules lim facts hok
  omega

/-- the model's recursion budget never runs out: the loop ends by itself -/
theorem runLoop_fuel (syms : SymbolTable) (rules : List SRule) (lim : Limits) :
    ∀ (fuel index : Nat) (facts : List (List Nat × Fact)), lim.maxIterations < fuel + index →
      index ≤ lim.maxIterations →
      (runLoop syms rules lim fuel index facts).result ≠ .error .outOfFuel := by
  intro fuel
  induction fuel with
  | zero => intro index facts h h'; omega
  | succ fuel ih =>
    intro index facts h _
    simp only [runLoop]
    split
    · simp
    · split
      · split <;> simp
      · split
        · simp
        · split
          · simp
          · split
            · simp
            · rename_i h1 _ _
              exact ih (index + 1) _ (by omega) (by omega)

theorem run_never_out_of_fuel (syms : SymbolTable) (rules : List SRule) (lim : Limits) (facts : List (List Nat × Fact)) :
    (run syms rules lim facts).result ≠ .error .outOfFuel := by
  apply runLoop_fuel
  · simp [runFuel]
  · omega

/-- **Timeout at a checkpoint**: if the clock has passed the deadline at the checkpoint that
    follows the `k`-th productive iteration (and no other limit is hit there), the run stops
    there with `Timeout` — it does not continue. -/
theorem timeout_at_checkpoint (syms : SymbolTable) (rules : List SRule) (lim : Limits) (fuel index : Nat)
    (facts new : List (List Nat × Fact))
    (hnew : collect (stepResults syms rules facts) = .ok new)
    (hgrow : (factMerge facts new).length ≠ facts.length)
    (hi : ¬ lim.maxIterations ≤ index + 1) (hf : ¬ lim.maxFacts ≤ (factMerge facts new).length)
    (ht : lim.timeoutAt = some (index + 1)) :
    runLoop syms rules lim (fuel + 1) index facts = ⟨factMerge facts new, index + 1, .error .timeout⟩ := by
  simp [runLoop, hnew, hgrow, hi, hf, ht]

/-! ## cumulative accounting over histories of calls -/

/-- what holds of an authorizer whose run has completed -/
def Within (lim : Limits) (s : AzState) : Prop :=
  s.done = true → s.facts.length < lim.maxFacts ∧ (s.iterations = 0 ∨ s.iterations < lim.maxIterations)

theorem within_init (lim : Limits) (blocks : List Block) (az : AuthorizerData) :
    Within lim (AzState.init blocks az) := by
  intro h; simp [AzState.init] at h

theorem within_run (syms : SymbolTable) (rules : List SRule) (lim : Limits) (s : AzState) (h : Within lim s) :
    Within lim (s.run syms rules lim).1 := by
  unfold AzState.run
  split
  · exact h
  · split
    · exact h
    · rename_i hd hpre
      intro hdone
      simp only at hdone ⊢
      cases hr : (run syms rules { lim with maxIterations := lim.maxIterations - s.iterations } s.facts).result with
      | error e => rw [hr] at hdone; simp at hdone
      | ok u =>
        cases u
        have h1 := run_ok_within_facts syms rules _ s.facts hr
        have h2 := run_ok_within_iterations syms rules _ s.facts hr
        simp only at h1 h2
        refine ⟨h1, ?_⟩
        rcases h2 with h2 | h2
        · rw [h2]
          simp only [Nat.add_zero]
          by_cases hz : s.iterations = 0
          · exact .inl hz
          · right; omega
        · right; omega

theorem run_ok_done (syms : SymbolTable) (rules : List SRule) (lim : Limits) (s : AzState)
    (h : (s.run syms rules lim).2 = .ok ()) : (s.run syms rules lim).1.done = true := by
  unfold AzState.run at h ⊢
  by_cases hd : s.done = true
  · simp [hd]
  · by_cases hpre : 0 < s.iterations ∧ lim.maxIterations ≤ s.iterations
    · simp [hd, hpre] at h
    · have hd' : s.done = false := by cases hs : s.done <;> simp_all
      simp only [hd', hpre, if_false, Bool.false_eq_true] at h ⊢
      rw [h]

theorem within_call (syms : SymbolTable) (blocks : List Block) (az : AuthorizerData) (lim : Limits)
    (s : AzState) (c : AzCall) (h : Within lim s) : Within lim (s.call syms blocks az lim c).1 := by
  have hr := within_run syms (worldRules blocks az) lim s h
  unfold AzState.call
  simp only
  split
  · exact hr
  · split
    · exact hr
    · split <;> exact hr

/-- **Cumulative accounting.** After any history of `authorize` / `query` / `query_all` calls on
    one authorizer — including histories in which earlier calls hit a limit — whenever the
    engine run is complete (which every successful call requires), the authorizer holds fewer
    facts than `max_facts` and reports either no iteration or fewer than `max_iterations`. -/
theorem history_within_budget (syms : SymbolTable) (blocks : List Block) (az : AuthorizerData) (lim : Limits) :
    ∀ (cs : List AzCall) (s : AzState), Within lim s → Within lim (AzState.calls syms blocks az lim s cs).1 := by
  intro cs
  induction cs with
  | nil => intro s h; exact h
  | cons c rest ih =>
    intro s h
    simp only [AzState.calls]
    exact ih _ (within_call syms blocks az lim s c h)

/-- **Cumulative accounting across snapshots.** The same, for histories in which the authorizer
    is replaced, any number of times and at any point — also right after a call that hit a
    limit — by what its own snapshot restores: the budget spent before stays spent. -/
theorem history_with_restores_within_budget (syms : SymbolTable) (blocks : List Block) (az : AuthorizerData) (lim : Limits) :
    ∀ (os : List AzOp) (s : AzState), Within lim s → Within lim (AzState.ops syms blocks az lim s os).1 := by
  intro os
  induction os with
  | nil => intro s h; exact h
  | cons o rest ih =>
    intro s h
    simp only [AzState.ops]
    apply ih
    cases o with
    | call c => exact within_call syms blocks az lim s c h
    | restore => exact h

/-- a restored authorizer whose iteration budget was used up refuses to run again -/
theorem restored_exhausted_refuses (syms : SymbolTable) (rules : List SRule) (lim : Limits) (s : AzState)
    (hd : s.done = false) (hpos : 0 < s.iterations) (hex : lim.maxIterations ≤ s.iterations) :
    s.restore.run syms rules lim = (s, .error .tooManyIterations) := by
  simp [AzState.restore, AzState.run, hd, hpos, hex]

/-- a call that does not end in a run-limit or engine error has completed the run: its
    counters are within the budget -/
theorem successful_call_within_budget (syms : SymbolTable) (blocks : List Block) (az : AuthorizerData) (lim : Limits)
    (s : AzState) (c : AzCall) (h : Within lim s)
    (hok : ∀ e, (s.call syms blocks az lim c).2 ≠ .decision (.runError e)) :
    (s.call syms blocks az lim c).1.facts.length < lim.maxFacts ∧
    ((s.call syms blocks az lim c).1.iterations = 0 ∨ (s.call syms blocks az lim c).1.iterations < lim.maxIterations) := by
  have hw := within_call syms blocks az lim s c h
  apply hw
  unfold AzState.call at hok ⊢
  simp only at hok ⊢
  cases hr : (s.run syms (worldRules blocks az) lim).2 with
  | error e => rw [hr] at hok; exact absurd rfl (hok e)
  | ok u =>
    cases u
    have hd := run_ok_done syms (worldRules blocks az) lim s hr
    simp only
    split
    · exact hd
    · split <;> exact hd

/-- once the iteration budget is used up, a further call does not run the engine again -/
theorem exhausted_budget_refuses (syms : SymbolTable) (rules : List SRule) (lim : Limits) (s : AzState)
    (hd : s.done = false) (hpos : 0 < s.iterations) (hex : lim.maxIterations ≤ s.iterations) :
    s.run syms rules lim = (s, .error .tooManyIterations) := by
  simp [AzState.run, hd, hpos, hex]

/-! ## non-vacuity -/

/-- eight initial facts, `max_facts = 5`, nothing to derive: refused (was accepted before the fix) -/
example : (run ⟨[]⟩ [] ⟨5, 100, none⟩ ((List.range 8).map fun i => ([0], (⟨1024, [.int (Int.ofNat i)]⟩ : Fact)))).result
    = .error .tooManyFacts := by decide

end Biscuit.C10
