/-
  C13 — authorizer snapshots and saved policies restore the same authorizer.

  A snapshot expresses every block, the authorizer's own block, the policies and the
  generated facts in one symbol table and one public-key table, and stores those tables;
  restoring re-inserts the stored strings and keys one by one.  The theorems show that this
  rebuilds exactly the same tables (so every index means the same string / key as when the
  snapshot was taken) and that the key-to-blocks map of the restored authorizer registers all
  blocks, including later ones.  Equality of behaviour is tied by the `snapshot` stream.
-/
import BiscuitModel.Lemmas.Intern
import BiscuitModel.Props.C07
namespace Biscuit.C13
open Biscuit

/-- `getSymbol (insert t s).1 (insert t s).2 = s` : an interned string resolves to itself -/
theorem intern_resolve (t : SymbolTable) (s : Str) :
    (t.insert s).1.getSymbol (t.insert s).2 = some s := by
  have hidx : ∀ (l : List Str) (i : Nat), indexOf s l = some i → l[i]? = some s := by
    intro l
    induction l with
    | nil => intro i h; simp [indexOf] at h
    | cons x xs ih =>
      intro i h
      simp only [indexOf] at h
      split at h
      · rename_i hx; injection h with h; subst h; simp [hx]
      · cases hi : indexOf s xs with
        | none => rw [hi] at h; simp at h
        | some j => rw [hi] at h; simp at h; subst h; simpa using ih j hi
  have hlt : ∀ (l : List Str) (i : Nat), indexOf s l = some i → i < l.length := by
    intro l i h
    have := hidx l i h
    exact (List.getElem?_eq_some_iff.mp this).1
  simp only [SymbolTable.insert]
  split
  · rename_i i hi
    have hl := hlt _ _ hi
    have : ¬ Gen.symbolOffset ≤ i := by
      have : Gen.defaultSymbols.length = 28 := by decide
      simp [Gen.symbolOffset]; omega
    simp only [SymbolTable.getSymbol, this, if_false]
    exact hidx _ _ hi
  · split
    · rename_i i hi
      simp only [SymbolTable.getSymbol, Nat.le_add_right, if_true, Nat.add_sub_cancel_left]
      exact hidx _ _ hi
    · simp only [SymbolTable.getSymbol, Nat.le_add_right, if_true, Nat.add_sub_cancel_left]
      simp

/-- indices that resolved before an insertion resolve to the same string after it -/
theorem insert_stable (t : SymbolTable) (s : Str) (i : Nat) (x : Str) (h : t.getSymbol i = some x) :
    (t.insert s).1.getSymbol i = some x := by
  simp only [SymbolTable.insert]
  split
  · exact h
  · split
    · exact h
    · simp only [SymbolTable.getSymbol] at h ⊢
      split
      · rename_i hi
        rw [if_pos hi] at h
        have hl : i - Gen.symbolOffset < t.symbols.length := (List.getElem?_eq_some_iff.mp h).1
        rw [List.getElem?_append_left hl]; exact h
      · rename_i hi
        rw [if_neg hi] at h; exact h

/-- `for symbol in world.symbols { symbols.insert(&symbol) }` -/
def restoreSymbols (stored : List Str) : SymbolTable := stored.foldl (fun (t : SymbolTable) s => (t.insert s).1) ⟨[]⟩

theorem restore_fold : ∀ (stored : List Str) (acc : List Str),
    (∀ s ∈ stored, indexOf s Gen.defaultSymbols = none) → (acc ++ stored).Nodup →
    stored.foldl (fun (t : SymbolTable) s => (t.insert s).1) (⟨acc⟩ : SymbolTable) = (⟨acc ++ stored⟩ : SymbolTable) := by
  intro stored
  induction stored with
  | nil => intro acc _ _; simp
  | cons s rest ih =>
    intro acc hd hn
    simp only [List.foldl_cons]
    have h1 : indexOf s Gen.defaultSymbols = none := hd s List.mem_cons_self
    have h2 : indexOf s acc = none := by
      cases hi : indexOf s acc with
      | none => rfl
      | some i =>
        exfalso
        have hm : s ∈ acc := by
          have : ∀ (l : List Str) (i : Nat), indexOf s l = some i → s ∈ l := by
            intro l
            induction l with
            | nil => intro i h; simp [indexOf] at h
            | cons x xs ihx =>
              intro i h
              simp only [indexOf] at h
              split at h
              · rename_i hx; rw [hx]; exact List.mem_cons_self
              · cases hj : indexOf s xs with
                | none => rw [hj] at h; simp at h
                | some j => exact List.mem_cons_of_mem _ (ihx j hj)
          exact this acc i hi
        exact ((List.nodup_append.mp hn).2.2 s hm s List.mem_cons_self) rfl
    have : (SymbolTable.insert ⟨acc⟩ s).1 = (⟨acc ++ [s]⟩ : SymbolTable) := by simp [SymbolTable.insert, h1, h2]
    rw [this, ih (acc ++ [s]) (fun x hx => hd x (List.mem_cons_of_mem _ hx)) (by simpa [List.append_assoc] using hn)]
    simp [List.append_assoc]

/-- **Restoring the symbol table of a snapshot rebuilds exactly the table the snapshot was
    written against** — for every table produced by interning (well-formed: no default symbol,
    no duplicate), so every symbol index stored in the snapshot means the same string. -/
theorem restore_symbols (t : ITable) (hw : WFt t) : restoreSymbols t.syms.symbols = t.syms := by
  unfold restoreSymbols
  rw [restore_fold t.syms.symbols [] hw.noDefault (by simpa using hw.symsNodup)]
  simp

/-- `PublicKeys::insert` of each stored key -/
def restoreKeys (stored : List Nat) : List Nat := stored.foldl (fun t k => (internKey ⟨⟨[]⟩, t⟩ k).1.keys) []

theorem restore_keys_fold : ∀ (stored acc : List Nat), (acc ++ stored).Nodup →
    stored.foldl (fun t k => (internKey ⟨⟨[]⟩, t⟩ k).1.keys) acc = acc ++ stored := by
  intro stored
  induction stored with
  | nil => intro acc _; simp
  | cons k rest ih =>
    intro acc hn
    simp only [List.foldl_cons]
    have hk : keyIndex k acc = none := by
      cases hi : keyIndex k acc with
      | none => rfl
      | some i =>
        exfalso
        have hm : k ∈ acc := by
          have : ∀ (l : List Nat) (i : Nat), keyIndex k l = some i → k ∈ l := by
            intro l
            induction l with
            | nil => intro i h; simp [keyIndex] at h
            | cons x xs ihx =>
              intro i h
              simp only [keyIndex] at h
              split at h
              · rename_i hx; rw [hx]; exact List.mem_cons_self
              · cases hj : keyIndex k xs with
                | none => rw [hj] at h; simp at h
                | some j => exact List.mem_cons_of_mem _ (ihx j hj)
          exact this acc i hi
        exact ((List.nodup_append.mp hn).2.2 k hm k List.mem_cons_self) rfl
    have : (internKey ⟨⟨[]⟩, acc⟩ k).1.keys = acc ++ [k] := by simp [internKey, hk]
    rw [this, ih (acc ++ [k]) (by simpa [List.append_assoc] using hn)]
    simp [List.append_assoc]

/-- **and the public-key table**: every key index stored in the snapshot means the same key -/
theorem restore_keys (t : ITable) (hw : WFt t) : restoreKeys t.keys = t.keys := by
  unfold restoreKeys
  rw [restore_keys_fold t.keys [] (by simpa using hw.keysNodup)]
  simp

/-- the table a snapshot is written against is well-formed: it is produced by interning -/
theorem snapshot_table_wf (pool : List Str) (blocks : List Block) : WFt (internList (internBlockBuild pool) ITable.empty blocks).1 :=
  (internList_good _ (internBlockBuild_good pool) blocks ITable.empty).2 wf_empty

/-- **The key-to-blocks map of the restored authorizer registers every block under its key
    before any scope is resolved**: a scope naming the key of a *later* block trusts it, as in
    the original authorizer. -/
theorem key_map_restored (blocks : List Block) (k n : Nat) (h : n < blocks.length) (hn : n ≠ 0)
    (hk : blocks[n].extKey = some k) (scopes : List Scope) (hs : Scope.publicKey k ∈ scopes) (dflt : List Nat) (cur : Nat) :
    n ∈ trustedFromScopes scopes dflt cur (keyMap blocks) := by
  rw [C04.trustedFromScopes_spec]
  have hne : scopes ≠ [] := by intro e; rw [e] at hs; cases hs
  simp only [hne, if_false]
  exact .inr (.inr (.inr (.inr ⟨k, hs, (C07.keyMap_spec blocks k n).mpr ⟨h, hn, hk⟩⟩)))

end Biscuit.C13
