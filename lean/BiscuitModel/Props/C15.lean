/-
  C15 — revocation identifiers are stable, unique and not malleable.
-/
import BiscuitModel.Props.C02
namespace Biscuit.C15
open Biscuit Biscuit.C02

/-- the identifier of a block is its signature -/
theorem revocation_ids_are_signatures (c : Container) :
    c.revocationIds = c.authority.sig :: c.blocks.map (·.sig) := rfl

/-- **Every operation keeps the identifiers of the existing blocks, in order**: appending adds
    exactly one identifier at the end, sealing adds none. -/
theorem op_ids_prefix (S : Scheme) (c c' : Container) (op : TokOp) (h : applyOp S c op = some c') :
    ∃ suffix, c'.revocationIds = c.revocationIds ++ suffix ∧ suffix.length ≤ 1 := by
  cases op with
  | append a sk d e dv =>
    simp only [applyOp, appendBlock] at h
    split at h
    · cases h
    · split at h
      · cases h
      · split at h
        · cases h
        · injection h with h; subst h
          simp only [Container.revocationIds, List.map_append, List.map_cons, List.map_nil, ← List.cons_append]
          exact ⟨_, rfl, by simp⟩
  | sealOp =>
    simp only [applyOp, sealToken] at h
    split at h
    · cases h
    · injection h with h; subst h
      exact ⟨[], by simp [Container.revocationIds], by simp⟩

/-- **Stability over any history**: after any sequence of attenuations, third-party appends and
    a seal, the identifier list has the original list as a prefix. -/
theorem ids_prefix_stable (S : Scheme) :
    ∀ (ops : List TokOp) (c c' : Container), runOps S c ops = some c' →
      ∃ suffix, c'.revocationIds = c.revocationIds ++ suffix := by
  intro ops
  induction ops with
  | nil => intro c c' h; simp [runOps] at h; subst h; exact ⟨[], by simp⟩
  | cons op rest ih =>
    intro c c' h
    simp only [runOps] at h
    cases hop : applyOp S c op with
    | none => rw [hop] at h; cases h
    | some c1 =>
      rw [hop] at h
      obtain ⟨s1, h1, _⟩ := op_ids_prefix S c c1 op hop
      obtain ⟨s2, h2⟩ := ih c1 c' h
      exact ⟨s1 ++ s2, by rw [h2, h1, List.append_assoc]⟩

/-! ## non-malleability for schemes with unique signatures (ed25519 strict verification) -/

/-- at most one signature verifies for a key and a message -/
def Unique (S : Scheme) : Prop :=
  ∀ pk m s s', S.verify pk m s = true → S.verify pk m s' = true → s = s'

/-- the same signed content: everything but the blocks' own signatures -/
def sameBlock (b b' : SBlock) : Prop :=
  b.data = b'.data ∧ b.nextKey = b'.nextKey ∧ b.ext = b'.ext ∧ b.version = b'.version

theorem blockPayload_congr (b b' : SBlock) (p : Bytes) (h : sameBlock b b') :
    blockPayload b p = blockPayload b' p := by
  obtain ⟨h1, h2, h3, h4⟩ := h
  simp only [blockPayload, h1, h2, h3, h4]

theorem authorityPayload_congr (b b' : SBlock) (h : sameBlock b b') : authorityPayload b = authorityPayload b' := by
  obtain ⟨h1, h2, h3, h4⟩ := h
  simp only [authorityPayload, h1, h2, h3, h4]

theorem chain_sigs_unique (S : Scheme) (hU : Unique S) :
    ∀ (bs bs' : List SBlock) (pk : PubKey) (sig : Bytes) (a a' l l' : SBlock),
      bs.length = bs'.length → (∀ i (h : i < bs.length) (h' : i < bs'.length), sameBlock bs[i] bs'[i]) →
      verifyChain S pk sig a bs = some l → verifyChain S pk sig a' bs' = some l' →
      bs.map (·.sig) = bs'.map (·.sig) := by
  intro bs
  induction bs with
  | nil =>
    intro bs' pk sig a a' l l' hlen _ _ _
    cases bs' with
    | nil => rfl
    | cons y ys => simp at hlen
  | cons x xs ih =>
    intro bs' pk sig a a' l l' hlen hsame h h'
    cases bs' with
    | nil => simp at hlen
    | cons y ys =>
      simp only [verifyChain] at h h'
      split at h
      · rename_i hx
        split at h'
        · rename_i hy
          have hxy : sameBlock x y := hsame 0 (by simp) (by simp)
          -- both blocks verify over the same payload: their signatures coincide
          have hsig : x.sig = y.sig := by
            simp only [verifyBlock] at hx hy
            rw [blockPayload_congr x y sig hxy] at hx
            cases hp : blockPayload y sig with
            | none => rw [hp] at hy; cases hy
            | some p =>
              rw [hp] at hx hy
              simp only [Bool.and_eq_true] at hx hy
              exact hU pk p _ _ hx.1 hy.1
          have hk : x.nextKey = y.nextKey := hxy.2.1
          rw [hk, hsig] at h
          have := ih ys y.nextKey y.sig x y l l' (by simpa using hlen)
            (fun i hi hi' => hsame (i + 1) (by simp; omega) (by simp; omega)) h h'
          simp [hsig, this]
        · cases h'
      · cases h

/-- **No accepted variant presents different identifiers for the same blocks** when signatures
    are unique: two tokens that verify under the same root key and carry the same signed
    content have the same revocation identifiers. -/
theorem non_malleable_strict (S : Scheme) (hU : Unique S) (root : PubKey) (c c' : Container)
    (ha : sameBlock c.authority c'.authority) (hlen : c.blocks.length = c'.blocks.length)
    (hb : ∀ i (h : i < c.blocks.length) (h' : i < c'.blocks.length), sameBlock c.blocks[i] c'.blocks[i])
    (hv : verifyToken S root c = true) (hv' : verifyToken S root c' = true) :
    c.revocationIds = c'.revocationIds := by
  simp only [verifyToken, Bool.and_eq_true] at hv hv'
  obtain ⟨⟨_, hauth⟩, hrest⟩ := hv
  obtain ⟨⟨_, hauth'⟩, hrest'⟩ := hv'
  have hsig : c.authority.sig = c'.authority.sig := by
    simp only [verifyAuthority] at hauth hauth'
    rw [authorityPayload_congr _ _ ha] at hauth
    cases hp : authorityPayload c'.authority with
    | none => rw [hp] at hauth'; cases hauth'
    | some p => rw [hp] at hauth hauth'; exact hU root p _ _ hauth hauth'
  cases hch : verifyChain S c.authority.nextKey c.authority.sig c.authority c.blocks with
  | none => rw [hch] at hrest; cases hrest
  | some l =>
    cases hch' : verifyChain S c'.authority.nextKey c'.authority.sig c'.authority c'.blocks with
    | none => rw [hch'] at hrest'; cases hrest'
    | some l' =>
      rw [ha.2.1, hsig] at hch
      have := chain_sigs_unique S hU c.blocks c'.blocks _ _ _ _ l l' hlen hb hch hch'
      simp [Container.revocationIds, hsig, this]

/-! ## the full statement fails for schemes that accept two signatures (ECDSA: (r, s) and (r, n−s)) -/

/-- a scheme in which every signature has a second valid form (its bytes with the last one flipped) -/
def twoFormScheme : Scheme where
  pub := fun alg sk => some ⟨alg, sk⟩
  sign := fun _ sk m => sk ++ m ++ [0]
  verify := fun pk m s => s == pk.bytes ++ m ++ [0] || s == pk.bytes ++ m ++ [1]

def wTok : Container := ⟨none, ⟨[7], ⟨1, [5]⟩, [9] ++ [7] ++ Gen.le32 1 ++ [5] ++ [0], none, none⟩, [], .secret [5]⟩
def wTok' : Container := ⟨none, ⟨[7], ⟨1, [5]⟩, [9] ++ [7] ++ Gen.le32 1 ++ [5] ++ [1], none, none⟩, [], .secret [5]⟩

/-- the same block, both tokens accepted under the same root key, different identifiers:
    the identifier of the last block of an unsealed token is malleable when the scheme is -/
theorem ecdsa_last_id_witness :
    verifyToken twoFormScheme ⟨1, [9]⟩ wTok = true ∧ verifyToken twoFormScheme ⟨1, [9]⟩ wTok' = true ∧
    sameBlock wTok.authority wTok'.authority ∧ wTok.revocationIds ≠ wTok'.revocationIds := by
  refine ⟨by decide, by decide, ⟨rfl, rfl, rfl, rfl⟩, by decide⟩

end Biscuit.C15
