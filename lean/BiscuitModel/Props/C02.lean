/-
  C02 — every token the API builds verifies; every signature in it is over the payload
  layout the Biscuit specification fixes for that block's signature version.
-/
import BiscuitModel.Model.Crypto
import BiscuitModel.Model.Wire
import BiscuitModel.Lemmas.WireDec
namespace Biscuit.C02
open Biscuit

/-! ## the layouts the code builds are the layouts of the specification
    (`Gen.*` is regenerated from crypto/mod.rs on every run; `Spec.*` is written from the spec) -/

theorem gen_blockV0_eq_spec (data : Bytes) (k : PubKey) (ext : Option Bytes) (p s : Bytes) (v : Nat) :
    Gen.blockV0 data k.bytes p s k.alg v ext = Spec.blockV0 data ext k := by
  cases ext <;> simp [Gen.blockV0, Spec.blockV0]

theorem gen_authorityV0_eq_spec (data : Bytes) (k : PubKey) (p s : Bytes) (v : Nat) (e : Option Bytes) :
    Gen.authorityV0 data k.bytes p s k.alg v e = Spec.blockV0 data none k := by
  simp [Gen.authorityV0, Spec.blockV0]

theorem gen_authorityV1_eq_spec (data : Bytes) (k : PubKey) (p s : Bytes) (v : Nat) (e : Option Bytes) :
    Gen.authorityV1 data k.bytes p s k.alg v e = Spec.authorityV1 v data k := by
  simp [Gen.authorityV1, Spec.authorityV1, Spec.tagBlockVersion, Spec.tagPayload, Spec.tagAlgorithm, Spec.tagNextKey]

theorem gen_blockV1_eq_spec (data : Bytes) (k : PubKey) (prevSig s : Bytes) (v : Nat) (ext : Option Bytes) :
    Gen.blockV1 data k.bytes prevSig s k.alg v ext = Spec.blockV1 v data k prevSig ext := by
  cases ext <;>
    simp [Gen.blockV1, Spec.blockV1, Spec.tagBlockVersion, Spec.tagPayload, Spec.tagAlgorithm, Spec.tagNextKey,
      Spec.tagPrevSig, Spec.tagExternalSig]

theorem gen_externalV1_eq_spec (data prevSig kb s : Bytes) (alg v : Nat) (e : Option Bytes) :
    Gen.externalV1 data kb prevSig s alg v e = Spec.externalV1 v data prevSig := by
  simp [Gen.externalV1, Spec.externalV1, Spec.tagExternalVersion, Spec.tagPayload, Spec.tagPrevSig]

theorem gen_sealV0_eq_spec (data : Bytes) (k : PubKey) (p sig : Bytes) (v : Nat) (e : Option Bytes) :
    Gen.sealV0 data k.bytes p sig k.alg v e = Spec.sealed data k sig := by
  simp [Gen.sealV0, Spec.sealed]

/-- **Every signature payload the verifier and the signer compute is the specification's.** -/
theorem payloads_eq_spec (b : SBlock) (prevSig : Bytes) :
    (b.version.getD 0 = 0 → blockPayload b prevSig = some (Spec.blockV0 b.data (b.ext.map (·.sig)) b.nextKey) ∧
                           authorityPayload b = some (Spec.blockV0 b.data (b.ext.map (·.sig)) b.nextKey)) ∧
    (b.version.getD 0 = 1 → blockPayload b prevSig = some (Spec.blockV1 1 b.data b.nextKey prevSig (b.ext.map (·.sig))) ∧
                           authorityPayload b = some (Spec.authorityV1 1 b.data b.nextKey)) ∧
    externalPayload b prevSig = Spec.externalV1 (b.version.getD 0) b.data prevSig ∧
    sealPayload b = Spec.sealed b.data b.nextKey b.sig := by
  refine ⟨?_, ?_, ?_, ?_⟩
  · intro h
    simp [blockPayload, authorityPayload, h, gen_blockV0_eq_spec]
  · intro h
    simp [blockPayload, authorityPayload, h, gen_blockV1_eq_spec, gen_authorityV1_eq_spec]
  · simp only [externalPayload, gen_externalV1_eq_spec]
  · simp only [sealPayload, gen_sealV0_eq_spec]

/-- versions other than 0 and 1 are refused -/
theorem unknown_signature_version_refused (b : SBlock) (prevSig : Bytes) (h : 2 ≤ b.version.getD 0) :
    blockPayload b prevSig = none ∧ authorityPayload b = none := by
  simp only [blockPayload, authorityPayload]
  match hv : b.version.getD 0 with
  | 0 => omega
  | 1 => omega
  | n + 2 => exact ⟨rfl, rfl⟩

/-! ## signature version chosen for a new block -/

theorem sigVersion_third_party (a b : Nat) (dv : Option Nat) (prev : List Nat) :
    sigVersion a b true dv prev = Gen.thirdPartySignatureVersion := by simp [sigVersion]

theorem sigVersion_datalog33 (a b v : Nat) (prev : List Nat) (h : Gen.datalog33 ≤ v) :
    sigVersion a b false (some v) prev = Gen.datalog33SignatureVersion := by simp [sigVersion, needs33, h]

theorem sigVersion_non_ed25519 (a b : Nat) (dv : Option Nat) (prev : List Nat)
    (hdv : needs33 dv = false) (h : a ≠ ed25519 ∨ b ≠ ed25519) :
    sigVersion a b false dv prev = Gen.nonEd25519SignatureVersion := by
  have h2 : (a == ed25519 && b == ed25519) = false := by
    rcases h with h | h <;> simp [h]
  simp [sigVersion, hdv, h2]

theorem sigVersion_ed25519 (dv : Option Nat) (prev : List Nat) (hdv : needs33 dv = false) :
    sigVersion ed25519 ed25519 false dv prev = prev.foldl max 0 := by
  simp [sigVersion, hdv]

theorem le_foldl_max (prev : List Nat) : ∀ (acc x : Nat), x ∈ prev ∨ x ≤ acc → x ≤ prev.foldl max acc := by
  induction prev with
  | nil => intro acc x h; rcases h with h | h; cases h; simpa using h
  | cons y ys ih =>
    intro acc x h
    simp only [List.foldl_cons]
    apply ih
    rcases h with h | h
    · cases h with
      | head => right; exact Nat.le_max_right _ _
      | tail _ h => left; exact h
    · right; exact Nat.le_trans h (Nat.le_max_left _ _)

theorem foldl_max_le_one : ∀ (l : List Nat) (acc : Nat), acc ≤ 1 → (∀ x ∈ l, x ≤ 1) → l.foldl max acc ≤ 1 := by
  intro l
  induction l with
  | nil => intro acc h _; simpa using h
  | cons y ys ih =>
    intro acc h hl
    simp only [List.foldl_cons]
    exact ih _ (Nat.max_le.mpr ⟨h, hl y List.mem_cons_self⟩) (fun x hx => hl x (List.mem_cons_of_mem _ hx))

/-- the chained scheme, once used, is kept: the version of a new block is at least every earlier one -/
theorem sigVersion_never_back (a b : Nat) (hasExt : Bool) (dv : Option Nat) (prev : List Nat) (x : Nat) (hx : x ∈ prev)
    (h1 : x ≤ 1) : x ≤ sigVersion a b hasExt dv prev := by
  simp only [sigVersion]
  split
  · simpa [Gen.thirdPartySignatureVersion] using h1
  · split
    · simpa [Gen.datalog33SignatureVersion] using h1
    · split
      · simpa [Gen.nonEd25519SignatureVersion] using h1
      · exact le_foldl_max prev 0 x (.inl hx)

theorem sigVersion_le_one (a b : Nat) (hasExt : Bool) (dv : Option Nat) (prev : List Nat)
    (hp : ∀ x ∈ prev, x ≤ 1) : sigVersion a b hasExt dv prev ≤ 1 := by
  simp only [sigVersion]
  split
  · simp [Gen.thirdPartySignatureVersion]
  · split
    · simp [Gen.datalog33SignatureVersion]
    · split
      · simp [Gen.nonEd25519SignatureVersion]
      · exact foldl_max_le_one prev 0 (by omega) hp

/-! ## tokens built through the API verify -/

/-- the only assumption on the scheme: a signature made with a secret verifies under its public key -/
structure Correct (S : Scheme) : Prop where
  /-- a signature made with a secret verifies under its public key -/
  verifies : ∀ alg sk pk m, S.pub alg sk = some pk → S.verify pk m (S.sign alg sk m) = true
  /-- the public key of a secret of algorithm `alg` is tagged `alg` -/
  tagged : ∀ alg sk pk, S.pub alg sk = some pk → pk.alg = alg

theorem verifyChain_append (S : Scheme) (b : SBlock) :
    ∀ (bs : List SBlock) (pk : PubKey) (sig : Bytes) (last : SBlock),
      verifyChain S pk sig last (bs ++ [b]) =
        match verifyChain S pk sig last bs with
        | some l => if verifyBlock S (if bs.isEmpty then pk else l.nextKey) (if bs.isEmpty then sig else l.sig) b then some b else none
        | none => none := by
  intro bs
  induction bs with
  | nil => intro pk sig last; simp [verifyChain]
  | cons x xs ih =>
    intro pk sig last
    simp only [List.cons_append, verifyChain]
    split
    · rw [ih]
      cases hxs : xs with
      | nil => simp [verifyChain]
      | cons y ys => simp
    · rfl

/-- the chain walk as it is started by `verify_inner`: from a block, with its next key and signature -/
theorem verifyChain_snoc (S : Scheme) (b : SBlock) :
    ∀ (bs : List SBlock) (a : SBlock),
      verifyChain S a.nextKey a.sig a (bs ++ [b]) =
        match verifyChain S a.nextKey a.sig a bs with
        | some l => if verifyBlock S l.nextKey l.sig b then some b else none
        | none => none := by
  intro bs
  induction bs with
  | nil => intro a; simp [verifyChain]
  | cons x xs ih =>
    intro a
    simp only [List.cons_append, verifyChain]
    split
    · exact ih x
    · rfl

theorem wireVersion_getD (v : Nat) : (wireVersion v).getD 0 = v := by
  unfold wireVersion; split <;> simp; omega

theorem authorityPayload_sig (b : SBlock) (s : Bytes) : authorityPayload { b with sig := s } = authorityPayload b := rfl

theorem blockPayload_sig (b : SBlock) (s prev : Bytes) : blockPayload { b with sig := s } prev = blockPayload b prev := rfl

/-- **A freshly built token verifies under the public part of the root key.** -/
theorem new_token_verifies (S : Scheme) (hS : Correct S) (rk : Option Nat) (rootAlg : Nat) (rootSk : Bytes) (root : PubKey)
    (hroot : S.pub rootAlg rootSk = some root) (nextAlg : Nat) (nextSk data : Bytes) (dv : Nat) (c : Container)
    (h : newToken S rk rootAlg rootSk nextAlg nextSk data dv = some c) : verifyToken S root c = true := by
  unfold newToken at h
  split at h
  · cases h
  · rename_i nk hnk
    simp only at h
    split at h
    · cases h
    · rename_i p hp
      injection h with h; subst h
      have hp' : authorityPayload ⟨data, nk, S.sign rootAlg rootSk p, none,
          wireVersion (sigVersion rootAlg nextAlg false (some dv) [])⟩ = some p := hp
      have halg : nk.alg = nextAlg := hS.tagged _ _ _ hnk
      simp only [verifyToken, wellFormed, verifyAuthority, hp', verifyChain, verifyProof, halg, hnk,
        hS.verifies rootAlg rootSk root p hroot]
      simp

/-- what `append_third_party` checks before adding the block: the external signature verifies
    under the stated key over the block's bytes and the signature of the block it follows -/
def ExtOK (S : Scheme) (c : Container) (data : Bytes) (ext : Option ExtSig) : Prop :=
  ∀ e, ext = some e → S.verify e.key (Spec.externalV1 Gen.thirdPartySignatureVersion data c.lastBlock.sig) e.sig = true

theorem lastBlock_of_chain (S : Scheme) :
    ∀ (bs : List SBlock) (pk : PubKey) (sig : Bytes) (a l : SBlock),
      verifyChain S pk sig a bs = some l → l = bs.getLast?.getD a := by
  intro bs
  induction bs with
  | nil => intro pk sig a l h; simp [verifyChain] at h; simp [h]
  | cons x xs ih =>
    intro pk sig a l h
    simp only [verifyChain] at h
    split at h
    · cases xs with
      | nil => simp [verifyChain] at h; simp [h]
      | cons y ys =>
        have := ih _ _ _ _ h
        rw [this]
        simp [List.getLast?_cons_cons, List.getLast?_eq_getLast]
    · cases h

/-- **Appending a block (first- or third-party) to a token that verifies gives a token that verifies.** -/
theorem append_verifies (S : Scheme) (hS : Correct S) (root : PubKey) (c c' : Container)
    (hv : verifyToken S root c = true) (nextAlg : Nat) (nextSk data : Bytes) (ext : Option ExtSig) (dv : Option Nat)
    (hext : ExtOK S c data ext)
    (h : appendBlock S c nextAlg nextSk data ext dv = some c') : verifyToken S root c' = true := by
  unfold appendBlock at h
  split at h
  · cases h
  · rename_i sk hproof
    split at h
    · cases h
    · rename_i nk hnk
      simp only at h
      split at h
      · cases h
      · rename_i p hp
        injection h with h; subst h
        -- unpack the validity of `c`
        simp only [verifyToken, Bool.and_eq_true] at hv
        obtain ⟨⟨hwf, hauth⟩, hrest⟩ := hv
        cases hch : verifyChain S c.authority.nextKey c.authority.sig c.authority c.blocks with
        | none => rw [hch] at hrest; cases hrest
        | some l =>
          rw [hch] at hrest
          have hl : l = c.lastBlock := lastBlock_of_chain S _ _ _ _ _ hch
          -- the proof of `c` is the secret of the last next key
          rw [hproof] at hrest
          simp only [verifyProof] at hrest
          cases hpub : S.pub l.nextKey.alg sk with
          | none => rw [hpub] at hrest; cases hrest
          | some lk =>
            rw [hpub] at hrest
            have hlk : lk = l.nextKey := by simpa using hrest
            subst hl
            subst hlk
            have halg : nk.alg = nextAlg := hS.tagged _ _ _ hnk
            have hsig := hS.verifies _ _ _ p hpub
            -- the new block verifies under the last next key
            have hblk : verifyBlock S c.lastBlock.nextKey c.lastBlock.sig
                ⟨data, nk, S.sign c.lastBlock.nextKey.alg sk p, ext,
                  wireVersion (sigVersion c.lastBlock.nextKey.alg nextAlg ext.isSome dv
                    ((c.authority :: c.blocks).map fun b => b.version.getD 0))⟩ = true := by
              have hp' : blockPayload ⟨data, nk, S.sign c.lastBlock.nextKey.alg sk p, ext,
                  wireVersion (sigVersion c.lastBlock.nextKey.alg nextAlg ext.isSome dv
                    ((c.authority :: c.blocks).map fun b => b.version.getD 0))⟩ c.lastBlock.sig = some p := hp
              simp only [verifyBlock, hp', hsig, Bool.true_and]
              cases hext' : ext with
              | none => rfl
              | some e =>
                have := hext e hext'
                simp only [externalPayload, gen_externalV1_eq_spec, hext', Option.isSome_some, sigVersion_third_party,
                  wireVersion_getD]
                exact this
            have hwf' : wellFormed { c with
                blocks := c.blocks ++ [⟨data, nk, S.sign c.lastBlock.nextKey.alg sk p, ext,
                  wireVersion (sigVersion c.lastBlock.nextKey.alg nextAlg ext.isSome dv
                    ((c.authority :: c.blocks).map fun b => b.version.getD 0))⟩],
                proof := .secret nextSk } = true := by
              simp only [wellFormed, Bool.and_eq_true, List.all_append, List.all_cons, List.all_nil, Bool.and_true] at hwf ⊢
              refine ⟨hwf.1, hwf.2, ?_⟩
              cases ext with
              | none => simp
              | some e => simp [sigVersion_third_party, wireVersion, Gen.thirdPartySignatureVersion]
            simp only [verifyToken, hwf', hauth, Bool.true_and, verifyChain_snoc, hch, hblk, if_true, verifyProof,
              halg, hnk]
            simp

/-- **Sealing a token that verifies gives a token that verifies.** -/
theorem seal_verifies (S : Scheme) (hS : Correct S) (root : PubKey) (c c' : Container)
    (hv : verifyToken S root c = true) (h : sealToken S c = some c') : verifyToken S root c' = true := by
  unfold sealToken at h
  split at h
  · cases h
  · rename_i sk hproof
    injection h with h; subst h
    simp only [verifyToken, Bool.and_eq_true] at hv ⊢
    obtain ⟨⟨hwf, hauth⟩, hrest⟩ := hv
    cases hch : verifyChain S c.authority.nextKey c.authority.sig c.authority c.blocks with
    | none => rw [hch] at hrest; cases hrest
    | some l =>
      rw [hch] at hrest
      have hl : l = c.lastBlock := lastBlock_of_chain S _ _ _ _ _ hch
      rw [hproof] at hrest
      simp only [verifyProof] at hrest
      cases hpub : S.pub l.nextKey.alg sk with
      | none => rw [hpub] at hrest; cases hrest
      | some lk =>
        rw [hpub] at hrest
        have hlk : lk = l.nextKey := by simpa using hrest
        subst hl
        subst hlk
        refine ⟨⟨hwf, hauth⟩, ?_⟩
        simp only [hch, verifyProof]
        exact hS.verifies _ _ _ _ hpub

/-! ## any history of operations -/

inductive TokOp where
  | append (nextAlg : Nat) (nextSk data : Bytes) (ext : Option ExtSig) (datalogVersion : Option Nat)
  | sealOp

def applyOp (S : Scheme) (c : Container) : TokOp → Option Container
  | .append a sk d e dv => appendBlock S c a sk d e dv
  | .sealOp => sealToken S c

/-- the operations a history applies carry external signatures that `append_third_party` accepts -/
def OpOK (S : Scheme) (c : Container) : TokOp → Prop
  | .append _ _ d e _ => ExtOK S c d e
  | .sealOp => True

/-- run a history; `none` as soon as an operation is refused -/
def runOps (S : Scheme) : Container → List TokOp → Option Container
  | c, [] => some c
  | c, op :: rest =>
    match applyOp S c op with
    | some c' => runOps S c' rest
    | none => none

/-- every operation of the history is acceptable at the point where it is applied -/
def OpsOK (S : Scheme) : Container → List TokOp → Prop
  | _, [] => True
  | c, op :: rest => OpOK S c op ∧ ∀ c', applyOp S c op = some c' → OpsOK S c' rest

/-- **Every token produced by building, attenuating, adding third-party blocks and sealing —
    in any order, any number of times, with any mix of algorithms — verifies under the issuing
    root key.** -/
theorem built_tokens_verify (S : Scheme) (hS : Correct S) (root : PubKey) :
    ∀ (ops : List TokOp) (c c' : Container), verifyToken S root c = true → OpsOK S c ops →
      runOps S c ops = some c' → verifyToken S root c' = true := by
  intro ops
  induction ops with
  | nil => intro c c' hv _ h; simp [runOps] at h; subst h; exact hv
  | cons op rest ih =>
    intro c c' hv hok h
    simp only [runOps] at h
    cases hop : applyOp S c op with
    | none => rw [hop] at h; cases h
    | some c1 =>
      rw [hop] at h
      have hv1 : verifyToken S root c1 = true := by
        cases op with
        | append a sk d e dv => exact append_verifies S hS root c c1 hv a sk d e dv hok.1 hop
        | sealOp => exact seal_verifies S hS root c c1 hv hop
      exact ih c1 c' hv1 (hok.2 c1 hop) h

/-! ## non-vacuity: a toy scheme that is correct, and a three-block token with a third-party block -/

def toyScheme : Scheme where
  pub := fun alg sk => some ⟨alg, sk.map (· + 1)⟩
  sign := fun _ sk m => sk ++ m
  verify := fun pk m s => s == pk.bytes.map (· - 1) ++ m

theorem toy_correct : Correct toyScheme := by
  refine ⟨?_, ?_⟩
  · intro alg sk pk m h
    simp only [toyScheme] at h ⊢
    injection h with h; subst h
    simp [List.map_map, Function.comp_def]
  · intro alg sk pk h
    simp only [toyScheme] at h
    injection h with h; subst h; rfl

example : ∃ c, newToken toyScheme none 0 [1] 1 [2] [10, 11] 3 = some c ∧ c.blocks = [] := ⟨_, rfl, rfl⟩

/-! ## the wire format round-trips -/

/-- **C02, byte level.** Decoding the protobuf encoding of a container — authority block, any
    number of blocks, third-party signatures, versions, root key id, either kind of proof —
    gives the container back, for every container whose fields fit their length prefixes.
    The decoder follows prost (fields in any order, last occurrence wins, repeated fields
    accumulate); the encoder is the one whose bytes are compared with `to_vec()` on every
    run. -/
theorem wire_round_trip (c : Container) (h : Wire.SmallContainer c) :
    Wire.decContainer (Wire.encContainer c) = some c := Wire.decContainer_enc c h

/-- a three-block token with a third-party block, a version and a sealed proof -/
example :
    Wire.decContainer (Wire.encContainer
      ⟨some 7, ⟨[1, 2], ⟨0, [9]⟩, [3], none, none⟩,
        [⟨[4], ⟨1, [8, 8]⟩, [5], some ⟨⟨0, [6]⟩, [7]⟩, some 1⟩, ⟨[], ⟨0, []⟩, [], none, some 0⟩], .sealed [1, 1]⟩)
      = some ⟨some 7, ⟨[1, 2], ⟨0, [9]⟩, [3], none, none⟩,
        [⟨[4], ⟨1, [8, 8]⟩, [5], some ⟨⟨0, [6]⟩, [7]⟩, some 1⟩, ⟨[], ⟨0, []⟩, [], none, some 0⟩], .sealed [1, 1]⟩ := by
  apply wire_round_trip
  refine ⟨(fun k hk => by cases hk; decide), ?_, ?_, ?_⟩
  · exact ⟨by decide, ⟨by decide, by decide⟩, by decide, (fun e he => by cases he), (fun v hv => by cases hv)⟩
  · intro b hb
    simp only [List.mem_cons, List.mem_nil_iff, or_false] at hb
    rcases hb with rfl | rfl
    · refine ⟨by decide, ⟨by decide, by decide⟩, by decide, ?_, ?_⟩
      · intro e he; cases he; exact ⟨⟨by decide, by decide⟩, by decide⟩
      · intro v hv; cases hv; decide
    · exact ⟨by decide, ⟨by decide, by decide⟩, by decide, (fun e he => by cases he), (fun v hv => by cases hv; decide)⟩
  · show ([1, 1] : Bytes).length < 2 ^ 32
    decide

end Biscuit.C02
