/-
  C04 — authorization decisions follow the scoped-Datalog semantics.
-/
import BiscuitModel.Lemmas.Authorizer
namespace Biscuit.C04
open Biscuit

/-! ## trust: which origins a rule, check or policy can see -/

theorem mem_scopeStep (cur : Nat) (km : KeyMap) (acc : List Nat) (s : Scope) (x : Nat) :
    x ∈ scopeStep cur km acc s ↔
      x ∈ acc ∨ (s = .authority ∧ x = 0) ∨ (s = .previous ∧ cur ≠ authorizerId ∧ x ≤ cur) ∨
        (∃ k, s = .publicKey k ∧ x ∈ KeyMap.get km k) := by
  cases s with
  | authority => simp [scopeStep, mem_origin_insert]; constructor <;> (intro h; rcases h with h | h <;> simp [h])
  | previous =>
    by_cases hc : cur = authorizerId
    · simp [scopeStep, hc]
    · simp [scopeStep, hc, mem_origin_union, rangeTo, Nat.lt_add_one_iff]
  | publicKey k => simp [scopeStep, mem_origin_union]

/-- membership in the accumulator of `from_scopes`' loop -/
theorem fold_scopes_mem (cur : Nat) (km : KeyMap) (x : Nat) :
    ∀ (scopes : List Scope) (acc : List Nat),
      x ∈ scopes.foldl (scopeStep cur km) acc ↔
        x ∈ acc ∨ (Scope.authority ∈ scopes ∧ x = 0) ∨
          (Scope.previous ∈ scopes ∧ cur ≠ authorizerId ∧ x ≤ cur) ∨
          (∃ k, Scope.publicKey k ∈ scopes ∧ x ∈ KeyMap.get km k) := by
  intro scopes
  induction scopes with
  | nil => intro acc; simp
  | cons s rest ih =>
    intro acc
    simp only [List.foldl_cons, ih, mem_scopeStep, List.mem_cons]
    constructor
    · rintro ((h | h | h | ⟨k, hk, hx⟩) | h | h | ⟨k, hk, hx⟩)
      · exact .inl h
      · exact .inr (.inl ⟨.inl h.1.symm, h.2⟩)
      · exact .inr (.inr (.inl ⟨.inl h.1.symm, h.2⟩))
      · exact .inr (.inr (.inr ⟨k, .inl hk.symm, hx⟩))
      · exact .inr (.inl ⟨.inr h.1, h.2⟩)
      · exact .inr (.inr (.inl ⟨.inr h.1, h.2⟩))
      · exact .inr (.inr (.inr ⟨k, .inr hk, hx⟩))
    · rintro (h | ⟨h1 | h1, h2⟩ | ⟨h1 | h1, h2⟩ | ⟨k, hk | hk, hx⟩)
      · exact .inl (.inl h)
      · exact .inl (.inr (.inl ⟨h1.symm, h2⟩))
      · exact .inr (.inl ⟨h1, h2⟩)
      · exact .inl (.inr (.inr (.inl ⟨h1.symm, h2⟩)))
      · exact .inr (.inr (.inl ⟨h1, h2⟩))
      · exact .inl (.inr (.inr (.inr ⟨k, hk.symm, hx⟩)))
      · exact .inr (.inr (.inr ⟨k, hk, hx⟩))

/-- **The trust rule.** With no `trusting` annotation: the defaults, the element's own block and
    the authorizer.  With an annotation: own block and authorizer always; the authority block only
    by `trusting authority` (or as part of `previous`); `previous` = blocks `0..current` (nothing
    for the authorizer); a public key = exactly the blocks registered under that key. -/
theorem trustedFromScopes_spec (scopes : List Scope) (dflt : List Nat) (cur : Nat) (km : KeyMap) (x : Nat) :
    x ∈ trustedFromScopes scopes dflt cur km ↔
      if scopes = [] then x = authorizerId ∨ x = cur ∨ x ∈ dflt
      else x = authorizerId ∨ x = cur ∨ (Scope.authority ∈ scopes ∧ x = 0) ∨
        (Scope.previous ∈ scopes ∧ cur ≠ authorizerId ∧ x ≤ cur) ∨
        (∃ k, Scope.publicKey k ∈ scopes ∧ x ∈ KeyMap.get km k) := by
  unfold trustedFromScopes
  cases scopes with
  | nil => simp [mem_origin_insert]
  | cons s rest =>
    simp only [List.isEmpty_cons, Bool.false_eq_true, if_false, reduceCtorEq]
    rw [fold_scopes_mem]
    simp only [mem_origin_insert, List.mem_singleton]
    constructor
    · rintro ((h | h) | h)
      · exact .inr (.inl h)
      · exact .inl h
      · exact .inr (.inr h)
    · rintro (h | h | h)
      · exact .inl (.inr h)
      · exact .inl (.inl h)
      · exact .inr h

/-- default trust: the authority block and the authorizer -/
theorem defaultTrusted_spec (x : Nat) : x ∈ defaultTrusted ↔ x = 0 ∨ x = authorizerId := by
  simp [defaultTrusted, mem_origin_insert]

/-- a fact is visible to an element exactly when *every* block that contributed to it is trusted -/
theorem visible_spec (trusted : List Nat) (facts : List (List Nat × Fact)) (of : List Nat × Fact) :
    of ∈ visible trusted facts ↔ of ∈ facts ∧ ∀ b ∈ of.1, b ∈ trusted := by
  simp [visible, trusts, List.mem_filter, List.all_eq_true]

/-! ## the three kinds of check (for evaluations without expression errors) -/

/-- every alternative of the check evaluates without error on the facts it can see -/
def CheckNoErr (syms : SymbolTable) (facts : List (List Nat × Fact)) (km : KeyMap) (dflt : List Nat) (blk : Nat)
    (qs : List QRule) : Prop :=
  ∀ q ∈ qs, NoErr syms facts (trustedFromScopes q.scopes dflt blk km) q.rule

def qMatches (syms : SymbolTable) (facts : List (List Nat × Fact)) (km : KeyMap) (dflt : List Nat) (blk : Nat) (q : QRule) : Bool :=
  (applyRule syms (visible (trustedFromScopes q.scopes dflt blk km) facts) blk q.rule).any isHit

def qHoldsForAll (syms : SymbolTable) (facts : List (List Nat × Fact)) (km : KeyMap) (dflt : List Nat) (blk : Nat) (q : QRule) : Bool :=
  let bs := combine (visible (trustedFromScopes q.scopes dflt blk km) facts) q.rule.body (MV.new (bodyVars q.rule.body))
  !bs.isEmpty && bs.all fun ob => evalExprs q.rule.exprs ob.2 (TempSyms.new syms) == .ok true

theorem evalCheck_go_one (syms : SymbolTable) (facts : List (List Nat × Fact)) (km : KeyMap) (dflt : List Nat) (blk : Nat)
    (c : Check) (hk : c.kind = .one) :
    ∀ (qs : List QRule), CheckNoErr syms facts km dflt blk qs →
      evalCheck.go syms facts km dflt blk c qs = .ok (qs.any (qMatches syms facts km dflt blk)) := by
  intro qs
  induction qs with
  | nil => intro _; simp [evalCheck.go, hk]
  | cons q rest ih =>
    intro h
    have hq := h q (List.mem_cons_self)
    have hrest : CheckNoErr syms facts km dflt blk rest := fun x hx => h x (List.mem_cons_of_mem _ hx)
    simp only [evalCheck.go, evalQuery, hk, findMatch_spec syms facts _ blk q.rule hq, List.any_cons]
    cases hm : (applyRule syms (visible (trustedFromScopes q.scopes dflt blk km) facts) blk q.rule).any isHit with
    | true => simp [qMatches, hm]
    | false => simp [qMatches, hm, ih hrest]

/-- **`check if`** holds iff some alternative has a match among the facts it trusts. -/
theorem check_one_spec (syms : SymbolTable) (facts : List (List Nat × Fact)) (km : KeyMap) (dflt : List Nat) (blk : Nat)
    (c : Check) (hk : c.kind = .one) (h : CheckNoErr syms facts km dflt blk c.queries) :
    evalCheck syms facts km dflt blk c = .ok (c.queries.any (qMatches syms facts km dflt blk)) :=
  evalCheck_go_one syms facts km dflt blk c hk c.queries h

theorem evalCheck_go_all (syms : SymbolTable) (facts : List (List Nat × Fact)) (km : KeyMap) (dflt : List Nat) (blk : Nat)
    (c : Check) (hk : c.kind = .all) :
    ∀ (qs : List QRule), CheckNoErr syms facts km dflt blk qs →
      evalCheck.go syms facts km dflt blk c qs = .ok (qs.any (qHoldsForAll syms facts km dflt blk)) := by
  intro qs
  induction qs with
  | nil => intro _; simp [evalCheck.go, hk]
  | cons q rest ih =>
    intro h
    have hq := h q (List.mem_cons_self)
    have hrest : CheckNoErr syms facts km dflt blk rest := fun x hx => h x (List.mem_cons_of_mem _ hx)
    simp only [evalCheck.go, evalQuery, hk, checkMatchAll_spec syms facts _ q.rule hq, List.any_cons]
    cases hm : qHoldsForAll syms facts km dflt blk q with
    | true =>
      simp only [qHoldsForAll] at hm
      simp [hm]
    | false =>
      simp only [qHoldsForAll] at hm
      simp [hm, ih hrest]

/-- **`check all`** holds iff some alternative has at least one match of its body and every
    match satisfies all its expressions. -/
theorem check_all_spec (syms : SymbolTable) (facts : List (List Nat × Fact)) (km : KeyMap) (dflt : List Nat) (blk : Nat)
    (c : Check) (hk : c.kind = .all) (h : CheckNoErr syms facts km dflt blk c.queries) :
    evalCheck syms facts km dflt blk c = .ok (c.queries.any (qHoldsForAll syms facts km dflt blk)) :=
  evalCheck_go_all syms facts km dflt blk c hk c.queries h

theorem evalCheck_go_reject (syms : SymbolTable) (facts : List (List Nat × Fact)) (km : KeyMap) (dflt : List Nat) (blk : Nat)
    (c : Check) (hk : c.kind = .reject) :
    ∀ (qs : List QRule), CheckNoErr syms facts km dflt blk qs →
      evalCheck.go syms facts km dflt blk c qs = .ok (qs.all fun q => !qMatches syms facts km dflt blk q) := by
  intro qs
  induction qs with
  | nil => intro _; simp [evalCheck.go, hk]
  | cons q rest ih =>
    intro h
    have hq := h q (List.mem_cons_self)
    have hrest : CheckNoErr syms facts km dflt blk rest := fun x hx => h x (List.mem_cons_of_mem _ hx)
    simp only [evalCheck.go, evalQuery, hk, findMatch_spec syms facts _ blk q.rule hq, List.all_cons, Except.map]
    cases hm : (applyRule syms (visible (trustedFromScopes q.scopes dflt blk km) facts) blk q.rule).any isHit with
    | true => simp [qMatches, hm]
    | false => simp [qMatches, hm, ih hrest]

/-- **`reject if`** passes only when *none* of its alternatives matches. -/
theorem check_reject_spec (syms : SymbolTable) (facts : List (List Nat × Fact)) (km : KeyMap) (dflt : List Nat) (blk : Nat)
    (c : Check) (hk : c.kind = .reject) (h : CheckNoErr syms facts km dflt blk c.queries) :
    evalCheck syms facts km dflt blk c = .ok (c.queries.all fun q => !qMatches syms facts km dflt blk q) :=
  evalCheck_go_reject syms facts km dflt blk c hk c.queries h

/-! ## failed checks are listed in declaration order, with their index -/

theorem failedChecks_spec (syms : SymbolTable) (facts : List (List Nat × Fact)) (km : KeyMap) (dflt : List Nat) (blk : Nat)
    (mk : Nat → FailedCheck) (res : Check → Bool) :
    ∀ (cs : List Check) (i : Nat), (∀ c ∈ cs, evalCheck syms facts km dflt blk c = .ok (res c)) →
      failedChecks syms facts km dflt blk mk i cs =
        .ok (((enumFrom i cs).filter fun ic => !res ic.2).map fun ic => mk ic.1) := by
  intro cs
  induction cs with
  | nil => intro i _; simp [failedChecks, enumFrom]
  | cons c rest ih =>
    intro i h
    have hc := h c (List.mem_cons_self)
    have hrest := ih (i + 1) (fun x hx => h x (List.mem_cons_of_mem _ hx))
    simp only [failedChecks, hc, hrest, enumFrom, List.filter]
    cases res c <;> simp

/-! ## policies are tried in order -/

theorem policyMatches_spec (syms : SymbolTable) (facts : List (List Nat × Fact)) (km : KeyMap) (dflt : List Nat) :
    ∀ (qs : List QRule), CheckNoErr syms facts km dflt authorizerId qs →
      policyMatches syms facts km dflt qs = .ok (qs.any (qMatches syms facts km dflt authorizerId)) := by
  intro qs
  induction qs with
  | nil => intro _; simp [policyMatches]
  | cons q rest ih =>
    intro h
    have hq := h q (List.mem_cons_self)
    have hrest : CheckNoErr syms facts km dflt authorizerId rest := fun x hx => h x (List.mem_cons_of_mem _ hx)
    simp only [policyMatches, findMatch_spec syms facts _ authorizerId q.rule hq, List.any_cons]
    cases hm : (applyRule syms (visible (trustedFromScopes q.scopes dflt authorizerId km) facts) authorizerId q.rule).any isHit with
    | true => simp [qMatches, hm]
    | false => simp [qMatches, hm, ih hrest]

/-- the selected policy is the first, in order, one of whose alternatives matches -/
theorem firstPolicy_spec (syms : SymbolTable) (facts : List (List Nat × Fact)) (km : KeyMap) (dflt : List Nat)
    (m : Policy → Bool) :
    ∀ (ps : List Policy) (i : Nat), (∀ p ∈ ps, policyMatches syms facts km dflt p.queries = .ok (m p)) →
      firstPolicy syms facts km dflt i ps =
        .ok (((enumFrom i ps).find? fun ip => m ip.2).map fun ip => (ip.2.kind, ip.1)) := by
  intro ps
  induction ps with
  | nil => intro i _; simp [firstPolicy, enumFrom]
  | cons p rest ih =>
    intro i h
    have hp := h p (List.mem_cons_self)
    have hrest := ih (i + 1) (fun x hx => h x (List.mem_cons_of_mem _ hx))
    simp only [firstPolicy, hp, enumFrom, List.find?]
    cases m p <;> simp [hrest]

/-! ## the final decision -/

/-- **Accepted** exactly when no check failed and the first matching policy is an `allow`;
    the index returned is that policy's. -/
theorem decide_ok_iff (syms : SymbolTable) (facts : List (List Nat × Fact)) (blocks : List Block) (az : AuthorizerData) (i : Nat) :
    decide syms facts blocks az = .ok i ↔
      ∃ f1 f2 f3,
        failedChecks syms facts (keyMap blocks) (authorizerTrusted az (keyMap blocks)) authorizerId
          FailedCheck.authorizer 0 az.checks = .ok f1 ∧
        blocksFailed syms facts (keyMap blocks) ((enumFrom 0 blocks).take 1) = .ok f2 ∧
        firstPolicy syms facts (keyMap blocks) (authorizerTrusted az (keyMap blocks)) 0 az.policies = .ok (some (.allow, i)) ∧
        blocksFailed syms facts (keyMap blocks) ((enumFrom 0 blocks).drop 1) = .ok f3 ∧
        f1 ++ f2 ++ f3 = [] := by
  simp only [decide]
  constructor
  · intro h
    split at h
    · cases h
    · rename_i f1 h1
      split at h
      · cases h
      · rename_i f2 h2
        split at h
        · cases h
        · rename_i pol h3
          split at h
          · cases h
          · rename_i f3 h4
            refine ⟨f1, f2, f3, h1, h2, ?_, h4, ?_⟩
            · split at h
              · cases h
              · split at h
                · injection h with h; subst h; assumption
                · cases h
              · cases h
            · split at h
              · cases h
              · split at h
                · rename_i he; simpa using he
                · cases h
              · cases h
  · rintro ⟨f1, f2, f3, h1, h2, h3, h4, h5⟩
    simp only [h1, h2, h3, h4, h5, List.isEmpty_nil, if_true]

/-- any failed check refuses the request, whatever the policies say -/
theorem failed_check_refuses (syms : SymbolTable) (facts : List (List Nat × Fact)) (blocks : List Block)
    (az : AuthorizerData) (i : Nat) (f1 : List FailedCheck)
    (h1 : failedChecks syms facts (keyMap blocks) (authorizerTrusted az (keyMap blocks)) authorizerId
      FailedCheck.authorizer 0 az.checks = .ok f1) (hne : f1 ≠ []) :
    decide syms facts blocks az ≠ .ok i := by
  intro h
  obtain ⟨g1, g2, g3, e1, _, _, _, e5⟩ := (decide_ok_iff syms facts blocks az i).mp h
  rw [h1] at e1; injection e1 with e1; subst e1
  cases f1 with
  | nil => exact hne rfl
  | cons a b => simp at e5

/-! ## non-vacuity: the reject-if example of DESIGN.md §9 row 11 -/

def exAz : AuthorizerData :=
  { facts := [⟨1024, [.int 1]⟩], rules := [],
    checks := [⟨.reject, [⟨⟨⟨1026, []⟩, [⟨1025, [.int 1]⟩], []⟩, []⟩, ⟨⟨⟨1026, []⟩, [⟨1024, [.int 1]⟩], []⟩, []⟩]⟩],
    policies := [⟨.allow, [⟨⟨⟨1026, []⟩, [], [[.value (.bool true)]]⟩, []⟩]⟩], scopes := [] }

/-- `a(1); reject if b(1) or a(1); allow if true` is refused (the second alternative matches) -/
example : authorize ⟨[]⟩ [] exAz ⟨1000, 100, none⟩ = .unauthorized .allow 0 [.authorizer 0] := by decide

end Biscuit.C04
