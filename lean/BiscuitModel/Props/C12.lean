/-
  C12 — a token means the same in memory and after a round trip, on every API path.

  What differs between the in-memory token and the reloaded one can only be the symbol and
  public-key tables (the blocks' bytes are the same): the theorems show that the tables kept
  in memory are exactly what deserialization rebuilds from the blocks' declarations, after any
  history of operations, and that tokens redeclaring a symbol or key are refused.
-/
import BiscuitModel.Lemmas.Intern
namespace Biscuit.C12
open Biscuit

theorem not_contains_of_indexOf_none {s : Str} {l : List Str} (h : indexOf s l = none) : l.contains s = false := by
  have := indexOf_none h
  simpa using this

theorem keyFold_nodup : ∀ (nk keys : List Nat), (keys ++ nk).Nodup →
    nk.foldl (fun acc k => acc.bind fun ks => if ks.contains k then none else some (ks ++ [k])) (some keys) = some (keys ++ nk) := by
  intro nk
  induction nk with
  | nil => intro keys _; simp
  | cons k rest ih =>
    intro keys h
    simp only [List.foldl_cons, Option.bind_some]
    have hk : keys.contains k = false := by
      have := List.nodup_append.mp h
      have hnm : k ∉ keys := fun hm => (this.2.2 k hm k List.mem_cons_self) rfl
      simpa using hnm
    rw [hk]
    simp only [Bool.false_eq_true, if_false]
    have h' : ((keys ++ [k]) ++ rest).Nodup := by simpa [List.append_assoc] using h
    rw [ih (keys ++ [k]) h']
    simp [List.append_assoc]

/-- a first-party declaration that extends well-formed tables is accepted by deserialization,
    which rebuilds exactly the extended tables -/
theorem reload_step (syms ns : List Str) (keys nk : List Nat) (rest : List BlockDecl)
    (hw : WFt ⟨⟨syms ++ ns⟩, keys ++ nk⟩) :
    reloadTables (⟨ns, nk, false⟩ :: rest) syms keys = reloadTables rest (syms ++ ns) (keys ++ nk) := by
  have h1 : (ns.any fun s => Gen.defaultSymbols.contains s) = false := by
    rw [List.any_eq_false]
    intro s hs
    have := hw.noDefault s (by simp [hs])
    simp only [Bool.not_eq_true]
    exact not_contains_of_indexOf_none this
  have h2 : (ns.any fun s => syms.contains s) = false := by
    rw [List.any_eq_false]
    intro s hs
    have hd := (List.nodup_append.mp hw.symsNodup).2.2
    have hnm : s ∉ syms := fun hm => (hd s hm s hs) rfl
    simpa using hnm
  simp only [reloadTables, Bool.false_eq_true, if_false, h1, h2, Bool.or_self, keyFold_nodup nk keys hw.keysNodup]

/-- a third-party declaration is skipped: it neither reads nor extends the token's tables -/
theorem reload_third_party (d : BlockDecl) (hd : d.thirdParty = true) (rest : List BlockDecl) (syms : List Str) (keys : List Nat) :
    reloadTables (d :: rest) syms keys = reloadTables rest syms keys := by
  simp [reloadTables, hd]

theorem reloadTables_append : ∀ (bs : List BlockDecl) (d : BlockDecl) (syms : List Str) (keys : List Nat) (s' : List Str) (k' : List Nat),
    reloadTables bs syms keys = some (s', k') → reloadTables (bs ++ [d]) syms keys = reloadTables [d] s' k' := by
  intro bs
  induction bs with
  | nil => intro d syms keys s' k' h; simp [reloadTables] at h; simp [h.1, h.2]
  | cons b rest ih =>
    intro d syms keys s' k' h
    simp only [List.cons_append, reloadTables] at h ⊢
    split
    · rename_i hb; rw [if_pos hb] at h; exact ih d _ _ _ _ h
    · rename_i hb
      rw [if_neg hb] at h
      split
      · rename_i h2; rw [if_pos h2] at h; cases h
      · rename_i h2
        rw [if_neg h2] at h
        split
        · rename_i hk; rw [hk] at h; cases h
        · rename_i ks hk; rw [hk] at h; exact ih d _ _ _ _ h

/-- the in-memory tables are well-formed and are what a reload rebuilds -/
structure Inv (t : TokSyms) : Prop where
  wf : WFt t.table
  same : t.reload = some (t.syms, t.keys)

theorem ext_table (pool : List Str) (t : ITable) (b : Block) (hw : WFt t) :
    ∃ ns nk, (internBlockBuild pool t b).1.syms.symbols = t.syms.symbols ++ ns ∧
      (internBlockBuild pool t b).1.keys = t.keys ++ nk ∧ WFt (internBlockBuild pool t b).1 := by
  obtain ⟨⟨ns, nk, h1, h2⟩, hwf⟩ := internBlockBuild_good pool t b
  exact ⟨ns, nk, h1, h2, hwf hw⟩

/-- **build** -/
theorem inv_build (pool : List Str) (b : Block) : Inv (TokSyms.build pool b) := by
  obtain ⟨ns, nk, h1, h2, hw⟩ := ext_table pool ITable.empty b wf_empty
  simp only [ITable.empty, List.nil_append] at h1 h2
  refine ⟨?_, ?_⟩
  · simpa [TokSyms.build, TokSyms.table] using hw
  · simp only [TokSyms.build, TokSyms.reload]
    have hw' : WFt ⟨⟨[] ++ (internBlockBuild pool ITable.empty b).1.syms.symbols⟩, [] ++ (internBlockBuild pool ITable.empty b).1.keys⟩ := by
      simpa using hw
    rw [reload_step [] _ [] _ [] hw']
    simp [reloadTables]

/-- **append** (verified or unverified API) -/
theorem inv_append (pool : List Str) (t : TokSyms) (b : Block) (h : Inv t) : Inv (t.append pool b) := by
  obtain ⟨ns, nk, h1, h2, hw⟩ := ext_table pool t.table b h.wf
  have h1' : (internBlockBuild pool t.table b).1.syms.symbols = t.syms ++ ns := h1
  have h2' : (internBlockBuild pool t.table b).1.keys = t.keys ++ nk := h2
  refine ⟨?_, ?_⟩
  · simpa [TokSyms.append, TokSyms.table] using hw
  · simp only [TokSyms.append, TokSyms.reload]
    rw [reloadTables_append t.blocks _ [] [] t.syms t.keys h.same]
    rw [h1', h2', List.drop_left, List.drop_left]
    have hw' : WFt ⟨⟨t.syms ++ ns⟩, t.keys ++ nk⟩ := by
      have e1 : (internBlockBuild pool t.table b).1 = ⟨⟨t.syms ++ ns⟩, t.keys ++ nk⟩ := by
        cases hx : (internBlockBuild pool t.table b).1 with
        | mk sy ke =>
          cases sy with
          | mk l =>
            rw [hx] at h1' h2'
            simp only at h1' h2'
            rw [h1', h2']
      rw [e1] at hw
      exact hw
    rw [reload_step t.syms ns t.keys nk [] hw']
    simp [reloadTables]

/-- **append_third_party** (verified or unverified API): the token's tables do not change, and
    the reloaded token has the same tables -/
theorem inv_append_third_party (pool : List Str) (t : TokSyms) (b : Block) (h : Inv t) :
    Inv (t.appendThirdParty pool b) ∧ (t.appendThirdParty pool b).syms = t.syms ∧ (t.appendThirdParty pool b).keys = t.keys := by
  refine ⟨⟨?_, ?_⟩, rfl, rfl⟩
  · simpa [TokSyms.appendThirdParty, TokSyms.table] using h.wf
  · simp only [TokSyms.appendThirdParty, TokSyms.reload]
    rw [reloadTables_append t.blocks _ [] [] t.syms t.keys h.same]
    simp [reloadTables]

inductive SymOp where
  | append (b : Block)
  | appendThirdParty (b : Block)

def applySymOp (pool : List Str) (t : TokSyms) : SymOp → TokSyms
  | .append b => t.append pool b
  | .appendThirdParty b => t.appendThirdParty pool b

/-- **At every step of any history of build, append and append-third-party operations the
    in-memory tables equal the reloaded ones** — so string and key references of every block
    resolve identically in memory and after a round trip. -/
theorem history_inv (pool : List Str) (b0 : Block) (ops : List SymOp) :
    Inv (ops.foldl (applySymOp pool) (TokSyms.build pool b0)) := by
  have : ∀ (ops : List SymOp) (t : TokSyms), Inv t → Inv (ops.foldl (applySymOp pool) t) := by
    intro ops
    induction ops with
    | nil => intro t h; exact h
    | cons op rest ih =>
      intro t h
      simp only [List.foldl_cons]
      apply ih
      cases op with
      | append b => exact inv_append pool t b h
      | appendThirdParty b => exact (inv_append_third_party pool t b h).1
  exact this ops _ (inv_build pool b0)

/-! ## redeclaration is refused -/

/-- a first-party block that redeclares a default symbol -/
theorem redeclared_default_refused (d : BlockDecl) (hd : d.thirdParty = false) (s : Str) (hs : s ∈ d.syms)
    (hdef : s ∈ Gen.defaultSymbols) (rest : List BlockDecl) (syms : List Str) (keys : List Nat) :
    reloadTables (d :: rest) syms keys = none := by
  have : (d.syms.any fun s => Gen.defaultSymbols.contains s) = true :=
    List.any_eq_true.mpr ⟨s, hs, by simpa using hdef⟩
  unfold reloadTables
  rw [if_neg (by simp [hd]), if_pos (by rw [this]; rfl)]

/-- a first-party block that redeclares a symbol of an earlier first-party block -/
theorem redeclared_symbol_refused (d : BlockDecl) (hd : d.thirdParty = false) (s : Str) (hs : s ∈ d.syms)
    (rest : List BlockDecl) (syms : List Str) (hearlier : s ∈ syms) (keys : List Nat) :
    reloadTables (d :: rest) syms keys = none := by
  have : (d.syms.any fun s => syms.contains s) = true :=
    List.any_eq_true.mpr ⟨s, hs, by simpa using hearlier⟩
  unfold reloadTables
  rw [if_neg (by simp [hd]), if_pos (by rw [this]; simp)]

theorem keyFold_none : ∀ (nk : List Nat), nk.foldl (fun acc k => acc.bind fun ks => if ks.contains k then none else some (ks ++ [k])) (none : Option (List Nat)) = none := by
  intro nk; induction nk with
  | nil => rfl
  | cons k rest ih => simpa using ih

theorem keyFold_dup : ∀ (nk keys : List Nat) (k : Nat), k ∈ nk → k ∈ keys →
    nk.foldl (fun acc k => acc.bind fun ks => if ks.contains k then none else some (ks ++ [k])) (some keys) = none := by
  intro nk
  induction nk with
  | nil => intro keys k h; cases h
  | cons x rest ih =>
    intro keys k hk hin
    simp only [List.foldl_cons, Option.bind_some]
    by_cases hx : keys.contains x = true
    · simp only [hx, if_true]; exact keyFold_none rest
    · simp only [hx, Bool.false_eq_true, if_false]
      cases hk with
      | head => simp at hx; exact absurd hin hx
      | tail _ hk' => exact ih (keys ++ [x]) k hk' (by simp [hin])

/-- a first-party block that redeclares a public key of an earlier first-party block -/
theorem redeclared_key_refused (d : BlockDecl) (hd : d.thirdParty = false) (k : Nat) (hk : k ∈ d.keys)
    (rest : List BlockDecl) (syms : List Str) (keys : List Nat) (hearlier : k ∈ keys) :
    reloadTables (d :: rest) syms keys = none := by
  unfold reloadTables
  rw [if_neg (by simp [hd])]
  split
  · rfl
  · rw [keyFold_dup d.keys keys k hk hearlier]

/-! ## non-vacuity -/

example : (TokSyms.build [[102], [120]] ⟨[⟨0, [.str 1]⟩], [], [], [.publicKey 7], none⟩).syms = [[102], [120]] := by decide

end Biscuit.C12
