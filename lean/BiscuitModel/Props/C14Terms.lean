/-
  C14 — the term and fact parser inverts the printer.

  `fact_round_trip`: for every fact the grammar derives (`wfPred`: valid names, 64-bit
  integers, non-empty byte strings, homogeneous sets without sets / arrays / variables in
  them, arrays, maps, parameters, nested to any depth) — except the one printed form that
  reads back as something else, a one-element set of `true` / `false` / `null` / `hex:…`
  (known finding C14-singleton-set-parameter, excluded by `wfT`) — the model of
  `biscuit_parser::parser::fact_inner`, run on the printed fact followed by ANY text, returns
  exactly that fact and leaves exactly that text.

  The parser model (Model/TermParser) is the one the stream `termparse` compares with the real
  `fact_inner` on printed, re-spaced, mutated and random texts (result, remaining input and
  nom error class); the printer here is, by `printPred_eq_predC`, the printer model the
  stream `print` compares with `Display`.

  Assumed of the `time` crate (hypothesis `DateShape`, checked on every date table the
  harness produces): RFC 3339 parsing accepts only tokens that start with a digit and have
  `-` as fifth character.  Assumed per date in the term (`dateOK`, a decidable check that is
  part of `wfT`): `time` reads the printed date back.
-/
import BiscuitModel.Lemmas.TermParser
set_option linter.unusedSimpArgs false
set_option linter.unusedVariables false
namespace Biscuit.TermParser
open Biscuit.Printer

/-! ## the character-level printer is the printer model -/

theorem joinWith_cons2 (sep x y : String) (r : List String) :
    joinWith sep (x :: y :: r) = x ++ sep ++ joinWith sep (y :: r) := rfl

mutual
theorem printTerm_eq_termC : (t : STerm) → (printTerm t).toList = termC t
  | .var n => by simp [printTerm, termC]
  | .int i => by simp [printTerm, termC, printInt]
  | .str s => by simp [printTerm, termC, printString]
  | .date d => by simp [printTerm, termC]
  | .bytes b => by simp [printTerm, termC, printBytes]
  | .bool b => by cases b <;> simp [printTerm, termC]
  | .null => by simp [printTerm, termC]
  | .param n => by simp [printTerm, termC]
  | .set xs => by
    by_cases he : xs.isEmpty = true
    · simp [printTerm, termC, he]
    · simp [printTerm, termC, he, printTerms_eq_termsC xs]
  | .arr xs => by simp [printTerm, termC, printTerms_eq_termsC xs]
  | .map kvs => by simp [printTerm, termC, printKVs_eq_kvsC kvs]
theorem printTerms_eq_termsC : (ts : List STerm) → (joinWith ", " (printTerms ts)).toList = termsC ts
  | [] => by simp [printTerms, joinWith, termsC]
  | [t] => by simp [printTerms, joinWith, termsC, tailC, printTerm_eq_termC t]
  | t :: u :: r => by
    have ih := printTerms_eq_termsC (u :: r)
    simp only [printTerms] at ih ⊢
    rw [joinWith_cons2]
    simp only [String.toList_append, ih, printTerm_eq_termC t, termsC, tailC]
    simp
theorem printKVs_eq_kvsC : (kvs : List (SKey × STerm)) → (joinWith ", " (printKVs kvs)).toList = kvsC kvs
  | [] => by simp [printKVs, joinWith, kvsC]
  | [(k, t)] => by
    cases k <;> simp [printKVs, joinWith, kvsC, kvTailC, printTerm_eq_termC t, printKey, keyC, printInt, printString]
  | (k, t) :: (k', t') :: r => by
    have ih := printKVs_eq_kvsC ((k', t') :: r)
    simp only [printKVs] at ih ⊢
    rw [joinWith_cons2]
    simp only [String.toList_append, ih, printTerm_eq_termC t, kvsC, kvTailC]
    cases k <;> simp [printKey, keyC, printInt, printString]
end

/-- the text of a fact, as `printPred` (the model compared with `Display` on the stream `print`)
    writes it -/
theorem printPred_eq_predC (p : SPred) : (printPred p).toList = predC p := by
  simp [printPred, predC, printTerms_eq_termsC]

/-! ## the parser reads the printed text back -/

mutual
theorem term_rt {dateP} (hd : DateShape dateP) : (t : STerm) → ∀ (ctx : Ctx) (fuel : Nat) (rest : List Char),
    wfT dateP ctx t = true → EndsFor t rest → needT t ≤ fuel → pTerm dateP ctx fuel (termC t ++ rest) = .ok t rest
  | .var n, ctx, fuel, rest, hwf, hc, hf => by simp [wfT] at hwf
  | .int i, ctx, fuel, rest, hwf, hc, hf => by
    obtain ⟨n, rfl⟩ : ∃ n, fuel = n + 1 := ⟨fuel - 1, by simp only [needT] at hf; omega⟩
    have hsp := space0_termC ctx (.int i) rest hwf
    simp only [wfT] at hwf
    simp only [termC] at hsp ⊢
    exact pTerm_atom ctx n _ _ _ hsp (pAtom_int hd i rest hwf hc)
  | .str s, ctx, fuel, rest, hwf, hc, hf => by
    obtain ⟨n, rfl⟩ : ∃ n, fuel = n + 1 := ⟨fuel - 1, by simp only [needT] at hf; omega⟩
    have hsp := space0_termC ctx (.str s) rest hwf
    simp only [termC] at hsp ⊢
    exact pTerm_atom ctx n _ _ _ hsp (pAtom_str s rest)
  | .date d, ctx, fuel, rest, hwf, hc, hf => by
    obtain ⟨n, rfl⟩ : ∃ n, fuel = n + 1 := ⟨fuel - 1, by simp only [needT] at hf; omega⟩
    have hsp := space0_termC ctx (.date d) rest hwf
    simp only [wfT] at hwf
    simp only [termC] at hsp ⊢
    exact pTerm_atom ctx n _ _ _ hsp (pAtom_date d rest hwf hc)
  | .bytes b, ctx, fuel, rest, hwf, hc, hf => by
    obtain ⟨n, rfl⟩ : ∃ n, fuel = n + 1 := ⟨fuel - 1, by simp only [needT] at hf; omega⟩
    have hsp := space0_termC ctx (.bytes b) rest hwf
    simp only [wfT, Bool.not_eq_true', List.isEmpty_eq_false_iff] at hwf
    simp only [termC] at hsp ⊢
    exact pTerm_atom ctx n _ _ _ hsp (pAtom_bytes hd b rest hwf hc)
  | .bool b, ctx, fuel, rest, hwf, hc, hf => by
    obtain ⟨n, rfl⟩ : ∃ n, fuel = n + 1 := ⟨fuel - 1, by simp only [needT] at hf; omega⟩
    have hsp := space0_termC ctx (.bool b) rest hwf
    cases b
    · simp only [termC, Bool.false_eq_true, ↓reduceIte] at hsp ⊢
      exact pTerm_atom ctx n _ _ _ hsp (pAtom_false hd rest)
    · simp only [termC, ↓reduceIte] at hsp ⊢
      exact pTerm_atom ctx n _ _ _ hsp (pAtom_true hd rest)
  | .null, ctx, fuel, rest, hwf, hc, hf => by
    obtain ⟨n, rfl⟩ : ∃ n, fuel = n + 1 := ⟨fuel - 1, by simp only [needT] at hf; omega⟩
    have hsp := space0_termC ctx .null rest hwf
    simp only [termC] at hsp ⊢
    exact pTerm_atom ctx n _ _ _ hsp (pAtom_null hd rest)
  | .param p, ctx, fuel, rest, hwf, hc, hf => by
    obtain ⟨n, rfl⟩ : ∃ n, fuel = n + 1 := ⟨fuel - 1, by simp only [needT] at hf; omega⟩
    have hsp := space0_termC ctx (.param p) rest hwf
    simp only [wfT] at hwf
    simp only [termC, List.cons_append, List.append_assoc, List.nil_append] at hsp ⊢
    exact pTerm_atom ctx n _ _ _ hsp (pAtom_param p rest hwf)
  | .arr xs, ctx, fuel, rest, hwf, hc, hf => by
    cases ctx with
    | set => simp [wfT] at hwf
    | fact =>
      simp only [wfT] at hwf
      simp only [needT] at hf
      obtain ⟨n, rfl⟩ : ∃ n, fuel = n + 2 := ⟨fuel - 2, by omega⟩
      have hl := terms0_rt hd xs .fact n (']' :: rest) hwf ⟨']', rest, rfl, Or.inl rfl⟩ (by omega)
      have harr := pArray_of_terms (dateP := dateP) n _ xs rest hl
      simp only [termC, List.cons_append, List.append_assoc, List.nil_append]
      exact pTerm_of_array (n + 1) _ _ _ (space0_cons _ (by decide))
        (pAtom_none_head hd _ (by decide) (by decide) (by decide) (by decide) (by decide) (by decide) (by decide) (by decide)) harr
  | .map kvs, ctx, fuel, rest, hwf, hc, hf => by
    simp only [needT] at hf
    obtain ⟨n, rfl⟩ : ∃ n, fuel = n + 2 := ⟨fuel - 2, by omega⟩
    have hwf' : wfKV dateP kvs = true := by cases ctx <;> simpa [wfT] using hwf
    have hl := kvs0_rt hd kvs n rest hwf' (by omega)
    have hmap := pMap_of_kvs (dateP := dateP) n _ kvs rest hl
    have hb : pBraced ('{' :: (kvsC kvs ++ '}' :: rest)) = none := by
      cases kvs with
      | nil => simp only [kvsC, List.nil_append]; exact pBraced_nonalpha _ (by decide)
      | cons kv kvs =>
        obtain ⟨k, v⟩ := kv
        obtain ⟨c, tl, hk, ha, _⟩ := keyC_head k
        simp only [kvsC, hk, List.cons_append, List.append_assoc]
        exact pBraced_nonalpha _ ha
    simp only [termC, List.cons_append, List.append_assoc, List.nil_append]
    exact pTerm_of_map ctx (n + 1) _ _ _ (space0_cons _ (by decide)) (pAtom_none_brace hd _ hb)
      (pArray_err_head n _ (by decide) (by decide)) hmap
  | .set xs, ctx, fuel, rest, hwf, hc, hf => by
    cases ctx with
    | set => simp [wfT] at hwf
    | fact =>
      simp only [wfT, Bool.and_eq_true, Bool.not_eq_true'] at hwf
      obtain ⟨⟨hwl, hkind⟩, hns⟩ := hwf
      simp only [needT] at hf
      obtain ⟨n, rfl⟩ : ∃ n, fuel = n + 4 := ⟨fuel - 4, by omega⟩
      cases xs with
      | nil =>
        simp only [termC, List.isEmpty_nil, ↓reduceIte, List.cons_append, List.nil_append]
        have hnk : NotKey (',' :: '}' :: rest) :=
          Or.inl (pMapKey_none_head _ (by decide) (by decide) (by decide) (by decide) (by decide))
        have hmap : pMap dateP (n + 3) ('{' :: ',' :: '}' :: rest) = .err :=
          pMap_err_of_notKey n _ hnk ⟨',', '}' :: rest, space0_cons _ (by decide), by decide⟩
        exact pTerm_of_set (n + 3) _ _ _ (space0_cons _ (by decide))
          (pAtom_none_brace hd _ (pBraced_nonalpha _ (by decide)))
          (pArray_err_head (n + 2) _ (by decide) (by decide)) hmap (pSet_empty (n + 2) rest)
      | cons x xs' =>
        have hx : wfT dateP .set x = true := by simp only [wfL, Bool.and_eq_true] at hwl; exact hwl.1
        have hl := terms1_rt hd (x :: xs') .set false (n + 2) ('}' :: rest) hwl (by simp)
          ⟨'}', rest, rfl, Or.inr (Or.inl rfl)⟩ (by omega)
        obtain ⟨c, tl, hhead, hsp, hne1, hne2⟩ := termC_head .set x hx
        have hcY : Cont (tailC xs' ++ '}' :: rest) := cont_tail xs' _ ⟨'}', rest, rfl, Or.inr (Or.inl rfl)⟩
        simp only [termC, List.isEmpty_cons, Bool.false_eq_true, ↓reduceIte, termsC, List.cons_append, List.append_assoc,
          List.nil_append] at hl ⊢
        have htag : tag ['{', ',', '}'] ('{' :: (termC x ++ (tailC xs' ++ '}' :: rest))) = none := by
          rw [hhead]; exact tag_set_none _ hne2
        have hset := pSet_of_terms (dateP := dateP) (n + 2) _ (x :: xs') rest htag hkind hl
        have hnk := notKey_setElem (dateP := dateP) x _ hx hcY
        have hmap : pMap dateP (n + 3) ('{' :: (termC x ++ (tailC xs' ++ '}' :: rest))) = .err :=
          pMap_err_of_notKey n _ hnk ⟨c, tl ++ (tailC xs' ++ '}' :: rest), by rw [hhead]; exact space0_cons _ hsp, hne1⟩
        exact pTerm_of_set (n + 3) _ _ _ (space0_cons _ (by decide))
          (pAtom_none_brace hd _ (pBraced_set x xs' rest hx hns))
          (pArray_err_head (n + 2) _ (by decide) (by decide)) hmap hset
theorem terms0_rt {dateP} (hd : DateShape dateP) : (ts : List STerm) → ∀ (ctx : Ctx) (fuel : Nat) (rest : List Char),
    wfL dateP ctx ts = true → Close rest → needL ts ≤ fuel →
    pTerms0 dateP ctx false fuel (termsC ts ++ rest) = .ok ts rest
  | [], ctx, fuel, rest, hwf, hc, hf => by
    simp only [needL] at hf
    obtain ⟨n, rfl⟩ : ∃ n, fuel = n + 3 := ⟨fuel - 3, by omega⟩
    obtain ⟨c, r, rfl, hcl⟩ := hc
    have hcl' : Closer c := by rcases hcl with h | h | h <;> simp [Closer, h]
    simp only [termsC, List.nil_append, pTerms0, pTerm_err_closer hd ctx n r hcl']
    simp
  | t :: ts, ctx, fuel, rest, hwf, hc, hf => by
    simp only [needL] at hf
    obtain ⟨n, rfl⟩ : ∃ n, fuel = n + 1 := ⟨fuel - 1, by omega⟩
    simp only [wfL, Bool.and_eq_true] at hwf
    have ht := term_rt hd t ctx n (tailC ts ++ rest) hwf.1 ((cont_tail ts rest hc).ends.endsFor t) (by omega)
    have hts := tail_rt hd ts ctx false n rest hwf.2 hc (by omega)
    simp only [termsC, List.append_assoc]
    exact pTerms0_cons ctx false n t ts _ rest ht hts
theorem terms1_rt {dateP} (hd : DateShape dateP) : (ts : List STerm) → ∀ (ctx : Ctx) (ce : Bool) (fuel : Nat) (rest : List Char),
    wfL dateP ctx ts = true → ts ≠ [] → Close rest → needL ts ≤ fuel →
    pTerms1 dateP ctx ce fuel (termsC ts ++ rest) = .ok ts rest
  | [], ctx, ce, fuel, rest, hwf, hne, hc, hf => absurd rfl hne
  | t :: ts, ctx, ce, fuel, rest, hwf, hne, hc, hf => by
    simp only [needL] at hf
    obtain ⟨n, rfl⟩ : ∃ n, fuel = n + 1 := ⟨fuel - 1, by omega⟩
    simp only [wfL, Bool.and_eq_true] at hwf
    have ht := term_rt hd t ctx n (tailC ts ++ rest) hwf.1 ((cont_tail ts rest hc).ends.endsFor t) (by omega)
    have hts := tail_rt hd ts ctx ce n rest hwf.2 hc (by omega)
    simp only [termsC, List.append_assoc]
    exact pTerms1_cons ctx ce n t ts _ rest ht hts
theorem tail_rt {dateP} (hd : DateShape dateP) : (ts : List STerm) → ∀ (ctx : Ctx) (ce : Bool) (fuel : Nat) (rest : List Char),
    wfL dateP ctx ts = true → Close rest → needL ts ≤ fuel →
    pTermsTail dateP ctx ce fuel (tailC ts ++ rest) = .ok ts rest
  | [], ctx, ce, fuel, rest, hwf, hc, hf => by
    simp only [needL] at hf
    obtain ⟨n, rfl⟩ : ∃ n, fuel = n + 1 := ⟨fuel - 1, by omega⟩
    simp only [tailC, List.nil_append]
    exact pTermsTail_nil ctx ce n rest hc
  | t :: ts, ctx, ce, fuel, rest, hwf, hc, hf => by
    simp only [needL] at hf
    obtain ⟨n, rfl⟩ : ∃ n, fuel = n + 1 := ⟨fuel - 1, by omega⟩
    simp only [wfL, Bool.and_eq_true] at hwf
    have ht := term_rt hd t ctx n (tailC ts ++ rest) hwf.1 ((cont_tail ts rest hc).ends.endsFor t) (by omega)
    have hts := tail_rt hd ts ctx ce n rest hwf.2 hc (by omega)
    simp only [tailC, List.cons_append, List.append_assoc]
    exact pTermsTail_cons ctx ce n t ts _ rest ht hts
theorem kvs0_rt {dateP} (hd : DateShape dateP) : (kvs : List (SKey × STerm)) → ∀ (fuel : Nat) (rest : List Char),
    wfKV dateP kvs = true → needKV kvs ≤ fuel →
    pKVs0 dateP fuel (kvsC kvs ++ '}' :: rest) = .ok kvs ('}' :: rest)
  | [], fuel, rest, hwf, hf => by
    simp only [needKV] at hf
    obtain ⟨n, rfl⟩ : ∃ n, fuel = n + 2 := ⟨fuel - 2, by omega⟩
    have hnk : NotKey ('}' :: rest) :=
      Or.inl (pMapKey_none_head _ (by decide) (by decide) (by decide) (by decide) (by decide))
    simp only [kvsC, List.nil_append, pKVs0, pKV_err_of_notKey n _ hnk]
  | (k, v) :: kvs, fuel, rest, hwf, hf => by
    simp only [needKV] at hf
    obtain ⟨n, rfl⟩ : ∃ n, fuel = n + 2 := ⟨fuel - 2, by omega⟩
    simp only [wfKV, Bool.and_eq_true] at hwf
    have hv := term_rt hd v .fact n (kvTailC kvs ++ '}' :: rest) hwf.1.2 ((cont_kvTail kvs rest).ends.endsFor v) (by omega)
    have hkv := pKV_ok n k v _ hwf.1.1 hv
    have hts := kvtail_rt hd kvs (n + 1) rest hwf.2 (by omega)
    simp only [kvsC, List.append_assoc, List.cons_append]
    exact pKVs0_cons (n + 1) (k, v) kvs _ _ _ hkv hts
theorem kvtail_rt {dateP} (hd : DateShape dateP) : (kvs : List (SKey × STerm)) → ∀ (fuel : Nat) (rest : List Char),
    wfKV dateP kvs = true → needKV kvs ≤ fuel →
    pKVsTail dateP fuel (kvTailC kvs ++ '}' :: rest) = .ok kvs ('}' :: rest)
  | [], fuel, rest, hwf, hf => by
    simp only [needKV] at hf
    obtain ⟨n, rfl⟩ : ∃ n, fuel = n + 1 := ⟨fuel - 1, by omega⟩
    simp only [kvTailC, List.nil_append, pKVsTail, space0_cons _ (show isSpace '}' = false by decide)]
    split
    · rename_i heq; injection heq with h1 _; exact absurd h1 (by decide)
    · rfl
  | (k, v) :: kvs, fuel, rest, hwf, hf => by
    simp only [needKV] at hf
    obtain ⟨n, rfl⟩ : ∃ n, fuel = n + 2 := ⟨fuel - 2, by omega⟩
    simp only [wfKV, Bool.and_eq_true] at hwf
    have hv := term_rt hd v .fact n (kvTailC kvs ++ '}' :: rest) hwf.1.2 ((cont_kvTail kvs rest).ends.endsFor v) (by omega)
    have hkv := pKV_ok n k v _ hwf.1.1 hv
    have hts := kvtail_rt hd kvs (n + 1) rest hwf.2 (by omega)
    simp only [kvTailC, List.append_assoc, List.cons_append]
    exact pKVsTail_cons (n + 1) (k, v) kvs _ _ _ hkv hts
end

/-! ## the fuel the driver gives is enough -/

theorem termC_pos {dateP} (ctx : Ctx) (t : STerm) (h : wfT dateP ctx t = true) : 1 ≤ (termC t).length := by
  obtain ⟨c, tl, hs, _⟩ := termC_head ctx t h
  simp [hs]

mutual
theorem needT_le {dateP} : (t : STerm) → ∀ ctx, wfT dateP ctx t = true → needT t ≤ 5 * (termC t).length
  | .var n, ctx, h => by simp [wfT] at h
  | .int i, ctx, h => by have := termC_pos ctx _ h; simp only [needT]; omega
  | .str s, ctx, h => by have := termC_pos ctx _ h; simp only [needT]; omega
  | .date d, ctx, h => by have := termC_pos ctx _ h; simp only [needT]; omega
  | .bytes b, ctx, h => by have := termC_pos ctx _ h; simp only [needT]; omega
  | .bool b, ctx, h => by have := termC_pos ctx _ h; simp only [needT]; omega
  | .null, ctx, h => by have := termC_pos ctx _ h; simp only [needT]; omega
  | .param n, ctx, h => by have := termC_pos ctx _ h; simp only [needT]; omega
  | .arr xs, ctx, h => by
    cases ctx with
    | set => simp [wfT] at h
    | fact =>
      simp only [wfT] at h
      have := needL_le xs .fact h
      simp only [needT, termC, List.length_cons, List.length_append, List.length_nil]
      omega
  | .set xs, ctx, h => by
    cases ctx with
    | set => simp [wfT] at h
    | fact =>
      simp only [wfT, Bool.and_eq_true] at h
      have := needL_le xs .set h.1.1
      cases xs with
      | nil => simp [needT, needL, termC]
      | cons x xs' =>
        simp only [needT, termC, List.isEmpty_cons, Bool.false_eq_true, ↓reduceIte, List.length_cons, List.length_append,
          List.length_nil] at this ⊢
        omega
  | .map kvs, ctx, h => by
    have h' : wfKV dateP kvs = true := by cases ctx <;> simpa [wfT] using h
    have := needKV_le kvs h'
    simp only [needT, termC, List.length_cons, List.length_append, List.length_nil]
    omega
theorem needL_le {dateP} : (ts : List STerm) → ∀ ctx, wfL dateP ctx ts = true → needL ts ≤ 5 * (termsC ts).length + 4
  | [], ctx, h => by simp [needL, termsC]
  | [t], ctx, h => by
    simp only [wfL, Bool.and_eq_true] at h
    have h1 := needT_le t ctx h.1
    have h2 := termC_pos ctx t h.1
    simp only [needL, termsC, tailC, List.append_nil]
    omega
  | t :: u :: r, ctx, h => by
    simp only [wfL, Bool.and_eq_true] at h
    have h1 := needT_le t ctx h.1
    have h2 := termC_pos ctx t h.1
    have h3 := needL_le (u :: r) ctx (by simp only [wfL, Bool.and_eq_true]; exact h.2)
    simp only [needL, termsC, tailC, List.length_append, List.length_cons] at h3 ⊢
    omega
theorem needKV_le {dateP} : (kvs : List (SKey × STerm)) → wfKV dateP kvs = true → needKV kvs ≤ 5 * (kvsC kvs).length + 5
  | [], h => by simp [needKV, kvsC]
  | [(k, v)], h => by
    simp only [wfKV, Bool.and_eq_true] at h
    have h1 := needT_le v .fact h.1.2
    simp only [needKV, kvsC, kvTailC, List.append_nil, List.length_append, List.length_cons]
    omega
  | (k, v) :: (k', v') :: r, h => by
    simp only [wfKV, Bool.and_eq_true] at h
    have h1 := needT_le v .fact h.1.2
    have h3 := needKV_le ((k', v') :: r) (by simp only [wfKV, Bool.and_eq_true]; exact h.2)
    simp only [needKV, kvsC, kvTailC, List.length_append, List.length_cons] at h3 ⊢
    omega
end

/-! ## C14 for facts -/

theorem nameChar_not_space {c : Char} (h : isNameChar c = true) : isSpace c = false := by
  cases hs : isSpace c with
  | false => rfl
  | true =>
    simp only [isSpace, Bool.or_eq_true, beq_iff_eq] at hs
    rcases hs with ((hs | hs) | hs) | hs <;> subst hs <;> revert h <;> decide

/-- **C14, facts (explicit fuel).** -/
theorem fact_round_trip_fuel {dateP} (hd : DateShape dateP) (p : SPred) (rest : List Char) (hwf : wfPred dateP p = true)
    (fuel : Nat) (hf : needL p.terms ≤ fuel) : pFactInner dateP fuel (predC p ++ rest) = .ok p rest := by
  simp only [wfPred, validNameL, Bool.and_eq_true, Bool.not_eq_true', List.isEmpty_eq_false_iff, List.all_eq_true] at hwf
  obtain ⟨⟨⟨hne, hall⟩, htne⟩, hwl⟩ := hwf
  cases hname : p.name.toList with
  | nil => rw [hname] at hne; exact absurd rfl hne
  | cons c tl =>
    rw [hname] at hall
    have hsp : isSpace c = false := nameChar_not_space (hall c (by simp))
    have htw := takeWhile_append_of_all isNameChar (c :: tl) ('(' :: (termsC p.terms ++ ([')'] ++ rest))) hall
      (fun c h => by simp only [List.head?_cons, Option.some.injEq] at h; subst h; decide)
    have hl := terms1_rt hd p.terms .fact true fuel (')' :: rest) hwl htne ⟨')', rest, rfl, Or.inr (Or.inr rfl)⟩ hf
    have hp : (⟨String.ofList (c :: tl), p.terms⟩ : SPred) = p := by
      rw [← hname, String.ofList_toList]
    simp only [predC, hname, List.cons_append, List.append_assoc] at htw ⊢
    simp only [pFactInner, space0_cons _ hsp, pName, htw.1, htw.2, space0_cons _ (show isSpace '(' = false by decide)]
    simp only [List.nil_append, List.cons_append] at hl ⊢
    simp only [hl, space0_cons _ (show isSpace ')' = false by decide), hp]

/-- **C14, facts.** The parser model the stream `termparse` runs against the real
    `fact_inner`, applied to the printed form of any grammar-derivable fact followed by any
    text, returns that fact and leaves that text. -/
theorem fact_round_trip {dateP} (hd : DateShape dateP) (p : SPred) (rest : List Char) (hwf : wfPred dateP p = true) :
    parseFactInner dateP ((printPred p).toList ++ rest) = .ok p rest := by
  rw [printPred_eq_predC]
  have hwf' := hwf
  simp only [wfPred, Bool.and_eq_true] at hwf'
  have hb := needL_le p.terms .fact hwf'.2
  apply fact_round_trip_fuel hd p rest hwf
  simp only [fuelFor, predC, List.length_append, List.length_cons, List.length_nil]
  omega

/-! ## non-vacuity -/

theorem dateShape_none : DateShape (fun _ => none) := by
  constructor <;> (intro _ _ h; cases h)

def exFact : SPred :=
  ⟨"ns:f", [.int (-3), .arr [.str "a\", b(", .set [.int 1, .int 2], .arr []], .map [(.str "k", .null), (.int 7, .set [])],
    .bytes [1, 171], .set [.bool true, .bool false], .param "p_1"]⟩

example : wfPred (fun _ => none) exFact = true := by decide

example : parseFactInner (fun _ => none) ((printPred exFact).toList ++ [';', ' ', 'x']) = .ok exFact [';', ' ', 'x'] :=
  fact_round_trip dateShape_none exFact _ (by decide)

/-- a date parser that knows one date, as the harness's table would give it -/
def exDateP : List Char → Option Nat :=
  fun tok => if tok = ['2', '0', '2', '0', '-', '0', '1', '-', '0', '1', 'T', '0', '0', ':', '0', '0', ':', '0', '0', 'Z']
    then some 1577836800 else none

theorem dateShape_ex : DateShape exDateP := by
  constructor
  · intro tok t h
    simp only [exDateP] at h
    split at h
    · rename_i ht; subst ht; exact ⟨'2', _, rfl, by decide⟩
    · cases h
  · intro tok t h
    simp only [exDateP] at h
    split at h
    · rename_i ht; subst ht; rfl
    · cases h

end Biscuit.TermParser
