/-
  C16 — blocks declare the language version they need; under-declared blocks are refused.
  The detector tables and the compatibility ladder are regenerated from datalog/mod.rs on
  every run (`Gen/Detectors.lean`); the theorems below are re-checked against them.
-/
import BiscuitModel.Model.Versions
import BiscuitModel.Props.C02
namespace Biscuit.C16
open Biscuit

/-! ## the detector tables are the specification's tables -/

theorem bin33_table : ∀ k : BinK, Gen.v33Binaries.contains k = (specBin k == 6) := by intro k; cases k <;> rfl
theorem bin31_table : ∀ k : BinK, Gen.v31Binaries.contains k = (specBin k == 4) := by intro k; cases k <;> rfl
theorem un33_table : ∀ k : UnK, Gen.v33Unaries.contains k = (specUn k == 6) := by intro k; cases k <;> rfl
theorem closure_table : Gen.v33Closure = true := by decide
theorem check_kind_table : Gen.checkAllDetected = true ∧ Gen.rejectDetected = true := by decide

mutual
theorem term33_detected : ∀ t : Term, codeTerm33 t = specTerm33 t
  | .var _ => rfl
  | .int _ => rfl
  | .str _ => rfl
  | .date _ => rfl
  | .bytes _ => rfl
  | .bool _ => rfl
  | .null => rfl
  | .arr _ => rfl
  | .map _ => rfl
  | .set xs => by
    have h := terms33_detected xs
    simp only [codeTerm33, specTerm33]
    exact h
theorem terms33_detected : ∀ ts : List Term, codeTerms33 ts = specTerms33 ts
  | [] => rfl
  | x :: xs => by simp only [codeTerms33, specTerms33, term33_detected x, terms33_detected xs]
end

theorem op33_detected (o : Op) : codeOp33 o = specOp33 o := by
  cases o with
  | value t => exact term33_detected t
  | unary u => simp only [codeOp33, specOp33, un33_table]
  | binary b => simp only [codeOp33, specOp33, bin33_table]
  | closure ps ops => simp only [codeOp33, specOp33, closure_table]

theorem op31_detected (o : Op) : codeOp31 o = specOp31 o := by
  cases o with
  | binary b => simp only [codeOp31, specOp31, bin31_table]
  | _ => rfl

/-- **A block produced by the builders declares exactly the lowest version that includes every
    feature it uses** — for every block: any operators, any nesting of terms, any checks and scopes. -/
theorem declared_version_spec (b : Block) : declaredVersion b = specVersion b := by
  have ht : codeTerm33 = specTerm33 := funext term33_detected
  have ho : codeOp33 = specOp33 := funext op33_detected
  have h1 : codeOp31 = specOp31 := funext op31_detected
  simp only [declaredVersion, specVersion, ht, ho, h1, check_kind_table.1, check_kind_table.2]

theorem third_party_at_least_32 (b : Block) :
    Gen.datalog32 ≤ declaredVersionThirdParty b ∧ specVersion b ≤ declaredVersionThirdParty b := by
  simp only [declaredVersionThirdParty, declared_version_spec]
  omega

/-- the declared version is one of 3.0, 3.1, 3.3 -/
theorem spec_version_values (b : Block) : specVersion b = 3 ∨ specVersion b = 4 ∨ specVersion b = 6 := by
  simp only [specVersion, Flags.version, Gen.datalog33, Gen.datalog31, Gen.minSchemaVersion]
  split
  · exact .inr (.inr rfl)
  · split
    · exact .inr (.inl rfl)
    · exact .inl rfl

/-! ## the load gate refuses every under-declared block -/

theorem compatible_sound (f : Flags) (declared : Nat) (h : compatible f declared = true) : f.version ≤ declared ∨ declared < 3 := by
  obtain ⟨s, a, c, v⟩ := f
  by_cases h6 : declared < 6 <;> by_cases h4 : declared < 4 <;> by_cases h3 : declared < 3 <;>
    cases s <;> cases a <;> cases c <;> cases v <;>
    simp [compatible, Flags.version, Gen.gate33Unconditional, Gen.gate33Above31, Gen.gate31Scopes, Gen.gate31Ops,
      Gen.gate31CheckAll, Gen.datalog33, Gen.datalog31, Gen.minSchemaVersion, h6, h4, h3] at h ⊢ <;> omega

/-- **A block whose declared version is outside the supported range, or lower than a feature it
    contains, is rejected**: whatever passes the gate declares a supported version, at least the
    version the specification requires for its contents, and at least 3.2 if it is third-party. -/
theorem gate_sound (declared : Nat) (thirdParty : Bool) (b : Block) (h : loadGate declared thirdParty b = true) :
    3 ≤ declared ∧ declared ≤ 6 ∧ specVersion b ≤ declared ∧ (thirdParty = true → 5 ≤ declared) := by
  simp only [loadGate, Bool.and_eq_true, Gen.minSchemaVersion, Gen.maxSchemaVersion] at h
  obtain ⟨⟨⟨⟨⟨hlo, hhi⟩, _⟩, _⟩, htp⟩, hc⟩ := h
  have hlo' : 3 ≤ declared := of_decide_eq_true hlo
  have hhi' : declared ≤ 6 := of_decide_eq_true hhi
  refine ⟨hlo', hhi', ?_, ?_⟩
  · have := compatible_sound _ _ hc
    rw [← declared_version_spec]
    simp only [declaredVersion]
    omega
  · intro ht
    subst ht
    simp only [Bool.and_true, Bool.not_eq_true', Gen.datalog32] at htp
    have := of_decide_eq_false htp
    omega

theorem compatible_own_version (f : Flags) : compatible f f.version = true := by
  obtain ⟨s, a, c, v⟩ := f
  cases s <;> cases a <;> cases c <;> cases v <;> rfl

/-- and a block declaring what the builders compute for it passes its own compatibility check -/
theorem builder_blocks_pass_own_gate (b : Block) : compatible
    (blockFlags codeTerm33 codeOp33 codeOp31 Gen.checkAllDetected Gen.rejectDetected b) (declaredVersion b) = true :=
  compatible_own_version _

/-! ## signature scheme: chained whenever needed, never back (see also C02) -/

theorem chained_when_needed (a b : Nat) (dv : Option Nat) (prev : List Nat) :
    sigVersion a b true dv prev = 1 ∧
    (∀ v, Gen.datalog33 ≤ v → sigVersion a b false (some v) prev = 1) ∧
    (needs33 dv = false → (a ≠ ed25519 ∨ b ≠ ed25519) → sigVersion a b false dv prev = 1) :=
  ⟨C02.sigVersion_third_party a b dv prev, fun v hv => C02.sigVersion_datalog33 a b v prev hv,
   fun h1 h2 => C02.sigVersion_non_ed25519 a b dv prev h1 h2⟩

theorem never_back (a b : Nat) (hasExt : Bool) (dv : Option Nat) (prev : List Nat) (x : Nat) (hx : x ∈ prev) (h1 : x ≤ 1) :
    x ≤ sigVersion a b hasExt dv prev := C02.sigVersion_never_back a b hasExt dv prev x hx h1

/-! ## non-vacuity -/

example : specVersion ⟨[⟨1024, [.arr [.int 1]]⟩], [], [], [], none⟩ = 6 := by decide
example : specVersion ⟨[⟨1024, [.set [.int 1]]⟩], [], [⟨.all, []⟩], [], none⟩ = 4 := by decide
example : loadGate 3 false ⟨[⟨1024, [.null]⟩], [], [], [], none⟩ = false := by decide

end Biscuit.C16
