/-
  C14 — printed Datalog parses back to the same program.

  Proved here, for all inputs:
    * `string_lit_round_trip` : whatever the contents of a string (quotes, backslashes,
      newlines, any scalar value) and whatever text follows the literal, the string parser
      reads the printed literal back as exactly that string and stops right after the
      closing quote — no string value can make printed text parse as different code;
    * `hex_round_trip`, `int_round_trip` : the same for byte strings and 64-bit integers;
    * `postfix_print_infix` : `Expression::print`, a stack machine over postfix ops, renders
      the op list of a tree as the infix text of that tree, with exactly the parentheses
      that are explicit `Parens` nodes;
    * `singleton_set_prints_as_parameter` : the printer is *not* injective — the witness of
      the known finding C14-singleton-set-parameter.
  Not proved (see DESIGN.md): that the operator-precedence parser inverts `showTree` on
  every tree it can produce; decided on the stream `print` by the real parser.
-/
import BiscuitModel.Model.Printer
set_option linter.unusedSimpArgs false
namespace Biscuit.Printer

/-! ## strings -/

theorem parseStrBody_escape (s rest : List Char) :
    parseStrBody (escape s ++ '"' :: rest) = some (s, rest) := by
  induction s with
  | nil => simp [escape]; unfold parseStrBody; simp
  | cons c cs ih =>
    unfold escape
    by_cases h1 : c = '\\'
    · subst h1
      simp only [↓reduceIte, List.cons_append]
      unfold parseStrBody
      simp [ih]
    · by_cases h2 : c = '"'
      · subst h2
        simp only [List.cons_append]
        rw [if_neg (by decide)]
        simp only [↓reduceIte, List.cons_append]
        unfold parseStrBody
        simp [ih]
      · simp only [if_neg h1, if_neg h2, List.cons_append]
        unfold parseStrBody
        simp [h1, h2, ih]

/-- C14, strings: printed literal followed by any text parses back to the same string and
    leaves exactly that text -/
theorem string_lit_round_trip (s rest : List Char) :
    parseString (printStringChars s ++ rest) = some (s, rest) := by
  simp [printStringChars, parseString, parseStrBody_escape]

/-- non-vacuity and a concrete instance: a string that looked like two terms before the fix -/
example : parseString (printStringChars "x\", \"y".toList ++ ")".toList) = some ("x\", \"y".toList, ")".toList) :=
  string_lit_round_trip _ _

/-! ## bytes -/

theorem hexVal_hexDigit : ∀ n : Fin 16, hexVal (hexDigit n.val) = some n.val := by decide

theorem isHexDigit_hexDigit (n : Nat) (h : n < 16) : isHexDigit (hexDigit n) = true := by
  have := hexVal_hexDigit ⟨n, h⟩
  simp [isHexDigit, this]

theorem hexEncode_all (bs : List UInt8) : ∀ c ∈ hexEncode bs, isHexDigit c = true := by
  induction bs with
  | nil => simp [hexEncode]
  | cons b bs ih =>
    intro c hc
    simp only [hexEncode, List.mem_cons] at hc
    rcases hc with rfl | rfl | hc
    · exact isHexDigit_hexDigit _ (by have := b.toNat_lt; omega)
    · exact isHexDigit_hexDigit _ (by omega)
    · exact ih c hc

theorem decodePairs_hexEncode (bs : List UInt8) : decodePairs (hexEncode bs) = some bs := by
  induction bs with
  | nil => simp [hexEncode, decodePairs]
  | cons b bs ih =>
    have h1 := hexVal_hexDigit ⟨b.toNat / 16, by have := b.toNat_lt; omega⟩
    have h2 := hexVal_hexDigit ⟨b.toNat % 16, by omega⟩
    simp only at h1 h2
    simp only [hexEncode, decodePairs, h1, h2, ih]
    have : 16 * (b.toNat / 16) + b.toNat % 16 = b.toNat := by omega
    simp [this]

theorem takeWhile_append_of_all {α} (p : α → Bool) (xs rest : List α) (h : ∀ x ∈ xs, p x = true)
    (hr : ∀ c, rest.head? = some c → p c = false) :
    (xs ++ rest).takeWhile p = xs ∧ (xs ++ rest).dropWhile p = rest := by
  induction xs with
  | nil =>
    cases rest with
    | nil => simp
    | cons c cs =>
      have := hr c rfl
      simp [List.takeWhile_cons, List.dropWhile_cons, this]
  | cons x xs ih =>
    have hx := h x (by simp)
    have := ih (fun y hy => h y (by simp [hy]))
    simp [List.takeWhile_cons, List.dropWhile_cons, hx, this.1, this.2]

/-- C14, bytes: a non-empty byte string, printed and followed by anything that is not a hex
    digit (in printed Datalog: `,`, `)`, `]`, `}`, `.`, space, `;`), parses back unchanged -/
theorem hex_round_trip (bs : List UInt8) (rest : List Char) (hne : bs ≠ [])
    (hr : ∀ c, rest.head? = some c → isHexDigit c = false) :
    parseHex (hexEncode bs ++ rest) = some (bs, rest) := by
  unfold parseHex
  have hs := takeWhile_append_of_all isHexDigit _ _ (hexEncode_all bs) hr
  rw [hs.1, hs.2]
  cases bs with
  | nil => exact absurd rfl hne
  | cons b bs' =>
    have := decodePairs_hexEncode (b :: bs')
    simp only [hexEncode] at this ⊢
    simp [this]

example : parseHex (hexEncode [0x00, 0xff] ++ ")".toList) = some ([0x00, 0xff], ")".toList) :=
  hex_round_trip _ _ (by simp) (by decide)

/-! ## integers -/

theorem toDigits_all_digit (n : Nat) : ∀ c ∈ Nat.toDigits 10 n, Char.isDigit c = true :=
  fun _ hc => Nat.isDigit_of_mem_toDigits (by decide) (by decide) hc

theorem parseDigits_toDigits (n : Nat) (rest : List Char)
    (hr : ∀ c, rest.head? = some c → Char.isDigit c = false) :
    parseDigits (Nat.toDigits 10 n ++ rest) = some (n, rest) := by
  unfold parseDigits
  have hs := takeWhile_append_of_all Char.isDigit _ _ (toDigits_all_digit n) hr
  rw [hs.1, hs.2]
  cases hd : Nat.toDigits 10 n with
  | nil => exact absurd hd Nat.toDigits_ne_nil
  | cons d ds =>
    simp only
    rw [← hd, Nat.ofDigitChars_ten_toDigits]

theorem toDigits_head_not_minus (n : Nat) : ∀ r, Nat.toDigits 10 n ≠ '-' :: r := by
  intro r h
  have : Char.isDigit '-' = true := toDigits_all_digit n '-' (by rw [h]; simp)
  exact absurd this (by decide)

/-- C14, integers: every 64-bit integer, printed and followed by anything that is not a
    digit, parses back unchanged -/
theorem int_round_trip (i : Int) (rest : List Char) (hlo : -(2 ^ 63 : Int) ≤ i) (hhi : i < (2 ^ 63 : Int))
    (hr : ∀ c, rest.head? = some c → Char.isDigit c = false) :
    parseInt (printIntChars i ++ rest) = some (i, rest) := by
  unfold printIntChars printNatChars
  by_cases hneg : i < 0
  · simp only [hneg, ↓reduceIte, List.cons_append]
    unfold parseInt
    simp only [parseDigits_toDigits _ _ hr]
    have h1 : (-(((-i).toNat : Nat) : Int)) = i := by omega
    have h2 : inI64 i = true := by
      simp only [inI64, Bool.and_eq_true, decide_eq_true_eq]; exact ⟨hlo, hhi⟩
    simp only [h1, h2, ↓reduceIte]
  · simp only [hneg, ↓reduceIte]
    unfold parseInt
    have h1 : ((i.toNat : Nat) : Int) = i := by omega
    have h2 : inI64 i = true := by
      simp only [inI64, Bool.and_eq_true, decide_eq_true_eq]; exact ⟨hlo, hhi⟩
    cases hd : Nat.toDigits 10 i.toNat with
    | nil => exact absurd hd Nat.toDigits_ne_nil
    | cons d ds =>
      by_cases hm : d = '-'
      · subst hm; exact absurd hd (toDigits_head_not_minus _ _)
      · simp only [List.cons_append]
        split
        · rename_i r heq
          simp only [List.cons.injEq] at heq
          exact absurd heq.1 hm
        · rw [← List.cons_append, ← hd, parseDigits_toDigits _ _ hr]
          simp only [h1, h2, ↓reduceIte]

example : parseInt (printIntChars (-9223372036854775808) ++ ", 1)".toList) = some (-9223372036854775808, ", 1)".toList) :=
  int_round_trip _ _ (by decide) (by decide) (by decide)

/-! ## expressions -/

/-- the stack machine run on the ops of a tree pushes the infix text of the tree -/
theorem postfix_print_infix (e : ETree) : ∀ (k : List POp) (st : List String),
    printOpsAux (opcodes e ++ k) st = printOpsAux k (showTree e :: st) := by
  induction e with
  | val t => intro k st; simp [opcodes, showTree, printOpsAux]
  | un u a ih =>
    intro k st
    simp only [opcodes, showTree, List.append_assoc, List.singleton_append]
    rw [ih]
    simp [printOpsAux]
  | bin b l r ihl ihr =>
    intro k st
    simp only [opcodes, showTree, List.append_assoc, List.singleton_append]
    rw [ihl, ihr]
    simp [printOpsAux]
  | clo ps body ih =>
    intro k st
    have := ih [] []
    simp only [List.append_nil] at this
    simp [opcodes, showTree, printOpsAux, this]

/-- C14, operator structure: printing the ops of a tree gives the tree's infix text; no
    parenthesis is invented or lost by the printer -/
theorem printExpr_opcodes (e : ETree) : printExpr (opcodes e) = some (showTree e) := by
  have := postfix_print_infix e [] []
  simp only [List.append_nil] at this
  simp [printExpr, this, printOpsAux]

example : printExpr (opcodes (.bin .add (.un .parens (.bin .mul (.val (.int 1)) (.val (.int 2)))) (.val (.var "x"))))
    = some "(1 * 2) + $x" := by
  rw [printExpr_opcodes]; decide

/-! ## the printer is not injective on terms (known finding C14-singleton-set-parameter) -/

theorem singleton_set_prints_as_parameter :
    printTerm (.set [.bool true]) = printTerm (.param "true")
    ∧ printTerm (.set [.null]) = printTerm (.param "null")
    ∧ printTerm (.set [.bytes [0]]) = printTerm (.param "hex:00") := by
  decide

theorem ambiguous_flags_it : ambiguous (.set [.bool true]) = true ∧ ambiguous (.arr [.set [.null]]) = true
    ∧ ambiguous (.set [.int 1]) = false := by decide

end Biscuit.Printer
