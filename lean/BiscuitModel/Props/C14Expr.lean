/-
  C14 — the expression parser inverts the printer.

  `expr_round_trip`: for every expression tree of the grammar (`wfE`: operands of an infix
  operator at the levels the grammar gives them, left-nested chains, explicit `Parens` nodes
  wherever the levels require them, method calls on level-9 receivers, closures of `.all` /
  `.any`, the right operand of `&&` / `||` as a parameterless closure) the model of
  `biscuit_parser::parser::expr`, run on the printed tree followed by any text that does not
  continue the expression, returns exactly that tree and leaves exactly that text.
-/
import BiscuitModel.Lemmas.ExprParser
set_option linter.unusedSimpArgs false
set_option linter.unusedVariables false
namespace Biscuit.ExprParser
open Biscuit.Printer Biscuit.TermParser

/-! ## the trees of the grammar -/

def isTokenLit : STerm → Bool
  | .int _ => true
  | .date _ => true
  | _ => false

/-- may be followed by `.method(`: everything of level 9 except a bare integer or date, whose
    token would run on into the method name -/
def recvOK : ETree → Bool
  | .val t => !isTokenLit t
  | .un .negate _ => false
  | .un _ _ => true
  | .bin b _ _ => (infixOf b).isNone
  | .clo _ _ => false

def isLazy : Bin → Bool
  | .lazyAnd => true
  | .lazyOr => true
  | _ => false

def wfE (dateP : List Char → Option Nat) : ETree → Bool
  | .val t => wfV dateP t
  | .un .negate a => wfE dateP a && decide (6 ≤ lev a)
  | .un .parens a => wfE dateP a
  | .un .length a => wfE dateP a && decide (lev a = 9) && recvOK a
  | .un .typeOf a => wfE dateP a && decide (lev a = 9) && recvOK a
  | .un (.ffi n) a => wfE dateP a && decide (lev a = 9) && recvOK a && validNameL n.toList
  | .bin b l r =>
    match infixOf b with
    | some (j, _) =>
      if isLazy b then
        match r with
        | .clo [] body => wfE dateP l && wfE dateP body && decide (j ≤ lev l) && decide (j + 1 ≤ lev body)
        | _ => false
      else if j = 2 then wfE dateP l && wfE dateP r && decide (3 ≤ lev l) && decide (3 ≤ lev r)
      else wfE dateP l && wfE dateP r && decide (j ≤ lev l) && decide (j + 1 ≤ lev r) && (decide (j < 6) || !openE l)
    | none =>
      match methodC b with
      | none => false
      | some _ =>
        wfE dateP l && decide (lev l = 9) && recvOK l && (match b with | .ffi n => validNameL n.toList | _ => true) &&
          (if isClosureOp b then
            match r with
            | .clo [p] body => validNameL p.toList && wfE dateP body
            | _ => false
          else wfE dateP r)
  | .clo _ _ => false

/-- number of operators of level `k` on the left spine -/
def sp (k : Nat) : ETree → Nat
  | .bin b l _ => match infixOf b with | some (j, _) => if j = k then sp k l + 1 else 0 | none => 0
  | _ => 0

/-- number of method calls chained on the receiver -/
def msp : ETree → Nat
  | .un .length a => msp a + 1
  | .un .typeOf a => msp a + 1
  | .un (.ffi _) a => msp a + 1
  | .bin b l _ => if (infixOf b).isNone then msp l + 1 else 0
  | _ => 0

def needE : ETree → Nat
  | .val t => needT t + 40
  | .un _ a => needE a + 40
  | .bin _ l r => needE l + needE r + 40
  | .clo _ body => needE body + 40

theorem sp_le (k : Nat) : ∀ e : ETree, sp k e + 40 ≤ needE e := by
  intro e
  induction e with
  | val t => simp [sp, needE]
  | un u a ih => simp [sp, needE]
  | bin b l r ihl ihr =>
    simp only [sp, needE]
    split
    · split <;> omega
    · omega
  | clo ps body ih => simp [sp, needE]

theorem msp_le : ∀ e : ETree, msp e + 40 ≤ needE e := by
  intro e
  induction e with
  | val t => simp [msp, needE]
  | un u a ih => cases u <;> simp only [msp, needE] <;> omega
  | bin b l r ihl ihr => simp only [msp, needE]; split <;> omega
  | clo ps body ih => simp [msp, needE]

/-! ## one level at a time -/

def LoopLevel (k : Nat) : Prop := k = 0 ∨ k = 1 ∨ k = 3 ∨ k = 4 ∨ k = 5 ∨ k = 6 ∨ k = 7

theorem pLevel_step_loop {dateP} (k n : Nat) (s : List Char) (e : ETree) (r : List Char) (hk : LoopLevel k)
    (h : pLevel dateP (k + 1) n s = .ok e r) : pLevel dateP k (n + 1) s = pLoop dateP k n e r := by
  have h8 : ¬ k ≥ 8 := by unfold LoopLevel at hk; omega
  have h2 : ¬ k = 2 := by unfold LoopLevel at hk; omega
  simp only [pLevel, h8, ↓reduceIte, h, h2]

theorem pLevel_step_cmp_none {dateP} (n : Nat) (s : List Char) (e : ETree) (r : List Char)
    (h : pLevel dateP 3 n s = .ok e r) (h0 : firstTag (opsAt 2) (space0 r) = none) :
    pLevel dateP 2 (n + 1) s = .ok e r := by
  simp only [pLevel, show ¬ (2 ≥ 8) by omega, ↓reduceIte, h, h0]

theorem pLevel_step_cmp_some {dateP} (n : Nat) (s : List Char) (e e2 : ETree) (r r1 r2 : List Char) (op : Bin)
    (h : pLevel dateP 3 n s = .ok e r) (h0 : firstTag (opsAt 2) (space0 r) = some (op, r1))
    (h1 : pLevel dateP 3 n r1 = .ok e2 r2) : pLevel dateP 2 (n + 1) s = .ok (.bin op e e2) r2 := by
  simp only [pLevel, show ¬ (2 ≥ 8) by omega, ↓reduceIte, h, h0, h1]

theorem pLevel_step_top {dateP} (k n : Nat) (s : List Char) (hk : 8 ≤ k) : pLevel dateP k (n + 1) s = pExpr8 dateP n s := by
  simp only [pLevel, show k ≥ 8 from hk, ↓reduceIte]

theorem pLoop_step {dateP} (k n : Nat) (acc e : ETree) (s r1 r2 : List Char) (op : Bin)
    (h0 : firstTag (opsAt k) (space0 s) = some (op, r1)) (h1 : pLevel dateP (k + 1) n r1 = .ok e r2) :
    pLoop dateP k (n + 1) acc s = pLoop dateP k n (foldOne acc op e) r2 := by
  simp only [pLoop, h0, h1]

/-! ## the statements -/

/-- `e`, printed and followed by text that ends a level-`k` expression, is read back at level `k` -/
def Final (dateP : List Char → Option Nat) (k : Nat) (e : ETree) : Prop :=
  ∀ (X : List Char) (fuel : Nat), Stops k X → (openE e = true → Stops 6 X) → needE e + 40 ≤ fuel + 2 * k →
    pLevel dateP k fuel (showC e ++ X) = .ok e X

/-- `e`, printed and followed by text that ends a level-`k+1` expression (an operator of level
    `k` may follow), brings the loop of level `k` to the state "read `e`, `X` left" -/
def Star (dateP : List Char → Option Nat) (k : Nat) (e : ETree) : Prop :=
  ∀ (X : List Char) (n : Nat), Stops (k + 1) X → (openE e = true → Stops 6 X) → needE e + 40 ≤ n + 1 + 2 * k →
    pLevel dateP k (n + 1) (showC e ++ X) = pLoop dateP k (n - sp k e) e X

/-- what may follow a level-9 expression: the end of the expression, or a method call -/
def DotOrEnd (e : ETree) (Y : List Char) : Prop := EEnd Y ∨ (∃ r, Y = '.' :: r ∧ recvOK e = true)

/-- a level-9 expression, printed, brings the method loop to the state "read `e`, `Y` left" -/
def MStar (dateP : List Char → Option Nat) (e : ETree) : Prop :=
  ∀ (Y : List Char) (n : Nat), DotOrEnd e Y → needE e + 10 ≤ n →
    pExpr9 dateP (n + 1) (showC e ++ Y) = pMethods dateP (n - msp e) e Y

theorem star_to_final {dateP} (hd : DateShape dateP) (k : Nat) (e : ETree) (hk : LoopLevel k) (h : Star dateP k e) :
    Final dateP k e := by
  intro X fuel hX ho hf
  have hk7 : k ≤ 7 := by unfold LoopLevel at hk; omega
  obtain ⟨n, rfl⟩ : ∃ n, fuel = n + 1 := ⟨fuel - 1, by omega⟩
  rw [h X n (hX.mono (by omega)) ho (by omega)]
  have := sp_le k e
  exact stop_loop hd hX k hk (Nat.le_refl _) _ (by omega) e

theorem final_to_star {dateP} (k : Nat) (e : ETree) (hk : LoopLevel k) (hsp : sp k e = 0) (h : Final dateP (k + 1) e) :
    Star dateP k e := by
  intro X n hX ho hf
  rw [pLevel_step_loop k n _ e X hk (h X n hX ho (by omega)), hsp, Nat.sub_zero]

theorem final3_to_final2 {dateP} (e : ETree) (h : Final dateP 3 e) : Final dateP 2 e := by
  intro X fuel hX ho hf
  obtain ⟨n, rfl⟩ : ∃ n, fuel = n + 1 := ⟨fuel - 1, by omega⟩
  exact pLevel_step_cmp_none n _ e X (h X n (hX.mono (by omega)) ho (by omega)) (stop_cmp hX (Nat.le_refl _))

theorem sp_zero_of_lev (k : Nat) (e : ETree) (h : k < lev e) : sp k e = 0 := by
  cases e with
  | bin b l r =>
    simp only [sp, lev] at h ⊢
    cases hb : infixOf b with
    | none => rfl
    | some p =>
      obtain ⟨j, sym⟩ := p
      rw [hb] at h
      simp only at h ⊢
      have : ¬ j = k := by omega
      simp [this]
  | val t => rfl
  | un u a => rfl
  | clo ps body => rfl

/-- everything below the level at which a tree is first read follows from that level -/
theorem final_down {dateP} (hd : DateShape dateP) (e : ETree) :
    ∀ (d T : Nat), T ≤ 8 → T ≤ lev e → Final dateP T e → ∀ k, k + d = T → Final dateP k e ∧ (LoopLevel k → k < T → Star dateP k e) := by
  intro d
  induction d with
  | zero =>
    intro T hT hTl hF k hk
    have : k = T := by omega
    subst this
    exact ⟨hF, fun _ h => absurd h (Nat.lt_irrefl _)⟩
  | succ d ih =>
    intro T hT hTl hF k hk
    have hF1 : Final dateP (k + 1) e := (ih T hT hTl hF (k + 1) (by omega)).1
    by_cases h2 : k = 2
    · subst h2
      exact ⟨final3_to_final2 e hF1, fun hl _ => by unfold LoopLevel at hl; omega⟩
    · have hl : LoopLevel k := by unfold LoopLevel; omega
      have hs := final_to_star k e hl (sp_zero_of_lev k e (by omega)) hF1
      exact ⟨star_to_final hd k e hl hs, fun _ _ => hs⟩

/-! ## first character of a printed tree -/

theorem showC_head {dateP} : ∀ e : ETree, wfE dateP e = true →
    ∃ c tl, showC e = c :: tl ∧ isSpace c = false ∧ (lev e = 9 → c ≠ '!' ) := by
  intro e
  induction e with
  | val t =>
    intro h
    obtain ⟨c, tl, hs, hsp, hn, _⟩ := valC_head t h
    exact ⟨c, tl, by simp [showC, hs], hsp, fun _ => hn⟩
  | un u a ih =>
    intro h
    cases u with
    | negate => exact ⟨'!', showC a, by simp [showC], by decide, by simp [lev]⟩
    | parens => exact ⟨'(', showC a ++ [')'], by simp [showC], by decide, fun _ => by decide⟩
    | length =>
      simp only [wfE, Bool.and_eq_true, decide_eq_true_eq] at h
      obtain ⟨c, tl, hs, hsp, hn⟩ := ih h.1.1
      exact ⟨c, tl ++ ".length()".toList, by simp [showC, hs], hsp, fun _ => hn h.1.2⟩
    | typeOf =>
      simp only [wfE, Bool.and_eq_true, decide_eq_true_eq] at h
      obtain ⟨c, tl, hs, hsp, hn⟩ := ih h.1.1
      exact ⟨c, tl ++ ".type()".toList, by simp [showC, hs], hsp, fun _ => hn h.1.2⟩
    | ffi n =>
      simp only [wfE, Bool.and_eq_true, decide_eq_true_eq] at h
      obtain ⟨c, tl, hs, hsp, hn⟩ := ih h.1.1.1
      exact ⟨c, tl ++ (".extern::".toList ++ (n.toList ++ "()".toList)), by simp [showC, hs], hsp, fun _ => hn h.1.1.2⟩
  | bin b l r ihl ihr =>
    intro h
    unfold wfE at h
    cases hb : infixOf b with
    | some p =>
      obtain ⟨j, sym⟩ := p
      rw [hb] at h
      simp only at h
      have hl : wfE dateP l = true := by
        split at h
        · split at h
          · simp only [Bool.and_eq_true] at h; exact h.1.1.1
          · cases h
        · split at h
          · simp only [Bool.and_eq_true] at h; exact h.1.1.1
          · simp only [Bool.and_eq_true] at h; exact h.1.1.1.1
      obtain ⟨c, tl, hs, hsp, _⟩ := ihl hl
      refine ⟨c, tl ++ (' ' :: (sym ++ (' ' :: showC r))), by simp [showC, hb, hs], hsp, ?_⟩
      intro h9
      have hj : j ≤ 7 := by
        cases b <;> simp only [infixOf, Option.some.injEq, Prod.mk.injEq, reduceCtorEq] at hb <;> omega
      simp only [lev, hb] at h9
      omega
    | none =>
      rw [hb] at h
      simp only at h
      cases hm : methodC b with
      | none => rw [hm] at h; cases h
      | some m =>
        rw [hm] at h
        simp only [Bool.and_eq_true, decide_eq_true_eq] at h
        obtain ⟨c, tl, hs, hsp, hn⟩ := ihl h.1.1.1.1
        exact ⟨c, tl ++ ('.' :: (m ++ ('(' :: (showC r ++ [')'])))), by simp [showC, hb, hm, hs], hsp, fun _ => hn h.1.1.1.2⟩
  | clo ps body ih => intro h; simp [wfE] at h

/-! ## what well-formedness says of each kind of node -/

theorem infix_level {b : Bin} {j : Nat} {sym : List Char} (h : infixOf b = some (j, sym)) :
    j ≤ 7 ∧ (isLazy b = true ↔ j ≤ 1) := by
  cases b <;> simp only [infixOf, Option.some.injEq, Prod.mk.injEq, reduceCtorEq] at h <;>
    obtain ⟨rfl, rfl⟩ := h <;> simp [isLazy]

theorem wfE_lazy {dateP} {b : Bin} {l r : ETree} {j : Nat} {sym : List Char} (hb : infixOf b = some (j, sym))
    (hz : isLazy b = true) (h : wfE dateP (.bin b l r) = true) :
    ∃ body, r = .clo [] body ∧ wfE dateP l = true ∧ wfE dateP body = true ∧ j ≤ lev l ∧ j + 1 ≤ lev body := by
  unfold wfE at h
  rw [hb] at h
  simp only [hz, ↓reduceIte] at h
  split at h
  · rename_i body
    simp only [Bool.and_eq_true, decide_eq_true_eq] at h
    exact ⟨body, rfl, h.1.1.1, h.1.1.2, h.1.2, h.2⟩
  · cases h

theorem wfE_cmp {dateP} {b : Bin} {l r : ETree} {sym : List Char} (hb : infixOf b = some (2, sym))
    (h : wfE dateP (.bin b l r) = true) :
    wfE dateP l = true ∧ wfE dateP r = true ∧ 3 ≤ lev l ∧ 3 ≤ lev r := by
  have hz : isLazy b = false := by
    cases hzz : isLazy b with
    | false => rfl
    | true => have := (infix_level hb).2.mp hzz; omega
  unfold wfE at h
  rw [hb] at h
  simp only [hz, Bool.false_eq_true, ↓reduceIte, Bool.and_eq_true, decide_eq_true_eq] at h
  exact ⟨h.1.1.1, h.1.1.2, h.1.2, h.2⟩

theorem wfE_infix {dateP} {b : Bin} {l r : ETree} {j : Nat} {sym : List Char} (hb : infixOf b = some (j, sym))
    (hz : isLazy b = false) (hj : j ≠ 2) (h : wfE dateP (.bin b l r) = true) :
    wfE dateP l = true ∧ wfE dateP r = true ∧ j ≤ lev l ∧ j + 1 ≤ lev r ∧ (j < 6 ∨ openE l = false) := by
  unfold wfE at h
  rw [hb] at h
  simp only [hz, Bool.false_eq_true, ↓reduceIte, hj, Bool.and_eq_true, decide_eq_true_eq, Bool.or_eq_true,
    Bool.not_eq_true'] at h
  exact ⟨h.1.1.1.1, h.1.1.1.2, h.1.1.2, h.1.2, h.2⟩

theorem wfE_method {dateP} {b : Bin} {l r : ETree} (hb : infixOf b = none) (h : wfE dateP (.bin b l r) = true) :
    ∃ m, methodC b = some m ∧ wfE dateP l = true ∧ lev l = 9 ∧ recvOK l = true ∧
      (∀ n, b = .ffi n → validNameL n.toList = true) ∧
      ((isClosureOp b = true ∧ ∃ p body, r = .clo [p] body ∧ validNameL p.toList = true ∧ wfE dateP body = true) ∨
       (isClosureOp b = false ∧ wfE dateP r = true)) := by
  unfold wfE at h
  rw [hb] at h
  simp only at h
  cases hm : methodC b with
  | none => rw [hm] at h; cases h
  | some m =>
    rw [hm] at h
    simp only [Bool.and_eq_true, decide_eq_true_eq] at h
    refine ⟨m, rfl, h.1.1.1.1, h.1.1.1.2, h.1.1.2, ?_, ?_⟩
    · intro n hn
      have := h.1.2
      subst hn
      simpa using this
    · have h2 := h.2
      cases hc : isClosureOp b with
      | true =>
        rw [hc] at h2
        simp only [↓reduceIte] at h2
        split at h2
        · rename_i p body
          simp only [Bool.and_eq_true] at h2
          exact .inl ⟨rfl, p, body, rfl, h2.1, h2.2⟩
        · cases h2
      | false =>
        rw [hc] at h2
        simp only [Bool.false_eq_true, ↓reduceIte] at h2
        exact .inr ⟨rfl, h2⟩

/-! ## level 9: values, parentheses, method calls -/

theorem endsForV_of_dotOrEnd (t : STerm) (Y : List Char) (h : DotOrEnd (.val t) Y) : EndsForV t Y := by
  rcases h with h | ⟨r, rfl, hr⟩
  · have he := h.ends
    cases t <;> simp only [EndsForV, EndsFor] <;>
      first | exact he | exact (fun c hc => (he c hc).2.1) | exact (fun c hc => (he c hc).2.2.1) | trivial
  · simp only [recvOK, Bool.not_eq_true'] at hr
    cases t <;> simp only [isTokenLit, reduceCtorEq] at hr <;> simp only [EndsForV, EndsFor] <;>
      first
        | trivial
        | (intro c hc; simp only [List.head?_cons, Option.some.injEq] at hc; subst hc; decide)

theorem mstar_val {dateP} (hd : DateShape dateP) (t : STerm) (hw : wfV dateP t = true) : MStar dateP (.val t) := by
  intro Y n hY hn
  simp only [needE] at hn
  obtain ⟨m, rfl⟩ : ∃ m, n = m + 2 := ⟨n - 2, by omega⟩
  obtain ⟨c, tl, hs, hsp, _, hp⟩ := valC_head t hw
  have hpar : pParen dateP (m + 1) (termC t ++ Y) = .err := by
    rw [hs]; exact pParen_err_head m _ hsp hp
  have hterm := pTermAny_rt hd t Y (m + 1) hw (endsForV_of_dotOrEnd t Y hY) (by omega)
  simp only [showC, pExpr9, pExprTerm, hpar, hterm, msp, Nat.sub_zero]

/-- a level-9 tree read at level 8 -/
theorem final8_of_mstar {dateP} (e : ETree) (hw : wfE dateP e = true) (h9 : lev e = 9) (hm : MStar dateP e) :
    Final dateP 8 e := by
  intro X fuel hX ho hf
  obtain ⟨n, rfl⟩ : ∃ n, fuel = n + 3 := ⟨fuel - 3, by omega⟩
  obtain ⟨c, tl, hs, hsp, hn⟩ := showC_head e hw
  have hc : c ≠ '!' := hn h9
  have h9' := hm X n (.inl hX.1) (by omega)
  have hmsp := msp_le e
  have hstop : pMethods dateP (n - msp e) e X = .ok e X := by
    obtain ⟨k, hk⟩ : ∃ k, n - msp e = k + 1 := ⟨n - msp e - 1, by omega⟩
    rw [hk]; exact stop_methods k e X hX.1.no_dot
  rw [pLevel_step_top 8 (n + 2) _ (Nat.le_refl _)]
  simp only [pExpr8]
  rw [hs] at h9' ⊢
  simp only [List.cons_append, space0_cons _ hsp] at h9' ⊢
  split
  · rename_i heq; injection heq with h1 _; exact absurd h1 hc
  · rw [h9', hstop]

/-- `)` ends an expression of any level -/
theorem stops_close (k : Nat) (Y : List Char) : Stops k (')' :: Y) := by
  refine ⟨?_, .inr (.inl ⟨')', Y, space0_cons _ (by decide), by decide⟩)⟩
  intro c hc
  simp only [List.head?_cons, Option.some.injEq] at hc
  subst hc; exact .inr (.inl rfl)

theorem mstar_parens {dateP} (a : ETree) (hw : wfE dateP a = true) (hF : Final dateP 0 a) :
    MStar dateP (.un .parens a) := by
  intro Y n hY hn
  simp only [needE] at hn
  obtain ⟨m, rfl⟩ : ∃ m, n = m + 3 := ⟨n - 3, by omega⟩
  obtain ⟨c, tl, hs, hsp, _⟩ := showC_head a hw
  have hin := hF (')' :: Y) (m + 1) (stops_close 0 Y) (fun _ => stops_close 6 Y) (by omega)
  have hsp0 : space0 (showC a ++ ')' :: Y) = showC a ++ ')' :: Y := by
    rw [hs]; exact space0_cons _ hsp
  simp only [showC, List.cons_append, List.append_assoc, List.nil_append, pExpr9, pExprTerm, pParen,
    space0_cons _ (show isSpace '(' = false by decide), hsp0, hin, space0_cons _ (show isSpace ')' = false by decide), msp,
    Nat.sub_zero]

/-! ## method names -/

theorem pName_valid (n Z : List Char) (hn : validNameL n = true) (hZ : ∀ c, Z.head? = some c → isNameChar c = false) :
    pName (n ++ Z) = some (n, Z) := by
  simp only [validNameL, Bool.and_eq_true, Bool.not_eq_true', List.isEmpty_eq_false_iff, List.all_eq_true] at hn
  have htw := takeWhile_append_of_all isNameChar n Z hn.2 hZ
  unfold pName
  rw [htw.1, htw.2]
  cases n with
  | nil => exact absurd rfl hn.1
  | cons c tl => rfl

theorem pUnMethod_length (Y : List Char) : pUnMethod ("length()".toList ++ Y) = some (.length, Y) := by
  simp [pUnMethod, tag, List.isPrefixOf, space0, isSpace]

theorem pUnMethod_type (Y : List Char) : pUnMethod ("type()".toList ++ Y) = some (.typeOf, Y) := by
  simp [pUnMethod, tag, List.isPrefixOf, space0, isSpace]

theorem pUnMethod_ffi (n : String) (Y : List Char) (hn : validNameL n.toList = true) :
    pUnMethod ("extern::".toList ++ (n.toList ++ '(' :: ')' :: Y)) = some (.ffi n, Y) := by
  have hp := pName_valid n.toList ('(' :: ')' :: Y) hn
    (fun c h => by simp only [List.head?_cons, Option.some.injEq] at h; subst h; decide)
  have ht : tag "extern::".toList ("extern::".toList ++ (n.toList ++ '(' :: ')' :: Y)) = some (n.toList ++ '(' :: ')' :: Y) :=
    tag_append _ _
  have h1 : tag "length".toList ("extern::".toList ++ (n.toList ++ '(' :: ')' :: Y)) = none := by
    simp [tag, List.isPrefixOf]
  have h2 : tag "type".toList ("extern::".toList ++ (n.toList ++ '(' :: ')' :: Y)) = none := by
    simp [tag, List.isPrefixOf]
  simp only [pUnMethod, h1, h2, ht, hp, Option.map_some, space0_cons _ (show isSpace ')' = false by decide),
    String.ofList_toList]

theorem pBinMethodName_none_length (Y : List Char) : pBinMethodName ("length()".toList ++ Y) = none := by
  simp [pBinMethodName, methodTags, firstTag, tag, List.isPrefixOf]

theorem pBinMethodName_none_type (Y : List Char) : pBinMethodName ("type()".toList ++ Y) = none := by
  simp [pBinMethodName, methodTags, firstTag, tag, List.isPrefixOf]

theorem firstTag_methods_extern (Z : List Char) : firstTag methodTags ("extern::".toList ++ Z) = none := by
  simp [methodTags, firstTag, tag, List.isPrefixOf]

/-- a printed method name followed by `(` is read as that method -/
theorem pBinMethodName_of (b : Bin) (m Z : List Char) (hm : methodC b = some m)
    (hffi : ∀ n, b = .ffi n → validNameL n.toList = true) : pBinMethodName (m ++ '(' :: Z) = some (b, '(' :: Z) := by
  cases b <;> simp only [methodC, Option.some.injEq, reduceCtorEq] at hm <;> subst hm
  case ffi n =>
    have hp := pName_valid n.toList ('(' :: Z) (hffi n rfl)
      (fun c h => by simp only [List.head?_cons, Option.some.injEq] at h; subst h; decide)
    have ht : tag "extern::".toList ("extern::".toList ++ (n.toList ++ '(' :: Z)) = some (n.toList ++ '(' :: Z) := tag_append _ _
    simp only [pBinMethodName, List.append_assoc, firstTag_methods_extern, ht, hp, Option.map_some, String.ofList_toList]
  all_goals simp [pBinMethodName, methodTags, firstTag, tag, List.isPrefixOf]

/-- the binary-method parser does not accept the text of a unary method call -/
theorem pBinMethod_not_ok_length {dateP} (k : Nat) (Y : List Char) :
    pBinMethod dateP (k + 1) ("length()".toList ++ Y) = .err := by
  simp only [pBinMethod, pBinMethodName_none_length]

theorem pBinMethod_not_ok_type {dateP} (k : Nat) (Y : List Char) :
    pBinMethod dateP (k + 1) ("type()".toList ++ Y) = .err := by
  simp only [pBinMethod, pBinMethodName_none_type]

theorem pBinMethod_not_ok_ffi {dateP} (hd : DateShape dateP) (k : Nat) (n : String) (Y : List Char)
    (hn : validNameL n.toList = true) (hk : 14 ≤ k) :
    pBinMethod dateP (k + 1) ("extern::".toList ++ (n.toList ++ '(' :: ')' :: Y)) = .err := by
  have hname := pBinMethodName_of (.ffi n) ("extern::".toList ++ n.toList) (')' :: Y) rfl (fun _ h => by injection h with h; subst h; exact hn)
  simp only [List.append_assoc] at hname
  have herr : pLevel dateP 0 k (')' :: Y) = .err :=
    pLevel_err_head' hd Y (.inr (.inr (.inr (.inr (.inr (.inr (.inr (.inr (.inr (.inl rfl)))))))))) 0 k (by omega) hk
  simp only [pBinMethod, hname, space0_cons _ (show isSpace ')' = false by decide), isClosureOp, Bool.false_eq_true, ↓reduceIte,
    herr]

/-! ## method calls -/

theorem mstar_length {dateP} (a : ETree) (hr : recvOK a = true) (hM : MStar dateP a) : MStar dateP (.un .length a) := by
  intro Y n hY hn
  simp only [needE] at hn
  have hmsp := msp_le a
  have h1 := hM ('.' :: ("length()".toList ++ Y)) n (.inr ⟨_, rfl, hr⟩) (by omega)
  obtain ⟨k, hk⟩ : ∃ k, n - msp a = k + 2 := ⟨n - msp a - 2, by omega⟩
  have e1 : showC (.un .length a) ++ Y = showC a ++ '.' :: ("length()".toList ++ Y) := by
    simp only [showC, List.append_assoc]; rfl
  have e2 : n - msp (.un .length a) = k + 1 := by simp only [msp]; omega
  rw [e1, h1, hk, e2]
  simp only [pMethods, pBinMethod_not_ok_length, pUnMethod_length]

theorem mstar_type {dateP} (a : ETree) (hr : recvOK a = true) (hM : MStar dateP a) : MStar dateP (.un .typeOf a) := by
  intro Y n hY hn
  simp only [needE] at hn
  have hmsp := msp_le a
  have h1 := hM ('.' :: ("type()".toList ++ Y)) n (.inr ⟨_, rfl, hr⟩) (by omega)
  obtain ⟨k, hk⟩ : ∃ k, n - msp a = k + 2 := ⟨n - msp a - 2, by omega⟩
  have e1 : showC (.un .typeOf a) ++ Y = showC a ++ '.' :: ("type()".toList ++ Y) := by
    simp only [showC, List.append_assoc]; rfl
  have e2 : n - msp (.un .typeOf a) = k + 1 := by simp only [msp]; omega
  rw [e1, h1, hk, e2]
  simp only [pMethods, pBinMethod_not_ok_type, pUnMethod_type]

theorem mstar_ffi {dateP} (hd : DateShape dateP) (f : String) (a : ETree) (hr : recvOK a = true) (hf : validNameL f.toList = true)
    (hM : MStar dateP a) : MStar dateP (.un (.ffi f) a) := by
  intro Y n hY hn
  simp only [needE] at hn
  have hmsp := msp_le a
  have h1 := hM ('.' :: ("extern::".toList ++ (f.toList ++ '(' :: ')' :: Y))) n (.inr ⟨_, rfl, hr⟩) (by omega)
  obtain ⟨k, hk⟩ : ∃ k, n - msp a = k + 2 := ⟨n - msp a - 2, by omega⟩
  have e1 : showC (.un (.ffi f) a) ++ Y = showC a ++ '.' :: ("extern::".toList ++ (f.toList ++ '(' :: ')' :: Y)) := by
    simp only [showC, List.append_assoc]; rfl
  have e2 : n - msp (.un (.ffi f) a) = k + 1 := by simp only [msp]; omega
  rw [e1, h1, hk, e2]
  simp only [pMethods, pBinMethod_not_ok_ffi hd k f Y hf (by omega), pUnMethod_ffi f Y hf]

theorem mstar_bin_method {dateP} (b : Bin) (l r : ETree) (m : List Char) (hb : infixOf b = none) (hm : methodC b = some m)
    (hffi : ∀ n, b = .ffi n → validNameL n.toList = true) (hc : isClosureOp b = false)
    (hr : recvOK l = true) (hM : MStar dateP l) (hwr : wfE dateP r = true) (hF : Final dateP 0 r) :
    MStar dateP (.bin b l r) := by
  intro Y n hY hn
  simp only [needE] at hn
  have hmsp := msp_le l
  have h1 := hM ('.' :: (m ++ '(' :: (showC r ++ ')' :: Y))) n (.inr ⟨_, rfl, hr⟩) (by omega)
  obtain ⟨k, hk⟩ : ∃ k, n - msp l = k + 2 := ⟨n - msp l - 2, by omega⟩
  have e1 : showC (.bin b l r) ++ Y = showC l ++ '.' :: (m ++ '(' :: (showC r ++ ')' :: Y)) := by
    simp only [showC, hb, hm, List.append_assoc, List.cons_append, List.nil_append]
  have e2 : n - msp (.bin b l r) = k + 1 := by simp only [msp, hb, Option.isNone_none, ↓reduceIte]; omega
  obtain ⟨c, tl, hs, hsp, _⟩ := showC_head r hwr
  have hsp0 : space0 (showC r ++ ')' :: Y) = showC r ++ ')' :: Y := by rw [hs]; exact space0_cons _ hsp
  have harg := hF (')' :: Y) k (stops_close 0 Y) (fun _ => stops_close 6 Y) (by omega)
  rw [e1, h1, hk, e2]
  simp only [pMethods, pBinMethod, pBinMethodName_of b m _ hm hffi, hsp0, hc, Bool.false_eq_true, ↓reduceIte, harg,
    space0_cons _ (show isSpace ')' = false by decide)]

theorem mstar_closure_method {dateP} (b : Bin) (l body : ETree) (p : String) (m : List Char) (hb : infixOf b = none)
    (hm : methodC b = some m) (hc : isClosureOp b = true) (hp : validNameL p.toList = true)
    (hr : recvOK l = true) (hM : MStar dateP l) (hwb : wfE dateP body = true) (hF : Final dateP 0 body) :
    MStar dateP (.bin b l (.clo [p] body)) := by
  intro Y n hY hn
  simp only [needE] at hn
  have hmsp := msp_le l
  have h1 := hM ('.' :: (m ++ '(' :: '$' :: (p.toList ++ ' ' :: '-' :: '>' :: ' ' :: (showC body ++ ')' :: Y)))) n
    (.inr ⟨_, rfl, hr⟩) (by omega)
  obtain ⟨k, hk⟩ : ∃ k, n - msp l = k + 2 := ⟨n - msp l - 2, by omega⟩
  have e1 : showC (.bin b l (.clo [p] body)) ++ Y =
      showC l ++ '.' :: (m ++ '(' :: '$' :: (p.toList ++ ' ' :: '-' :: '>' :: ' ' :: (showC body ++ ')' :: Y))) := by
    simp only [showC, hb, hm, List.append_assoc, List.cons_append, List.nil_append]
    rfl
  have e2 : n - msp (.bin b l (.clo [p] body)) = k + 1 := by simp only [msp, hb, Option.isNone_none, ↓reduceIte]; omega
  obtain ⟨c, tl, hs, hsp, _⟩ := showC_head body hwb
  have hsp0 : space0 (' ' :: (showC body ++ ')' :: Y)) = showC body ++ ')' :: Y := by
    rw [space0_blank, hs]; exact space0_cons _ hsp
  have hffi : ∀ n, b = .ffi n → validNameL n.toList = true := by
    intro n hn; subst hn; simp [isClosureOp] at hc
  have hname := pName_valid p.toList (' ' :: '-' :: '>' :: ' ' :: (showC body ++ ')' :: Y)) hp
    (fun c h => by simp only [List.head?_cons, Option.some.injEq] at h; subst h; decide)
  have htag : tag ['-', '>'] (space0 (' ' :: '-' :: '>' :: ' ' :: (showC body ++ ')' :: Y))) =
      some (' ' :: (showC body ++ ')' :: Y)) := by
    rw [space0_blank, space0_cons _ (show isSpace '-' = false by decide)]
    exact tag_append ['-', '>'] _
  have harg := hF (')' :: Y) k (stops_close 0 Y) (fun _ => stops_close 6 Y) (by omega)
  rw [e1, h1, hk, e2]
  simp only [pMethods, pBinMethod, pBinMethodName_of b m _ hm hffi, space0_cons _ (show isSpace '$' = false by decide), hc,
    ↓reduceIte, hname, htag, hsp0, harg, space0_cons _ (show isSpace ')' = false by decide), String.ofList_toList]

/-! ## negation, infix operators, comparisons -/

theorem final8_negate {dateP} (a : ETree) (hwa : wfE dateP a = true) (hF : Final dateP 6 a) :
    Final dateP 8 (.un .negate a) := by
  intro X fuel hX ho hf
  simp only [needE] at hf
  obtain ⟨n, rfl⟩ : ∃ n, fuel = n + 2 := ⟨fuel - 2, by omega⟩
  have h6 : Stops 6 X := ho rfl
  obtain ⟨c, tl, hs, hsp, _⟩ := showC_head a hwa
  have hsp0 : space0 (showC a ++ X) = showC a ++ X := by rw [hs]; exact space0_cons _ hsp
  have ha := hF X n h6 (fun _ => h6) (by omega)
  rw [pLevel_step_top 8 (n + 1) _ (Nat.le_refl _)]
  simp only [showC, List.cons_append, pExpr8, space0_cons _ (show isSpace '!' = false by decide), hsp0, ha]

theorem infix_sym_head {b : Bin} {j : Nat} {sym : List Char} (h : infixOf b = some (j, sym)) :
    ∃ c tl, sym = c :: tl ∧ isSpace c = false := by
  cases b <;> simp only [infixOf, Option.some.injEq, Prod.mk.injEq, reduceCtorEq] at h <;>
    obtain ⟨rfl, rfl⟩ := h <;> exact ⟨_, _, rfl, by decide⟩

/-- the text " sym rest" ends every expression of a level above that of `sym` -/
theorem stops_infix {b : Bin} {j : Nat} {sym : List Char} (hb : infixOf b = some (j, sym)) (k : Nat) (hk : j < k)
    (Z : List Char) : Stops k (' ' :: (sym ++ ' ' :: Z)) := by
  obtain ⟨c, tl, hs, hsp⟩ := infix_sym_head hb
  refine ⟨?_, .inr (.inr ⟨b, j, sym, Z, hb, hk, ?_⟩)⟩
  · intro c' hc'
    simp only [List.head?_cons, Option.some.injEq] at hc'
    subst hc'; exact .inl rfl
  · rw [space0_blank, hs]; exact space0_cons _ hsp

theorem star_infix {dateP} (k : Nat) (hk : LoopLevel k) (b : Bin) (sym : List Char) (hb : infixOf b = some (k, sym))
    (l r' e : ETree) (hwr : wfE dateP r' = true) (hSl : Star dateP k l) (hFr : Final dateP (k + 1) r')
    (hopen : k < 6 ∨ openE l = false)
    (hshow : showC e = showC l ++ ' ' :: (sym ++ ' ' :: showC r')) (hsp : sp k e = sp k l + 1)
    (hopenE : openE e = openE r') (hneed : needE l + needE r' + 40 ≤ needE e) (hfold : foldOne l b r' = e) :
    Star dateP k e := by
  intro X n hX ho hn
  have hk7 : k ≤ 7 := by unfold LoopLevel at hk; omega
  have hspl := sp_le k l
  have hY : Stops (k + 1) (' ' :: (sym ++ ' ' :: (showC r' ++ X))) := stops_infix hb (k + 1) (by omega) _
  have hYo : openE l = true → Stops 6 (' ' :: (sym ++ ' ' :: (showC r' ++ X))) := by
    intro hol
    rcases hopen with h | h
    · exact stops_infix hb 6 h _
    · rw [h] at hol; cases hol
  have h1 := hSl _ n hY hYo (by omega)
  obtain ⟨m, hm⟩ : ∃ m, n - sp k l = m + 1 := ⟨n - sp k l - 1, by omega⟩
  obtain ⟨c, tl, hs, hspc⟩ := infix_sym_head hb
  have h0 : firstTag (opsAt k) (space0 (' ' :: (sym ++ ' ' :: (showC r' ++ X)))) = some (b, ' ' :: (showC r' ++ X)) := by
    rw [space0_blank]
    have : space0 (sym ++ ' ' :: (showC r' ++ X)) = sym ++ ' ' :: (showC r' ++ X) := by
      rw [hs]; exact space0_cons _ hspc
    rw [this]; exact firstTag_infix b k sym _ hb
  have hr := hFr X m hX (fun h => ho (by rw [hopenE]; exact h)) (by omega)
  have hr' : pLevel dateP (k + 1) m (' ' :: (showC r' ++ X)) = .ok r' X := by rw [pLevel_blank]; exact hr
  have e1 : showC e ++ X = showC l ++ ' ' :: (sym ++ ' ' :: (showC r' ++ X)) := by
    rw [hshow]; simp only [List.append_assoc, List.cons_append]
  have e2 : n - sp k e = m := by omega
  rw [e1, h1, hm, pLoop_step k m l r' _ _ X b h0 hr', hfold, e2]

theorem final2_cmp {dateP} (b : Bin) (sym : List Char) (hb : infixOf b = some (2, sym)) (l r : ETree)
    (hF3l : Final dateP 3 l) (hF3r : Final dateP 3 r) : Final dateP 2 (.bin b l r) := by
  intro X fuel hX ho hf
  simp only [needE] at hf
  obtain ⟨n, rfl⟩ : ∃ n, fuel = n + 1 := ⟨fuel - 1, by omega⟩
  obtain ⟨c, tl, hs, hspc⟩ := infix_sym_head hb
  have hl := hF3l (' ' :: (sym ++ ' ' :: (showC r ++ X))) n (stops_infix hb 3 (by omega) _)
    (fun _ => stops_infix hb 6 (by omega) _) (by omega)
  have h0 : firstTag (opsAt 2) (space0 (' ' :: (sym ++ ' ' :: (showC r ++ X)))) = some (b, ' ' :: (showC r ++ X)) := by
    rw [space0_blank]
    have : space0 (sym ++ ' ' :: (showC r ++ X)) = sym ++ ' ' :: (showC r ++ X) := by
      rw [hs]; exact space0_cons _ hspc
    rw [this]; exact firstTag_infix b 2 sym _ hb
  have hopen : openE (.bin b l r) = openE r := by simp only [openE, hb]
  have hr := hF3r X n (hX.mono (by omega)) (fun h => ho (by rw [hopen]; exact h)) (by omega)
  have hr' : pLevel dateP 3 n (' ' :: (showC r ++ X)) = .ok r X := by rw [pLevel_blank]; exact hr
  have e1 : showC (.bin b l r) ++ X = showC l ++ ' ' :: (sym ++ ' ' :: (showC r ++ X)) := by
    simp only [showC, hb, List.append_assoc, List.cons_append]
  rw [e1]
  exact pLevel_step_cmp_some n _ l r _ _ X b hl h0 hr'

/-! ## every tree of the grammar, at every level at which it can stand -/

def Good (dateP : List Char → Option Nat) (e : ETree) : Prop :=
  (∀ k, k ≤ min (lev e) 8 → Final dateP k e) ∧ (∀ k, LoopLevel k → k ≤ lev e → Star dateP k e) ∧
    (lev e = 9 → MStar dateP e)

theorem good_of_top {dateP} (hd : DateShape dateP) (e : ETree) (T : Nat) (hT : T = min (lev e) 8)
    (hF : Final dateP T e) (hS : LoopLevel T → Star dateP T e) (hM : lev e = 9 → MStar dateP e) : Good dateP e := by
  refine ⟨?_, ?_, hM⟩
  · intro k hk
    exact (final_down hd e (T - k) T (by omega) (by omega) hF k (by omega)).1
  · intro k hl hk
    have hk7 : k ≤ 7 := by unfold LoopLevel at hl; omega
    by_cases hkt : k = T
    · subst hkt; exact hS hl
    · exact (final_down hd e (T - k) T (by omega) (by omega) hF k (by omega)).2 hl (by omega)

theorem foldOne_strict (l r : ETree) (b : Bin) (h : isLazy b = false) : foldOne l b r = .bin b l r := by
  cases b <;> simp [isLazy] at h <;> rfl

theorem foldOne_lazy (l r : ETree) (b : Bin) (h : isLazy b = true) : foldOne l b r = .bin b l (.clo [] r) := by
  cases b <;> simp [isLazy] at h <;> rfl

theorem lev_le_nine (e : ETree) : lev e ≤ 9 := by
  cases e with
  | val t => simp [lev]
  | un u a => cases u <;> simp [lev]
  | bin b l r =>
    simp only [lev]
    cases hb : infixOf b with
    | none => simp
    | some p => obtain ⟨j, sym⟩ := p; have := (infix_level hb).1; simp only; omega
  | clo ps body => simp [lev]

theorem good_all {dateP} (hd : DateShape dateP) : ∀ e : ETree,
    (wfE dateP e = true → Good dateP e) ∧ (∀ ps body, e = .clo ps body → wfE dateP body = true → Good dateP body) := by
  intro e
  induction e with
  | val t =>
    refine ⟨fun hw => ?_, fun ps body h => by cases h⟩
    have hM := mstar_val hd t hw
    exact good_of_top hd _ 8 (by simp [lev]) (final8_of_mstar _ hw (by simp [lev]) hM)
      (fun h => by unfold LoopLevel at h; omega) (fun _ => hM)
  | clo ps body ih =>
    exact ⟨fun hw => by simp [wfE] at hw, fun ps' body' h hw => by injection h with _ h2; subst h2; exact ih.1 hw⟩
  | un u a ih =>
    refine ⟨fun hw => ?_, fun ps body h => by cases h⟩
    cases u with
    | negate =>
      simp only [wfE, Bool.and_eq_true, decide_eq_true_eq] at hw
      have ga := ih.1 hw.1
      have hF6 : Final dateP 6 a := ga.1 6 (by have := hw.2; omega)
      exact good_of_top hd _ 8 (by simp [lev]) (final8_negate a hw.1 hF6)
        (fun h => by unfold LoopLevel at h; omega) (fun h => by simp [lev] at h)
    | parens =>
      have hwa : wfE dateP a = true := by simpa [wfE] using hw
      have ga := ih.1 hwa
      have hM := mstar_parens a hwa (ga.1 0 (by omega))
      exact good_of_top hd _ 8 (by simp [lev]) (final8_of_mstar _ hw (by simp [lev]) hM)
        (fun h => by unfold LoopLevel at h; omega) (fun _ => hM)
    | length =>
      have hw' := hw
      simp only [wfE, Bool.and_eq_true, decide_eq_true_eq] at hw'
      have hM := mstar_length a hw'.2 ((ih.1 hw'.1.1).2.2 hw'.1.2)
      exact good_of_top hd _ 8 (by simp [lev]) (final8_of_mstar _ hw (by simp [lev]) hM)
        (fun h => by unfold LoopLevel at h; omega) (fun _ => hM)
    | typeOf =>
      have hw' := hw
      simp only [wfE, Bool.and_eq_true, decide_eq_true_eq] at hw'
      have hM := mstar_type a hw'.2 ((ih.1 hw'.1.1).2.2 hw'.1.2)
      exact good_of_top hd _ 8 (by simp [lev]) (final8_of_mstar _ hw (by simp [lev]) hM)
        (fun h => by unfold LoopLevel at h; omega) (fun _ => hM)
    | ffi f =>
      have hw' := hw
      simp only [wfE, Bool.and_eq_true, decide_eq_true_eq] at hw'
      have hM := mstar_ffi hd f a hw'.1.2 hw'.2 ((ih.1 hw'.1.1.1).2.2 hw'.1.1.2)
      exact good_of_top hd _ 8 (by simp [lev]) (final8_of_mstar _ hw (by simp [lev]) hM)
        (fun h => by unfold LoopLevel at h; omega) (fun _ => hM)
  | bin b l r ihl ihr =>
    refine ⟨fun hw => ?_, fun ps body h => by cases h⟩
    cases hb : infixOf b with
    | some p =>
      obtain ⟨j, sym⟩ := p
      have hj7 := (infix_level hb).1
      have hlev : lev (.bin b l r) = j := by simp [lev, hb]
      by_cases hz : isLazy b = true
      · -- `&&` / `||`: the right operand is a parameterless closure
        obtain ⟨body, rfl, hwl, hwb, hjl, hjb⟩ := wfE_lazy hb hz hw
        have hj1 : j ≤ 1 := (infix_level hb).2.mp hz
        have hl : LoopLevel j := by unfold LoopLevel; omega
        have gl := ihl.1 hwl
        have gb := ihr.2 [] body rfl hwb
        have hlb := lev_le_nine body
        have hS : Star dateP j (.bin b l (.clo [] body)) :=
          star_infix j hl b sym hb l body _ hwb (gl.2.1 j hl hjl) (gb.1 (j + 1) (by omega)) (.inl (by omega))
            (by simp [showC, hb]) (by simp [sp, hb]) (by simp [openE, hb]) (by simp only [needE]; omega)
            (foldOne_lazy l body b hz)
        exact good_of_top hd _ j (by rw [hlev]; omega) (star_to_final hd j _ hl hS) (fun _ => hS)
          (fun h => by rw [hlev] at h; omega)
      · have hz' : isLazy b = false := by cases h : isLazy b <;> simp_all
        by_cases hj2 : j = 2
        · subst hj2
          obtain ⟨hwl, hwr, h3l, h3r⟩ := wfE_cmp hb hw
          have gl := ihl.1 hwl
          have gr := ihr.1 hwr
          exact good_of_top hd _ 2 (by rw [hlev]; rfl) (final2_cmp b sym hb l r (gl.1 3 (by omega)) (gr.1 3 (by omega)))
            (fun h => by unfold LoopLevel at h; omega) (fun h => by rw [hlev] at h; omega)
        · obtain ⟨hwl, hwr, hjl, hjr, hopen⟩ := wfE_infix hb hz' hj2 hw
          have hl : LoopLevel j := by
            have hn01 : ¬ j ≤ 1 := fun h => by have := (infix_level hb).2.mpr h; rw [hz'] at this; cases this
            unfold LoopLevel; omega
          have gl := ihl.1 hwl
          have gr := ihr.1 hwr
          have hlr := lev_le_nine r
          have hS : Star dateP j (.bin b l r) :=
            star_infix j hl b sym hb l r _ hwr (gl.2.1 j hl hjl) (gr.1 (j + 1) (by omega)) hopen
              (by simp [showC, hb]) (by simp [sp, hb]) (by simp [openE, hb]) (by simp only [needE]; omega)
              (foldOne_strict l r b hz')
          exact good_of_top hd _ j (by rw [hlev]; omega) (star_to_final hd j _ hl hS) (fun _ => hS)
            (fun h => by rw [hlev] at h; omega)
    | none =>
      obtain ⟨m, hm, hwl, h9l, hrl, hffi, hcl⟩ := wfE_method hb hw
      have gl := ihl.1 hwl
      have hMl := gl.2.2 h9l
      have hlev : lev (.bin b l r) = 9 := by simp [lev, hb]
      have hM : MStar dateP (.bin b l r) := by
        rcases hcl with ⟨hc, p, body, rfl, hp, hwb⟩ | ⟨hc, hwr⟩
        · have gb := ihr.2 [p] body rfl hwb
          exact mstar_closure_method b l body p m hb hm hc hp hrl hMl hwb (gb.1 0 (by omega))
        · have gr := ihr.1 hwr
          exact mstar_bin_method b l r m hb hm hffi hc hrl hMl hwr (gr.1 0 (by omega))
      exact good_of_top hd _ 8 (by rw [hlev]; rfl) (final8_of_mstar _ hw hlev hM)
        (fun h => by unfold LoopLevel at h; omega) (fun _ => hM)

/-! ## C14 for expressions -/

/-- **C14, expressions (explicit fuel).** -/
theorem expr_round_trip_fuel {dateP} (hd : DateShape dateP) (e : ETree) (X : List Char) (hw : wfE dateP e = true)
    (hX : Stops 0 X) (ho : openE e = true → Stops 6 X) (fuel : Nat) (hf : needE e + 40 ≤ fuel) :
    pLevel dateP 0 fuel (showC e ++ X) = .ok e X :=
  ((good_all hd e).1 hw).1 0 (by omega) X fuel hX ho (by omega)

theorem valC_pos {dateP} (t : STerm) (h : wfV dateP t = true) : 1 ≤ (termC t).length := by
  obtain ⟨c, tl, hs, _⟩ := valC_head t h
  simp [hs]

theorem needV_le {dateP} (t : STerm) (h : wfV dateP t = true) : needT t ≤ 5 * (termC t).length := by
  cases t with
  | var n => have := valC_pos (dateP := dateP) (.var n) h; simp only [needT]; omega
  | int i => exact needT_le (dateP := dateP) _ .fact h
  | str s => exact needT_le (dateP := dateP) _ .fact h
  | date d => exact needT_le (dateP := dateP) _ .fact h
  | bytes b => exact needT_le (dateP := dateP) _ .fact h
  | bool b => exact needT_le (dateP := dateP) _ .fact h
  | null => exact needT_le (dateP := dateP) _ .fact h
  | set xs => exact needT_le (dateP := dateP) _ .fact h
  | arr xs => exact needT_le (dateP := dateP) _ .fact h
  | map kvs => exact needT_le (dateP := dateP) _ .fact h
  | param n => exact needT_le (dateP := dateP) _ .fact h

/-- the fuel the driver gives is enough for every printed tree -/
theorem needE_le {dateP} : ∀ e : ETree,
    (wfE dateP e = true → needE e ≤ 50 * (showC e).length) ∧
    (∀ ps body, e = .clo ps body → wfE dateP body = true → needE body ≤ 50 * (showC body).length) := by
  intro e
  induction e with
  | val t =>
    refine ⟨fun hw => ?_, fun ps body h => by cases h⟩
    have h1 := needV_le t hw
    have h2 := valC_pos t hw
    simp only [needE, showC]; omega
  | clo ps body ih =>
    exact ⟨fun hw => by simp [wfE] at hw, fun ps' body' h hw => by injection h with _ h2; subst h2; exact ih.1 hw⟩
  | un u a ih =>
    refine ⟨fun hw => ?_, fun ps body h => by cases h⟩
    cases u with
    | negate =>
      simp only [wfE, Bool.and_eq_true] at hw
      have := ih.1 hw.1
      simp only [needE, showC, List.length_cons]; omega
    | parens =>
      have hwa : wfE dateP a = true := by simpa [wfE] using hw
      have := ih.1 hwa
      simp only [needE, showC, List.length_cons, List.length_append, List.length_nil]; omega
    | length =>
      simp only [wfE, Bool.and_eq_true] at hw
      have := ih.1 hw.1.1
      simp only [needE, showC, List.length_append]
      have : (".length()".toList).length = 9 := rfl
      omega
    | typeOf =>
      simp only [wfE, Bool.and_eq_true] at hw
      have := ih.1 hw.1.1
      simp only [needE, showC, List.length_append]
      have : (".type()".toList).length = 7 := rfl
      omega
    | ffi f =>
      simp only [wfE, Bool.and_eq_true] at hw
      have := ih.1 hw.1.1.1
      simp only [needE, showC, List.length_append]
      have : (".extern::".toList).length = 9 := rfl
      omega
  | bin b l r ihl ihr =>
    refine ⟨fun hw => ?_, fun ps body h => by cases h⟩
    cases hb : infixOf b with
    | some p =>
      obtain ⟨j, sym⟩ := p
      by_cases hz : isLazy b = true
      · obtain ⟨body, rfl, hwl, hwb, _, _⟩ := wfE_lazy hb hz hw
        have h1 := ihl.1 hwl
        have h2 := ihr.2 [] body rfl hwb
        have hs : 2 ≤ sym.length := by
          cases b <;> simp only [infixOf, Option.some.injEq, Prod.mk.injEq, reduceCtorEq] at hb <;>
            obtain ⟨rfl, rfl⟩ := hb <;> simp [isLazy] at hz <;> simp
        simp only [needE, showC, hb, List.length_append, List.length_cons]; omega
      · have hz' : isLazy b = false := by cases h : isLazy b <;> simp_all
        have hwlr : wfE dateP l = true ∧ wfE dateP r = true := by
          by_cases hj2 : j = 2
          · subst hj2; exact ⟨(wfE_cmp hb hw).1, (wfE_cmp hb hw).2.1⟩
          · exact ⟨(wfE_infix hb hz' hj2 hw).1, (wfE_infix hb hz' hj2 hw).2.1⟩
        have h1 := ihl.1 hwlr.1
        have h2 := ihr.1 hwlr.2
        simp only [needE, showC, hb, List.length_append, List.length_cons]; omega
    | none =>
      obtain ⟨m, hm, hwl, _, _, _, hcl⟩ := wfE_method hb hw
      have h1 := ihl.1 hwl
      rcases hcl with ⟨hc, p, body, rfl, hp, hwb⟩ | ⟨hc, hwr⟩
      · have h2 := ihr.2 [p] body rfl hwb
        simp only [needE, showC, hb, hm, List.length_append, List.length_cons, List.length_nil]
        have : (" -> ".toList).length = 4 := rfl
        omega
      · have h2 := ihr.1 hwr
        simp only [needE, showC, hb, hm, List.length_append, List.length_cons, List.length_nil]; omega

/-- **C14, expressions.** The parser model the stream `exprparse` runs against the real `expr`,
    applied to the printed form of any tree of the grammar followed by text that does not
    continue the expression, returns that tree and leaves that text. -/
theorem expr_round_trip {dateP} (hd : DateShape dateP) (e : ETree) (X : List Char) (hw : wfE dateP e = true)
    (hX : Stops 0 X) (ho : openE e = true → Stops 6 X) : parseExpr dateP (showC e ++ X) = .ok e X := by
  apply expr_round_trip_fuel hd e X hw hX ho
  have := (needE_le (dateP := dateP) e).1 hw
  simp only [List.length_append]; omega

/-! ## the character-level printer is `Expression::print`'s model -/

theorem infixSym_of {b : Bin} {j : Nat} {sym : List Char} (h : infixOf b = some (j, sym)) :
    infixSym b = some (String.ofList sym) := by
  cases b <;> simp only [infixOf, Option.some.injEq, Prod.mk.injEq, reduceCtorEq] at h <;>
    obtain ⟨rfl, rfl⟩ := h <;> rfl

theorem methodName_of {b : Bin} {m : List Char} (h : methodC b = some m) :
    infixSym b = none ∧ (methodName b).toList = m := by
  cases b <;> simp only [methodC, Option.some.injEq, reduceCtorEq] at h <;> subst h
  case ffi n => exact ⟨rfl, by simp [methodName]⟩
  all_goals exact ⟨rfl, rfl⟩

/-- on the trees of the grammar, `showC` is the text `showTree` (the infix rendering that
    `Expression::print` produces: `printExpr_opcodes`) -/
theorem showTree_eq_showC {dateP} : ∀ e : ETree,
    (wfE dateP e = true → (showTree e).toList = showC e) ∧
    (∀ ps body, e = .clo ps body → wfE dateP body = true → (showTree body).toList = showC body) := by
  intro e
  induction e with
  | val t => exact ⟨fun _ => by simp [showTree, showC, printTerm_eq_termC], fun ps body h => by cases h⟩
  | clo ps body ih =>
    exact ⟨fun hw => by simp [wfE] at hw, fun ps' body' h hw => by injection h with _ h2; subst h2; exact ih.1 hw⟩
  | un u a ih =>
    refine ⟨fun hw => ?_, fun ps body h => by cases h⟩
    cases u with
    | negate =>
      simp only [wfE, Bool.and_eq_true] at hw
      simp [showTree, showC, printUn, ih.1 hw.1]
    | parens =>
      have hwa : wfE dateP a = true := by simpa [wfE] using hw
      simp [showTree, showC, printUn, ih.1 hwa]
    | length =>
      simp only [wfE, Bool.and_eq_true] at hw
      simp [showTree, showC, printUn, ih.1 hw.1.1]
    | typeOf =>
      simp only [wfE, Bool.and_eq_true] at hw
      simp [showTree, showC, printUn, ih.1 hw.1.1]
    | ffi f =>
      simp only [wfE, Bool.and_eq_true] at hw
      simp [showTree, showC, printUn, ih.1 hw.1.1.1]
  | bin b l r ihl ihr =>
    refine ⟨fun hw => ?_, fun ps body h => by cases h⟩
    cases hb : infixOf b with
    | some p =>
      obtain ⟨j, sym⟩ := p
      have hsym := infixSym_of hb
      by_cases hz : isLazy b = true
      · obtain ⟨body, rfl, hwl, hwb, _, _⟩ := wfE_lazy hb hz hw
        simp [showTree, showC, hb, printBin, hsym, printClosure, ihl.1 hwl, ihr.2 [] body rfl hwb]
      · have hz' : isLazy b = false := by cases h : isLazy b <;> simp_all
        have hwlr : wfE dateP l = true ∧ wfE dateP r = true := by
          by_cases hj2 : j = 2
          · subst hj2; exact ⟨(wfE_cmp hb hw).1, (wfE_cmp hb hw).2.1⟩
          · exact ⟨(wfE_infix hb hz' hj2 hw).1, (wfE_infix hb hz' hj2 hw).2.1⟩
        simp [showTree, showC, hb, printBin, hsym, ihl.1 hwlr.1, ihr.1 hwlr.2]
    | none =>
      obtain ⟨m, hm, hwl, _, _, _, hcl⟩ := wfE_method hb hw
      obtain ⟨hnone, hname⟩ := methodName_of hm
      rcases hcl with ⟨hc, p, body, rfl, hp, hwb⟩ | ⟨hc, hwr⟩
      · simp [showTree, showC, hb, hm, printBin, hnone, hname, printClosure, joinWith, ihl.1 hwl, ihr.2 [p] body rfl hwb]
      · simp [showTree, showC, hb, hm, printBin, hnone, hname, ihl.1 hwl, ihr.1 hwr]

/-! ## non-vacuity -/

theorem stops_nil (k : Nat) : Stops k [] :=
  ⟨fun c h => by simp at h, .inl (by simp [space0])⟩

/-- `!$a.length() + 2 * $c.contains(1) - 3 <= [1, 2].all($x -> $x > 0 && true) || ($d & 1) === 1` -/
def exTree : ETree :=
  .bin .lazyOr
    (.bin .le
      (.un .negate
        (.bin .sub
          (.bin .add (.un .length (.val (.var "a")))
            (.bin .mul (.val (.int 2)) (.bin .contains (.val (.var "c")) (.val (.int 1)))))
          (.val (.int 3))))
      (.bin .all (.val (.arr [.int 1, .int 2]))
        (.clo ["x"] (.bin .lazyAnd (.bin .gt (.val (.var "x")) (.val (.int 0))) (.clo [] (.val (.bool true)))))))
    (.clo [] (.bin .eq (.un .parens (.bin .band (.val (.var "d")) (.val (.int 1)))) (.val (.int 1))))

example : wfE (fun _ => none) exTree = true := by decide

example : parseExpr (fun _ => none) (showC exTree ++ [',', ' ', 'f', '(', '1', ')']) = .ok exTree [',', ' ', 'f', '(', '1', ')'] :=
  expr_round_trip dateShape_none exTree _ (by decide)
    ⟨fun c h => by simp only [List.head?_cons, Option.some.injEq] at h; subst h; exact .inr (.inr (.inl rfl)),
      .inr (.inl ⟨',', [' ', 'f', '(', '1', ')'], by decide, by decide⟩)⟩
    (fun h => by have hc : openE exTree = false := by decide
                 rw [hc] at h; cases h)

end Biscuit.ExprParser
