/-
  C09 — untrusted bytes never crash or hang the library.

  What a theorem can carry: the accessors that index with a number taken from outside return
  an error exactly where the index is out of range, and a value everywhere else.
    * `block_access_checked` : `blockAt` succeeds exactly for the indices below the block
      count — for EVERY index, there is no index on which it does anything else;
    * `block_access_value` : and it returns the authority block for 0 and `blocks[i-1]` otherwise;
    * `getSymbol_total`, `getSymbol_gap`, `getSymbol_beyond`, `tempSymbol_beyond` : a symbol id
      resolves exactly when it is a default symbol or an index into the table; the ids between
      the default symbols and the offset 1024, and those beyond the table, are `none` — never an
      index into a shorter list.
  Panics, aborts, stack exhaustion and hangs are runtime behaviour: they are observed by the
  stream `untrusted` (child process, one flushed line per case), not proved.
-/
import BiscuitModel.Model.Untrusted
set_option linter.unusedSimpArgs false
namespace Biscuit.Untrusted
open Biscuit

theorem block_access_checked {α : Type} (a : α) (bs : List α) (i : Nat) :
    (∃ b, blockAt a bs i = .ok b) ↔ i < blockCount bs := by
  unfold blockAt blockCount
  by_cases h0 : i = 0
  · simp [h0]; omega
  · by_cases hgt : i > bs.length
    · simp [h0, hgt]; omega
    · have hlt : i - 1 < bs.length := by omega
      simp only [h0, hgt, ↓reduceIte, List.getElem?_eq_getElem hlt]
      constructor
      · intro _; omega
      · intro _; exact ⟨_, rfl⟩

theorem block_access_error {α : Type} (a : α) (bs : List α) (i : Nat) (h : blockCount bs ≤ i) :
    blockAt a bs i = .error .invalidBlockIndex := by
  unfold blockAt blockCount at *
  have h0 : i ≠ 0 := by omega
  have hgt : i > bs.length := by omega
  simp [h0, hgt]

theorem block_access_value {α : Type} (a : α) (bs : List α) :
    blockAt a bs 0 = .ok a ∧ ∀ i (h : i < bs.length), blockAt a bs (i + 1) = .ok bs[i] := by
  constructor
  · simp [blockAt]
  · intro i h
    unfold blockAt
    have : ¬ (i + 1 > bs.length) := by omega
    simp [this, List.getElem?_eq_getElem h]

example : blockAt 0 [1, 2] 2 = .ok 2 ∧ blockAt 0 [1, 2] 3 = .error .invalidBlockIndex := by
  constructor <;> rfl

/-- every id has an answer; it is `some` exactly for the default symbols and the table's own -/
theorem getSymbol_total (t : SymbolTable) (i : Nat) :
    (t.getSymbol i).isSome ↔ i < Gen.defaultSymbols.length ∨ (Gen.symbolOffset ≤ i ∧ i - Gen.symbolOffset < t.symbols.length) := by
  unfold SymbolTable.getSymbol
  by_cases h : Gen.symbolOffset ≤ i
  · have hd : ¬ i < Gen.defaultSymbols.length := by
      have : Gen.defaultSymbols.length < Gen.symbolOffset := by decide
      omega
    simp [h, hd]
  · simp [h]

/-- the ids between the default symbols and the offset are unknown symbols, not an index -/
theorem getSymbol_gap (t : SymbolTable) (i : Nat) (h1 : Gen.defaultSymbols.length ≤ i) (h2 : i < Gen.symbolOffset) :
    t.getSymbol i = none := by
  unfold SymbolTable.getSymbol
  have : ¬ Gen.symbolOffset ≤ i := by omega
  simp [this, h1]

theorem getSymbol_beyond (t : SymbolTable) (i : Nat) (h : Gen.symbolOffset + t.symbols.length ≤ i) :
    t.getSymbol i = none := by
  unfold SymbolTable.getSymbol
  have h1 : Gen.symbolOffset ≤ i := by omega
  have h2 : t.symbols.length ≤ i - Gen.symbolOffset := by omega
  simp [h1, h2]

theorem tempSymbol_beyond (t : TempSyms) (i : Nat) (h : t.offset + t.extra.length ≤ i) : t.getSymbol i = none := by
  unfold TempSyms.getSymbol
  have h1 : t.offset ≤ i := by omega
  have h2 : t.extra.length ≤ i - t.offset := by omega
  simp [h1, h2]

example : (SymbolTable.mk ["a".toUTF8.toList]).getSymbol 28 = none ∧ (SymbolTable.mk ["a".toUTF8.toList]).getSymbol 1025 = none
    ∧ ((SymbolTable.mk ["a".toUTF8.toList]).getSymbol 1024).isSome := by
  refine ⟨getSymbol_gap _ _ (by decide) (by decide), getSymbol_beyond _ _ (by decide), ?_⟩
  rw [getSymbol_total]; right; decide

end Biscuit.Untrusted
