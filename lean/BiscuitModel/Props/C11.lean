/-
  C11 — authorization is deterministic.

  The hash-based stores of the engine (`FactSet`, `RuleSet`) are lists in the model, so
  the iteration order is an explicit parameter: two orders are two lists with the same
  members.  The full statement of the property — including *which error* is reported —
  is false of the code (see `order_dependent_witness`); what is proved is the statement for
  evaluations in which no binding makes an expression fail.
-/
import BiscuitModel.Lemmas.Congr
import BiscuitModel.Props.C05
namespace Biscuit.C11
open Biscuit Biscuit.C05 Biscuit.C04

/-- authorization with the initial contents of the fact and rule stores given explicitly
    (`authorize` is the instance with the loading order of the code) -/
def authorizeOn (syms : SymbolTable) (rules : List SRule) (facts : List OFact) (blocks : List Block)
    (az : AuthorizerData) (lim : Limits) : AuthzResult :=
  let out := run syms rules lim (factMerge [] facts)
  match out.result with
  | .error e => .runError e
  | .ok () => decide syms out.facts blocks az

theorem authorize_eq_authorizeOn (syms : SymbolTable) (blocks : List Block) (az : AuthorizerData) (lim : Limits) :
    authorize syms blocks az lim = authorizeOn syms (worldRules blocks az) (worldFacts blocks az) blocks az lim := rfl

/-- **Order independence (partial: error-free evaluations).** Insert the same facts and the same
    rules in any order, any number of times — i.e. let the hash stores iterate in any order:
    if both runs end without error or limit, and no binding of a check or policy makes an
    expression fail, the result of authorization (acceptance, policy index, the list of failed
    checks) is the same. -/
theorem outcome_order_independent_partial (syms : SymbolTable) (rules rules' : List SRule) (facts facts' : List OFact)
    (blocks : List Block) (az : AuthorizerData) (lim lim' : Limits)
    (hf : ∀ x, x ∈ facts ↔ x ∈ facts') (hr : ∀ r, r ∈ rules ↔ r ∈ rules')
    (hok : (run syms rules lim (factMerge [] facts)).result = .ok ())
    (hok' : (run syms rules' lim' (factMerge [] facts')).result = .ok ())
    (hne : AllNoErr syms (run syms rules lim (factMerge [] facts)).facts blocks az) :
    authorizeOn syms rules facts blocks az lim = authorizeOn syms rules' facts' blocks az lim' := by
  have hsame : SameFacts (run syms rules lim (factMerge [] facts)).facts (run syms rules' lim' (factMerge [] facts')).facts :=
    fun x => run_order_independent ⟨syms, facts, rules⟩ ⟨syms, facts', rules'⟩ lim lim' rfl hf hr hok hok' x
  simp only [authorizeOn, hok, hok']
  exact decide_same hsame syms blocks az hne

/-- the failed checks are listed in declaration order whatever the iteration order -/
theorem failed_checks_in_declaration_order (syms : SymbolTable) (F : List OFact) (km : KeyMap) (dflt : List Nat)
    (blk : Nat) (mk : Nat → FailedCheck) (cs : List Check) (i : Nat)
    (hn : ∀ c ∈ cs, CheckNoErr syms F km dflt blk c.queries) :
    failedChecks syms F km dflt blk mk i cs =
      .ok (((enumFrom i cs).filter fun ic => !checkSpec syms F km dflt blk ic.2).map fun ic => mk ic.1) :=
  failedChecks_spec syms F km dflt blk mk (checkSpec syms F km dflt blk) cs i
    (fun c hc => evalCheck_spec syms F km dflt blk c (hn c hc))

/-! ## the full statement is false: a witness -/

def wRule : Rule :=
  ⟨⟨1026, []⟩, [⟨1024, [.var 1]⟩],
   [[.value (.int 10), .value (.var 1), .binary .div, .value (.int 0), .binary .greaterThan]]⟩

def wFacts : List OFact := [([0], ⟨1024, [.int 1]⟩), ([0], ⟨1024, [.int 0]⟩)]

/-- `f(0), f(1)` with `check if f($x), 10 / $x > 0`: one iteration order finds the match first,
    the other the division by zero — same facts, different outcome. -/
theorem order_dependent_witness :
    findMatch ⟨[]⟩ wFacts [0] authorizerId wRule = .ok true ∧
    findMatch ⟨[]⟩ wFacts.reverse [0] authorizerId wRule = .error .divideByZero ∧
    (∀ x, x ∈ wFacts ↔ x ∈ wFacts.reverse) := by
  refine ⟨by decide, by decide, fun x => by simp⟩

/-- and the hypothesis of the partial theorem is what excludes it -/
theorem witness_has_error : ¬ NoErr ⟨[]⟩ wFacts [0] wRule := by
  intro h
  exact h ([0], [(1, .int 0)]) (by decide) .divideByZero (by decide)

end Biscuit.C11
