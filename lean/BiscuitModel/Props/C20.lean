/-
  C20 — parameters are data, never code.

  The specification of binding is the relation `Inst σ t t'`: `t'` is `t` with every parameter
  that `σ` binds replaced, at its position, by the bound term, and nothing else changed.
    * `substTerm_inst`, `inst_functional` : the substitution the builders perform is that
      relation, and the relation determines its result — whatever the bound values contain;
    * `subst_closed` : when every parameter of a term is bound to a parameter-free value (a
      key position to an integer or a string), no parameter is left, at any depth — so the
      conversion of a fully bound item meets no parameter (`rule_apply_closed` for whole rules
      with expressions, closures and scopes);
    * `missing_nil_iff`, `missing_complete` : validation passes exactly when every declared
      name has a value, and reports exactly the names that have none;
    * `set_unknown_reported`, `set_lenient_unknown_ignored`, `set_known` : the strict setter
      reports a name the item does not declare and changes nothing; a known name gets exactly
      that value and no other name is touched;
    * `bound_string_is_one_literal` : a bound string, printed, is read back as that one string
      (C14's string theorem): the characters of a value cannot become Datalog syntax.
-/
import BiscuitModel.Model.Params
import BiscuitModel.Props.C14
set_option linter.unusedSimpArgs false
set_option linter.unusedVariables false
namespace Biscuit.Params
open Biscuit.Printer

/-! ## the specification -/

inductive InstK (σ : Env) : SKey → SKey → Prop where
  | int : InstK σ (.int i) (.int i)
  | str : InstK σ (.str s) (.str s)
  | boundInt : lookup σ n = some (.int i) → InstK σ (.param n) (.int i)
  | boundStr : lookup σ n = some (.str s) → InstK σ (.param n) (.str s)
  | kept : (∀ i, lookup σ n ≠ some (.int i)) → (∀ s, lookup σ n ≠ some (.str s)) → InstK σ (.param n) (.param n)

mutual
inductive Inst (σ : Env) : STerm → STerm → Prop where
  | bound : lookup σ n = some v → Inst σ (.param n) v
  | unbound : lookup σ n = none → Inst σ (.param n) (.param n)
  | var : Inst σ (.var n) (.var n)
  | int : Inst σ (.int i) (.int i)
  | str : Inst σ (.str s) (.str s)
  | date : Inst σ (.date d) (.date d)
  | bytes : Inst σ (.bytes b) (.bytes b)
  | bool : Inst σ (.bool b) (.bool b)
  | null : Inst σ .null .null
  | set : InstL σ xs ys → Inst σ (.set xs) (.set ys)
  | arr : InstL σ xs ys → Inst σ (.arr xs) (.arr ys)
  | map : InstKV σ kvs kvs' → Inst σ (.map kvs) (.map kvs')
inductive InstL (σ : Env) : List STerm → List STerm → Prop where
  | nil : InstL σ [] []
  | cons : Inst σ x y → InstL σ xs ys → InstL σ (x :: xs) (y :: ys)
inductive InstKV (σ : Env) : List (SKey × STerm) → List (SKey × STerm) → Prop where
  | nil : InstKV σ [] []
  | cons : InstK σ k k' → Inst σ t t' → InstKV σ kvs kvs' → InstKV σ ((k, t) :: kvs) ((k', t') :: kvs')
end

theorem substKey_inst (σ : Env) (k : SKey) : InstK σ k (substKey σ k) := by
  cases k with
  | int i => exact .int
  | str s => exact .str
  | param n =>
    cases h : lookup σ n with
    | none =>
      have e : substKey σ (.param n) = .param n := by simp [substKey, h]
      rw [e]; exact .kept (by simp [h]) (by simp [h])
    | some v =>
      cases v with
      | int i =>
        have e : substKey σ (.param n) = .int i := by simp [substKey, h]
        rw [e]; exact .boundInt h
      | str s =>
        have e : substKey σ (.param n) = .str s := by simp [substKey, h]
        rw [e]; exact .boundStr h
      | _ =>
        have e : substKey σ (.param n) = .param n := by simp [substKey, h]
        rw [e]; exact .kept (by simp [h]) (by simp [h])

mutual
/-- what the builders compute is an instance of the specification -/
theorem substTerm_inst (σ : Env) : (t : STerm) → Inst σ t (substTerm σ t)
  | .param n => by
    unfold substTerm
    cases h : lookup σ n with
    | none => simpa using Inst.unbound h
    | some v => simpa using Inst.bound h
  | .var _ => by unfold substTerm; exact .var
  | .int _ => by unfold substTerm; exact .int
  | .str _ => by unfold substTerm; exact .str
  | .date _ => by unfold substTerm; exact .date
  | .bytes _ => by unfold substTerm; exact .bytes
  | .bool _ => by unfold substTerm; exact .bool
  | .null => by unfold substTerm; exact .null
  | .set xs => by unfold substTerm; exact .set (substTerms_inst σ xs)
  | .arr xs => by unfold substTerm; exact .arr (substTerms_inst σ xs)
  | .map kvs => by unfold substTerm; exact .map (substKVs_inst σ kvs)
theorem substTerms_inst (σ : Env) : (ts : List STerm) → InstL σ ts (substTerms σ ts)
  | [] => by unfold substTerms; exact .nil
  | t :: ts => by unfold substTerms; exact .cons (substTerm_inst σ t) (substTerms_inst σ ts)
theorem substKVs_inst (σ : Env) : (kvs : List (SKey × STerm)) → InstKV σ kvs (substKVs σ kvs)
  | [] => by unfold substKVs; exact .nil
  | (k, t) :: kvs => by
    unfold substKVs
    exact .cons (substKey_inst σ k) (substTerm_inst σ t) (substKVs_inst σ kvs)
end

theorem instK_functional {σ : Env} {k a : SKey} (h : InstK σ k a) : a = substKey σ k := by
  cases h with
  | int => rfl
  | str => rfl
  | boundInt h => simp [substKey, h]
  | boundStr h => simp [substKey, h]
  | kept h1 h2 =>
    rename_i n
    cases h : lookup σ n with
    | none => simp [substKey, h]
    | some v =>
      cases v with
      | int i => exact absurd h (h1 i)
      | str s => exact absurd h (h2 s)
      | _ => simp [substKey, h]

mutual
/-- the specification leaves no freedom: any instance is the computed one -/
theorem inst_functional {σ : Env} : {t a : STerm} → Inst σ t a → a = substTerm σ t
  | _, _, .bound h => by simp [substTerm, h]
  | _, _, .unbound h => by simp [substTerm, h]
  | _, _, .var => by simp [substTerm]
  | _, _, .int => by simp [substTerm]
  | _, _, .str => by simp [substTerm]
  | _, _, .date => by simp [substTerm]
  | _, _, .bytes => by simp [substTerm]
  | _, _, .bool => by simp [substTerm]
  | _, _, .null => by simp [substTerm]
  | _, _, .set h => by simp [substTerm, instL_functional h]
  | _, _, .arr h => by simp [substTerm, instL_functional h]
  | _, _, .map h => by simp [substTerm, instKV_functional h]
theorem instL_functional {σ : Env} : {ts as : List STerm} → InstL σ ts as → as = substTerms σ ts
  | _, _, .nil => by simp [substTerms]
  | _, _, .cons h hs => by simp [substTerms, inst_functional h, instL_functional hs]
theorem instKV_functional {σ : Env} : {kvs as : List (SKey × STerm)} → InstKV σ kvs as → as = substKVs σ kvs
  | _, _, .nil => by simp [substKVs]
  | _, _, .cons hk h hs => by
    simp [substKVs, instK_functional hk, inst_functional h, instKV_functional hs]
end

/-- a value is placed as it is: a parameter bound to `v` becomes exactly `v` -/
theorem bound_param_is_value (σ : Env) (n : String) (v : STerm) (h : lookup σ n = some v) :
    substTerm σ (.param n) = v := by simp [substTerm, h]

/-- ... and a bound string, once printed, is read back as that one string -/
theorem bound_string_is_one_literal (s rest : List Char) :
    parseString (printStringChars s ++ rest) = some (s, rest) := string_lit_round_trip s rest

/-! ## full binding leaves no parameter -/

def IsKeyValue : STerm → Prop
  | .int _ => True
  | .str _ => True
  | _ => False

def Closes (σ : Env) (ps ks : List String) : Prop :=
  (∀ n ∈ ps, ∃ v, lookup σ n = some v ∧ paramsTerm v = []) ∧
  (∀ n ∈ ks, ∃ v, lookup σ n = some v ∧ IsKeyValue v)

theorem substKey_closed (σ : Env) (k : SKey)
    (hk : ∀ n, k = .param n → ∃ v, lookup σ n = some v ∧ IsKeyValue v) :
    (match substKey σ k with | .param n => [n] | _ => ([] : List String)) = [] := by
  cases k with
  | int i => simp [substKey]
  | str s => simp [substKey]
  | param n =>
    obtain ⟨v, hv, hkv⟩ := hk n rfl
    cases v <;> simp [IsKeyValue] at hkv <;> simp [substKey, hv]

mutual
theorem subst_closed (σ : Env) : (t : STerm) →
    (∀ n ∈ paramsTerm t, ∃ v, lookup σ n = some v ∧ paramsTerm v = []) →
    (∀ n ∈ keyParamsTerm t, ∃ v, lookup σ n = some v ∧ IsKeyValue v) →
    paramsTerm (substTerm σ t) = []
  | .param n, hp, _ => by
    obtain ⟨v, hv, hg⟩ := hp n (by simp [paramsTerm])
    simp [substTerm, hv, hg]
  | .var _, _, _ => by simp [substTerm, paramsTerm]
  | .int _, _, _ => by simp [substTerm, paramsTerm]
  | .str _, _, _ => by simp [substTerm, paramsTerm]
  | .date _, _, _ => by simp [substTerm, paramsTerm]
  | .bytes _, _, _ => by simp [substTerm, paramsTerm]
  | .bool _, _, _ => by simp [substTerm, paramsTerm]
  | .null, _, _ => by simp [substTerm, paramsTerm]
  | .set xs, hp, hk => by
    simp only [substTerm, paramsTerm]
    exact substs_closed σ xs (by simpa [paramsTerm] using hp) (by simpa [keyParamsTerm] using hk)
  | .arr xs, hp, hk => by
    simp only [substTerm, paramsTerm]
    exact substs_closed σ xs (by simpa [paramsTerm] using hp) (by simpa [keyParamsTerm] using hk)
  | .map kvs, hp, hk => by
    simp only [substTerm, paramsTerm]
    exact substKVs_closed σ kvs (by simpa [paramsTerm] using hp) (by simpa [keyParamsTerm] using hk)
theorem substs_closed (σ : Env) : (ts : List STerm) →
    (∀ n ∈ paramsTerms ts, ∃ v, lookup σ n = some v ∧ paramsTerm v = []) →
    (∀ n ∈ keyParamsTerms ts, ∃ v, lookup σ n = some v ∧ IsKeyValue v) →
    paramsTerms (substTerms σ ts) = []
  | [], _, _ => by simp [substTerms, paramsTerms]
  | t :: ts, hp, hk => by
    simp only [substTerms, paramsTerms, List.append_eq_nil_iff]
    exact ⟨subst_closed σ t (fun n hn => hp n (by simp [paramsTerms, hn]))
        (fun n hn => hk n (by simp [keyParamsTerms, hn])),
      substs_closed σ ts (fun n hn => hp n (by simp [paramsTerms, hn]))
        (fun n hn => hk n (by simp [keyParamsTerms, hn]))⟩
theorem substKVs_closed (σ : Env) : (kvs : List (SKey × STerm)) →
    (∀ n ∈ paramsKVs kvs, ∃ v, lookup σ n = some v ∧ paramsTerm v = []) →
    (∀ n ∈ keyParamsKVs kvs, ∃ v, lookup σ n = some v ∧ IsKeyValue v) →
    paramsKVs (substKVs σ kvs) = []
  | [], _, _ => by simp [substKVs, paramsKVs]
  | (k, t) :: kvs, hp, hk => by
    simp only [substKVs, paramsKVs, List.append_eq_nil_iff]
    refine ⟨⟨?_, ?_⟩, ?_⟩
    · apply substKey_closed
      intro n hn
      subst hn
      exact hk n (by simp [keyParamsKVs])
    · exact subst_closed σ t (fun n hn => hp n (by simp [paramsKVs, hn]))
        (fun n hn => hk n (by simp [keyParamsKVs, hn]))
    · exact substKVs_closed σ kvs (fun n hn => hp n (by simp [paramsKVs, hn]))
        (fun n hn => hk n (by simp [keyParamsKVs, hn]))
end

mutual
theorem substOp_closed (σ : Env) : (op : POp) →
    (∀ n ∈ paramsOp op, ∃ v, lookup σ n = some v ∧ paramsTerm v = []) →
    (∀ n ∈ keyParamsOp op, ∃ v, lookup σ n = some v ∧ IsKeyValue v) →
    paramsOp (substOp σ op) = []
  | .val t, hp, hk => by
    simp only [substOp, paramsOp]
    exact subst_closed σ t (by simpa [paramsOp] using hp) (by simpa [keyParamsOp] using hk)
  | .clo ps body, hp, hk => by
    simp only [substOp, paramsOp]
    exact substOps_closed σ body (by simpa [paramsOp] using hp) (by simpa [keyParamsOp] using hk)
  | .un u, _, _ => by simp [substOp, paramsOp]
  | .bin b, _, _ => by simp [substOp, paramsOp]
theorem substOps_closed (σ : Env) : (ops : List POp) →
    (∀ n ∈ paramsOps ops, ∃ v, lookup σ n = some v ∧ paramsTerm v = []) →
    (∀ n ∈ keyParamsOps ops, ∃ v, lookup σ n = some v ∧ IsKeyValue v) →
    paramsOps (substOps σ ops) = []
  | [], _, _ => by simp [substOps, paramsOps]
  | op :: k, hp, hk => by
    simp only [substOps, paramsOps, List.append_eq_nil_iff]
    exact ⟨substOp_closed σ op (fun n hn => hp n (by simp [paramsOps, hn])) (fun n hn => hk n (by simp [keyParamsOps, hn])),
      substOps_closed σ k (fun n hn => hp n (by simp [paramsOps, hn])) (fun n hn => hk n (by simp [keyParamsOps, hn]))⟩
end

/-! ## setters and validation -/

theorem set_unknown_reported (it : Item) (n : String) (v : STerm) (h : (declaredRule it.rule).contains n = false) :
    it.set n v = (it, .unused n) := by
  unfold Item.set; rw [if_neg (by rw [h]; exact Bool.false_ne_true)]

theorem set_lenient_unknown_ignored (it : Item) (n : String) (v : STerm)
    (h : (declaredRule it.rule).contains n = false) : it.setLenient n v = (it, .ok) := by
  unfold Item.setLenient; rw [if_neg (by rw [h]; exact Bool.false_ne_true)]

theorem set_scope_unknown_reported (it : Item) (n k : String) (h : (declaredScopes it.rule).contains n = false) :
    it.setScope n k = (it, .unused n) := by
  unfold Item.setScope; rw [if_neg (by rw [h]; exact Bool.false_ne_true)]

/-- a declared name gets exactly that value; every other name keeps what it had; the item's
    own structure is not touched by a setter -/
theorem set_known (it : Item) (n : String) (v : STerm) (h : (declaredRule it.rule).contains n = true) :
    (it.set n v).2 = .ok ∧ lookup (it.set n v).1.env n = some v
      ∧ (∀ m, m ≠ n → lookup (it.set n v).1.env m = lookup it.env m)
      ∧ (it.set n v).1.rule = it.rule := by
  unfold Item.set; rw [if_pos h]
  refine ⟨rfl, by simp [lookup], fun m hm => ?_, rfl⟩
  simp [lookup, Ne.symm hm]

theorem mem_filter_isNone {σ : Env} {ds : List String} {n : String} :
    n ∈ ds.filter (fun n => (lookup σ n).isNone) ↔ n ∈ ds ∧ lookup σ n = none := by
  simp [List.mem_filter, Option.isNone_iff_eq_none]

/-- validation reports exactly the declared names without a value -/
theorem missing_complete (it : Item) (n : String) :
    n ∈ it.missing ↔ (n ∈ declaredRule it.rule ∧ lookup it.env n = none)
      ∨ (n ∈ declaredScopes it.rule ∧ lookupKey it.keys n = none) := by
  simp [Item.missing, List.mem_append, List.mem_filter, Option.isNone_iff_eq_none]

theorem missing_nil_iff (it : Item) :
    it.missing = [] ↔ (∀ n ∈ declaredRule it.rule, ∃ v, lookup it.env n = some v)
      ∧ (∀ n ∈ declaredScopes it.rule, ∃ k, lookupKey it.keys n = some k) := by
  constructor
  · intro h
    constructor
    · intro n hn
      cases hl : lookup it.env n with
      | some v => exact ⟨v, rfl⟩
      | none =>
        have : n ∈ it.missing := (missing_complete it n).2 (.inl ⟨hn, hl⟩)
        rw [h] at this; exact absurd this (by simp)
    · intro n hn
      cases hl : lookupKey it.keys n with
      | some v => exact ⟨v, rfl⟩
      | none =>
        have : n ∈ it.missing := (missing_complete it n).2 (.inr ⟨hn, hl⟩)
        rw [h] at this; exact absurd this (by simp)
  · intro ⟨h1, h2⟩
    apply List.eq_nil_iff_forall_not_mem.2
    intro n hn
    rcases (missing_complete it n).1 hn with ⟨hd, hl⟩ | ⟨hd, hl⟩
    · obtain ⟨v, hv⟩ := h1 n hd; rw [hl] at hv; exact absurd hv (by simp)
    · obtain ⟨v, hv⟩ := h2 n hd; rw [hl] at hv; exact absurd hv (by simp)

/-! ## whole rules -/

theorem mem_foldl_dedup (xs acc : List String) (n : String) :
    n ∈ xs.foldl (fun acc x => if acc.contains x then acc else acc ++ [x]) acc ↔ n ∈ acc ∨ n ∈ xs := by
  induction xs generalizing acc with
  | nil => simp
  | cons x xs ih =>
    simp only [List.foldl_cons, ih, List.mem_cons]
    by_cases hc : acc.contains x = true
    · simp only [hc, ↓reduceIte]
      have hx : x ∈ acc := by simpa using hc
      constructor
      · rintro (h | h)
        · exact .inl h
        · exact .inr (.inr h)
      · rintro (h | h | h)
        · exact .inl h
        · exact .inl (h ▸ hx)
        · exact .inr h
    · simp only [hc, Bool.false_eq_true, ↓reduceIte, List.mem_append, List.mem_singleton]
      constructor
      · rintro ((h | h) | h)
        · exact .inl h
        · exact .inr (.inl h)
        · exact .inr (.inr h)
      · rintro (h | h | h)
        · exact .inl (.inl h)
        · exact .inl (.inr h)
        · exact .inr h

theorem mem_dedup (xs : List String) (n : String) : n ∈ dedup xs ↔ n ∈ xs := by
  unfold dedup; rw [mem_foldl_dedup]; simp

theorem dedup_nil_of_nil {xs : List String} (h : xs = []) : dedup xs = [] := by subst h; rfl

/-- C20 for a whole rule: once every declared parameter has a parameter-free value (key
    positions an integer or a string) and every scope parameter a key, the substituted rule
    has no parameter left anywhere — head, body, expressions, closure bodies, scopes — so its
    conversion meets none -/
theorem rule_apply_closed (it : Item)
    (hb : ∀ n ∈ declaredRule it.rule, ∃ v, lookup it.env n = some v ∧ paramsTerm v = [])
    (hk : ∀ n ∈ keyParamsRule it.rule, ∃ v, lookup it.env n = some v ∧ IsKeyValue v)
    (hs : ∀ n ∈ declaredScopes it.rule, ∃ k, lookupKey it.keys n = some k) :
    residualRule it.apply = [] := by
  have hb' : ∀ n, n ∈ paramsTerms it.rule.head.terms ++ (it.rule.body.map fun p => paramsTerms p.terms).flatten
      ++ (it.rule.exprs.map paramsOps).flatten → ∃ v, lookup it.env n = some v ∧ paramsTerm v = [] :=
    fun n hn => hb n ((mem_dedup _ n).2 hn)
  unfold residualRule
  rw [List.append_eq_nil_iff]
  constructor
  · apply dedup_nil_of_nil
    simp only [Item.apply, substRule, substPred, List.append_eq_nil_iff, List.flatten_eq_nil_iff, List.mem_map,
      List.map_map]
    refine ⟨⟨?_, ?_⟩, ?_⟩
    · exact substs_closed _ _ (fun n hn => hb' n (by simp [hn])) (fun n hn => hk n (by simp [keyParamsRule, hn]))
    · rintro l ⟨p, hp, rfl⟩
      simp only [Function.comp]
      exact substs_closed _ _
        (fun n hn => hb' n (by
          simp only [List.mem_append, List.mem_flatten, List.mem_map]
          exact .inl (.inr ⟨_, ⟨p, hp, rfl⟩, hn⟩)))
        (fun n hn => hk n (by
          simp only [keyParamsRule, List.mem_append, List.mem_flatten, List.mem_map]
          exact .inl (.inr ⟨_, ⟨p, hp, rfl⟩, hn⟩)))
    · rintro l ⟨ops, hp, rfl⟩
      simp only [Function.comp]
      exact substOps_closed _ _
        (fun n hn => hb' n (by
          simp only [List.mem_append, List.mem_flatten, List.mem_map]
          exact .inr ⟨_, ⟨ops, hp, rfl⟩, hn⟩))
        (fun n hn => hk n (by
          simp only [keyParamsRule, List.mem_append, List.mem_flatten, List.mem_map]
          exact .inr ⟨_, ⟨ops, hp, rfl⟩, hn⟩))
  · apply dedup_nil_of_nil
    simp only [Item.apply, substRule]
    apply List.eq_nil_iff_forall_not_mem.2
    intro n hn
    simp only [List.mem_filterMap, List.mem_map] at hn
    obtain ⟨s, ⟨s0, hs0, rfl⟩, hsn⟩ := hn
    cases s0 with
    | param m =>
      have hm : m ∈ declaredScopes it.rule := by
        apply (mem_dedup _ m).2
        simp only [List.mem_filterMap]
        exact ⟨.param m, hs0, rfl⟩
      obtain ⟨k, hk'⟩ := hs m hm
      simp [substScope, hk'] at hsn
    | authority => simp [substScope] at hsn
    | previous => simp [substScope] at hsn
    | key k => simp [substScope] at hsn

/-! non-vacuity: a rule with a parameter in a nested key and one in a closure, fully bound -/
example :
    let r : SRule := { head := ⟨"h", [.arr [.param "p"]]⟩, body := [⟨"f", [.map [(.param "k", .param "p")]]⟩],
                       exprs := [[.val (.var "x"), .clo ["y"] [.val (.set [.param "p"])], .bin .any]], scopes := [.param "s"] }
    let it : Item := { rule := r }
    let it := (it.set "p" (.str "\"); allow if true; //")).1
    let it := (it.set "k" (.int 1)).1
    let it := (it.setScope "s" "ed25519/00").1
    it.missing = [] ∧ residualRule it.apply = [] := by decide

end Biscuit.Params
