/-
  C01 — forged, tampered, spliced or truncated tokens never verify.

  Cryptographic strength is a hypothesis, never a theorem here: `Unforgeable` says that a
  signature that verifies under a protected key was produced by an honest party, over
  exactly that message.  What is proved is that verification *uses* that strength for every
  field: each check the verifier makes is over a payload that binds the block's bytes, next
  key (with its algorithm), signature version, previous signature and external signature,
  under the key the chain designates.
-/
import BiscuitModel.Props.C08
namespace Biscuit.C01
open Biscuit Biscuit.C02

/-! ## what verification checks, declaratively -/

/-- the chain of blocks after the authority block: each block is signed by the next key of the
    one before it, over its payload, which (version 1) contains the *actual* previous signature;
    an external signature is checked over the block's bytes and that same previous signature -/
inductive Chain (S : Scheme) : PubKey → Bytes → SBlock → List SBlock → SBlock → Prop
  | nil {pk : PubKey} {sig : Bytes} {a : SBlock} : Chain S pk sig a [] a
  | cons {pk : PubKey} {sig : Bytes} {a b l : SBlock} {rest : List SBlock} {p : Bytes} :
      blockPayload b sig = some p → S.verify pk p b.sig = true →
      (∀ e, b.ext = some e → S.verify e.key (externalPayload b sig) e.sig = true) →
      Chain S b.nextKey b.sig b rest l → Chain S pk sig a (b :: rest) l

theorem verifyChain_iff (S : Scheme) :
    ∀ (bs : List SBlock) (pk : PubKey) (sig : Bytes) (a l : SBlock),
      verifyChain S pk sig a bs = some l ↔ Chain S pk sig a bs l := by
  intro bs
  induction bs with
  | nil =>
    intro pk sig a l
    constructor
    · intro h; simp [verifyChain] at h; subst h; exact Chain.nil
    · intro h; cases h; rfl
  | cons b rest ih =>
    intro pk sig a l
    simp only [verifyChain]
    constructor
    · intro h
      split at h
      · rename_i hb
        simp only [verifyBlock] at hb
        cases hp : blockPayload b sig with
        | none => rw [hp] at hb; cases hb
        | some p =>
          rw [hp] at hb
          simp only [Bool.and_eq_true] at hb
          refine Chain.cons hp hb.1 ?_ ((ih _ _ _ _).mp h)
          intro e he
          have := hb.2
          rw [he] at this
          exact this
      · cases h
    · intro h
      cases h with
      | cons hp hv he hc =>
        have hb : verifyBlock S pk sig b = true := by
          simp only [verifyBlock, hp, hv, Bool.true_and]
          cases hext : b.ext with
          | none => rfl
          | some e => exact he e hext
        rw [if_pos hb]
        exact (ih _ _ _ _).mpr hc

/-- **A token is accepted under a root key exactly when**: the authority block carries no
    external signature and every third-party block declares signature version 1; the authority
    signature verifies under the root key over the authority payload; the blocks form a chain
    from the authority's next key; and the proof is either the secret of the last next key or a
    seal signature by the last next key over the last block, its next key and its signature. -/
theorem verify_iff_chain (S : Scheme) (root : PubKey) (c : Container) :
    verifyToken S root c = true ↔
      wellFormed c = true ∧
      (∃ p, authorityPayload c.authority = some p ∧ S.verify root p c.authority.sig = true) ∧
      ∃ l, Chain S c.authority.nextKey c.authority.sig c.authority c.blocks l ∧ verifyProof S l c.proof = true := by
  simp only [verifyToken, Bool.and_eq_true, verifyAuthority]
  constructor
  · rintro ⟨⟨hwf, hauth⟩, hrest⟩
    refine ⟨hwf, ?_, ?_⟩
    · cases hp : authorityPayload c.authority with
      | none => rw [hp] at hauth; cases hauth
      | some p => rw [hp] at hauth; exact ⟨p, rfl, hauth⟩
    · cases hch : verifyChain S c.authority.nextKey c.authority.sig c.authority c.blocks with
      | none => rw [hch] at hrest; cases hrest
      | some l => rw [hch] at hrest; exact ⟨l, (verifyChain_iff S _ _ _ _ _).mp hch, hrest⟩
  · rintro ⟨hwf, ⟨p, hp, hv⟩, l, hch, hpr⟩
    refine ⟨⟨hwf, by rw [hp]; exact hv⟩, ?_⟩
    rw [(verifyChain_iff S _ _ _ _ _).mpr hch]
    exact hpr

/-! ## unforgeability: what an accepted token must consist of -/

/-- signatures that verify under a protected key are ones honest parties produced, for that key
    and that exact message (strong unforgeability; for ed25519 with strict verification) -/
def Unforgeable (S : Scheme) (protectedKey : PubKey → Prop) (honest : PubKey → Bytes → Bytes → Prop) : Prop :=
  ∀ pk m s, protectedKey pk → S.verify pk m s = true → honest pk m s

/-- **Under any other root key the token is refused**: if no honest party ever signed with a
    protected key `root'`, nothing verifies under it. -/
theorem wrong_root_rejected (S : Scheme) (prot : PubKey → Prop) (honest : PubKey → Bytes → Bytes → Prop)
    (hU : Unforgeable S prot honest) (root' : PubKey) (hp : prot root') (hnone : ∀ m s, ¬ honest root' m s)
    (c : Container) : verifyToken S root' c = false := by
  cases hv : verifyToken S root' c with
  | false => rfl
  | true =>
    obtain ⟨_, ⟨p, _, hs⟩, _⟩ := (verify_iff_chain S root' c).mp hv
    exact absurd (hU root' p _ hp hs) (hnone p _)

/-- the authority block of an accepted token was signed, exactly as presented, by the holder of
    the root key -/
theorem accepted_authority_is_honest (S : Scheme) (prot : PubKey → Prop) (honest : PubKey → Bytes → Bytes → Prop)
    (hU : Unforgeable S prot honest) (root : PubKey) (hp : prot root) (c : Container)
    (hv : verifyToken S root c = true) :
    ∃ p, authorityPayload c.authority = some p ∧ honest root p c.authority.sig := by
  obtain ⟨_, ⟨p, hpay, hs⟩, _⟩ := (verify_iff_chain S root c).mp hv
  exact ⟨p, hpay, hU root p _ hp hs⟩

/-- every block of an accepted token that follows a protected key was signed, exactly as
    presented — bytes, next key, version, previous signature, external signature — by the holder
    of that key; and its external signature by the holder of the stated external key -/
theorem accepted_blocks_are_honest (S : Scheme) (prot : PubKey → Prop) (honest : PubKey → Bytes → Bytes → Prop)
    (hU : Unforgeable S prot honest) :
    ∀ (bs : List SBlock) (pk : PubKey) (sig : Bytes) (a l : SBlock), Chain S pk sig a bs l →
      ∀ (i : Nat) (h : i < bs.length),
        let signer := if i = 0 then pk else (bs[i - 1]'(by omega)).nextKey
        let prev := if i = 0 then sig else (bs[i - 1]'(by omega)).sig
        (prot signer → ∃ p, blockPayload bs[i] prev = some p ∧ honest signer p bs[i].sig) ∧
        (∀ e, bs[i].ext = some e → prot e.key → honest e.key (externalPayload bs[i] prev) e.sig) := by
  intro bs pk sig a l hch
  induction hch with
  | nil => intro i h; simp at h
  | @cons pk sig a b l rest p hp hv he _ ih =>
    intro i h
    cases i with
    | zero =>
      simp only [List.getElem_cons_zero, if_true]
      exact ⟨fun hpr => ⟨p, hp, hU pk p _ hpr hv⟩, fun e hext hpe => hU e.key _ _ hpe (he e hext)⟩
    | succ j =>
      have := ih j (by simpa using h)
      simp only [List.getElem_cons_succ, Nat.add_one_ne_zero, if_false, Nat.add_sub_cancel] at this ⊢
      cases j with
      | zero => simpa using this
      | succ k => simpa using this

/-- **A forged or altered seal is refused**: the final signature of an accepted sealed token was
    made by the holder of the last next key over the last block, its next key and its signature. -/
theorem accepted_seal_is_honest (S : Scheme) (prot : PubKey → Prop) (honest : PubKey → Bytes → Bytes → Prop)
    (hU : Unforgeable S prot honest) (root : PubKey) (c : Container) (s : Bytes) (hs : c.proof = .sealed s)
    (hp : prot c.lastBlock.nextKey) (hv : verifyToken S root c = true) :
    honest c.lastBlock.nextKey (Spec.sealed c.lastBlock.data c.lastBlock.nextKey c.lastBlock.sig) s :=
  hU _ _ _ hp (C08.seal_binds_last_block S root c s hs hv)

/-- a token whose proof is a secret is accepted only if that secret is the secret of the last
    next key: dropping trailing blocks needs the secret of an earlier next key -/
theorem truncation_needs_earlier_secret (S : Scheme) (root : PubKey) (c : Container) (sk : Bytes)
    (hs : c.proof = .secret sk) (hv : verifyToken S root c = true) :
    S.pub c.lastBlock.nextKey.alg sk = some c.lastBlock.nextKey := by
  simp only [verifyToken, Bool.and_eq_true] at hv
  obtain ⟨_, hrest⟩ := hv
  cases hch : verifyChain S c.authority.nextKey c.authority.sig c.authority c.blocks with
  | none => rw [hch] at hrest; cases hrest
  | some l =>
    rw [hch, hs] at hrest
    have hl : l = c.lastBlock := lastBlock_of_chain S _ _ _ _ _ hch
    subst hl
    simp only [verifyProof] at hrest
    cases hpub : S.pub c.lastBlock.nextKey.alg sk with
    | none => rw [hpub] at hrest; cases hrest
    | some pk => rw [hpub] at hrest; simp at hrest; rw [hrest]

/-! ## the payloads bind every field (equal lengths of the variable-length fields; the general
    case over well-formed key and signature lengths is listed as an open obligation) -/

theorem le32_injective (a b : Nat) (ha : a < 4294967296) (hb : b < 4294967296) (h : Gen.le32 a = Gen.le32 b) : a = b := by
  simp only [Gen.le32, List.cons.injEq, and_true] at h
  obtain ⟨a0, a1, a2, a3⟩ := h
  have e0 := congrArg UInt8.toNat a0
  have e1 := congrArg UInt8.toNat a1
  have e2 := congrArg UInt8.toNat a2
  have e3 := congrArg UInt8.toNat a3
  simp only [UInt8.toNat_ofNat'] at e0 e1 e2 e3
  omega

/-- version-1 block payload: equal bytes ⇒ equal version, block bytes, algorithm, next key,
    previous signature and external signature -/
theorem blockV1_injective (v v' : Nat) (d d' : Bytes) (k k' : PubKey) (p p' : Bytes) (e e' : Option Bytes)
    (hv : v < 4294967296) (hv' : v' < 4294967296) (ha : k.alg < 4294967296) (ha' : k'.alg < 4294967296)
    (hd : d.length = d'.length) (hk : k.bytes.length = k'.bytes.length) (hp : p.length = p'.length)
    (h : Spec.blockV1 v d k p e = Spec.blockV1 v' d' k' p' e') :
    v = v' ∧ d = d' ∧ k = k' ∧ p = p' ∧ e = e' := by
  simp only [Spec.blockV1, List.append_assoc] at h
  have h1 := List.append_inj h rfl
  have h2 := List.append_inj h1.2 (by simp [Gen.le32])
  have h3 := List.append_inj h2.2 rfl
  have h4 := List.append_inj h3.2 hd
  have h5 := List.append_inj h4.2 rfl
  have h6 := List.append_inj h5.2 (by simp [Gen.le32])
  have h7 := List.append_inj h6.2 rfl
  have h8 := List.append_inj h7.2 hk
  have h9 := List.append_inj h8.2 rfl
  have h10 := List.append_inj h9.2 hp
  refine ⟨le32_injective v v' hv hv' h2.1, h4.1, ?_, h10.1, ?_⟩
  · have := le32_injective _ _ ha ha' h6.1
    cases k; cases k'; simp_all
  · have := h10.2
    cases e <;> cases e' <;> simp [Spec.tagExternalSig] at this ⊢
    exact this

/-- version-0 block payload (no external signature) -/
theorem blockV0_injective (d d' : Bytes) (k k' : PubKey) (ha : k.alg < 4294967296) (ha' : k'.alg < 4294967296)
    (hd : d.length = d'.length) (h : Spec.blockV0 d none k = Spec.blockV0 d' none k') : d = d' ∧ k = k' := by
  simp only [Spec.blockV0, Option.getD_none, List.append_nil, List.append_assoc] at h
  have h1 := List.append_inj h hd
  have h2 := List.append_inj h1.2 (by simp [Gen.le32])
  refine ⟨h1.1, ?_⟩
  have := le32_injective _ _ ha ha' h2.1
  cases k; cases k'; simp_all

/-- a version-0 payload is never a version-1 payload: the scheme cannot be downgraded by
    presenting the same signature under the other version (first byte of the tag is 0; a block's
    protobuf encoding never starts with 0) -/
theorem v1_payload_starts_with_tag (v : Nat) (d : Bytes) (k : PubKey) (p : Bytes) (e : Option Bytes) :
    (Spec.blockV1 v d k p e).head? = some 0 := by
  simp [Spec.blockV1, Spec.tagBlockVersion]

/-! ## the same, with lengths fixed by the algorithms instead of assumed for the block bytes

    Keys have the length their algorithm fixes and ed25519 signatures are 64 bytes, so for two
    parses of one payload the next-key, previous-signature and external-signature lengths agree;
    the length of the block bytes then follows from the length of the payload. -/

theorem le32_length (n : Nat) : (Gen.le32 n).length = 4 := by simp [Gen.le32]

theorem blockV1_length (v : Nat) (d : Bytes) (k : PubKey) (p : Bytes) (e : Option Bytes) :
    (Spec.blockV1 v d k p e).length =
      62 + d.length + k.bytes.length + p.length + (match e with | some x => 13 + x.length | none => 0) := by
  cases e <;>
    simp [Spec.blockV1, Spec.tagBlockVersion, Spec.tagPayload, Spec.tagAlgorithm, Spec.tagNextKey,
      Spec.tagPrevSig, Spec.tagExternalSig, le32_length] <;> omega

/-- **version-1 block payloads bind every field** whenever the two next keys, the two previous
    signatures and the two external signatures have pairwise equal lengths (no assumption on the
    block bytes) -/
theorem blockV1_injective_fixed (v v' : Nat) (d d' : Bytes) (k k' : PubKey) (p p' : Bytes) (e e' : Option Bytes)
    (hv : v < 4294967296) (hv' : v' < 4294967296) (ha : k.alg < 4294967296) (ha' : k'.alg < 4294967296)
    (hk : k.bytes.length = k'.bytes.length) (hp : p.length = p'.length)
    (he : e.map List.length = e'.map List.length)
    (h : Spec.blockV1 v d k p e = Spec.blockV1 v' d' k' p' e') :
    v = v' ∧ d = d' ∧ k = k' ∧ p = p' ∧ e = e' := by
  have hl := congrArg List.length h
  rw [blockV1_length, blockV1_length] at hl
  have hd : d.length = d'.length := by
    cases e <;> cases e' <;> simp at he hl ⊢ <;> omega
  exact blockV1_injective v v' d d' k k' p p' e e' hv hv' ha ha' hd hk hp h

theorem authorityV1_injective (v v' : Nat) (d d' : Bytes) (k k' : PubKey)
    (hv : v < 4294967296) (hv' : v' < 4294967296) (ha : k.alg < 4294967296) (ha' : k'.alg < 4294967296)
    (hk : k.bytes.length = k'.bytes.length)
    (h : Spec.authorityV1 v d k = Spec.authorityV1 v' d' k') : v = v' ∧ d = d' ∧ k = k' := by
  have hl := congrArg List.length h
  simp only [Spec.authorityV1, List.append_assoc] at h hl
  have hd : d.length = d'.length := by
    simp [Spec.tagBlockVersion, Spec.tagPayload, Spec.tagAlgorithm, Spec.tagNextKey, le32_length] at hl
    omega
  have h1 := List.append_inj h rfl
  have h2 := List.append_inj h1.2 (by simp [Gen.le32])
  have h3 := List.append_inj h2.2 rfl
  have h4 := List.append_inj h3.2 hd
  have h5 := List.append_inj h4.2 rfl
  have h6 := List.append_inj h5.2 (by simp [Gen.le32])
  have h7 := List.append_inj h6.2 rfl
  refine ⟨le32_injective v v' hv hv' h2.1, h4.1, ?_⟩
  have := le32_injective _ _ ha ha' h6.1
  have hb := h7.2
  cases k; cases k'; simp_all

/-- the external (third-party) payload binds the block bytes and the previous signature -/
theorem externalV1_injective (v v' : Nat) (d d' p p' : Bytes) (hv : v < 4294967296) (hv' : v' < 4294967296)
    (hp : p.length = p'.length) (h : Spec.externalV1 v d p = Spec.externalV1 v' d' p') :
    v = v' ∧ d = d' ∧ p = p' := by
  have hl := congrArg List.length h
  simp only [Spec.externalV1, List.append_assoc] at h hl
  have hd : d.length = d'.length := by
    simp [Spec.tagExternalVersion, Spec.tagPayload, Spec.tagPrevSig, le32_length] at hl
    omega
  have h1 := List.append_inj h rfl
  have h2 := List.append_inj h1.2 (by simp [Gen.le32])
  have h3 := List.append_inj h2.2 rfl
  have h4 := List.append_inj h3.2 hd
  have h5 := List.append_inj h4.2 rfl
  exact ⟨le32_injective v v' hv hv' h2.1, h4.1, h5.2⟩

/-- the seal payload binds the last block's bytes, next key and signature -/
theorem sealed_injective (d d' : Bytes) (k k' : PubKey) (s s' : Bytes) (ha : k.alg < 4294967296) (ha' : k'.alg < 4294967296)
    (hk : k.bytes.length = k'.bytes.length) (hs : s.length = s'.length)
    (h : Spec.sealed d k s = Spec.sealed d' k' s') : d = d' ∧ k = k' ∧ s = s' := by
  have hl := congrArg List.length h
  simp only [Spec.sealed, List.append_assoc] at h hl
  have hd : d.length = d'.length := by
    simp [le32_length] at hl
    omega
  have h1 := List.append_inj h hd
  have h2 := List.append_inj h1.2 (by simp [Gen.le32])
  have h3 := List.append_inj h2.2 hk
  refine ⟨h1.1, ?_, h3.2⟩
  have := le32_injective _ _ ha ha' h2.1
  have hb := h3.1
  cases k; cases k'; simp_all

/-! ## moving a block: a signature accepted anywhere is accepted only with the fields it was made for -/

/-- an honest signature was made for one message (signatures of distinct messages do not collide) -/
def SigBinds (honest : PubKey → Bytes → Bytes → Prop) : Prop :=
  ∀ pk m m' s, honest pk m s → honest pk m' s → m = m'

/-- `b` is a version-1 block whose fields have the lengths `b₀`'s have -/
def SameShape (b b₀ : SBlock) (prev prev₀ : Bytes) : Prop :=
  b.nextKey.bytes.length = b₀.nextKey.bytes.length ∧ prev.length = prev₀.length ∧
  (b.ext.map (·.sig.length)) = (b₀.ext.map (·.sig.length)) ∧
  b.nextKey.alg < 4294967296 ∧ b₀.nextKey.alg < 4294967296

/-- **Splicing, reordering and field changes are refused**: let the holder of a protected key
    `pk` have signed the version-1 block `b₀` after previous signature `prev₀`, producing `s`.
    If an accepted chain contains, at a position whose signer is `pk`, a version-1 block `b`
    carrying that signature, then `b` has the block bytes, next key and external signature of
    `b₀`, and the block before it carries the signature `prev₀` — the block cannot have been
    moved to another position or another token, nor have any bound field changed. -/
theorem spliced_block_refused (S : Scheme) (prot : PubKey → Prop) (honest : PubKey → Bytes → Bytes → Prop)
    (hU : Unforgeable S prot honest) (hB : SigBinds honest)
    (pk : PubKey) (hp : prot pk) (b₀ : SBlock) (prev₀ : Bytes)
    (h0 : honest pk (Spec.blockV1 1 b₀.data b₀.nextKey prev₀ (b₀.ext.map (·.sig))) b₀.sig)
    (b : SBlock) (prev : Bytes) (hv1 : b.version.getD 0 = 1) (hs : b.sig = b₀.sig)
    (hshape : SameShape b b₀ prev prev₀)
    (hacc : verifyBlock S pk prev b = true) :
    b.data = b₀.data ∧ b.nextKey = b₀.nextKey ∧ prev = prev₀ ∧ b.ext.map (·.sig) = b₀.ext.map (·.sig) := by
  simp only [verifyBlock] at hacc
  have hpay := ((C02.payloads_eq_spec b prev).2.1 hv1).1
  rw [hpay] at hacc
  simp only [Bool.and_eq_true] at hacc
  have hh := hU pk _ _ hp hacc.1
  rw [hs] at hh
  have heq := hB pk _ _ _ hh h0
  obtain ⟨hk, hpl, hel, ha, ha'⟩ := hshape
  have := blockV1_injective_fixed 1 1 b.data b₀.data b.nextKey b₀.nextKey prev prev₀ _ _
    (by decide) (by decide) ha ha' hk hpl (by
      cases h1 : b.ext <;> cases h2 : b₀.ext <;> simp [h1, h2] at hel ⊢
      exact hel) heq
  exact ⟨this.2.1, this.2.2.1, this.2.2.2.1, this.2.2.2.2⟩

/-- the hypotheses are jointly satisfiable: in the toy scheme (whose signatures contain the
    message) "verifies" is an honest-signature predicate that is unforgeable and binding, and
    something is signed -/
example : Unforgeable C02.toyScheme (fun _ => True) (fun pk m s => C02.toyScheme.verify pk m s = true) ∧
    SigBinds (fun pk m s => C02.toyScheme.verify pk m s = true) ∧
    C02.toyScheme.verify ⟨0, [2]⟩ [5, 6] [1, 5, 6] = true := by
  refine ⟨fun _ _ _ _ h => h, ?_, by decide⟩
  intro pk m m' s h h'
  simp only [C02.toyScheme, beq_iff_eq] at h h'
  rw [h] at h'
  exact List.append_cancel_left h'

end Biscuit.C01
