/-
  C01 — forged, tampered, spliced or truncated tokens never verify.

  Cryptographic strength is a hypothesis, never a theorem here: `Unforgeable` says that a
  signature that verifies under a protected key was produced by an honest party, over
  exactly that message.  What is proved is that verification *uses* that strength for every
  field: each check the verifier makes is over a payload that binds the block's bytes, next
  key (with its algorithm), signature version, previous signature and external signature,
  under the key the chain designates.
-/
import BiscuitModel.Props.C08
namespace Biscuit.C01
open Biscuit Biscuit.C02

/-! ## what verification checks, declaratively -/

/-- the chain of blocks after the authority block: each block is signed by the next key of the
    one before it, over its payload, which (version 1) contains the *actual* previous signature;
    an external signature is checked over the block's bytes and that same previous signature -/
inductive Chain (S : Scheme) : PubKey → Bytes → SBlock → List SBlock → SBlock → Prop
  | nil {pk : PubKey} {sig : Bytes} {a : SBlock} : Chain S pk sig a [] a
  | cons {pk : PubKey} {sig : Bytes} {a b l : SBlock} {rest : List SBlock} {p : Bytes} :
      blockPayload b sig = some p → S.verify pk p b.sig = true →
      (∀ e, b.ext = some e → S.verify e.key (externalPayload b sig) e.sig = true) →
      Chain S b.nextKey b.sig b rest l → Chain S pk sig a (b :: rest) l

theorem verifyChain_iff (S : Scheme) :
    ∀ (bs : List SBlock) (pk : PubKey) (sig : Bytes) (a l : SBlock),
      verifyChain S pk sig a bs = some l ↔ Chain S pk sig a bs l := by
  intro bs
  induction bs with
  | nil =>
    intro pk sig a l
    constructor
    · intro h; simp [verifyChain] at h; subst h; exact Chain.nil
    · intro h; cases h; rfl
  | cons b rest ih =>
    intro pk sig a l
    simp only [verifyChain]
    constructor
    · intro h
      split at h
      · rename_i hb
        simp only [verifyBlock] at hb
        cases hp : blockPayload b sig with
        | none => rw [hp] at hb; cases hb
        | some p =>
          rw [hp] at hb
          simp only [Bool.and_eq_true] at hb
          refine Chain.cons hp hb.1 ?_ ((ih _ _ _ _).mp h)
          intro e he
          have := hb.2
          rw [he] at this
          exact this
      · cases h
    · intro h
      cases h with
      | cons hp hv he hc =>
        have hb : verifyBlock S pk sig b = true := by
          simp only [verifyBlock, hp, hv, Bool.true_and]
          cases hext : b.ext with
          | none => rfl
          | some e => exact he e hext
        rw [if_pos hb]
        exact (ih _ _ _ _).mpr hc

/-- **A token is accepted under a root key exactly when**: the authority block carries no
    external signature and every third-party block declares signature version 1; the authority
    signature verifies under the root key over the authority payload; the blocks form a chain
    from the authority's next key; and the proof is either the secret of the last next key or a
    seal signature by the last next key over the last block, its next key and its signature. -/
theorem verify_iff_chain (S : Scheme) (root : PubKey) (c : Container) :
    verifyToken S root c = true ↔
      wellFormed c = true ∧
      (∃ p, authorityPayload c.authority = some p ∧ S.verify root p c.authority.sig = true) ∧
      ∃ l, Chain S c.authority.nextKey c.authority.sig c.authority c.blocks l ∧ verifyProof S l c.proof = true := by
  simp only [verifyToken, Bool.and_eq_true, verifyAuthority]
  constructor
  · rintro ⟨⟨hwf, hauth⟩, hrest⟩
    refine ⟨hwf, ?_, ?_⟩
    · cases hp : authorityPayload c.authority with
      | none => rw [hp] at hauth; cases hauth
      | some p => rw [hp] at hauth; exact ⟨p, rfl, hauth⟩
    · cases hch : verifyChain S c.authority.nextKey c.authority.sig c.authority c.blocks with
      | none => rw [hch] at hrest; cases hrest
      | some l => rw [hch] at hrest; exact ⟨l, (verifyChain_iff S _ _ _ _ _).mp hch, hrest⟩
  · rintro ⟨hwf, ⟨p, hp, hv⟩, l, hch, hpr⟩
    refine ⟨⟨hwf, by rw [hp]; exact hv⟩, ?_⟩
    rw [(verifyChain_iff S _ _ _ _ _).mpr hch]
    exact hpr

/-! ## unforgeability: what an accepted token must consist of -/

/-- signatures that verify under a protected key are ones honest parties produced, for that key
    and that exact message (strong unforgeability; for ed25519 with strict verification) -/
def Unforgeable (S : Scheme) (protectedKey : PubKey → Prop) (honest : PubKey → Bytes → Bytes → Prop) : Prop :=
  ∀ pk m s, protectedKey pk → S.verify pk m s = true → honest pk m s

/-- **Under any other root key the token is refused**: if no honest party ever signed with a
    protected key `root'`, nothing verifies under it. -/
theorem wrong_root_rejected (S : Scheme) (prot : PubKey → Prop) (honest : PubKey → Bytes → Bytes → Prop)
    (hU : Unforgeable S prot honest) (root' : PubKey) (hp : prot root') (hnone : ∀ m s, ¬ honest root' m s)
    (c : Container) : verifyToken S root' c = false := by
  cases hv : verifyToken S root' c with
  | false => rfl
  | true =>
    obtain ⟨_, ⟨p, _, hs⟩, _⟩ := (verify_iff_chain S root' c).mp hv
    exact absurd (hU root' p _ hp hs) (hnone p _)

/-- the authority block of an accepted token was signed, exactly as presented, by the holder of
    the root key -/
theorem accepted_authority_is_honest (S : Scheme) (prot : PubKey → Prop) (honest : PubKey → Bytes → Bytes → Prop)
    (hU : Unforgeable S prot honest) (root : PubKey) (hp : prot root) (c : Container)
    (hv : verifyToken S root c = true) :
    ∃ p, authorityPayload c.authority = some p ∧ honest root p c.authority.sig := by
  obtain ⟨_, ⟨p, hpay, hs⟩, _⟩ := (verify_iff_chain S root c).mp hv
  exact ⟨p, hpay, hU root p _ hp hs⟩

/-- every block of an accepted token that follows a protected key was signed, exactly as
    presented — bytes, next key, version, previous signature, external signature — by the holder
    of that key; and its external signature by the holder of the stated external key -/
theorem accepted_blocks_are_honest (S : Scheme) (prot : PubKey → Prop) (honest : PubKey → Bytes → Bytes → Prop)
    (hU : Unforgeable S prot honest) :
    ∀ (bs : List SBlock) (pk : PubKey) (sig : Bytes) (a l : SBlock), Chain S pk sig a bs l →
      ∀ (i : Nat) (h : i < bs.length),
        let signer := if i = 0 then pk else (bs[i - 1]'(by omega)).nextKey
        let prev := if i = 0 then sig else (bs[i - 1]'(by omega)).sig
        (prot signer → ∃ p, blockPayload bs[i] prev = some p ∧ honest signer p bs[i].sig) ∧
        (∀ e, bs[i].ext = some e → prot e.key → honest e.key (externalPayload bs[i] prev) e.sig) := by
  intro bs pk sig a l hch
  induction hch with
  | nil => intro i h; simp at h
  | @cons pk sig a b l rest p hp hv he _ ih =>
    intro i h
    cases i with
    | zero =>
      simp only [List.getElem_cons_zero, if_true]
      exact ⟨fun hpr => ⟨p, hp, hU pk p _ hpr hv⟩, fun e hext hpe => hU e.key _ _ hpe (he e hext)⟩
    | succ j =>
      have := ih j (by simpa using h)
      simp only [List.getElem_cons_succ, Nat.add_one_ne_zero, if_false, Nat.add_sub_cancel] at this ⊢
      cases j with
      | zero => simpa using this
      | succ k => simpa using this

/-- **A forged or altered seal is refused**: the final signature of an accepted sealed token was
    made by the holder of the last next key over the last block, its next key and its signature. -/
theorem accepted_seal_is_honest (S : Scheme) (prot : PubKey → Prop) (honest : PubKey → Bytes → Bytes → Prop)
    (hU : Unforgeable S prot honest) (root : PubKey) (c : Container) (s : Bytes) (hs : c.proof = .sealed s)
    (hp : prot c.lastBlock.nextKey) (hv : verifyToken S root c = true) :
    honest c.lastBlock.nextKey (Spec.sealed c.lastBlock.data c.lastBlock.nextKey c.lastBlock.sig) s :=
  hU _ _ _ hp (C08.seal_binds_last_block S root c s hs hv)

/-- a token whose proof is a secret is accepted only if that secret is the secret of the last
    next key: dropping trailing blocks needs the secret of an earlier next key -/
theorem truncation_needs_earlier_secret (S : Scheme) (root : PubKey) (c : Container) (sk : Bytes)
    (hs : c.proof = .secret sk) (hv : verifyToken S root c = true) :
    S.pub c.lastBlock.nextKey.alg sk = some c.lastBlock.nextKey := by
  simp only [verifyToken, Bool.and_eq_true] at hv
  obtain ⟨_, hrest⟩ := hv
  cases hch : verifyChain S c.authority.nextKey c.authority.sig c.authority c.blocks with
  | none => rw [hch] at hrest; cases hrest
  | some l =>
    rw [hch, hs] at hrest
    have hl : l = c.lastBlock := lastBlock_of_chain S _ _ _ _ _ hch
    subst hl
    simp only [verifyProof] at hrest
    cases hpub : S.pub c.lastBlock.nextKey.alg sk with
    | none => rw [hpub] at hrest; cases hrest
    | some pk => rw [hpub] at hrest; simp at hrest; rw [hrest]

/-! ## the payloads bind every field (equal lengths of the variable-length fields; the general
    case over well-formed key and signature lengths is listed as an open obligation) -/

theorem le32_injective (a b : Nat) (ha : a < 4294967296) (hb : b < 4294967296) (h : Gen.le32 a = Gen.le32 b) : a = b := by
  simp only [Gen.le32, List.cons.injEq, and_true] at h
  obtain ⟨a0, a1, a2, a3⟩ := h
  have e0 := congrArg UInt8.toNat a0
  have e1 := congrArg UInt8.toNat a1
  have e2 := congrArg UInt8.toNat a2
  have e3 := congrArg UInt8.toNat a3
  simp only [UInt8.toNat_ofNat'] at e0 e1 e2 e3
  omega

/-- version-1 block payload: equal bytes ⇒ equal version, block bytes, algorithm, next key,
    previous signature and external signature -/
theorem blockV1_injective (v v' : Nat) (d d' : Bytes) (k k' : PubKey) (p p' : Bytes) (e e' : Option Bytes)
    (hv : v < 4294967296) (hv' : v' < 4294967296) (ha : k.alg < 4294967296) (ha' : k'.alg < 4294967296)
    (hd : d.length = d'.length) (hk : k.bytes.length = k'.bytes.length) (hp : p.length = p'.length)
    (h : Spec.blockV1 v d k p e = Spec.blockV1 v' d' k' p' e') :
    v = v' ∧ d = d' ∧ k = k' ∧ p = p' ∧ e = e' := by
  simp only [Spec.blockV1, List.append_assoc] at h
  have h1 := List.append_inj h rfl
  have h2 := List.append_inj h1.2 (by simp [Gen.le32])
  have h3 := List.append_inj h2.2 rfl
  have h4 := List.append_inj h3.2 hd
  have h5 := List.append_inj h4.2 rfl
  have h6 := List.append_inj h5.2 (by simp [Gen.le32])
  have h7 := List.append_inj h6.2 rfl
  have h8 := List.append_inj h7.2 hk
  have h9 := List.append_inj h8.2 rfl
  have h10 := List.append_inj h9.2 hp
  refine ⟨le32_injective v v' hv hv' h2.1, h4.1, ?_, h10.1, ?_⟩
  · have := le32_injective _ _ ha ha' h6.1
    cases k; cases k'; simp_all
  · have := h10.2
    cases e <;> cases e' <;> simp [Spec.tagExternalSig] at this ⊢
    exact this

/-- version-0 block payload (no external signature) -/
theorem blockV0_injective (d d' : Bytes) (k k' : PubKey) (ha : k.alg < 4294967296) (ha' : k'.alg < 4294967296)
    (hd : d.length = d'.length) (h : Spec.blockV0 d none k = Spec.blockV0 d' none k') : d = d' ∧ k = k' := by
  simp only [Spec.blockV0, Option.getD_none, List.append_nil, List.append_assoc] at h
  have h1 := List.append_inj h hd
  have h2 := List.append_inj h1.2 (by simp [Gen.le32])
  refine ⟨h1.1, ?_⟩
  have := le32_injective _ _ ha ha' h2.1
  cases k; cases k'; simp_all

/-- a version-0 payload is never a version-1 payload: the scheme cannot be downgraded by
    presenting the same signature under the other version (first byte of the tag is 0; a block's
    protobuf encoding never starts with 0) -/
theorem v1_payload_starts_with_tag (v : Nat) (d : Bytes) (k : PubKey) (p : Bytes) (e : Option Bytes) :
    (Spec.blockV1 v d k p e).head? = some 0 := by
  simp [Spec.blockV1, Spec.tagBlockVersion]

end Biscuit.C01
