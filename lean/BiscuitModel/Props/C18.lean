/-
  C18 — compile-time Datalog macros equal runtime parsing.

  Both paths start from the same parsed item (the macros run the parser of `biscuit-parser` at
  compile time and emit code that rebuilds exactly that item; the runtime path runs the same
  parser at run time). They differ in how the parameters are bound:
    * run time (`code_with_params`, or `set` in a loop): EVERY supplied (name, value) is offered
      to EVERY item with the strict setter, an "unknown parameter" answer being ignored;
    * macros: each item is given, with the lenient setter `set_macro_param`, only the
      parameters it declares — in the iteration order of a hash set.
  Proved on the model of C20:
    * `set_state_eq_setLenient_state` : the two setters differ in their answer, never in the state;
    * `runtime_bind_eq_macro_bind` : offering every binding strictly and offering only the
      declared ones leniently leave the item in the same state;
    * `substTerm_congr`, `apply_congr` : the substituted item depends on the bindings only
      through the value each name has;
    * `bind_order_irrelevant` : when every name is bound once, any two orders of binding give the
      same value to every name — the hash-map / hash-set iteration orders of the two paths
      cannot make them differ.
  The rest of the property — that the code emitted by `quote!` rebuilds the parsed item, and the
  conversions of Rust values to terms — is covered by the stream `macros` (a generated crate).
-/
import BiscuitModel.Props.C20
set_option linter.unusedSimpArgs false
set_option linter.unusedVariables false
namespace Biscuit.Params
open Biscuit.Printer

theorem set_state_eq_setLenient_state (it : Item) (n : String) (v : STerm) :
    (it.set n v).1 = (it.setLenient n v).1 := by
  unfold Item.set Item.setLenient
  split <;> rfl

theorem setScope_state_eq_lenient_state (it : Item) (n k : String) :
    (it.setScope n k).1 = (it.setScopeLenient n k).1 := by
  unfold Item.setScope Item.setScopeLenient
  split <;> rfl

theorem set_rule (it : Item) (n : String) (v : STerm) : (it.set n v).1.rule = it.rule := by
  unfold Item.set; split <;> rfl

/-- run time: every binding is offered with the strict setter, the answer is dropped -/
def bindRuntime (σ : Env) (it : Item) : Item := σ.foldl (fun it b => (it.set b.1 b.2).1) it

/-- macros: only the parameters the item declares, with the lenient setter -/
def bindMacro (σ : Env) (it : Item) : Item :=
  (σ.filter fun b => (declaredRule it.rule).contains b.1).foldl (fun it b => (it.setLenient b.1 b.2).1) it

theorem bindRuntime_rule (σ : Env) (it : Item) : (bindRuntime σ it).rule = it.rule := by
  induction σ generalizing it with
  | nil => rfl
  | cons b bs ih => simp only [bindRuntime, List.foldl_cons] at *; rw [ih, set_rule]

theorem foldl_lenient_congr (bs : Env) (it : Item) (r : SRule) (h : it.rule = r) :
    (bs.filter fun b => (declaredRule r).contains b.1).foldl (fun it b => (it.setLenient b.1 b.2).1) it
      = bs.foldl (fun it b => (it.set b.1 b.2).1) it := by
  induction bs generalizing it with
  | nil => rfl
  | cons b bs ih =>
    by_cases hc : (declaredRule r).contains b.1 = true
    · simp only [List.filter_cons, hc, ↓reduceIte, List.foldl_cons]
      rw [← set_state_eq_setLenient_state]
      exact ih _ (by rw [set_rule, h])
    · simp only [List.filter_cons, hc, Bool.false_eq_true, ↓reduceIte, List.foldl_cons]
      have hno : (it.set b.1 b.2).1 = it := by
        unfold Item.set
        rw [h, if_neg hc]
      rw [hno]
      exact ih it h

/-- C18: the two ways of binding leave the item in the same state -/
theorem runtime_bind_eq_macro_bind (σ : Env) (it : Item) : bindMacro σ it = bindRuntime σ it := by
  unfold bindMacro bindRuntime
  exact foldl_lenient_congr σ it it.rule rfl

/-! ## the result depends only on the value of each name -/

theorem substKey_congr (σ σ' : Env) (h : ∀ n, lookup σ n = lookup σ' n) (k : SKey) : substKey σ k = substKey σ' k := by
  cases k <;> simp [substKey, h]

mutual
theorem substTerm_congr (σ σ' : Env) (h : ∀ n, lookup σ n = lookup σ' n) : (t : STerm) → substTerm σ t = substTerm σ' t
  | .param n => by simp [substTerm, h]
  | .var _ => by simp [substTerm]
  | .int _ => by simp [substTerm]
  | .str _ => by simp [substTerm]
  | .date _ => by simp [substTerm]
  | .bytes _ => by simp [substTerm]
  | .bool _ => by simp [substTerm]
  | .null => by simp [substTerm]
  | .set xs => by simp [substTerm, substTerms_congr σ σ' h xs]
  | .arr xs => by simp [substTerm, substTerms_congr σ σ' h xs]
  | .map kvs => by simp [substTerm, substKVs_congr σ σ' h kvs]
theorem substTerms_congr (σ σ' : Env) (h : ∀ n, lookup σ n = lookup σ' n) : (ts : List STerm) → substTerms σ ts = substTerms σ' ts
  | [] => by simp [substTerms]
  | t :: ts => by simp [substTerms, substTerm_congr σ σ' h t, substTerms_congr σ σ' h ts]
theorem substKVs_congr (σ σ' : Env) (h : ∀ n, lookup σ n = lookup σ' n) :
    (kvs : List (SKey × STerm)) → substKVs σ kvs = substKVs σ' kvs
  | [] => by simp [substKVs]
  | (k, t) :: kvs => by
    simp [substKVs, substKey_congr σ σ' h k, substTerm_congr σ σ' h t, substKVs_congr σ σ' h kvs]
end

mutual
theorem substOp_congr (σ σ' : Env) (h : ∀ n, lookup σ n = lookup σ' n) : (op : POp) → substOp σ op = substOp σ' op
  | .val t => by simp [substOp, substTerm_congr σ σ' h t]
  | .clo ps body => by simp [substOp, substOps_congr σ σ' h body]
  | .un _ => by simp [substOp]
  | .bin _ => by simp [substOp]
theorem substOps_congr (σ σ' : Env) (h : ∀ n, lookup σ n = lookup σ' n) : (ops : List POp) → substOps σ ops = substOps σ' ops
  | [] => by simp [substOps]
  | op :: k => by simp [substOps, substOp_congr σ σ' h op, substOps_congr σ σ' h k]
end

theorem substRule_congr (σ σ' : Env) (κ : KeyEnv) (h : ∀ n, lookup σ n = lookup σ' n) (r : SRule) :
    substRule σ κ r = substRule σ' κ r := by
  have hp : ∀ p, substPred σ p = substPred σ' p := fun p => by simp [substPred, substTerms_congr σ σ' h]
  simp only [substRule, hp]
  congr 1
  · exact List.map_congr_left (fun p _ => hp p)
  · exact List.map_congr_left (fun ops _ => substOps_congr σ σ' h ops)

/-! ## order of binding -/

/-- the value a name ends up with after offering the bindings in order: the last one offered -/
theorem lookup_bindRuntime (σ : Env) (it : Item) (n : String) :
    lookup (bindRuntime σ it).env n =
      if (declaredRule it.rule).contains n then
        (match lookup σ.reverse n with | some v => some v | none => lookup it.env n)
      else lookup it.env n := by
  induction σ generalizing it with
  | nil => simp [bindRuntime, lookup]
  | cons b bs ih =>
    simp only [bindRuntime, List.foldl_cons] at *
    rw [ih, set_rule]
    have hrev : ∀ m, lookup (bs.reverse ++ [b]) m = (match lookup bs.reverse m with | some v => some v | none => if b.1 = m then some b.2 else none) := by
      intro m
      induction bs.reverse with
      | nil => simp [lookup]
      | cons c cs ihc =>
        obtain ⟨c1, c2⟩ := c
        simp only [List.cons_append, lookup]
        by_cases hcm : c1 = m <;> simp [hcm, ihc]
    simp only [List.reverse_cons, hrev]
    by_cases hd : (declaredRule it.rule).contains n = true
    · simp only [hd, ↓reduceIte]
      cases hl : lookup bs.reverse n with
      | some v => rfl
      | none =>
        simp only
        unfold Item.set
        by_cases hb : (declaredRule it.rule).contains b.1 = true
        · simp only [hb, ↓reduceIte, lookup]
          by_cases hbn : b.1 = n <;> simp [hbn]
        · simp only [hb, Bool.false_eq_true, ↓reduceIte]
          by_cases hbn : b.1 = n
          · rw [hbn] at hb; exact absurd hd hb
          · simp [hbn]
    · simp only [hd, Bool.false_eq_true, ↓reduceIte]
      unfold Item.set
      by_cases hb : (declaredRule it.rule).contains b.1 = true
      · simp only [hb, ↓reduceIte, lookup]
        by_cases hbn : b.1 = n
        · rw [hbn] at hb; exact absurd hb hd
        · simp [hbn]
      · rw [if_neg hb]

/-- with every name bound at most once, `lookup` does not depend on the order of the list -/
theorem lookup_perm (σ σ' : Env) (hp : σ.Perm σ') (hnd : (σ.map Prod.fst).Nodup) (n : String) :
    lookup σ n = lookup σ' n := by
  induction hp with
  | nil => rfl
  | cons x _ ih =>
    simp only [List.map_cons, List.nodup_cons] at hnd
    obtain ⟨x1, x2⟩ := x
    simp only [lookup]
    by_cases hx : x1 = n
    · simp [hx]
    · simp [hx, ih hnd.2]
  | swap x y l =>
    obtain ⟨x1, x2⟩ := x
    obtain ⟨y1, y2⟩ := y
    simp only [List.map_cons, List.nodup_cons, List.mem_cons, not_or] at hnd
    simp only [lookup]
    by_cases hx : x1 = n <;> by_cases hy : y1 = n <;> simp [hx, hy]
    -- both equal to n contradicts distinctness
    exact absurd (hy.trans hx.symm) hnd.1.1
  | trans h1 h2 ih1 ih2 =>
    rw [ih1 hnd]
    exact ih2 ((h1.map Prod.fst).nodup_iff.mp hnd)

/-- C18: the iteration order of the parameter map (run time) or set (macros) is irrelevant
    when every name is bound once: any two orders give every name the same value, hence the
    same substituted item -/
theorem bind_order_irrelevant (σ σ' : Env) (it : Item) (hp : σ.Perm σ') (hnd : (σ.map Prod.fst).Nodup) :
    (bindRuntime σ it).apply = (bindRuntime σ' it).apply := by
  unfold Item.apply
  rw [bindRuntime_rule, bindRuntime_rule]
  have hk : (bindRuntime σ it).keys = (bindRuntime σ' it).keys := by
    have : ∀ (τ : Env) (i : Item), (bindRuntime τ i).keys = i.keys := by
      intro τ
      induction τ with
      | nil => intro i; rfl
      | cons b bs ih =>
        intro i
        simp only [bindRuntime, List.foldl_cons] at *
        rw [ih]
        unfold Item.set; split <;> rfl
    rw [this, this]
  rw [hk]
  apply substRule_congr
  intro n
  rw [lookup_bindRuntime, lookup_bindRuntime]
  have hrev : lookup σ.reverse n = lookup σ'.reverse n :=
    lookup_perm _ _ ((List.reverse_perm σ).trans (hp.trans (List.reverse_perm σ').symm))
      (by rw [List.map_reverse]; exact ((List.reverse_perm _).nodup_iff).mpr hnd) n
  rw [hrev]

/-! non-vacuity: a rule with two parameters, bound in both orders -/
example :
    let r : SRule := { head := ⟨"h", [.param "a"]⟩, body := [⟨"f", [.arr [.param "b"], .param "a"]⟩], exprs := [], scopes := [] }
    let it : Item := { rule := r }
    printRule (bindRuntime [("a", .int 1), ("b", .str "x"), ("zz", .null)] it).apply = "h(1) <- f([\"x\"], 1)"
      ∧ (bindMacro [("b", .str "x"), ("zz", .null), ("a", .int 1)] it).missing = [] := by
  decide

end Biscuit.Params
