/-
  C08 — sealed tokens are final.
-/
import BiscuitModel.Props.C02
namespace Biscuit.C08
open Biscuit Biscuit.C02

/-- `ThirdPartyRequest::from_container`: refused on a sealed token; otherwise carries the
    signature of the last block -/
def thirdPartyRequest (c : Container) : Option Bytes :=
  if c.isSealed then none else some c.lastBlock.sig

/-- **Every operation on a sealed token is refused**: append (first- or third-party), re-seal,
    third-party request — whatever their arguments. -/
theorem sealed_is_final (S : Scheme) (c : Container) (h : c.isSealed = true) :
    (∀ op, applyOp S c op = none) ∧ thirdPartyRequest c = none := by
  have hp : ∃ s, c.proof = .sealed s := by
    cases hc : c.proof with
    | sealed s => exact ⟨s, rfl⟩
    | secret sk => simp [Container.isSealed, hc] at h
  obtain ⟨s, hs⟩ := hp
  refine ⟨?_, by simp [thirdPartyRequest, h]⟩
  intro op
  cases op with
  | append a sk d e dv => simp [applyOp, appendBlock, hs]
  | sealOp => simp [applyOp, sealToken, hs]

/-- no history of operations gets past a sealed token -/
theorem sealed_history_refused (S : Scheme) (c : Container) (h : c.isSealed = true) (op : TokOp) (rest : List TokOp) :
    runOps S c (op :: rest) = none := by
  simp [runOps, (sealed_is_final S c h).1 op]

/-- sealing produces a sealed token -/
theorem seal_is_sealed (S : Scheme) (c c' : Container) (h : sealToken S c = some c') : c'.isSealed = true := by
  unfold sealToken at h
  split at h
  · cases h
  · injection h with h; subst h; rfl

/-- **Sealing keeps the blocks** — and with them everything the authorizer reads (C04's
    `authorize` is a function of the blocks only), the revocation identifiers, the external keys
    and the root key id. -/
theorem seal_preserves (S : Scheme) (c c' : Container) (h : sealToken S c = some c') :
    c'.authority = c.authority ∧ c'.blocks = c.blocks ∧ c'.rootKeyId = c.rootKeyId ∧
    c'.revocationIds = c.revocationIds ∧ c'.externalKeys = c.externalKeys := by
  unfold sealToken at h
  split at h
  · cases h
  · injection h with h; subst h
    exact ⟨rfl, rfl, rfl, rfl, rfl⟩

/-- the sealed token verifies under the same root key (needs only correctness of the scheme) -/
theorem seal_verifies (S : Scheme) (hS : Correct S) (root : PubKey) (c c' : Container)
    (hv : verifyToken S root c = true) (h : sealToken S c = some c') : verifyToken S root c' = true :=
  C02.seal_verifies S hS root c c' hv h

/-- **The seal binds the last block**: a sealed token verifies only if its final signature is a
    signature, by the last next key, over the last block's bytes, next key *and signature*. -/
theorem seal_binds_last_block (S : Scheme) (root : PubKey) (c : Container) (s : Bytes)
    (hs : c.proof = .sealed s) (hv : verifyToken S root c = true) :
    S.verify c.lastBlock.nextKey (Spec.sealed c.lastBlock.data c.lastBlock.nextKey c.lastBlock.sig) s = true := by
  simp only [verifyToken, Bool.and_eq_true] at hv
  obtain ⟨_, hrest⟩ := hv
  cases hch : verifyChain S c.authority.nextKey c.authority.sig c.authority c.blocks with
  | none => rw [hch] at hrest; cases hrest
  | some l =>
    rw [hch, hs] at hrest
    have hl : l = c.lastBlock := lastBlock_of_chain S _ _ _ _ _ hch
    subst hl
    simpa [verifyProof, (payloads_eq_spec _ []).2.2.2] using hrest

/-- the seal payload determines its components (for components of equal lengths — the key
    and signature lengths are fixed by the algorithms) -/
theorem seal_payload_injective (d d' : Bytes) (k k' : PubKey) (s s' : Bytes)
    (hd : d.length = d'.length) (hk : k.bytes.length = k'.bytes.length) (ha : k.alg < 4294967296) (ha' : k'.alg < 4294967296)
    (h : Spec.sealed d k s = Spec.sealed d' k' s') : d = d' ∧ k = k' ∧ s = s' := by
  simp only [Spec.sealed, List.append_assoc] at h
  have h1 := List.append_inj h hd
  have h2 := List.append_inj h1.2 (by simp [Gen.le32])
  have h3 := List.append_inj h2.2 hk
  refine ⟨h1.1, ?_, h3.2⟩
  have halg : k.alg = k'.alg := by
    have := h2.1
    simp only [Gen.le32, List.cons.injEq, and_true] at this
    obtain ⟨a0, a1, a2, a3⟩ := this
    have e0 := congrArg UInt8.toNat a0
    have e1 := congrArg UInt8.toNat a1
    have e2 := congrArg UInt8.toNat a2
    have e3 := congrArg UInt8.toNat a3
    simp only [UInt8.toNat_ofNat'] at e0 e1 e2 e3
    omega
  cases k; cases k'
  simp_all

end Biscuit.C08
