/-
  C02 / C12 — what the reader returns is a normal form.

  `reader_normal_form`: if `proto_block_to_token_block` (its model) returns a block for a
  message, then writing that block and reading it again returns the same block: nothing the
  reader accepts changes under further serialization round trips, whatever the message looked
  like (sets with repeated elements, maps with repeated keys, `Some(0)` check kinds, any order).
-/
import BiscuitModel.Props.C02Convert
set_option linter.unusedSimpArgs false
set_option linter.unusedVariables false
namespace Biscuit.Convert
open Biscuit

/-! ## freshness as a pairwise property -/

theorem freshFrom_iff : ∀ (xs acc : List Term),
    freshFrom acc xs = true ↔ (∀ x ∈ xs, ∀ a ∈ acc, Term.beq x a = false) ∧ freshFrom [] xs = true := by
  intro xs
  induction xs with
  | nil => intro acc; simp [freshFrom]
  | cons x xs ih =>
    intro acc
    simp only [freshFrom, Bool.and_eq_true, Bool.not_eq_true', List.any_eq_false, List.mem_cons, forall_eq_or_imp,
      List.nil_append, List.not_mem_nil, false_imp_iff, implies_true, true_and]
    rw [ih (acc ++ [x]), ih [x]]
    simp only [List.mem_append, List.mem_cons, List.not_mem_nil, or_false]
    constructor
    · rintro ⟨h1, h2, h3⟩
      refine ⟨⟨fun a ha => by simpa using h1 a ha, fun y hy a ha => h2 y hy a (.inl ha)⟩, fun y hy a ha => ?_, h3⟩
      rw [ha]
      exact h2 y hy x (.inr rfl)
    · rintro ⟨⟨h1, h2⟩, h3, h4⟩
      refine ⟨fun a ha => by simpa using h1 a ha, fun y hy a ha => ?_, h4⟩
      rcases ha with ha | ha
      · exact h2 y hy a ha
      · rw [ha]; exact h3 y hy x rfl

theorem Term.beq_comm (a b : Term) : Term.beq a b = Term.beq b a := by
  cases h : Term.beq a b with
  | true => have := Term.beq_eq a b h; subst this; exact h.symm ▸ rfl
  | false =>
    cases h' : Term.beq b a with
    | false => rfl
    | true => have := Term.beq_eq b a h'; subst this; rw [h] at h'; exact h'

/-- appending an element that is not there keeps a list duplicate-free -/
theorem fresh_snoc (acc : List Term) (t : Term) (h : freshFrom [] acc = true) (ht : acc.any (Term.beq t) = false) :
    freshFrom [] (acc ++ [t]) = true := by
  induction acc with
  | nil => simp [freshFrom]
  | cons a acc ih =>
    simp only [freshFrom, List.any_nil, Bool.not_false, Bool.true_and, List.nil_append] at h
    rw [freshFrom_iff] at h
    simp only [List.any_cons, Bool.or_eq_false_iff] at ht
    simp only [List.cons_append, freshFrom, List.any_nil, Bool.not_false, Bool.true_and, List.nil_append]
    rw [freshFrom_iff]
    refine ⟨?_, ih h.2 ht.2⟩
    intro x hx b hb
    simp only [List.mem_cons, List.not_mem_nil, or_false] at hb
    subst hb
    rcases List.mem_append.mp hx with hx | hx
    · exact h.1 x hx b (by simp)
    · simp only [List.mem_cons, List.not_mem_nil, or_false] at hx
      subst hx
      exact ht.1

theorem setInsert_fresh (acc : List Term) (t : Term) (h : freshFrom [] acc = true) : freshFrom [] (setInsert acc t) = true := by
  unfold setInsert
  split
  · exact h
  · rename_i hn
    exact fresh_snoc acc t h (by simpa using hn)

/-! ## what `proto_id_to_token_term` returns -/

theorem kind_of_setIndex (p : PTerm) (n : Nat) (h : setIndex p = .ok n) :
    ∃ k, p.kind? = some k ∧ k ≠ .var ∧ k ≠ .set ∧ n = kindIdx k := by
  have ok : ∀ (k : TermK), k ≠ .var → k ≠ .set → setIndex p = .ok (kindIdx k) → p.kind? = some k →
      ∃ k, p.kind? = some k ∧ k ≠ .var ∧ k ≠ .set ∧ n = kindIdx k := by
    intro k h1 h2 e hk
    rw [e] at h
    exact ⟨k, hk, h1, h2, (Except.ok.inj h).symm⟩
  cases p with
  | empty => exact absurd h (by simp [setIndex, PTerm.kind?])
  | «variable» v => exact absurd h (by simp [setIndex, PTerm.kind?])
  | set xs => exact absurd h (by simp [setIndex, PTerm.kind?])
  | integer i => exact ok .int (by decide) (by decide) rfl rfl
  | string i => exact ok .str (by decide) (by decide) rfl rfl
  | date i => exact ok .date (by decide) (by decide) rfl rfl
  | bytes i => exact ok .bytes (by decide) (by decide) rfl rfl
  | bool i => exact ok .bool (by decide) (by decide) rfl rfl
  | null => exact ok .null (by decide) (by decide) rfl rfl
  | array i => exact ok .arr (by decide) (by decide) rfl rfl
  | map i => exact ok .map (by decide) (by decide) rfl rfl

theorem kindIdx_inj (a b : TermK) (ha : a ≠ .var) (ha' : a ≠ .set) (hb : b ≠ .var) (hb' : b ≠ .set) (h : kindIdx a = kindIdx b) : a = b := by
  cases a <;> cases b <;> first | rfl | (exact absurd rfl ha) | (exact absurd rfl ha') | (exact absurd rfl hb) | (exact absurd rfl hb') | (exact absurd h (by decide))

mutual
theorem decoded_kind_term : (p : PTerm) → (t : Term) → protoToTerm p = .ok t → p.kind? = some t.kind
  | .empty, t, h => by simp [protoToTerm] at h
  | .variable v, t, h => by simp only [protoToTerm, Except.ok.injEq] at h; subst h; rfl
  | .integer v, t, h => by simp only [protoToTerm, Except.ok.injEq] at h; subst h; rfl
  | .string v, t, h => by simp only [protoToTerm, Except.ok.injEq] at h; subst h; rfl
  | .date v, t, h => by simp only [protoToTerm, Except.ok.injEq] at h; subst h; rfl
  | .bytes v, t, h => by simp only [protoToTerm, Except.ok.injEq] at h; subst h; rfl
  | .bool v, t, h => by simp only [protoToTerm, Except.ok.injEq] at h; subst h; rfl
  | .null, t, h => by simp only [protoToTerm, Except.ok.injEq] at h; subst h; rfl
  | .set xs, t, h => by
    simp only [protoToTerm] at h
    split at h
    · simp only [Except.ok.injEq] at h; subst h; rfl
    · cases h
  | .array xs, t, h => by
    simp only [protoToTerm] at h
    split at h
    · simp only [Except.ok.injEq] at h; subst h; rfl
    · cases h
  | .map es, t, h => by
    simp only [protoToTerm] at h
    split at h
    · simp only [Except.ok.injEq] at h; subst h; rfl
    · cases h
end

/-- the elements gathered by the set loop: well formed, of the loop's kind, without repetition -/
structure SetInv (k : Option TermK) (acc : List Term) : Prop where
  ok : termsOK acc = true
  elems : ∀ x ∈ acc, setElemOK x = true
  kinds : ∀ x ∈ acc, some x.kind = k
  fresh : freshFrom [] acc = true

theorem termsOK_append (a b : List Term) : termsOK (a ++ b) = (termsOK a && termsOK b) := by
  induction a with
  | nil => simp [termsOK]
  | cons x xs ih => simp only [List.cons_append, termsOK, ih, Bool.and_assoc]

theorem setElemOK_of_kind (t : Term) (h1 : t.kind ≠ .var) (h2 : t.kind ≠ .set) : setElemOK t = true := by
  cases t <;> first | rfl | (exact absurd rfl h1) | (exact absurd rfl h2)

theorem setInsert_mem (acc : List Term) (t x : Term) (h : x ∈ setInsert acc t) : x ∈ acc ∨ x = t := by
  unfold setInsert at h
  split at h
  · exact .inl h
  · rcases List.mem_append.mp h with h | h
    · exact .inl h
    · simp at h; exact .inr h

theorem termsOK_mem (l : List Term) : termsOK l = true ↔ ∀ x ∈ l, termOK x = true := by
  induction l with
  | nil => simp [termsOK]
  | cons x xs ih => simp only [termsOK, Bool.and_eq_true, ih, List.mem_cons, forall_eq_or_imp]

theorem freshKeys_iff : ∀ (kvs acc : List (MapKey × Term)),
    freshKeys acc kvs = true ↔ (∀ kv ∈ kvs, ∀ a ∈ acc, (a.1 == kv.1) = false) ∧ freshKeys [] kvs = true := by
  intro kvs
  induction kvs with
  | nil => intro acc; simp [freshKeys]
  | cons kv kvs ih =>
    intro acc
    obtain ⟨k, t⟩ := kv
    simp only [freshKeys, Bool.and_eq_true, Bool.not_eq_true', List.any_eq_false, List.mem_cons, forall_eq_or_imp,
      List.nil_append, List.not_mem_nil, false_imp_iff, implies_true, true_and]
    rw [ih (acc ++ [(k, t)]), ih [(k, t)]]
    simp only [List.mem_append, List.mem_cons, List.not_mem_nil, or_false]
    constructor
    · rintro ⟨h1, h2, h3⟩
      refine ⟨⟨fun a ha => by simpa using h1 a ha, fun y hy a ha => h2 y hy a (.inl ha)⟩, fun y hy a ha => ?_, h3⟩
      rw [ha]
      exact h2 y hy (k, t) (.inr rfl)
    · rintro ⟨⟨h1, h2⟩, h3, h4⟩
      refine ⟨fun a ha => by simpa using h1 a ha, fun y hy a ha => ?_, h4⟩
      rcases ha with ha | ha
      · exact h2 y hy a ha
      · rw [ha]; exact h3 y hy (k, t) rfl

/-- the entries gathered by the map loop -/
structure MapInv (acc : List (MapKey × Term)) : Prop where
  ok : kvsOK acc = true
  fresh : freshKeys [] acc = true

theorem kvsOK_mem (l : List (MapKey × Term)) : kvsOK l = true ↔ ∀ kv ∈ l, termOK kv.2 = true := by
  induction l with
  | nil => simp [kvsOK]
  | cons x xs ih => obtain ⟨k, t⟩ := x; simp only [kvsOK, Bool.and_eq_true, ih, List.mem_cons, forall_eq_or_imp]

theorem mapInsert_keys (acc : List (MapKey × Term)) (k : MapKey) (t : Term) :
    (mapInsert acc k t).map (·.1) = if acc.any (fun kv => kv.1 == k) then acc.map (·.1) else acc.map (·.1) ++ [k] := by
  induction acc with
  | nil => simp [mapInsert]
  | cons kv r ih =>
    obtain ⟨k', t'⟩ := kv
    simp only [mapInsert]
    by_cases h : k' = k
    · subst h; simp
    · simp only [h, ↓reduceIte, List.map_cons, ih, List.any_cons]
      have : (k' == k) = false := by simpa using h
      simp only [this, Bool.false_or]
      split <;> simp

theorem mapInsert_mem (acc : List (MapKey × Term)) (k : MapKey) (t : Term) (kv : MapKey × Term) (h : kv ∈ mapInsert acc k t) :
    kv ∈ acc ∨ kv = (k, t) ∨ (∃ t', (kv.1, t') ∈ acc ∧ kv.2 = t) := by
  induction acc with
  | nil => simp [mapInsert] at h; exact .inr (.inl h)
  | cons a r ih =>
    obtain ⟨k', t'⟩ := a
    simp only [mapInsert] at h
    split at h
    · rename_i hk
      rcases List.mem_cons.mp h with h | h
      · subst h; exact .inr (.inr ⟨t', by simp, rfl⟩)
      · exact .inl (List.mem_cons_of_mem _ h)
    · rcases List.mem_cons.mp h with h | h
      · subst h; exact .inl List.mem_cons_self
      · rcases ih h with h | h | ⟨t'', h1, h2⟩
        · exact .inl (List.mem_cons_of_mem _ h)
        · exact .inr (.inl h)
        · exact .inr (.inr ⟨t'', List.mem_cons_of_mem _ h1, h2⟩)

/-- keys of an association list are pairwise distinct -/
def keysFresh (l : List MapKey) : Prop := l.Pairwise (· ≠ ·)

theorem freshKeys_keys : ∀ (l : List (MapKey × Term)), freshKeys [] l = true ↔ keysFresh (l.map (·.1)) := by
  intro l
  induction l with
  | nil => simp [freshKeys, keysFresh]
  | cons kv r ih =>
    obtain ⟨k, t⟩ := kv
    simp only [freshKeys, List.any_nil, Bool.not_false, Bool.true_and, List.nil_append, List.map_cons, keysFresh, List.pairwise_cons]
    rw [freshKeys_iff, ih]
    simp only [List.mem_cons, List.not_mem_nil, or_false, forall_eq, List.mem_map, forall_exists_index, and_imp,
      forall_apply_eq_imp_iff₂, keysFresh]
    constructor
    · rintro ⟨h1, h2⟩
      exact ⟨fun a ha => by have := h1 a ha; simpa using this, h2⟩
    · rintro ⟨h1, h2⟩
      exact ⟨fun a ha => by have := h1 a ha; simpa using this, h2⟩

theorem mapInsert_inv (acc : List (MapKey × Term)) (k : MapKey) (t : Term) (h : MapInv acc) (ht : termOK t = true) :
    MapInv (mapInsert acc k t) := by
  refine ⟨?_, ?_⟩
  · rw [kvsOK_mem]
    intro kv hkv
    rcases mapInsert_mem acc k t kv hkv with h1 | h1 | ⟨t', _, h2⟩
    · exact (kvsOK_mem acc).mp h.ok kv h1
    · subst h1; exact ht
    · rw [h2]; exact ht
  · rw [freshKeys_keys, mapInsert_keys]
    have hf := (freshKeys_keys acc).mp h.fresh
    split
    · exact hf
    · rename_i hn
      simp only [keysFresh, List.pairwise_append, List.pairwise_cons, List.not_mem_nil, false_imp_iff, implies_true,
        List.Pairwise.nil, and_self, List.mem_cons, or_false, forall_eq, true_and]
      refine ⟨hf, ?_⟩
      intro a ha
      simp only [List.mem_map] at ha
      obtain ⟨kv, hkv, rfl⟩ := ha
      have hn' : (acc.any fun kv => kv.1 == k) = false := Bool.eq_false_iff.mpr hn
      have := List.any_eq_false.mp hn' kv hkv
      simpa using this

mutual
theorem decoded_term_ok : (p : PTerm) → (t : Term) → protoToTerm p = .ok t → termOK t = true
  | .empty, t, h => by simp [protoToTerm] at h
  | .variable v, t, h => by simp only [protoToTerm, Except.ok.injEq] at h; subst h; rfl
  | .integer v, t, h => by simp only [protoToTerm, Except.ok.injEq] at h; subst h; rfl
  | .string v, t, h => by simp only [protoToTerm, Except.ok.injEq] at h; subst h; rfl
  | .date v, t, h => by simp only [protoToTerm, Except.ok.injEq] at h; subst h; rfl
  | .bytes v, t, h => by simp only [protoToTerm, Except.ok.injEq] at h; subst h; rfl
  | .bool v, t, h => by simp only [protoToTerm, Except.ok.injEq] at h; subst h; rfl
  | .null, t, h => by simp only [protoToTerm, Except.ok.injEq] at h; subst h; rfl
  | .set xs, t, h => by
    simp only [protoToTerm] at h
    split at h
    · rename_i s hs
      simp only [Except.ok.injEq] at h; subst h
      obtain ⟨k, hinv⟩ := decoded_set_inv xs none [] s none hs (.inl ⟨rfl, rfl, rfl⟩) (SetInv.mk rfl (fun _ h => nomatch h) (fun _ h => nomatch h) rfl)
      simp only [termOK, Bool.and_eq_true, List.all_eq_true]
      refine ⟨⟨⟨hinv.ok, hinv.elems⟩, ?_⟩, hinv.fresh⟩
      intro x hx
      cases s with
      | nil => cases hx
      | cons y ys =>
        have h1 := hinv.kinds x hx
        have h2 := hinv.kinds y List.mem_cons_self
        simp only [List.head?_cons, Option.map_some, Option.getD_some, beq_iff_eq]
        rw [← h2] at h1
        exact Option.some.inj h1
    · cases h
  | .array xs, t, h => by
    simp only [protoToTerm] at h
    split at h
    · rename_i a ha
      simp only [Except.ok.injEq] at h; subst h
      simp only [termOK]
      exact decoded_terms_ok xs a ha
    · cases h
  | .map es, t, h => by
    simp only [protoToTerm] at h
    split at h
    · rename_i m hm
      simp only [Except.ok.injEq] at h; subst h
      have := decoded_map_inv es [] m hm (MapInv.mk rfl rfl)
      simp only [termOK, Bool.and_eq_true]
      exact ⟨this.ok, this.fresh⟩
    · cases h
theorem decoded_terms_ok : (ps : List PTerm) → (ts : List Term) → protoToTerms ps = .ok ts → termsOK ts = true
  | [], ts, h => by simp only [protoToTerms, Except.ok.injEq] at h; subst h; rfl
  | p :: ps, ts, h => by
    simp only [protoToTerms] at h
    split at h
    · cases h
    · rename_i t ht
      split at h
      · rename_i ts' hts
        simp only [Except.ok.injEq] at h; subst h
        simp only [termsOK, Bool.and_eq_true]
        exact ⟨decoded_term_ok p t ht, decoded_terms_ok ps ts' hts⟩
      · cases h
theorem decoded_set_inv : (ps : List PTerm) → (kind : Option Nat) → (acc s : List Term) → (k : Option TermK) →
    protoToSet ps kind acc = .ok s →
    ((kind = none ∧ k = none ∧ acc = []) ∨ (∃ kk, k = some kk ∧ kk ≠ .var ∧ kk ≠ .set ∧ kind = some (kindIdx kk))) →
    SetInv k acc → ∃ k', SetInv k' s
  | [], kind, acc, s, k, h, _, hinv => by
    simp only [protoToSet, Except.ok.injEq] at h; subst h; exact ⟨k, hinv⟩
  | p :: ps, kind, acc, s, k, h, hk, hinv => by
    simp only [protoToSet] at h
    split at h
    · cases h
    · rename_i idx hidx
      split at h
      · cases h
      · rename_i hmix
        split at h
        · cases h
        · rename_i t ht
          obtain ⟨pk, hpk, hnv, hns, hidx'⟩ := kind_of_setIndex p idx hidx
          have htk := decoded_kind_term p t ht
          rw [hpk] at htk
          have htk' : t.kind = pk := (Option.some.inj htk).symm
          have hacc' : SetInv (some pk) (setInsert acc t) := by
            refine ⟨?_, ?_, ?_, setInsert_fresh acc t hinv.fresh⟩
            · rw [termsOK_mem]
              intro x hx
              rcases setInsert_mem acc t x hx with hx | hx
              · exact (termsOK_mem acc).mp hinv.ok x hx
              · subst hx; exact decoded_term_ok p x ht
            · intro x hx
              rcases setInsert_mem acc t x hx with hx | hx
              · exact hinv.elems x hx
              · subst hx; exact setElemOK_of_kind x (by rw [htk']; exact hnv) (by rw [htk']; exact hns)
            · intro x hx
              rcases setInsert_mem acc t x hx with hx | hx
              · rcases hk with ⟨_, _, hnil⟩ | ⟨kk, hkk, hkv, hks, hkind⟩
                · subst hnil; cases hx
                · have := hinv.kinds x hx
                  rw [hkk] at this
                  -- the kinds agree: no mix
                  have hsame : kindIdx kk = idx := by
                    subst hkind
                    simp only [Option.isSome_some, Bool.true_and, bne_iff_ne, ne_eq, Option.some.injEq, Bool.not_eq_true, Bool.decide_eq_false,
                      Decidable.not_not] at hmix
                    simpa using hmix
                  rw [hidx'] at hsame
                  have := kindIdx_inj kk pk hkv hks hnv hns hsame
                  subst this
                  assumption
              · subst hx; rw [htk']
          exact decoded_set_inv ps (some idx) (setInsert acc t) s (some pk) h (.inr ⟨pk, rfl, hnv, hns, by rw [hidx']⟩) hacc'
theorem decoded_map_inv : (es : List (Option MapKey × PTerm)) → (acc m : List (MapKey × Term)) →
    protoToMap es acc = .ok m → MapInv acc → MapInv m
  | [], acc, m, h, hinv => by simp only [protoToMap, Except.ok.injEq] at h; subst h; exact hinv
  | (k, p) :: es, acc, m, h, hinv => by
    simp only [protoToMap] at h
    split at h
    · cases h
    · rename_i k'
      split at h
      · cases h
      · rename_i t ht
        exact decoded_map_inv es (mapInsert acc k' t) m h (mapInsert_inv acc k' t hinv (decoded_term_ok p t ht))
end

/-! ## operators, predicates, scopes, rules, checks -/

mutual
theorem decoded_op_ok : (o : POp) → (x : Op) → protoToOp o = .ok x → opOK x = true
  | .empty, x, h => by simp [protoToOp] at h
  | .value t, x, h => by
    simp only [protoToOp] at h
    split at h
    · rename_i t' ht
      simp only [Except.ok.injEq] at h; subst h
      simp only [opOK]; exact decoded_term_ok t t' ht
    · cases h
  | .unary k f, x, h => by
    simp only [protoToOp] at h
    split at h
    · simp only [Except.ok.injEq] at h; subst h; rfl
    · cases h
  | .binary k f, x, h => by
    simp only [protoToOp] at h
    split at h
    · simp only [Except.ok.injEq] at h; subst h; rfl
    · cases h
  | .closure ps ops, x, h => by
    simp only [protoToOp] at h
    split at h
    · rename_i os hos
      simp only [Except.ok.injEq] at h; subst h
      simp only [opOK]; exact decoded_ops_ok ops os hos
    · cases h
theorem decoded_ops_ok : (os : List POp) → (xs : List Op) → protoToOps os = .ok xs → opsOK xs = true
  | [], xs, h => by simp only [protoToOps, Except.ok.injEq] at h; subst h; rfl
  | o :: os, xs, h => by
    simp only [protoToOps] at h
    split at h
    · cases h
    · rename_i x hx
      split at h
      · rename_i xs' hxs
        simp only [Except.ok.injEq] at h; subst h
        simp only [opsOK, Bool.and_eq_true]
        exact ⟨decoded_op_ok o x hx, decoded_ops_ok os xs' hxs⟩
      · cases h
end

theorem decoded_pred_ok (p : PPred) (q : Predicate) (h : protoToPred p = .ok q) : predOK q = true := by
  unfold protoToPred at h
  split at h
  · rename_i ts hts
    simp only [Except.ok.injEq] at h; subst h
    exact decoded_terms_ok p.terms ts hts
  · cases h

theorem decoded_scope_ok (s : PScope) (x : Scope) (h : protoToScope s = .ok x) : scopeOK x = true := by
  cases s with
  | empty => simp [protoToScope] at h
  | scopeType i =>
    simp only [protoToScope] at h
    split at h
    · simp only [Except.ok.injEq] at h; subst h; rfl
    · split at h
      · simp only [Except.ok.injEq] at h; subst h; rfl
      · cases h
  | publicKey i =>
    simp only [protoToScope, Except.ok.injEq] at h
    subst h
    have key : ∀ z : Int, 0 ≤ z → z < ((18446744073709551616 : Nat) : Int) → z.toNat < 18446744073709551616 := by
      intro z h1 h2; omega
    have h1 : 0 ≤ i % ((18446744073709551616 : Nat) : Int) := Int.emod_nonneg _ (by decide)
    have h2 : i % ((18446744073709551616 : Nat) : Int) < ((18446744073709551616 : Nat) : Int) := Int.emod_lt_of_pos _ (by decide)
    simp only [scopeOK, two64]
    exact decide_eq_true (key _ h1 h2)

theorem all_of_mapR {α β : Type} (f : α → R β) (P : β → Bool) (l : List α) (l' : List β) (h : mapR f l = .ok l')
    (hp : ∀ x y, f x = .ok y → P y = true) : l'.all P = true := by
  rw [List.all_eq_true]
  intro y hy
  obtain ⟨x, _, hx⟩ := mapR_mem f l l' h y hy
  exact hp x y hx

theorem decoded_rule_ok (v : Nat) (r : PRule) (q : QRule) (h : protoToRule v r = .ok q) : ruleOK v q = true := by
  have hgate := rule_scopes_gate v r q h
  unfold protoToRule at h
  split at h
  · cases h
  · rename_i body hbody
    split at h
    · cases h
    · rename_i exprs hexprs
      split at h
      · cases h
      · split at h
        · cases h
        · rename_i scopes hscopes
          split at h
          · cases h
          · rename_i head hhead
            simp only [Except.ok.injEq] at h
            subst h
            simp only [ruleOK, Bool.and_eq_true, Bool.not_eq_true', Bool.and_eq_false_imp, decide_eq_true_eq]
            refine ⟨⟨⟨⟨decoded_pred_ok _ _ hhead, all_of_mapR _ _ _ _ hbody decoded_pred_ok⟩,
              all_of_mapR _ _ _ _ hexprs decoded_ops_ok⟩, all_of_mapR _ _ _ _ hscopes decoded_scope_ok⟩, ?_⟩
            intro hv
            have := hgate hv
            simpa using this

theorem decoded_check_ok (v : Nat) (c : PCheck) (ck : Check) (h : protoToCheck v c = .ok ck) : checkOK v ck = true := by
  unfold protoToCheck at h
  split at h
  · cases h
  · rename_i qs hq
    split at h
    · simp only [Except.ok.injEq] at h
      subst h
      exact all_of_mapR _ _ _ _ hq (decoded_rule_ok v)
    · cases h

/-! ## the key table -/

theorem nodupNat_iff : ∀ (ks acc : List Nat), nodupNat acc ks = true ↔ (∀ k ∈ ks, k ∉ acc) ∧ ks.Nodup := by
  intro ks
  induction ks with
  | nil => intro acc; simp [nodupNat]
  | cons k ks ih =>
    intro acc
    simp only [nodupNat, Bool.and_eq_true, Bool.not_eq_true', ih, List.mem_append, List.mem_cons, List.not_mem_nil, or_false,
      List.nodup_cons, forall_eq_or_imp, List.contains_eq_mem, decide_eq_false_iff_not]
    constructor
    · rintro ⟨h1, h2, h3⟩
      exact ⟨⟨h1, fun x hx hxa => h2 x hx (.inl hxa)⟩, fun hk => h2 k hk (.inr rfl), h3⟩
    · rintro ⟨⟨h1, h2⟩, h3, h4⟩
      refine ⟨h1, fun x hx hxa => ?_, h4⟩
      rcases hxa with hxa | hxa
      · exact h2 x hx hxa
      · subst hxa; exact h3 hx

theorem loadKeys_nodup : ∀ (ks : List (Option Nat)) (acc r : List Nat), loadKeys ks acc = .ok r → acc.Nodup → r.Nodup := by
  intro ks
  induction ks with
  | nil => intro acc r h hn; simp only [loadKeys, Except.ok.injEq] at h; subst h; exact hn
  | cons k ks ih =>
    intro acc r h hn
    cases k with
    | none => simp [loadKeys] at h
    | some k =>
      simp only [loadKeys] at h
      split at h
      · cases h
      · rename_i hc
        apply ih (acc ++ [k]) r h
        rw [List.nodup_append]
        refine ⟨hn, by simp, ?_⟩
        intro a ha b hb
        simp only [List.mem_cons, List.not_mem_nil, or_false] at hb
        subst hb
        intro hab
        subst hab
        exact hc (by simpa using ha)

/-! ## the normal form -/

/-- everything the reader returns is what the in-memory types can hold -/
theorem accepted_content_ok (p : PBlock) (ext : Option Nat) (b : TBlock) (h : protoToBlock p ext = .ok b) : contentOK b = true := by
  unfold protoToBlock at h
  simp only at h
  split at h
  · cases h
  · split at h
    · cases h
    · rename_i facts hfacts
      split at h
      · cases h
      · rename_i rules hrules
        split at h
        · cases h
        · split at h
          · cases h
          · split at h
            · cases h
            · rename_i checks hchecks
              split at h
              · cases h
              · rename_i scopes hscopes
                split at h
                · cases h
                · rename_i keys hkeys
                  split at h
                  · cases h
                  · rename_i hsym
                    split at h
                    · cases h
                    · simp only [Except.ok.injEq] at h
                      subst h
                      simp only [contentOK, Bool.and_eq_true, Bool.not_eq_true']
                      refine ⟨⟨⟨⟨⟨all_of_mapR _ _ _ _ hfacts decoded_pred_ok, all_of_mapR _ _ _ _ hrules (decoded_rule_ok _)⟩,
                        all_of_mapR _ _ _ _ hchecks (decoded_check_ok _)⟩, all_of_mapR _ _ _ _ hscopes decoded_scope_ok⟩, ?_⟩, ?_⟩
                      · rw [nodupNat_iff]
                        exact And.intro (fun k _ hk => nomatch hk) (loadKeys_nodup _ _ _ hkeys List.nodup_nil)
                      · simpa using hsym

/-- **What the reader returns is a normal form**: writing it and reading it again gives it back. -/
theorem reader_normal_form (p : PBlock) (ext : Option Nat) (b : TBlock) (h : protoToBlock p ext = .ok b) :
    protoToBlock (blockToProto b) ext = .ok b := by
  obtain ⟨hg, he, _⟩ := accepted_passes_gate p ext b h
  have hc := accepted_content_ok p ext b h
  have := block_round_trip b (by rw [he]; exact hg) hc
  rw [he] at this
  exact this

/-- a message with a repeated set element, a repeated map key and an explicit default check kind is
    read, and what is read is stable -/
example :
    let p : PBlock := ⟨[], none, some 6, [⟨1024, [.set [.integer 1, .integer 1, .integer 2], .map [(some (.int 1), .integer 1), (some (.int 1), .integer 2)]]⟩],
      [], [⟨[], some 0⟩], [], []⟩
    (match protoToBlock p none with
     | .ok b => (match protoToBlock (blockToProto b) none with | .ok b' => b'.core.facts == b.core.facts | .error _ => false)
     | .error _ => false) = true := by decide

/-! ## the same for snapshot blocks (C13) -/

theorem snapshot_accepted_content_ok (p : PSnapBlock) (b : TBlock) (h : protoToSnapshotBlock p = .ok b) :
    contentOK b = true ∧ b.symbols = [] ∧ b.publicKeys = [] := by
  unfold protoToSnapshotBlock at h
  simp only at h
  split at h
  · cases h
  · split at h
    · cases h
    · rename_i facts hfacts
      split at h
      · cases h
      · rename_i rules hrules
        split at h
        · cases h
        · split at h
          · cases h
          · rename_i checks hchecks
            split at h
            · cases h
            · rename_i scopes hscopes
              split at h
              · cases h
              · have key : ∀ e : Option Nat, contentOK ⟨[], p.context, p.version.getD 0, ⟨facts, rules, checks, scopes, e⟩, []⟩ = true := by
                  intro e
                  simp only [contentOK, Bool.and_eq_true, Bool.not_eq_true']
                  exact ⟨⟨⟨⟨⟨all_of_mapR _ _ _ _ hfacts decoded_pred_ok, all_of_mapR _ _ _ _ hrules (decoded_rule_ok _)⟩,
                    all_of_mapR _ _ _ _ hchecks (decoded_check_ok _)⟩, all_of_mapR _ _ _ _ hscopes decoded_scope_ok⟩, rfl⟩, rfl⟩
                split at h
                · cases h
                · simp only [Except.ok.injEq] at h; subst h; exact ⟨key _, rfl, rfl⟩
                · simp only [Except.ok.injEq] at h; subst h; exact ⟨key _, rfl, rfl⟩

/-- **A snapshot block that was read is a normal form too**: restoring, snapshotting and restoring
    again gives the same block. -/
theorem snapshot_reader_normal_form (p : PSnapBlock) (b : TBlock) (h : protoToSnapshotBlock p = .ok b) :
    protoToSnapshotBlock (snapshotBlockToProto b) = .ok b := by
  obtain ⟨hc, hs, hk⟩ := snapshot_accepted_content_ok p b h
  exact snapshot_block_round_trip b hs hk (snapshot_accepted_passes_gate p b h) hc

end Biscuit.Convert
