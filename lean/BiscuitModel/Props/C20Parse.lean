/-
  C20 ∘ C14 — a bound parameter stays data in the printed text.

  `bound_fact_reads_back`: take any fact with parameters, bind them to any values, print the
  result.  If the result is a fact of the grammar (any string at all is allowed as a value:
  `wfT _ (.str s) = true` for every `s`), then the parser reads the printed text back as
  exactly that fact — the values at the positions of the parameters, nothing else — and
  leaves whatever followed untouched.  No value can close the fact early, add a term, or
  start a new statement.
-/
import BiscuitModel.Props.C20
import BiscuitModel.Props.C14Terms
namespace Biscuit.C20
open Biscuit.Printer Biscuit.Params Biscuit.TermParser

/-- **Parameters are data, never code (facts).** -/
theorem bound_fact_reads_back {dateP} (hd : DateShape dateP) (σ : Env) (p : SPred) (rest : List Char)
    (hwf : wfPred dateP (substPred σ p) = true) :
    parseFactInner dateP ((printPred (substPred σ p)).toList ++ rest) = .ok (substPred σ p) rest :=
  fact_round_trip hd (substPred σ p) rest hwf

/-- every string is a value of the grammar, so the theorem applies to every string binding -/
theorem any_string_is_a_value {dateP} (ctx : Ctx) (s : String) : wfT dateP ctx (.str s) = true := by
  cases ctx <;> simp [wfT]

/-- a string that tries to close the fact and start a policy is read back as that string -/
example : parseFactInner (fun _ => none)
    ((printPred (substPred [("name", .str "x\"); allow if true; //")] ⟨"user", [.param "name"]⟩)).toList ++ [';'])
      = .ok ⟨"user", [.str "x\"); allow if true; //"]⟩ [';'] :=
  bound_fact_reads_back dateShape_none _ _ _ (by decide)

end Biscuit.C20
