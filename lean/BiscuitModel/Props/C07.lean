/-
  C07 — third-party blocks are bound to one signer and one position in one token.
-/
import BiscuitModel.Props.C01
import BiscuitModel.Props.C04
namespace Biscuit.C07
open Biscuit Biscuit.C02 Biscuit.C01

/-- **A third-party block is accepted into a token only with a valid signature by the stated
    external key over its payload and over the signature of the block it is appended after.** -/
theorem append3p_checks (S : Scheme) (c c' : Container) (expected : PubKey) (data : Bytes) (resp : ExtSig)
    (a : Nat) (sk : Bytes) (h : appendThirdParty S c expected data resp a sk = some c') :
    resp.key = expected ∧
    S.verify expected (Spec.externalV1 Gen.thirdPartySignatureVersion data c.lastBlock.sig) resp.sig = true := by
  unfold appendThirdParty at h
  split at h
  · rename_i hc
    refine ⟨hc.1, ?_⟩
    have := hc.2
    simp only [externalPayload, gen_externalV1_eq_spec, Option.getD_some] at this
    rw [← hc.1]; exact this
  · cases h

/-- the external payload determines the block bytes and the previous signature -/
theorem externalV1_injective (v v' : Nat) (d d' p p' : Bytes) (hv : v < 4294967296) (hv' : v' < 4294967296)
    (hd : d.length = d'.length) (h : Spec.externalV1 v d p = Spec.externalV1 v' d' p') : v = v' ∧ d = d' ∧ p = p' := by
  simp only [Spec.externalV1, List.append_assoc] at h
  have h1 := List.append_inj h rfl
  have h2 := List.append_inj h1.2 (by simp [Gen.le32])
  have h3 := List.append_inj h2.2 rfl
  have h4 := List.append_inj h3.2 hd
  have h5 := List.append_inj h4.2 rfl
  exact ⟨le32_injective v v' hv hv' h2.1, h4.1, h5.2⟩

/-- **A block produced for one token or position cannot be attached elsewhere**: if the holder of
    the external key signed this block only for the position after signature `sig₁`, a token
    accepts it (by `append_third_party`) only when it currently ends with that very signature. -/
theorem third_party_position_bound (S : Scheme) (prot : PubKey → Prop) (honest : PubKey → Bytes → Bytes → Prop)
    (hU : Unforgeable S prot honest) (c c' : Container) (ext : PubKey) (hp : prot ext) (data sig₁ : Bytes) (resp : ExtSig)
    (honly : ∀ m s, honest ext m s → m = Spec.externalV1 Gen.thirdPartySignatureVersion data sig₁)
    (a : Nat) (sk : Bytes) (h : appendThirdParty S c ext data resp a sk = some c') :
    c.lastBlock.sig = sig₁ := by
  obtain ⟨_, hv⟩ := append3p_checks S c c' ext data resp a sk h
  have := honly _ _ (hU ext _ _ hp hv)
  exact (externalV1_injective _ _ _ _ _ _ (by decide) (by decide) rfl this).2.2

/-- **A token in which a third-party block was moved, re-attributed or altered fails
    verification**: wherever a block with an external signature sits in an accepted token, that
    signature verifies, under the key stated in the token, over the block's own bytes and the
    signature of the block that actually precedes it. -/
theorem third_party_checked_in_place (S : Scheme) (root : PubKey) (c : Container) (hv : verifyToken S root c = true)
    (i : Nat) (h : i < c.blocks.length) (e : ExtSig) (he : c.blocks[i].ext = some e) :
    S.verify e.key (Spec.externalV1 Gen.thirdPartySignatureVersion c.blocks[i].data
      (if i = 0 then c.authority.sig else (c.blocks[i - 1]'(by omega)).sig)) e.sig = true := by
  obtain ⟨hwf, _, l, hch, _⟩ := (verify_iff_chain S root c).mp hv
  have hver : c.blocks[i].version = some Gen.thirdPartySignatureVersion := by
    simp only [wellFormed, Bool.and_eq_true, List.all_eq_true] at hwf
    have := hwf.2 c.blocks[i] (List.getElem_mem h)
    simpa [he] using this
  have := (accepted_blocks_are_honest S (fun _ => True) (fun pk m s => S.verify pk m s = true)
    (fun pk m s _ hs => hs) c.blocks _ _ _ l hch i h).2 e he trivial
  simpa only [externalPayload, gen_externalV1_eq_spec, hver, Option.getD_some] using this

/-! ## trust: only scopes naming its key -/

theorem mem_push {m : KeyMap} {k k' b b' : Nat} :
    b' ∈ KeyMap.get (KeyMap.push m k b) k' ↔ b' ∈ KeyMap.get m k' ∨ (k' = k ∧ b' = b) := by
  induction m with
  | nil =>
    simp only [KeyMap.push, KeyMap.get]
    by_cases h : k = k'
    · subst h; simp
    · simp [h]; intro h'; exact absurd h'.symm h
  | cons kv rest ih =>
    obtain ⟨k0, bs⟩ := kv
    simp only [KeyMap.push]
    by_cases h0 : k0 = k
    · subst h0
      simp only [if_true, KeyMap.get]
      by_cases h1 : k0 = k'
      · subst h1; simp
      · simp [h1]; intro h'; exact absurd h'.symm h1
    · simp only [h0, if_false, KeyMap.get]
      by_cases h1 : k0 = k'
      · subst h1
        simp only [if_true]
        constructor
        · exact .inl
        · rintro (h | ⟨h, _⟩)
          · exact h
          · exact absurd h h0
      · simp only [h1, if_false]; exact ih

theorem mem_keyMapFrom :
    ∀ (blocks : List Block) (i : Nat) (m : KeyMap) (k b : Nat),
      b ∈ KeyMap.get (keyMapFrom blocks i m) k ↔
        b ∈ KeyMap.get m k ∨ (∃ j, ∃ h : j < blocks.length, b = i + j ∧ b ≠ 0 ∧ blocks[j].extKey = some k) := by
  intro blocks
  induction blocks with
  | nil => intro i m k b; simp [keyMapFrom]
  | cons blk rest ih =>
    intro i m k b
    simp only [keyMapFrom]
    cases hx : blk.extKey with
    | none =>
      simp only [ih]
      constructor
      · rintro (h | ⟨j, hj, h1, h2, h3⟩)
        · exact .inl h
        · exact .inr ⟨j + 1, by simp; omega, by omega, h2, by simpa using h3⟩
      · rintro (h | ⟨j, hj, h1, h2, h3⟩)
        · exact .inl h
        · cases j with
          | zero => simp [hx] at h3
          | succ j' => exact .inr ⟨j', by simpa using hj, by omega, h2, by simpa using h3⟩
    | some k0 =>
      simp only [ih]
      constructor
      · rintro (h | ⟨j, hj, h1, h2, h3⟩)
        · by_cases hi : i = 0
          · simp only [hi, if_true] at h; exact .inl h
          · simp only [hi, if_false] at h
            rcases mem_push.mp h with h | ⟨h1, h2⟩
            · exact .inl h
            · exact .inr ⟨0, by simp, by omega, by omega, by simp [hx, h1]⟩
        · exact .inr ⟨j + 1, by simp; omega, by omega, h2, by simpa using h3⟩
      · rintro (h | ⟨j, hj, h1, h2, h3⟩)
        · left
          by_cases hi : i = 0
          · simpa [hi] using h
          · simp only [hi, if_false]; exact mem_push.mpr (.inl h)
        · cases j with
          | zero =>
            left
            have hk : k0 = k := by simpa [hx] using h3
            have hi : i ≠ 0 := by omega
            simp only [hi, if_false]
            exact mem_push.mpr (.inr ⟨hk.symm, by omega⟩)
          | succ j' => exact .inr ⟨j', by simpa using hj, by omega, h2, by simpa using h3⟩

/-- the blocks registered under a public key are exactly the non-authority blocks carrying an
    external signature by that key -/
theorem keyMap_spec (blocks : List Block) (k b : Nat) :
    b ∈ KeyMap.get (keyMap blocks) k ↔ ∃ h : b < blocks.length, b ≠ 0 ∧ blocks[b].extKey = some k := by
  simp only [keyMap, mem_keyMapFrom, KeyMap.get]
  constructor
  · rintro (h | ⟨j, hj, h1, h2, h3⟩)
    · cases h
    · have : b = j := by omega
      subst this; exact ⟨hj, h2, h3⟩
  · rintro ⟨h, h1, h2⟩
    exact .inr ⟨b, h, by omega, h1, h2⟩

/-- **The facts of a third-party block are trusted only by scopes naming its key** (or by the
    block itself, or by `previous` of a later block): if block `n` is in the trusted origins of an
    element of another block `cur`, then the element's scopes contain `previous` with `n ≤ cur`,
    or name a public key that signed block `n`, or `n` is in the defaults it started from. -/
theorem third_party_trust_only_by_key (blocks : List Block) (scopes : List Scope) (dflt : List Nat) (cur n : Nat)
    (hn : n ≠ 0) (hnA : n ≠ authorizerId) (hcur : n ≠ cur)
    (h : n ∈ trustedFromScopes scopes dflt cur (keyMap blocks)) :
    (scopes = [] ∧ n ∈ dflt) ∨ (Scope.previous ∈ scopes ∧ n ≤ cur) ∨
      ∃ k, Scope.publicKey k ∈ scopes ∧ ∃ hb : n < blocks.length, blocks[n].extKey = some k := by
  rw [C04.trustedFromScopes_spec] at h
  split at h
  · rename_i hs
    rcases h with h | h | h
    · exact absurd h hnA
    · exact absurd h hcur
    · exact .inl ⟨hs, h⟩
  · rcases h with h | h | h | h | ⟨k, hk, hb⟩
    · exact absurd h hnA
    · exact absurd h hcur
    · exact absurd h.2 hn
    · exact .inr (.inl ⟨h.1, h.2.2⟩)
    · obtain ⟨hlt, _, hext⟩ := (keyMap_spec blocks k n).mp hb
      exact .inr (.inr ⟨k, hk, hlt, hext⟩)

end Biscuit.C07
