/-
  Helper lemmas about the authorizer model: origin-set membership, declarative
  forms of `findMatch` / `checkMatchAll` for evaluations without expression errors.
-/
import BiscuitModel.Lemmas.Datalog
import BiscuitModel.Model.Authorizer
namespace Biscuit

theorem mem_origin_insert {x b : Nat} : ∀ {o : List Nat}, x ∈ Origin.insert b o ↔ x = b ∨ x ∈ o := by
  intro o
  induction o with
  | nil => simp [Origin.insert]
  | cons y ys ih =>
    simp only [Origin.insert]
    split
    · simp
    · split
      · rename_i h; subst h; simp
      · simp only [List.mem_cons, ih]
        constructor
        · rintro (h | h | h)
          · exact .inr (.inl h)
          · exact .inl h
          · exact .inr (.inr h)
        · rintro (h | h | h)
          · exact .inr (.inl h)
          · exact .inl h
          · exact .inr (.inr h)

theorem mem_origin_union {x : Nat} : ∀ (b a : List Nat), x ∈ Origin.union a b ↔ x ∈ a ∨ x ∈ b := by
  intro b
  induction b with
  | nil => intro a; simp [Origin.union]
  | cons y ys ih =>
    intro a
    simp only [Origin.union, List.foldl_cons] at ih ⊢
    rw [ih (Origin.insert y a), mem_origin_insert]
    simp only [List.mem_cons]
    constructor
    · rintro ((h | h) | h)
      · exact .inr (.inl h)
      · exact .inl h
      · exact .inr (.inr h)
    · rintro (h | h | h)
      · exact .inl (.inr h)
      · exact .inl (.inl h)
      · exact .inr h

/-- a binding of a query that succeeds: expressions true and head instantiated -/
def isHit (r : Except ExprErr (Option (List Nat × Fact))) : Bool :=
  match r with
  | .ok (some _) => true
  | _ => false

/-- no binding of the rule, over the facts it can see, makes an expression fail -/
def NoErr (syms : SymbolTable) (facts : List (List Nat × Fact)) (trusted : List Nat) (r : Rule) : Prop :=
  ∀ ob ∈ combine (visible trusted facts) r.body (MV.new (bodyVars r.body)),
    ∀ e, evalExprs r.exprs ob.2 (TempSyms.new syms) ≠ .error e

theorem applyBinding_error (syms : SymbolTable) (blk : Nat) (r : Rule) (ob : List Nat × Bindings) (e : ExprErr) :
    applyBinding syms blk r ob = .error e ↔ evalExprs r.exprs ob.2 (TempSyms.new syms) = .error e := by
  simp only [applyBinding]
  split
  · rename_i e' h; rw [h]; constructor <;> (intro h2; injection h2 with h2; rw [h2])
  · rename_i h; rw [h]; simp
  · rename_i h; rw [h]; split <;> simp

/-- first element of a list of results that is not "no fact": `find_match` on an error-free list
    answers whether some binding succeeds -/
theorem firstNonNone_spec : ∀ (rs : List (Except ExprErr (Option (List Nat × Fact)))),
    (∀ e, .error e ∉ rs) →
    (match rs.filter (fun x => match x with | .ok none => false | _ => true) with
      | [] => (.ok false : Except ExprErr Bool)
      | .ok _ :: _ => .ok true
      | .error e :: _ => .error e) = .ok (rs.any isHit) := by
  intro rs
  induction rs with
  | nil => intro _; rfl
  | cons r rest ih =>
    intro h
    have hrest : ∀ e, .error e ∉ rest := fun e hm => h e (List.mem_cons_of_mem _ hm)
    match r with
    | .error e => exact absurd (List.mem_cons_self) (h e)
    | .ok none =>
      simp only [List.filter, List.any_cons, isHit, Bool.false_or]
      exact ih hrest
    | .ok (some y) => simp [List.filter, isHit]

theorem findMatch_spec (syms : SymbolTable) (facts : List (List Nat × Fact)) (trusted : List Nat) (blk : Nat) (r : Rule)
    (h : NoErr syms facts trusted r) :
    findMatch syms facts trusted blk r =
      .ok ((applyRule syms (visible trusted facts) blk r).any isHit) := by
  unfold findMatch
  apply firstNonNone_spec
  intro e hm
  simp only [applyRule, List.mem_map] at hm
  obtain ⟨ob, hob, he⟩ := hm
  exact h ob hob e ((applyBinding_error syms blk r ob e).mp he)

theorem allLoop_spec (syms : SymbolTable) (exprs : List (List Op)) :
    ∀ (bs : List (List Nat × Bindings)) (found : Bool),
      (∀ ob ∈ bs, ∀ e, evalExprs exprs ob.2 (TempSyms.new syms) ≠ .error e) →
      allLoop syms exprs bs found =
        .ok ((found || !bs.isEmpty) && bs.all fun ob => evalExprs exprs ob.2 (TempSyms.new syms) == .ok true) := by
  intro bs
  induction bs with
  | nil => intro found _; simp [allLoop]
  | cons ob rest ih =>
    intro found h
    have hob := h ob (List.mem_cons_self)
    have hrest := fun x hx => h x (List.mem_cons_of_mem _ hx)
    simp only [allLoop]
    cases hev : evalExprs exprs ob.2 (TempSyms.new syms) with
    | error e => exact absurd hev (hob e)
    | ok b =>
      cases b with
      | false => simp [hev]
      | true => simp [hev, ih true hrest]

theorem checkMatchAll_spec (syms : SymbolTable) (facts : List (List Nat × Fact)) (trusted : List Nat) (r : Rule)
    (h : NoErr syms facts trusted r) :
    checkMatchAll syms facts trusted r =
      .ok (let bs := combine (visible trusted facts) r.body (MV.new (bodyVars r.body))
           !bs.isEmpty && bs.all fun ob => evalExprs r.exprs ob.2 (TempSyms.new syms) == .ok true) := by
  unfold checkMatchAll
  rw [allLoop_spec syms r.exprs _ false h]
  simp

end Biscuit
