/-
  Interning only appends to the tables and keeps them free of duplicates and of default
  symbols.  Used by C12 (reload reproduces the in-memory tables) and C13.
-/
import BiscuitModel.Model.TokenSyms
namespace Biscuit

theorem indexOf_none {s : Str} : ∀ {l : List Str}, indexOf s l = none → s ∉ l := by
  intro l
  induction l with
  | nil => intro _ h; cases h
  | cons x xs ih =>
    intro h hm
    simp only [indexOf] at h
    split at h
    · cases h
    · rename_i hne
      cases hi : indexOf s xs with
      | none =>
        cases hm with
        | head => exact hne rfl
        | tail _ hm' => exact ih hi hm'
      | some i => rw [hi] at h; simp at h

theorem keyIndex_none {k : Nat} : ∀ {l : List Nat}, keyIndex k l = none → k ∉ l := by
  intro l
  induction l with
  | nil => intro _ h; cases h
  | cons x xs ih =>
    intro h hm
    simp only [keyIndex] at h
    split at h
    · cases h
    · rename_i hne
      cases hi : keyIndex k xs with
      | none =>
        cases hm with
        | head => exact hne rfl
        | tail _ hm' => exact ih hi hm'
      | some i => rw [hi] at h; simp at h

/-- the tables hold no default symbol and no duplicate -/
structure WFt (t : ITable) : Prop where
  noDefault : ∀ s ∈ t.syms.symbols, indexOf s Gen.defaultSymbols = none
  symsNodup : t.syms.symbols.Nodup
  keysNodup : t.keys.Nodup

/-- `t'` is `t` with strings and keys appended -/
def Ext (t t' : ITable) : Prop :=
  ∃ ns nk, t'.syms.symbols = t.syms.symbols ++ ns ∧ t'.keys = t.keys ++ nk

def Good (t t' : ITable) : Prop := Ext t t' ∧ (WFt t → WFt t')

theorem Good.refl (t : ITable) : Good t t := ⟨⟨[], [], by simp, by simp⟩, id⟩

theorem Good.trans {a b c : ITable} (h1 : Good a b) (h2 : Good b c) : Good a c := by
  obtain ⟨⟨n1, k1, e1, f1⟩, w1⟩ := h1
  obtain ⟨⟨n2, k2, e2, f2⟩, w2⟩ := h2
  exact ⟨⟨n1 ++ n2, k1 ++ k2, by rw [e2, e1, List.append_assoc], by rw [f2, f1, List.append_assoc]⟩, fun h => w2 (w1 h)⟩

theorem internSym_good (pool : List Str) (t : ITable) (i : Nat) : Good t (internSym pool t i).1 := by
  simp only [internSym, SymbolTable.insert]
  split
  · exact Good.refl t
  · rename_i hd
    split
    · exact Good.refl t
    · rename_i hn
      refine ⟨⟨[pool.getD i []], [], by simp, by simp⟩, ?_⟩
      intro hw
      refine ⟨?_, ?_, hw.keysNodup⟩
      · intro s hs
        simp only [List.mem_append, List.mem_singleton] at hs
        rcases hs with hs | hs
        · exact hw.noDefault s hs
        · rw [hs]; exact hd
      · simp only
        rw [List.nodup_append]
        refine ⟨hw.symsNodup, by simp, ?_⟩
        intro a ha b hb
        simp only [List.mem_singleton] at hb
        subst hb
        intro hab; subst hab
        exact indexOf_none hn ha

theorem internKey_good (t : ITable) (k : Nat) : Good t (internKey t k).1 := by
  simp only [internKey]
  split
  · exact Good.refl t
  · rename_i hn
    refine ⟨⟨[], [k], by simp, by simp⟩, ?_⟩
    intro hw
    refine ⟨hw.noDefault, hw.symsNodup, ?_⟩
    simp only
    rw [List.nodup_append]
    refine ⟨hw.keysNodup, by simp, ?_⟩
    intro a ha b hb
    simp only [List.mem_singleton] at hb
    subst hb
    intro hab; subst hab
    exact keyIndex_none hn ha

mutual
theorem internTerm_good (pool : List Str) : ∀ (x : Term) (t : ITable), Good t (internTerm pool t x).1
  | .var v, t => by simp only [internTerm]; exact internSym_good pool t v
  | .str s, t => by simp only [internTerm]; exact internSym_good pool t s
  | .set xs, t => by simp only [internTerm]; exact internTerms_good pool xs t
  | .arr xs, t => by simp only [internTerm]; exact internTerms_good pool xs t
  | .map kvs, t => by simp only [internTerm]; exact internKVs_good pool kvs t
  | .int _, t => by simp only [internTerm]; exact Good.refl t
  | .date _, t => by simp only [internTerm]; exact Good.refl t
  | .bytes _, t => by simp only [internTerm]; exact Good.refl t
  | .bool _, t => by simp only [internTerm]; exact Good.refl t
  | .null, t => by simp only [internTerm]; exact Good.refl t
theorem internTerms_good (pool : List Str) : ∀ (xs : List Term) (t : ITable), Good t (internTerms pool t xs).1
  | [], t => by simp only [internTerms]; exact Good.refl t
  | x :: xs, t => by
    simp only [internTerms]
    exact Good.trans (internTerm_good pool x t) (internTerms_good pool xs _)
theorem internKVs_good (pool : List Str) : ∀ (kvs : List (MapKey × Term)) (t : ITable), Good t (internKVs pool t kvs).1
  | [], t => by simp only [internKVs]; exact Good.refl t
  | (k, x) :: rest, t => by
    simp only [internKVs]
    cases k with
    | int i => exact Good.trans (internTerm_good pool x t) (internKVs_good pool rest _)
    | str s =>
      exact Good.trans (internSym_good pool t s) (Good.trans (internTerm_good pool x _) (internKVs_good pool rest _))
end

theorem internNats_good (pool : List Str) : ∀ (xs : List Nat) (t : ITable), Good t (internNats pool t xs).1
  | [], t => by simp only [internNats]; exact Good.refl t
  | x :: xs, t => by
    simp only [internNats]
    exact Good.trans (internSym_good pool t x) (internNats_good pool xs _)

mutual
theorem internOp_good (pool : List Str) : ∀ (o : Op) (t : ITable), Good t (internOp pool t o).1
  | .value x, t => by simp only [internOp]; exact internTerm_good pool x t
  | .unary (.ffi n), t => by simp only [internOp]; exact internSym_good pool t n
  | .unary .negate, t => by simp only [internOp]; exact Good.refl t
  | .unary .parens, t => by simp only [internOp]; exact Good.refl t
  | .unary .length, t => by simp only [internOp]; exact Good.refl t
  | .unary .typeOf, t => by simp only [internOp]; exact Good.refl t
  | .binary b, t => by
    cases b <;> simp only [internOp] <;> first | exact Good.refl t | exact internSym_good pool t _
  | .closure ps ops, t => by
    simp only [internOp]
    exact Good.trans (internNats_good pool ps t) (internOps_good pool ops _)
theorem internOps_good (pool : List Str) : ∀ (os : List Op) (t : ITable), Good t (internOps pool t os).1
  | [], t => by simp only [internOps]; exact Good.refl t
  | o :: os, t => by
    simp only [internOps]
    exact Good.trans (internOp_good pool o t) (internOps_good pool os _)
end

theorem internList_good {α : Type} (f : ITable → α → ITable × α) (hf : ∀ t x, Good t (f t x).1) :
    ∀ (xs : List α) (t : ITable), Good t (internList f t xs).1
  | [], t => by simp only [internList]; exact Good.refl t
  | x :: xs, t => by
    simp only [internList]
    exact Good.trans (hf t x) (internList_good f hf xs _)

theorem internPred_good (pool : List Str) (t : ITable) (p : Predicate) : Good t (internPred pool t p).1 := by
  simp only [internPred]
  exact Good.trans (internSym_good pool t p.name) (internTerms_good pool p.terms _)

theorem internScope_good (t : ITable) (s : Scope) : Good t (internScope t s).1 := by
  cases s with
  | publicKey k => simp only [internScope]; exact internKey_good t k
  | authority => exact Good.refl t
  | previous => exact Good.refl t

theorem internQRule_good (pool : List Str) (t : ITable) (q : QRule) : Good t (internQRule pool t q).1 := by
  simp only [internQRule]
  exact Good.trans (internPred_good pool t q.rule.head)
    (Good.trans (internList_good _ (internPred_good pool) q.rule.body _)
      (Good.trans (internList_good _ (fun t x => internOps_good pool x t) q.rule.exprs _)
        (internList_good _ internScope_good q.scopes _)))

theorem internCheck_good (pool : List Str) (t : ITable) (c : Check) : Good t (internCheck pool t c).1 := by
  simp only [internCheck]
  exact internList_good _ (internQRule_good pool) c.queries t

/-- **Building a block against a table only appends to it** and keeps it well-formed. -/
theorem internBlockBuild_good (pool : List Str) (t : ITable) (b : Block) : Good t (internBlockBuild pool t b).1 := by
  simp only [internBlockBuild]
  exact Good.trans (internList_good _ (internPred_good pool) b.facts t)
    (Good.trans (internList_good _ (internQRule_good pool) b.rules _)
      (Good.trans (internList_good _ (internCheck_good pool) b.checks _)
        (internList_good _ internScope_good b.scopes _)))

theorem wf_empty : WFt ITable.empty :=
  ⟨fun s h => by simp [ITable.empty] at h, List.nodup_nil, List.nodup_nil⟩

end Biscuit
