/-
  Lemmas about the expression parser model (Model/ExprParser).
-/
import BiscuitModel.Model.ExprParser
import BiscuitModel.Props.C14Terms
set_option linter.unusedSimpArgs false
set_option linter.unusedVariables false
namespace Biscuit.ExprParser
open Biscuit.Printer Biscuit.TermParser

/-! ## terms as operands -/

/-- the values an expression may contain: what `term_in_fact` derives, and variables -/
def wfV (dateP : List Char → Option Nat) : STerm → Bool
  | .var n => validNameL n.toList
  | t => wfT dateP .fact t

theorem pVariable_none_head {c : Char} (s : List Char) (h : c ≠ '$') : pVariable (c :: s) = none := by
  unfold pVariable
  split
  · rename_i heq; injection heq with h1 _; exact absurd h1 h
  · rfl

theorem pAtomAny_eq_pAtom {dateP} (s : List Char) (h : pVariable s = none) : pAtomAny dateP s = pAtom dateP s := by
  unfold pAtomAny pAtom
  cases pParameter s <;> cases pStringT s <;> cases pDate dateP s <;> simp [h]

theorem pTermAny_eq_pTerm {dateP} (fuel : Nat) (s : List Char) (h : pVariable (space0 s) = none) :
    pTermAny dateP fuel s = pTerm dateP .fact fuel s := by
  cases fuel with
  | zero => simp [pTermAny, pTerm]
  | succ n =>
    simp only [pTermAny, pTerm, pAtomAny_eq_pAtom _ h, ↓reduceIte]
    cases pAtom dateP (space0 s) with
    | some p => rfl
    | none =>
      simp only
      cases pArray dateP n (space0 s) with
      | ok t r => rfl
      | fail => rfl
      | err =>
        simp only
        cases pMap dateP n (space0 s) <;> rfl

/-- what the text after an operand must satisfy (see `EndsFor`); for a variable: the name ends -/
def EndsForV (t : STerm) (X : List Char) : Prop :=
  match t with
  | .var _ => ∀ c, X.head? = some c → isNameChar c = false
  | t => EndsFor t X

/-- **a printed value is read back by `term`**, whatever follows it (subject to `EndsForV`) -/
theorem pTermAny_rt {dateP} (hd : DateShape dateP) (t : STerm) (X : List Char) (fuel : Nat)
    (hw : wfV dateP t = true) (hX : EndsForV t X) (hf : needT t + 1 ≤ fuel) :
    pTermAny dateP fuel (termC t ++ X) = .ok t X := by
  cases t with
  | var n =>
    obtain ⟨m, rfl⟩ : ∃ m, fuel = m + 1 := ⟨fuel - 1, by omega⟩
    simp only [wfV, validNameL, Bool.and_eq_true, Bool.not_eq_true', List.isEmpty_eq_false_iff, List.all_eq_true] at hw
    simp only [EndsForV] at hX
    have htw := takeWhile_append_of_all isNameChar n.toList X hw.2 hX
    have hpn : pName (n.toList ++ X) = some (n.toList, X) := by
      unfold pName
      rw [htw.1, htw.2]
      split
      · rename_i h; exact absurd h hw.1
      · rfl
    simp only [termC, List.cons_append, pTermAny, space0_cons _ (show isSpace '$' = false by decide), pAtomAny, pParameter,
      pStringT, pBraced_none_head _ (show '$' ≠ '{' by decide), parseString_none_head _ (show '$' ≠ '"' by decide),
      pDate_none_head hd _ (show Char.isDigit '$' = false by decide), pVariable, hpn, Option.map_none, Option.map_some,
      alt_none, alt_some, String.ofList_toList]
  | int i =>
    have hw' : wfT dateP .fact (.int i) = true := hw
    obtain ⟨c, tl, hs, hsp, _, _⟩ := termC_head .fact _ hw'
    have hc : c ≠ '$' := by
      obtain ⟨c', tl', hs', hc'⟩ := intChars_head i
      simp only [termC] at hs; rw [hs'] at hs; injection hs with h1 _; subst h1
      rcases hc' with h | h
      · intro e; subst e; exact absurd h (by decide)
      · subst h; decide
    rw [pTermAny_eq_pTerm _ _ (by rw [hs]; simp only [List.cons_append, space0_cons _ hsp]; exact pVariable_none_head _ hc)]
    exact term_rt hd _ .fact fuel X hw' hX (by omega)
  | str s =>
    have hw' : wfT dateP .fact (.str s) = true := hw
    rw [pTermAny_eq_pTerm _ _ (by
      simp only [termC, printStringChars, List.cons_append, space0_cons _ (show isSpace '"' = false by decide)]
      exact pVariable_none_head _ (by decide))]
    exact term_rt hd _ .fact fuel X hw' hX (by omega)
  | date d =>
    have hw' : wfT dateP .fact (.date d) = true := hw
    obtain ⟨c, tl, hs, hsp, _, _⟩ := termC_head .fact _ hw'
    have hdg : Char.isDigit c = true := by
      simp only [wfT, dateOK, Bool.and_eq_true] at hw'
      simp only [termC] at hs
      rw [hs] at hw'
      exact hw'.1.2
    rw [pTermAny_eq_pTerm _ _ (by
      rw [hs]; simp only [List.cons_append, space0_cons _ hsp]
      exact pVariable_none_head _ (fun e => by subst e; exact absurd hdg (by decide)))]
    exact term_rt hd _ .fact fuel X hw' hX (by omega)
  | bytes b =>
    have hw' : wfT dateP .fact (.bytes b) = true := hw
    rw [pTermAny_eq_pTerm _ _ (by
      simp only [termC, List.cons_append, List.nil_append, space0_cons _ (show isSpace 'h' = false by decide)]
      exact pVariable_none_head _ (by decide))]
    exact term_rt hd _ .fact fuel X hw' hX (by omega)
  | bool b =>
    have hw' : wfT dateP .fact (.bool b) = true := hw
    rw [pTermAny_eq_pTerm _ _ (by
      cases b <;> simp only [termC, List.cons_append, List.nil_append, ↓reduceIte, Bool.false_eq_true] <;>
        first
          | (rw [space0_cons _ (show isSpace 'f' = false by decide)]; exact pVariable_none_head _ (by decide))
          | (rw [space0_cons _ (show isSpace 't' = false by decide)]; exact pVariable_none_head _ (by decide)))]
    exact term_rt hd _ .fact fuel X hw' hX (by omega)
  | null =>
    have hw' : wfT dateP .fact .null = true := hw
    rw [pTermAny_eq_pTerm _ _ (by
      simp only [termC, List.cons_append, List.nil_append, space0_cons _ (show isSpace 'n' = false by decide)]
      exact pVariable_none_head _ (by decide))]
    exact term_rt hd _ .fact fuel X hw' hX (by omega)
  | param n =>
    have hw' : wfT dateP .fact (.param n) = true := hw
    rw [pTermAny_eq_pTerm _ _ (by
      simp only [termC, List.cons_append, space0_cons _ (show isSpace '{' = false by decide)]
      exact pVariable_none_head _ (by decide))]
    exact term_rt hd _ .fact fuel X hw' hX (by omega)
  | set xs =>
    have hw' : wfT dateP .fact (.set xs) = true := hw
    obtain ⟨c, tl, hs, hsp, _, _⟩ := termC_head .fact _ hw'
    have hc : c = '{' := by
      by_cases he : xs.isEmpty = true <;> simp [termC, he] at hs <;> exact hs.1.symm
    rw [pTermAny_eq_pTerm _ _ (by
      rw [hs]; simp only [List.cons_append, space0_cons _ hsp]
      exact pVariable_none_head _ (by rw [hc]; decide))]
    exact term_rt hd _ .fact fuel X hw' hX (by omega)
  | arr xs =>
    have hw' : wfT dateP .fact (.arr xs) = true := hw
    rw [pTermAny_eq_pTerm _ _ (by
      simp only [termC, List.cons_append, space0_cons _ (show isSpace '[' = false by decide)]
      exact pVariable_none_head _ (by decide))]
    exact term_rt hd _ .fact fuel X hw' hX (by omega)
  | map kvs =>
    have hw' : wfT dateP .fact (.map kvs) = true := hw
    rw [pTermAny_eq_pTerm _ _ (by
      simp only [termC, List.cons_append, space0_cons _ (show isSpace '{' = false by decide)]
      exact pVariable_none_head _ (by decide))]
    exact term_rt hd _ .fact fuel X hw' hX (by omega)

/-! ## the printed form of a tree, character by character -/

/-- level and printed symbol of the infix operators the parser knows (`&&!` / `||!`, the strict
    forms, are printed but not parsed: they are not in the grammar) -/
def infixOf : Bin → Option (Nat × List Char)
  | .lazyOr => some (0, ['|', '|'])
  | .lazyAnd => some (1, ['&', '&'])
  | .le => some (2, ['<', '='])
  | .ge => some (2, ['>', '='])
  | .lt => some (2, ['<'])
  | .gt => some (2, ['>'])
  | .eq => some (2, ['=', '=', '='])
  | .ne => some (2, ['!', '=', '='])
  | .heq => some (2, ['=', '='])
  | .hne => some (2, ['!', '='])
  | .bxor => some (3, ['^'])
  | .bor => some (4, ['|'])
  | .band => some (5, ['&'])
  | .add => some (6, ['+'])
  | .sub => some (6, ['-'])
  | .mul => some (7, ['*'])
  | .div => some (7, ['/'])
  | _ => none

/-- name of a binary method, as printed -/
def methodC : Bin → Option (List Char)
  | .contains => some "contains".toList
  | .prefix => some "starts_with".toList
  | .suffix => some "ends_with".toList
  | .regex => some "matches".toList
  | .intersection => some "intersection".toList
  | .union => some "union".toList
  | .all => some "all".toList
  | .any => some "any".toList
  | .get => some "get".toList
  | .ffi n => some ("extern::".toList ++ n.toList)
  | _ => none

def showC : ETree → List Char
  | .val t => termC t
  | .un .negate a => '!' :: showC a
  | .un .parens a => '(' :: (showC a ++ [')'])
  | .un .length a => showC a ++ ".length()".toList
  | .un .typeOf a => showC a ++ ".type()".toList
  | .un (.ffi n) a => showC a ++ (".extern::".toList ++ (n.toList ++ "()".toList))
  | .bin b l r =>
    match infixOf b with
    | some (_, sym) => showC l ++ (' ' :: (sym ++ (' ' :: showC r)))
    | none =>
      match methodC b with
      | some m => showC l ++ ('.' :: (m ++ ('(' :: (showC r ++ [')']))))
      | none => showC l ++ (" ? ".toList ++ showC r)
  | .clo ps body =>
    match ps with
    | [] => showC body
    | p :: _ => '$' :: (p.toList ++ (" -> ".toList ++ showC body))

/-- the grammar level a tree belongs to -/
def lev : ETree → Nat
  | .bin b _ _ => match infixOf b with | some (j, _) => j | none => 9
  | .un .negate _ => 8
  | _ => 9

/-- the printed text ends inside the operand of a `!`, which reads on through `* / + -` -/
def openE : ETree → Bool
  | .un .negate _ => true
  | .bin b _ r => match infixOf b with | some _ => openE r | none => false
  | .clo _ body => openE body
  | _ => false

/-! ## the operator tables -/

/-- a printed infix symbol followed by a blank is read as that operator, at its level -/
theorem firstTag_infix (b : Bin) (j : Nat) (sym r : List Char) (h : infixOf b = some (j, sym)) :
    firstTag (opsAt j) (sym ++ ' ' :: r) = some (b, ' ' :: r) := by
  cases b <;> simp only [infixOf, Option.some.injEq, Prod.mk.injEq, reduceCtorEq] at h <;>
    obtain ⟨rfl, rfl⟩ := h <;>
    simp [opsAt, firstTag, tag, List.isPrefixOf]

/-! ## leading blanks -/

theorem pTermAny_blank {dateP} (fuel : Nat) (s : List Char) : pTermAny dateP fuel (' ' :: s) = pTermAny dateP fuel s := by
  cases fuel with
  | zero => simp [pTermAny]
  | succ n => simp only [pTermAny, space0_blank]

/-- every level skips leading blanks -/
theorem blank_all {dateP} : ∀ fuel : Nat,
    (∀ k s, pLevel dateP k fuel (' ' :: s) = pLevel dateP k fuel s) ∧
    (∀ s, pExpr8 dateP fuel (' ' :: s) = pExpr8 dateP fuel s) ∧
    (∀ s, pExpr9 dateP fuel (' ' :: s) = pExpr9 dateP fuel s) ∧
    (∀ s, pExprTerm dateP fuel (' ' :: s) = pExprTerm dateP fuel s) ∧
    (∀ s, pParen dateP fuel (' ' :: s) = pParen dateP fuel s) := by
  intro fuel
  induction fuel with
  | zero => simp [pLevel, pExpr8, pExpr9, pExprTerm, pParen]
  | succ n ih =>
    obtain ⟨ihL, ih8, ih9, ihT, ihP⟩ := ih
    refine ⟨?_, ?_, ?_, ?_, ?_⟩
    · intro k s
      simp only [pLevel, ihL, ih8]
    · intro s
      simp only [pExpr8, space0_blank, ih9]
    · intro s
      simp only [pExpr9, ihT]
    · intro s
      simp only [pExprTerm, ihP, pTermAny_blank]
    · intro s
      simp only [pParen, space0_blank]

theorem pLevel_blank {dateP} (k fuel : Nat) (s : List Char) : pLevel dateP k fuel (' ' :: s) = pLevel dateP k fuel s :=
  (blank_all fuel).1 k s

/-! ## what cannot start an operand -/

/-- characters no operand starts with: operator characters other than `!` and `-`, separators,
    closing brackets -/
def NoStart (c : Char) : Prop :=
  c = '|' ∨ c = '&' ∨ c = '<' ∨ c = '>' ∨ c = '=' ∨ c = '^' ∨ c = '+' ∨ c = '*' ∨ c = '/' ∨ c = ')' ∨ c = ',' ∨ c = ';'

theorem noStart_facts {c : Char} (h : NoStart c) :
    isSpace c = false ∧ c ≠ '!' ∧ c ≠ '(' ∧ c ≠ '{' ∧ c ≠ '"' ∧ Char.isDigit c = false ∧ c ≠ '-' ∧ c ≠ 'h' ∧ c ≠ 't' ∧ c ≠ 'f' ∧
      c ≠ 'n' ∧ c ≠ '$' ∧ c ≠ '[' := by
  rcases h with h | h | h | h | h | h | h | h | h | h | h | h <;> subst h <;> decide

theorem pTermAny_err_head {dateP} (hd : DateShape dateP) (n : Nat) {c : Char} (s : List Char) (h : NoStart c) :
    pTermAny dateP (n + 2) (c :: s) = .err := by
  obtain ⟨hsp, _, _, h1, h2, h3, h4, h5, h6, h7, h8, h9, h10⟩ := noStart_facts h
  have hat : pAtomAny dateP (c :: s) = none := by
    rw [pAtomAny_eq_pAtom _ (pVariable_none_head _ h9)]
    exact pAtom_none_head hd _ h1 h2 h3 h4 h5 h6 h7 h8
  simp only [pTermAny, space0_cons _ hsp, hat, pArray_err_head n _ hsp h10, pMap_err_head n _ hsp h1, pSet_err_head n _ hsp h1]

theorem pParen_err_head {dateP} (n : Nat) {c : Char} (s : List Char) (hsp : isSpace c = false) (hp : c ≠ '(') :
    pParen dateP (n + 1) (c :: s) = .err := by
  simp only [pParen, space0_cons _ hsp]
  split
  · rename_i heq; injection heq with h1 _; exact absurd h1 hp
  · rfl

theorem pExprTerm_err_head {dateP} (hd : DateShape dateP) (n : Nat) {c : Char} (s : List Char) (h : NoStart c) :
    pExprTerm dateP (n + 3) (c :: s) = .err := by
  obtain ⟨hsp, _, hp, _⟩ := noStart_facts h
  simp only [pExprTerm, pParen_err_head (n + 1) s hsp hp, pTermAny_err_head hd n s h]

theorem pExpr9_err_head {dateP} (hd : DateShape dateP) (n : Nat) {c : Char} (s : List Char) (h : NoStart c) :
    pExpr9 dateP (n + 4) (c :: s) = .err := by
  simp only [pExpr9, pExprTerm_err_head hd n s h]

theorem pExpr8_err_head {dateP} (hd : DateShape dateP) (n : Nat) {c : Char} (s : List Char) (h : NoStart c) :
    pExpr8 dateP (n + 5) (c :: s) = .err := by
  obtain ⟨hsp, hn, _⟩ := noStart_facts h
  simp only [pExpr8, space0_cons _ hsp]
  split
  · rename_i heq; injection heq with h1 _; exact absurd h1 hn
  · exact pExpr9_err_head hd n s h

/-- on such a character every level returns `Error` (never `Failure`): an operator loop that
    tried an operator by mistake (`|` of `||`, `&` of `&&`) backs off -/
theorem pLevel_err_head {dateP} (hd : DateShape dateP) {c : Char} (s : List Char) (h : NoStart c) :
    ∀ (d k n : Nat), k + d = 8 → pLevel dateP k (n + 6 + d) (c :: s) = .err := by
  intro d
  induction d with
  | zero =>
    intro k n hk
    have : k = 8 := by omega
    subst this
    simp only [Nat.add_zero, pLevel, Nat.le_refl, ↓reduceIte, pExpr8_err_head hd n s h]
  | succ d ih =>
    intro k n hk
    have hk8 : ¬ k ≥ 8 := by omega
    have e : n + 6 + (d + 1) = (n + 6 + d) + 1 := by omega
    rw [e]
    simp only [pLevel, hk8, ↓reduceIte, ih (k + 1) n (by omega)]

theorem pLevel_err_head' {dateP} (hd : DateShape dateP) {c : Char} (s : List Char) (h : NoStart c) (k fuel : Nat)
    (hk : k ≤ 8) (hf : 14 ≤ fuel) : pLevel dateP k fuel (c :: s) = .err := by
  have := pLevel_err_head hd s h (8 - k) k (fuel - 6 - (8 - k)) (by omega)
  have e : fuel - 6 - (8 - k) + 6 + (8 - k) = fuel := by omega
  rw [e] at this
  exact this

/-! ## where an expression ends -/

def opStart (c : Char) : Bool :=
  c == '|' || c == '&' || c == '<' || c == '>' || c == '=' || c == '!' || c == '^' || c == '+' || c == '-' || c == '*' || c == '/'

/-- what follows a complete level-`k` expression: directly, nothing or a blank, `)`, `,`, `;`;
    then, after blanks, nothing, or a character no operator starts with, or the printed form
    (symbol and blank) of an operator of a level below `k` -/
def EEnd (X : List Char) : Prop := ∀ c, X.head? = some c → c = ' ' ∨ c = ')' ∨ c = ',' ∨ c = ';'

theorem EEnd.ends {X : List Char} (h : EEnd X) : Ends X := by
  intro c hc
  rcases h c hc with e | e | e | e <;> subst e <;> decide

theorem EEnd.no_dot {X : List Char} (h : EEnd X) : X.head? ≠ some '.' := by
  intro hc
  rcases h '.' hc with e | e | e | e <;> exact absurd e (by decide)

def Stops (k : Nat) (X : List Char) : Prop :=
  EEnd X ∧
  (space0 X = [] ∨ (∃ c r, space0 X = c :: r ∧ opStart c = false) ∨
    (∃ b j sym r, infixOf b = some (j, sym) ∧ j < k ∧ space0 X = sym ++ ' ' :: r))

theorem Stops.mono {k k' : Nat} {X : List Char} (h : Stops k X) (hk : k ≤ k') : Stops k' X := by
  obtain ⟨h1, h2⟩ := h
  refine ⟨h1, ?_⟩
  rcases h2 with h | h | ⟨b, j, sym, r, hb, hj, hs⟩
  · exact .inl h
  · exact .inr (.inl h)
  · exact .inr (.inr ⟨b, j, sym, r, hb, by omega, hs⟩)

theorem firstTag_none {α : Type} (l : List (List Char × α)) (s : List Char) (h : ∀ p ∈ l, tag p.1 s = none) :
    firstTag l s = none := by
  induction l with
  | nil => rfl
  | cons p rest ih =>
    obtain ⟨t, v⟩ := p
    have h1 : tag t s = none := h (t, v) List.mem_cons_self
    simp only [firstTag, h1]
    exact ih (fun q hq => h q (List.mem_cons_of_mem _ hq))

/-- every operator symbol starts with an operator character -/
theorem opsAt_start : ∀ (j : Nat) (p : List Char × Bin), p ∈ opsAt j → ∃ c tl, p.1 = c :: tl ∧ opStart c = true := by
  intro j p hp
  match j with
  | 0 => simp [opsAt] at hp; subst hp; exact ⟨_, _, rfl, by decide⟩
  | 1 => simp [opsAt] at hp; subst hp; exact ⟨_, _, rfl, by decide⟩
  | 2 =>
    simp [opsAt] at hp
    rcases hp with h | h | h | h | h | h | h | h <;> subst h <;> exact ⟨_, _, rfl, by decide⟩
  | 3 => simp [opsAt] at hp; subst hp; exact ⟨_, _, rfl, by decide⟩
  | 4 => simp [opsAt] at hp; subst hp; exact ⟨_, _, rfl, by decide⟩
  | 5 => simp [opsAt] at hp; subst hp; exact ⟨_, _, rfl, by decide⟩
  | 6 => simp [opsAt] at hp; rcases hp with h | h <;> subst h <;> exact ⟨_, _, rfl, by decide⟩
  | 7 => simp [opsAt] at hp; rcases hp with h | h <;> subst h <;> exact ⟨_, _, rfl, by decide⟩
  | n + 8 => simp [opsAt] at hp

theorem tag_nil_input (t : List Char) (h : t ≠ []) : tag t [] = none := by
  cases t with
  | nil => exact absurd rfl h
  | cons c tl => simp [tag, List.isPrefixOf]

theorem firstTag_ops_nil (j : Nat) : firstTag (opsAt j) [] = none := by
  apply firstTag_none
  intro p hp
  obtain ⟨c, tl, hc, _⟩ := opsAt_start j p hp
  rw [hc]; exact tag_nil_input _ (by simp)

theorem firstTag_ops_nonop (j : Nat) {c : Char} (r : List Char) (h : opStart c = false) :
    firstTag (opsAt j) (c :: r) = none := by
  apply firstTag_none
  intro p hp
  obtain ⟨c0, tl, hc, ho⟩ := opsAt_start j p hp
  rw [hc]
  exact tag_none_head _ _ (fun e => by subst e; rw [h] at ho; cases ho)

/-- a loop level `j` looking at the printed form of a lower operator: either no operator of its
    own matches, or one does by mistake (`|` of `||`, `&` of `&&`) and what is left cannot start an
    operand -/
theorem firstTag_lower (b : Bin) (j' : Nat) (sym r : List Char) (hb : infixOf b = some (j', sym)) (j : Nat)
    (hj : j = 0 ∨ j = 1 ∨ j = 2 ∨ j = 3 ∨ j = 4 ∨ j = 5 ∨ j = 6 ∨ j = 7) (hlt : j' < j) :
    firstTag (opsAt j) (sym ++ ' ' :: r) = none ∨
      ∃ op c r', firstTag (opsAt j) (sym ++ ' ' :: r) = some (op, c :: r') ∧ NoStart c := by
  cases b <;> simp only [infixOf, Option.some.injEq, Prod.mk.injEq, reduceCtorEq] at hb <;>
    obtain ⟨rfl, rfl⟩ := hb <;>
    rcases hj with rfl | rfl | rfl | rfl | rfl | rfl | rfl | rfl <;>
    first
      | omega
      | (left; simp [opsAt, firstTag, tag, List.isPrefixOf]; done)
      | (right; simp [opsAt, firstTag, tag, List.isPrefixOf, NoStart]
         first
           | exact ⟨_, _, ⟨rfl, rfl⟩, Or.inl rfl⟩
           | exact ⟨_, _, ⟨rfl, rfl⟩, Or.inr (Or.inl rfl)⟩)

/-- what a loop or the comparison level finds when the expression is over -/
theorem stops_firstTag {k : Nat} {X : List Char} (h : Stops k X) (j : Nat)
    (hj : j = 0 ∨ j = 1 ∨ j = 2 ∨ j = 3 ∨ j = 4 ∨ j = 5 ∨ j = 6 ∨ j = 7) (hk : k ≤ j) :
    firstTag (opsAt j) (space0 X) = none ∨
      ∃ op c r', firstTag (opsAt j) (space0 X) = some (op, c :: r') ∧ NoStart c := by
  rcases h.2 with h2 | ⟨c, r, h2, hc⟩ | ⟨b, j', sym, r, hb, hlt, h2⟩
  · left; rw [h2]; exact firstTag_ops_nil j
  · left; rw [h2]; exact firstTag_ops_nonop j r hc
  · rw [h2]; exact firstTag_lower b j' sym r hb j hj (by omega)

/-- **a loop stops where the expression is over** -/
theorem stop_loop {dateP} (hd : DateShape dateP) {k : Nat} {X : List Char} (h : Stops k X) (j : Nat)
    (hj : j = 0 ∨ j = 1 ∨ j = 3 ∨ j = 4 ∨ j = 5 ∨ j = 6 ∨ j = 7) (hk : k ≤ j) (fuel : Nat) (hf : 15 ≤ fuel) (e : ETree) :
    pLoop dateP j fuel e X = .ok e X := by
  obtain ⟨n, rfl⟩ : ∃ n, fuel = n + 1 := ⟨fuel - 1, by omega⟩
  have hj' : j = 0 ∨ j = 1 ∨ j = 2 ∨ j = 3 ∨ j = 4 ∨ j = 5 ∨ j = 6 ∨ j = 7 := by omega
  rcases stops_firstTag h j hj' hk with h0 | ⟨op, c, r', h0, hc⟩
  · simp only [pLoop, h0]
  · simp only [pLoop, h0, pLevel_err_head' hd r' hc (j + 1) n (by omega) (by omega)]

/-- the comparison level finds no operator where the expression is over -/
theorem stop_cmp {k : Nat} {X : List Char} (h : Stops k X) (hk : k ≤ 2) : firstTag (opsAt 2) (space0 X) = none := by
  rcases stops_firstTag h 2 (by omega) hk with h0 | ⟨op, c, r', h0, hc⟩
  · exact h0
  · -- no symbol of a level below 2 starts like a comparison
    exfalso
    rcases h.2 with h2 | ⟨c', r, h2, hc'⟩ | ⟨b, j', sym, r, hb, hlt, h2⟩
    · rw [h2, firstTag_ops_nil] at h0; cases h0
    · rw [h2, firstTag_ops_nonop 2 r hc'] at h0; cases h0
    · rw [h2] at h0
      have hj2 : j' < 2 := by omega
      cases b <;> simp only [infixOf, Option.some.injEq, Prod.mk.injEq, reduceCtorEq] at hb <;>
        obtain ⟨rfl, rfl⟩ := hb <;> first | omega | (simp [opsAt, firstTag, tag, List.isPrefixOf] at h0)

theorem stop_methods {dateP} (n : Nat) (e : ETree) (X : List Char) (h : X.head? ≠ some '.') :
    pMethods dateP (n + 1) e X = .ok e X := by
  cases X with
  | nil => simp [pMethods]
  | cons c r =>
    have hc : c ≠ '.' := fun e' => h (by simp [e'])
    simp only [pMethods]
    split
    · rename_i heq; injection heq with h1 _; exact absurd h1 hc
    · rfl

/-! ## first characters -/

theorem termC_head2 {dateP} (ctx : Ctx) (t : STerm) (h : wfT dateP ctx t = true) :
    ∃ c tl, termC t = c :: tl ∧ isSpace c = false ∧ c ≠ '!' ∧ c ≠ '(' := by
  cases t with
  | var n => simp [wfT] at h
  | int i =>
    obtain ⟨c, tl, hs, hc⟩ := intChars_head i
    refine ⟨c, tl, by simp [termC, hs], ?_⟩
    rcases hc with hc | hc
    · refine ⟨(digit_facts hc).2.2.2.2.1, ?_, ?_⟩ <;> (intro he; subst he; exact absurd hc (by decide))
    · subst hc; decide
  | str s => exact ⟨'"', escape s.toList ++ ['"'], by simp [termC, printStringChars], by decide⟩
  | date d =>
    simp only [wfT, dateOK, Bool.and_eq_true] at h
    cases htxt : (printDate d).toList with
    | nil => rw [htxt] at h; simp at h
    | cons c tl =>
      rw [htxt] at h
      have hc : Char.isDigit c = true := h.1.2
      refine ⟨c, tl, by simp [termC, htxt], (digit_facts hc).2.2.2.2.1, ?_, ?_⟩ <;>
        (intro he; subst he; exact absurd hc (by decide))
  | bytes b => exact ⟨'h', 'e' :: 'x' :: ':' :: hexEncode b, by simp [termC], by decide⟩
  | bool b =>
    cases b
    · exact ⟨'f', ['a', 'l', 's', 'e'], by simp [termC], by decide⟩
    · exact ⟨'t', ['r', 'u', 'e'], by simp [termC], by decide⟩
  | null => exact ⟨'n', ['u', 'l', 'l'], by simp [termC], by decide⟩
  | set xs =>
    by_cases he : xs.isEmpty = true
    · exact ⟨'{', [',', '}'], by simp [termC, he], by decide⟩
    · exact ⟨'{', termsC xs ++ ['}'], by simp [termC, he], by decide⟩
  | arr xs => exact ⟨'[', termsC xs ++ [']'], by simp [termC], by decide⟩
  | map kvs => exact ⟨'{', kvsC kvs ++ ['}'], by simp [termC], by decide⟩
  | param n => exact ⟨'{', n.toList ++ ['}'], by simp [termC], by decide⟩

theorem valC_head {dateP} (t : STerm) (h : wfV dateP t = true) :
    ∃ c tl, termC t = c :: tl ∧ isSpace c = false ∧ c ≠ '!' ∧ c ≠ '(' := by
  cases t with
  | var n => exact ⟨'$', n.toList, by simp [termC], by decide⟩
  | int i => exact termC_head2 (dateP := dateP) .fact _ h
  | str s => exact termC_head2 (dateP := dateP) .fact _ h
  | date d => exact termC_head2 (dateP := dateP) .fact _ h
  | bytes b => exact termC_head2 (dateP := dateP) .fact _ h
  | bool b => exact termC_head2 (dateP := dateP) .fact _ h
  | null => exact termC_head2 (dateP := dateP) .fact _ h
  | set xs => exact termC_head2 (dateP := dateP) .fact _ h
  | arr xs => exact termC_head2 (dateP := dateP) .fact _ h
  | map kvs => exact termC_head2 (dateP := dateP) .fact _ h
  | param n => exact termC_head2 (dateP := dateP) .fact _ h

end Biscuit.ExprParser
