/-
  Lemmas about the term parser model (Model/TermParser): what each alternative does on a
  text with a given first character, and the printed lexemes.
-/
import BiscuitModel.Model.TermParser
import BiscuitModel.Props.C14
set_option linter.unusedSimpArgs false
namespace Biscuit.TermParser
open Biscuit.Printer

/-! ## continuation: what follows a printed term inside a fact -/

/-- a character that follows a term: separator or closing bracket -/
def Closer (c : Char) : Prop := c = ',' ∨ c = ']' ∨ c = '}' ∨ c = ')'

/-- the text after a printed term starts with a separator or a closing bracket -/
def Cont (rest : List Char) : Prop := ∃ c r, rest = c :: r ∧ Closer c

/-- the text after the last element of a list starts with a closing bracket -/
def Close (rest : List Char) : Prop := ∃ c r, rest = c :: r ∧ (c = ']' ∨ c = '}' ∨ c = ')')

theorem Close.cont {rest} (h : Close rest) : Cont rest := by
  obtain ⟨c, r, rfl, h⟩ := h
  exact ⟨c, r, rfl, by unfold Closer; rcases h with h | h | h <;> simp [h]⟩

theorem closer_facts {c : Char} (h : Closer c) :
    isSpace c = false ∧ Char.isDigit c = false ∧ isNameChar c = false ∧ isHexTok c = false ∧ isDateDelim c = true
      ∧ c ≠ ':' := by
  rcases h with h | h | h | h <;> subst h <;> decide

/-- what may follow a token: nothing, or a character that is not a digit, a name character or a
    hex digit and that ends a date token (separators, closing brackets, blanks, `;`) -/
def Ends (rest : List Char) : Prop :=
  ∀ c, rest.head? = some c → Char.isDigit c = false ∧ isNameChar c = false ∧ isHexTok c = false ∧ isDateDelim c = true

theorem Cont.ends {rest : List Char} (h : Cont rest) : Ends rest := by
  obtain ⟨c, r, rfl, hc⟩ := h
  intro c' hc'
  simp only [List.head?_cons, Option.some.injEq] at hc'
  subst hc'
  have := closer_facts hc
  exact ⟨this.2.1, this.2.2.1, this.2.2.2.1, this.2.2.2.2.1⟩

theorem ends_nil : Ends [] := by intro c h; simp at h

/-- what the text after a printed term must satisfy for the term to be read back: a token that
    could go on (integer, date, hex digits) must be followed by something that ends it; every
    other term ends by itself (closing quote, bracket, brace, fixed keyword) -/
def EndsFor (t : Printer.STerm) (rest : List Char) : Prop :=
  match t with
  | .int _ => Ends rest
  | .date _ => Ends rest
  | .bytes _ => ∀ c, rest.head? = some c → isHexTok c = false
  | _ => True

theorem Ends.endsFor {rest : List Char} (h : Ends rest) (t : Printer.STerm) : EndsFor t rest := by
  cases t <;> simp only [EndsFor] <;> first | exact h | exact (fun c hc => (h c hc).2.2.1) | trivial

/-! ## tag, space0 -/

theorem tag_append (t rest : List Char) : tag t (t ++ rest) = some rest := by
  simp [tag, List.isPrefixOf_iff_prefix.mpr (List.prefix_append t rest)]

theorem isPrefixOf_cons_ne {a b : Char} (t s : List Char) (h : a ≠ b) : (a :: t).isPrefixOf (b :: s) = false := by
  simp [List.isPrefixOf, h]

theorem tag_none_head {a b : Char} (t s : List Char) (h : a ≠ b) : tag (a :: t) (b :: s) = none := by
  simp [tag, isPrefixOf_cons_ne t s h]

theorem space0_cons {c : Char} (s : List Char) (h : isSpace c = false) : space0 (c :: s) = c :: s := by
  simp [space0, List.dropWhile, h]

theorem space0_blank (s : List Char) : space0 (' ' :: s) = space0 s := by
  simp [space0, List.dropWhile, isSpace]

/-! ## alternatives refused on the first character -/

theorem pBraced_none_head {c : Char} (s : List Char) (h : c ≠ '{') : pBraced (c :: s) = none := by
  unfold pBraced
  split
  · rename_i heq; injection heq with h1 _; exact absurd h1 h
  · rfl

theorem parseString_none_head {c : Char} (s : List Char) (h : c ≠ '"') : parseString (c :: s) = none := by
  unfold parseString
  split
  · rename_i heq; injection heq with h1 _; exact absurd h1 h
  · rfl

/-- what is assumed of the RFC 3339 parser: it accepts only tokens that start with a digit and
    have `-` as their fifth character (`YYYY-…`) -/
structure DateShape (dateP : List Char → Option Nat) : Prop where
  head : ∀ tok t, dateP tok = some t → ∃ c r, tok = c :: r ∧ Char.isDigit c = true
  dash : ∀ tok t, dateP tok = some t → tok[4]? = some '-'

theorem pDate_none_head {dateP} (hd : DateShape dateP) {c : Char} (s : List Char) (h : Char.isDigit c = false) :
    pDate dateP (c :: s) = none := by
  unfold pDate
  split
  · rfl
  · rename_i tok hne
    cases hp : dateP ((c :: s).takeWhile fun c => !isDateDelim c) with
    | none => rfl
    | some t =>
      obtain ⟨c', r, htok, hdig⟩ := hd.head _ _ hp
      simp only [List.takeWhile] at htok
      split at htok
      · injection htok with h1 _; subst h1; rw [h] at hdig; cases hdig
      · cases htok

theorem parseDigits_none_head {c : Char} (s : List Char) (h : Char.isDigit c = false) : parseDigits (c :: s) = none := by
  simp [parseDigits, List.takeWhile, h]

theorem parseInt_none_head {c : Char} (s : List Char) (h : Char.isDigit c = false) (hm : c ≠ '-') :
    parseInt (c :: s) = none := by
  unfold parseInt
  split
  · rename_i heq; injection heq with h1 _; exact absurd h1 hm
  · rw [parseDigits_none_head s h]

theorem pBytes_none_head {c : Char} (s : List Char) (h : c ≠ 'h') : pBytes (c :: s) = none := by
  have : tag ['h', 'e', 'x', ':'] (c :: s) = none := tag_none_head _ _ (Ne.symm h)
  simp [pBytes, this]

theorem pBool_none_head {c : Char} (s : List Char) (ht : c ≠ 't') (hf : c ≠ 'f') : pBool (c :: s) = none := by
  have h1 : tag ['t', 'r', 'u', 'e'] (c :: s) = none := tag_none_head _ _ (Ne.symm ht)
  have h2 : tag ['f', 'a', 'l', 's', 'e'] (c :: s) = none := tag_none_head _ _ (Ne.symm hf)
  simp [pBool, h1, h2]

theorem pNull_none_head {c : Char} (s : List Char) (h : c ≠ 'n') : pNull (c :: s) = none := by
  have : tag ['n', 'u', 'l', 'l'] (c :: s) = none := tag_none_head _ _ (Ne.symm h)
  simp [pNull, this]

/-! ## well-formed terms: what the grammar derives (the hypothesis of the round trip) -/

def validParamL : List Char → Bool
  | c :: r => isAlphaB (lowByte c) && r.all isNameChar
  | [] => false

def validNameL (n : List Char) : Bool := !n.isEmpty && n.all isNameChar

/-- the printed date is one token that `time` reads back, starts with a digit, and its leading
    digits are followed by `-` (all true of `YYYY-MM-DDTHH:MM:SSZ`; checked, not assumed, for the
    dates of a given term) -/
def dateOK (dateP : List Char → Option Nat) (d : Nat) : Bool :=
  let txt := (printDate d).toList
  dateP txt == some d && txt.all (fun c => !isDateDelim c) &&
    (match txt with | c :: _ => c.isDigit | [] => false) &&
    ((txt.dropWhile Char.isDigit).head? == some '-')

def keyOK : SKey → Bool
  | .int i => inI64 i
  | .str _ => true
  | .param n => validParamL n.toList

def singletonParamLike : List STerm → Bool
  | [x] => paramLike x
  | _ => false

mutual
/-- the terms `term_in_fact` (`.fact`) and `term_in_set` (`.set`) derive, with the one printed
    form that reads back as something else (`{true}`, `{null}`, `{hex:…}`) left out -/
def wfT (dateP : List Char → Option Nat) : Ctx → STerm → Bool
  | _, .var _ => false
  | _, .int i => inI64 i
  | _, .str _ => true
  | _, .date d => dateOK dateP d
  | _, .bytes b => !b.isEmpty
  | _, .bool _ => true
  | _, .null => true
  | _, .param n => validParamL n.toList
  | .fact, .set xs => wfL dateP .set xs && sameKind xs && !singletonParamLike xs
  | .set, .set _ => false
  | .fact, .arr xs => wfL dateP .fact xs
  | .set, .arr _ => false
  | _, .map kvs => wfKV dateP kvs
def wfL (dateP : List Char → Option Nat) : Ctx → List STerm → Bool
  | _, [] => true
  | c, t :: ts => wfT dateP c t && wfL dateP c ts
def wfKV (dateP : List Char → Option Nat) : List (SKey × STerm) → Bool
  | [] => true
  | (k, t) :: kvs => keyOK k && wfT dateP .fact t && wfKV dateP kvs
end

def wfPred (dateP : List Char → Option Nat) (p : SPred) : Bool :=
  validNameL p.name.toList && !p.terms.isEmpty && wfL dateP .fact p.terms

/-! ## printed lexemes -/

theorem digit_facts {c : Char} (h : Char.isDigit c = true) :
    c ≠ '{' ∧ c ≠ '"' ∧ c ≠ '-' ∧ isDateDelim c = false ∧ isSpace c = false ∧ isAlphaB (lowByte c) = false ∧ c ≠ '[' := by
  have hr : 48 ≤ c.val.toNat ∧ c.val.toNat ≤ 57 := by
    simp only [Char.isDigit, Bool.and_eq_true, decide_eq_true_eq] at h
    exact ⟨by have := h.1; exact UInt32.le_iff_toNat_le.mp this, by have := h.2; exact UInt32.le_iff_toNat_le.mp this⟩
  refine ⟨?_, ?_, ?_, ?_, ?_, ?_, ?_⟩
  all_goals first
    | (intro he; subst he; revert h; decide)
    | skip
  · simp only [isDateDelim, Bool.or_eq_false_iff, beq_eq_false_iff_ne, ne_eq]
    refine ⟨⟨⟨⟨⟨?_, ?_⟩, ?_⟩, ?_⟩, ?_⟩, ?_⟩ <;> (intro he; subst he; revert h; decide)
  · simp only [isSpace, Bool.or_eq_false_iff, beq_eq_false_iff_ne, ne_eq]
    refine ⟨⟨⟨?_, ?_⟩, ?_⟩, ?_⟩ <;> (intro he; subst he; revert h; decide)
  · have : lowByte c = c.val.toNat := by
      simp only [lowByte, Char.toNat]; omega
    simp only [isAlphaB, this, Bool.or_eq_false_iff, Bool.and_eq_false_iff, decide_eq_false_iff_not]
    omega

theorem cont_head {rest : List Char} (hc : Cont rest) {p : Char → Bool} (hp : ∀ c, Closer c → p c = false) :
    ∀ c, rest.head? = some c → p c = false := by
  obtain ⟨c, r, rfl, hcl⟩ := hc
  intro c' h
  simp only [List.head?_cons, Option.some.injEq] at h
  subst h; exact hp _ hcl

theorem pDate_none_digits {dateP} (hd : DateShape dateP) (ds rest : List Char) (hall : ∀ c ∈ ds, Char.isDigit c = true)
    (hc : Ends rest) : pDate dateP (ds ++ rest) = none := by
  have htw := takeWhile_append_of_all (fun c => !isDateDelim c) ds rest
    (fun x hx => by simp [(digit_facts (hall x hx)).2.2.2.1])
    (fun c h => by simp [(hc c h).2.2.2])
  unfold pDate
  rw [htw.1]
  split
  · rfl
  · cases hp : dateP ds with
    | none => rfl
    | some t =>
      have h4 := hd.dash _ _ hp
      have hm : '-' ∈ ds := List.mem_of_getElem? h4
      have hdg : Char.isDigit '-' = true := hall _ hm
      exact absurd hdg (by decide)

theorem pAtom_int {dateP} (hd : DateShape dateP) (i : Int) (rest : List Char) (hi : inI64 i = true) (hc : Ends rest) :
    pAtom dateP (printIntChars i ++ rest) = some (.int i, rest) := by
  have hi' := hi
  simp only [inI64, Bool.and_eq_true, decide_eq_true_eq] at hi'
  have hrt := int_round_trip i rest hi'.1 hi'.2 (fun c h => (hc c h).1)
  by_cases hneg : i < 0
  · have hshape : printIntChars i ++ rest = '-' :: (printNatChars (-i).toNat ++ rest) := by
      simp [printIntChars, hneg]
    rw [hshape] at hrt ⊢
    simp only [pAtom, pParameter, pStringT, pIntT, pBraced_none_head _ (show '-' ≠ '{' by decide),
      parseString_none_head _ (show '-' ≠ '"' by decide), pDate_none_head hd _ (show Char.isDigit '-' = false by decide),
      hrt, Option.map_none, Option.map_some, alt_none, alt_some]
  · have hshape : printIntChars i = Nat.toDigits 10 i.toNat := by simp [printIntChars, printNatChars, hneg]
    have hall := toDigits_all_digit i.toNat
    cases hds : Nat.toDigits 10 i.toNat with
    | nil => exact absurd hds Nat.toDigits_ne_nil
    | cons d ds =>
      have hdd : Char.isDigit d = true := hall d (by rw [hds]; simp)
      have hdate := pDate_none_digits hd (d :: ds) rest (by rw [← hds]; exact hall) hc
      rw [hshape, hds] at hrt ⊢
      simp only [List.cons_append] at hrt hdate ⊢
      simp only [pAtom, pParameter, pStringT, pIntT, pBraced_none_head _ (digit_facts hdd).1,
        parseString_none_head _ (digit_facts hdd).2.1, hdate,
        hrt, Option.map_none, Option.map_some, alt_none, alt_some]

theorem pAtom_str {dateP} (s : String) (rest : List Char) :
    pAtom dateP (printStringChars s.toList ++ rest) = some (.str s, rest) := by
  have hrt := string_lit_round_trip s.toList rest
  have hshape : printStringChars s.toList ++ rest = '"' :: (escape s.toList ++ ['"'] ++ rest) := by
    simp [printStringChars]
  rw [hshape] at hrt ⊢
  simp only [pAtom, pParameter, pStringT, pBraced_none_head _ (show '"' ≠ '{' by decide), hrt,
    Option.map_none, Option.map_some, alt_none, alt_some, String.ofList_toList]

theorem pAtom_date {dateP} (d : Nat) (rest : List Char) (hok : dateOK dateP d = true) (hc : Ends rest) :
    pAtom dateP ((printDate d).toList ++ rest) = some (.date d, rest) := by
  simp only [dateOK, Bool.and_eq_true, beq_iff_eq, List.all_eq_true] at hok
  obtain ⟨⟨⟨hp, hall⟩, hhead⟩, _⟩ := hok
  cases htxt : (printDate d).toList with
  | nil => rw [htxt] at hhead; cases hhead
  | cons c tl =>
    rw [htxt] at hhead hall hp
    simp only at hhead
    have htw := takeWhile_append_of_all (fun c => !isDateDelim c) (c :: tl) rest hall
      (fun c h => by simp [(hc c h).2.2.2])
    simp only [List.cons_append] at htw ⊢
    simp only [pAtom, pParameter, pStringT, pDate, pBraced_none_head _ (digit_facts hhead).1,
      parseString_none_head _ (digit_facts hhead).2.1, htw.1, htw.2, hp,
      Option.map_none, Option.map_some, alt_none, alt_some]

theorem hexDigit_tok : ∀ n : Fin 16, isHexTok (hexDigit n.val) = true ∧ isNameChar (hexDigit n.val) = true := by decide

theorem hexEncode_tok (bs : List UInt8) : ∀ c ∈ hexEncode bs, isHexTok c = true ∧ isNameChar c = true := by
  induction bs with
  | nil => simp [hexEncode]
  | cons b bs ih =>
    intro c hc
    simp only [hexEncode, List.mem_cons] at hc
    rcases hc with h | h | h
    · subst h; exact hexDigit_tok ⟨b.toNat / 16, by have := b.toNat_lt; omega⟩
    · subst h; exact hexDigit_tok ⟨b.toNat % 16, by omega⟩
    · exact ih c h

theorem hexEncode_ne_nil (bs : List UInt8) (h : bs ≠ []) : hexEncode bs ≠ [] := by
  cases bs with
  | nil => exact absurd rfl h
  | cons b bs => simp [hexEncode]

theorem pAtom_bytes {dateP} (hd : DateShape dateP) (b : List UInt8) (rest : List Char) (hb : b ≠ [])
    (hc : ∀ c, rest.head? = some c → isHexTok c = false) :
    pAtom dateP (['h', 'e', 'x', ':'] ++ hexEncode b ++ rest) = some (.bytes b, rest) := by
  have htw := takeWhile_append_of_all isHexTok (hexEncode b) rest (fun c h => (hexEncode_tok b c h).1) hc
  have hhex : pHexT (hexEncode b ++ rest) = some (b, rest) := by
    unfold pHexT
    rw [htw.1, htw.2]
    split
    · rename_i h; exact absurd h (hexEncode_ne_nil b hb)
    · simp [decodePairs_hexEncode]
  have htag : tag ['h', 'e', 'x', ':'] ('h' :: 'e' :: 'x' :: ':' :: (hexEncode b ++ rest)) = some (hexEncode b ++ rest) :=
    tag_append ['h', 'e', 'x', ':'] _
  simp only [List.cons_append, List.nil_append, List.append_assoc]
  simp only [pAtom, pParameter, pStringT, pIntT, pBytes, pBraced_none_head _ (show 'h' ≠ '{' by decide),
    parseString_none_head _ (show 'h' ≠ '"' by decide), pDate_none_head hd _ (show Char.isDigit 'h' = false by decide),
    parseInt_none_head _ (show Char.isDigit 'h' = false by decide) (show 'h' ≠ '-' by decide), htag, hhex,
    Option.map_none, Option.map_some, alt_none, alt_some]

theorem pAtom_true {dateP} (hd : DateShape dateP) (rest : List Char) :
    pAtom dateP (['t', 'r', 'u', 'e'] ++ rest) = some (.bool true, rest) := by
  have htag : tag ['t', 'r', 'u', 'e'] ('t' :: 'r' :: 'u' :: 'e' :: rest) = some rest := tag_append ['t', 'r', 'u', 'e'] _
  simp only [List.cons_append, List.nil_append]
  simp only [pAtom, pParameter, pStringT, pIntT, pBool, pBraced_none_head _ (show 't' ≠ '{' by decide),
    parseString_none_head _ (show 't' ≠ '"' by decide), pDate_none_head hd _ (show Char.isDigit 't' = false by decide),
    parseInt_none_head _ (show Char.isDigit 't' = false by decide) (show 't' ≠ '-' by decide),
    pBytes_none_head _ (show 't' ≠ 'h' by decide), htag,
    Option.map_none, Option.map_some, alt_none, alt_some]

theorem pAtom_false {dateP} (hd : DateShape dateP) (rest : List Char) :
    pAtom dateP (['f', 'a', 'l', 's', 'e'] ++ rest) = some (.bool false, rest) := by
  have htag : tag ['f', 'a', 'l', 's', 'e'] ('f' :: 'a' :: 'l' :: 's' :: 'e' :: rest) = some rest :=
    tag_append ['f', 'a', 'l', 's', 'e'] _
  have htag' : tag ['t', 'r', 'u', 'e'] ('f' :: 'a' :: 'l' :: 's' :: 'e' :: rest) = none :=
    tag_none_head _ _ (by decide)
  simp only [List.cons_append, List.nil_append]
  simp only [pAtom, pParameter, pStringT, pIntT, pBool, pBraced_none_head _ (show 'f' ≠ '{' by decide),
    parseString_none_head _ (show 'f' ≠ '"' by decide), pDate_none_head hd _ (show Char.isDigit 'f' = false by decide),
    parseInt_none_head _ (show Char.isDigit 'f' = false by decide) (show 'f' ≠ '-' by decide),
    pBytes_none_head _ (show 'f' ≠ 'h' by decide), htag, htag',
    Option.map_none, Option.map_some, alt_none, alt_some]

theorem pAtom_null {dateP} (hd : DateShape dateP) (rest : List Char) :
    pAtom dateP (['n', 'u', 'l', 'l'] ++ rest) = some (.null, rest) := by
  have htag : tag ['n', 'u', 'l', 'l'] ('n' :: 'u' :: 'l' :: 'l' :: rest) = some rest := tag_append ['n', 'u', 'l', 'l'] _
  simp only [List.cons_append, List.nil_append]
  simp only [pAtom, pParameter, pStringT, pIntT, pNull, pBraced_none_head _ (show 'n' ≠ '{' by decide),
    parseString_none_head _ (show 'n' ≠ '"' by decide), pDate_none_head hd _ (show Char.isDigit 'n' = false by decide),
    parseInt_none_head _ (show Char.isDigit 'n' = false by decide) (show 'n' ≠ '-' by decide),
    pBytes_none_head _ (show 'n' ≠ 'h' by decide), pBool_none_head _ (show 'n' ≠ 't' by decide) (show 'n' ≠ 'f' by decide), htag,
    Option.map_none, Option.map_some, alt_none, alt_some]

/-- `{name}` followed by anything -/
theorem pBraced_param (n rest : List Char) (hn : validParamL n = true) :
    pBraced ('{' :: (n ++ '}' :: rest)) = some (n, rest) := by
  cases n with
  | nil => simp [validParamL] at hn
  | cons c r =>
    simp only [validParamL, Bool.and_eq_true, List.all_eq_true] at hn
    have htw := takeWhile_append_of_all isNameChar r ('}' :: rest) hn.2
      (fun c h => by simp only [List.head?_cons, Option.some.injEq] at h; subst h; decide)
    simp only [pBraced, List.cons_append, pParamName, hn.1, ↓reduceIte, htw.1, htw.2]

theorem pAtom_param {dateP} (n : String) (rest : List Char) (hn : validParamL n.toList = true) :
    pAtom dateP ('{' :: (n.toList ++ '}' :: rest)) = some (.param n, rest) := by
  simp only [pAtom, pParameter, pBraced_param _ _ hn, Option.map_some, alt_some, String.ofList_toList]

/-! ## `{` … : parameter, map or set -/

theorem pBraced_nonalpha {c : Char} (s : List Char) (h : isAlphaB (lowByte c) = false) : pBraced ('{' :: c :: s) = none := by
  simp [pBraced, pParamName, h]

theorem pBraced_nil : pBraced ['{'] = none := by simp [pBraced, pParamName]

/-- a run of name characters after `{` that is not closed by `}` is not a parameter -/
theorem pBraced_run (w Y : List Char) (hall : ∀ c ∈ w, isNameChar c = true)
    (hY : ∃ c r, Y = c :: r ∧ isNameChar c = false ∧ c ≠ '}') : pBraced ('{' :: (w ++ Y)) = none := by
  obtain ⟨c', r, rfl, hn, hne⟩ := hY
  cases w with
  | nil =>
    have ha : isAlphaB (lowByte c') = false := by
      simp only [isNameChar, Bool.or_eq_false_iff] at hn; exact hn.1.1.1
    simp [pBraced, pParamName, ha]
  | cons c tl =>
    have htw := takeWhile_append_of_all isNameChar tl (c' :: r) (fun x hx => hall x (by simp [hx]))
      (fun c h => by simp only [List.head?_cons, Option.some.injEq] at h; subst h; exact hn)
    cases ha : isAlphaB (lowByte c) with
    | false => simp [pBraced, pParamName, ha]
    | true =>
      simp only [pBraced, List.cons_append, pParamName, ha, ↓reduceIte, htw.1, htw.2]
      split
      · rename_i heq; simp only [Option.some.injEq, Prod.mk.injEq, List.cons.injEq] at heq; exact absurd heq.2.1 hne
      · rfl

theorem intChars_head (i : Int) : ∃ c tl, printIntChars i = c :: tl ∧ (Char.isDigit c = true ∨ c = '-') := by
  by_cases hneg : i < 0
  · exact ⟨'-', printNatChars (-i).toNat, by simp [printIntChars, hneg], Or.inr rfl⟩
  · cases hds : Nat.toDigits 10 i.toNat with
    | nil => exact absurd hds Nat.toDigits_ne_nil
    | cons d ds =>
      refine ⟨d, ds, by simp [printIntChars, printNatChars, hneg, hds], Or.inl ?_⟩
      exact toDigits_all_digit i.toNat d (by rw [hds]; simp)

theorem keyC_head (k : SKey) : ∃ c tl, keyC k = c :: tl ∧ isAlphaB (lowByte c) = false ∧ isSpace c = false := by
  cases k with
  | int i =>
    obtain ⟨c, tl, h, hc⟩ := intChars_head i
    refine ⟨c, tl, by simp [keyC, h], ?_⟩
    rcases hc with hc | hc
    · exact ⟨(digit_facts hc).2.2.2.2.2.1, (digit_facts hc).2.2.2.2.1⟩
    · subst hc; decide
  | str s => exact ⟨'"', escape s.toList ++ ['"'], by simp [keyC, printStringChars], by decide⟩
  | param n => exact ⟨'{', n.toList ++ ['}'], by simp [keyC], by decide⟩

theorem mem_takeWhile_sat {α} (p : α → Bool) : ∀ (l : List α) (x : α), x ∈ l.takeWhile p → p x = true := by
  intro l
  induction l with
  | nil => intro x h; simp at h
  | cons a l ih =>
    intro x h
    simp only [List.takeWhile_cons] at h
    split at h
    · rename_i ha
      simp only [List.mem_cons] at h
      rcases h with h | h
      · subst h; exact ha
      · exact ih x h
    · simp at h

/-! ## a set is not read as a map: its first element is not followed by `:` -/

/-- outcome of `map_key` that makes `separated_pair(map_key, ':', …)` return `Error` -/
def NotKey (s : List Char) : Prop :=
  pMapKey s = none ∨ ∃ k r c r', pMapKey s = some (k, r) ∧ space0 r = c :: r' ∧ c ≠ ':'

theorem cont_space0 {Y : List Char} (hY : Cont Y) : ∃ c r, Y = c :: r ∧ space0 Y = c :: r ∧ c ≠ ':' ∧ Closer c := by
  obtain ⟨c, r, rfl, hc⟩ := hY
  exact ⟨c, r, rfl, space0_cons _ (closer_facts hc).1, (closer_facts hc).2.2.2.2.2, hc⟩

theorem pMapKey_none_head {c : Char} (s : List Char) (hsp : isSpace c = false) (h1 : c ≠ '{') (h2 : c ≠ '"')
    (h3 : Char.isDigit c = false) (h4 : c ≠ '-') : pMapKey (c :: s) = none := by
  simp only [pMapKey, space0_cons _ hsp, pBraced_none_head _ h1, parseString_none_head _ h2, parseInt_none_head _ h3 h4,
    Option.map_none, alt_none]

theorem notKey_setElem {dateP} (x : STerm) (Y : List Char) (hx : wfT dateP .set x = true) (hY : Cont Y) :
    NotKey (termC x ++ Y) := by
  obtain ⟨cy, ry, hYe, hsp, hcolon, hcl⟩ := cont_space0 hY
  cases x with
  | var n => simp [wfT] at hx
  | set xs => simp [wfT] at hx
  | arr xs => simp [wfT] at hx
  | int i =>
    simp only [wfT] at hx
    have hi := hx
    simp only [inI64, Bool.and_eq_true, decide_eq_true_eq] at hi
    have hrt := int_round_trip i Y hi.1 hi.2 (cont_head hY (fun c h => (closer_facts h).2.1))
    obtain ⟨c, tl, hsh, hc⟩ := intChars_head i
    right
    refine ⟨.int i, Y, cy, ry, ?_, hYe ▸ hsp, hcolon⟩
    simp only [termC]
    rw [hsh] at hrt ⊢
    simp only [List.cons_append] at hrt ⊢
    have hcs : isSpace c = false ∧ c ≠ '{' ∧ c ≠ '"' := by
      rcases hc with hc | hc
      · exact ⟨(digit_facts hc).2.2.2.2.1, (digit_facts hc).1, (digit_facts hc).2.1⟩
      · subst hc; decide
    simp only [pMapKey, space0_cons _ hcs.1, pBraced_none_head _ hcs.2.1, parseString_none_head _ hcs.2.2, hrt,
      Option.map_none, Option.map_some, alt_none, alt_some]
  | str s =>
    have hrt := string_lit_round_trip s.toList Y
    right
    refine ⟨.str s, Y, cy, ry, ?_, hYe ▸ hsp, hcolon⟩
    simp only [termC]
    have hshape : printStringChars s.toList ++ Y = '"' :: (escape s.toList ++ ['"'] ++ Y) := by simp [printStringChars]
    rw [hshape] at hrt ⊢
    simp only [pMapKey, space0_cons _ (show isSpace '"' = false by decide), pBraced_none_head _ (show '"' ≠ '{' by decide), hrt,
      Option.map_none, Option.map_some, alt_none, alt_some, String.ofList_toList]
  | date d =>
    simp only [wfT, dateOK, Bool.and_eq_true, beq_iff_eq, List.all_eq_true] at hx
    obtain ⟨⟨⟨_, _⟩, hhead⟩, hdash⟩ := hx
    simp only [termC]
    cases htxt : (printDate d).toList with
    | nil => rw [htxt] at hhead; cases hhead
    | cons c tl =>
      rw [htxt] at hhead hdash
      simp only at hhead
      have hdf := digit_facts hhead
      -- the leading digits are followed by `-`
      have hsplit : (c :: tl) = (c :: tl).takeWhile Char.isDigit ++ (c :: tl).dropWhile Char.isDigit :=
        (List.takeWhile_append_dropWhile).symm
      cases hdw : (c :: tl).dropWhile Char.isDigit with
      | nil => rw [hdw] at hdash; cases hdash
      | cons m tl' =>
        rw [hdw] at hdash hsplit
        simp only [List.head?_cons, Option.some.injEq] at hdash
        subst hdash
        have htw := takeWhile_append_of_all Char.isDigit ((c :: tl).takeWhile Char.isDigit) ('-' :: tl' ++ Y)
          (fun x hx => mem_takeWhile_sat _ _ x hx)
          (fun c h => by simp only [List.cons_append, List.head?_cons, Option.some.injEq] at h; subst h; decide)
        have hfull : c :: tl ++ Y = (c :: tl).takeWhile Char.isDigit ++ ('-' :: tl' ++ Y) := by
          conv => lhs; rw [hsplit]
          simp
        have hpd : parseDigits (c :: (tl ++ Y)) =
            some (Nat.ofDigitChars 10 ((c :: tl).takeWhile Char.isDigit) 0, '-' :: tl' ++ Y) := by
          have : c :: (tl ++ Y) = c :: tl ++ Y := rfl
          rw [this, hfull]
          unfold parseDigits
          rw [htw.1, htw.2]
          split
          · rename_i h
            simp [List.takeWhile, hhead] at h
          · rfl
        have hpi : parseInt (c :: (tl ++ Y)) = none ∨
            ∃ v, parseInt (c :: (tl ++ Y)) = some (v, '-' :: tl' ++ Y) := by
          unfold parseInt
          split
          · rename_i r heq; injection heq with h1 _; exact absurd h1 hdf.2.2.1
          · rw [hpd]
            simp only
            split
            · exact Or.inr ⟨_, rfl⟩
            · exact Or.inl rfl
        simp only [List.cons_append]
        rcases hpi with hpi | ⟨v, hpi⟩
        · left
          simp only [pMapKey, space0_cons _ hdf.2.2.2.2.1, pBraced_none_head _ hdf.1, parseString_none_head _ hdf.2.1, hpi,
            Option.map_none, alt_none]
        · right
          refine ⟨.int v, '-' :: tl' ++ Y, '-', tl' ++ Y, ?_, space0_cons _ (by decide), by decide⟩
          simp only [pMapKey, space0_cons _ hdf.2.2.2.2.1, pBraced_none_head _ hdf.1, parseString_none_head _ hdf.2.1, hpi,
            Option.map_none, Option.map_some, alt_none, alt_some]
  | bytes b =>
    left
    simp only [termC, List.cons_append, List.nil_append]
    exact pMapKey_none_head _ (by decide) (by decide) (by decide) (by decide) (by decide)
  | bool b =>
    left
    cases b <;> simp only [termC, List.cons_append, List.nil_append, ↓reduceIte, Bool.false_eq_true] <;>
      exact pMapKey_none_head _ (by decide) (by decide) (by decide) (by decide) (by decide)
  | null =>
    left
    simp only [termC, List.cons_append, List.nil_append]
    exact pMapKey_none_head _ (by decide) (by decide) (by decide) (by decide) (by decide)
  | param n =>
    simp only [wfT] at hx
    right
    refine ⟨.param n, Y, cy, ry, ?_, hYe ▸ hsp, hcolon⟩
    simp only [termC, List.cons_append, List.append_assoc, List.nil_append]
    simp only [pMapKey, space0_cons _ (show isSpace '{' = false by decide), pBraced_param _ _ hx,
      Option.map_some, alt_some, String.ofList_toList]
  | map kvs =>
    left
    simp only [termC, List.cons_append, List.append_assoc, List.nil_append]
    have hb : pBraced ('{' :: (kvsC kvs ++ '}' :: Y)) = none := by
      cases kvs with
      | nil => simp only [kvsC, List.nil_append]; exact pBraced_nonalpha _ (by decide)
      | cons kv kvs =>
        obtain ⟨k, v⟩ := kv
        obtain ⟨c, tl, hk, ha, _⟩ := keyC_head k
        simp only [kvsC, hk, List.cons_append, List.append_assoc]
        exact pBraced_nonalpha _ ha
    simp only [pMapKey, space0_cons _ (show isSpace '{' = false by decide), hb,
      parseString_none_head _ (show '{' ≠ '"' by decide),
      parseInt_none_head _ (show Char.isDigit '{' = false by decide) (show '{' ≠ '-' by decide), Option.map_none, alt_none]

theorem pKV_err_of_notKey {dateP} (n : Nat) (s : List Char) (h : NotKey s) : pKV dateP (n + 1) s = .err := by
  rcases h with h | ⟨k, r, c, r', h, hsp, hc⟩
  · simp only [pKV, h]
  · simp only [pKV, h, hsp]
    split
    · rename_i heq; injection heq with h1 _; exact absurd h1 hc
    · rfl

/-! ## fuel -/

mutual
def needT : STerm → Nat
  | .set xs => needL xs + 5
  | .arr xs => needL xs + 5
  | .map kvs => needKV kvs + 5
  | .var _ => 1 | .int _ => 1 | .str _ => 1 | .date _ => 1 | .bytes _ => 1 | .bool _ => 1 | .null => 1 | .param _ => 1
def needL : List STerm → Nat
  | [] => 4
  | t :: ts => max (needT t) (needL ts) + 1
def needKV : List (SKey × STerm) → Nat
  | [] => 4
  | (_, t) :: kvs => max (needT t + 1) (needKV kvs) + 1
end

/-! ## generic steps of `pTerm` -/

theorem pTerm_blank {dateP} (ctx : Ctx) (fuel : Nat) (s : List Char) :
    pTerm dateP ctx fuel (' ' :: s) = pTerm dateP ctx fuel s := by
  cases fuel with
  | zero => simp [pTerm]
  | succ n => simp only [pTerm, space0_blank]

theorem pTerm_atom {dateP} (ctx : Ctx) (n : Nat) (s : List Char) (t : STerm) (r : List Char)
    (hsp : space0 s = s) (h : pAtom dateP s = some (t, r)) : pTerm dateP ctx (n + 1) s = .ok t r := by
  simp only [pTerm, hsp, h]

theorem pAtom_none_head {dateP} (hd : DateShape dateP) {c : Char} (s : List Char) (h1 : c ≠ '{') (h2 : c ≠ '"')
    (h3 : Char.isDigit c = false) (h4 : c ≠ '-') (h5 : c ≠ 'h') (h6 : c ≠ 't') (h7 : c ≠ 'f') (h8 : c ≠ 'n') :
    pAtom dateP (c :: s) = none := by
  simp only [pAtom, pParameter, pStringT, pIntT, pBraced_none_head _ h1, parseString_none_head _ h2,
    pDate_none_head hd _ h3, parseInt_none_head _ h3 h4, pBytes_none_head _ h5, pBool_none_head _ h6 h7,
    pNull_none_head _ h8, Option.map_none, alt_none]

theorem pAtom_none_brace {dateP} (hd : DateShape dateP) (X : List Char) (h : pBraced ('{' :: X) = none) :
    pAtom dateP ('{' :: X) = none := by
  simp only [pAtom, pParameter, pStringT, pIntT, h, parseString_none_head _ (show '{' ≠ '"' by decide),
    pDate_none_head hd _ (show Char.isDigit '{' = false by decide),
    parseInt_none_head _ (show Char.isDigit '{' = false by decide) (show '{' ≠ '-' by decide),
    pBytes_none_head _ (show '{' ≠ 'h' by decide), pBool_none_head _ (show '{' ≠ 't' by decide) (show '{' ≠ 'f' by decide),
    pNull_none_head _ (show '{' ≠ 'n' by decide), Option.map_none, alt_none]

theorem pArray_err_head {dateP} (n : Nat) {c : Char} (s : List Char) (hsp : isSpace c = false) (h : c ≠ '[') :
    pArray dateP (n + 1) (c :: s) = .err := by
  simp only [pArray, space0_cons _ hsp]
  split
  · rename_i heq; injection heq with h1 _; exact absurd h1 h
  · rfl

theorem pMap_err_head {dateP} (n : Nat) {c : Char} (s : List Char) (hsp : isSpace c = false) (h : c ≠ '{') :
    pMap dateP (n + 1) (c :: s) = .err := by
  simp only [pMap, space0_cons _ hsp]
  split
  · rename_i heq; injection heq with h1 _; exact absurd h1 h
  · rfl

theorem pSet_err_head {dateP} (n : Nat) {c : Char} (s : List Char) (hsp : isSpace c = false) (h : c ≠ '{') :
    pSet dateP (n + 1) (c :: s) = .err := by
  simp only [pSet, tag_none_head _ _ (Ne.symm h), space0_cons _ hsp]
  split
  · rename_i heq; injection heq with h1 _; exact absurd h1 h
  · rfl

/-- on a separator or a closing bracket `term` returns `Error` (so that an enclosing list ends) -/
theorem pTerm_err_closer {dateP} (hd : DateShape dateP) (ctx : Ctx) (n : Nat) {c : Char} (s : List Char) (hc : Closer c) :
    pTerm dateP ctx (n + 2) (c :: s) = .err := by
  have hsp := (closer_facts hc).1
  have hat : pAtom dateP (c :: s) = none := by
    apply pAtom_none_head hd <;> rcases hc with h | h | h | h <;> subst h <;> decide
  have h1 : c ≠ '[' := by rcases hc with h | h | h | h <;> subst h <;> decide
  have h2 : c ≠ '{' := by rcases hc with h | h | h | h <;> subst h <;> decide
  simp only [pTerm, space0_cons _ hsp, hat, pArray_err_head n _ hsp h1, pMap_err_head n _ hsp h2, pSet_err_head n _ hsp h2]
  cases ctx <;> simp

theorem termC_head {dateP} (ctx : Ctx) (t : STerm) (h : wfT dateP ctx t = true) :
    ∃ c tl, termC t = c :: tl ∧ isSpace c = false ∧ c ≠ '}' ∧ c ≠ ',' := by
  cases t with
  | var n => simp [wfT] at h
  | int i =>
    obtain ⟨c, tl, hs, hc⟩ := intChars_head i
    refine ⟨c, tl, by simp [termC, hs], ?_⟩
    rcases hc with hc | hc
    · refine ⟨(digit_facts hc).2.2.2.2.1, ?_, ?_⟩ <;> (intro he; subst he; exact absurd hc (by decide))
    · subst hc; decide
  | str s => exact ⟨'"', escape s.toList ++ ['"'], by simp [termC, printStringChars], by decide⟩
  | date d =>
    simp only [wfT, dateOK, Bool.and_eq_true] at h
    cases htxt : (printDate d).toList with
    | nil => rw [htxt] at h; simp at h
    | cons c tl =>
      rw [htxt] at h
      have hc : Char.isDigit c = true := h.1.2
      refine ⟨c, tl, by simp [termC, htxt], (digit_facts hc).2.2.2.2.1, ?_, ?_⟩ <;>
        (intro he; subst he; exact absurd hc (by decide))
  | bytes b => exact ⟨'h', 'e' :: 'x' :: ':' :: hexEncode b, by simp [termC], by decide⟩
  | bool b =>
    cases b
    · exact ⟨'f', ['a', 'l', 's', 'e'], by simp [termC], by decide⟩
    · exact ⟨'t', ['r', 'u', 'e'], by simp [termC], by decide⟩
  | null => exact ⟨'n', ['u', 'l', 'l'], by simp [termC], by decide⟩
  | set xs =>
    by_cases he : xs.isEmpty = true
    · exact ⟨'{', [',', '}'], by simp [termC, he], by decide⟩
    · exact ⟨'{', termsC xs ++ ['}'], by simp [termC, he], by decide⟩
  | arr xs => exact ⟨'[', termsC xs ++ [']'], by simp [termC], by decide⟩
  | map kvs => exact ⟨'{', kvsC kvs ++ ['}'], by simp [termC], by decide⟩
  | param n => exact ⟨'{', n.toList ++ ['}'], by simp [termC], by decide⟩

theorem space0_termC {dateP} (ctx : Ctx) (t : STerm) (rest : List Char) (h : wfT dateP ctx t = true) :
    space0 (termC t ++ rest) = termC t ++ rest := by
  obtain ⟨c, tl, hs, hc, _⟩ := termC_head ctx t h
  rw [hs]; exact space0_cons _ hc

/-! ## map keys -/

theorem pMapKey_key (k : SKey) (r : List Char) (hk : keyOK k = true) :
    pMapKey (keyC k ++ ':' :: r) = some (k, ':' :: r) := by
  cases k with
  | int i =>
    simp only [keyOK] at hk
    have hi := hk
    simp only [inI64, Bool.and_eq_true, decide_eq_true_eq] at hi
    have hrt := int_round_trip i (':' :: r) hi.1 hi.2
      (fun c h => by simp only [List.head?_cons, Option.some.injEq] at h; subst h; decide)
    obtain ⟨c, tl, hsh, hc⟩ := intChars_head i
    simp only [keyC]
    rw [hsh] at hrt ⊢
    simp only [List.cons_append] at hrt ⊢
    have hcs : isSpace c = false ∧ c ≠ '{' ∧ c ≠ '"' := by
      rcases hc with hc | hc
      · exact ⟨(digit_facts hc).2.2.2.2.1, (digit_facts hc).1, (digit_facts hc).2.1⟩
      · subst hc; decide
    simp only [pMapKey, space0_cons _ hcs.1, pBraced_none_head _ hcs.2.1, parseString_none_head _ hcs.2.2, hrt,
      Option.map_none, Option.map_some, alt_none, alt_some]
  | str s =>
    have hrt := string_lit_round_trip s.toList (':' :: r)
    simp only [keyC]
    have hshape : printStringChars s.toList ++ ':' :: r = '"' :: (escape s.toList ++ ['"'] ++ ':' :: r) := by
      simp [printStringChars]
    rw [hshape] at hrt ⊢
    simp only [pMapKey, space0_cons _ (show isSpace '"' = false by decide), pBraced_none_head _ (show '"' ≠ '{' by decide), hrt,
      Option.map_none, Option.map_some, alt_none, alt_some, String.ofList_toList]
  | param n =>
    simp only [keyOK] at hk
    simp only [keyC, List.cons_append, List.append_assoc, List.nil_append]
    simp only [pMapKey, space0_cons _ (show isSpace '{' = false by decide), pBraced_param _ _ hk,
      Option.map_some, alt_some, String.ofList_toList]

theorem pMapKey_blank (s : List Char) : pMapKey (' ' :: s) = pMapKey s := by
  simp only [pMapKey, space0_blank]

/-! ## a printed set is not read as a parameter -/

theorem pBraced_set {dateP} (x : STerm) (xs : List STerm) (rest : List Char) (hx : wfT dateP .set x = true)
    (hns : singletonParamLike (x :: xs) = false) :
    pBraced ('{' :: (termC x ++ (tailC xs ++ '}' :: rest))) = none := by
  have hY : xs ≠ [] → ∃ c r, tailC xs ++ '}' :: rest = c :: r ∧ isNameChar c = false ∧ c ≠ '}' := by
    intro hne
    cases xs with
    | nil => exact absurd rfl hne
    | cons y ys => exact ⟨',', ' ' :: (termC y ++ (tailC ys ++ '}' :: rest)), by simp [tailC], by decide, by decide⟩
  cases x with
  | var n => simp [wfT] at hx
  | set ys => simp [wfT] at hx
  | arr ys => simp [wfT] at hx
  | int i =>
    obtain ⟨c, tl, hs, hc⟩ := intChars_head i
    simp only [termC, hs, List.cons_append]
    apply pBraced_nonalpha
    rcases hc with hc | hc
    · exact (digit_facts hc).2.2.2.2.2.1
    · subst hc; decide
  | str s =>
    simp only [termC, printStringChars, List.cons_append]
    exact pBraced_nonalpha _ (by decide)
  | date d =>
    simp only [wfT, dateOK, Bool.and_eq_true] at hx
    cases htxt : (printDate d).toList with
    | nil => rw [htxt] at hx; simp at hx
    | cons c tl =>
      rw [htxt] at hx
      simp only [termC, htxt, List.cons_append]
      exact pBraced_nonalpha _ (digit_facts hx.1.2).2.2.2.2.2.1
  | param n =>
    simp only [termC, List.cons_append]
    exact pBraced_nonalpha _ (by decide)
  | map kvs =>
    simp only [termC, List.cons_append]
    exact pBraced_nonalpha _ (by decide)
  | bytes b =>
    have hne : xs ≠ [] := by
      intro h; subst h; simp [singletonParamLike, paramLike] at hns
    simp only [termC]
    apply pBraced_run _ _ _ (hY hne)
    intro c hc
    simp only [List.cons_append, List.nil_append, List.mem_cons] at hc
    rcases hc with h | h | h | h | h
    · subst h; decide
    · subst h; decide
    · subst h; decide
    · subst h; decide
    · exact (hexEncode_tok b c h).2
  | bool b =>
    have hne : xs ≠ [] := by
      intro h; subst h; simp [singletonParamLike, paramLike] at hns
    cases b
    · simp only [termC, Bool.false_eq_true, ↓reduceIte]
      exact pBraced_run _ _ (by decide) (hY hne)
    · simp only [termC, ↓reduceIte]
      exact pBraced_run _ _ (by decide) (hY hne)
  | null =>
    have hne : xs ≠ [] := by
      intro h; subst h; simp [singletonParamLike, paramLike] at hns
    simp only [termC]
    exact pBraced_run _ _ (by decide) (hY hne)

/-! ## one step of each container parser, given what its parts return -/

theorem pTerm_of_array {dateP} (n : Nat) (s : List Char) (t : STerm) (r : List Char) (hsp : space0 s = s)
    (hat : pAtom dateP s = none) (h : pArray dateP n s = .ok t r) : pTerm dateP .fact (n + 1) s = .ok t r := by
  simp only [pTerm, hsp, hat, ↓reduceIte, h]

theorem pTerm_of_map {dateP} (ctx : Ctx) (n : Nat) (s : List Char) (t : STerm) (r : List Char) (hsp : space0 s = s)
    (hat : pAtom dateP s = none) (harr : pArray dateP n s = .err) (h : pMap dateP n s = .ok t r) :
    pTerm dateP ctx (n + 1) s = .ok t r := by
  cases ctx <;> simp [pTerm, hsp, hat, harr, h]

theorem pTerm_of_set {dateP} (n : Nat) (s : List Char) (t : STerm) (r : List Char) (hsp : space0 s = s)
    (hat : pAtom dateP s = none) (harr : pArray dateP n s = .err) (hmap : pMap dateP n s = .err)
    (h : pSet dateP n s = .ok t r) : pTerm dateP .fact (n + 1) s = .ok t r := by
  simp only [pTerm, hsp, hat, ↓reduceIte, harr, hmap, h]

theorem pArray_of_terms {dateP} (n : Nat) (X : List Char) (ts : List STerm) (r : List Char)
    (h : pTerms0 dateP .fact false n X = .ok ts (']' :: r)) : pArray dateP (n + 1) ('[' :: X) = .ok (.arr ts) r := by
  simp only [pArray, space0_cons _ (show isSpace '[' = false by decide), h, space0_cons _ (show isSpace ']' = false by decide)]

theorem pMap_of_kvs {dateP} (n : Nat) (X : List Char) (kvs : List (SKey × STerm)) (r : List Char)
    (h : pKVs0 dateP n X = .ok kvs ('}' :: r)) : pMap dateP (n + 1) ('{' :: X) = .ok (.map kvs) r := by
  simp only [pMap, space0_cons _ (show isSpace '{' = false by decide), h, space0_cons _ (show isSpace '}' = false by decide)]

theorem tag_set_none {c : Char} (s : List Char) (h : c ≠ ',') : tag ['{', ',', '}'] ('{' :: c :: s) = none := by
  simp [tag, List.isPrefixOf, Ne.symm h]

theorem pSet_of_terms {dateP} (n : Nat) (X : List Char) (ts : List STerm) (r : List Char)
    (htag : tag ['{', ',', '}'] ('{' :: X) = none) (hk : sameKind ts = true)
    (h : pTerms1 dateP .set false n X = .ok ts ('}' :: r)) : pSet dateP (n + 1) ('{' :: X) = .ok (.set ts) r := by
  simp only [pSet, htag, space0_cons _ (show isSpace '{' = false by decide), h, hk, Bool.not_true, Bool.false_eq_true,
    ↓reduceIte, space0_cons _ (show isSpace '}' = false by decide)]

theorem pSet_empty {dateP} (n : Nat) (r : List Char) : pSet dateP (n + 1) ('{' :: ',' :: '}' :: r) = .ok (.set []) r := by
  have : tag ['{', ',', '}'] ('{' :: ',' :: '}' :: r) = some r := tag_append ['{', ',', '}'] r
  simp only [pSet, this]

/-- a `{` whose contents do not start with a key and `:` is not a map (and the contents do not
    start with `}`) -/
theorem pMap_err_of_notKey {dateP} (n : Nat) (X : List Char) (hk : NotKey X)
    (hX : ∃ c r, space0 X = c :: r ∧ c ≠ '}') : pMap dateP (n + 3) ('{' :: X) = .err := by
  obtain ⟨c, r, hsp, hc⟩ := hX
  simp only [pMap, space0_cons _ (show isSpace '{' = false by decide), pKVs0, pKV_err_of_notKey n X hk, hsp]
  split
  · rename_i heq; injection heq with h1 _; exact absurd h1 hc
  · rfl

theorem pKV_ok {dateP} (j : Nat) (k : SKey) (v : STerm) (Y : List Char) (hk : keyOK k = true)
    (hv : pTerm dateP .fact j (termC v ++ Y) = .ok v Y) :
    pKV dateP (j + 1) (keyC k ++ ':' :: ' ' :: (termC v ++ Y)) = .ok (k, v) Y := by
  simp only [pKV, pMapKey_key k _ hk, space0_cons _ (show isSpace ':' = false by decide), pTerm_blank, hv]

theorem pTermsTail_cons {dateP} (ctx : Ctx) (ce : Bool) (n : Nat) (t : STerm) (ts : List STerm) (Y rest : List Char)
    (ht : pTerm dateP ctx n (termC t ++ Y) = .ok t Y) (hts : pTermsTail dateP ctx ce n Y = .ok ts rest) :
    pTermsTail dateP ctx ce (n + 1) (',' :: ' ' :: (termC t ++ Y)) = .ok (t :: ts) rest := by
  simp only [pTermsTail, space0_cons _ (show isSpace ',' = false by decide), pTerm_blank, ht, hts]

theorem pTermsTail_nil {dateP} (ctx : Ctx) (ce : Bool) (n : Nat) (rest : List Char) (hc : Close rest) :
    pTermsTail dateP ctx ce (n + 1) rest = .ok [] rest := by
  obtain ⟨c, r, rfl, hcl⟩ := hc
  have hsp : isSpace c = false := by rcases hcl with h | h | h <;> subst h <;> decide
  have hne : c ≠ ',' := by rcases hcl with h | h | h <;> subst h <;> decide
  simp only [pTermsTail, space0_cons _ hsp]
  split
  · rename_i heq; injection heq with h1 _; exact absurd h1 hne
  · rfl

theorem pTerms0_cons {dateP} (ctx : Ctx) (ce : Bool) (n : Nat) (t : STerm) (ts : List STerm) (Y rest : List Char)
    (ht : pTerm dateP ctx n (termC t ++ Y) = .ok t Y) (hts : pTermsTail dateP ctx ce n Y = .ok ts rest) :
    pTerms0 dateP ctx ce (n + 1) (termC t ++ Y) = .ok (t :: ts) rest := by
  simp only [pTerms0, ht, hts]

theorem pTerms1_cons {dateP} (ctx : Ctx) (ce : Bool) (n : Nat) (t : STerm) (ts : List STerm) (Y rest : List Char)
    (ht : pTerm dateP ctx n (termC t ++ Y) = .ok t Y) (hts : pTermsTail dateP ctx ce n Y = .ok ts rest) :
    pTerms1 dateP ctx ce (n + 1) (termC t ++ Y) = .ok (t :: ts) rest := by
  simp only [pTerms1, ht, hts]

theorem pKVsTail_cons {dateP} (n : Nat) (kv : SKey × STerm) (kvs : List (SKey × STerm)) (Y Z rest : List Char)
    (hkv : pKV dateP n Z = .ok kv Y) (hts : pKVsTail dateP n Y = .ok kvs rest) :
    pKVsTail dateP (n + 1) (',' :: ' ' :: Z) = .ok (kv :: kvs) rest := by
  have hb : pKV dateP n (' ' :: Z) = pKV dateP n Z := by
    cases n with
    | zero => simp [pKV]
    | succ m => simp only [pKV, pMapKey_blank]
  simp only [pKVsTail, space0_cons _ (show isSpace ',' = false by decide), hb, hkv, hts]

theorem pKVs0_cons {dateP} (n : Nat) (kv : SKey × STerm) (kvs : List (SKey × STerm)) (Y Z rest : List Char)
    (hkv : pKV dateP n Z = .ok kv Y) (hts : pKVsTail dateP n Y = .ok kvs rest) :
    pKVs0 dateP (n + 1) Z = .ok (kv :: kvs) rest := by
  simp only [pKVs0, hkv, hts]

theorem cont_tail (ts : List STerm) (rest : List Char) (hc : Close rest) : Cont (tailC ts ++ rest) := by
  cases ts with
  | nil => simpa [tailC] using hc.cont
  | cons t ts => exact ⟨',', _, by simp [tailC]; rfl, Or.inl rfl⟩

theorem cont_kvTail (kvs : List (SKey × STerm)) (rest : List Char) : Cont (kvTailC kvs ++ '}' :: rest) := by
  cases kvs with
  | nil => exact ⟨'}', rest, by simp [kvTailC], Or.inr (Or.inr (Or.inl rfl))⟩
  | cons kv kvs => obtain ⟨k, v⟩ := kv; exact ⟨',', _, by simp [kvTailC]; rfl, Or.inl rfl⟩

end Biscuit.TermParser
