/-
  Helper lemmas about the engine model (monotonicity of the join, the fact store,
  the result collector).  Property theorems are in Props/C05.lean.
-/
import BiscuitModel.Model.Datalog
namespace Biscuit

abbrev OFact := List Nat × Fact

theorem combine_mono {F F' : List OFact} (h : ∀ x ∈ F, x ∈ F') :
    ∀ (ps : List Predicate) (m : MV) (y : List Nat × Bindings), y ∈ combine F ps m → y ∈ combine F' ps m := by
  intro ps
  induction ps with
  | nil => intro m y hy; simpa [combine] using hy
  | cons p rest ih =>
    intro m y hy
    simp only [combine, List.mem_flatMap] at hy ⊢
    obtain ⟨of, hof, hy⟩ := hy
    refine ⟨of, h of hof, ?_⟩
    split at hy
    · rename_i hm
      rw [if_pos hm]
      split at hy
      · rename_i m' hb
        simp only [List.mem_map] at hy ⊢
        obtain ⟨ob, hob, rfl⟩ := hy
        exact ⟨ob, ih m' ob hob, rfl⟩
      · cases hy
    · cases hy

theorem visible_mono {F F' : List OFact} (t : List Nat) (h : ∀ x ∈ F, x ∈ F') :
    ∀ x ∈ visible t F, x ∈ visible t F' := by
  intro x hx
  simp only [visible, List.mem_filter] at hx ⊢
  exact ⟨h x hx.1, hx.2⟩

theorem applyRule_mono {F F' : List OFact} (h : ∀ x ∈ F, x ∈ F') (syms : SymbolTable) (blk : Nat) (r : Rule)
    (y : Except ExprErr (Option OFact)) (hy : y ∈ applyRule syms F blk r) : y ∈ applyRule syms F' blk r := by
  simp only [applyRule, List.mem_map] at hy ⊢
  obtain ⟨ob, hob, rfl⟩ := hy
  exact ⟨ob, combine_mono h _ _ _ hob, rfl⟩

theorem mem_stepResults {syms : SymbolTable} {rules : List SRule} {facts : List OFact}
    {y : Except ExprErr (Option OFact)} :
    y ∈ stepResults syms rules facts ↔
      ∃ sr ∈ rules, y ∈ applyRule syms (visible sr.trusted facts) sr.blk sr.rule := by
  simp [stepResults, List.mem_flatMap]

theorem collect_ok_mem : ∀ (rs : List (Except ExprErr (Option OFact))) (new : List OFact),
    collect rs = .ok new → ∀ y, (y ∈ new ↔ .ok (some y) ∈ rs) := by
  intro rs
  induction rs with
  | nil => intro new h y; simp [collect] at h; subst h; simp
  | cons r rest ih =>
    intro new h y
    match r with
    | .error e => simp [collect] at h
    | .ok none =>
      simp only [collect] at h
      rw [ih new h y]; simp
    | .ok (some z) =>
      simp only [collect] at h
      cases hc : collect rest with
      | error e => rw [hc] at h; simp [Except.map] at h
      | ok l =>
        rw [hc] at h; simp only [Except.map] at h
        injection h with h; subst h
        simp only [List.mem_cons, ih l hc y]
        constructor
        · rintro (rfl | h)
          · exact .inl rfl
          · exact .inr h
        · rintro (h | h)
          · injection h with h; injection h with h; exact .inl h
          · exact .inr h

theorem collect_ok_no_error : ∀ (rs : List (Except ExprErr (Option OFact))) (new : List OFact),
    collect rs = .ok new → ∀ e, .error e ∉ rs := by
  intro rs
  induction rs with
  | nil => intro new _ e; simp
  | cons r rest ih =>
    intro new h e
    match r with
    | .error e' => simp [collect] at h
    | .ok none =>
      simp only [collect] at h
      simp [ih new h e]
    | .ok (some z) =>
      simp only [collect] at h
      cases hc : collect rest with
      | error e' => rw [hc] at h; simp [Except.map] at h
      | ok l => simp [ih l hc e]

theorem collect_error_mem : ∀ (rs : List (Except ExprErr (Option OFact))) (e : ExprErr),
    collect rs = .error e → .error e ∈ rs := by
  intro rs
  induction rs with
  | nil => intro e h; simp [collect] at h
  | cons r rest ih =>
    intro e h
    match r with
    | .error e' => simp [collect] at h; subst h; simp
    | .ok none => simp only [collect] at h; exact List.mem_cons_of_mem _ (ih e h)
    | .ok (some z) =>
      simp only [collect] at h
      cases hc : collect rest with
      | error e' =>
        rw [hc] at h; simp [Except.map] at h; subst h
        exact List.mem_cons_of_mem _ (ih _ hc)
      | ok l => rw [hc] at h; simp [Except.map] at h

/-! ### the fact store -/

theorem mem_factInsert {x y : OFact} {fs : List OFact} : x ∈ factInsert y fs ↔ x ∈ fs ∨ x = y := by
  unfold factInsert
  split
  · rename_i h
    constructor
    · exact .inl
    · rintro (h' | rfl)
      · exact h'
      · simpa using h
  · simp

theorem mem_factMerge {x : OFact} : ∀ (new fs : List OFact), x ∈ factMerge fs new ↔ x ∈ fs ∨ x ∈ new := by
  intro new
  induction new with
  | nil => intro fs; simp [factMerge]
  | cons y rest ih =>
    intro fs
    simp only [factMerge, List.foldl_cons] at ih ⊢
    rw [ih (factInsert y fs), mem_factInsert]
    simp only [List.mem_cons]
    constructor
    · rintro ((h | h) | h)
      · exact .inl h
      · exact .inr (.inl h)
      · exact .inr (.inr h)
    · rintro (h | h | h)
      · exact .inl (.inl h)
      · exact .inl (.inr h)
      · exact .inr h

theorem factInsert_length (y : OFact) (fs : List OFact) :
    (factInsert y fs = fs) ∨ (factInsert y fs).length = fs.length + 1 := by
  unfold factInsert
  split
  · exact .inl rfl
  · right; simp

theorem factMerge_length_le : ∀ (new fs : List OFact), fs.length ≤ (factMerge fs new).length := by
  intro new
  induction new with
  | nil => intro fs; simp [factMerge]
  | cons y rest ih =>
    intro fs
    simp only [factMerge, List.foldl_cons] at ih ⊢
    have h1 := ih (factInsert y fs)
    have h0 : fs.length ≤ (factInsert y fs).length := by
      rcases factInsert_length y fs with h | h
      · rw [h]; exact Nat.le_refl _
      · omega
    exact Nat.le_trans h0 h1

/-- a merge that does not grow the store leaves it unchanged: the pass added nothing -/
theorem factMerge_same_length : ∀ (new fs : List OFact),
    (factMerge fs new).length = fs.length → factMerge fs new = fs := by
  intro new
  induction new with
  | nil => intro fs _; simp [factMerge]
  | cons y rest ih =>
    intro fs h
    simp only [factMerge, List.foldl_cons] at ih h ⊢
    have h1 := factMerge_length_le rest (factInsert y fs)
    simp only [factMerge] at h1
    rcases factInsert_length y fs with h2 | h2
    · rw [h2] at h ⊢; exact ih fs h
    · omega

end Biscuit
