/-
  The wire decoder inverts the wire encoder (C02): lemmas and the round-trip theorems.
-/
import BiscuitModel.Model.WireDec
import BiscuitModel.Props.C17
set_option linter.unusedSimpArgs false
set_option linter.unusedVariables false
namespace Biscuit.Wire
open Biscuit Biscuit.Keys Gen.Field

theorem decVarint_shorter : ∀ (f : Nat) (bs : Bytes) (n : Nat) (r : Bytes), decVarint f bs = some (n, r) → r.length < bs.length
  | 0, _, _, _, h => by simp [decVarint] at h
  | f + 1, [], _, _, h => by simp [decVarint] at h
  | f + 1, b :: rest, n, r, h => by
    simp only [decVarint] at h
    split at h
    · simp only [Option.some.injEq, Prod.mk.injEq] at h; rw [← h.2]; simp
    · cases hd : decVarint f rest with
      | none => rw [hd] at h; simp at h
      | some p =>
        obtain ⟨m, r'⟩ := p
        rw [hd] at h
        simp only [Option.some.injEq, Prod.mk.injEq] at h
        have := decVarint_shorter f rest m r' hd
        rw [← h.2]; simp; omega

theorem decVarint64_shorter (bs : Bytes) (n : Nat) (r : Bytes) (h : decVarint64 bs = some (n, r)) : r.length < bs.length := by
  unfold decVarint64 at h
  cases hd : decVarint 10 bs with
  | none => rw [hd] at h; simp at h
  | some p =>
    obtain ⟨m, r'⟩ := p
    rw [hd] at h
    simp only at h
    split at h
    · simp only [Option.some.injEq, Prod.mk.injEq] at h
      rw [← h.2]; exact decVarint_shorter 10 bs m r' hd
    · simp at h

/-- with more fuel than bytes, the amount of fuel does not matter -/
theorem decFields_fuel_irrel : ∀ (f g : Nat) (bs : Bytes), bs.length < f → bs.length < g → decFields f bs = decFields g bs
  | 0, _, _, hf, _ => by omega
  | _, 0, _, _, hg => by omega
  | f + 1, g + 1, [], _, _ => by simp [decFields]
  | f + 1, g + 1, b :: bs, hf, hg => by
    have hl : (b :: bs).length = bs.length + 1 := rfl
    rw [decFields_step f (b :: bs) (by simp), decFields_step g (b :: bs) (by simp)]
    cases hk : decVarint64 (b :: bs) with
    | none => rfl
    | some p =>
      obtain ⟨k, rest⟩ := p
      have hr := decVarint64_shorter _ _ _ hk
      simp only
      split
      · rfl
      · split
        · cases hv : decVarint64 rest with
          | none => rfl
          | some q =>
            obtain ⟨n, rest'⟩ := q
            have hr' := decVarint64_shorter _ _ _ hv
            simp only
            rw [decFields_fuel_irrel f g rest' (by omega) (by omega)]
        · split
          · cases hv : decVarint64 rest with
            | none => rfl
            | some q =>
              obtain ⟨len, rest'⟩ := q
              have hr' := decVarint64_shorter _ _ _ hv
              simp only
              split
              · rw [decFields_fuel_irrel f g (rest'.drop len)
                  (by simp only [List.length_drop]; omega) (by simp only [List.length_drop]; omega)]
              · rfl
          · rfl

theorem varint_length_pos (n : Nat) : 0 < (varint n).length := by
  unfold varint varintAux; split <;> simp

theorem ne_nil_of_length_pos {α : Type} {l : List α} (h : 0 < l.length) : l ≠ [] := by
  intro e; rw [e] at h; simp at h

theorem decAll_nil : decAll [] = some [] := by simp [decAll, decFields]

theorem key_decode (f wt : Nat) (rest : Bytes) (h : f * 8 + wt < 2 ^ 64) :
    decVarint64 (key f wt ++ rest) = some (f * 8 + wt, rest) := varint_round_trip _ _ h

theorem decAll_fVarint (f n : Nat) (rest : Bytes) (hf : 0 < f) (hfb : f * 8 < 2 ^ 64) (hn : n < 2 ^ 64) :
    decAll (fVarint f n ++ rest) = (decAll rest).map ((f, .varint n) :: ·) := by
  unfold decAll fVarint
  have hk : 0 < (key f 0).length := varint_length_pos _
  have hne : key f 0 ++ varint n ++ rest ≠ [] := ne_nil_of_length_pos (by simp only [List.length_append]; omega)
  rw [decFields_step _ _ hne, List.append_assoc, key_decode f 0 _ (by omega)]
  simp only [Nat.add_zero]
  have h1 : f * 8 / 8 = f := by omega
  have h2 : f * 8 % 8 = 0 := by omega
  rw [h1, h2, if_neg (by omega), if_pos rfl, varint_round_trip n rest hn]
  simp only
  rw [decFields_fuel_irrel _ (rest.length + 1) rest (by simp only [List.length_append]; omega) (by omega)]

theorem decAll_fBytes (f : Nat) (b rest : Bytes) (hf : 0 < f) (hfb : f * 8 + 2 < 2 ^ 64) (hb : b.length < 2 ^ 64) :
    decAll (fBytes f b ++ rest) = (decAll rest).map ((f, .bytes b) :: ·) := by
  unfold decAll fBytes
  have hk : 0 < (key f 2).length := varint_length_pos _
  have hne : key f 2 ++ varint b.length ++ b ++ rest ≠ [] := ne_nil_of_length_pos (by simp only [List.length_append]; omega)
  rw [decFields_step _ _ hne]
  have e : key f 2 ++ varint b.length ++ b ++ rest = key f 2 ++ (varint b.length ++ (b ++ rest)) := by simp
  rw [e, key_decode f 2 _ hfb]
  have h1 : (f * 8 + 2) / 8 = f := by omega
  have h2 : (f * 8 + 2) % 8 = 2 := by omega
  simp only
  rw [h1, h2, if_neg (by omega), if_neg (by decide), if_pos rfl, varint_round_trip b.length (b ++ rest) hb]
  simp only [List.length_append, Nat.le_add_right, ↓reduceIte, List.drop_left', List.take_left']
  rw [decFields_fuel_irrel _ (rest.length + 1) rest (by omega) (by omega)]

/-! ## getters over lists of fields -/

theorem getBytes_append (f : Nat) : ∀ (xs ys : List (Nat × WVal)) (acc : Option Bytes),
    getBytes f (xs ++ ys) acc = (getBytes f xs acc).bind (getBytes f ys)
  | [], ys, acc => by simp [getBytes]
  | (g, .bytes b) :: xs, ys, acc => by
    simp only [List.cons_append, getBytes]
    split <;> exact getBytes_append f xs ys _
  | (g, .varint n) :: xs, ys, acc => by
    simp only [List.cons_append, getBytes]
    split
    · rfl
    · exact getBytes_append f xs ys _

theorem getVarint_append (f : Nat) : ∀ (xs ys : List (Nat × WVal)) (acc : Option Nat),
    getVarint f (xs ++ ys) acc = (getVarint f xs acc).bind (getVarint f ys)
  | [], ys, acc => by simp [getVarint]
  | (g, .varint n) :: xs, ys, acc => by
    simp only [List.cons_append, getVarint]
    split <;> exact getVarint_append f xs ys _
  | (g, .bytes b) :: xs, ys, acc => by
    simp only [List.cons_append, getVarint]
    split
    · rfl
    · exact getVarint_append f xs ys _

theorem getAllBytes_append (f : Nat) : ∀ (xs ys : List (Nat × WVal)),
    getAllBytes f (xs ++ ys) = (getAllBytes f xs).bind fun a => (getAllBytes f ys).map (a ++ ·)
  | [], ys => by cases h : getAllBytes f ys <;> simp [getAllBytes, h]
  | (g, .bytes b) :: xs, ys => by
    simp only [List.cons_append, getAllBytes]
    split
    · rw [getAllBytes_append f xs ys]
      cases getAllBytes f xs <;> cases getAllBytes f ys <;> simp
    · exact getAllBytes_append f xs ys
  | (g, .varint n) :: xs, ys => by
    simp only [List.cons_append, getAllBytes]
    split
    · rfl
    · exact getAllBytes_append f xs ys

/-- the entries of a repeated length-delimited field -/
def repeated (f : Nat) (bs : List Bytes) : List (Nat × WVal) := bs.map fun b => (f, WVal.bytes b)

theorem getBytes_repeated (f g : Nat) (h : g ≠ f) : ∀ (bs : List Bytes) (acc : Option Bytes),
    getBytes f (repeated g bs) acc = some acc
  | [], acc => by simp [repeated, getBytes]
  | b :: bs, acc => by
    simp only [repeated, List.map_cons, getBytes, if_neg h]
    exact getBytes_repeated f g h bs acc

theorem getVarint_repeated (f g : Nat) (h : g ≠ f) : ∀ (bs : List Bytes) (acc : Option Nat),
    getVarint f (repeated g bs) acc = some acc
  | [], acc => by simp [repeated, getVarint]
  | b :: bs, acc => by
    simp only [repeated, List.map_cons, getVarint, if_neg h]
    exact getVarint_repeated f g h bs acc

theorem getAllBytes_repeated (f : Nat) : ∀ (bs : List Bytes), getAllBytes f (repeated f bs) = some bs
  | [] => by simp [repeated, getAllBytes]
  | b :: bs => by
    have := getAllBytes_repeated f bs
    simp only [repeated] at this
    simp [repeated, getAllBytes, this]

theorem decAll_repeated (f : Nat) (hf : 0 < f) (hfb : f * 8 + 2 < 2 ^ 64) :
    ∀ (bs : List Bytes) (rest : Bytes), (∀ b ∈ bs, b.length < 2 ^ 64) →
      decAll (bs.flatMap (fun b => fBytes f b) ++ rest) = (decAll rest).map (repeated f bs ++ ·)
  | [], rest, _ => by cases h : decAll rest <;> simp [repeated, h]
  | b :: bs, rest, h => by
    simp only [List.flatMap_cons, List.append_assoc]
    rw [decAll_fBytes f b _ hf hfb (h b List.mem_cons_self),
      decAll_repeated f hf hfb bs rest (fun x hx => h x (List.mem_cons_of_mem _ hx))]
    cases h' : decAll rest <;> simp [repeated, h']

/-! ## messages -/

/-- sizes that fit the length fields: what `Small` asks of a container -/
def SmallKey (k : PubKey) : Prop := k.alg < 2 ^ 32 ∧ k.bytes.length < 2 ^ 32

theorem encPubKey_length (k : PubKey) (h : SmallKey k) : (encPubKey k).length < 2 ^ 33 := by
  have h1 : (varint k.alg).length ≤ 11 := by
    unfold varint
    have : ∀ fuel n, (varintAux fuel n).length ≤ fuel + 1 := by
      intro fuel; induction fuel with
      | zero => intro n; simp [varintAux]
      | succ m ih => intro n; unfold varintAux; split <;> simp [ih]
    exact this 10 _
  have h2 : (varint k.bytes.length).length ≤ 11 := by
    unfold varint
    have : ∀ fuel n, (varintAux fuel n).length ≤ fuel + 1 := by
      intro fuel; induction fuel with
      | zero => intro n; simp [varintAux]
      | succ m ih => intro n; unfold varintAux; split <;> simp [ih]
    exact this 10 _
  have k1 : (key publicKey_algorithm 0).length = 1 := by decide
  have k2 : (key publicKey_key 2).length = 1 := by decide
  simp only [encPubKey, fVarint, fBytes, List.length_append, k1, k2]
  have := h.2
  omega

theorem decPubKey_enc (k : PubKey) (h : SmallKey k) : decPubKey (encPubKey k) = some k := by
  unfold decPubKey encPubKey
  have e : fVarint publicKey_algorithm k.alg ++ fBytes publicKey_key k.bytes
      = fVarint publicKey_algorithm k.alg ++ (fBytes publicKey_key k.bytes ++ []) := by simp
  rw [e, decAll_fVarint _ _ _ (by decide) (by decide) (by have := h.1; omega),
    decAll_fBytes _ _ _ (by decide) (by decide) (by have := h.2; omega), decAll_nil]
  simp only [Option.map_some, List.append_nil]
  have ha : k.alg % 2 ^ 32 = k.alg := Nat.mod_eq_of_lt h.1
  simp [getVarint, getBytes, publicKey_algorithm, publicKey_key, ha]

theorem varint_length_le (n : Nat) : (varint n).length ≤ 11 := by
  unfold varint
  have : ∀ fuel n, (varintAux fuel n).length ≤ fuel + 1 := by
    intro fuel; induction fuel with
    | zero => intro n; simp [varintAux]
    | succ m ih => intro n; unfold varintAux; split <;> simp [ih]
  exact this 10 _

theorem fBytes_length_le (f : Nat) (b : Bytes) : (fBytes f b).length ≤ 22 + b.length := by
  have h1 := varint_length_le (f * 8 + 2)
  have h2 := varint_length_le b.length
  simp only [fBytes, key, List.length_append]; omega

theorem fVarint_length_le (f n : Nat) : (fVarint f n).length ≤ 22 := by
  have h1 := varint_length_le (f * 8 + 0)
  have h2 := varint_length_le n
  simp only [fVarint, key, List.length_append]; omega

def SmallExt (e : ExtSig) : Prop := SmallKey e.key ∧ e.sig.length < 2 ^ 32

def SmallBlock (b : SBlock) : Prop :=
  b.data.length < 2 ^ 32 ∧ SmallKey b.nextKey ∧ b.sig.length < 2 ^ 32 ∧
    (∀ e, b.ext = some e → SmallExt e) ∧ (∀ v, b.version = some v → v < 2 ^ 32)

def SmallProof : Proof → Prop
  | .secret sk => sk.length < 2 ^ 32
  | .sealed sig => sig.length < 2 ^ 32

theorem encExtSig_length (e : ExtSig) (h : SmallExt e) : (encExtSig e).length < 2 ^ 35 := by
  have h1 := fBytes_length_le externalSignature_signature e.sig
  have h2 := fBytes_length_le externalSignature_publicKey (encPubKey e.key)
  have h3 := encPubKey_length e.key h.1
  have h4 := h.2
  simp only [encExtSig, List.length_append]; omega

theorem decExtSig_enc (e : ExtSig) (h : SmallExt e) : decExtSig (encExtSig e) = some e := by
  unfold decExtSig encExtSig
  have hk := encPubKey_length e.key h.1
  have e' : fBytes externalSignature_signature e.sig ++ fBytes externalSignature_publicKey (encPubKey e.key)
      = fBytes externalSignature_signature e.sig ++ (fBytes externalSignature_publicKey (encPubKey e.key) ++ []) := by simp
  rw [e', decAll_fBytes _ _ _ (by decide) (by decide) (by have := h.2; omega),
    decAll_fBytes _ _ _ (by decide) (by decide) (by omega), decAll_nil]
  simp [getBytes, externalSignature_signature, externalSignature_publicKey, decPubKey_enc e.key h.1]

theorem encSBlock_length (b : SBlock) (h : SmallBlock b) : (encSBlock b).length < 2 ^ 40 := by
  obtain ⟨hd, hk, hs, he, hv⟩ := h
  have h1 := fBytes_length_le signedBlock_block b.data
  have h2 := fBytes_length_le signedBlock_nextKey (encPubKey b.nextKey)
  have h3 := encPubKey_length b.nextKey hk
  have h4 := fBytes_length_le signedBlock_signature b.sig
  unfold encSBlock
  cases hx : b.ext with
  | none =>
    cases hver : b.version with
    | none => simp only [List.length_append, List.length_nil]; omega
    | some v =>
      have h5 := fVarint_length_le signedBlock_version v
      simp only [List.length_append, List.length_nil]; omega
  | some x =>
    have h6 := fBytes_length_le signedBlock_externalSignature (encExtSig x)
    have h7 := encExtSig_length x (he x hx)
    cases hver : b.version with
    | none => simp only [List.length_append, List.length_nil]; omega
    | some v =>
      have h5 := fVarint_length_le signedBlock_version v
      simp only [List.length_append, List.length_nil]; omega

theorem decSBlock_enc (b : SBlock) (h : SmallBlock b) : decSBlock (encSBlock b) = some b := by
  obtain ⟨hd, hk, hs, he, hv⟩ := h
  have hkl := encPubKey_length b.nextKey hk
  obtain ⟨data, nk, sig, ext, ver⟩ := b
  simp only at hd hk hs he hv hkl
  unfold decSBlock encSBlock
  simp only
  cases ext with
  | none =>
    cases ver with
    | none =>
      have e' : fBytes signedBlock_block data ++ fBytes signedBlock_nextKey (encPubKey nk) ++ fBytes signedBlock_signature sig ++ [] ++ []
          = fBytes signedBlock_block data ++ (fBytes signedBlock_nextKey (encPubKey nk) ++ (fBytes signedBlock_signature sig ++ [])) := by simp
      rw [e', decAll_fBytes _ _ _ (by decide) (by decide) (by omega), decAll_fBytes _ _ _ (by decide) (by decide) (by omega),
        decAll_fBytes _ _ _ (by decide) (by decide) (by omega), decAll_nil]
      simp [getBytes, getVarint, signedBlock_block, signedBlock_nextKey, signedBlock_signature,
        signedBlock_externalSignature, signedBlock_version, decPubKey_enc nk hk]
    | some v =>
      have hv' := hv v rfl
      have e' : fBytes signedBlock_block data ++ fBytes signedBlock_nextKey (encPubKey nk) ++ fBytes signedBlock_signature sig ++ [] ++ fVarint signedBlock_version v
          = fBytes signedBlock_block data ++ (fBytes signedBlock_nextKey (encPubKey nk) ++ (fBytes signedBlock_signature sig ++ (fVarint signedBlock_version v ++ []))) := by simp
      rw [e', decAll_fBytes _ _ _ (by decide) (by decide) (by omega), decAll_fBytes _ _ _ (by decide) (by decide) (by omega),
        decAll_fBytes _ _ _ (by decide) (by decide) (by omega), decAll_fVarint _ _ _ (by decide) (by decide) (by omega), decAll_nil]
      have hm : v % 2 ^ 32 = v := Nat.mod_eq_of_lt hv'
      simp [getBytes, getVarint, signedBlock_block, signedBlock_nextKey, signedBlock_signature,
        signedBlock_externalSignature, signedBlock_version, decPubKey_enc nk hk, hm]
  | some x =>
    have hx := he x rfl
    have hxl := encExtSig_length x hx
    cases ver with
    | none =>
      have e' : fBytes signedBlock_block data ++ fBytes signedBlock_nextKey (encPubKey nk) ++ fBytes signedBlock_signature sig ++ fBytes signedBlock_externalSignature (encExtSig x) ++ []
          = fBytes signedBlock_block data ++ (fBytes signedBlock_nextKey (encPubKey nk) ++ (fBytes signedBlock_signature sig ++ (fBytes signedBlock_externalSignature (encExtSig x) ++ []))) := by simp
      rw [e', decAll_fBytes _ _ _ (by decide) (by decide) (by omega), decAll_fBytes _ _ _ (by decide) (by decide) (by omega),
        decAll_fBytes _ _ _ (by decide) (by decide) (by omega), decAll_fBytes _ _ _ (by decide) (by decide) (by omega), decAll_nil]
      simp [getBytes, getVarint, signedBlock_block, signedBlock_nextKey, signedBlock_signature,
        signedBlock_externalSignature, signedBlock_version, decPubKey_enc nk hk, decExtSig_enc x hx]
    | some v =>
      have hv' := hv v rfl
      have e' : fBytes signedBlock_block data ++ fBytes signedBlock_nextKey (encPubKey nk) ++ fBytes signedBlock_signature sig ++ fBytes signedBlock_externalSignature (encExtSig x) ++ fVarint signedBlock_version v
          = fBytes signedBlock_block data ++ (fBytes signedBlock_nextKey (encPubKey nk) ++ (fBytes signedBlock_signature sig ++ (fBytes signedBlock_externalSignature (encExtSig x) ++ (fVarint signedBlock_version v ++ [])))) := by simp
      rw [e', decAll_fBytes _ _ _ (by decide) (by decide) (by omega), decAll_fBytes _ _ _ (by decide) (by decide) (by omega),
        decAll_fBytes _ _ _ (by decide) (by decide) (by omega), decAll_fBytes _ _ _ (by decide) (by decide) (by omega),
        decAll_fVarint _ _ _ (by decide) (by decide) (by omega), decAll_nil]
      have hm : v % 2 ^ 32 = v := Nat.mod_eq_of_lt hv'
      simp [getBytes, getVarint, signedBlock_block, signedBlock_nextKey, signedBlock_signature,
        signedBlock_externalSignature, signedBlock_version, decPubKey_enc nk hk, decExtSig_enc x hx, hm]

theorem decProof_enc (p : Proof) (h : SmallProof p) : decProof (encProof p) = some p := by
  unfold decProof
  cases p with
  | secret sk =>
    have e' : encProof (.secret sk) = fBytes proof_nextSecret sk ++ [] := by simp [encProof]
    rw [e', decAll_fBytes _ _ _ (by decide) (by decide) (by simp only [SmallProof] at h; omega), decAll_nil]
    simp [foldProof, proof_nextSecret]
  | sealed sig =>
    have e' : encProof (.sealed sig) = fBytes proof_finalSignature sig ++ [] := by simp [encProof]
    rw [e', decAll_fBytes _ _ _ (by decide) (by decide) (by simp only [SmallProof] at h; omega), decAll_nil]
    simp [foldProof, proof_nextSecret, proof_finalSignature]

theorem mapM'_dec (bs : List SBlock) (h : ∀ b ∈ bs, SmallBlock b) : mapM' decSBlock (bs.map encSBlock) = some bs := by
  induction bs with
  | nil => rfl
  | cons b bs ih =>
    simp only [List.map_cons, mapM', decSBlock_enc b (h b List.mem_cons_self),
      ih (fun x hx => h x (List.mem_cons_of_mem _ hx))]

def SmallContainer (c : Container) : Prop :=
  (∀ k, c.rootKeyId = some k → k < 2 ^ 32) ∧ SmallBlock c.authority ∧ (∀ b ∈ c.blocks, SmallBlock b) ∧ SmallProof c.proof

theorem encProof_length (p : Proof) (h : SmallProof p) : (encProof p).length < 2 ^ 33 := by
  cases p with
  | secret sk =>
    have := fBytes_length_le proof_nextSecret sk
    simp only [SmallProof] at h
    simp only [encProof]; omega
  | sealed sig =>
    have := fBytes_length_le proof_finalSignature sig
    simp only [SmallProof] at h
    simp only [encProof]; omega

theorem flatMap_blocks (bs : List SBlock) :
    bs.flatMap (fun b => fBytes biscuit_blocks (encSBlock b)) = (bs.map encSBlock).flatMap (fun b => fBytes biscuit_blocks b) := by
  induction bs with
  | nil => rfl
  | cons b bs ih => simp [ih]

/-- **The wire decoder inverts the wire encoder** for every container whose fields fit their
    length prefixes (each byte string shorter than 2^32, versions / key ids / algorithm tags
    below 2^32): authority block, any number of blocks, third-party signatures, either proof. -/
theorem decContainer_enc (c : Container) (h : SmallContainer c) : decContainer (encContainer c) = some c := by
  obtain ⟨hrk, ha, hb, hp⟩ := h
  obtain ⟨rk, a, bl, p⟩ := c
  simp only at hrk ha hb hp
  have hal := encSBlock_length a ha
  have hpl := encProof_length p hp
  have hbl : ∀ x ∈ bl.map encSBlock, x.length < 2 ^ 64 := by
    intro x hx
    obtain ⟨b, hb', rfl⟩ := List.mem_map.mp hx
    have := encSBlock_length b (hb b hb')
    omega
  unfold decContainer encContainer
  simp only
  rw [flatMap_blocks]
  cases rk with
  | none =>
    have e' : [] ++ fBytes biscuit_authority (encSBlock a) ++ (bl.map encSBlock).flatMap (fun b => fBytes biscuit_blocks b) ++ fBytes biscuit_proof (encProof p)
        = fBytes biscuit_authority (encSBlock a) ++ ((bl.map encSBlock).flatMap (fun b => fBytes biscuit_blocks b) ++ (fBytes biscuit_proof (encProof p) ++ [])) := by simp
    rw [e', decAll_fBytes _ _ _ (by decide) (by decide) (by omega),
      decAll_repeated biscuit_blocks (by decide) (by decide) _ _ hbl,
      decAll_fBytes _ _ _ (by decide) (by decide) (by omega), decAll_nil]
    simp only [Option.map_some, List.append_nil]
    have g1 : getVarint biscuit_rootKeyId ((biscuit_authority, WVal.bytes (encSBlock a)) :: (repeated biscuit_blocks (bl.map encSBlock) ++ [(biscuit_proof, WVal.bytes (encProof p))])) none = some none := by
      simp only [getVarint, if_neg (show biscuit_authority ≠ biscuit_rootKeyId by decide)]
      rw [getVarint_append, getVarint_repeated _ _ (by decide)]
      simp [getVarint, biscuit_proof, biscuit_rootKeyId]
    have g2 : getBytes biscuit_authority ((biscuit_authority, WVal.bytes (encSBlock a)) :: (repeated biscuit_blocks (bl.map encSBlock) ++ [(biscuit_proof, WVal.bytes (encProof p))])) none = some (some (encSBlock a)) := by
      simp only [getBytes, if_pos rfl]
      rw [getBytes_append, getBytes_repeated _ _ (by decide)]
      simp [getBytes, biscuit_proof, biscuit_authority]
    have g3 : getAllBytes biscuit_blocks ((biscuit_authority, WVal.bytes (encSBlock a)) :: (repeated biscuit_blocks (bl.map encSBlock) ++ [(biscuit_proof, WVal.bytes (encProof p))])) = some (bl.map encSBlock) := by
      simp only [getAllBytes, if_neg (show biscuit_authority ≠ biscuit_blocks by decide)]
      rw [getAllBytes_append, getAllBytes_repeated]
      simp [getAllBytes, biscuit_proof, biscuit_blocks]
    have g4 : getBytes biscuit_proof ((biscuit_authority, WVal.bytes (encSBlock a)) :: (repeated biscuit_blocks (bl.map encSBlock) ++ [(biscuit_proof, WVal.bytes (encProof p))])) none = some (some (encProof p)) := by
      simp only [getBytes, if_neg (show biscuit_authority ≠ biscuit_proof by decide)]
      rw [getBytes_append, getBytes_repeated _ _ (by decide)]
      simp [getBytes]
    rw [g1, g2, g3, g4]
    simp [decSBlock_enc a ha, mapM'_dec bl hb, decProof_enc p hp]
  | some k =>
    have hk := hrk k rfl
    have e' : fVarint biscuit_rootKeyId k ++ fBytes biscuit_authority (encSBlock a) ++ (bl.map encSBlock).flatMap (fun b => fBytes biscuit_blocks b) ++ fBytes biscuit_proof (encProof p)
        = fVarint biscuit_rootKeyId k ++ (fBytes biscuit_authority (encSBlock a) ++ ((bl.map encSBlock).flatMap (fun b => fBytes biscuit_blocks b) ++ (fBytes biscuit_proof (encProof p) ++ []))) := by simp
    rw [e', decAll_fVarint _ _ _ (by decide) (by decide) (by omega), decAll_fBytes _ _ _ (by decide) (by decide) (by omega),
      decAll_repeated biscuit_blocks (by decide) (by decide) _ _ hbl,
      decAll_fBytes _ _ _ (by decide) (by decide) (by omega), decAll_nil]
    simp only [Option.map_some, List.append_nil]
    have g1 : getVarint biscuit_rootKeyId ((biscuit_rootKeyId, WVal.varint k) :: (biscuit_authority, WVal.bytes (encSBlock a)) :: (repeated biscuit_blocks (bl.map encSBlock) ++ [(biscuit_proof, WVal.bytes (encProof p))])) none = some (some k) := by
      simp only [getVarint, if_pos rfl, if_neg (show biscuit_authority ≠ biscuit_rootKeyId by decide)]
      rw [getVarint_append, getVarint_repeated _ _ (by decide)]
      simp [getVarint, biscuit_proof, biscuit_rootKeyId]
    have g2 : getBytes biscuit_authority ((biscuit_rootKeyId, WVal.varint k) :: (biscuit_authority, WVal.bytes (encSBlock a)) :: (repeated biscuit_blocks (bl.map encSBlock) ++ [(biscuit_proof, WVal.bytes (encProof p))])) none = some (some (encSBlock a)) := by
      simp only [getBytes, if_neg (show biscuit_rootKeyId ≠ biscuit_authority by decide), if_pos rfl]
      rw [getBytes_append, getBytes_repeated _ _ (by decide)]
      simp [getBytes, biscuit_proof, biscuit_authority]
    have g3 : getAllBytes biscuit_blocks ((biscuit_rootKeyId, WVal.varint k) :: (biscuit_authority, WVal.bytes (encSBlock a)) :: (repeated biscuit_blocks (bl.map encSBlock) ++ [(biscuit_proof, WVal.bytes (encProof p))])) = some (bl.map encSBlock) := by
      simp only [getAllBytes, if_neg (show biscuit_rootKeyId ≠ biscuit_blocks by decide), if_neg (show biscuit_authority ≠ biscuit_blocks by decide)]
      rw [getAllBytes_append, getAllBytes_repeated]
      simp [getAllBytes, biscuit_proof, biscuit_blocks]
    have g4 : getBytes biscuit_proof ((biscuit_rootKeyId, WVal.varint k) :: (biscuit_authority, WVal.bytes (encSBlock a)) :: (repeated biscuit_blocks (bl.map encSBlock) ++ [(biscuit_proof, WVal.bytes (encProof p))])) none = some (some (encProof p)) := by
      simp only [getBytes, if_neg (show biscuit_rootKeyId ≠ biscuit_proof by decide), if_neg (show biscuit_authority ≠ biscuit_proof by decide)]
      rw [getBytes_append, getBytes_repeated _ _ (by decide)]
      simp [getBytes]
    rw [g1, g2, g3, g4]
    have hm : k % 2 ^ 32 = k := Nat.mod_eq_of_lt hk
    simp [decSBlock_enc a ha, mapM'_dec bl hb, decProof_enc p hp, hm]

end Biscuit.Wire
