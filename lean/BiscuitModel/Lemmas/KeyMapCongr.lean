/-
  The key → blocks map enters the authorizer only through `trustedFromScopes`: two maps that
  give the same trusted sets for the scope lists of some elements evaluate those elements
  alike (used by C03 for third-party blocks nobody names).
-/
import BiscuitModel.Props.C04
namespace Biscuit.KMC
open Biscuit Biscuit.C04

theorem foldl_congr_mem {α β : Type} (f g : β → α → β) (l : List α) (h : ∀ a ∈ l, ∀ acc, f acc a = g acc a) :
    ∀ acc, l.foldl f acc = l.foldl g acc := by
  induction l with
  | nil => intro acc; rfl
  | cons x xs ih =>
    intro acc
    simp only [List.foldl_cons]
    rw [h x List.mem_cons_self acc]
    exact ih (fun a ha => h a (List.mem_cons_of_mem _ ha)) _

/-- the trusted set depends on the key map only through the keys the scope list names -/
theorem tfs_congr_get (scopes : List Scope) (d : List Nat) (c : Nat) (km' km : KeyMap)
    (h : ∀ k, Scope.publicKey k ∈ scopes → KeyMap.get km' k = KeyMap.get km k) :
    trustedFromScopes scopes d c km' = trustedFromScopes scopes d c km := by
  unfold trustedFromScopes
  split
  · rfl
  · apply foldl_congr_mem
    intro s hs acc
    cases s with
    | authority => rfl
    | previous => rfl
    | publicKey k => simp only [scopeStep, h k hs]

theorem get_push_ne (m : KeyMap) (k k' n : Nat) (h : k' ≠ k) : KeyMap.get (KeyMap.push m k n) k' = KeyMap.get m k' := by
  induction m with
  | nil => simp [KeyMap.push, KeyMap.get, Ne.symm h]
  | cons x xs ih =>
    obtain ⟨kx, bs⟩ := x
    simp only [KeyMap.push]
    by_cases hk : kx = k
    · subst hk
      simp [KeyMap.get, Ne.symm h]
    · simp only [hk, ↓reduceIte, KeyMap.get, ih]

/-- appending a block signed by external key `k` registers it under `k` and nothing else -/
theorem keyMapFrom_append_some (blocks : List Block) (b : Block) (k : Nat) (hb : b.extKey = some k) :
    ∀ i m, keyMapFrom (blocks ++ [b]) i m =
      (if i + blocks.length = 0 then keyMapFrom blocks i m else KeyMap.push (keyMapFrom blocks i m) k (i + blocks.length)) := by
  induction blocks with
  | nil =>
    intro i m
    simp only [List.nil_append, keyMapFrom, hb, List.length_nil, Nat.add_zero]
  | cons x xs ih =>
    intro i m
    have e : i + 1 + xs.length = i + (xs.length + 1) := by omega
    simp only [List.cons_append, keyMapFrom, List.length_cons]
    cases x.extKey with
    | none => simp only; rw [ih (i + 1) m, e]
    | some kx => simp only; rw [ih (i + 1) _, e]

theorem keyMap_append_some_get (blocks : List Block) (b : Block) (k : Nat) (hb : b.extKey = some k) (k' : Nat)
    (h : k' ≠ k) : KeyMap.get (keyMap (blocks ++ [b])) k' = KeyMap.get (keyMap blocks) k' := by
  simp only [keyMap, keyMapFrom_append_some blocks b k hb 0 []]
  split
  · rfl
  · exact get_push_ne _ _ _ _ h

/-! ## evaluation of checks and policies under two key maps -/

theorem evalCheck_go_congr (syms : SymbolTable) (F : List (List Nat × Fact)) (km' km : KeyMap) (d' d : List Nat) (blk : Nat)
    (c : Check) : ∀ qs : List QRule,
      (∀ q ∈ qs, trustedFromScopes q.scopes d' blk km' = trustedFromScopes q.scopes d blk km) →
      evalCheck.go syms F km' d' blk c qs = evalCheck.go syms F km d blk c qs := by
  intro qs
  induction qs with
  | nil => intro _; simp [evalCheck.go]
  | cons q rest ih =>
    intro h
    simp only [evalCheck.go, h q List.mem_cons_self, ih (fun x hx => h x (List.mem_cons_of_mem _ hx))]

theorem evalCheck_congr (syms : SymbolTable) (F : List (List Nat × Fact)) (km' km : KeyMap) (d' d : List Nat) (blk : Nat)
    (c : Check) (h : ∀ q ∈ c.queries, trustedFromScopes q.scopes d' blk km' = trustedFromScopes q.scopes d blk km) :
    evalCheck syms F km' d' blk c = evalCheck syms F km d blk c :=
  evalCheck_go_congr syms F km' km d' d blk c c.queries h

theorem failedChecks_congr (syms : SymbolTable) (F : List (List Nat × Fact)) (km' km : KeyMap) (d' d : List Nat) (blk : Nat)
    (mk : Nat → FailedCheck) : ∀ (cs : List Check) (i : Nat),
      (∀ c ∈ cs, ∀ q ∈ c.queries, trustedFromScopes q.scopes d' blk km' = trustedFromScopes q.scopes d blk km) →
      failedChecks syms F km' d' blk mk i cs = failedChecks syms F km d blk mk i cs := by
  intro cs
  induction cs with
  | nil => intro i _; rfl
  | cons c rest ih =>
    intro i h
    simp only [failedChecks, evalCheck_congr syms F km' km d' d blk c (h c List.mem_cons_self),
      ih (i + 1) (fun x hx => h x (List.mem_cons_of_mem _ hx))]

theorem policyMatches_congr (syms : SymbolTable) (F : List (List Nat × Fact)) (km' km : KeyMap) (d' d : List Nat) :
    ∀ qs : List QRule,
      (∀ q ∈ qs, trustedFromScopes q.scopes d' authorizerId km' = trustedFromScopes q.scopes d authorizerId km) →
      policyMatches syms F km' d' qs = policyMatches syms F km d qs := by
  intro qs
  induction qs with
  | nil => intro _; rfl
  | cons q rest ih =>
    intro h
    simp only [policyMatches, h q List.mem_cons_self, ih (fun x hx => h x (List.mem_cons_of_mem _ hx))]

theorem firstPolicy_congr (syms : SymbolTable) (F : List (List Nat × Fact)) (km' km : KeyMap) (d' d : List Nat) :
    ∀ (ps : List Policy) (i : Nat),
      (∀ p ∈ ps, ∀ q ∈ p.queries, trustedFromScopes q.scopes d' authorizerId km' = trustedFromScopes q.scopes d authorizerId km) →
      firstPolicy syms F km' d' i ps = firstPolicy syms F km d i ps := by
  intro ps
  induction ps with
  | nil => intro i _; rfl
  | cons p rest ih =>
    intro i h
    simp only [firstPolicy, policyMatches_congr syms F km' km d' d p.queries (h p List.mem_cons_self),
      ih (i + 1) (fun x hx => h x (List.mem_cons_of_mem _ hx))]

theorem blocksFailed_congr (syms : SymbolTable) (F : List (List Nat × Fact)) (km' km : KeyMap) :
    ∀ ibs : List (Nat × Block),
      (∀ ib ∈ ibs, trustedFromScopes ib.2.scopes defaultTrusted ib.1 km' = trustedFromScopes ib.2.scopes defaultTrusted ib.1 km) →
      (∀ ib ∈ ibs, ∀ c ∈ ib.2.checks, ∀ q ∈ c.queries, ∀ d,
        trustedFromScopes q.scopes d ib.1 km' = trustedFromScopes q.scopes d ib.1 km) →
      blocksFailed syms F km' ibs = blocksFailed syms F km ibs := by
  intro ibs
  induction ibs with
  | nil => intro _ _; rfl
  | cons ib rest ih =>
    intro hs hq
    obtain ⟨i, b⟩ := ib
    have e := hs (i, b) List.mem_cons_self
    simp only at e
    simp only [blocksFailed]
    rw [failedChecks_congr syms F km' km _ _ i _ b.checks 0
        (fun c hc q hq' => by rw [e]; exact hq (i, b) List.mem_cons_self c hc q hq' _),
      ih (fun x hx => hs x (List.mem_cons_of_mem _ hx)) (fun x hx => hq x (List.mem_cons_of_mem _ hx))]

theorem CheckNoErr_congr (syms : SymbolTable) (F : List (List Nat × Fact)) (km' km : KeyMap) (d' d : List Nat) (blk : Nat)
    (qs : List QRule) (h : ∀ q ∈ qs, trustedFromScopes q.scopes d' blk km' = trustedFromScopes q.scopes d blk km)
    (hn : CheckNoErr syms F km' d' blk qs) : CheckNoErr syms F km d blk qs := by
  intro q hq
  have := hn q hq
  rwa [h q hq] at this

end Biscuit.KMC
