/-
  Verdicts of checks and policies depend only on the *set* of facts, for
  evaluations without expression errors.  Used by C11 (order independence) and
  C03 (attenuation).
-/
import BiscuitModel.Props.C04
namespace Biscuit
open Biscuit.C04

/-- two fact lists with the same members (a hash store iterated in two orders) -/
def SameFacts (F F' : List (List Nat × Fact)) : Prop := ∀ x, x ∈ F ↔ x ∈ F'

theorem SameFacts.symm {F F' : List (List Nat × Fact)} (h : SameFacts F F') : SameFacts F' F :=
  fun x => (h x).symm

theorem any_congr_mem {α : Type} {l l' : List α} (p : α → Bool) (h : ∀ x, x ∈ l ↔ x ∈ l') :
    l.any p = l'.any p := by
  rw [Bool.eq_iff_iff]
  simp only [List.any_eq_true]
  constructor
  · rintro ⟨x, hx, hp⟩; exact ⟨x, (h x).mp hx, hp⟩
  · rintro ⟨x, hx, hp⟩; exact ⟨x, (h x).mpr hx, hp⟩

theorem all_congr_mem {α : Type} {l l' : List α} (p : α → Bool) (h : ∀ x, x ∈ l ↔ x ∈ l') :
    l.all p = l'.all p := by
  rw [Bool.eq_iff_iff]
  simp only [List.all_eq_true]
  constructor
  · intro hl x hx; exact hl x ((h x).mpr hx)
  · intro hl x hx; exact hl x ((h x).mp hx)

theorem isEmpty_congr_mem {α : Type} {l l' : List α} (h : ∀ x, x ∈ l ↔ x ∈ l') :
    l.isEmpty = l'.isEmpty := by
  cases l with
  | nil =>
    cases l' with
    | nil => rfl
    | cons y ys => exact absurd ((h y).mpr List.mem_cons_self) (by simp)
  | cons x xs =>
    cases l' with
    | nil => exact absurd ((h x).mp List.mem_cons_self) (by simp)
    | cons y ys => rfl

theorem visible_same {F F' : List (List Nat × Fact)} (h : SameFacts F F') (t : List Nat) :
    SameFacts (visible t F) (visible t F') :=
  fun x => ⟨visible_mono t (fun y hy => (h y).mp hy) x, visible_mono t (fun y hy => (h y).mpr hy) x⟩

theorem combine_same {F F' : List (List Nat × Fact)} (h : SameFacts F F') (ps : List Predicate) (m : MV)
    (y : List Nat × Bindings) : y ∈ combine F ps m ↔ y ∈ combine F' ps m :=
  ⟨combine_mono (fun x hx => (h x).mp hx) ps m y, combine_mono (fun x hx => (h x).mpr hx) ps m y⟩

theorem applyRule_same {F F' : List (List Nat × Fact)} (h : SameFacts F F') (syms : SymbolTable) (blk : Nat)
    (r : Rule) (y : Except ExprErr (Option (List Nat × Fact))) :
    y ∈ applyRule syms F blk r ↔ y ∈ applyRule syms F' blk r :=
  ⟨applyRule_mono (fun x hx => (h x).mp hx) syms blk r y, applyRule_mono (fun x hx => (h x).mpr hx) syms blk r y⟩

theorem NoErr_same {F F' : List (List Nat × Fact)} (h : SameFacts F F') (syms : SymbolTable) (t : List Nat) (r : Rule)
    (hn : NoErr syms F t r) : NoErr syms F' t r :=
  fun ob hob e => hn ob ((combine_same (visible_same h t) _ _ ob).mpr hob) e

theorem CheckNoErr_same {F F' : List (List Nat × Fact)} (h : SameFacts F F') (syms : SymbolTable) (km : KeyMap)
    (dflt : List Nat) (blk : Nat) (qs : List QRule) (hn : CheckNoErr syms F km dflt blk qs) :
    CheckNoErr syms F' km dflt blk qs :=
  fun q hq => NoErr_same h syms _ q.rule (hn q hq)

theorem qMatches_same {F F' : List (List Nat × Fact)} (h : SameFacts F F') (syms : SymbolTable) (km : KeyMap)
    (dflt : List Nat) (blk : Nat) (q : QRule) :
    qMatches syms F km dflt blk q = qMatches syms F' km dflt blk q := by
  unfold qMatches
  exact any_congr_mem _ (applyRule_same (visible_same h _) syms blk q.rule)

theorem qHoldsForAll_same {F F' : List (List Nat × Fact)} (h : SameFacts F F') (syms : SymbolTable) (km : KeyMap)
    (dflt : List Nat) (blk : Nat) (q : QRule) :
    qHoldsForAll syms F km dflt blk q = qHoldsForAll syms F' km dflt blk q := by
  unfold qHoldsForAll
  have hc := combine_same (visible_same h (trustedFromScopes q.scopes dflt blk km)) q.rule.body (MV.new (bodyVars q.rule.body))
  simp only
  rw [isEmpty_congr_mem hc, all_congr_mem _ hc]

/-- the verdict of a check, declaratively, by kind -/
def checkSpec (syms : SymbolTable) (F : List (List Nat × Fact)) (km : KeyMap) (dflt : List Nat) (blk : Nat) (c : Check) : Bool :=
  match c.kind with
  | .one => c.queries.any (qMatches syms F km dflt blk)
  | .all => c.queries.any (qHoldsForAll syms F km dflt blk)
  | .reject => c.queries.all fun q => !qMatches syms F km dflt blk q

theorem evalCheck_spec (syms : SymbolTable) (F : List (List Nat × Fact)) (km : KeyMap) (dflt : List Nat) (blk : Nat)
    (c : Check) (h : CheckNoErr syms F km dflt blk c.queries) :
    evalCheck syms F km dflt blk c = .ok (checkSpec syms F km dflt blk c) := by
  unfold checkSpec
  cases hk : c.kind with
  | one => exact check_one_spec syms F km dflt blk c hk h
  | all => exact check_all_spec syms F km dflt blk c hk h
  | reject => exact check_reject_spec syms F km dflt blk c hk h

theorem checkSpec_same {F F' : List (List Nat × Fact)} (h : SameFacts F F') (syms : SymbolTable) (km : KeyMap)
    (dflt : List Nat) (blk : Nat) (c : Check) :
    checkSpec syms F km dflt blk c = checkSpec syms F' km dflt blk c := by
  unfold checkSpec
  cases c.kind with
  | one => simp only; congr 1; funext q; exact qMatches_same h syms km dflt blk q
  | all => simp only; congr 1; funext q; exact qHoldsForAll_same h syms km dflt blk q
  | reject => simp only; congr 1; funext q; rw [qMatches_same h syms km dflt blk q]

/-- every check and policy of the case evaluates without expression error on `F` -/
structure AllNoErr (syms : SymbolTable) (F : List (List Nat × Fact)) (blocks : List Block) (az : AuthorizerData) : Prop where
  azChecks : ∀ c ∈ az.checks,
    CheckNoErr syms F (keyMap blocks) (authorizerTrusted az (keyMap blocks)) authorizerId c.queries
  policies : ∀ p ∈ az.policies,
    CheckNoErr syms F (keyMap blocks) (authorizerTrusted az (keyMap blocks)) authorizerId p.queries
  blockChecks : ∀ ib ∈ enumFrom 0 blocks, ∀ c ∈ ib.2.checks,
    CheckNoErr syms F (keyMap blocks) (trustedFromScopes ib.2.scopes defaultTrusted ib.1 (keyMap blocks)) ib.1 c.queries

theorem AllNoErr_same {F F' : List (List Nat × Fact)} (h : SameFacts F F') (syms : SymbolTable)
    (blocks : List Block) (az : AuthorizerData) (hn : AllNoErr syms F blocks az) : AllNoErr syms F' blocks az :=
  ⟨fun c hc => CheckNoErr_same h syms _ _ _ _ (hn.azChecks c hc),
   fun p hp => CheckNoErr_same h syms _ _ _ _ (hn.policies p hp),
   fun ib hib c hc => CheckNoErr_same h syms _ _ _ _ (hn.blockChecks ib hib c hc)⟩

theorem failedChecks_same {F F' : List (List Nat × Fact)} (h : SameFacts F F') (syms : SymbolTable) (km : KeyMap)
    (dflt : List Nat) (blk : Nat) (mk : Nat → FailedCheck) (cs : List Check) (i : Nat)
    (hn : ∀ c ∈ cs, CheckNoErr syms F km dflt blk c.queries) :
    failedChecks syms F km dflt blk mk i cs = failedChecks syms F' km dflt blk mk i cs := by
  rw [failedChecks_spec syms F km dflt blk mk (checkSpec syms F km dflt blk) cs i
        (fun c hc => evalCheck_spec syms F km dflt blk c (hn c hc)),
      failedChecks_spec syms F' km dflt blk mk (checkSpec syms F' km dflt blk) cs i
        (fun c hc => evalCheck_spec syms F' km dflt blk c (CheckNoErr_same h syms km dflt blk _ (hn c hc)))]
  congr 3
  funext ic
  rw [checkSpec_same h]

theorem blocksFailed_same {F F' : List (List Nat × Fact)} (h : SameFacts F F') (syms : SymbolTable) (km : KeyMap) :
    ∀ (ibs : List (Nat × Block)),
      (∀ ib ∈ ibs, ∀ c ∈ ib.2.checks,
        CheckNoErr syms F km (trustedFromScopes ib.2.scopes defaultTrusted ib.1 km) ib.1 c.queries) →
      blocksFailed syms F km ibs = blocksFailed syms F' km ibs := by
  intro ibs
  induction ibs with
  | nil => intro _; rfl
  | cons ib rest ih =>
    intro hn
    obtain ⟨i, b⟩ := ib
    simp only [blocksFailed]
    rw [failedChecks_same h syms km _ i _ b.checks 0 (hn (i, b) List.mem_cons_self),
        ih (fun x hx => hn x (List.mem_cons_of_mem _ hx))]

theorem firstPolicy_same {F F' : List (List Nat × Fact)} (h : SameFacts F F') (syms : SymbolTable) (km : KeyMap)
    (dflt : List Nat) (ps : List Policy) (i : Nat)
    (hn : ∀ p ∈ ps, CheckNoErr syms F km dflt authorizerId p.queries) :
    firstPolicy syms F km dflt i ps = firstPolicy syms F' km dflt i ps := by
  rw [firstPolicy_spec syms F km dflt (fun p => p.queries.any (qMatches syms F km dflt authorizerId)) ps i
        (fun p hp => policyMatches_spec syms F km dflt p.queries (hn p hp)),
      firstPolicy_spec syms F' km dflt (fun p => p.queries.any (qMatches syms F' km dflt authorizerId)) ps i
        (fun p hp => policyMatches_spec syms F' km dflt p.queries (CheckNoErr_same h syms km dflt _ _ (hn p hp)))]
  congr 3
  funext ip
  congr 1
  funext q
  exact qMatches_same h syms km dflt authorizerId q

theorem mem_take {α : Type} {x : α} {l : List α} {n : Nat} (h : x ∈ l.take n) : x ∈ l :=
  List.mem_of_mem_take h

theorem mem_drop {α : Type} {x : α} {l : List α} {n : Nat} (h : x ∈ l.drop n) : x ∈ l :=
  List.mem_of_mem_drop h

/-- **The decision depends only on the set of facts** (for error-free evaluations): two
    iteration orders of the fact store give the same result. -/
theorem decide_same {F F' : List (List Nat × Fact)} (h : SameFacts F F') (syms : SymbolTable)
    (blocks : List Block) (az : AuthorizerData) (hn : AllNoErr syms F blocks az) :
    decide syms F blocks az = decide syms F' blocks az := by
  simp only [decide]
  rw [failedChecks_same h syms _ _ _ _ az.checks 0 hn.azChecks,
      blocksFailed_same h syms _ _ (fun ib hib => hn.blockChecks ib (mem_take hib)),
      firstPolicy_same h syms _ _ az.policies 0 hn.policies,
      blocksFailed_same h syms _ _ (fun ib hib => hn.blockChecks ib (mem_drop hib))]

end Biscuit
