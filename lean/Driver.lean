/-
  bmdrv: reads one JSON case per line on stdin, answers one JSON outcome per line.
-/
import Codec
import BiscuitModel.Model.Versions
import BiscuitModel.Model.Params
import BiscuitModel.Model.Keys
import BiscuitModel.Model.Untrusted
import BiscuitModel.Model.CApi
import BiscuitModel.Model.TermParser
import BiscuitModel.Model.ExprParser
import BiscuitModel.Model.RuleParser
import BiscuitModel.Model.BlockParser
import BiscuitModel.Model.WireDec
import BiscuitModel.Model.Convert
open Lean Biscuit Biscuit.Codec

def runExpr (j : Json) : P Json := do
  let syms ← parseSymbols (← field j "symbols")
  let vals ← parseBindings (← field j "vals")
  let ops ← parseOps (← field j "ops")
  let ts := TempSyms.new ⟨syms⟩
  match eval ops vals ts with
  | .ok (t, ts') => pure (Json.mkObj [("ok", termOut ts'.getSymbol t)])
  | .error e => pure (Json.mkObj [("err", exprErrOut e)])

def sortedOrigin (o : List Nat) : List Nat := o.foldl (fun acc x => Origin.insert x acc) []

/-- outcomes of `find_match` over all iteration orders of the fact store -/
def matchOutcomes (rs : List (Except ExprErr (Option (List Nat × Fact)))) : Json :=
  let hits := rs.any fun r => match r with | .ok (some _) => true | _ => false
  let errs := rs.any fun r => match r with | .error _ => true | _ => false
  let t := Json.mkObj [("b", true)]
  let f := Json.mkObj [("b", false)]
  let e := Json.mkObj [("err", "exec")]
  if hits && errs then Json.mkObj [("any", Json.arr #[t, e])]
  else if hits then t else if errs then e else f

def allOutcomes (syms : SymbolTable) (exprs : List (List Op)) (bs : List (List Nat × Bindings)) : Json :=
  let rs := bs.map fun ob => evalExprs exprs ob.2 (TempSyms.new syms)
  let falses := rs.any fun r => match r with | .ok false => true | _ => false
  let errs := rs.any fun r => match r with | .error _ => true | _ => false
  let f := Json.mkObj [("b", false)]
  let e := Json.mkObj [("err", "exec")]
  if falses && errs then Json.mkObj [("any", Json.arr #[f, e])]
  else if falses then f else if errs then e else Json.mkObj [("b", !rs.isEmpty)]

def runEngine (j : Json) : P Json := do
  let syms : SymbolTable := ⟨← parseSymbols (← field j "symbols")⟩
  let facts ← (← getArr (← field j "facts")).mapM fun f => do
    match ← getArr f with
    | [o, p] => pure (sortedOrigin (← parseNats o), ← parsePred p)
    | _ => throw "bad fact"
  let rules ← (← getArr (← field j "rules")).mapM fun r => do
    match ← getArr r with
    | [b, t, rl] => pure (⟨← parseNats t, ← getNat b, ← parseRule rl⟩ : SRule)
    | _ => throw "bad rule"
  let lj ← field j "limits"
  let tmo : Option Nat := match fieldOpt lj "t" with
    | some (.num n) => some n.mantissa.toNat
    | _ => none
  let lim : Limits := ⟨← getNat (← field lj "f"), ← getNat (← field lj "i"), tmo⟩
  let init := factMerge [] facts
  let out := run syms rules lim init
  let r := match out.result with
    | .ok () => "ok"
    | .error e => runErrOut e
  let qs ← (← getArr (← field j "queries")).mapM fun q => do
    let kind ← (← field q "kind").getStr?
    let blk ← getNat (← field q "blk")
    let tr ← parseNats (← field q "trusted")
    let rule ← parseRule (← field q "rule")
    match kind with
    | "rule" =>
      match queryRule syms out.facts tr blk rule with
      | .ok fs => pure (Json.mkObj [("facts", factsOut fs)])
      | .error _ => pure (Json.mkObj [("err", "exec")])
    | "match" => pure (matchOutcomes (applyRule syms (visible tr out.facts) blk rule))
    | _ => pure (allOutcomes syms rule.exprs (combine (visible tr out.facts) rule.body (MV.new (bodyVars rule.body))))
  pure (Json.mkObj [("r", r), ("iterations", out.iterations), ("facts", factsOut out.facts), ("queries", Json.arr qs.toArray)])

/-- is the outcome of some check or policy of the case dependent on the iteration order of
    the fact store (a binding that matches and a binding that fails, or a counter-example and
    a failing binding)? -/
def queryAmbiguous (syms : SymbolTable) (facts : List (List Nat × Fact)) (kind : CheckKind)
    (trusted : List Nat) (blk : Nat) (r : Rule) : Bool :=
  match kind with
  | .all =>
    let rs := (combine (visible trusted facts) r.body (MV.new (bodyVars r.body))).map
      fun ob => evalExprs r.exprs ob.2 (TempSyms.new syms)
    (rs.any fun x => match x with | .ok false => true | _ => false) &&
      (rs.any fun x => match x with | .error _ => true | _ => false)
  | _ =>
    let rs := applyRule syms (visible trusted facts) blk r
    (rs.any fun x => match x with | .ok (some _) => true | _ => false) &&
      (rs.any fun x => match x with | .error _ => true | _ => false)

def errKinds (rs : List (Except ExprErr α)) : List String :=
  (rs.filterMap fun x => match x with | .error e => some (exprErrOut e) | _ => none).eraseDups

/-- several bindings of one query fail with different errors: which one is reported is order-dependent -/
def queryKindAmbiguous (syms : SymbolTable) (facts : List (List Nat × Fact))
    (trusted : List Nat) (r : Rule) : Bool :=
  let rs := (combine (visible trusted facts) r.body (MV.new (bodyVars r.body))).map
    fun ob => evalExprs r.exprs ob.2 (TempSyms.new syms)
  (errKinds rs).length > 1

def caseAmbiguous (syms : SymbolTable) (facts : List (List Nat × Fact)) (blocks : List Block) (az : AuthorizerData) : Bool :=
  let km := keyMap blocks
  let azT := authorizerTrusted az km
  let chk (dflt : List Nat) (blk : Nat) (c : Check) : Bool :=
    c.queries.any fun q => queryAmbiguous syms facts c.kind (trustedFromScopes q.scopes dflt blk km) blk q.rule
      || queryKindAmbiguous syms facts (trustedFromScopes q.scopes dflt blk km) q.rule
  az.checks.any (chk azT authorizerId) ||
  (az.policies.any fun p => p.queries.any fun q =>
    queryAmbiguous syms facts .one (trustedFromScopes q.scopes azT authorizerId km) authorizerId q.rule
      || queryKindAmbiguous syms facts (trustedFromScopes q.scopes azT authorizerId km) q.rule) ||
  ((enumFrom 0 blocks).any fun ib =>
    ib.2.checks.any (chk (trustedFromScopes ib.2.scopes defaultTrusted ib.1 km) ib.1))

def headVarsBound (r : Rule) : Bool :=
  r.head.terms.all fun t => match t with
    | .var v => (bodyVars r.body).contains v
    | _ => true

def runAuthz (j : Json) : P Json := do
  let pool ← parsePool (← field j "pool")
  let blocks ← (← getArr (← field j "blocks")).mapM parseBlock
  let az ← parseAz (← field j "az")
  let lj ← field j "limits"
  let tmo : Option Nat := match fieldOpt lj "t" with
    | some (.num n) => some n.mantissa.toNat
    | _ => none
  let lim : Limits := ⟨← getNat (← field lj "f"), ← getNat (← field lj "i"), tmo⟩
  let queries ← (← getArr (← field j "queries")).mapM fun q => do
    pure ((← (← field q "all").getBool?), ← parseQRule (← field q "q"))
  -- interning: blocks and authorizer first, then the queries, in the order they are issued
  let (tbl, blocksI, azI) := internCase pool blocks az
  let (tbl, queriesI) := queries.foldl (fun (acc : ITable × List (Bool × QRule)) q =>
    let (t', q') := internQRule pool acc.1 q.2
    (t', acc.2 ++ [(q.1, q')])) (tbl, [])
  let syms := tbl.syms
  if blocksI.any (fun b => b.rules.any fun q => !headVarsBound q.rule) then
    return Json.mkObj [("r", "invalid-rule")]
  let out := run syms (worldRules blocksI azI) lim (factMerge [] (worldFacts blocksI azI))
  let get := syms.getSymbol
  let qs : List Json := queriesI.map fun (all, q) =>
    match out.result with
    | .error e => Json.mkObj [("r", runErrOut e)]
    | .ok () =>
      let tr := if all then queryAllTrusted blocksI q else queryTrusted blocksI q
      match queryRule syms out.facts tr (if all then 0 else authorizerId) q.rule with
      | .ok fs => Json.mkObj [("facts", Json.arr (fs.map (fun of => factStr get of.2)).toArray)]
      | .error _ => Json.mkObj [("r", "exec")]
  let extra : List (String × Json) := [("iterations", out.iterations), ("fact_count", out.facts.length), ("queries", Json.arr qs.toArray)]
  match out.result with
  | .error e =>
    -- which of several failing rule applications is reported depends on the iteration order
    let kinds := errKinds (stepResults syms (worldRules blocksI azI) out.facts)
    pure (Json.mkObj ([("r", Json.str (runErrOut e))] ++ extra ++ (if kinds.length > 1 then [("amb", Json.bool true)] else [])))
  | .ok () =>
    let amb := caseAmbiguous syms out.facts blocksI azI
    let res := decide syms out.facts blocksI azI
    let base : List (String × Json) := match res with
      | .ok p => [("r", "ok"), ("p", p)]
      | .noMatchingPolicy f => [("r", "nomatch"), ("failed", failedOut f)]
      | .unauthorized k p f => [("r", "unauth"), ("pk", if k == .allow then "allow" else "deny"), ("p", p), ("failed", failedOut f)]
      | .runError e => [("r", Json.str (runErrOut e))]
      | .exprError _ => [("r", "exec")]
    pure (Json.mkObj (base ++ extra ++ (if amb then [("amb", Json.bool true)] else [])))

def runAtten (j : Json) : P Json := do
  let base ← runAuthz j
  let blocks ← getArr (← field j "blocks")
  let ext ← field j "extension"
  let j' := j.setObjVal! "blocks" (Json.arr (blocks ++ [ext]).toArray)
  let e ← runAuthz j'
  pure (Json.mkObj [("base", base), ("ext", e)])

def authzOut (res : AuthzResult) : List (String × Json) :=
  match res with
  | .ok p => [("r", "ok"), ("p", p)]
  | .noMatchingPolicy f => [("r", "nomatch"), ("failed", failedOut f)]
  | .unauthorized k p f => [("r", "unauth"), ("pk", if k == .allow then "allow" else "deny"), ("p", p), ("failed", failedOut f)]
  | .runError e => [("r", Json.str (runErrOut e))]
  | .exprError _ => [("r", "exec")]

def runLimits (j : Json) : P Json := do
  if let some (.bool true) := fieldOpt j "time" then
    return Json.mkObj [("skip", Json.bool true)]
  let pool ← parsePool (← field j "pool")
  let blocks ← (← getArr (← field j "blocks")).mapM parseBlock
  let az ← parseAz (← field j "az")
  let lj ← field j "limits"
  let lim : Limits := ⟨← getNat (← field lj "f"), ← getNat (← field lj "i"), none⟩
  let calls ← (← getArr (← field j "calls")).mapM fun c => do
    match c with
    | .str "authorize" => pure (some (none : Option (Bool × QRule)))
    | .str "restore" => pure none
    | _ =>
      let q ← field c "query"
      pure (some (some ((← (← field q "all").getBool?), ← parseQRule (← field q "q"))))
  let (tbl, blocksI, azI) := internCase pool blocks az
  let (tbl, callsI) := calls.foldl (fun (acc : ITable × List AzOp) c =>
    match c with
    | none => (acc.1, acc.2 ++ [AzOp.restore])
    | some none => (acc.1, acc.2 ++ [AzOp.call AzCall.authorize])
    | some (some (all, q)) =>
      let (t', q') := internQRule pool acc.1 q
      (t', acc.2 ++ [AzOp.call (AzCall.query all q')])) (tbl, [])
  let syms := tbl.syms
  if blocksI.any (fun b => b.rules.any fun q => !headVarsBound q.rule) then
    return Json.mkObj [("calls", Json.arr #[Json.mkObj [("r", "invalid-rule")]])]
  let get := syms.getSymbol
  -- step through the calls, reporting the counters after each
  let rec go (s : AzState) (cs : List AzOp) (acc : List Json) (amb : Bool) : List Json × Bool :=
    match cs with
    | [] => (acc, amb)
    | c :: rest =>
      let (s', o) := s.op syms blocksI azI lim c
      let amb' := amb || (s'.done && caseAmbiguous syms s'.facts blocksI azI)
      let base : List (String × Json) := match o with
        | none => [("r", "restored")]
        | some (.decision r) => authzOut r
        | some (.answer fs) => [("r", "answer"), ("facts", Json.arr (fs.map (fun of => factStr get of.2)).toArray)]
        | some (.exprError _) => [("r", "exec")]
      go s' rest (acc ++ [Json.mkObj (base ++ [("iterations", (s'.iterations : Json)), ("fact_count", (s'.facts.length : Json))])]) amb'
  let (outs, amb) := go (AzState.init blocksI azI) callsI [] false
  pure (Json.mkObj ([("calls", Json.arr outs.toArray)] ++ (if amb then [("amb", Json.bool true)] else [])))

/-- every (key, message, signature) an honest token carries -/
def tokenTriples (root : PubKey) (c : Container) : List (String × PubKey × Bytes × Bytes) :=
  let auth := match authorityPayload c.authority with
    | some p => [("authority signature", root, p, c.authority.sig)]
    | none => []
  let rec go (i : Nat) (pk : PubKey) (prevSig : Bytes) : List SBlock → List (String × PubKey × Bytes × Bytes)
    | [] => []
    | b :: rest =>
      (match blockPayload b prevSig with
        | some p => [(s!"block {i} signature", pk, p, b.sig)]
        | none => []) ++
      (match b.ext with
        | some e => [(s!"block {i} external signature", e.key, externalPayload b prevSig, e.sig)]
        | none => []) ++ go (i + 1) b.nextKey b.sig rest
  let blocks := go 1 c.authority.nextKey c.authority.sig c.blocks
  let sealT := match c.proof with
    | .sealed s => [("seal", c.lastBlock.nextKey, sealPayload c.lastBlock, s)]
    | .secret _ => []
  auth ++ blocks ++ sealT

def runChain (j : Json) : P Json := do
  let root ← parsePubKey (← field j "root")
  let honest ← (← getArr (← field j "honest")).mapM fun h => do
    match ← parseContainer (← field h "token") with
    | some c => pure (← parsePubKey (← field h "root"), c)
    | none => throw "honest token without proof"
  let secrets ← (← getArr (← field j "secrets")).mapM fun s => do
    pure ((← getNat (← field s "alg")), (← hexField s "sk"), ← parsePubKey (← field s "pk"))
  let subject ← parseContainer (← field j "subject")
  let mutation ← (← field j "mutation").getStr?
  let triples := honest.flatMap fun rc => (tokenTriples rc.1 rc.2).map fun t => (t.2.1, t.2.2.1, t.2.2.2)
  -- the ideal scheme: valid signatures are exactly those honest parties produced
  let S : Scheme := {
    pub := fun alg sk => (secrets.find? fun s => s.1 == alg && s.2.1 == sk).map (·.2.2)
    sign := fun _ _ _ => []
    verify := fun pk m s => triples.contains (pk, m, s) }
  match subject with
  | none => pure (Json.mkObj [("accept", Json.bool false)])
  | some c =>
    let acc := verifyToken S root c
    let base : List (String × Json) := [("accept", Json.bool acc)]
    let more : List (String × Json) := if acc then
        [("ids", Json.arr (c.revocationIds.map (fun b => Json.str (hex b))).toArray),
         ("ext_keys", Json.arr (c.externalKeys.map (fun k => match k with | some k => pubKeyOut k | none => Json.null)).toArray),
         ("block_count", (c.blocks.length + 1 : Nat)),
         ("root_key_id", match c.rootKeyId with | some k => (k : Json) | none => Json.null),
         ("wire_bytes", Json.str (hex (Wire.encContainer c)))]
      else []
    -- the model's decoder on the bytes that were presented (honest stages carry them)
    let dec : List (String × Json) := match fieldOpt j "raw" with
      | some (.str r) =>
        match unhex r with
        | .ok bytes => [("decoded_same", Json.bool (Wire.decContainer bytes == some c))]
        | .error _ => []
      | _ => []
    -- the signature version the rule of the code assigns to each block of an honest token
    let sv : List (String × Json) := match fieldOpt j "datalog_versions", fieldOpt j "root_alg" with
      | some dvj, some raj =>
        match getArr dvj, getNat raj with
        | .ok dvs, .ok rootAlg =>
          let dv (i : Nat) : Option Nat := match dvs[i]? with | some (.num n) => some n.mantissa.toNat | _ => none
          let auth := sigVersion rootAlg c.authority.nextKey.alg false (dv 0) []
          let rec go (i : Nat) (signerAlg : Nat) (prev : List Nat) : List SBlock → List Nat
            | [] => []
            | b :: rest =>
              let v := sigVersion signerAlg b.nextKey.alg b.ext.isSome (if b.ext.isSome then none else dv i) prev
              v :: go (i + 1) b.nextKey.alg (prev ++ [v]) rest
          [("sig_versions", Json.arr ((auth :: go 1 c.authority.nextKey.alg [auth] c.blocks).map (fun (n : Nat) => (n : Json))).toArray)]
        | _, _ => []
      | _, _ => []
    let pay : List (String × Json) := if mutation == "none" then
        [("payloads", Json.arr ((tokenTriples root c).map fun t =>
          Json.mkObj [("what", t.1), ("key", pubKeyOut t.2.1), ("msg", hex t.2.2.1), ("sig", hex t.2.2.2)]).toArray)]
      else []
    pure (Json.mkObj (base ++ more ++ dec ++ pay ++ sv))

/-- operations on a sealed container: each is decided by the model's state machine -/
def runSealOps (j : Json) : P Json := do
  let subject ← parseContainer (← field j "subject")
  let names ← (← getArr (← field j "ops")).mapM fun n => n.getStr?
  match subject with
  | none => throw "no proof"
  | some c =>
    let S : Scheme := { pub := fun a sk => some ⟨a, sk⟩, sign := fun _ _ _ => [], verify := fun _ _ _ => true }
    let dec (name : String) : String :=
      let op := (name.splitOn ".").getLastD ""
      let refused : Bool := match op with
        | "append" => (appendBlock S c 0 [1] [] none (some 3)).isNone
        | "append_third_party" => (appendBlock S c 0 [1] [] (some ⟨⟨0, [2]⟩, []⟩) none).isNone
        | "seal" => (sealToken S c).isNone
        | "third_party_request" => c.isSealed
        | _ => false
      if refused then "refused" else "accepted"
    pure (Json.mkObj [("ops", Json.mkObj (names.map fun n => (n, Json.str (dec n))))])

def parseResp (j : Json) : P (Bytes × ExtSig) := do
  pure (← hexField j "data", ⟨← parsePubKey (← field j "key"), ← hexField j "sig"⟩)

/-- a third-party response offered to the verified API -/
def runTpv (j : Json) : P Json := do
  let target ← parseContainer (← field j "target")
  let expected ← parsePubKey (← field j "expected")
  let (data, resp) ← parseResp (← field j "resp")
  let prev ← hexField j "genuine_prev_sig"
  match target with
  | none => throw "no proof"
  | some c =>
    -- the holder of the external key signed exactly one message
    let genuine := Spec.externalV1 Gen.thirdPartySignatureVersion data prev
    let S : Scheme := {
      pub := fun a sk => some ⟨a, sk⟩, sign := fun _ _ _ => [],
      verify := fun pk m s => pk == resp.key && m == genuine && s == resp.sig }
    let r := appendThirdParty S c expected data resp 0 [1]
    pure (Json.mkObj [("accept", Json.bool r.isSome)])

/-- a (possibly altered) response appended without verification, then the token is verified -/
def runTpu (j : Json) : P Json := do
  let root ← parsePubKey (← field j "root")
  let base ← parseContainer (← field j "base")
  let subject ← parseContainer (← field j "subject")
  let g ← field j "genuine"
  let (gdata, gresp) ← parseResp (← field g "resp")
  let gprev ← hexField g "prev_sig"
  let secrets ← (← getArr (← field j "secrets")).mapM fun s => do
    pure ((← getNat (← field s "alg")), (← hexField s "sk"), ← parsePubKey (← field s "pk"))
  match base, subject with
  | some b, some c =>
    let last := c.lastBlock
    -- honest: the base token, the chain signature the holder just made for the new block,
    -- and the one external signature the third party made
    let chainSig := match blockPayload last b.lastBlock.sig with
      | some p => [(b.lastBlock.nextKey, p, last.sig)]
      | none => []
    let triples := (tokenTriples root b).map (fun t => (t.2.1, t.2.2.1, t.2.2.2)) ++ chainSig ++
      [(gresp.key, Spec.externalV1 Gen.thirdPartySignatureVersion gdata gprev, gresp.sig)]
    let S : Scheme := {
      pub := fun alg sk => (secrets.find? fun s => s.1 == alg && s.2.1 == sk).map (·.2.2)
      sign := fun _ _ _ => []
      verify := fun pk m s => triples.contains (pk, m, s) }
    pure (Json.mkObj [("accept", Json.bool (verifyToken S root c))])
  | _, _ => throw "no proof"

def runVersions (j : Json) : P Json := do
  let pool ← parsePool (← field j "pool")
  let blk ← parseBlock (← field j "block")
  let (_, b) := internBlock pool ITable.empty blk
  let kind ← (← field j "kind").getStr?
  if kind == "declared" then
    let placement ← (← field j "placement").getStr?
    let v := if placement == "third-party" then declaredVersionThirdParty b else declaredVersion b
    let sv := sigVersion ed25519 ed25519 (placement == "third-party") (some v) [0]
    let spec : Nat := if placement == "third-party" then max 5 (specVersion b) else specVersion b
    pure (Json.mkObj [("declared", (v : Json)), ("signature_version", (sv : Json)), ("spec", (spec : Json))])
  else
    let d ← getNat (← field j "declared")
    let tp ← (← field j "third_party").getBool?
    pure (Json.mkObj [("load", Json.bool (loadGate d tp b)),
      ("spec_ok", Json.bool (Decidable.decide (3 ≤ d) && Decidable.decide (d ≤ 6) && Decidable.decide (specVersion b ≤ d) && (!tp || Decidable.decide (5 ≤ d))))])

def runSymbols (j : Json) : P Json := do
  let pool ← parsePool (← field j "pool")
  let kind ← (← field j "kind").getStr?
  if kind == "redeclare" then
    let base ← parseBlock (← field j "base_block")
    let t := TokSyms.build pool base
    let d ← field j "declared"
    let syms ← (← getArr (← field d "syms")).mapM fun s => do pure (← s.getStr?).toUTF8.toList
    let keys ← (← getArr (← field d "keys")).mapM getNat
    let tp ← (← field d "tp").getBool?
    let t' : TokSyms := { t with blocks := t.blocks ++ [⟨syms, keys, tp⟩] }
    return Json.mkObj [("load", Json.bool t'.reload.isSome)]
  let ops ← getArr (← field j "ops")
  let strs (l : List Str) : Json := Json.arr (l.map strOut).toArray
  let nats (l : List Nat) : Json := Json.arr (l.map (fun (n : Nat) => (n : Json))).toArray
  let rec go (t : Option TokSyms) (ops : List Json) (acc : List Json) : P (List Json) := do
    match ops with
    | [] => pure acc
    | op :: rest =>
      let name ← (← field op "op").getStr?
      let t' ← (match name, t with
        | "build", _ => do pure (TokSyms.build pool (← parseBlock (← field op "block")))
        | "append", some t => do pure (t.append pool (← parseBlock (← field op "block")))
        | "append3p", some t => do pure (t.appendThirdParty pool (← parseBlock (← field op "block")))
        | _, some t => pure t
        | _, none => throw "operation before build" : P TokSyms)
      let o := Json.mkObj [
        ("block_symbols", Json.arr (t'.blocks.map fun d => strs d.syms).toArray),
        ("block_keys", Json.arr (t'.blocks.map fun d => nats d.keys).toArray),
        ("third_party", Json.arr (t'.blocks.map fun d => Json.bool d.thirdParty).toArray),
        ("token_symbols", strs t'.syms), ("token_keys", nats t'.keys),
        ("reload_ok", Json.bool t'.reload.isSome),
        ("reload_same", Json.bool (t'.reload == some (t'.syms, t'.keys)))]
      go (some t') rest (acc ++ [o])
  let steps ← go none ops []
  pure (Json.mkObj [("steps", Json.arr steps.toArray)])

/-! ### print (C14) -/
section PrintOp
open Biscuit.Printer Biscuit.Codec.Src

def ambRule (r : Printer.SRule) : Bool :=
  ambiguousL r.head.terms || r.body.any (fun p => ambiguousL p.terms)
    || r.exprs.any (fun ops => ambOps ops)
where
  ambOps : List POp → Bool
    | [] => false
    | .val t :: k => ambiguous t || ambOps k
    | .clo _ body :: k => ambOps body || ambOps k
    | _ :: k => ambOps k

def runPrint (j : Json) : P Json := do
  let kind ← (← field j "kind").getStr?
  let item ← field j "item"
  let (text, amb) ← (match kind with
    | "fact" => do
      let p ← parseSPred item
      pure (printPred p, ambiguousL p.terms)
    | "rule" => do
      let r ← parseSRule item
      pure (printRule r, ambRule r)
    | "check" => do
      let c ← parseSCheck item
      pure (printCheck c, c.queries.any ambRule)
    | "policy" => do
      let p ← parseSPolicy item
      pure (printPolicy p, p.queries.any ambRule)
    | "block" => do
      let b ← parseSBlockSrc item
      pure (printBlock b, b.facts.any (fun p => ambiguousL p.terms) || b.rules.any ambRule
        || b.checks.any (fun c => c.queries.any ambRule))
    | "authorizer" => do
      let a ← parseSAuthorizer item
      pure (printAuthorizer a, a.facts.any (fun p => ambiguousL p.terms) || a.rules.any ambRule
        || a.checks.any (fun c => c.queries.any ambRule) || a.policies.any (fun c => c.queries.any ambRule))
    | other => throw s!"unknown print kind {other}" : P (String × Bool))
  pure (Json.mkObj [("text", text), ("amb_param", Json.bool amb)])

end PrintOp

/-! ### params (C20) -/
section ParamsOp
open Biscuit.Printer Biscuit.Params Biscuit.Codec.Src

def skeyJ : SKey → Json
  | .int i => Json.mkObj [("int", Json.num (JsonNumber.fromInt i))]
  | .str s => Json.mkObj [("str", s)]
  | .param n => Json.mkObj [("param", n)]

partial def stermJ : STerm → Json
  | .var n => Json.mkObj [("var", n)]
  | .int i => Json.mkObj [("int", Json.num (JsonNumber.fromInt i))]
  | .str s => Json.mkObj [("str", s)]
  | .date d => Json.mkObj [("date", Json.num (JsonNumber.fromNat d))]
  | .bytes b => Json.mkObj [("bytes", hex b)]
  | .bool b => Json.mkObj [("bool", Json.bool b)]
  | .null => Json.mkObj [("null", Json.bool true)]
  | .set xs => Json.mkObj [("set", Json.arr (xs.map stermJ).toArray)]
  | .arr xs => Json.mkObj [("arr", Json.arr (xs.map stermJ).toArray)]
  | .map kvs => Json.mkObj [("map", Json.arr (kvs.map fun (k, t) => Json.arr #[skeyJ k, stermJ t]).toArray)]
  | .param n => Json.mkObj [("param", n)]

def unJ : Un → Json
  | .negate => Json.mkObj [("un", "negate")]
  | .parens => Json.mkObj [("un", "parens")]
  | .length => Json.mkObj [("un", "length")]
  | .typeOf => Json.mkObj [("un", "type")]
  | .ffi n => Json.mkObj [("un", "ffi"), ("name", n)]

def binName : Bin → String
  | .lt => "lt" | .gt => "gt" | .le => "le" | .ge => "ge" | .eq => "eq" | .contains => "contains"
  | .prefix => "prefix" | .suffix => "suffix" | .regex => "regex" | .add => "add" | .sub => "sub"
  | .mul => "mul" | .div => "div" | .and => "and" | .or => "or" | .intersection => "intersection"
  | .union => "union" | .band => "band" | .bor => "bor" | .bxor => "bxor" | .ne => "ne" | .heq => "heq"
  | .hne => "hne" | .lazyAnd => "lazyand" | .lazyOr => "lazyor" | .all => "all" | .any => "any"
  | .get => "get" | .ffi _ => "ffi"

partial def popJ : POp → Json
  | .val t => Json.mkObj [("val", stermJ t)]
  | .un u => unJ u
  | .bin (.ffi n) => Json.mkObj [("bin", "ffi"), ("name", n)]
  | .bin b => Json.mkObj [("bin", binName b)]
  | .clo ps ops => Json.mkObj [("clo", Json.arr (ps.map Json.str).toArray), ("ops", Json.arr (ops.map popJ).toArray)]

def spredJ (p : SPred) : Json := Json.mkObj [("name", p.name), ("terms", Json.arr (p.terms.map stermJ).toArray)]

def sscopeJ : SScope → Json
  | .authority => Json.mkObj [("authority", Json.bool true)]
  | .previous => Json.mkObj [("previous", Json.bool true)]
  | .key k => Json.mkObj [("key", k)]
  | .param n => Json.mkObj [("param", n)]

def sruleJ (r : Printer.SRule) : Json :=
  Json.mkObj [("head", spredJ r.head), ("body", Json.arr (r.body.map spredJ).toArray),
    ("exprs", Json.arr (r.exprs.map fun ops => Json.arr (ops.map popJ).toArray).toArray),
    ("scopes", Json.arr (r.scopes.map sscopeJ).toArray)]

def setResJ : SetResult → Json
  | .ok => "ok"
  | .unused n => Json.mkObj [("missing", Json.arr #[]), ("unused", Json.arr #[Json.str n])]

def strsJ (xs : List String) : Json := Json.arr ((xs.toArray.qsort (· < ·)).map Json.str)

/-- a check or policy sets on each of its queries: the strict setter succeeds when at least
    one query declares the name -/
def setAll (f : Item → Item × SetResult) (strict : Bool) (name : String) (qs : List Item) : List Item × SetResult :=
  let rs := qs.map f
  let found := rs.any fun r => r.2 == .ok
  (rs.map (·.1), if !strict || found then .ok else .unused name)

def runParams (j : Json) : P Json := do
  let kind ← (← field j "kind").getStr?
  let item ← field j "item"
  let (single, queries) ← (match kind with
    | "fact" => do
      let p ← parseSPred item
      pure (true, [({ rule := { head := p, body := [], exprs := [], scopes := [] } } : Item)])
    | "rule" => do
      pure (true, [({ rule := ← parseSRule item } : Item)])
    | _ => do
      let qs ← (← getArr (← field item "queries")).mapM parseSRule
      pure (false, qs.map fun r => ({ rule := r } : Item)) : P (Bool × List Item))
  let mut qs := queries
  let mut outs : Array Json := #[]
  for b in ← getArr (← field j "binds") do
    let m ← (← field b "m").getStr?
    let name ← (← field b "name").getStr?
    if m == "set_scope" || m == "set_scope_lenient" then
      let key ← (← field b "key").getStr?
      if kind == "fact" then
        outs := outs.push "ok"
      else
        let strict := m == "set_scope"
        let (qs', r) :=
          if single then
            match qs with
            | [it] => let (it', r) := (if strict then it.setScope name key else it.setScopeLenient name key); ([it'], r)
            | _ => (qs, .ok)
          else setAll (fun it => it.setScope name key) strict name qs
        qs := qs'
        outs := outs.push (setResJ r)
    else
      let v ← parseSTerm (← field b "value")
      let strict := m == "set"
      let (qs', r) :=
        if single then
          match qs with
          | [it] => let (it', r) := (if strict then it.set name v else it.setLenient name v); ([it'], r)
          | _ => (qs, .ok)
        else setAll (fun it => it.set name v) strict name qs
      qs := qs'
      outs := outs.push (setResJ r)
  -- validation stops at the first query with a name that has no value
  let firstMissing := (qs.map Item.missing).find? (fun m => !m.isEmpty)
  let validate : Json := match firstMissing with
    | some m => Json.mkObj [("missing", strsJ m), ("unused", Json.arr #[])]
    | none => "ok"
  let applied := qs.map Item.apply
  let residual := (applied.map residualRule).flatten
  let kindJ : Json := (fieldOpt item "kind").getD Json.null
  let conv : Json := match kind, applied with
    | "fact", [r] => spredJ r.head
    | "rule", [r] => sruleJ r
    | _, rs => Json.mkObj [("kind", kindJ), ("queries", Json.arr (rs.map sruleJ).toArray)]
  pure (Json.mkObj [("binds", Json.arr outs), ("validate", validate), ("converted", conv), ("residual", strsJ residual)])

end ParamsOp

/-! ### termparse (C14): the term / fact parser model on arbitrary text -/
section TermParseOp
open Biscuit.Printer Biscuit.TermParser

def runTermParse (j : Json) : P Json := do
  let text ← (← field j "text").getStr?
  let dates ← (← getArr (← field j "dates")).mapM fun d => do
    match ← getArr d with
    | [t, v] => pure ((← t.getStr?).toList, ← getNat v)
    | _ => throw "bad date entry"
  let dateP : List Char → Option Nat := fun tok => (dates.find? (fun e => e.1 == tok)).map (·.2)
  match parseFactInner dateP text.toList with
  | .ok p rest =>
    pure (Json.mkObj [("r", "ok"), ("rest", Json.num (JsonNumber.fromNat rest.length)), ("name", p.name),
      ("terms", Json.arr (p.terms.map stermJ).toArray)])
  | .err => pure (Json.mkObj [("r", "err")])
  | .fail => pure (Json.mkObj [("r", "fail")])

end TermParseOp

/-! ### exprparse (C14): the expression parser model on arbitrary text -/
section ExprParseOp
open Biscuit.Printer Biscuit.TermParser Biscuit.ExprParser

def unNameX : Un → String × Option String
  | .negate => ("negate", none) | .parens => ("parens", none) | .length => ("length", none) | .typeOf => ("type", none)
  | .ffi n => ("ffi", some n)

def binNameX : Bin → String × Option String
  | .lt => ("lt", none) | .gt => ("gt", none) | .le => ("le", none) | .ge => ("ge", none) | .eq => ("eq", none)
  | .contains => ("contains", none) | .prefix => ("prefix", none) | .suffix => ("suffix", none) | .regex => ("regex", none)
  | .add => ("add", none) | .sub => ("sub", none) | .mul => ("mul", none) | .div => ("div", none) | .and => ("and", none)
  | .or => ("or", none) | .intersection => ("intersection", none) | .union => ("union", none) | .band => ("band", none)
  | .bor => ("bor", none) | .bxor => ("bxor", none) | .ne => ("ne", none) | .heq => ("heq", none) | .hne => ("hne", none)
  | .lazyAnd => ("lazyand", none) | .lazyOr => ("lazyor", none) | .all => ("all", none) | .any => ("any", none)
  | .get => ("get", none) | .ffi n => ("ffi", some n)

def optStrJ : Option String → Json
  | some s => Json.str s
  | none => Json.null

partial def etreeJ : ETree → Json
  | .val t => Json.mkObj [("val", stermJ t)]
  | .un u a => let (n, x) := unNameX u; Json.mkObj [("un", n), ("name", optStrJ x), ("a", etreeJ a)]
  | .bin b l r => let (n, x) := binNameX b; Json.mkObj [("bin", n), ("name", optStrJ x), ("l", etreeJ l), ("r", etreeJ r)]
  | .clo ps body => Json.mkObj [("clo", Json.arr (ps.map Json.str).toArray), ("body", etreeJ body)]

def runExprParse (j : Json) : P Json := do
  let text ← (← field j "text").getStr?
  let dates ← (← getArr (← field j "dates")).mapM fun d => do
    match ← getArr d with
    | [t, v] => pure ((← t.getStr?).toList, ← getNat v)
    | _ => throw "bad date entry"
  let dateP : List Char → Option Nat := fun tok => (dates.find? (fun e => e.1 == tok)).map (·.2)
  match parseExpr dateP text.toList with
  | .ok e rest => pure (Json.mkObj [("r", "ok"), ("rest", Json.num (JsonNumber.fromNat rest.length)), ("tree", etreeJ e)])
  | .err => pure (Json.mkObj [("r", "err")])
  | .fail => pure (Json.mkObj [("r", "fail")])

end ExprParseOp

/-! ### itemparse (C14): rule bodies, rules, checks, policies -/
section ItemParseOp
open Biscuit.Printer Biscuit.TermParser Biscuit.ExprParser Biscuit.RuleParser

def bodyJ (b : Body) : Json :=
  Json.mkObj [("preds", Json.arr (b.preds.map spredJ).toArray),
    ("exprs", Json.arr (b.exprs.map fun e => Json.arr ((opcodes e).map popJ).toArray).toArray),
    ("scopes", Json.arr (b.scopes.map sscopeJ).toArray)]

def resJ {α : Type} (r : Res α) (f : α → List (String × Json)) : Json :=
  match r with
  | .ok v rest => Json.mkObj ([("r", Json.str "ok"), ("rest", Json.num (JsonNumber.fromNat rest.length))] ++ f v)
  | .err => Json.mkObj [("r", "err")]
  | .fail => Json.mkObj [("r", "fail")]

/-- `check` / `policy` / `rule`: the inner parser, then only blanks may be left (an `Error` otherwise) -/
def eofAfter {α : Type} (r : Res α) : Res α :=
  match r with
  | .ok v rest => if (space0 rest).isEmpty then .ok v (space0 rest) else .err
  | other => other

def runItemParse (j : Json) : P Json := do
  let text ← (← field j "text").getStr?
  let kind ← (← field j "kind").getStr?
  let dates ← (← getArr (← field j "dates")).mapM fun d => do
    match ← getArr d with
    | [t, v] => pure ((← t.getStr?).toList, ← getNat v)
    | _ => throw "bad date entry"
  let dateP : List Char → Option Nat := fun tok => (dates.find? (fun e => e.1 == tok)).map (·.2)
  let s := text.toList
  let fuel := fuelOf s
  let bodies (bs : List Body) : Json := Json.arr (bs.map bodyJ).toArray
  match kind with
  | "body" => pure (resJ (pBody dateP fuel s) fun b => [("body", bodyJ b)])
  | "checkbody" => pure (resJ (pCheckBody dateP fuel s) fun bs => [("bodies", bodies bs)])
  | "rule" => pure (resJ (pRuleInner dateP fuel s) fun hb => [("head", spredJ hb.1), ("body", bodyJ hb.2)])
  | "check" =>
    pure (resJ (eofAfter (pCheckInner dateP fuel s)) fun kb =>
      [("kind", Json.str (match kb.1 with | .one => "one" | .all => "all" | .reject => "reject")), ("bodies", bodies kb.2)])
  | _ =>
    pure (resJ (eofAfter (pPolicyInner dateP fuel s)) fun kb =>
      [("kind", Json.str (match kb.1 with | .allow => "allow" | .deny => "deny")), ("bodies", bodies kb.2)])

end ItemParseOp

/-! ### blockparse (C14): `parse_block_source` / `parse_source` -/
section BlockParseOp
open Biscuit.Printer Biscuit.TermParser Biscuit.ExprParser Biscuit.RuleParser Biscuit.BlockParser

def runBlockParse (j : Json) : P Json := do
  let text ← (← field j "text").getStr?
  let kind ← (← field j "kind").getStr?
  let dates ← (← getArr (← field j "dates")).mapM fun d => do
    match ← getArr d with
    | [t, v] => pure ((← t.getStr?).toList, ← getNat v)
    | _ => throw "bad date entry"
  let dateP : List Char → Option Nat := fun tok => (dates.find? (fun e => e.1 == tok)).map (·.2)
  let res := if kind == "block" then parseBlockSource dateP text.toList else parseSource dateP text.toList
  match res with
  | none => pure (Json.mkObj [("r", "err")])
  | some src =>
    let bodies (bs : List Body) : Json := Json.arr (bs.map bodyJ).toArray
    pure (Json.mkObj [("r", "ok"),
      ("scopes", Json.arr (src.scopes.map sscopeJ).toArray),
      ("facts", Json.arr (src.facts.map spredJ).toArray),
      ("rules", Json.arr (src.rules.map fun hb => Json.mkObj [("head", spredJ hb.1), ("body", bodyJ hb.2)]).toArray),
      ("checks", Json.arr (src.checks.map fun kb =>
        Json.mkObj [("kind", Json.str (match kb.1 with | .one => "one" | .all => "all" | .reject => "reject")), ("bodies", bodies kb.2)]).toArray),
      ("policies", Json.arr (src.policies.map fun kb =>
        Json.mkObj [("kind", Json.str (match kb.1 with | .allow => "allow" | .deny => "deny")), ("bodies", bodies kb.2)]).toArray)])

end BlockParseOp

/-! ### origins (C04, C05): `TrustedOrigins::from_scopes` -/
section OriginsOp

def insertSortedNat (x : Nat) : List Nat → List Nat
  | [] => [x]
  | y :: ys => if x < y then x :: y :: ys else if x = y then y :: ys else y :: insertSortedNat x ys

def runOrigins (j : Json) : P Json := do
  let scopes ← (← getArr (← field j "scopes")).mapM parseScope
  let dflt ← (← getArr (← field j "default")).mapM getNat
  let current ← getNat (← field j "current")
  let km ← (← getArr (← field j "keys")).mapM fun e => do
    match ← getArr e with
    | [k, bs] => pure ((← getNat k), (← (← getArr bs).mapM getNat))
    | _ => throw "bad key map entry"
  let t := trustedFromScopes scopes dflt current km
  let sorted := t.foldl (fun acc x => insertSortedNat x acc) []
  pure (Json.mkObj [("trusted", Json.arr (sorted.map fun (n : Nat) => (n : Json)).toArray)])

end OriginsOp

/-! ### convert (C02, C12, C16): `proto_block_to_token_block` / `token_block_to_proto_block` -/
section ConvertOp
open Biscuit.Convert

partial def parsePTerm (j : Json) : P PTerm := do
  if (fieldOpt j "e").isSome then return .empty
  if let some v := fieldOpt j "v" then return .variable (← getNat v)
  if let some v := fieldOpt j "i" then return .integer (← getInt v)
  if let some v := fieldOpt j "s" then return .string (← getNat v)
  if let some v := fieldOpt j "d" then return .date (← getNat v)
  if let some v := fieldOpt j "b" then return .bytes (← unhex (← v.getStr?))
  if let some v := fieldOpt j "t" then return .bool (← v.getBool?)
  if let some v := fieldOpt j "set" then return .set (← (← getArr v).mapM parsePTerm)
  if (fieldOpt j "null").isSome then return .null
  if let some v := fieldOpt j "arr" then return .array (← (← getArr v).mapM parsePTerm)
  if let some v := fieldOpt j "map" then
    let es ← (← getArr v).mapM fun kv => do
      match ← getArr kv with
      | [k, t] =>
        let key ← (do
          if let some x := fieldOpt k "i" then return some (MapKey.int (← getInt x))
          if let some x := fieldOpt k "s" then return some (MapKey.str (← getNat x))
          return none : P (Option MapKey))
        pure (key, ← parsePTerm t)
      | _ => throw "bad map entry"
    return .map es
  throw s!"bad proto term {j.compress}"

def optNat (j : Json) : P (Option Nat) := do
  match j with
  | .null => pure none
  | _ => pure (some (← getNat j))

partial def parsePOpC (j : Json) : P Convert.POp := do
  if (fieldOpt j "e").isSome then return .empty
  if let some v := fieldOpt j "val" then return .value (← parsePTerm v)
  if let some v := fieldOpt j "un" then
    match ← getArr v with
    | [k, f] => return .unary (← getInt k) (← optNat f)
    | _ => throw "bad unary"
  if let some v := fieldOpt j "bin" then
    match ← getArr v with
    | [k, f] => return .binary (← getInt k) (← optNat f)
    | _ => throw "bad binary"
  if let some v := fieldOpt j "clo" then
    match ← getArr v with
    | [ps, ops] => return .closure (← (← getArr ps).mapM getNat) (← (← getArr ops).mapM parsePOpC)
    | _ => throw "bad closure"
  throw s!"bad proto op {j.compress}"

def parsePScope (j : Json) : P PScope := do
  if (fieldOpt j "e").isSome then return .empty
  if let some v := fieldOpt j "ty" then return .scopeType (← getInt v)
  if let some v := fieldOpt j "key" then return .publicKey (← getInt v)
  throw "bad proto scope"

def parsePPred (j : Json) : P PPred := do
  pure ⟨← getNat (← field j "n"), ← (← getArr (← field j "t")).mapM parsePTerm⟩

def parsePRule (j : Json) : P PRule := do
  pure ⟨← parsePPred (← field j "h"), ← (← getArr (← field j "b")).mapM parsePPred,
    ← (← getArr (← field j "e")).mapM (fun e => do (← getArr e).mapM parsePOpC),
    ← (← getArr (← field j "sc")).mapM parsePScope⟩

def parsePBlock (j : Json) : P PBlock := do
  let symbols ← (← getArr (← field j "symbols")).mapM fun s => do pure (← s.getStr?).toUTF8.toList
  let context : Option Str := match fieldOpt j "context" with
    | some (.str s) => some s.toUTF8.toList
    | _ => none
  let version ← (match fieldOpt j "version" with
    | some .null => pure none
    | some v => do pure (some (← getNat v))
    | none => pure none : P (Option Nat))
  let facts ← (← getArr (← field j "facts")).mapM parsePPred
  let rules ← (← getArr (← field j "rules")).mapM parsePRule
  let checks ← (← getArr (← field j "checks")).mapM fun c => do
    let k ← (match ← field c "k" with
      | .null => pure none
      | v => do pure (some (← getInt v)) : P (Option Int))
    pure (⟨← (← getArr (← field c "q")).mapM parsePRule, k⟩ : PCheck)
  let sc ← (← getArr (← field j "sc")).mapM parsePScope
  let keys ← (← getArr (← field j "keys")).mapM fun k => do
    match k with
    | .num _ => pure (some (← getNat k))
    | _ => pure (none : Option Nat)
  pure ⟨symbols, context, version, facts, rules, checks, sc, keys⟩

partial def pTermJ : PTerm → Json
  | .empty => Json.mkObj [("e", 1)]
  | .variable v => Json.mkObj [("v", v)]
  | .integer i => Json.mkObj [("i", Json.num (JsonNumber.fromInt i))]
  | .string s => Json.mkObj [("s", s)]
  | .date d => Json.mkObj [("d", d)]
  | .bytes b => Json.mkObj [("b", hex b)]
  | .bool b => Json.mkObj [("t", b)]
  | .set xs => Json.mkObj [("set", Json.arr (xs.map pTermJ).toArray)]
  | .null => Json.mkObj [("null", 1)]
  | .array xs => Json.mkObj [("arr", Json.arr (xs.map pTermJ).toArray)]
  | .map es => Json.mkObj [("map", Json.arr (es.map fun (k, t) =>
      Json.arr #[(match k with
        | some (.int i) => Json.mkObj [("i", Json.num (JsonNumber.fromInt i))]
        | some (.str s) => Json.mkObj [("s", s)]
        | none => Json.mkObj [("e", 1)]), pTermJ t]).toArray)]

def optNatJ : Option Nat → Json
  | none => Json.null
  | some n => n

partial def pOpJ : Convert.POp → Json
  | .empty => Json.mkObj [("e", 1)]
  | .value t => Json.mkObj [("val", pTermJ t)]
  | .unary k f => Json.mkObj [("un", Json.arr #[Json.num (JsonNumber.fromInt k), optNatJ f])]
  | .binary k f => Json.mkObj [("bin", Json.arr #[Json.num (JsonNumber.fromInt k), optNatJ f])]
  | .closure ps ops => Json.mkObj [("clo", Json.arr #[Json.arr (ps.map fun (p : Nat) => (p : Json)).toArray, Json.arr (ops.map pOpJ).toArray])]

def pScopeJ : PScope → Json
  | .empty => Json.mkObj [("e", 1)]
  | .scopeType i => Json.mkObj [("ty", Json.num (JsonNumber.fromInt i))]
  | .publicKey i => Json.mkObj [("key", Json.num (JsonNumber.fromInt i))]

def pPredJ (p : PPred) : Json := Json.mkObj [("n", p.name), ("t", Json.arr (p.terms.map pTermJ).toArray)]

def pRuleJ (r : PRule) : Json :=
  Json.mkObj [("h", pPredJ r.head), ("b", Json.arr (r.body.map pPredJ).toArray),
    ("e", Json.arr (r.exprs.map fun e => Json.arr (e.map pOpJ).toArray).toArray),
    ("sc", Json.arr (r.scope.map pScopeJ).toArray)]

def strJ (s : Str) : Json := match String.fromUTF8? ⟨s.toArray⟩ with
  | some t => Json.str t
  | none => Json.str "<invalid utf-8>"

def pBlockJ (b : PBlock) : Json :=
  Json.mkObj [("symbols", Json.arr (b.symbols.map strJ).toArray),
    ("context", match b.context with | some c => strJ c | none => Json.null),
    ("version", optNatJ b.version),
    ("facts", Json.arr (b.facts.map pPredJ).toArray),
    ("rules", Json.arr (b.rules.map pRuleJ).toArray),
    ("checks", Json.arr (b.checks.map fun c => Json.mkObj [("q", Json.arr (c.queries.map pRuleJ).toArray),
      ("k", match c.kind with | some k => Json.num (JsonNumber.fromInt k) | none => Json.null)]).toArray),
    ("sc", Json.arr (b.scope.map pScopeJ).toArray),
    ("keys", Json.arr (b.publicKeys.map fun k => match k with | some k => (k : Json) | none => Json.str "?").toArray)]

def convErrJ : ConvErr → String
  | .version => "version" | .emptyId => "emptyId" | .setVariable => "setVariable" | .setSet => "setSet" | .setMixed => "setMixed"
  | .opEmpty => "opEmpty" | .unaryEmpty => "unaryEmpty" | .unaryFfiMissing => "ffiMissing" | .unaryFfiExtra => "unaryFfiExtra"
  | .binaryEmpty => "binaryEmpty" | .binaryFfiMissing => "ffiMissing" | .binaryFfiExtra => "binaryFfiExtra"
  | .checkKind => "checkKind" | .checkKindVersion => "checkKindVersion" | .rejectVersion => "rejectVersion"
  | .thirdPartyVersion => "thirdPartyVersion" | .scopesVersion => "scopesVersion" | .scopeType => "scopeType"
  | .scopeEmpty => "scopeEmpty" | .badKey => "badKey" | .keyOverlap => "keyOverlap" | .symbolOverlap => "symbolOverlap"
  | .compat33 => "compat33" | .compatScopes => "compatScopes" | .compat31 => "compat31" | .compatCheckAll => "compatCheckAll"

def runConvert (j : Json) : P Json := do
  let pb ← parsePBlock (← field j "block")
  let kind : String := match fieldOpt j "kind" with
    | some (.str k) => k
    | _ => "block"
  if kind == "snapshot" then
    let extKey : Option (Option Nat) := match fieldOpt j "ext" with
      | some (.num n) => some (some n.mantissa.toNat)
      | some (.str _) => some none
      | _ => none
    let sb : PSnapBlock := ⟨pb.context, pb.version, pb.facts, pb.rules, pb.checks, pb.scope, extKey⟩
    match protoToSnapshotBlock sb with
    | .error e => return Json.mkObj [("err", convErrJ e)]
    | .ok b =>
      let back := snapshotBlockToProto b
      let asBlock : PBlock := ⟨[], back.context, back.version, back.facts, back.rules, back.checks, back.scope, []⟩
      return Json.mkObj [("ok", pBlockJ asBlock),
        ("ext", match back.externalKey with | some (some k) => (k : Json) | some none => Json.str "?" | none => Json.null),
        ("symbols_in_block", b.symbols.length), ("keys_in_block", b.publicKeys.length)]
  let ext ← (match fieldOpt j "ext" with
    | some .null => pure none
    | some v => do pure (some (← getNat v))
    | none => pure none : P (Option Nat))
  match protoToBlock pb ext with
  | .error e => pure (Json.mkObj [("err", convErrJ e)])
  | .ok b => pure (Json.mkObj [("ok", pBlockJ (blockToProto b)), ("ext", optNatJ b.core.extKey)])

end ConvertOp

/-! ### keys (C17) -/
section KeysOp
open Biscuit.Keys

def algOf (s : String) : Keys.Alg := if s == "ed25519" then .ed25519 else .secp256r1

def verdictJ : Verdict → Json
  | .reject => Json.mkObj [("r", "err")]
  | .accept a b => Json.mkObj [("r", "key"), ("alg", String.ofList a.name), ("bytes", hex b)]
  | .acceptUncompressed => Json.mkObj [("r", "key"), ("alg", "secp256r1"), ("bytes", Json.null)]

def runKeys (j : Json) : P Json := do
  let kind ← (← field j "kind").getStr?
  match kind with
  | "roundtrip" =>
    let alg := algOf (← (← field j "alg").getStr?)
    let sk ← unhex (← (← field j "sk").getStr?)
    let pk ← unhex (← (← field j "pk").getStr?)
    let pubS := printPub alg pk
    let privS := printPub alg sk
    let proto := Wire.encPubKey ⟨alg.tag, pk⟩
    let same (v : Verdict) (b : Bytes) : Json := Json.bool (v == .accept alg b)
    pure (Json.mkObj [
      ("pub_hex", String.ofList (Printer.hexEncode pk)), ("pub_string", String.ofList pubS),
      ("priv_hex", String.ofList (Printer.hexEncode sk)), ("priv_string", String.ofList privS),
      ("pub_proto", hex proto),
      ("pub_der", if alg == .ed25519 then Json.str (hex (derPubEd25519 pk)) else Json.null),
      ("back", Json.mkObj [
        ("pub_bytes", same (pubBytes alg pk) pk), ("pub_hex", same (pubHex alg (Printer.hexEncode pk)) pk),
        ("pub_string", same (parsePubString pubS) pk), ("pub_proto", same (pubProto proto) pk),
        ("priv_bytes", same (privBytes alg sk) sk), ("priv_hex", same (privHex alg (Printer.hexEncode sk)) sk),
        ("priv_string", same (parsePrivString privS) sk),
        ("pub_der", if alg == .ed25519 then same (parseDerPubEd25519 (derPubEd25519 pk)) pk else Json.null)])])
  | "decode" =>
    let what ← (← field j "what").getStr?
    let alg := algOf (← (← field j "alg").getStr?)
    let text : List Char := match fieldOpt j "text" with
      | some (.str s) => s.toList
      | _ => []
    let bytes ← (match fieldOpt j "hex" with
      | some (.str s) => unhex s
      | _ => pure [] : P Bytes)
    let v : Option Verdict := match what with
      | "pub_string" => some (parsePubString text)
      | "priv_string" => some (parsePrivString text)
      | "pub_hex" => some (pubHex alg text)
      | "priv_hex" => some (privHex alg text)
      | "pub_bytes" => some (pubBytes alg bytes)
      | "priv_bytes" => some (privBytes alg bytes)
      | "pub_proto" => some (pubProto bytes)
      | "pub_der" => if bytes.length == 44 then some (parseDerPubEd25519 bytes) else none
      | "pub_der_alg" => if bytes.length == 44 && alg == .ed25519 then some (parseDerPubEd25519 bytes) else none
      | _ => none
    match v with
    | some v => pure (verdictJ v)
    | none => pure (Json.mkObj [("r", "unmodelled")])
  | "source" =>
    -- keys written in Datalog source are read by the decoder of `PublicKey::from_str`: the text is
    -- refused as soon as one of them is
    let keys ← (← getArr (← field j "keys")).mapM fun k => k.getStr?
    let bad := keys.any fun k => parsePubString k.toList == .reject
    pure (Json.mkObj [("r", if bad then "err" else "ok")])
  | _ =>
    -- a signature verifies exactly when key, message and signature are the genuine ones (scheme
    -- correctness and unforgeability: the hypotheses of C01/C17, not theorems)
    let genuine := (← (← field j "sig_mut").getStr?) == "none" && (fieldOpt j "vk").isNone && (fieldOpt j "vmsg").isNone
    pure (Json.mkObj [("expect", Json.bool genuine)])

end KeysOp

/-! ### untrusted (C09) -/
section UntrustedOp
open Biscuit.Untrusted

def strOpt (o : Option Str) : Json :=
  match o with
  | some s => Json.str (String.fromUTF8! ⟨s.toArray⟩)
  | none => Json.null

def runUntrusted (j : Json) : P Json := do
  let kind ← (← field j "kind").getStr?
  match kind with
  | "token" =>
    -- the accessor sweep asks for indices 0 .. count + 2 of a token of `nblocks` blocks
    let n ← getNat (← field j "nblocks")
    let blocks := List.range (n - 1)
    let idx := (List.range (n + 3)).map fun i =>
      Json.bool (match blockAt 0 blocks i with | .ok _ => true | .error _ => false)
    pure (Json.mkObj [("count", Json.num (JsonNumber.fromNat (blockCount blocks))), ("idx", Json.arr idx.toArray)])
  | "symprobe" =>
    let table ← (← getArr (← field j "table")).mapM fun s => do pure (← s.getStr?).toUTF8.toList
    let extra ← (← getArr (← field j "extra")).mapM fun s => do pure (← s.getStr?).toUTF8.toList
    let ids ← (← getArr (← field j "ids")).mapM getNat
    let t : SymbolTable := ⟨table⟩
    let (tmp, extraIds) := extra.foldl (fun (acc : TempSyms × List Nat) s => let (t', i) := acc.1.insert s; (t', acc.2 ++ [i])) (TempSyms.new t, [])
    pure (Json.mkObj [
      ("get", Json.arr (ids.map fun i => strOpt (t.getSymbol i)).toArray),
      ("print_default", Json.arr (ids.map fun i => strOpt (some (printSymbolDefault t i))).toArray),
      ("tmp_get", Json.arr (ids.map fun i => strOpt (tmp.getSymbol i)).toArray),
      ("extra_ids", Json.arr (extraIds.map fun i => Json.num (JsonNumber.fromNat i)).toArray)])
  | _ => pure (Json.mkObj [("r", "unmodelled")])

end UntrustedOp

/-! ### macros (C18) -/
section MacrosOp
open Biscuit.Printer Biscuit.Params Biscuit.Codec.Src

partial def dupKeysT : STerm → Bool
  | .set xs => xs.any dupKeysT
  | .arr xs => xs.any dupKeysT
  | .map kvs =>
    let ks := kvs.map fun (k, _) => (skeyJ k).compress
    ks.eraseDups.length != ks.length || kvs.any fun (_, t) => dupKeysT t
  | _ => false

partial def dupKeysOps : List POp → Bool
  | [] => false
  | .val t :: k => dupKeysT t || dupKeysOps k
  | .clo _ body :: k => dupKeysOps body || dupKeysOps k
  | _ :: k => dupKeysOps k

def dupKeysRule (r : Printer.SRule) : Bool :=
  r.head.terms.any dupKeysT || r.body.any (fun p => p.terms.any dupKeysT) || r.exprs.any dupKeysOps

def runMacros (j : Json) : P Json := do
  let kind ← (← field j "kind").getStr?
  let merge := match fieldOpt j "merge" with | some (.bool b) => b | _ => false
  let item ← field j "item"
  let mut σ : Env := []
  let mut κ : KeyEnv := []
  for b in ← getArr (← field j "binds") do
    let name ← (← field b "name").getStr?
    match fieldOpt b "value" with
    | some v => σ := (name, ← parseSTerm v) :: σ
    | none => κ := (name, ← (← field b "key").getStr?) :: κ
  let sr (r : Printer.SRule) : Printer.SRule := substRule σ κ r
  let sp (p : SPred) : SPred := substPred σ p
  let sc (c : SCheck) : SCheck := { c with queries := c.queries.map sr }
  let spol (c : SPolicy) : SPolicy := { c with queries := c.queries.map sr }
  let baseBody : Printer.SRule := { head := ⟨"query", []⟩, body := [⟨"base", [.var "x"]⟩], exprs := [], scopes := [] }
  let baseFact : SPred := ⟨"base", [.int 1]⟩
  let dq (qs : List Printer.SRule) : Bool := qs.any dupKeysRule
  let (text, dup) ← (match kind with
    | "fact" => do
      let p := sp (← parseSPred item)
      pure (printPred p, p.terms.any dupKeysT)
    | "rule" => do
      let r := sr (← parseSRule item)
      pure (printRule r, dupKeysRule r)
    | "check" => do
      let c := sc (← parseSCheck item)
      pure (printCheck c, dq c.queries)
    | "policy" => do
      let c := spol (← parseSPolicy item)
      pure (printPolicy c, dq c.queries)
    | "block" | "biscuit" => do
      let b ← parseSBlockSrc item
      let b' : Printer.SBlock := {
        scopes := b.scopes.map (substScope κ),
        facts := (if merge then [baseFact] else []) ++ b.facts.map sp,
        rules := b.rules.map sr,
        checks := (if merge then [⟨.one, [baseBody]⟩] else []) ++ b.checks.map sc }
      pure ((if kind == "biscuit" then "// no root key id set\n" else "") ++ printBlock b',
        b'.facts.any (fun p => p.terms.any dupKeysT) || dq b'.rules || b'.checks.any (fun c => dq c.queries))
    | "authorizer" => do
      let a ← parseSAuthorizer item
      let a' : SAuthorizer := {
        facts := (if merge then [baseFact] else []) ++ a.facts.map sp,
        rules := a.rules.map sr,
        checks := a.checks.map sc,
        policies := (if merge then [⟨.allow, [baseBody]⟩] else []) ++ a.policies.map spol }
      pure (printAuthorizer a', a'.facts.any (fun p => p.terms.any dupKeysT) || dq a'.rules
        || a'.checks.any (fun c => dq c.queries) || a'.policies.any (fun c => dq c.queries))
    | other => throw s!"unknown macro kind {other}" : P (String × Bool))
  pure (Json.mkObj [("text", text), ("dup_keys", Json.bool dup)])

end MacrosOp

/-! ### capi (C19) -/
section CApiOp
open Biscuit.CApi

def outcomeJ : Outcome → Json
  | .value => "value"
  | .error => "error"
  | .abort => "abort"

def idxOf (j : Json) (k : String) : Option Nat :=
  match fieldOpt j k with
  | some (.num n) => if n.mantissa < 0 then none else some n.mantissa.toNat
  | _ => none

/-- the handle and buffer protocol over the operations of a case; what depends on the contents of
    a token or on the Datalog engine is left open (`any`) -/
def runCApi (j : Json) : P Json := do
  let mut kpAlg : Array (Option Nat) := #[]       -- algorithm of every key-pair handle, none = null handle
  let mut pkAlg : Array (Option Nat) := #[]
  let mut bbs : Array (Handle Unit) := #[]
  let mut blks : Array (Handle Unit) := #[]
  let mut azbs : Array (Handle Unit) := #[]
  let mut tokNext : Array (Option Nat) := #[]    -- algorithm of the key that would sign the seal, when known
  let mut outs : Array Json := #[]
  for op in ← getArr (← field j "ops") do
    let name ← (← field op "op").getStr?
    let anyJ : Json := "any"
    match name with
    | "kp_new" =>
      let seed ← (← field op "seed").getStr?
      let alg ← getNat (← field op "alg")
      if seed.length == 64 then
        kpAlg := kpAlg.push (some alg); outs := outs.push (outcomeJ .value)
      else
        kpAlg := kpAlg.push none; outs := outs.push (outcomeJ .error)
    | "kp_public" =>
      match (idxOf op "kp").bind (fun i => (kpAlg[i]?).join) with
      | some a => pkAlg := pkAlg.push (some a); outs := outs.push (outcomeJ .value)
      | none => pkAlg := pkAlg.push none; outs := outs.push (outcomeJ .error)
    | "pk_serialize" =>
      match (idxOf op "pk").bind (fun i => (pkAlg[i]?).join) with
      | some a =>
        let keyLen := if a == 0 then 32 else 33
        outs := outs.push (outcomeJ (copyInto keyBuffer (List.replicate keyLen 0)).1)
      | none => outs := outs.push (outcomeJ .error)
    | "bb_new" => bbs := bbs.push ⟨some ()⟩; outs := outs.push (outcomeJ .value)
    | "blk_new" => blks := blks.push ⟨some ()⟩; outs := outs.push (outcomeJ .value)
    | "azb_new" => azbs := azbs.push ⟨some ()⟩; outs := outs.push (outcomeJ .value)
    | "bb_add" | "blk_add" | "azb_add" =>
      let valid := match fieldOpt op "valid" with | some (.bool b) => b | _ => true
      let f : Unit → Except Unit Unit := fun _ => if valid then .ok () else .error ()
      let tbl := if name == "bb_add" then bbs else if name == "blk_add" then blks else azbs
      let h : Option (Handle Unit) := (idxOf op "b").bind (fun i => tbl[i]?)
      let (h', o) := callAdd h f
      match idxOf op "b", h' with
      | some i, some h' =>
        if name == "bb_add" then bbs := bbs.set! i h'
        else if name == "blk_add" then blks := blks.set! i h'
        else azbs := azbs.set! i h'
      | _, _ => pure ()
      outs := outs.push (outcomeJ o)
    | "bb_build" =>
      let seed ← (← field op "seed").getStr?
      let okArgs := ((idxOf op "b").bind (fun i => bbs[i]?)).isSome
        && ((idxOf op "kp").bind (fun i => (kpAlg[i]?).join)).isSome && seed.length == 64
      tokNext := tokNext.push (if okArgs then some 0 else none)
      outs := outs.push (if okArgs then anyJ else outcomeJ .error)
    | "tok_append" =>
      tokNext := tokNext.push ((idxOf op "kp").bind (fun i => (kpAlg[i]?).join))
      outs := outs.push anyJ
    | "tok_from" =>
      tokNext := tokNext.push none
      outs := outs.push anyJ
    | "tok_serialize" | "tok_serialize_sealed" =>
      -- whatever the token, the announced size is the number of bytes written (or both are 0)
      outs := outs.push (Json.mkObj [("written_is_announced", Json.bool true)])
    | "tok_sizes" =>
      -- `sealed_size_exceeds_unsealed`: a 32-byte ed25519 key gives way to a 64-byte ed25519 signature
      match (idxOf op "t").bind (fun i => (tokNext[i]?).join) with
      | some 0 => outs := outs.push (Json.mkObj [("sealed_minus_unsealed", Json.num 32)])
      | _ => outs := outs.push anyJ
    | _ => outs := outs.push anyJ
  pure (Json.mkObj [("ops", Json.arr outs)])

end CApiOp

def handle (line : String) : String :=
  match Json.parse line with
  | .error e => (Json.mkObj [("driver_error", s!"parse: {e}")]).compress
  | .ok j =>
    let r : P Json := do
      let op ← (← field j "op").getStr?
      match op with
      | "expr" => runExpr j
      | "engine" => runEngine j
      | "authz" => runAuthz j
      | "atten" => runAtten j
      | "determ" => runAuthz j
      | "snapshot" => runAuthz j
      | "limits" => runLimits j
      | "chain" => runChain j
      | "sealops" => runSealOps j
      | "tpv" => runTpv j
      | "tpu" => runTpu j
      | "versions" => runVersions j
      | "symbols" => runSymbols j
      | "print" => runPrint j
      | "params" => runParams j
      | "keys" => runKeys j
      | "termparse" => runTermParse j
      | "exprparse" => runExprParse j
      | "itemparse" => runItemParse j
      | "blockparse" => runBlockParse j
      | "convert" => runConvert j
      | "origins" => runOrigins j
      | "untrusted" => runUntrusted j
      | "macros" => runMacros j
      | "capi" => runCApi j
      | _ => throw s!"unknown op {op}"
    match r with
    | .ok o => o.compress
    | .error e => (Json.mkObj [("driver_error", e)]).compress

partial def loop (h : IO.FS.Stream) (out : IO.FS.Stream) : IO Unit := do
  let line ← h.getLine
  if line.isEmpty then return ()
  let t := line.trimAscii.toString
  if !t.isEmpty then out.putStrLn (handle t)
  loop h out

def main : IO Unit := do
  let out ← IO.getStdout
  loop (← IO.getStdin) out
  out.flush
