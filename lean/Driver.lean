/-
  bmdrv: reads one JSON case per line on stdin, answers one JSON outcome per line.
-/
import Codec
open Lean Biscuit Biscuit.Codec

def runExpr (j : Json) : P Json := do
  let syms ← parseSymbols (← field j "symbols")
  let vals ← parseBindings (← field j "vals")
  let ops ← parseOps (← field j "ops")
  let ts := TempSyms.new ⟨syms⟩
  match eval ops vals ts with
  | .ok (t, ts') => pure (Json.mkObj [("ok", termOut ts'.getSymbol t)])
  | .error e => pure (Json.mkObj [("err", exprErrOut e)])

def sortedOrigin (o : List Nat) : List Nat := o.foldl (fun acc x => Origin.insert x acc) []

/-- outcomes of `find_match` over all iteration orders of the fact store -/
def matchOutcomes (rs : List (Except ExprErr (Option (List Nat × Fact)))) : Json :=
  let hits := rs.any fun r => match r with | .ok (some _) => true | _ => false
  let errs := rs.any fun r => match r with | .error _ => true | _ => false
  let t := Json.mkObj [("b", true)]
  let f := Json.mkObj [("b", false)]
  let e := Json.mkObj [("err", "exec")]
  if hits && errs then Json.mkObj [("any", Json.arr #[t, e])]
  else if hits then t else if errs then e else f

def allOutcomes (syms : SymbolTable) (exprs : List (List Op)) (bs : List (List Nat × Bindings)) : Json :=
  let rs := bs.map fun ob => evalExprs exprs ob.2 (TempSyms.new syms)
  let falses := rs.any fun r => match r with | .ok false => true | _ => false
  let errs := rs.any fun r => match r with | .error _ => true | _ => false
  let f := Json.mkObj [("b", false)]
  let e := Json.mkObj [("err", "exec")]
  if falses && errs then Json.mkObj [("any", Json.arr #[f, e])]
  else if falses then f else if errs then e else Json.mkObj [("b", !rs.isEmpty)]

def runEngine (j : Json) : P Json := do
  let syms : SymbolTable := ⟨← parseSymbols (← field j "symbols")⟩
  let facts ← (← getArr (← field j "facts")).mapM fun f => do
    match ← getArr f with
    | [o, p] => pure (sortedOrigin (← parseNats o), ← parsePred p)
    | _ => throw "bad fact"
  let rules ← (← getArr (← field j "rules")).mapM fun r => do
    match ← getArr r with
    | [b, t, rl] => pure (⟨← parseNats t, ← getNat b, ← parseRule rl⟩ : SRule)
    | _ => throw "bad rule"
  let lj ← field j "limits"
  let tmo : Option Nat := match fieldOpt lj "t" with
    | some (.num n) => some n.mantissa.toNat
    | _ => none
  let lim : Limits := ⟨← getNat (← field lj "f"), ← getNat (← field lj "i"), tmo⟩
  let init := factMerge [] facts
  let out := run syms rules lim init
  let r := match out.result with
    | .ok () => "ok"
    | .error e => runErrOut e
  let qs ← (← getArr (← field j "queries")).mapM fun q => do
    let kind ← (← field q "kind").getStr?
    let blk ← getNat (← field q "blk")
    let tr ← parseNats (← field q "trusted")
    let rule ← parseRule (← field q "rule")
    match kind with
    | "rule" =>
      match queryRule syms out.facts tr blk rule with
      | .ok fs => pure (Json.mkObj [("facts", factsOut fs)])
      | .error _ => pure (Json.mkObj [("err", "exec")])
    | "match" => pure (matchOutcomes (applyRule syms (visible tr out.facts) blk rule))
    | _ => pure (allOutcomes syms rule.exprs (combine (visible tr out.facts) rule.body (MV.new (bodyVars rule.body))))
  pure (Json.mkObj [("r", r), ("iterations", out.iterations), ("facts", factsOut out.facts), ("queries", Json.arr qs.toArray)])

def handle (line : String) : String :=
  match Json.parse line with
  | .error e => (Json.mkObj [("driver_error", s!"parse: {e}")]).compress
  | .ok j =>
    let r : P Json := do
      let op ← (← field j "op").getStr?
      match op with
      | "expr" => runExpr j
      | "engine" => runEngine j
      | _ => throw s!"unknown op {op}"
    match r with
    | .ok o => o.compress
    | .error e => (Json.mkObj [("driver_error", e)]).compress

partial def loop (h : IO.FS.Stream) (out : IO.FS.Stream) : IO Unit := do
  let line ← h.getLine
  if line.isEmpty then return ()
  let t := line.trimAscii.toString
  if !t.isEmpty then out.putStrLn (handle t)
  loop h out

def main : IO Unit := do
  let out ← IO.getStdout
  loop (← IO.getStdin) out
  out.flush
