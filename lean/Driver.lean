/-
  bmdrv: reads one JSON case per line on stdin, answers one JSON outcome per line.
-/
import Codec
open Lean Biscuit Biscuit.Codec

def runExpr (j : Json) : P Json := do
  let syms ← parseSymbols (← field j "symbols")
  let vals ← parseBindings (← field j "vals")
  let ops ← parseOps (← field j "ops")
  let ts := TempSyms.new ⟨syms⟩
  match eval ops vals ts with
  | .ok (t, ts') => pure (Json.mkObj [("ok", termOut ts'.getSymbol t)])
  | .error e => pure (Json.mkObj [("err", exprErrOut e)])

def handle (line : String) : String :=
  match Json.parse line with
  | .error e => (Json.mkObj [("driver_error", s!"parse: {e}")]).compress
  | .ok j =>
    let r : P Json := do
      let op ← (← field j "op").getStr?
      match op with
      | "expr" => runExpr j
      | _ => throw s!"unknown op {op}"
    match r with
    | .ok o => o.compress
    | .error e => (Json.mkObj [("driver_error", e)]).compress

partial def loop (h : IO.FS.Stream) (out : IO.FS.Stream) : IO Unit := do
  let line ← h.getLine
  if line.isEmpty then return ()
  let t := line.trimAscii.toString
  if !t.isEmpty then out.putStrLn (handle t)
  loop h out

def main : IO Unit := do
  let out ← IO.getStdout
  loop (← IO.getStdin) out
  out.flush
