/-
  JSON line protocol shared with the Rust harness (DESIGN.md, Appendix B).
  Trusted glue: not part of any theorem.
-/
import Lean.Data.Json
import BiscuitModel.Model.Intern
import BiscuitModel.Model.Limits
import BiscuitModel.Model.Wire
import BiscuitModel.Model.TokenSyms
import BiscuitModel.Model.Printer
open Lean
namespace Biscuit.Codec

abbrev P := Except String

def hexVal (c : Char) : Option Nat :=
  if '0' ≤ c ∧ c ≤ '9' then some (c.toNat - 48)
  else if 'a' ≤ c ∧ c ≤ 'f' then some (c.toNat - 87)
  else if 'A' ≤ c ∧ c ≤ 'F' then some (c.toNat - 55)
  else none

def unhexAux : List Char → List UInt8 → P (List UInt8)
  | [], acc => .ok acc.reverse
  | [_], _ => .error "odd hex"
  | a :: b :: rest, acc =>
    match hexVal a, hexVal b with
    | some x, some y => unhexAux rest (UInt8.ofNat (16 * x + y) :: acc)
    | _, _ => .error "bad hex"

def unhex (s : String) : P (List UInt8) := unhexAux s.toList []

def hexDigit (n : Nat) : Char := if n < 10 then Char.ofNat (48 + n) else Char.ofNat (87 + n)

def hex (bs : List UInt8) : String :=
  String.ofList (bs.flatMap fun b => [hexDigit (b.toNat / 16), hexDigit (b.toNat % 16)])

def getNat (j : Json) : P Nat :=
  match j.getInt? with
  | .ok i => if i < 0 then .error s!"negative nat {i}" else .ok i.toNat
  | .error e => .error e

def getInt (j : Json) : P Int := j.getInt?

def getArr (j : Json) : P (List Json) := do
  let a ← j.getArr?
  pure a.toList

def field (j : Json) (k : String) : P Json := j.getObjVal? k

def fieldOpt (j : Json) (k : String) : Option Json :=
  match j.getObjVal? k with
  | .ok v => some v
  | .error _ => none

partial def parseTerm (j : Json) : P Term := do
  if let some v := fieldOpt j "v" then return .var (← getNat v)
  if let some v := fieldOpt j "i" then return .int (← getInt v)
  if let some v := fieldOpt j "s" then return .str (← getNat v)
  if let some v := fieldOpt j "d" then return .date (← getNat v)
  if let some v := fieldOpt j "b" then return .bytes (← unhex (← v.getStr?))
  if let some v := fieldOpt j "t" then return .bool (← v.getBool?)
  if let some _ := fieldOpt j "null" then return .null
  if let some v := fieldOpt j "set" then
    let xs ← (← getArr v).mapM parseTerm
    return .set (setOfList xs)
  if let some v := fieldOpt j "arr" then
    let xs ← (← getArr v).mapM parseTerm
    return .arr xs
  if let some v := fieldOpt j "map" then
    let kvs ← (← getArr v).mapM fun kv => do
      let l ← getArr kv
      match l with
      | [k, t] =>
        let key ← (do
          if let some x := fieldOpt k "i" then return MapKey.int (← getInt x)
          if let some x := fieldOpt k "s" then return MapKey.str (← getNat x)
          throw "bad map key" : P MapKey)
        pure (key, ← parseTerm t)
      | _ => throw "bad map entry"
    return .map (mapOfList kvs)
  throw s!"bad term {j.compress}"

def parseUnary (j : Json) : P Unary := do
  match j with
  | .str "Negate" => pure .negate
  | .str "Parens" => pure .parens
  | .str "Length" => pure .length
  | .str "TypeOf" => pure .typeOf
  | _ =>
    if let some v := fieldOpt j "ffi" then return .ffi (← getNat v)
    throw s!"bad unary {j.compress}"

def parseBinary (j : Json) : P Binary := do
  match j with
  | .str "LessThan" => pure .lessThan
  | .str "GreaterThan" => pure .greaterThan
  | .str "LessOrEqual" => pure .lessOrEqual
  | .str "GreaterOrEqual" => pure .greaterOrEqual
  | .str "Equal" => pure .equal
  | .str "Contains" => pure .contains
  | .str "Prefix" => pure .pfx
  | .str "Suffix" => pure .sfx
  | .str "Regex" => pure .regex
  | .str "Add" => pure .add
  | .str "Sub" => pure .sub
  | .str "Mul" => pure .mul
  | .str "Div" => pure .div
  | .str "And" => pure .and
  | .str "Or" => pure .or
  | .str "Intersection" => pure .intersection
  | .str "Union" => pure .union
  | .str "BitwiseAnd" => pure .bitwiseAnd
  | .str "BitwiseOr" => pure .bitwiseOr
  | .str "BitwiseXor" => pure .bitwiseXor
  | .str "NotEqual" => pure .notEqual
  | .str "HeterogeneousEqual" => pure .heterogeneousEqual
  | .str "HeterogeneousNotEqual" => pure .heterogeneousNotEqual
  | .str "LazyAnd" => pure .lazyAnd
  | .str "LazyOr" => pure .lazyOr
  | .str "All" => pure .all
  | .str "Any" => pure .any
  | .str "Get" => pure .get
  | _ =>
    if let some v := fieldOpt j "ffi" then return .ffi (← getNat v)
    throw s!"bad binary {j.compress}"

partial def parseOp (j : Json) : P Op := do
  if let some v := fieldOpt j "val" then return .value (← parseTerm v)
  if let some v := fieldOpt j "un" then return .unary (← parseUnary v)
  if let some v := fieldOpt j "bin" then return .binary (← parseBinary v)
  if let some v := fieldOpt j "clo" then
    match ← getArr v with
    | [ps, ops] =>
      let ps ← (← getArr ps).mapM getNat
      let ops ← (← getArr ops).mapM parseOp
      return .closure ps ops
    | _ => throw "bad closure"
  throw s!"bad op {j.compress}"

def parseOps (j : Json) : P (List Op) := do (← getArr j).mapM parseOp

def parseSymbols (j : Json) : P (List Str) := do
  (← getArr j).mapM fun s => do unhex (← s.getStr?)

def parseBindings (j : Json) : P Bindings := do
  (← getArr j).mapM fun kv => do
    match ← getArr kv with
    | [k, t] => pure (← getNat k, ← parseTerm t)
    | _ => throw "bad binding"

/-- Terms in outcomes carry string contents (hex of UTF-8), not indices, so that the
    comparison does not depend on where a temporary symbol was interned. -/
partial def termOut (get : Nat → Option Str) : Term → Json
  | .var v => Json.mkObj [("v", v)]
  | .int i => Json.mkObj [("i", Json.num (JsonNumber.fromInt i))]
  | .str s =>
    match get s with
    | some b => Json.mkObj [("s", hex b)]
    | none => Json.mkObj [("s?", s)]
  | .date d => Json.mkObj [("d", d)]
  | .bytes b => Json.mkObj [("b", hex b)]
  | .bool b => Json.mkObj [("t", b)]
  | .set xs => Json.mkObj [("set", Json.arr (xs.map (termOut get)).toArray)]
  | .null => Json.mkObj [("null", (0 : Nat))]
  | .arr xs => Json.mkObj [("arr", Json.arr (xs.map (termOut get)).toArray)]
  | .map kvs => Json.mkObj [("map", Json.arr (kvs.map fun kv =>
      Json.arr #[(match kv.1 with
        | .int i => Json.mkObj [("i", Json.num (JsonNumber.fromInt i))]
        | .str s => match get s with
          | some b => Json.mkObj [("s", hex b)]
          | none => Json.mkObj [("s?", s)]), termOut get kv.2]).toArray)]

def exprErrOut : ExprErr → String
  | .unknownSymbol _ => "UnknownSymbol"
  | .unknownVariable _ => "UnknownVariable"
  | .invalidType => "InvalidType"
  | .overflow => "Overflow"
  | .divideByZero => "DivideByZero"
  | .invalidStack => "InvalidStack"
  | .shadowedVariable => "ShadowedVariable"
  | .undefinedExtern => "UndefinedExtern"
  | .outOfFuel => "MODEL-OUT-OF-FUEL"
  | .unsupportedRegex => "MODEL-UNSUPPORTED"


/-! ### engine level -/

def parsePred (j : Json) : P Predicate := do
  let n ← getNat (← field j "n")
  let ts ← (← getArr (← field j "t")).mapM parseTerm
  pure ⟨n, ts⟩

def parseRule (j : Json) : P Rule := do
  let h ← parsePred (← field j "h")
  let b ← (← getArr (← field j "b")).mapM parsePred
  let e ← (← getArr (← field j "e")).mapM parseOps
  pure ⟨h, b, e⟩

def parseNats (j : Json) : P (List Nat) := do (← getArr j).mapM getNat

/-- index-based term form (same as the harness' `term_to_json`) -/
partial def termIdx : Term → Json
  | .var v => Json.mkObj [("v", v)]
  | .int i => Json.mkObj [("i", Json.num (JsonNumber.fromInt i))]
  | .str s => Json.mkObj [("s", s)]
  | .date d => Json.mkObj [("d", d)]
  | .bytes b => Json.mkObj [("b", hex b)]
  | .bool b => Json.mkObj [("t", b)]
  | .set xs => Json.mkObj [("set", Json.arr (xs.map termIdx).toArray)]
  | .null => Json.mkObj [("null", (0 : Nat))]
  | .arr xs => Json.mkObj [("arr", Json.arr (xs.map termIdx).toArray)]
  | .map kvs => Json.mkObj [("map", Json.arr (kvs.map fun kv =>
      Json.arr #[(match kv.1 with
        | .int i => Json.mkObj [("i", Json.num (JsonNumber.fromInt i))]
        | .str s => Json.mkObj [("s", s)]), termIdx kv.2]).toArray)]

def predIdx (p : Predicate) : Json :=
  Json.mkObj [("n", p.name), ("t", Json.arr (p.terms.map termIdx).toArray)]

def factsOut (fs : List (List Nat × Fact)) : Json :=
  Json.arr (fs.map fun of => Json.arr #[Json.arr (of.1.map (fun (n : Nat) => (n : Json))).toArray, predIdx of.2]).toArray

def runErrOut : RunErr → String
  | .expr _ => "exec"
  | .tooManyIterations => "limit:TooManyIterations"
  | .tooManyFacts => "limit:TooManyFacts"
  | .timeout => "limit:Timeout"
  | .outOfFuel => "MODEL-OUT-OF-FUEL"


/-! ### string-level programs (pool indices; collections in the builder's iteration order) -/

partial def parseTermRaw (j : Json) : P Term := do
  if let some v := fieldOpt j "set" then
    return .set (← (← getArr v).mapM parseTermRaw)
  if let some v := fieldOpt j "arr" then
    return .arr (← (← getArr v).mapM parseTermRaw)
  if let some v := fieldOpt j "map" then
    let kvs ← (← getArr v).mapM fun kv => do
      match ← getArr kv with
      | [k, t] =>
        let key ← (do
          if let some x := fieldOpt k "i" then return MapKey.int (← getInt x)
          if let some x := fieldOpt k "s" then return MapKey.str (← getNat x)
          throw "bad map key" : P MapKey)
        pure (key, ← parseTermRaw t)
      | _ => throw "bad map entry"
    return .map kvs
  parseTerm j

partial def parseOpRaw (j : Json) : P Op := do
  if let some v := fieldOpt j "val" then return .value (← parseTermRaw v)
  if let some v := fieldOpt j "clo" then
    match ← getArr v with
    | [ps, ops] =>
      let ps ← (← getArr ps).mapM getNat
      let ops ← (← getArr ops).mapM parseOpRaw
      return .closure ps ops
    | _ => throw "bad closure"
  parseOp j

def parsePredRaw (j : Json) : P Predicate := do
  let n ← getNat (← field j "n")
  let ts ← (← getArr (← field j "t")).mapM parseTermRaw
  pure ⟨n, ts⟩

def parseScope (j : Json) : P Scope := do
  match j with
  | .str "authority" => pure .authority
  | .str "previous" => pure .previous
  | _ =>
    if let some k := fieldOpt j "key" then return .publicKey (← getNat k)
    throw s!"bad scope {j.compress}"

def parseQRule (j : Json) : P QRule := do
  let h ← parsePredRaw (← field j "h")
  let b ← (← getArr (← field j "b")).mapM parsePredRaw
  let e ← (← getArr (← field j "e")).mapM fun e => do (← getArr e).mapM parseOpRaw
  let sc ← (← getArr (← field j "sc")).mapM parseScope
  pure ⟨⟨h, b, e⟩, sc⟩

def parseCheck (j : Json) : P Check := do
  let k ← (← field j "k").getStr?
  let kind ← (match k with
    | "one" => pure CheckKind.one
    | "all" => pure CheckKind.all
    | "reject" => pure CheckKind.reject
    | _ => throw "bad check kind" : P CheckKind)
  let qs ← (← getArr (← field j "q")).mapM parseQRule
  pure ⟨kind, qs⟩

def parsePolicy (j : Json) : P Policy := do
  let k ← (← field j "k").getStr?
  let qs ← (← getArr (← field j "q")).mapM parseQRule
  pure ⟨if k == "allow" then .allow else .deny, qs⟩

def parseBlock (j : Json) : P Block := do
  let fs ← (← getArr (← field j "facts")).mapM parsePredRaw
  let rs ← (← getArr (← field j "rules")).mapM parseQRule
  let cs ← (← getArr (← field j "checks")).mapM parseCheck
  let sc ← (← getArr (← field j "sc")).mapM parseScope
  let ext : Option Nat := match fieldOpt j "ext" with
    | some (.num n) => some n.mantissa.toNat
    | _ => none
  pure ⟨fs, rs, cs, sc, ext⟩

def parseAz (j : Json) : P AuthorizerData := do
  let fs ← (← getArr (← field j "facts")).mapM parsePredRaw
  let rs ← (← getArr (← field j "rules")).mapM parseQRule
  let cs ← (← getArr (← field j "checks")).mapM parseCheck
  let ps ← (← getArr (← field j "policies")).mapM parsePolicy
  let sc ← (← getArr (← field j "sc")).mapM parseScope
  pure ⟨fs, rs, cs, ps, sc⟩

def parsePool (j : Json) : P (List Str) := do
  (← getArr j).mapM fun s => do pure (← s.getStr?).toUTF8.toList

def strOut (b : List UInt8) : Json :=
  match String.fromUTF8? (ByteArray.mk b.toArray) with
  | some s => Json.str s
  | none => Json.str (hex b)

/-- terms in query answers: strings by content -/
partial def termStr (get : Nat → Option Str) : Term → Json
  | .var v => Json.mkObj [("v", v)]
  | .int i => Json.mkObj [("i", Json.num (JsonNumber.fromInt i))]
  | .str s =>
    match get s with
    | some b => Json.mkObj [("s", strOut b)]
    | none => Json.mkObj [("s?", s)]
  | .date d => Json.mkObj [("d", d)]
  | .bytes b => Json.mkObj [("b", hex b)]
  | .bool b => Json.mkObj [("t", b)]
  | .set xs => Json.mkObj [("set", Json.arr (xs.map (termStr get)).toArray)]
  | .null => Json.mkObj [("null", (0 : Nat))]
  | .arr xs => Json.mkObj [("arr", Json.arr (xs.map (termStr get)).toArray)]
  | .map kvs => Json.mkObj [("map", Json.arr (kvs.map fun kv =>
      Json.arr #[(match kv.1 with
        | .int i => Json.mkObj [("i", Json.num (JsonNumber.fromInt i))]
        | .str s => match get s with
          | some b => Json.mkObj [("s", strOut b)]
          | none => Json.mkObj [("s?", s)]), termStr get kv.2]).toArray)]

def factStr (get : Nat → Option Str) (f : Fact) : Json :=
  Json.mkObj [("n", match get f.name with | some b => strOut b | none => Json.str "<?>"),
              ("t", Json.arr (f.terms.map (termStr get)).toArray)]

def failedOut (fs : List FailedCheck) : Json :=
  Json.arr (fs.map fun f => match f with
    | .authorizer i => Json.arr #[Json.str "authorizer", (i : Json)]
    | .block b i => Json.arr #[(b : Json), (i : Json)]).toArray


/-! ### signed containers -/

def parsePubKey (j : Json) : P PubKey := do
  let a ← getInt (← field j "alg")
  let b ← unhex (← (← field j "bytes").getStr?)
  -- an algorithm tag outside the enumeration is kept distinct from the valid ones
  pure ⟨if a < 0 then 1000000 + a.natAbs else a.toNat, b⟩

def hexField (j : Json) (k : String) : P Bytes := do unhex (← (← field j k).getStr?)

def parseSBlock (j : Json) : P SBlock := do
  let ext ← (match fieldOpt j "ext" with
    | some (.null) | none => pure none
    | some e => do pure (some (⟨← parsePubKey (← field e "key"), ← hexField e "sig"⟩ : ExtSig)) : P (Option ExtSig))
  let version : Option Nat := match fieldOpt j "version" with
    | some (.num n) => some n.mantissa.toNat
    | _ => none
  pure ⟨← hexField j "data", ← parsePubKey (← field j "key"), ← hexField j "sig", ext, version⟩

def parseContainer (j : Json) : P (Option Container) := do
  let rk : Option Nat := match fieldOpt j "root_key_id" with
    | some (.num n) => some n.mantissa.toNat
    | _ => none
  let a ← parseSBlock (← field j "authority")
  let bs ← (← getArr (← field j "blocks")).mapM parseSBlock
  let pj ← field j "proof"
  match fieldOpt pj "secret", fieldOpt pj "seal" with
  | some s, _ => pure (some ⟨rk, a, bs, .secret (← unhex (← s.getStr?))⟩)
  | _, some s => pure (some ⟨rk, a, bs, .sealed (← unhex (← s.getStr?))⟩)
  | _, _ => pure none

def pubKeyOut (k : PubKey) : Json := Json.mkObj [("alg", k.alg), ("bytes", hex k.bytes)]

/-! ## source-level items of the `print` stream (C14, C20) -/
namespace Src
open Biscuit.Printer

def parseSKey (k : Json) : P SKey := do
  if let some x := fieldOpt k "int" then return .int (← getInt x)
  if let some x := fieldOpt k "str" then return .str (← x.getStr?)
  if let some x := fieldOpt k "param" then return .param (← x.getStr?)
  throw "bad map key"

partial def parseSTerm (j : Json) : P STerm := do
  if let some v := fieldOpt j "var" then return .var (← v.getStr?)
  if let some v := fieldOpt j "int" then return .int (← getInt v)
  if let some v := fieldOpt j "str" then return .str (← v.getStr?)
  if let some v := fieldOpt j "date" then return .date (← getNat v)
  if let some v := fieldOpt j "bytes" then return .bytes (← unhex (← v.getStr?))
  if let some v := fieldOpt j "bool" then return .bool (← v.getBool?)
  if let some _ := fieldOpt j "null" then return .null
  if let some v := fieldOpt j "set" then return .set (← (← getArr v).mapM parseSTerm)
  if let some v := fieldOpt j "arr" then return .arr (← (← getArr v).mapM parseSTerm)
  if let some v := fieldOpt j "map" then
    let kvs ← (← getArr v).mapM fun kv => do
      match ← getArr kv with
      | [k, t] => pure (← parseSKey k, ← parseSTerm t)
      | _ => throw "bad map entry"
    return .map kvs
  if let some v := fieldOpt j "param" then return .param (← v.getStr?)
  throw s!"bad term {j.compress}"

def binOf (n : String) (name : String) : P Bin :=
  match n with
  | "lt" => pure .lt | "gt" => pure .gt | "le" => pure .le | "ge" => pure .ge | "eq" => pure .eq
  | "contains" => pure .contains | "prefix" => pure .prefix | "suffix" => pure .suffix | "regex" => pure .regex
  | "add" => pure .add | "sub" => pure .sub | "mul" => pure .mul | "div" => pure .div | "and" => pure .and
  | "or" => pure .or | "intersection" => pure .intersection | "union" => pure .union | "band" => pure .band
  | "bor" => pure .bor | "bxor" => pure .bxor | "ne" => pure .ne | "heq" => pure .heq | "hne" => pure .hne
  | "lazyand" => pure .lazyAnd | "lazyor" => pure .lazyOr | "all" => pure .all | "any" => pure .any
  | "get" => pure .get | "ffi" => pure (.ffi name)
  | other => throw s!"bad binary {other}"

partial def parsePOp (j : Json) : P POp := do
  let name : String := match fieldOpt j "name" with
    | some (.str s) => s
    | _ => ""
  if let some v := fieldOpt j "val" then return .val (← parseSTerm v)
  if let some v := fieldOpt j "un" then
    match ← v.getStr? with
    | "negate" => return .un .negate
    | "parens" => return .un .parens
    | "length" => return .un .length
    | "type" => return .un .typeOf
    | "ffi" => return .un (.ffi name)
    | other => throw s!"bad unary {other}"
  if let some v := fieldOpt j "bin" then return .bin (← binOf (← v.getStr?) name)
  if let some v := fieldOpt j "clo" then
    let ps ← (← getArr v).mapM fun p => p.getStr?
    let ops ← (← getArr (← field j "ops")).mapM parsePOp
    return .clo ps ops
  throw s!"bad op {j.compress}"

def parseSPred (j : Json) : P SPred := do
  pure ⟨← (← field j "name").getStr?, ← (← getArr (← field j "terms")).mapM parseSTerm⟩

def parseSScope (j : Json) : P SScope := do
  if let some _ := fieldOpt j "authority" then return .authority
  if let some _ := fieldOpt j "previous" then return .previous
  if let some v := fieldOpt j "key" then return .key (← v.getStr?)
  if let some v := fieldOpt j "param" then return .param (← v.getStr?)
  throw "bad scope"

def parseSRule (j : Json) : P Printer.SRule := do
  let exprs ← (← getArr (← field j "exprs")).mapM fun e => do (← getArr e).mapM parsePOp
  pure ⟨← parseSPred (← field j "head"), ← (← getArr (← field j "body")).mapM parseSPred, exprs,
    ← (← getArr (← field j "scopes")).mapM parseSScope⟩

def parseSCheck (j : Json) : P SCheck := do
  let k ← (← field j "kind").getStr?
  let kind : CKind := if k == "one" then .one else if k == "all" then .all else .reject
  pure ⟨kind, ← (← getArr (← field j "queries")).mapM parseSRule⟩

def parseSPolicy (j : Json) : P SPolicy := do
  let k ← (← field j "kind").getStr?
  pure ⟨if k == "allow" then .allow else .deny, ← (← getArr (← field j "queries")).mapM parseSRule⟩

def parseSBlockSrc (j : Json) : P Printer.SBlock := do
  pure ⟨← (← getArr (← field j "scopes")).mapM parseSScope, ← (← getArr (← field j "facts")).mapM parseSPred,
    ← (← getArr (← field j "rules")).mapM parseSRule, ← (← getArr (← field j "checks")).mapM parseSCheck⟩

def parseSAuthorizer (j : Json) : P SAuthorizer := do
  pure ⟨← (← getArr (← field j "facts")).mapM parseSPred, ← (← getArr (← field j "rules")).mapM parseSRule,
    ← (← getArr (← field j "checks")).mapM parseSCheck, ← (← getArr (← field j "policies")).mapM parseSPolicy⟩

end Src

end Biscuit.Codec
