//! String-level programs (token blocks + authorizer) shared by the token-level
//! streams: JSON form, conversion to the builder types, generator, execution.
use crate::common::*;
use biscuit_auth::builder::{
    self, AuthorizerBuilder, BiscuitBuilder, BlockBuilder, Check, CheckKind, Expression, Fact, MapKey, Op, Policy,
    PolicyKind, Predicate, Rule, Scope, Term,
};
use biscuit_auth::{error, Biscuit, KeyPair, PublicKey};
use rand::rngs::StdRng;
use rand::Rng;
use serde_json::{json, Value};
use std::collections::{BTreeMap, BTreeSet, HashMap};

// ---------------------------------------------------------------- pool
#[derive(Default)]
pub struct Pool {
    pub strs: Vec<String>,
    idx: HashMap<String, usize>,
}

impl Pool {
    pub fn get(&mut self, s: &str) -> usize {
        if let Some(i) = self.idx.get(s) {
            return *i;
        }
        self.strs.push(s.to_string());
        self.idx.insert(s.to_string(), self.strs.len() - 1);
        self.strs.len() - 1
    }
}

// ---------------------------------------------------------------- keys
pub struct Keys {
    pub root: KeyPair,
    pub ext: Vec<KeyPair>,
}

impl Keys {
    pub fn new(rng: &mut StdRng) -> Keys {
        Keys {
            root: KeyPair::new_with_rng(builder::Algorithm::Ed25519, rng),
            ext: (0..3)
                .map(|i| KeyPair::new_with_rng(if i == 2 { builder::Algorithm::Secp256r1 } else { builder::Algorithm::Ed25519 }, rng))
                .collect(),
        }
    }
    pub fn index_of(&self, k: &PublicKey) -> usize {
        self.ext.iter().position(|kp| kp.public() == *k).expect("unknown key")
    }
}

// ---------------------------------------------------------------- to JSON
pub fn term_j(t: &Term, pool: &mut Pool) -> Value {
    match t {
        Term::Variable(v) => json!({"v": pool.get(v)}),
        Term::Integer(i) => json!({"i": i}),
        Term::Str(s) => json!({"s": pool.get(s)}),
        Term::Date(d) => json!({"d": d}),
        Term::Bytes(b) => json!({"b": hex::encode(b)}),
        Term::Bool(b) => json!({"t": b}),
        Term::Set(s) => json!({"set": s.iter().map(|x| term_j(x, pool)).collect::<Vec<_>>()}),
        Term::Null => json!({"null": 0}),
        Term::Array(a) => json!({"arr": a.iter().map(|x| term_j(x, pool)).collect::<Vec<_>>()}),
        Term::Map(m) => json!({"map": m.iter().map(|(k, v)| {
            let k = match k {
                MapKey::Integer(i) => json!({"i": i}),
                MapKey::Str(s) => json!({"s": pool.get(s)}),
                MapKey::Parameter(p) => json!({"param": p}),
            };
            json!([k, term_j(v, pool)])
        }).collect::<Vec<_>>()}),
        Term::Parameter(p) => json!({"param": p}),
    }
}

pub fn op_j(op: &Op, pool: &mut Pool) -> Value {
    match op {
        Op::Value(t) => json!({"val": term_j(t, pool)}),
        Op::Unary(u) => match u {
            builder::Unary::Ffi(n) => json!({"un": {"ffi": pool.get(n)}}),
            o => json!({"un": format!("{:?}", o)}),
        },
        Op::Binary(b) => match b {
            builder::Binary::Ffi(n) => json!({"bin": {"ffi": pool.get(n)}}),
            o => json!({"bin": format!("{:?}", o)}),
        },
        Op::Closure(ps, ops) => json!({"clo": [ps.iter().map(|p| pool.get(p)).collect::<Vec<_>>(),
                                               ops.iter().map(|o| op_j(o, pool)).collect::<Vec<_>>()]}),
    }
}

pub fn pred_j(p: &Predicate, pool: &mut Pool) -> Value {
    json!({"n": pool.get(&p.name), "t": p.terms.iter().map(|t| term_j(t, pool)).collect::<Vec<_>>()})
}

pub fn scope_j(s: &Scope, keys: &Keys) -> Value {
    match s {
        Scope::Authority => json!("authority"),
        Scope::Previous => json!("previous"),
        Scope::PublicKey(k) => json!({"key": keys.index_of(k)}),
        Scope::Parameter(p) => json!({"param": p}),
    }
}

pub fn rule_j(r: &Rule, pool: &mut Pool, keys: &Keys) -> Value {
    json!({
        "h": pred_j(&r.head, pool),
        "b": r.body.iter().map(|p| pred_j(p, pool)).collect::<Vec<_>>(),
        "e": r.expressions.iter().map(|e| e.ops.iter().map(|o| op_j(o, pool)).collect::<Vec<_>>()).collect::<Vec<_>>(),
        "sc": r.scopes.iter().map(|s| scope_j(s, keys)).collect::<Vec<_>>(),
    })
}

pub fn check_j(c: &Check, pool: &mut Pool, keys: &Keys) -> Value {
    let k = match c.kind {
        CheckKind::One => "one",
        CheckKind::All => "all",
        CheckKind::Reject => "reject",
    };
    json!({"k": k, "q": c.queries.iter().map(|q| rule_j(q, pool, keys)).collect::<Vec<_>>()})
}

pub fn policy_j(p: &Policy, pool: &mut Pool, keys: &Keys) -> Value {
    let k = match p.kind {
        PolicyKind::Allow => "allow",
        PolicyKind::Deny => "deny",
    };
    json!({"k": k, "q": p.queries.iter().map(|q| rule_j(q, pool, keys)).collect::<Vec<_>>()})
}

// ---------------------------------------------------------------- from JSON
pub fn term_b(v: &Value, pool: &[String]) -> Term {
    let s = |x: &Value| pool[x.as_u64().unwrap() as usize].clone();
    if let Some(x) = v.get("v") {
        return Term::Variable(s(x));
    }
    if let Some(x) = v.get("i") {
        return Term::Integer(x.as_i64().unwrap());
    }
    if let Some(x) = v.get("s") {
        return Term::Str(s(x));
    }
    if let Some(x) = v.get("d") {
        return Term::Date(x.as_u64().unwrap());
    }
    if let Some(x) = v.get("b") {
        return Term::Bytes(hex::decode(x.as_str().unwrap()).unwrap());
    }
    if let Some(x) = v.get("t") {
        return Term::Bool(x.as_bool().unwrap());
    }
    if v.get("null").is_some() {
        return Term::Null;
    }
    if let Some(x) = v.get("param") {
        return Term::Parameter(x.as_str().unwrap().to_string());
    }
    if let Some(x) = v.get("set") {
        return Term::Set(x.as_array().unwrap().iter().map(|e| term_b(e, pool)).collect::<BTreeSet<_>>());
    }
    if let Some(x) = v.get("arr") {
        return Term::Array(x.as_array().unwrap().iter().map(|e| term_b(e, pool)).collect());
    }
    if let Some(x) = v.get("map") {
        let mut m = BTreeMap::new();
        for kv in x.as_array().unwrap() {
            let k = &kv[0];
            let key = if let Some(i) = k.get("i") {
                MapKey::Integer(i.as_i64().unwrap())
            } else if let Some(p) = k.get("param") {
                MapKey::Parameter(p.as_str().unwrap().to_string())
            } else {
                MapKey::Str(s(&k["s"]))
            };
            m.insert(key, term_b(&kv[1], pool));
        }
        return Term::Map(m);
    }
    panic!("bad term {v}")
}

fn unary_b(v: &Value, pool: &[String]) -> builder::Unary {
    if let Some(n) = v.get("ffi") {
        return builder::Unary::Ffi(pool[n.as_u64().unwrap() as usize].clone());
    }
    match v.as_str().unwrap() {
        "Negate" => builder::Unary::Negate,
        "Parens" => builder::Unary::Parens,
        "Length" => builder::Unary::Length,
        "TypeOf" => builder::Unary::TypeOf,
        s => panic!("bad unary {s}"),
    }
}

pub const BBINARIES: [builder::Binary; 28] = [
    builder::Binary::LessThan,
    builder::Binary::GreaterThan,
    builder::Binary::LessOrEqual,
    builder::Binary::GreaterOrEqual,
    builder::Binary::Equal,
    builder::Binary::Contains,
    builder::Binary::Prefix,
    builder::Binary::Suffix,
    builder::Binary::Regex,
    builder::Binary::Add,
    builder::Binary::Sub,
    builder::Binary::Mul,
    builder::Binary::Div,
    builder::Binary::And,
    builder::Binary::Or,
    builder::Binary::Intersection,
    builder::Binary::Union,
    builder::Binary::BitwiseAnd,
    builder::Binary::BitwiseOr,
    builder::Binary::BitwiseXor,
    builder::Binary::NotEqual,
    builder::Binary::HeterogeneousEqual,
    builder::Binary::HeterogeneousNotEqual,
    builder::Binary::LazyAnd,
    builder::Binary::LazyOr,
    builder::Binary::All,
    builder::Binary::Any,
    builder::Binary::Get,
];

fn binary_b(v: &Value, pool: &[String]) -> builder::Binary {
    if let Some(n) = v.get("ffi") {
        return builder::Binary::Ffi(pool[n.as_u64().unwrap() as usize].clone());
    }
    let s = v.as_str().unwrap();
    for b in BBINARIES.iter() {
        if format!("{:?}", b) == s {
            return b.clone();
        }
    }
    panic!("bad binary {s}")
}

pub fn op_b(v: &Value, pool: &[String]) -> Op {
    if let Some(x) = v.get("val") {
        return Op::Value(term_b(x, pool));
    }
    if let Some(x) = v.get("un") {
        return Op::Unary(unary_b(x, pool));
    }
    if let Some(x) = v.get("bin") {
        return Op::Binary(binary_b(x, pool));
    }
    if let Some(x) = v.get("clo") {
        let ps = x[0].as_array().unwrap().iter().map(|p| pool[p.as_u64().unwrap() as usize].clone()).collect();
        let ops = x[1].as_array().unwrap().iter().map(|o| op_b(o, pool)).collect();
        return Op::Closure(ps, ops);
    }
    panic!("bad op {v}")
}

pub fn pred_b(v: &Value, pool: &[String]) -> Predicate {
    Predicate {
        name: pool[v["n"].as_u64().unwrap() as usize].clone(),
        terms: v["t"].as_array().unwrap().iter().map(|t| term_b(t, pool)).collect(),
    }
}

pub fn scope_b(v: &Value, keys: &Keys) -> Scope {
    if let Some(k) = v.get("key") {
        return Scope::PublicKey(keys.ext[k.as_u64().unwrap() as usize].public());
    }
    if let Some(p) = v.get("param") {
        return Scope::Parameter(p.as_str().unwrap().to_string());
    }
    match v.as_str().unwrap() {
        "authority" => Scope::Authority,
        "previous" => Scope::Previous,
        s => panic!("bad scope {s}"),
    }
}

pub fn rule_b(v: &Value, pool: &[String], keys: &Keys) -> Rule {
    Rule::new(
        pred_b(&v["h"], pool),
        v["b"].as_array().unwrap().iter().map(|p| pred_b(p, pool)).collect(),
        v["e"]
            .as_array()
            .unwrap()
            .iter()
            .map(|e| Expression { ops: e.as_array().unwrap().iter().map(|o| op_b(o, pool)).collect() })
            .collect(),
        v["sc"].as_array().unwrap().iter().map(|s| scope_b(s, keys)).collect(),
    )
}

pub fn check_b(v: &Value, pool: &[String], keys: &Keys) -> Check {
    Check {
        kind: match v["k"].as_str().unwrap() {
            "one" => CheckKind::One,
            "all" => CheckKind::All,
            _ => CheckKind::Reject,
        },
        queries: v["q"].as_array().unwrap().iter().map(|q| rule_b(q, pool, keys)).collect(),
    }
}

pub fn policy_b(v: &Value, pool: &[String], keys: &Keys) -> Policy {
    Policy {
        kind: if v["k"].as_str().unwrap() == "allow" { PolicyKind::Allow } else { PolicyKind::Deny },
        queries: v["q"].as_array().unwrap().iter().map(|q| rule_b(q, pool, keys)).collect(),
    }
}

pub fn pool_of(case: &Value) -> Vec<String> {
    case["pool"].as_array().unwrap().iter().map(|s| s.as_str().unwrap().to_string()).collect()
}

pub fn block_builder_of(b: &Value, pool: &[String], keys: &Keys) -> Result<BlockBuilder, error::Token> {
    let mut bb = BlockBuilder::new();
    for f in b["facts"].as_array().unwrap() {
        bb = bb.fact(Fact::new(pool[f["n"].as_u64().unwrap() as usize].clone(), pred_b(f, pool).terms))?;
    }
    for r in b["rules"].as_array().unwrap() {
        bb = bb.rule(rule_b(r, pool, keys))?;
    }
    for c in b["checks"].as_array().unwrap() {
        bb = bb.check(check_b(c, pool, keys))?;
    }
    for s in b["sc"].as_array().unwrap() {
        bb = bb.scope(scope_b(s, keys));
    }
    if let Some(c) = b.get("ctx").and_then(|c| c.as_str()) {
        bb = bb.context(c.to_string());
    }
    Ok(bb)
}

/// builds the token of a case through the public API: authority, then first- and third-party blocks
pub fn build_token(blocks: &[Value], pool: &[String], keys: &Keys) -> Result<Biscuit, error::Token> {
    build_token_on(blocks, pool, keys, None)
}

/// the same token built on a symbol table the application supplies (`build_with_symbols`)
pub fn build_token_on(blocks: &[Value], pool: &[String], keys: &Keys, base: Option<biscuit_auth::datalog::SymbolTable>) -> Result<Biscuit, error::Token> {
    let first = block_builder_of(&blocks[0], pool, keys)?;
    let mut token = BiscuitBuilder::new().merge(first.clone());
    for s in blocks[0]["sc"].as_array().unwrap() {
        token = token.scope(scope_b(s, keys));
    }
    let mut token = match base {
        None => token.build(&keys.root)?,
        Some(t) => token.build_with_symbols(&keys.root, t)?,
    };
    for b in &blocks[1..] {
        let bb = block_builder_of(b, pool, keys)?;
        token = match b["ext"].as_u64() {
            None => token.append(bb)?,
            Some(k) => {
                let kp = &keys.ext[k as usize];
                let req = token.third_party_request()?;
                let blk = req.create_block(&kp.private(), bb)?;
                token.append_third_party(kp.public(), blk)?
            }
        };
    }
    Ok(token)
}

pub fn authorizer_builder_of(az: &Value, pool: &[String], keys: &Keys) -> Result<AuthorizerBuilder, error::Token> {
    let mut ab = AuthorizerBuilder::new();
    for f in az["facts"].as_array().unwrap() {
        ab = ab.fact(Fact::new(pool[f["n"].as_u64().unwrap() as usize].clone(), pred_b(f, pool).terms))?;
    }
    for r in az["rules"].as_array().unwrap() {
        ab = ab.rule(rule_b(r, pool, keys))?;
    }
    for c in az["checks"].as_array().unwrap() {
        ab = ab.check(check_b(c, pool, keys))?;
    }
    for p in az["policies"].as_array().unwrap() {
        ab = ab.policy(policy_b(p, pool, keys))?;
    }
    for s in az["sc"].as_array().unwrap() {
        ab = ab.scope(scope_b(s, keys));
    }
    Ok(ab)
}

pub fn failed_j(checks: &[error::FailedCheck]) -> Value {
    Value::Array(
        checks
            .iter()
            .map(|c| match c {
                error::FailedCheck::Authorizer(a) => json!(["authorizer", a.check_id]),
                error::FailedCheck::Block(b) => json!([b.block_id, b.check_id]),
            })
            .collect(),
    )
}

pub fn token_err_j(e: &error::Token) -> Value {
    match e {
        error::Token::FailedLogic(error::Logic::NoMatchingPolicy { checks }) => json!({"r": "nomatch", "failed": failed_j(checks)}),
        error::Token::FailedLogic(error::Logic::Unauthorized { policy, checks }) => {
            let (pk, p) = match policy {
                error::MatchedPolicy::Allow(i) => ("allow", *i),
                error::MatchedPolicy::Deny(i) => ("deny", *i),
            };
            json!({"r": "unauth", "pk": pk, "p": p, "failed": failed_j(checks)})
        }
        error::Token::FailedLogic(error::Logic::InvalidBlockRule(_, _)) => json!({"r": "invalid-rule"}),
        error::Token::RunLimit(l) => json!({"r": format!("limit:{:?}", l).split('(').next().unwrap()}),
        error::Token::Execution(x) => json!({"r": "exec", "kind": format!("{:?}", x).split('(').next().unwrap()}),
        error::Token::Format(f) => json!({"r": "format", "kind": format!("{:?}", f).split('(').next().unwrap()}),
        other => json!({"r": "other", "kind": format!("{:?}", other).split('(').next().unwrap()}),
    }
}

pub fn authz_outcome_j(r: &Result<usize, error::Token>) -> Value {
    match r {
        Ok(i) => json!({"r": "ok", "p": i}),
        Err(e) => token_err_j(e),
    }
}

/// a fact returned by a query, with strings by content
pub fn bfact_out(f: &Fact) -> Value {
    fn t(x: &Term) -> Value {
        match x {
            Term::Variable(v) => json!({"v": v}),
            Term::Integer(i) => json!({"i": i}),
            Term::Str(s) => json!({"s": s}),
            Term::Date(d) => json!({"d": d}),
            Term::Bytes(b) => json!({"b": hex::encode(b)}),
            Term::Bool(b) => json!({"t": b}),
            Term::Set(s) => json!({"set": s.iter().map(t).collect::<Vec<_>>()}),
            Term::Null => json!({"null": 0}),
            Term::Array(a) => json!({"arr": a.iter().map(t).collect::<Vec<_>>()}),
            Term::Map(m) => json!({"map": m
                .iter()
                .map(|(k, e)| {
                    let k = match k {
                        MapKey::Integer(i) => json!({"i": i}),
                        MapKey::Str(s) => json!({"s": s}),
                        MapKey::Parameter(p) => json!({"param": p}),
                    };
                    json!([k, t(e)])
                })
                .collect::<Vec<_>>()}),
            Term::Parameter(p) => json!({"param": p}),
        }
    }
    json!({"n": f.predicate.name, "t": f.predicate.terms.iter().map(t).collect::<Vec<_>>()})
}

// ---------------------------------------------------------------- generator

#[derive(Clone, Copy, PartialEq, Debug)]
pub enum CT {
    Int,
    Str,
    Bool,
    Any,
}

pub const PREDS: [(&str, &[CT]); 9] = [
    ("p0", &[CT::Int, CT::Int]),
    ("p1", &[CT::Int, CT::Str]),
    ("p2", &[CT::Int]),
    ("p3", &[CT::Str]),
    ("p4", &[]),
    ("p5", &[CT::Int, CT::Any, CT::Bool]),
    ("resource", &[CT::Str]),
    ("right", &[CT::Str, CT::Str]),
    ("p6", &[CT::Any]),
];
const STRS: [&str; 7] = ["a", "b", "ab", "file1", "read", "write", "h\u{e9}"];

pub fn const_of(rng: &mut StdRng, t: CT) -> Term {
    match t {
        CT::Int => Term::Integer(rng.gen_range(0..4)),
        CT::Str => Term::Str(pick(rng, &STRS).to_string()),
        CT::Bool => Term::Bool(rng.gen()),
        CT::Any => match rng.gen_range(0..9) {
            0 => Term::Integer(rng.gen_range(0..3)),
            1 => Term::Str(pick(rng, &STRS).to_string()),
            2 => Term::Date(rng.gen_range(0..3)),
            3 => Term::Bytes(vec![rng.gen_range(0..2)]),
            4 => Term::Bool(rng.gen()),
            5 => Term::Set((0..rng.gen_range(0..3)).map(|_| Term::Integer(rng.gen_range(0..3))).collect::<BTreeSet<_>>()),
            6 => Term::Null,
            7 => Term::Array((0..rng.gen_range(0..3)).map(|_| Term::Integer(rng.gen_range(0..3))).collect()),
            _ => Term::Map(
                (0..rng.gen_range(0..3))
                    .map(|_| (MapKey::Integer(rng.gen_range(0..2)), Term::Integer(rng.gen_range(0..3))))
                    .collect::<BTreeMap<_, _>>(),
            ),
        },
    }
}

pub struct RuleGen {
    pub vars: Vec<(String, CT)>,
    /// probability (1/n) of emitting an expression that may fail for some bindings; 0 = never
    pub err_rate: u32,
}

impl RuleGen {
    fn var_for(&mut self, rng: &mut StdRng, t: CT) -> String {
        let c: Vec<String> = self.vars.iter().filter(|(_, ty)| *ty == t).map(|(v, _)| v.clone()).collect();
        if !c.is_empty() && rng.gen_range(0..3) > 0 {
            pick(rng, &c).clone()
        } else {
            let v = format!("v{}", self.vars.len());
            self.vars.push((v.clone(), t));
            v
        }
    }
    pub fn body_pred(&mut self, rng: &mut StdRng) -> Predicate {
        let (name, cols) = *pick(rng, &PREDS);
        let terms: Vec<Term> = cols
            .iter()
            .map(|t| if rng.gen_range(0..4) == 0 { const_of(rng, *t) } else { Term::Variable(self.var_for(rng, *t)) })
            .collect();
        Predicate { name: name.to_string(), terms }
    }
    pub fn head_pred(&mut self, rng: &mut StdRng) -> Predicate {
        let (name, cols) = *pick(rng, &PREDS);
        let terms: Vec<Term> = cols
            .iter()
            .map(|t| {
                let c: Vec<String> = self.vars.iter().filter(|(_, ty)| *ty == *t || *t == CT::Any).map(|(v, _)| v.clone()).collect();
                if !c.is_empty() && rng.gen_range(0..5) > 0 {
                    Term::Variable(pick(rng, &c).clone())
                } else {
                    const_of(rng, *t)
                }
            })
            .collect();
        Predicate { name: name.to_string(), terms }
    }
    pub fn expr(&mut self, rng: &mut StdRng) -> Expression {
        use builder::Binary as B;
        let of = |vars: &Vec<(String, CT)>, t: CT| -> Vec<String> { vars.iter().filter(|(_, x)| *x == t).map(|(v, _)| v.clone()).collect() };
        let ints = of(&self.vars, CT::Int);
        let strs = of(&self.vars, CT::Str);
        let anys: Vec<String> = self.vars.iter().map(|(v, _)| v.clone()).collect();
        let v = |s: &String| Op::Value(Term::Variable(s.clone()));
        let mut ops = vec![];
        let risky = self.err_rate > 0 && rng.gen_range(0..self.err_rate) == 0;
        match rng.gen_range(0..10) {
            _ if risky && !ints.is_empty() => {
                ops.push(Op::Value(Term::Integer(6)));
                ops.push(v(pick(rng, &ints)));
                ops.push(Op::Binary(B::Div));
                ops.push(Op::Value(Term::Integer(2)));
                ops.push(Op::Binary(B::GreaterThan));
            }
            0..=3 if !ints.is_empty() => {
                ops.push(v(pick(rng, &ints)));
                if ints.len() > 1 && rng.gen() {
                    ops.push(v(pick(rng, &ints)));
                } else {
                    ops.push(Op::Value(Term::Integer(rng.gen_range(0..4))));
                }
                ops.push(Op::Binary(pick(rng, &[B::LessThan, B::GreaterOrEqual, B::Equal, B::NotEqual, B::HeterogeneousEqual]).clone()));
            }
            4 | 5 if !strs.is_empty() => {
                ops.push(v(pick(rng, &strs)));
                // the last three are also patterns without metacharacters, for `.matches`
                let lit = pick(rng, &STRS).to_string();
                let ascii = lit.is_ascii();
                ops.push(Op::Value(Term::Str(lit)));
                let b = pick(rng, &[B::Prefix, B::Contains, B::Equal, B::Suffix, B::HeterogeneousNotEqual, B::Regex, B::Regex]).clone();
                ops.push(Op::Binary(if b == B::Regex && !ascii { B::Contains } else { b }));
            }
            6 if !strs.is_empty() => {
                // concatenation compared with a literal: exercises the temporary symbol table
                ops.push(v(pick(rng, &strs)));
                ops.push(Op::Value(Term::Str("b".to_string())));
                ops.push(Op::Binary(B::Add));
                ops.push(Op::Value(Term::Str("ab".to_string())));
                ops.push(Op::Binary(B::HeterogeneousEqual));
            }
            7 if !anys.is_empty() => {
                ops.push(v(pick(rng, &anys)));
                ops.push(Op::Unary(builder::Unary::TypeOf));
                ops.push(Op::Value(Term::Str(pick(rng, &["integer", "string", "set", "null"]).to_string())));
                ops.push(Op::Binary(B::HeterogeneousEqual));
            }
            8 if !ints.is_empty() => {
                // closure over a literal set of integers
                let x = pick(rng, &ints).clone();
                ops.push(Op::Value(Term::Set((0..3).map(Term::Integer).collect::<BTreeSet<_>>())));
                ops.push(Op::Closure(
                    vec!["cp".to_string()],
                    vec![Op::Value(Term::Variable("cp".to_string())), v(&x), Op::Binary(B::LessOrEqual)],
                ));
                ops.push(Op::Binary(if rng.gen() { B::Any } else { B::All }));
            }
            _ => {
                ops.push(Op::Value(Term::Bool(rng.gen_range(0..4) > 0)));
            }
        }
        Expression { ops }
    }
}

pub fn gen_scopes(rng: &mut StdRng, keys: &Keys, p: u32) -> Vec<Scope> {
    if rng.gen_range(0..p) != 0 {
        return vec![];
    }
    let n = rng.gen_range(1..3);
    (0..n)
        .map(|_| match rng.gen_range(0..5) {
            0 => Scope::Authority,
            1 => Scope::Previous,
            k => Scope::PublicKey(keys.ext[(k - 2) as usize].public()),
        })
        .collect()
}

pub fn gen_rule(rng: &mut StdRng, keys: &Keys, err_rate: u32, scope_p: u32) -> Rule {
    let mut g = RuleGen { vars: vec![], err_rate };
    let nb = *pick(rng, &[1usize, 1, 1, 2, 2, 2, 3]);
    let body: Vec<Predicate> = (0..nb).map(|_| g.body_pred(rng)).collect();
    let head = g.head_pred(rng);
    let ne = *pick(rng, &[0usize, 0, 0, 1, 1, 2]);
    let expressions = (0..ne).map(|_| g.expr(rng)).collect();
    Rule::new(head, body, expressions, gen_scopes(rng, keys, scope_p))
}

/// a query: like a rule, with the head `query()`; bodies may be empty (`check if true`)
pub fn gen_query(rng: &mut StdRng, keys: &Keys, err_rate: u32, scope_p: u32) -> Rule {
    let mut g = RuleGen { vars: vec![], err_rate };
    let nb = *pick(rng, &[0usize, 1, 1, 1, 1, 2, 2]);
    let body: Vec<Predicate> = (0..nb).map(|_| g.body_pred(rng)).collect();
    let ne = if nb == 0 { 1 } else { *pick(rng, &[0usize, 0, 1, 1, 2]) };
    let expressions = (0..ne).map(|_| g.expr(rng)).collect();
    Rule::new(Predicate { name: "query".to_string(), terms: vec![] }, body, expressions, gen_scopes(rng, keys, scope_p))
}

pub fn gen_check(rng: &mut StdRng, keys: &Keys, err_rate: u32) -> Check {
    let kind = pick(rng, &[CheckKind::One, CheckKind::One, CheckKind::All, CheckKind::Reject]).clone();
    let n = *pick(rng, &[1usize, 1, 1, 2, 2, 3]);
    Check { kind, queries: (0..n).map(|_| gen_query(rng, keys, err_rate, 5)).collect() }
}

pub fn gen_fact(rng: &mut StdRng) -> Predicate {
    let (name, cols) = *pick(rng, &PREDS);
    Predicate { name: name.to_string(), terms: cols.iter().map(|t| const_of(rng, *t)).collect() }
}

pub struct GenOpts {
    pub err_rate: u32,
    pub max_blocks: usize,
}

/// a query that matches the given fact: some of its terms replaced by variables
pub fn query_from_fact(rng: &mut StdRng, f: &Predicate) -> Rule {
    let terms: Vec<Term> = f
        .terms
        .iter()
        .enumerate()
        .map(|(i, t)| if rng.gen_range(0..3) > 0 { Term::Variable(format!("m{i}")) } else { t.clone() })
        .collect();
    Rule::new(
        Predicate { name: "query".to_string(), terms: vec![] },
        vec![Predicate { name: f.name.clone(), terms }],
        vec![],
        vec![],
    )
}

/// a check that the facts in `known` (visible by default) satisfy, most of the time
pub fn gen_check_sat(rng: &mut StdRng, keys: &Keys, known: &[Predicate]) -> Check {
    if known.is_empty() || rng.gen_range(0..6) == 0 {
        return gen_check(rng, keys, 0);
    }
    match rng.gen_range(0..6) {
        0 => {
            // reject if <something absent>
            let q = Rule::new(
                Predicate { name: "query".into(), terms: vec![] },
                vec![Predicate { name: "absent".into(), terms: vec![Term::Variable("m0".into())] }],
                vec![],
                vec![],
            );
            let mut queries = vec![q];
            if rng.gen() {
                queries.push(Rule::new(
                    Predicate { name: "query".into(), terms: vec![] },
                    vec![Predicate { name: "p2".into(), terms: vec![Term::Integer(99)] }],
                    vec![],
                    vec![],
                ));
            }
            Check { kind: CheckKind::Reject, queries }
        }
        1 => Check { kind: CheckKind::All, queries: vec![{ let f = pick(rng, known).clone(); query_from_fact(rng, &f) }] },
        _ => {
            let mut queries = vec![];
            if rng.gen_range(0..3) == 0 {
                queries.push(gen_query(rng, keys, 0, 5));
            }
            let f = pick(rng, known).clone();
            queries.push(query_from_fact(rng, &f));
            Check { kind: CheckKind::One, queries }
        }
    }
}

pub fn gen_block_j(rng: &mut StdRng, keys: &Keys, pool: &mut Pool, index: usize, o: &GenOpts, authority: &mut Vec<Predicate>) -> Value {
    let nf = rng.gen_range(0..6);
    let mut bfacts: Vec<Predicate> = (0..nf).map(|_| gen_fact(rng)).collect();
    if rng.gen_range(0..4) == 0 {
        for k in 0..rng.gen_range(2..5) {
            bfacts.push(Predicate { name: "p0".into(), terms: vec![Term::Integer(k), Term::Integer(k + 1)] });
        }
    }
    let facts: Vec<Value> = bfacts.iter().map(|f| pred_j(f, pool)).collect();
    if index == 0 {
        authority.extend(bfacts.iter().cloned());
    }
    let mut known = authority.clone();
    known.extend(bfacts.iter().cloned());
    let nr = rng.gen_range(0..3);
    let mut rules: Vec<Value> = (0..nr).map(|_| rule_j(&gen_rule(rng, keys, o.err_rate, 5), pool, keys)).collect();
    if rng.gen_range(0..5) == 0 {
        let v = |s: &str| Term::Variable(s.to_string());
        let p0 = |a: Term, b: Term| Predicate { name: "p0".into(), terms: vec![a, b] };
        rules.push(rule_j(&Rule::new(p0(v("x"), v("z")), vec![p0(v("x"), v("y")), p0(v("y"), v("z"))], vec![], gen_scopes(rng, keys, 3)), pool, keys));
    }
    let nc = rng.gen_range(0..3);
    let checks: Vec<Value> = (0..nc)
        .map(|_| {
            let c = if o.err_rate == 0 && rng.gen_range(0..4) > 0 { gen_check_sat(rng, keys, &known) } else { gen_check(rng, keys, o.err_rate) };
            check_j(&c, pool, keys)
        })
        .collect();
    let sc: Vec<Value> = gen_scopes(rng, keys, 5).iter().map(|s| scope_j(s, keys)).collect();
    let ext = if index > 0 && rng.gen_range(0..3) == 0 { json!(rng.gen_range(0..3)) } else { Value::Null };
    json!({"facts": facts, "rules": rules, "checks": checks, "sc": sc, "ext": ext})
}

pub fn gen_az_j(rng: &mut StdRng, keys: &Keys, pool: &mut Pool, o: &GenOpts, authority: &[Predicate]) -> Value {
    let nf = rng.gen_range(0..5);
    let afacts: Vec<Predicate> = (0..nf).map(|_| gen_fact(rng)).collect();
    let facts: Vec<Value> = afacts.iter().map(|f| pred_j(f, pool)).collect();
    let mut known = authority.to_vec();
    known.extend(afacts.iter().cloned());
    let nr = rng.gen_range(0..3);
    let rules: Vec<Value> = (0..nr).map(|_| rule_j(&gen_rule(rng, keys, o.err_rate, 4), pool, keys)).collect();
    let nc = rng.gen_range(0..3);
    let checks: Vec<Value> = (0..nc)
        .map(|_| {
            let c = if o.err_rate == 0 && rng.gen_range(0..4) > 0 { gen_check_sat(rng, keys, &known) } else { gen_check(rng, keys, o.err_rate) };
            check_j(&c, pool, keys)
        })
        .collect();
    let np = rng.gen_range(0..4);
    let mut policies: Vec<Value> = (0..np)
        .map(|_| {
            let kind = if rng.gen_range(0..3) == 0 { PolicyKind::Deny } else { PolicyKind::Allow };
            let n = *pick(rng, &[1usize, 1, 2]);
            let queries = (0..n)
                .map(|_| if !known.is_empty() && rng.gen_range(0..3) == 0 { let f = pick(rng, &known).clone(); query_from_fact(rng, &f) } else { gen_query(rng, keys, o.err_rate, 4) })
                .collect();
            policy_j(&Policy { kind, queries }, pool, keys)
        })
        .collect();
    if rng.gen_range(0..3) > 0 {
        let kind = if rng.gen_range(0..4) == 0 { PolicyKind::Deny } else { PolicyKind::Allow };
        let q = Rule::new(Predicate { name: "query".into(), terms: vec![] }, vec![], vec![Expression { ops: vec![Op::Value(Term::Bool(true))] }], vec![]);
        policies.push(policy_j(&Policy { kind, queries: vec![q] }, pool, keys));
    }
    let sc: Vec<Value> = gen_scopes(rng, keys, 5).iter().map(|s| scope_j(s, keys)).collect();
    json!({"facts": facts, "rules": rules, "checks": checks, "policies": policies, "sc": sc})
}

pub fn gen_queries_j(rng: &mut StdRng, keys: &Keys, pool: &mut Pool) -> Vec<Value> {
    (0..rng.gen_range(0..3))
        .map(|_| {
            let (name, cols) = *pick(rng, &PREDS);
            let vars: Vec<Term> = (0..cols.len()).map(|i| Term::Variable(format!("q{i}"))).collect();
            let r = if rng.gen_range(0..3) == 0 {
                // the predicate joined with itself: more rows than there are facts
                let vars2: Vec<Term> = (0..cols.len()).map(|i| Term::Variable(format!("r{i}"))).collect();
                let mut head = vars.clone();
                head.extend(vars2.iter().cloned());
                Rule::new(
                    Predicate { name: "data".into(), terms: head },
                    vec![Predicate { name: name.into(), terms: vars }, Predicate { name: name.into(), terms: vars2 }],
                    vec![],
                    gen_scopes(rng, keys, 3),
                )
            } else {
                Rule::new(
                    Predicate { name: "data".into(), terms: vars.clone() },
                    vec![Predicate { name: name.into(), terms: vars }],
                    vec![],
                    gen_scopes(rng, keys, 3),
                )
            };
            json!({"all": rng.gen::<bool>(), "q": rule_j(&r, pool, keys)})
        })
        .collect()
}
