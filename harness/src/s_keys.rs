//! stream `keys`: key and signature encodings round-trip and reject malformed material (C17)
//!
//! * `roundtrip`: a key pair (from a seed) through every supported encoding and back;
//! * `decode`: one decoder on one input — a genuine encoding or a mutation of one (truncated,
//!   extended, a flipped bit, another algorithm's material, another prefix, reordered or
//!   duplicated protobuf fields, ...);
//! * `verify`: a signature against a key and a message, each of them genuine or not.
use crate::common::*;
use biscuit_auth::builder::Algorithm;
use biscuit_auth::format::schema;
use biscuit_auth::{KeyPair, PrivateKey, PublicKey};
use prost::Message;
use rand::rngs::StdRng;
use rand::Rng;
use serde_json::{json, Value};
use std::collections::BTreeMap;

fn alg_of(s: &str) -> Algorithm {
    if s == "ed25519" { Algorithm::Ed25519 } else { Algorithm::Secp256r1 }
}

fn alg_name(k: &PublicKey) -> &'static str {
    match k {
        PublicKey::Ed25519(_) => "ed25519",
        PublicKey::P256(_) => "secp256r1",
    }
}

fn pub_out(r: Result<PublicKey, biscuit_auth::error::Format>) -> Value {
    match r {
        Ok(k) => json!({"r": "key", "alg": alg_name(&k), "bytes": hex::encode(k.to_bytes())}),
        Err(e) => json!({"r": "err", "e": format!("{:?}", e).chars().take(120).collect::<String>()}),
    }
}

fn priv_out(r: Result<PrivateKey, biscuit_auth::error::Format>) -> Value {
    match r {
        Ok(k) => json!({"r": "key", "alg": alg_name(&k.public()), "bytes": hex::encode(&*k.to_bytes())}),
        Err(e) => json!({"r": "err", "e": format!("{:?}", e).chars().take(120).collect::<String>()}),
    }
}

fn keypair_of(alg: &str, sk_hex: &str) -> KeyPair {
    KeyPair::from(&PrivateKey::from_bytes(&hex::decode(sk_hex).unwrap(), alg_of(alg)).unwrap())
}

pub fn run_case(case: &Value) -> Value {
    let r = std::panic::catch_unwind(std::panic::AssertUnwindSafe(|| match case["kind"].as_str().unwrap() {
        "roundtrip" => {
            let alg = case["alg"].as_str().unwrap();
            let kp = keypair_of(alg, case["sk"].as_str().unwrap());
            let sk = kp.private();
            let pk = kp.public();
            let a = alg_of(alg);
            let pub_der = pk.to_der().unwrap();
            let pub_pem = pk.to_pem().unwrap();
            let priv_der = sk.to_der().unwrap();
            let priv_pem = sk.to_pem().unwrap();
            let proto = pk.to_proto().encode_to_vec();
            let same_sk = |r: Result<PrivateKey, biscuit_auth::error::Format>| r.map(|k| k.to_bytes() == sk.to_bytes() && k.public() == pk).unwrap_or(false);
            let same_pk = |r: Result<PublicKey, biscuit_auth::error::Format>| r.map(|k| k == pk).unwrap_or(false);
            // the PEM body is the base64 of the DER encoding (checked with an independent base64 decoder)
            let pem_body = |pem: &str| -> Vec<u8> {
                let b: String = pem.lines().filter(|l| !l.starts_with("-----")).collect();
                base64::decode(b).unwrap_or_default()
            };
            json!({
                "pk": hex::encode(pk.to_bytes()),
                "pub_hex": pk.to_bytes_hex(), "pub_string": pk.to_string(), "pub_print": pk.print(),
                "priv_hex": sk.to_bytes_hex(), "priv_string": sk.to_prefixed_string(),
                "pub_proto": hex::encode(&proto), "pub_der": hex::encode(&pub_der), "priv_der": hex::encode(&*priv_der),
                "pem_is_der": pem_body(&pub_pem) == pub_der && pem_body(&priv_pem) == *priv_der,
                "pub_pem_label": pub_pem.lines().next().unwrap_or(""), "priv_pem_label": priv_pem.lines().next().unwrap_or(""),
                "back": {
                    "pub_bytes": same_pk(PublicKey::from_bytes(&pk.to_bytes(), a)),
                    "pub_hex": same_pk(PublicKey::from_bytes_hex(&pk.to_bytes_hex(), a)),
                    "pub_string": same_pk(pk.to_string().parse()),
                    "pub_print": same_pk(pk.print().parse()),
                    "pub_proto": same_pk(schema::PublicKey::decode(&proto[..]).map_err(|e| biscuit_auth::error::Format::DeserializationError(e.to_string())).and_then(|p| PublicKey::from_proto(&p))),
                    "pub_der": same_pk(PublicKey::from_der(&pub_der)),
                    "pub_der_alg": same_pk(PublicKey::from_der_with_algorithm(&pub_der, a)),
                    "pub_pem": same_pk(PublicKey::from_pem(&pub_pem)),
                    "pub_pem_alg": same_pk(PublicKey::from_pem_with_algorithm(&pub_pem, a)),
                    "priv_bytes": same_sk(PrivateKey::from_bytes(&sk.to_bytes(), a)),
                    "priv_hex": same_sk(PrivateKey::from_bytes_hex(&sk.to_bytes_hex(), a)),
                    "priv_string": same_sk(sk.to_prefixed_string().parse()),
                    "priv_der": same_sk(PrivateKey::from_der(&priv_der)),
                    "priv_der_alg": same_sk(PrivateKey::from_der_with_algorithm(&priv_der, a)),
                    "priv_pem": same_sk(PrivateKey::from_pem(&priv_pem)),
                    "priv_pem_alg": same_sk(PrivateKey::from_pem_with_algorithm(&priv_pem, a)),
                    "keypair_der": KeyPair::from_private_key_der(&priv_der).map(|k| k.public() == pk).unwrap_or(false),
                    "keypair_pem": KeyPair::from_private_key_pem(&priv_pem).map(|k| k.public() == pk).unwrap_or(false),
                    "keypair_bytes": KeyPair::from_bytes(&sk.to_bytes(), kp.algorithm()).map(|k| k.public() == pk).unwrap_or(false),
                    "public_stable": KeyPair::from(&sk).public() == pk && sk.public() == pk,
                },
            })
        }
        "decode" => {
            let what = case["what"].as_str().unwrap();
            let alg = case["alg"].as_str().unwrap_or("ed25519");
            let a = alg_of(alg);
            let text = case["text"].as_str().unwrap_or("");
            let bytes = case.get("hex").and_then(|h| h.as_str()).map(|h| hex::decode(h).unwrap()).unwrap_or_default();
            match what {
                "pub_string" => pub_out(text.parse::<PublicKey>()),
                "priv_string" => priv_out(text.parse::<PrivateKey>()),
                "pub_hex" => pub_out(PublicKey::from_bytes_hex(text, a)),
                "priv_hex" => priv_out(PrivateKey::from_bytes_hex(text, a)),
                "pub_bytes" => pub_out(PublicKey::from_bytes(&bytes, a)),
                "priv_bytes" => priv_out(PrivateKey::from_bytes(&bytes, a)),
                "pub_proto" => match schema::PublicKey::decode(&bytes[..]) {
                    Ok(p) => pub_out(PublicKey::from_proto(&p)),
                    Err(e) => json!({"r": "err", "e": format!("prost: {e}")}),
                },
                "pub_der" => pub_out(PublicKey::from_der(&bytes)),
                "pub_der_alg" => pub_out(PublicKey::from_der_with_algorithm(&bytes, a)),
                "priv_der" => priv_out(PrivateKey::from_der(&bytes)),
                "priv_der_alg" => priv_out(PrivateKey::from_der_with_algorithm(&bytes, a)),
                "pub_pem" => pub_out(PublicKey::from_pem(text)),
                "pub_pem_alg" => pub_out(PublicKey::from_pem_with_algorithm(text, a)),
                "priv_pem" => priv_out(PrivateKey::from_pem(text)),
                "priv_pem_alg" => priv_out(PrivateKey::from_pem_with_algorithm(text, a)),
                other => panic!("unknown decoder {other}"),
            }
        }
        "source" => {
            // keys written in Datalog source (`trusting ed25519/<hex>`): every entry point that takes text
            let text = case["text"].as_str().unwrap();
            let which = case["which"].as_str().unwrap();
            use biscuit_auth::builder::{AuthorizerBuilder, BiscuitBuilder, BlockBuilder, Check, Policy, Rule};
            use std::convert::TryFrom;
            let ok = match which {
                "rule" => Rule::try_from(text).is_ok(),
                "check" => Check::try_from(text).is_ok(),
                "policy" => Policy::try_from(text).is_ok(),
                "block" => BlockBuilder::new().code(text).is_ok(),
                "biscuit" => BiscuitBuilder::new().code(text).is_ok(),
                _ => AuthorizerBuilder::new().code(text).is_ok(),
            };
            json!({"r": if ok { "ok" } else { "err" }})
        }
        _ => {
            // verify: signature made by `sk` over `msg`; checked under `vk` (alg `valg`) over `vmsg` with `sig`
            let kp = keypair_of(case["alg"].as_str().unwrap(), case["sk"].as_str().unwrap());
            let msg = hex::decode(case["msg"].as_str().unwrap()).unwrap();
            let sig = kp.sign(&msg).unwrap();
            let genuine = hex::encode(sig.to_bytes());
            let mut sig_bytes = sig.to_bytes().to_vec();
            match case["sig_mut"].as_str().unwrap() {
                "none" => {}
                "truncate" => {
                    sig_bytes.pop();
                }
                "extend" => sig_bytes.push(0),
                "empty" => sig_bytes.clear(),
                "keyless" => {
                    // the signature anyone can write down: R = a point of small order, s = 0
                    sig_bytes = hex::decode(case["r_point"].as_str().unwrap()).unwrap();
                    sig_bytes.extend_from_slice(&[0u8; 32]);
                }
                "flip" => {
                    let i = case["at"].as_u64().unwrap() as usize % sig_bytes.len();
                    sig_bytes[i] ^= 1 << (case["bit"].as_u64().unwrap() % 8);
                }
                _ => {
                    // the other algorithm's signature over the same message
                    let other = KeyPair::new_with_rng(if case["alg"] == "ed25519" { Algorithm::Secp256r1 } else { Algorithm::Ed25519 }, &mut case_rng(1, 2, 3));
                    sig_bytes = other.sign(&msg).unwrap().to_bytes().to_vec();
                }
            }
            let vk = match case.get("vk") {
                Some(v) if v.is_object() => PublicKey::from_bytes(&hex::decode(v["bytes"].as_str().unwrap()).unwrap(), alg_of(v["alg"].as_str().unwrap())).unwrap(),
                _ => kp.public(),
            };
            let vmsg = case.get("vmsg").and_then(|m| m.as_str()).map(|m| hex::decode(m).unwrap()).unwrap_or_else(|| msg.clone());
            let sig2 = biscuit_auth::VerifSignature::from_bytes(&sig_bytes).unwrap();
            let r = vk.verify_signature(&vmsg, &sig2);
            json!({"verified": r.is_ok(), "genuine_sig": genuine, "sig_len": sig_bytes.len(), "e": r.err().map(|e| format!("{:?}", e).chars().take(100).collect::<String>())})
        }
    }));
    match r {
        Ok(v) => v,
        Err(e) => json!({"panic": panic_msg(e)}),
    }
}

fn flip_hex_char(c: char) -> char {
    match c {
        '0' => '1',
        'f' => 'e',
        'a' => 'b',
        '9' => '8',
        c if c.is_ascii_hexdigit() => ((c as u8) ^ 1) as char,
        c => c,
    }
}

fn mutate_text(rng: &mut StdRng, s: &str) -> (String, String) {
    let chars: Vec<char> = s.chars().collect();
    match rng.gen_range(0..15) {
        13 | 14 => {
            // a character that is no hex digit but whose low byte is one (U+0131 for `1`, U+0161 for `a`, ...)
            let hexpos: Vec<usize> = chars.iter().enumerate().filter(|(i, c)| c.is_ascii_hexdigit() && *i > s.find('/').unwrap_or(0)).map(|(i, _)| i).collect();
            if hexpos.is_empty() {
                return (format!("{s}\u{131}"), "append look-alike".into());
            }
            let i = *pick(rng, &hexpos);
            let mut c = chars.clone();
            c[i] = char::from_u32(0x100 + c[i] as u32).unwrap();
            (c.iter().collect(), format!("look-alike of the hex digit at {i}"))
        }
        0 => (chars[..chars.len() - 1].iter().collect(), "drop last char".into()),
        1 => (chars[..chars.len() - 2].iter().collect(), "drop last byte".into()),
        2 => (format!("{s}0"), "append 0".into()),
        3 => (format!("{s}00"), "append 00".into()),
        4 => (format!("{s}zz"), "append zz".into()),
        5 => (format!("{s} "), "append space".into()),
        6 => (format!("{s}\n"), "append newline".into()),
        7 => (format!(" {s}"), "leading space".into()),
        8 => (s.to_uppercase(), "upper case".into()),
        9 => {
            let (alg, rest) = s.split_once('/').unwrap_or(("", s));
            (format!("{}/{}", alg, rest.to_uppercase()), "upper case hex".into())
        }
        10 => {
            let i = rng.gen_range(0..chars.len());
            let mut c = chars.clone();
            c[i] = flip_hex_char(c[i]);
            (c.iter().collect(), format!("change char {i}"))
        }
        11 => {
            let (alg, rest) = s.split_once('/').unwrap_or(("", s));
            let other = *pick(rng, &["ed25519", "secp256r1", "Ed25519", "rsa", "", "ed25519/ed25519"]);
            let _ = alg;
            (format!("{other}/{rest}"), format!("prefix {other}"))
        }
        _ => (s.replace('/', *pick(rng, &["", ":", "//", " / "])), "separator".into()),
    }
}

fn mutate_bytes(rng: &mut StdRng, b: &[u8]) -> (Vec<u8>, String) {
    let mut v = b.to_vec();
    match rng.gen_range(0..8) {
        0 => {
            v.pop();
            (v, "truncate 1".into())
        }
        1 => {
            let n = rng.gen_range(0..v.len());
            v.truncate(n);
            (v, format!("truncate to {n}"))
        }
        2 => {
            v.push(rng.gen());
            (v, "extend 1".into())
        }
        3 => {
            v.extend_from_slice(b);
            (v, "doubled".into())
        }
        4 | 5 => {
            let i = rng.gen_range(0..v.len());
            let bit = rng.gen_range(0..8);
            v[i] ^= 1 << bit;
            (v, format!("flip byte {i} bit {bit}"))
        }
        6 => (vec![0; b.len()], "all zero".into()),
        _ => (vec![0xff; b.len()], "all ones".into()),
    }
}

fn varint(mut n: u64, out: &mut Vec<u8>) {
    while n >= 128 {
        out.push((n % 128) as u8 | 0x80);
        n /= 128;
    }
    out.push(n as u8);
}

/// hand-made `PublicKey` messages: field order, duplicates, unknown fields, missing fields, odd algorithm values
fn proto_variant(rng: &mut StdRng, alg: u64, key: &[u8]) -> (Vec<u8>, String) {
    let f_alg = |a: u64| {
        let mut v = vec![0x08];
        varint(a, &mut v);
        v
    };
    let f_key = |k: &[u8]| {
        let mut v = vec![0x12];
        varint(k.len() as u64, &mut v);
        v.extend_from_slice(k);
        v
    };
    match rng.gen_range(0..10) {
        0 => ([f_key(key), f_alg(alg)].concat(), "fields swapped".into()),
        1 => ([f_alg(1 - alg.min(1)), f_alg(alg), f_key(key)].concat(), "algorithm twice, last wins".into()),
        2 => ([f_alg(alg), f_key(&[1, 2, 3]), f_key(key)].concat(), "key twice, last wins".into()),
        3 => (f_alg(alg), "key missing".into()),
        4 => (f_key(key), "algorithm missing".into()),
        5 => {
            let a = *pick(rng, &[2u64, 3, 127, 128, 0xffff_ffff, 0x7fff_ffff, u64::MAX]);
            ([f_alg(a), f_key(key)].concat(), format!("algorithm {a}"))
        }
        6 => ([f_alg(alg), f_key(key), vec![0x18, 0x05]].concat(), "unknown field 3".into()),
        7 => ([f_alg(alg), vec![0x12, 0x7f], key.to_vec()].concat(), "length beyond input".into()),
        8 => {
            // non-minimal varint for the algorithm
            ([vec![0x08, 0x80 | alg as u8, 0x00], f_key(key)].concat(), "non-minimal varint".into())
        }
        _ => ([f_alg(alg), f_key(key)].concat(), "canonical".into()),
    }
}

pub fn run(opts: &Opts) {
    let mut sink = Sink::new(opts, "keys");
    let mut stats: BTreeMap<String, u64> = BTreeMap::new();
    let mut emit = |sink: &mut Sink, case: Value| {
        let out = run_case(&case);
        let k = if out.get("panic").is_some() {
            "PANIC".to_string()
        } else if case["kind"] == "decode" {
            format!("{}/{}", case["what"].as_str().unwrap(), out["r"].as_str().unwrap_or("?"))
        } else if case["kind"] == "verify" {
            format!("verify/{}", out["verified"])
        } else if case["kind"] == "source" {
            format!("source/{}", out["r"].as_str().unwrap_or("?"))
        } else {
            "roundtrip".to_string()
        };
        *stats.entry(k).or_insert(0) += 1;
        sink.put(&case, &out);
    };
    if let Some(path) = &opts.replay {
        for case in read_cases(path) {
            emit(&mut sink, case);
        }
        sink.finish();
        return;
    }
    for case in read_cases("corpus/keys.jsonl") {
        emit(&mut sink, case);
    }
    let n = if opts.n > 0 { opts.n } else if opts.thorough { 20_000 } else { 1_200 };
    for i in 0..n {
        let mut rng = case_rng(opts.seed, 17, i as u64);
        let alg = if rng.gen() { "ed25519" } else { "secp256r1" };
        let a = alg_of(alg);
        let kp = KeyPair::new_with_rng(a, &mut rng);
        let sk_hex = kp.private().to_bytes_hex();
        let pk = kp.public();
        match i % 6 {
            0 => emit(&mut sink, json!({"op": "keys", "kind": "roundtrip", "alg": alg, "sk": sk_hex, "pk": hex::encode(pk.to_bytes())})),
            1 | 2 => {
                // text decoders
                let what = *pick(&mut rng, &["pub_string", "pub_string", "priv_string", "pub_hex", "priv_hex"]);
                let genuine = match what {
                    "pub_string" => pk.to_string(),
                    "priv_string" => kp.private().to_prefixed_string(),
                    "pub_hex" => pk.to_bytes_hex(),
                    _ => sk_hex.clone(),
                };
                let (text, m) = if rng.gen_range(0..5) == 0 { (genuine.clone(), "none".to_string()) } else { mutate_text(&mut rng, &genuine) };
                // sometimes decoded as the other algorithm
                let dalg = if rng.gen_range(0..5) == 0 { if alg == "ed25519" { "secp256r1" } else { "ed25519" } } else { alg };
                emit(&mut sink, json!({"op": "keys", "kind": "decode", "what": what, "alg": dalg, "text": text, "mutation": m, "from_alg": alg}));
            }
            3 => {
                // byte decoders, incl. the uncompressed SEC1 form
                let what = *pick(&mut rng, &["pub_bytes", "pub_bytes", "priv_bytes", "pub_proto", "pub_proto"]);
                let dalg = if rng.gen_range(0..5) == 0 { if alg == "ed25519" { "secp256r1" } else { "ed25519" } } else { alg };
                let (bytes, m) = match what {
                    "pub_bytes" => {
                        if alg == "secp256r1" && rng.gen_range(0..4) == 0 {
                            let vk = p256::ecdsa::VerifyingKey::from_sec1_bytes(&pk.to_bytes()).unwrap();
                            (vk.to_encoded_point(false).as_bytes().to_vec(), "uncompressed sec1".to_string())
                        } else if rng.gen_range(0..4) == 0 {
                            (pk.to_bytes(), "none".to_string())
                        } else {
                            mutate_bytes(&mut rng, &pk.to_bytes())
                        }
                    }
                    "priv_bytes" => {
                        if rng.gen_range(0..4) == 0 { (kp.private().to_bytes().to_vec(), "none".to_string()) } else { mutate_bytes(&mut rng, &kp.private().to_bytes()) }
                    }
                    _ => {
                        let key = if rng.gen_range(0..3) == 0 { mutate_bytes(&mut rng, &pk.to_bytes()).0 } else { pk.to_bytes() };
                        proto_variant(&mut rng, if alg == "ed25519" { 0 } else { 1 }, &key)
                    }
                };
                emit(&mut sink, json!({"op": "keys", "kind": "decode", "what": what, "alg": dalg, "hex": hex::encode(bytes), "mutation": m, "from_alg": alg}));
            }
            4 => {
                // DER and PEM decoders (implementation-only oracle, except ed25519 public DER)
                let what = *pick(&mut rng, &["pub_der", "pub_der_alg", "priv_der", "priv_der_alg", "pub_pem", "pub_pem_alg", "priv_pem", "priv_pem_alg"]);
                let dalg = if rng.gen_range(0..4) == 0 { if alg == "ed25519" { "secp256r1" } else { "ed25519" } } else { alg };
                if what.contains("der") {
                    let genuine = if what.starts_with("pub") { pk.to_der().unwrap() } else { kp.private().to_der().unwrap().to_vec() };
                    let (bytes, m) = if rng.gen_range(0..4) == 0 { (genuine.clone(), "none".to_string()) } else { mutate_bytes(&mut rng, &genuine) };
                    emit(&mut sink, json!({"op": "keys", "kind": "decode", "what": what, "alg": dalg, "hex": hex::encode(bytes), "mutation": m, "from_alg": alg, "genuine_key": if what.starts_with("pub") { hex::encode(pk.to_bytes()) } else { sk_hex.clone() }}));
                } else {
                    let genuine = if what.starts_with("pub") { pk.to_pem().unwrap() } else { kp.private().to_pem().unwrap().to_string() };
                    let (text, m) = match rng.gen_range(0..6) {
                        0 => (genuine.clone(), "none".to_string()),
                        1 => (if genuine.contains("PUBLIC") { genuine.replace("PUBLIC", "PRIVATE") } else { genuine.replace("PRIVATE", "PUBLIC") }, "label swapped".to_string()),
                        2 => (genuine.lines().skip(1).collect::<Vec<_>>().join("\n"), "no header".to_string()),
                        3 => (genuine.trim_end().trim_end_matches('-').to_string(), "footer cut".to_string()),
                        4 => {
                            let mut c: Vec<char> = genuine.chars().collect();
                            let i = rng.gen_range(28..c.len() - 28);
                            c[i] = if c[i] == 'A' { 'B' } else { 'A' };
                            (c.iter().collect(), format!("body char {i}"))
                        }
                        _ => (format!("{genuine}{genuine}"), "twice".to_string()),
                    };
                    emit(&mut sink, json!({"op": "keys", "kind": "decode", "what": what, "alg": dalg, "text": text, "mutation": m, "from_alg": alg, "genuine_key": if what.starts_with("pub") { hex::encode(pk.to_bytes()) } else { sk_hex.clone() }}));
                }
            }
            _ => {
                let msg: Vec<u8> = (0..rng.gen_range(0..40)).map(|_| rng.gen()).collect();
                let sig_mut = *pick(&mut rng, &["none", "none", "none", "truncate", "extend", "empty", "flip", "flip", "other-alg"]);
                let mut case = json!({"op": "keys", "kind": "verify", "alg": alg, "sk": sk_hex, "msg": hex::encode(&msg), "sig_mut": sig_mut, "at": rng.gen_range(0..200), "bit": rng.gen_range(0..8)});
                match rng.gen_range(0..4) {
                    0 => {
                        // another key, of either algorithm
                        let other = KeyPair::new_with_rng(if rng.gen() { Algorithm::Ed25519 } else { Algorithm::Secp256r1 }, &mut rng).public();
                        case["vk"] = json!({"alg": alg_name(&other), "bytes": hex::encode(other.to_bytes())});
                    }
                    1 => {
                        let mut m2 = msg.clone();
                        if m2.is_empty() || rng.gen() {
                            m2.push(0);
                        } else {
                            let i = rng.gen_range(0..m2.len());
                            m2[i] ^= 1;
                        }
                        case["vmsg"] = json!(hex::encode(m2));
                    }
                    _ => {}
                }
                emit(&mut sink, case);
            }
        }
    }
    // keys in Datalog source: lists of scopes in which a key - genuine, of the wrong length, of odd length, with a
    // bad prefix - comes first, last, or after `authority` / `previous`
    {
        let mut rng = case_rng(opts.seed, 20, 0);
        for i in 0..(if opts.thorough { 4000 } else { 240 }) {
            let alg = if rng.gen() { Algorithm::Ed25519 } else { Algorithm::Secp256r1 };
            let kp = KeyPair::new_with_rng(alg, &mut rng);
            let genuine = kp.public().to_string();
            let n = rng.gen_range(1..4);
            let mut scopes: Vec<String> = vec![];
            let mut keys_j: Vec<Value> = vec![];
            for _ in 0..n {
                match rng.gen_range(0..6) {
                    0 => scopes.push("authority".into()),
                    1 => scopes.push("previous".into()),
                    2 | 3 => {
                        scopes.push(genuine.clone());
                        keys_j.push(json!(genuine));
                    }
                    _ => {
                        let (pre, hexs) = genuine.split_once('/').unwrap();
                        let bad = match rng.gen_range(0..5) {
                            0 => format!("{pre}/{}", &hexs[..hexs.len() - 2]),
                            1 => format!("{pre}/{}00", hexs),
                            2 => format!("{pre}/abcd"),
                            3 => format!("{}/{}", if pre == "ed25519" { "secp256r1" } else { "ed25519" }, hexs),
                            _ => format!("{pre}/{}", "00".repeat(if pre == "ed25519" { 31 } else { 32 })),
                        };
                        scopes.push(bad.clone());
                        keys_j.push(json!(bad));
                    }
                }
            }
            let which = ["rule", "check", "policy", "block", "biscuit", "authorizer"][i % 6];
            let list = scopes.join(", ");
            let text = match which {
                "rule" => format!("h($x) <- f($x) trusting {list}"),
                "check" => format!("check if f($x) trusting {list}"),
                "policy" => format!("allow if f($x) trusting {list}"),
                "block" | "biscuit" => if i % 12 < 6 { format!("trusting {list};\nf(1);\n") } else { format!("check if f($x) trusting {list};\n") },
                _ => format!("check if f($x) trusting {list};\nallow if true;\n"),
            };
            emit(&mut sink, json!({"op": "keys", "kind": "source", "which": which, "text": text, "keys": keys_j}));
        }
    }
    // ed25519 public keys of small order: whatever the message, no signature may verify under them (strict
    // verification refuses the key; a lax one accepts R = small-order point, s = 0 for one message in `order`)
    const SMALL_ORDER: [&str; 6] = [
        "0100000000000000000000000000000000000000000000000000000000000000",
        "ecffffffffffffffffffffffffffffffffffffffffffffffffffffffffffff7f",
        "0000000000000000000000000000000000000000000000000000000000000000",
        "0000000000000000000000000000000000000000000000000000000000000080",
        "26e8958fc2b227b045c3f489f2ef98f0d5dfac05d3c63339b13802886d53fc05",
        "c7176a703d4dd84fba3c0b760d10670f2a2053fa2c39ccc64ec7fd7792ac037a",
    ];
    {
        let mut rng = case_rng(opts.seed, 19, 0);
        let kp = KeyPair::new_with_rng(Algorithm::Ed25519, &mut rng);
        let sk_hex = hex::encode(kp.private().to_bytes());
        for so in SMALL_ORDER.iter() {
            if PublicKey::from_bytes(&hex::decode(so).unwrap(), Algorithm::Ed25519).is_err() {
                continue;
            }
            for rp in [SMALL_ORDER[0], so] {
                for _ in 0..(if opts.thorough { 24 } else { 6 }) {
                    let msg: Vec<u8> = (0..rng.gen_range(0..40)).map(|_| rng.gen()).collect();
                    emit(&mut sink, json!({"op": "keys", "kind": "verify", "alg": "ed25519", "sk": sk_hex, "msg": hex::encode(&msg), "sig_mut": "keyless",
                        "r_point": rp, "at": 0, "bit": 0, "vk": {"alg": "ed25519", "bytes": so}}));
                }
            }
        }
    }
    let total = sink.count;
    sink.finish();
    let st = json!({"stream": "keys", "cases": total, "histogram": stats});
    std::fs::write(format!("{}/keys.stats.json", opts.out), st.to_string()).unwrap();
}
