//! stream `atten`: a token and the same token with one more block, same authorizer (C03)
use crate::common::*;
use crate::prog::*;
use crate::s_authz;
use rand::Rng;
use serde_json::{json, Value};
use std::collections::BTreeMap;

fn with_ext(case: &Value) -> Value {
    let mut c = case.clone();
    let ext = c["extension"].clone();
    c["blocks"].as_array_mut().unwrap().push(ext);
    c
}

pub fn run_case(case: &Value, keys: &Keys) -> Value {
    let base = s_authz::run_case(case, keys);
    let ext = s_authz::run_case(&with_ext(case), keys);
    json!({"base": base, "ext": ext})
}

pub fn run(opts: &Opts) {
    let mut sink = Sink::new(opts, "atten");
    let mut krng = case_rng(7, 7, 7);
    let keys = Keys::new(&mut krng);
    let mut stats: BTreeMap<String, u64> = BTreeMap::new();
    let mut emit = |sink: &mut Sink, case: Value, class: &str| {
        let out = run_case(&case, &keys);
        let b = out["base"].get("r").and_then(|x| x.as_str()).unwrap_or("PANIC").to_string();
        let e = out["ext"].get("r").and_then(|x| x.as_str()).unwrap_or("PANIC").to_string();
        *stats.entry(format!("{class}/base:{b}/ext:{e}")).or_insert(0) += 1;
        if !case["extension"]["ext"].is_null() {
            *stats.entry("extension_third_party".into()).or_insert(0) += 1;
        }
        sink.put(&case, &out);
    };
    if let Some(path) = &opts.replay {
        for case in read_cases(path) {
            emit(&mut sink, case, "replay");
        }
        sink.finish();
        return;
    }
    for case in read_cases("corpus/atten.jsonl") {
        emit(&mut sink, case, "corpus");
    }
    let n = if opts.n > 0 { opts.n } else if opts.thorough { 20_000 } else { 800 };
    for i in 0..n {
        let mut rng = case_rng(opts.seed, 3, i as u64);
        // every fifth case has expressions that fail for some bindings (a run that ends in an error is an outcome too)
        let o = GenOpts { err_rate: if i % 5 == 4 { 4 } else { 0 }, max_blocks: 3 };
        let mut pool = Pool::default();
        let nb = rng.gen_range(1..=o.max_blocks);
        let mut authority = vec![];
        let blocks: Vec<Value> = (0..nb).map(|k| gen_block_j(&mut rng, &keys, &mut pool, k, &o, &mut authority)).collect();
        let az = gen_az_j(&mut rng, &keys, &mut pool, &o, &authority);
        // the appended block: mostly facts and rules that try to satisfy what the others check
        let mut extension = gen_block_j(&mut rng, &keys, &mut pool, nb, &o, &mut authority);
        if rng.gen_range(0..3) == 0 {
            extension["checks"] = json!([]);
        }
        if rng.gen_range(0..4) == 0 {
            extension["sc"] = json!(["previous"]);
        }
        let queries = gen_queries_j(&mut rng, &keys, &mut pool);
        let case = json!({"op": "atten", "pool": pool.strs, "blocks": blocks, "extension": extension, "az": az,
                          "limits": {"f": 1000, "i": 100}, "queries": queries});
        emit(&mut sink, case, "gen");
    }
    let total = sink.count;
    sink.finish();
    let st = json!({"stream": "atten", "cases": total, "histogram": stats});
    std::fs::write(format!("{}/atten.stats.json", opts.out), st.to_string()).unwrap();
}
