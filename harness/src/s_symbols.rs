//! stream `symbols`: the token's symbol and public-key tables over histories mixing the verified
//! and the unverified API; the in-memory object against the reloaded one after every step (C12)
use crate::common::*;
use crate::prog::*;
use crate::s_authz;
use crate::s_versions::craft_append;
use biscuit_auth::builder::{BiscuitBuilder, CheckKind, Check, Expression, Op, Predicate, Rule, Scope, Term};
use biscuit_auth::format::schema;
use biscuit_auth::{Biscuit, KeyPair, UnverifiedBiscuit};
use prost::Message;
use rand::rngs::StdRng;
use rand::Rng;
use serde_json::{json, Value};
use std::collections::BTreeMap;

enum Tok {
    V(Biscuit),
    U(UnverifiedBiscuit),
}

impl Tok {
    fn bytes(&self) -> Vec<u8> {
        match self {
            Tok::V(t) => t.to_vec().unwrap(),
            Tok::U(t) => t.to_vec().unwrap(),
        }
    }
    fn count(&self) -> usize {
        match self {
            Tok::V(t) => t.block_count(),
            Tok::U(t) => t.block_count(),
        }
    }
    fn sources(&self) -> Vec<String> {
        (0..self.count())
            .map(|i| match self {
                Tok::V(t) => t.print_block_source(i).unwrap_or_else(|e| format!("ERROR {:?}", e)),
                Tok::U(t) => t.print_block_source(i).unwrap_or_else(|e| format!("ERROR {:?}", e)),
            })
            .collect()
    }
    fn as_verified(&self, keys: &Keys) -> Result<Biscuit, String> {
        match self {
            Tok::V(t) => Ok(t.clone()),
            Tok::U(t) => t.clone().verify(keys.root.public()).map_err(|e| format!("{:?}", e)),
        }
    }
}

const WORDS: [&str; 8] = ["read", "resource", "a", "b", "file1", "shared", "x", "hostname"];

fn small_block(rng: &mut StdRng, keys: &Keys, pool: &mut Pool) -> Value {
    let w = |rng: &mut StdRng| pick(rng, &WORDS).to_string();
    let nf = rng.gen_range(1..3);
    let facts: Vec<Predicate> = (0..nf).map(|_| Predicate { name: w(rng), terms: vec![Term::Str(w(rng)), Term::Integer(rng.gen_range(0..3))] }).collect();
    let sc = |rng: &mut StdRng| -> Vec<Scope> {
        match rng.gen_range(0..4) {
            0 => vec![Scope::PublicKey(keys.ext[rng.gen_range(0..3)].public())],
            1 => vec![Scope::PublicKey(keys.ext[rng.gen_range(0..3)].public()), Scope::Authority],
            _ => vec![],
        }
    };
    let mut rules = vec![];
    if rng.gen_range(0..2) == 0 {
        rules.push(Rule::new(
            Predicate { name: w(rng), terms: vec![Term::Variable("v".into())] },
            vec![Predicate { name: w(rng), terms: vec![Term::Variable("v".into()), Term::Integer(0)] }],
            vec![],
            sc(rng),
        ));
    }
    let mut checks = vec![];
    if rng.gen_range(0..2) == 0 {
        checks.push(Check {
            kind: CheckKind::One,
            queries: vec![Rule::new(
                Predicate { name: "query".into(), terms: vec![] },
                vec![Predicate { name: w(rng), terms: vec![Term::Variable("v".into()), Term::Variable("u".into())] }],
                vec![Expression { ops: vec![Op::Value(Term::Variable("v".into())), Op::Value(Term::Str(w(rng))), Op::Binary(biscuit_auth::builder::Binary::HeterogeneousNotEqual)] }],
                sc(rng),
            )],
        });
    }
    let bsc = if rng.gen_range(0..5) == 0 { sc(rng) } else { vec![] };
    json!({
        "facts": facts.iter().map(|f| pred_j(f, pool)).collect::<Vec<_>>(),
        "rules": rules.iter().map(|r| rule_j(r, pool, keys)).collect::<Vec<_>>(),
        "checks": checks.iter().map(|c| check_j(c, pool, keys)).collect::<Vec<_>>(),
        "sc": bsc.iter().map(|s| scope_j(s, keys)).collect::<Vec<_>>(), "ext": null})
}

fn observe(tok: &Tok, keys: &Keys, case: &Value, pool: &[String]) -> Value {
    let bytes = tok.bytes();
    let mem = tok.sources();
    let rv = Biscuit::from(&bytes, keys.root.public());
    let ru = UnverifiedBiscuit::from(&bytes);
    let mut o = json!({"sources_mem": mem, "blocks": tok.count()});
    match &rv {
        Ok(t) => {
            o["sources_reloaded"] = json!(Tok::V(t.clone()).sources());
            o["block_symbols"] = json!((0..t.block_count()).map(|i| t.block_symbols(i).unwrap_or_default()).collect::<Vec<_>>());
            o["block_keys"] = json!((0..t.block_count()).map(|i| t.block_public_keys(i).map(|k| k.into_inner().iter().map(|k| keys.index_of(k)).collect::<Vec<_>>()).unwrap_or_default()).collect::<Vec<_>>());
            o["third_party"] = json!(t.external_public_keys().iter().map(|k| k.is_some()).collect::<Vec<_>>());
            o["authz_reloaded"] = s_authz::authorize_once(case, pool, keys, t);
        }
        Err(e) => {
            o["reload_error"] = json!(format!("{:?}", e).chars().take(120).collect::<String>());
        }
    }
    match &ru {
        Ok(t) => {
            o["sources_reloaded_unverified"] = json!(Tok::U(t.clone()).sources());
        }
        Err(e) => {
            o["reload_unverified_error"] = json!(format!("{:?}", e).chars().take(120).collect::<String>());
        }
    }
    match tok.as_verified(keys) {
        Ok(t) => {
            o["authz_mem"] = s_authz::authorize_once(case, pool, keys, &t);
        }
        Err(e) => {
            o["verify_error"] = json!(e);
        }
    }
    o
}

pub fn run_case(case: &Value, keys: &Keys) -> Value {
    let case = case.clone();
    let r = std::panic::catch_unwind(std::panic::AssertUnwindSafe(|| {
        let pool = pool_of(&case);
        if case["kind"] == "redeclare" {
            // a correctly signed first-party block whose declared tables are chosen by the case
            let mut base = BiscuitBuilder::new().merge(block_builder_of(&case["base_block"], &pool, keys).unwrap());
            for s in case["base_block"]["sc"].as_array().unwrap() {
                base = base.scope(scope_b(s, keys));
            }
            let base = base.build(&keys.root).unwrap();
            let blk = schema::Block {
                symbols: case["declared"]["syms"].as_array().unwrap().iter().map(|s| s.as_str().unwrap().to_string()).collect(),
                context: None,
                version: Some(3),
                facts_v2: vec![],
                rules_v2: vec![],
                checks_v2: vec![],
                scope: vec![],
                public_keys: case["declared"]["keys"].as_array().unwrap().iter().map(|k| keys.ext[k.as_u64().unwrap() as usize].public().to_proto()).collect(),
            };
            let mut data = vec![];
            blk.encode(&mut data).unwrap();
            let ext = if case["declared"]["tp"].as_bool().unwrap() { Some(&keys.ext[0]) } else { None };
            let bytes = craft_append(&base, data, ext, &KeyPair::new());
            let a = Biscuit::from(&bytes, keys.root.public());
            let b = UnverifiedBiscuit::from(&bytes);
            return json!({"load": a.is_ok(), "load_unverified": b.is_ok(),
                "error": a.err().map(|e| format!("{:?}", e).chars().take(100).collect::<String>())});
        }
        let mut tok: Option<Tok> = None;
        let mut steps = vec![];
        for op in case["ops"].as_array().unwrap() {
            let name = op["op"].as_str().unwrap();
            let res: Result<Tok, String> = match name {
                "build" => {
                    let bb = block_builder_of(&op["block"], &pool, keys).unwrap();
                    let mut b = BiscuitBuilder::new().merge(bb);
                    for s in op["block"]["sc"].as_array().unwrap() {
                        b = b.scope(scope_b(s, keys));
                    }
                    b.build(&keys.root).map(Tok::V).map_err(|e| format!("{:?}", e))
                }
                "append" => {
                    let bb = block_builder_of(&op["block"], &pool, keys).unwrap();
                    match tok.as_ref().unwrap() {
                        Tok::V(t) => t.append(bb).map(Tok::V).map_err(|e| format!("{:?}", e)),
                        Tok::U(t) => t.append(bb).map(Tok::U).map_err(|e| format!("{:?}", e)),
                    }
                }
                "append3p" => {
                    let bb = block_builder_of(&op["block"], &pool, keys).unwrap();
                    let kp = &keys.ext[op["key"].as_u64().unwrap() as usize];
                    match tok.as_ref().unwrap() {
                        Tok::V(t) => t
                            .third_party_request()
                            .and_then(|r| r.create_block(&kp.private(), bb))
                            .and_then(|b| t.append_third_party(kp.public(), b))
                            .map(Tok::V)
                            .map_err(|e| format!("{:?}", e)),
                        Tok::U(t) => t
                            .third_party_request()
                            .and_then(|r| r.create_block(&kp.private(), bb))
                            .and_then(|b| b.serialize())
                            .and_then(|b| t.append_third_party(&b))
                            .map(Tok::U)
                            .map_err(|e| format!("{:?}", e)),
                    }
                }
                "to_unverified" => UnverifiedBiscuit::from(&tok.as_ref().unwrap().bytes()).map(Tok::U).map_err(|e| format!("{:?}", e)),
                "to_verified" => Biscuit::from(&tok.as_ref().unwrap().bytes(), keys.root.public()).map(Tok::V).map_err(|e| format!("{:?}", e)),
                "verify_in_memory" => tok.as_ref().unwrap().as_verified(keys).map(Tok::V),
                other => panic!("unknown op {other}"),
            };
            match res {
                Ok(t) => {
                    steps.push(observe(&t, keys, &case, &pool));
                    tok = Some(t);
                }
                Err(e) => {
                    steps.push(json!({"op_error": e}));
                    break;
                }
            }
        }
        json!({"steps": steps})
    }));
    match r {
        Ok(v) => v,
        Err(e) => json!({"panic": panic_msg(e)}),
    }
}

pub fn run(opts: &Opts) {
    let mut sink = Sink::new(opts, "symbols");
    let mut krng = case_rng(7, 7, 7);
    let keys = Keys::new(&mut krng);
    let mut stats: BTreeMap<String, u64> = BTreeMap::new();
    let mut emit = |sink: &mut Sink, case: Value| {
        let out = run_case(&case, &keys);
        let k = if case["kind"] == "redeclare" {
            format!("redeclare/load:{}", out["load"])
        } else {
            format!("history/steps:{}", out.get("steps").and_then(|s| s.as_array()).map(|s| s.len()).unwrap_or(0))
        };
        *stats.entry(k).or_insert(0) += 1;
        sink.put(&case, &out);
    };
    if let Some(path) = &opts.replay {
        for case in read_cases(path) {
            emit(&mut sink, case);
        }
        sink.finish();
        return;
    }
    for case in read_cases("corpus/symbols.jsonl") {
        emit(&mut sink, case);
    }
    let n = if opts.n > 0 { opts.n } else if opts.thorough { 6_000 } else { 250 };
    for i in 0..n {
        let mut rng = case_rng(opts.seed, 12, i as u64);
        let mut pool = Pool::default();
        let mut ops = vec![json!({"op": "build", "block": small_block(&mut rng, &keys, &mut pool)})];
        for _ in 0..rng.gen_range(1..5) {
            ops.push(match rng.gen_range(0..7) {
                0 | 1 => json!({"op": "append", "block": small_block(&mut rng, &keys, &mut pool)}),
                2 | 3 => json!({"op": "append3p", "key": rng.gen_range(0..3), "block": small_block(&mut rng, &keys, &mut pool)}),
                4 => json!({"op": "to_unverified"}),
                5 => json!({"op": "to_verified"}),
                _ => json!({"op": "verify_in_memory"}),
            });
        }
        // an authorizer that trusts the keys in play, so that key references matter
        let o = GenOpts { err_rate: 0, max_blocks: 1 };
        let mut az = gen_az_j(&mut rng, &keys, &mut pool, &o, &[]);
        az["checks"] = json!([]);
        az["sc"] = json!([{"key": rng.gen_range(0..3)}]);
        let case = json!({"op": "symbols", "kind": "history", "pool": pool.strs, "ops": ops, "az": az,
            "limits": {"f": 1000, "i": 100}, "queries": []});
        emit(&mut sink, case);
    }
    // declared tables that redeclare something
    let mut rng = case_rng(opts.seed, 13, 0);
    for (syms, keysd, tp) in [
        (vec!["fresh"], vec![], false),
        (vec!["read"], vec![], false),
        (vec!["hostname", "fresh"], vec![], false),
        (vec!["base_sym"], vec![], false),
        (vec!["fresh", "fresh"], vec![], false),
        (vec![], vec![0u64], false),
        (vec![], vec![1u64], false),
        (vec![], vec![1u64, 1], false),
        (vec!["read"], vec![], true),
        (vec!["base_sym"], vec![0u64], true),
    ] {
        let mut pool = Pool::default();
        let base = json!({
            "facts": [pred_j(&Predicate { name: "base_sym".into(), terms: vec![Term::Integer(1)] }, &mut pool)],
            "rules": [], "checks": [],
            "sc": [scope_j(&Scope::PublicKey(keys.ext[0].public()), &keys)], "ext": null});
        let _ = rng.gen::<u8>();
        let case = json!({"op": "symbols", "kind": "redeclare", "pool": pool.strs, "base_block": base,
            "declared": {"syms": syms, "keys": keysd, "tp": tp}});
        emit(&mut sink, case);
    }
    let total = sink.count;
    sink.finish();
    let st = json!({"stream": "symbols", "cases": total, "histogram": stats});
    std::fs::write(format!("{}/symbols.stats.json", opts.out), st.to_string()).unwrap();
}
